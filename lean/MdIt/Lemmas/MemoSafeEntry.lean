/-
  Helper development for `Props/MemoSafe.lean` (continues `Lemmas/MemoSafeClosed.lean`):
  THE GUARD OF THE GUARDED TOKENIZER CAN ONLY MATTER AT THE ENTRY OF A NESTED LABEL FRAME.

  The ENTRY-CHECKED tokenizer `tokLoopE` / `skipTokenE` is the MODEL tokenizer (no guard on memo
  hits) whose nested `tokenize` call (the label run of the real-mode link rule) first tests the
  executable `closedB cache labelStart labelEnd` (`entryTok`); a failed test stops the run
  (`Panic.fuel`).  If the entry-checked run completes, the guarded run (`tokLoopG cfg true`,
  `Lemmas/InlineTotalDef.lean`) completes with the SAME state (`entry_total`), hence
  `entrySafe → memoSafe` and `parseInline` returns a tree (`parseInline_total_of_entrySafe`).

    * `skip_entry_free`   — look-ahead: guarded `skip_token` = entry-checked `skip_token` on the
                            closed states of a frame (look-ahead never calls `tokenize`);
    * `linkRule_real_E`, `runRule_real_E`, `firstRule_real_E`, `tokStep_E`
                          — real mode, generic over the callees (`TokEqHyp` for the nested runs);
    * `entry_total`       — the induction on fuel;
    * `parseInlineE_ok`, `entrySafe_memoSafe`, `parseInline_total_of_entrySafe`.
-/
import MdIt.Lemmas.MemoSafeClosed

namespace MdIt.Inline
open MdIt.InlineOps (Srcmap getSourcePosFor getMap byteLen slice)
open MdIt.C05 (WFMap MonoMap byteLen_append slice_ok_iff)

/-! ## the executable `Closed` -/

/-- `Closed m a b`, executable -/
def closedB (m : List (Nat × Nat)) (a b : Nat) : Bool :=
  m.all fun e => !(decide (a ≤ e.1) && decide (e.1 < b)) || decide (e.2 ≤ b)

theorem closedB_iff {m : List (Nat × Nat)} {a b : Nat} : closedB m a b = true ↔ Closed m a b := by
  unfold closedB Closed
  simp only [List.all_eq_true, Bool.or_eq_true, Bool.not_eq_true', Bool.and_eq_false_iff,
    decide_eq_false_iff_not, decide_eq_true_eq, Prod.forall]
  constructor
  · intro h k v hkv h1 h2
    rcases h k v hkv with (h' | h') | h'
    · exact absurd h1 h'
    · exact absurd h2 h'
    · exact h'
  · intro h k v hkv
    by_cases h1 : a ≤ k
    · by_cases h2 : k < b
      · exact .inr (h k v hkv h1 h2)
      · exact .inl (.inr h2)
    · exact .inl (.inl h1)

/-! ## the entry-checked tokenizer -/

/-- the nested `tokenize` call with the entry test: the memo must be closed on the new frame -/
def entryTok (tok : IState → Except Panic IState) (s : IState) : Except Panic IState :=
  if closedB s.cache s.pos s.posMax then tok s else .error .fuel

mutual
/-- `tokLoop` whose nested label runs are entry-checked -/
def tokLoopE (cfg : Cfg) : Nat → Nat → IState → Except Panic IState
  | fuel, end_, st =>
    if st.pos < end_ then
      match fuel with
      | 0 => .error .fuel
      | fuel + 1 =>
        match tokStep cfg (fun s => skipTokenE cfg fuel s)
            (entryTok fun s => tokLoopE cfg fuel s.posMax s) fuel st with
        | .error e => .error e
        | .ok st' => tokLoopE cfg fuel end_ st'
    else .ok st
/-- `skipToken` (NO guard on memo hits) over the entry-checked `tokenize` -/
def skipTokenE (cfg : Cfg) : Nat → IState → Except Panic IState
  | 0, _ => .error .fuel
  | fuel + 1, st =>
    match st.cache.lookup st.pos with
    | some x => .ok { st with pos := x }
    | none =>
      if st.level < cfg.maxNesting then
        skipStep cfg (fun s => skipTokenE cfg fuel s)
          (entryTok fun s => tokLoopE cfg fuel s.posMax s) fuel st
      else
        .ok { st with pos := st.posMax, cache := cacheInsert st.cache st.pos st.posMax }
end

/-- `parseInline` over the entry-checked tokenizer -/
def parseInlineE (cfg : Cfg) (content : List Char) (mapping : Srcmap) : Except Panic (List Node) :=
  match tokLoopE cfg (topFuel cfg content) (IState.init content mapping).posMax
      (IState.init content mapping) with
  | .error e => .error e
  | .ok st => .ok st.children

/-- the executable entry check: the entry-checked run completes (every nested label frame the real
    link rule entered started with a memo closed on it) -/
def entrySafe (cfg : Cfg) (content : List Char) (mapping : Srcmap) : Bool :=
  match parseInlineE cfg content mapping with
  | .ok _ => true
  | .error _ => false

/-! ## look-ahead: the guarded `skip_token` against the entry-checked one -/

/-- `skip_guard_free` with the entry-checked `skip_token` as the second callee (look-ahead never calls
    `tokenize`, so the entry test is never reached from it) -/
theorem skip_entry_free (cfg : Cfg) : ∀ fuel : Nat,
    SkipEqHyp (fun s => skipTokenG cfg true fuel s) (fun s => skipTokenE cfg fuel s) := by
  intro fuel
  induction fuel with
  | zero =>
    intro s lo _ _ _ _
    refine ⟨?_, ?_⟩
    · show skipTokenG cfg true 0 s = skipTokenE cfg 0 s
      unfold skipTokenG skipTokenE; rfl
    · intro s' h
      simp [skipTokenG] at h
  | succ f ih =>
    intro s lo hi hlt hc hlo
    show skipTokenG cfg true (f + 1) s = skipTokenE cfg (f + 1) s ∧
      ∀ s', skipTokenG cfg true (f + 1) s = .ok s' → New s.posMax s.cache s'.cache
    unfold skipTokenG skipTokenE
    cases hx : s.cache.lookup s.pos with
    | some x =>
      have hxle : x ≤ s.posMax := closed_hit hc hlo hlt hx
      simp only
      rw [if_neg (by simp only [true_and, Nat.not_lt]; exact hxle)]
      refine ⟨rfl, ?_⟩
      intro s' h
      simp only [Except.ok.injEq] at h; subst h
      exact New.refl _ _
    | none =>
      simp only
      by_cases hl : s.level < cfg.maxNesting
      · simp only [if_pos hl]
        exact skipStep_eq (skipTokenG_calm cfg true f) (skipTokenG_T cfg f) ih f s lo hi hlt hc hlo
      · simp only [if_neg hl]
        refine ⟨by trivial, ?_⟩
        intro s' h
        simp only [Except.ok.injEq] at h; subst h
        exact (New.refl _ _).insert (Nat.le_refl _)

/-! ## real mode, generic over the callees -/

/-- the nested tokenizers: whenever the entry-checked one completes (the entry test is INSIDE it), the
    guarded one completes with the same state, and only entries ending inside the frame were added -/
def TokEqHyp (tokG tokE : IState → Except Panic IState) : Prop :=
  ∀ lo s, Good lo s → MemoB s → ∀ s', tokE s = .ok s' →
    tokG s = .ok s' ∧ New s.posMax s.cache s'.cache

/-- the start state of the nested label run is good (the `hnest` step of `linkRule_real_T`) -/
theorem nested_good {cfg : Cfg} {skip : IState → Except Panic IState} (hq : CalmFn skip)
    (hs : SkipHypT skip) {fuel : Nat} {en : Bool} {offset : Nat} {lo : Nat} {st : IState}
    (hg : Good lo st) (hm : MemoB st)
    (hb : Boundary st.src (st.pos + offset + 1)) (hle : st.pos + offset + 1 ≤ st.posMax)
    {res : LinkRes} {st1 : IState}
    (he : parseLink cfg skip fuel st (st.pos + offset) en = .ok (some res, st1)) :
    ∃ lo', Good lo' (IState.mk st1.src st1.srcmap res.labelStart res.labelEnd
        (st1.level + 1) (st1.linkLevel + 1) st1.cache st1.backticks [] []) ∧
      MemoB (IState.mk st1.src st1.srcmap res.labelStart res.labelEnd
        (st1.level + 1) (st1.linkLevel + 1) st1.cache st1.backticks [] []) := by
  have hi := hg.linv hm
  have hpl := parseLink_T (cfg := cfg) hq hs fuel st (st.pos + offset) en hi hb hle
  obtain ⟨a, b, c, d⟩ := hpl.2 _ _ he
  have hres := d res rfl
  obtain ⟨rx, hrx⟩ := hres.bracket
  have hm1 : MapOK st1.src st1.srcmap := by rw [b.src, b.srcmap]; exact hg.map
  obtain ⟨lo', hlo'⟩ := C05.translate_total st1.srcmap hm1.wf res.labelStart
  refine ⟨lo', ⟨hres.labelLe, ?_, ?_, hm1, ?_, ?_, ?_⟩, a.memo⟩
  · show Boundary st1.src res.labelStart
    rw [b.src, hres.labelStart]; exact hb
  · show Boundary st1.src res.labelEnd
    rw [b.src]; exact (slice_boundaries hrx).1
  · show EntStop st1.src res.labelEnd
    intro pre c post hsrc hl
    obtain ⟨p, q, e, l1, _⟩ := (slice_ok_iff _ _ _ _).mp hrx
    rw [b.src] at hsrc
    have := C05.append_inj_byteLen pre (c :: post) p (']' :: rx ++ q)
      (by rw [← hsrc, e]; simp) (by rw [hl, l1])
    have hc : c = ']' := by
      have h2 := this.2
      simp only [List.cons_append, List.cons.injEq] at h2
      exact h2.1
    rw [hc]; exact isEntChar_bracket
  · exact ⟨⟨lo', hlo', Nat.le_refl _⟩, trivial, markersOK_nil, by intro init last hcs; simp at hcs⟩
  · intro k l hkl; simp at hkl

theorem linkRule_real_E {cfg : Cfg} {skipG skipE tokG tokE : IState → Except Panic IState}
    (hq : CalmFn skipG) (hs : SkipHypT skipG) (he : SkipEqHyp skipG skipE)
    (hte : TokEqHyp tokG tokE) (fuel : Nat) (mk : List Nat → Option (List Char) → Val) (en : Bool)
    (offset : Nat) {lo : Nat} (st : IState) (lo' : Nat) (hg : Good lo st) (hm : MemoB st)
    (hb : Boundary st.src (st.pos + offset + 1)) (hle : st.pos + offset + 1 ≤ st.posMax)
    (hc : Closed st.cache lo' st.posMax) (hlo : lo' ≤ st.pos) :
    ∀ o st', linkRule cfg skipE tokE fuel mk en offset st false = .ok (o, st') →
      linkRule cfg skipG tokG fuel mk en offset st false = .ok (o, st') ∧
      New st.posMax st.cache st'.cache := by
  have hi := hg.linv hm
  have hplT := parseLink_T (cfg := cfg) hq hs fuel st (st.pos + offset) en hi hb hle
  have hpl := parseLink_eq (cfg := cfg) hq hs he fuel st (st.pos + offset) lo' en hi hb hle hc
    (by omega)
  intro o st'
  unfold linkRule
  simp only
  rw [← hpl.1]
  cases hp : parseLink cfg skipG fuel st (st.pos + offset) en with
  | error e => intro h; simp at h
  | ok p =>
    obtain ⟨o1, st1⟩ := p
    have hn1 := hpl.2 _ _ hp
    obtain ⟨a, b, c, d⟩ := hplT.2 _ _ hp
    cases o1 with
    | none =>
      simp only
      intro h
      simp only [Except.ok.injEq, Prod.mk.injEq] at h; obtain ⟨rfl, rfl⟩ := h
      exact ⟨rfl, hn1⟩
    | some res =>
      have hres := d res rfl
      obtain ⟨lo2, hg2, hm2⟩ := nested_good hq hs hg hm hb hle hp
      simp only [Bool.false_eq_true, if_false]
      cases hE : tokE (IState.mk st1.src st1.srcmap res.labelStart res.labelEnd
          (st1.level + 1) (st1.linkLevel + 1) st1.cache st1.backticks [] []) with
      | error e => intro h; simp at h
      | ok st3 =>
        obtain ⟨hG, hn3⟩ := hte lo2 _ hg2 hm2 st3 hE
        have hn3' : New res.labelEnd st1.cache st3.cache := hn3
        rw [hG]
        simp only
        intro h
        refine ⟨h, ?_⟩
        have hcache : st'.cache = st3.cache := by
          split at h
          · simp at h
          · split at h
            · simp at h
            · split at h
              · simp at h
              · simp only [Except.ok.injEq, Prod.mk.injEq] at h; obtain ⟨_, rfl⟩ := h
                rfl
        rw [hcache]
        have h3 := hres.endGt; have h4 := hres.endLe
        exact hn1.trans (hn3'.mono (by omega))

theorem runRule_real_E {cfg : Cfg} {skipG skipE tokG tokE : IState → Except Panic IState}
    (hq : CalmFn skipG) (hs : SkipHypT skipG) (he : SkipEqHyp skipG skipE)
    (hte : TokEqHyp tokG tokE) (fuel : Nat) (id : RuleId) {lo : Nat} (st : IState) (lo' : Nat)
    (hg : Good lo st) (hm : MemoB st) (hlt : st.pos < st.posMax)
    (hc : Closed st.cache lo' st.posMax) (hlo : lo' ≤ st.pos) :
    ∀ o st', runRule cfg skipE tokE fuel id st false = .ok (o, st') →
      runRule cfg skipG tokG fuel id st false = .ok (o, st') ∧ New st.posMax st.cache st'.cache := by
  by_cases hflat : id.isFlat = true
  · have heq : runRule cfg skipE tokE fuel id st false = runRule cfg skipG tokG fuel id st false := by
      unfold runRule
      cases id with
      | link => simp [RuleId.isFlat] at hflat
      | image => simp [RuleId.isFlat] at hflat
      | _ => rfl
    intro o st' h
    rw [heq] at h
    refine ⟨h, ?_⟩
    rw [runRule_flat_cache hflat h]
    exact New.refl _ _
  · have hi := hg.linv hm
    obtain ⟨w, hw, hsl, hlen⟩ := hi.window
    cases id with
    | link =>
      unfold runRule
      simp only
      unfold ruleLink
      rw [hw]
      simp only [liftR]
      cases w with
      | nil => simp only [byteLen] at hlen; omega
      | cons c rest =>
        simp only
        by_cases hcb : c = '['
        · subst hcb
          simp only [ne_eq, not_true_eq_false, if_false]
          obtain ⟨hb, hle⟩ := after_first (by decide) hsl
          exact linkRule_real_E (cfg := cfg) hq hs he hte fuel Val.link false 0 st lo' hg hm hb hle
            hc hlo
        · simp only [ne_eq, hcb, not_false_eq_true, if_true]
          intro o st' h
          refine ⟨h, ?_⟩
          simp only [Except.ok.injEq, Prod.mk.injEq] at h; obtain ⟨_, rfl⟩ := h
          exact New.refl _ _
    | image =>
      unfold runRule
      simp only
      unfold ruleImage
      rw [hw]
      simp only [liftR]
      split
      · next e heq => simp at heq
      · next r heq =>
        simp only [Except.ok.injEq] at heq
        subst heq
        obtain ⟨hb, hle⟩ := after_second (by decide) (by decide) hsl
        exact linkRule_real_E (cfg := cfg) hq hs he hte fuel Val.image true 1 st lo' hg hm hb hle
          hc hlo
      · intro o st' h
        refine ⟨h, ?_⟩
        simp only [Except.ok.injEq, Prod.mk.injEq] at h; obtain ⟨_, rfl⟩ := h
        exact New.refl _ _
    | _ => simp [RuleId.isFlat] at hflat

theorem firstRule_real_E {cfg : Cfg}
    (hsz : ∀ mk csw, RuleId.emph mk csw ∈ cfg.chain → mk.utf8Size = 1)
    {skipG skipE tokG tokE : IState → Except Panic IState}
    (hq : CalmFn skipG) (hs : SkipHypT skipG) (he : SkipEqHyp skipG skipE)
    (ht : TokHypT tokG) (hr : RangesFn tokG) (hte : TokEqHyp tokG tokE) (fuel : Nat) {lo : Nat}
    (lo' : Nat) :
    ∀ (rules : List RuleId), (∀ id ∈ rules, id ∈ cfg.chain) →
      ∀ (st : IState), Good lo st → MemoB st → st.pos < st.posMax →
      Closed st.cache lo' st.posMax → lo' ≤ st.pos →
      ∀ o st', firstRule (fun id s => runRule cfg skipE tokE fuel id s false) rules st = .ok (o, st') →
        firstRule (fun id s => runRule cfg skipG tokG fuel id s false) rules st = .ok (o, st') ∧
        New st.posMax st.cache st'.cache := by
  intro rules
  induction rules with
  | nil =>
    intro _ st _ _ _ _ _ o st' h
    unfold firstRule at h ⊢
    refine ⟨h, ?_⟩
    simp only [Except.ok.injEq, Prod.mk.injEq] at h; obtain ⟨_, rfl⟩ := h
    exact New.refl _ _
  | cons r rs ih =>
    intro hall st hg hm hlt hc hlo o st'
    have hE := runRule_real_E (cfg := cfg) hq hs he hte fuel r st lo' hg hm hlt hc hlo
    have hT := runRule_real_T hsz hq hs ht hr fuel (hall r (by simp)) st hg hm hlt
    unfold firstRule
    cases hrE : runRule cfg skipE tokE fuel r st false with
    | error e => intro h; simp at h
    | ok p =>
      obtain ⟨o1, st1⟩ := p
      obtain ⟨hG, hn1⟩ := hE o1 st1 hrE
      rw [hG]
      cases o1 with
      | some n =>
        simp only
        intro h
        refine ⟨h, ?_⟩
        simp only [Except.ok.injEq, Prod.mk.injEq] at h; obtain ⟨_, rfl⟩ := h
        exact hn1
      | none =>
        simp only
        have s1 := hT.ok _ _ hG
        have hg1 : Good lo st1 := Good.of_add_zero (by simpa using s1.good)
        have hp1 := s1.nonePos rfl
        intro h
        have h2 := ih (fun id hid => hall id (List.mem_cons_of_mem _ hid)) st1 hg1 s1.memo
          (by rw [hp1, s1.frame.posMax]; exact hlt)
          (by rw [s1.frame.posMax]; exact hc.of_new hn1) (by rw [hp1]; exact hlo) o st' h
        refine ⟨h2.1, ?_⟩
        have := h2.2
        rw [s1.frame.posMax] at this
        exact hn1.trans this

/-- **one iteration of the entry-checked tokenizer loop is one iteration of the guarded one** -/
theorem tokStep_E {cfg : Cfg} (hsz : ∀ mk csw, RuleId.emph mk csw ∈ cfg.chain → mk.utf8Size = 1)
    {skipG skipE tokG tokE : IState → Except Panic IState}
    (hq : CalmFn skipG) (hs : SkipHypT skipG) (he : SkipEqHyp skipG skipE)
    (ht : TokHypT tokG) (hr : RangesFn tokG) (hte : TokEqHyp tokG tokE) (fuel : Nat) {lo : Nat}
    (st : IState) (lo' : Nat) (hg : Good lo st) (hm : MemoB st) (hlt : st.pos < st.posMax)
    (hc : Closed st.cache lo' st.posMax) (hlo : lo' ≤ st.pos) :
    ∀ st', tokStep cfg skipE tokE fuel st = .ok st' →
      tokStep cfg skipG tokG fuel st = .ok st' ∧ New st.posMax st.cache st'.cache := by
  -- the fall-back keeps the memo
  have hfall : ∀ (st1 st' : IState),
      (match firstChar st1 with
        | .error e => .error e
        | .ok ch =>
          match liftR (st1.pushText st1.pos (st1.pos + ch.utf8Size)) with
          | .error e => .error e
          | .ok st'' => .ok { st'' with pos := st''.pos + ch.utf8Size }) = (.ok st' : Except Panic IState) →
      st'.cache = st1.cache := by
    intro st1 st' h
    split at h
    · simp at h
    · next ch _ =>
      split at h
      · simp at h
      · next st2 hp =>
        simp only [Except.ok.injEq] at h; subst h
        obtain ⟨cs, _, rfl⟩ := pushText_eq (liftR_ok.mp hp)
        rfl
  intro st'
  unfold tokStep
  simp only
  by_cases hl : st.level < cfg.maxNesting
  · simp only [if_pos hl]
    have hfr := firstRule_real_E hsz hq hs he ht hr hte fuel lo' cfg.chain (fun _ h => h) st hg hm hlt
      hc hlo
    cases hfE : firstRule (fun id s => runRule cfg skipE tokE fuel id s false) cfg.chain st with
    | error e => intro h; simp at h
    | ok p =>
      obtain ⟨o1, st1⟩ := p
      obtain ⟨hG, hn1⟩ := hfr o1 st1 hfE
      rw [hG]
      cases o1 with
      | some len =>
        simp only
        intro h
        refine ⟨h, ?_⟩
        simp only [Except.ok.injEq] at h; subst h
        exact hn1
      | none =>
        simp only
        intro h
        refine ⟨h, ?_⟩
        rw [hfall st1 st' h]
        exact hn1
  · simp only [if_neg hl]
    intro h
    refine ⟨h, ?_⟩
    rw [hfall st st' h]
    exact New.refl _ _

/-! ## the induction on fuel -/

/-- **a completed entry-checked run is a completed guarded run**, with the same final state: from every
    good state whose memo is closed on `[lo', posMax)` with `lo' ≤ pos`, at every fuel -/
theorem entry_total (cfg : Cfg)
    (hsz : ∀ mk csw, RuleId.emph mk csw ∈ cfg.chain → mk.utf8Size = 1) :
    ∀ (fuel lo lo' : Nat) (st : IState), Good lo st → MemoB st →
      Closed st.cache lo' st.posMax → lo' ≤ st.pos →
      ∀ st', tokLoopE cfg fuel st.posMax st = .ok st' →
        tokLoopG cfg true fuel st.posMax st = .ok st' ∧ New st.posMax st.cache st'.cache := by
  intro fuel
  induction fuel with
  | zero =>
    intro lo lo' st hg hm hc hlo st'
    unfold tokLoopE tokLoopG
    by_cases hlt : st.pos < st.posMax
    · simp only [if_pos hlt]
      intro h; simp at h
    · simp only [if_neg hlt]
      intro h
      refine ⟨h, ?_⟩
      simp only [Except.ok.injEq] at h; subst h
      exact New.refl _ _
  | succ f ih =>
    intro lo lo' st hg hm hc hlo st'
    unfold tokLoopE tokLoopG
    by_cases hlt : st.pos < st.posMax
    · simp only [if_pos hlt]
      have hq := skipTokenG_calm cfg true f
      have hsT := skipTokenG_T cfg f
      have hr := rangesFnG cfg true f
      have ht : TokHypT (fun s => tokLoopG cfg true f s.posMax s) :=
        fun lo s hg hm => ((guarded_total cfg hsz f).2 lo s hg hm).tokT
      have hte : TokEqHyp (fun s => tokLoopG cfg true f s.posMax s)
          (entryTok fun s => tokLoopE cfg f s.posMax s) := by
        intro lo2 s hg2 hm2 s' hE
        unfold entryTok at hE
        split at hE
        · next hcb => exact ih lo2 s.pos s hg2 hm2 (closedB_iff.mp hcb) (Nat.le_refl _) s' hE
        · simp at hE
      cases hsE : tokStep cfg (fun s => skipTokenE cfg f s)
          (entryTok fun s => tokLoopE cfg f s.posMax s) f st with
      | error e => intro h; simp at h
      | ok st1 =>
        obtain ⟨hG, hn1⟩ := tokStep_E hsz hq hsT (skip_entry_free cfg f) ht hr hte f st lo' hg hm hlt
          hc hlo st1 hsE
        rw [hG]
        simp only
        obtain ⟨hg1, hm1, f1, hadv⟩ := (tokStep_T hsz hq hsT ht hr f st hg hm hlt).2 st1 hG
        have hrec := ih lo lo' st1 hg1 hm1 (by rw [f1.posMax]; exact hc.of_new hn1) (by omega) st'
        rw [f1.posMax] at hrec
        intro h
        obtain ⟨a, b⟩ := hrec h
        exact ⟨a, hn1.trans b⟩
    · simp only [if_neg hlt]
      intro h
      refine ⟨h, ?_⟩
      simp only [Except.ok.injEq] at h; subst h
      exact New.refl _ _

/-! ## corollaries -/

theorem memoB_init' (content : List Char) (mapping : Srcmap) :
    MemoB (IState.init content mapping) := by
  intro k v h; simp [IState.init] at h

/-- a completed entry-checked inline run is a completed guarded inline run -/
theorem parseInlineE_ok (cfg : Cfg)
    (hsz : ∀ mk csw, RuleId.emph mk csw ∈ cfg.chain → mk.utf8Size = 1) {content : List Char}
    {mapping : Srcmap} {cs : List Node} (hm : MapOK content mapping)
    (h : parseInlineE cfg content mapping = .ok cs) : parseInlineG cfg content mapping = .ok cs := by
  obtain ⟨lo, _, hg⟩ := init_good hm
  unfold parseInlineE at h
  split at h
  · simp at h
  · next st hst =>
    have := (entry_total cfg hsz _ lo 0 _ hg (memoB_init' content mapping) (Closed.nil _ _)
      (Nat.zero_le _) st hst).1
    unfold parseInlineG
    rw [this]
    exact h

/-- **the entry check implies the memo check** -/
theorem entrySafe_memoSafe (cfg : Cfg)
    (hsz : ∀ mk csw, RuleId.emph mk csw ∈ cfg.chain → mk.utf8Size = 1) {content : List Char}
    {mapping : Srcmap} (hm : MapOK content mapping) (h : entrySafe cfg content mapping = true) :
    memoSafe cfg content mapping = true := by
  unfold entrySafe at h
  split at h
  · next cs hcs =>
    unfold memoSafe
    rw [parseInlineE_ok cfg hsz hm hcs]
  · simp at h

/-- **`parseInline` is total whenever the entry check passes** -/
theorem parseInline_total_of_entrySafe (cfg : Cfg)
    (hsz : ∀ mk csw, RuleId.emph mk csw ∈ cfg.chain → mk.utf8Size = 1) {content : List Char}
    {mapping : Srcmap} (hm : MapOK content mapping) (h : entrySafe cfg content mapping = true) :
    ∃ cs, parseInline cfg content mapping = .ok cs := by
  unfold entrySafe at h
  split at h
  · next cs hcs => exact ⟨cs, parseInlineG_ok (parseInlineE_ok cfg hsz hm hcs)⟩
  · simp at h

/-! ## examples -/

/-- one-line contents: the table `[(0, 0)]` is `MapOK` (`mapOK_single` of `Props/InlineTotal.lean`,
    restated: that module is not imported here) -/
theorem mapOK_singleE (content : List Char) : MapOK content [(0, 0)] := by
  refine ⟨⟨⟨0, _, rfl⟩, by decide⟩, ?_, ?_⟩
  · intro i k1 v1 k2 v2 h1 h2
    match i, h1, h2 with
    | 0, h1, h2 => simp at h2
    | n + 1, h1, h2 => simp at h1
  · intro i k v h hk
    match i, h with
    | 0, h => simp only [List.getElem?_cons_zero, Option.some.injEq, Prod.mk.injEq] at h; omega
    | n + 1, h => simp at h

/-- every rule incl. link + image, `*` emphasis, a reference map with the label `a` -/
def entryCfg (maxNesting : Nat) : Cfg :=
  { exCfg maxNesting with refs := some [([97], { dest := [120], title := none })] }

theorem entryCfg_hsz (n : Nat) :
    ∀ mk csw, RuleId.emph mk csw ∈ (entryCfg n).chain → mk.utf8Size = 1 := by
  intro mk csw h
  simp only [entryCfg, exCfg, List.mem_cons, RuleId.emph.injEq, reduceCtorEq, List.mem_nil_iff,
    or_false, false_or] at h
  rw [h.1]; decide

-- the entry check passes on nested links / images / reference labels, and over the nesting limit
example : entrySafe (entryCfg 100) "[[a](b)](c)".toList [(0, 0)] = true := by decide +kernel
example : entrySafe (entryCfg 100) "![a [b](c) *d*](e) [a][a]".toList [(0, 0)] = true := by
  decide +kernel
example : entrySafe (entryCfg 2) "[[[a](b)](c)](d) `[`".toList [(0, 0)] = true := by decide +kernel

-- `parseInline_total_of_entrySafe` / `entrySafe_memoSafe` on such a run (`max_nesting = 2`)
example : ∃ cs, parseInline (entryCfg 2) "[[[a](b)](c)](d) `[`".toList [(0, 0)] = .ok cs :=
  parseInline_total_of_entrySafe _ (entryCfg_hsz 2) (mapOK_singleE _) (by decide +kernel)
example : memoSafe (entryCfg 2) "[[[a](b)](c)](d) `[`".toList [(0, 0)] = true :=
  entrySafe_memoSafe _ (entryCfg_hsz 2) (mapOK_singleE _) (by decide +kernel)

/-- the configuration / text of the finding `witness_panics` (`Props/InlineTotal.lean`): the entry
    test is what stops the run — the label frame `[3, 7)` of the link at 2 is entered with the memo
    entry `6 ↦ 13`; with the emphasis rule behind the code-span rule the entry check passes -/
example :
    entrySafe { exCfg 100 with chain := [.emph '`' true, .backticks, .link] }
      "[`[a`[`](u) `".toList [(0, 0)] = false ∧
    entrySafe { exCfg 100 with chain := [.backticks, .emph '`' true, .link] }
      "[`[a`[`](u) `".toList [(0, 0)] = true := by decide +kernel

/-- the entry check is STRICTLY stronger than the memo check (`entrySafe_memoSafe` has no converse):
    same incoherent chain, the inner `[` of the witness replaced by `a` — the label frame `[3, 7)` is
    still entered with the crossing entry `6 ↦ 13`, but the label run never looks position 6 up, so
    the guarded run completes -/
example :
    entrySafe { exCfg 100 with chain := [.emph '`' true, .backticks, .link] }
      "[`[a`a`](u) `".toList [(0, 0)] = false ∧
    memoSafe { exCfg 100 with chain := [.emph '`' true, .backticks, .link] }
      "[`[a`a`](u) `".toList [(0, 0)] = true := by decide +kernel

end MdIt.Inline
