/-
  Block ranges start at a byte of their own, part 3a: paragraph, setext heading and reference
  definition in lock step on `LX.Y`-related states (copy of `MdIt/Lemmas/C10SourceposSimPara.lean`).
  New: paragraph and setext heading take `hne : silent = false → Live s₁` and `TestPure test₁` (the
  look-ahead loop hands back the state it was given, `lazyScan_spec`, so the start line is still the
  non-empty line the tokenizer loop stopped on when `get_map` is called).
-/
import MdIt.Lemmas.C10SpFullBlockLeaf

namespace MdIt.Block.LX.Y
open MdIt.Block.LE
open MdIt.Lines (LineOffset)
variable {τ : Nat × Nat → Nat × Nat → Prop} {ρ : Nat → Nat → Prop} {G : Geo}

theorem setextCheck_srel {s₁ s₂ : BState} (S : SRel τ ρ G s₁ s₂) (setext : Bool) (ind : Int) (n : Nat) :
    setextCheck setext s₂ ind n = setextCheck setext s₁ ind n := by
  unfold setextCheck
  rw [S.getLine]

set_option linter.unusedVariables false in
/-- the shared "jump line by line" loop of paragraph / lheading / reference -/
theorem lazyScan_sim (C : Ctx τ ρ G) {test₁ test₂ : Test} (TS : TestSim τ ρ G test₁ test₂) (setext : Bool) :
    ∀ (f₁ f₂ : Nat) (s₁ s₂ : BState) (n : Nat), f₁ ≤ f₂ → SRel τ ρ G s₁ s₂ →
      FRel (fun r₁ r₂ => r₁.1 = r₂.1 ∧ r₁.2.1 = r₂.2.1 ∧ SRel τ ρ G r₁.2.2 r₂.2.2)
        (lazyScan test₁ setext f₁ s₁ n) (lazyScan test₂ setext f₂ s₂ n) := by
  intro f₁
  induction f₁ with
  | zero => intro f₂ s₁ s₂ n _ _; exact frel_fuel _
  | succ f ih =>
    intro f₂ s₁ s₂ n hf S
    obtain ⟨f₂', rfl⟩ : ∃ k, f₂ = k + 1 := ⟨f₂ - 1, by omega⟩
    simp only [lazyScan]
    rw [S.lineMax, S.isEmpty, S.lineIndent]
    split
    · exact frel_ok ⟨rfl, rfl, S⟩
    refine frel_bind_same _ ?_
    intro ind _
    split
    · exact ih _ _ _ _ (by omega) S
    rw [setextCheck_srel S]
    refine frel_bind_same _ ?_
    intro lvl _
    split
    · exact frel_ok ⟨rfl, rfl, S⟩
    refine frel_bind (S.off _) ?_
    intro o₁ o₂ ho
    rw [ho.indent]
    split
    · exact ih _ _ _ _ (by omega) S
    rw [S.line]
    refine frel_bind (TS _ _ (by srely_fields S; exact S.children)) ?_
    rintro ⟨b₁, t₁⟩ ⟨b₂, t₂⟩ ⟨hb, S'⟩
    simp only at hb S' ⊢
    subst hb
    have S'' : SRel τ ρ G { t₁ with line := s₁.line } { t₂ with line := s₁.line } := S'.withLine _
    split
    · exact frel_ok ⟨rfl, rfl, S''⟩
    · exact ih _ _ _ _ (by omega) S''

theorem paragraph_sim (C : Ctx τ ρ G) {test₁ test₂ : Test} (TS : TestSim τ ρ G test₁ test₂) (hp : TestPure test₁)
    {f₁ f₂ : Nat} (hf : f₁ ≤ f₂)
    {s₁ s₂ : BState} (S : SRel τ ρ G s₁ s₂) (silent : Bool) (hne : silent = false → Live s₁) :
    FRel (ResRel τ ρ G) (paragraphRule test₁ f₁ s₁ silent) (paragraphRule test₂ f₂ s₂ silent) := by
  unfold paragraphRule
  split
  · exact frel_pure ⟨rfl, S⟩
  rw [S.line]
  refine frel_bind' (lazyScan_sim C TS false _ _ _ _ _ hf S) ?_
  rintro ⟨n₁, l₁, t₁⟩ ⟨n₂, l₂, t₂⟩ hz₁ _ ⟨hn, hl, S'⟩
  have ht₁ : t₁ = s₁ := (lazyScan_spec hp false _ _ _ _ hz₁).1
  simp only at hn hl S' ⊢
  subst hn; subst hl; subst ht₁
  rw [S'.blkIndent]
  refine frel_bind (S'.getLines _ _ _ _) ?_
  rintro ⟨c₁, m₁⟩ ⟨c₂, m₂⟩ ⟨hc, hm⟩
  simp only at hc hm ⊢
  subst hc
  refine frel_bind_same _ ?_
  intro e _
  refine frel_bind ((S'.withLine _).getMap C _ _ (hne (silent_false ‹¬ silent = true›)).2) ?_
  intro r₁ r₂ hr
  refine frel_pure ⟨rfl, ?_⟩
  dsimp only
  srely_fields S'
  exact S'.children.push (NRel.mk (KRelS.of_ne (by intro c m h; cases h)) hr (NRelL.single (nrel_inline hm)))

theorem lheading_sim (C : Ctx τ ρ G) {test₁ test₂ : Test} (TS : TestSim τ ρ G test₁ test₂) (hp : TestPure test₁)
    {f₁ f₂ : Nat} (hf : f₁ ≤ f₂)
    {s₁ s₂ : BState} (S : SRel τ ρ G s₁ s₂) (silent : Bool) (hne : silent = false → Live s₁) :
    FRel (ResRel τ ρ G) (lheadingRule test₁ f₁ s₁ silent) (lheadingRule test₂ f₂ s₂ silent) := by
  unfold lheadingRule
  split
  · exact frel_pure ⟨rfl, S⟩
  rw [S.line, S.lineIndent]
  refine frel_bind_same _ ?_
  intro ind _
  split
  · exact frel_pure ⟨rfl, S⟩
  refine frel_bind' (lazyScan_sim C TS true _ _ _ _ _ hf S) ?_
  rintro ⟨n₁, l₁, t₁⟩ ⟨n₂, l₂, t₂⟩ hz₁ _ ⟨hn, hl, S'⟩
  have ht₁ : t₁ = s₁ := (lazyScan_spec hp true _ _ _ _ hz₁).1
  simp only at hn hl S' ⊢
  subst hn; subst hl; subst ht₁
  split
  · exact frel_pure ⟨rfl, S'⟩
  rw [S'.blkIndent]
  refine frel_bind (S'.getLines _ _ _ _) ?_
  rintro ⟨c₁, m₁⟩ ⟨c₂, m₂⟩ ⟨hc, hm⟩
  simp only at hc hm ⊢
  subst hc
  refine frel_bind_same _ ?_
  intro e _
  refine frel_bind ((S'.withLine _).getMap C _ _ (hne (silent_false ‹¬ silent = true›)).2) ?_
  intro r₁ r₂ hr
  refine frel_pure ⟨rfl, ?_⟩
  dsimp only
  srely_fields S'
  exact S'.children.push (NRel.mk (KRelS.of_ne (by intro c m h; cases h)) hr (NRelL.single (nrel_inline hm)))

theorem reference_sim (cfg : Cfg) (C : Ctx τ ρ G) {test₁ test₂ : Test} (TS : TestSim τ ρ G test₁ test₂) {f₁ f₂ : Nat}
    (hf : f₁ ≤ f₂) {s₁ s₂ : BState} (S : SRel τ ρ G s₁ s₂) (silent : Bool) :
    FRel (ResRel τ ρ G) (referenceRule cfg test₁ f₁ s₁ silent) (referenceRule cfg test₂ f₂ s₂ silent) := by
  unfold referenceRule
  split
  · exact frel_pure ⟨rfl, S⟩
  rw [S.line, S.lineIndent, S.getLine]
  refine frel_bind_same _ ?_
  intro ind _
  split
  · exact frel_pure ⟨rfl, S⟩
  refine frel_bind_same _ ?_
  intro line _
  split
  · exact frel_pure ⟨rfl, S⟩
  split
  · exact frel_pure ⟨rfl, S⟩
  split
  · exact frel_pure ⟨rfl, S⟩
  refine frel_bind (lazyScan_sim C TS false _ _ _ _ _ hf S) ?_
  rintro ⟨n₁, l₁, t₁⟩ ⟨n₂, l₂, t₂⟩ ⟨hn, hl, S'⟩
  simp only at hn hl S' ⊢
  subst hn; subst hl
  rw [S'.blkIndent]
  refine frel_bind (S'.getLines _ _ _ _) ?_
  rintro ⟨c₁, m₁⟩ ⟨c₂, m₂⟩ ⟨hc, hm⟩
  simp only at hc hm ⊢
  subst hc
  refine frel_bind_same _ ?_
  intro parsed _
  split
  · exact frel_pure ⟨rfl, S'⟩
  split
  · exact frel_pure ⟨rfl, S'⟩
  rw [S'.refs]
  refine frel_pure ⟨rfl, ?_⟩
  dsimp only
  srely_fields S'
  exact S'.children

end MdIt.Block.LX.Y
