/-
  Helper development for the whole-document C14 statement: a NODE-SHAPE invariant through the
  inline tokenizer (partial correctness, any fuel, EVERY configuration — emphasis-like rules
  included).  It is the analogue, for node shapes, of the value invariant `vals_induction` /
  `parseInline_vals` (`Lemmas/InlineVals*.lean`), and is proved along the same case structure.

    * leaf kinds (`Text`, `TextSpecial`, `Softbreak`, `Hardbreak`) and the parser-internal
      `EmphMarker` are childless;
    * `CodeInline` / `Autolink` have exactly one child, a childless non-empty `Text`;
    * containers (`Em` / `Strong` / `Strikethrough` / `Link` / `Image`) are free.
-/
import MdIt.Lemmas.InlineText2
import MdIt.Lemmas.InlineVals2

namespace MdIt.Inline
open MdIt.InlineOps (Srcmap getSourcePosFor getMap byteLen slice)

/-- the shape property C14 demands of one inline node, by its value: leaf kinds (and the
    parser-internal `EmphMarker`) are childless; `CodeInline` / `Autolink` have exactly one child, a
    childless non-empty `Text`; containers (`Em`/`Strong`/`Strikethrough`/`Link`/`Image`) are free -/
def ShapeOK (v : Val) (cs : List Node) : Prop :=
  match v with
  | .text _ => cs = []
  | .special _ _ _ => cs = []
  | .softbreak => cs = []
  | .hardbreak => cs = []
  | .emphMarker _ _ _ _ _ => cs = []
  | .codeInline _ _ => ∃ c r, c ≠ [] ∧ cs = [⟨.text c, r, []⟩]
  | .autolink _ => ∃ c r, c ≠ [] ∧ cs = [⟨.text c, r, []⟩]
  | .wrap _ _ => True
  | .link _ _ => True
  | .image _ _ => True

mutual
/-- every node in the tree below (and including) the node has the shape its value demands -/
def AllShape : Node → Prop
  | ⟨v, _, cs⟩ => ShapeOK v cs ∧ AllShapeList cs
def AllShapeList : List Node → Prop
  | [] => True
  | c :: cs => AllShape c ∧ AllShapeList cs
end

theorem AllShape_eq (n : Node) : AllShape n ↔ ShapeOK n.val n.children ∧ AllShapeList n.children := by
  cases n; simp [AllShape]

theorem allShapeList_iff (l : List Node) : AllShapeList l ↔ ∀ n ∈ l, AllShape n := by
  induction l with
  | nil => simp [AllShapeList]
  | cons c cs ih => simp [AllShapeList, ih]

theorem AllShapeList.append {a b : List Node} (ha : AllShapeList a) (hb : AllShapeList b) :
    AllShapeList (a ++ b) := by
  rw [allShapeList_iff] at *
  intro n hn
  rcases List.mem_append.mp hn with h | h
  · exact ha n h
  · exact hb n h

theorem AllShapeList.left {a b : List Node} (h : AllShapeList (a ++ b)) : AllShapeList a := by
  rw [allShapeList_iff] at *
  exact fun n hn => h n (List.mem_append_left _ hn)

theorem AllShapeList.right {a b : List Node} (h : AllShapeList (a ++ b)) : AllShapeList b := by
  rw [allShapeList_iff] at *
  exact fun n hn => h n (List.mem_append_right _ hn)

theorem AllShapeList.single {n : Node} (h : AllShape n) : AllShapeList [n] := ⟨h, trivial⟩

theorem AllShapeList.take {l : List Node} (h : AllShapeList l) (k : Nat) : AllShapeList (l.take k) := by
  rw [allShapeList_iff] at *
  exact fun n hn => h n (List.mem_of_mem_take hn)

theorem AllShapeList.drop {l : List Node} (h : AllShapeList l) (k : Nat) : AllShapeList (l.drop k) := by
  rw [allShapeList_iff] at *
  exact fun n hn => h n (List.mem_of_mem_drop hn)

theorem AllShapeList.set {l : List Node} (h : AllShapeList l) (k : Nat) {x : Node} (hx : AllShape x) :
    AllShapeList (l.set k x) := by
  rw [allShapeList_iff] at *
  intro n hn
  rcases List.mem_or_eq_of_mem_set hn with h' | h'
  · exact h n h'
  · rw [h']; exact hx

theorem AllShapeList.getElem? {l : List Node} (h : AllShapeList l) {k : Nat} {x : Node}
    (hx : l[k]? = some x) : AllShape x := by
  rw [allShapeList_iff] at h
  exact h x (List.mem_of_getElem? hx)

/-! ## single nodes -/

/-- a childless node of a value that wants no children -/
theorem allShape_childless {v : Val} (hv : ShapeOK v []) (r : Option (Nat × Nat)) :
    AllShape ⟨v, r, []⟩ := by
  rw [AllShape_eq]; exact ⟨hv, trivial⟩

theorem allShape_newText (c : List Char) (r : Option (Nat × Nat)) : AllShape (Node.newText c r) :=
  allShape_childless (v := .text c) rfl r

theorem allShape_leaf {v : Val} (hv : ShapeOK v []) (r : Option (Nat × Nat)) :
    AllShape (Node.leaf v r) :=
  allShape_childless hv r

/-- a `Text` node of a well-shaped tree is childless -/
theorem AllShape.isText_children {n : Node} (h : AllShape n) (ht : n.isText = true) :
    n.children = [] := by
  rw [AllShape_eq] at h
  unfold Node.isText at ht
  split at ht
  · next c hv => have := h.1; rw [hv] at this; exact this
  · simp at ht

/-- an `EmphMarker` node of a well-shaped tree is childless -/
theorem AllShape.marker_children {n : Node} {m : Marker} (h : AllShape n) (hm : n.asMarker = some m) :
    n.children = [] := by
  rw [AllShape_eq, asMarker_val hm] at h
  exact h.1

/-- text → text: the value of a `Text` node replaced by another `Text` value, children kept -/
theorem AllShape.retext {n : Node} (h : AllShape n) (ht : n.isText = true) (c : List Char)
    (r : Option (Nat × Nat)) : AllShape { n with val := .text c, range := r } := by
  have hc := h.isText_children ht
  rw [AllShape_eq]
  show ShapeOK (.text c) n.children ∧ AllShapeList n.children
  rw [hc]; exact ⟨rfl, trivial⟩

/-- any node whose children are gone may carry a marker value -/
theorem allShape_remark {n : Node} (hc : n.children = []) (m : Marker) (r : Option (Nat × Nat)) :
    AllShape { n with val := m.toVal, range := r } := by
  rw [AllShape_eq]
  show ShapeOK m.toVal n.children ∧ AllShapeList n.children
  rw [hc]; exact ⟨rfl, trivial⟩

/-- the range of a node replaced -/
theorem AllShape.rerange {n : Node} (h : AllShape n) (r : Option (Nat × Nat)) :
    AllShape { n with range := r } := by
  rw [AllShape_eq] at h ⊢; exact h

/-- `CodeInline` over one non-empty text -/
theorem allShape_code (m : Char) (k : Nat) (r ri : Option (Nat × Nat)) {c : List Char} (hc : c ≠ []) :
    AllShape { val := .codeInline m k, range := r, children := [Node.newText c ri] } := by
  rw [AllShape_eq]
  exact ⟨⟨c, ri, hc, rfl⟩, AllShapeList.single (allShape_newText _ _)⟩

/-- `Autolink` over one non-empty text -/
theorem allShape_autolink (u : List Nat) (r ri : Option (Nat × Nat)) {c : List Char} (hc : c ≠ []) :
    AllShape { val := .autolink u, range := r, children := [Node.newText c ri] } := by
  rw [AllShape_eq]
  exact ⟨⟨c, ri, hc, rfl⟩, AllShapeList.single (allShape_newText _ _)⟩

/-! ## trailing text -/

theorem trailingTextPush_shape {src : List Char} {m : Srcmap} {cs out : List Node} {a b : Nat}
    (h : trailingTextPush src m cs a b = .ok out) (hc : AllShapeList cs) : AllShapeList out := by
  have hfresh : ∀ out, (match liftOps (slice src a b) with
      | .error e => (.error e : Except RPanic (List Node))
      | .ok piece =>
        match liftOps (getMap m a b) with
        | .error e => .error e
        | .ok r => .ok (cs ++ [Node.newText piece (some r)])) = .ok out → AllShapeList out := by
    intro out h
    split at h
    · simp at h
    · split at h
      · simp at h
      · simp only [Except.ok.injEq] at h; subst h
        exact hc.append (AllShapeList.single (allShape_newText _ _))
  unfold trailingTextPush at h
  simp only at h
  rcases popLast_spec cs with ⟨hp, _⟩ | ⟨init, last, hp, hcs⟩
  · rw [hp] at h; exact hfresh out h
  · rw [hp] at h
    simp only at h
    subst hcs
    have hlast : AllShape last := hc.right.1
    split at h
    · next ht =>
      split at h
      · simp at h
      · split at h
        · simp only [Except.ok.injEq] at h; subst h
          exact hc.left.append (AllShapeList.single (hlast.retext ht _ _))
        · split at h
          · simp at h
          · simp only [Except.ok.injEq] at h; subst h
            exact hc.left.append (AllShapeList.single (hlast.retext ht _ _))
    · exact hfresh out h

theorem pushText_shape {st st' : IState} {a b : Nat} (h : st.pushText a b = .ok st')
    (hc : AllShapeList st.children) : AllShapeList st'.children := by
  obtain ⟨cs, hcs, rfl⟩ := pushText_eq h
  exact trailingTextPush_shape hcs hc

theorem trailingTextPop_shape {cs out : List Node} {count : Nat}
    (h : trailingTextPop cs count = .ok out) (hc : AllShapeList cs) : AllShapeList out := by
  unfold trailingTextPop at h
  split at h
  · simp only [Except.ok.injEq] at h; subst h; exact hc
  · rcases popLast_spec cs with ⟨hp, _⟩ | ⟨init, last, hp, hcs⟩
    · rw [hp] at h; simp at h
    · rw [hp] at h
      simp only at h
      subst hcs
      have hlast : AllShape last := hc.right.1
      split at h
      · simp at h
      · next hnt =>
        have ht : last.isText = true := by simpa using hnt
        split at h
        · simp only [Except.ok.injEq] at h; subst h; exact hc.left
        · split at h
          · simp at h
          · split at h
            · simp at h
            · split at h
              · simp only [Except.ok.injEq] at h; subst h
                exact hc.left.append (AllShapeList.single (hlast.retext ht _ _))
              · split at h
                · simp at h
                · simp only [Except.ok.injEq] at h; subst h
                  exact hc.left.append (AllShapeList.single (hlast.retext ht _ _))

/-! ## the rules without look-ahead recursion -/

theorem push_shape {st : IState} (h : AllShapeList st.children) {n : Node} (hn : AllShape n) :
    AllShapeList (st.push n).children := by
  unfold IState.push; exact AllShapeList.append h (AllShapeList.single hn)

theorem ruleText_shape {st st' : IState} {silent : Bool} {o : Option Nat}
    (h : ruleText st silent = .ok (o, st')) (hc : AllShapeList st.children) :
    AllShapeList st'.children := by
  unfold ruleText at h
  split at h
  · simp at h
  · simp only at h
    split at h
    · simp only [Except.ok.injEq, Prod.mk.injEq] at h; rw [← h.2]; exact hc
    · split at h
      · simp only [Except.ok.injEq, Prod.mk.injEq] at h; rw [← h.2]; exact hc
      · split at h
        · simp at h
        · next st2 hp =>
          simp only [Except.ok.injEq, Prod.mk.injEq] at h; rw [← h.2]
          exact pushText_shape hp hc

theorem ruleNewline_shape {st st' : IState} {silent : Bool} {o : Option Nat}
    (h : ruleNewline st silent = .ok (o, st')) (hc : AllShapeList st.children) :
    AllShapeList st'.children := by
  unfold ruleNewline at h
  split at h
  · simp at h
  · simp at h
  · split at h
    · simp only [Except.ok.injEq, Prod.mk.injEq] at h; rw [← h.2]; exact hc
    · simp only at h
      split at h
      · simp only [Except.ok.injEq, Prod.mk.injEq] at h; rw [← h.2]; exact hc
      · split at h
        · simp at h
        · next cs hpop =>
          split at h
          · simp at h
          · split at h
            · simp at h
            · simp only [Except.ok.injEq, Prod.mk.injEq] at h; rw [← h.2]
              have := trailingTextPop_shape hpop hc
              refine this.append (AllShapeList.single (allShape_leaf ?_ _))
              split
              · exact rfl
              · exact rfl

theorem ruleEscape_shape {st st' : IState} {silent : Bool} {o : Option Nat}
    (h : ruleEscape st silent = .ok (o, st')) (hc : AllShapeList st.children) :
    AllShapeList st'.children := by
  unfold ruleEscape at h
  split at h
  · simp at h
  · split at h
    · simp at h
    · simp only [Except.ok.injEq, Prod.mk.injEq] at h; rw [← h.2]; exact hc
    · split at h
      · simp only [Except.ok.injEq, Prod.mk.injEq] at h; rw [← h.2]; exact hc
      · split at h
        · simp at h
        · simp only [Except.ok.injEq, Prod.mk.injEq] at h; rw [← h.2]
          exact push_shape hc (allShape_leaf (v := .hardbreak) rfl _)
    · simp only at h
      split at h
      · simp only [Except.ok.injEq, Prod.mk.injEq] at h; rw [← h.2]; exact hc
      · split at h
        · simp at h
        · simp only [Except.ok.injEq, Prod.mk.injEq] at h; rw [← h.2]
          exact push_shape hc (allShape_leaf (v := .special _ _ _) rfl _)

theorem ruleEntity_shape {cfg : Cfg} {st st' : IState} {silent : Bool} {o : Option Nat}
    (h : ruleEntity cfg st silent = .ok (o, st')) (hc : AllShapeList st.children) :
    AllShapeList st'.children := by
  unfold ruleEntity at h
  split at h
  · simp at h
  · split at h
    · simp at h
    · split at h
      · simp only [Except.ok.injEq, Prod.mk.injEq] at h; rw [← h.2]; exact hc
      · split at h
        · simp at h
        · split at h
          · simp at h
          · simp only [Except.ok.injEq, Prod.mk.injEq] at h; rw [← h.2]; exact hc
          · simp only at h
            split at h
            · simp only [Except.ok.injEq, Prod.mk.injEq] at h; rw [← h.2]; exact hc
            · split at h
              · simp at h
              · simp only [Except.ok.injEq, Prod.mk.injEq] at h; rw [← h.2]
                exact push_shape hc (allShape_leaf (v := .special _ _ _) rfl _)

theorem ruleBackticks_shape {st st' : IState} {silent : Bool} {o : Option Nat}
    (h : ruleBackticks st silent = .ok (o, st')) (hc : AllShapeList st.children) :
    AllShapeList st'.children := by
  unfold ruleBackticks at h
  split at h
  · simp at h
  · simp only [Except.ok.injEq, Prod.mk.injEq] at h; rw [← h.2]; exact hc
  · next oc c hrun =>
    split at h
    · simp only [Except.ok.injEq, Prod.mk.injEq] at h; rw [← h.2]; exact hc
    · next nd hnd =>
      split at h
      · simp at h
      · split at h
        · simp at h
        · simp only [Except.ok.injEq, Prod.mk.injEq] at h; rw [← h.2]
          have hne := run_content_ne _ _ backtick_size _ _ _ _ _ _ _ _ nd hrun hnd
          exact AllShapeList.append hc (AllShapeList.single (allShape_code _ _ _ _ hne))

theorem ruleAutolink_shape {st st' : IState} {silent : Bool} {o : Option Nat}
    (h : ruleAutolink st silent = .ok (o, st')) (hc : AllShapeList st.children) :
    AllShapeList st'.children := by
  unfold ruleAutolink at h
  split at h
  · simp at h
  · simp at h
  · split at h
    · simp only [Except.ok.injEq, Prod.mk.injEq] at h; rw [← h.2]; exact hc
    · split at h
      · simp only [Except.ok.injEq, Prod.mk.injEq] at h; rw [← h.2]; exact hc
      · split at h
        · simp at h
        · next url hurl =>
          simp only at h
          split at h
          · simp only [Except.ok.injEq, Prod.mk.injEq] at h; rw [← h.2]; exact hc
          · next hmatch =>
            have hne : url ≠ [] := by
              intro e; subst e
              exact hmatch (by decide)
            split at h
            · simp only [Except.ok.injEq, Prod.mk.injEq] at h; rw [← h.2]; exact hc
            · split at h
              · simp only [Except.ok.injEq, Prod.mk.injEq] at h; rw [← h.2]; exact hc
              · split at h
                · simp at h
                · split at h
                  · simp at h
                  · simp only [Except.ok.injEq, Prod.mk.injEq] at h; rw [← h.2]
                    exact push_shape hc (allShape_autolink _ _ _ hne)

/-! ## delimiter matching

  ==== BEGIN MODEL-SENSITIVE SECTION (emphasis delimiter matching) ==============================
  Every lemma of this file that UNFOLDS `matchInner`, `matchOuter`, `replaceAt`, `scanAndMatch` (or
  `ruleEmph`, their only caller) is in this one section — `matchInner_shape`, `matchOuter_shape`,
  `scanAndMatch_shape`, `ruleEmph_shape` — and nothing outside it looks inside those functions (the
  rest of the file only uses `ruleEmph_shape` through `runRule_shape`).  When the model of the
  delimiter matching changes (e.g. a nesting budget `room` / `MatchSt.innerDepth`, an extra break
  test in `matchInner`, an extra `children[idx+1]?` read in `matchOuter`), adapt the case splits of
  these four proofs; the statements (`AllShapeList` in ⇒ `AllShapeList` out, plus the index
  invariant of `matchInner_shape`) are independent of such changes: a new early `break` returns the
  state unchanged, a new read changes no node.
-/

/-- the inner loop: the tree stays well shaped, and as long as the opener has markers left the
    node at `idx` (the opener token) is still there and childless -/
theorem matchInner_shape (fns : Nat → Option Wrap) (mk : Char) (room idx : Nat) :
    ∀ (fuel : Nat) (opener : Marker) (ms : MatchSt) (opener' : Marker) (ms' : MatchSt),
      matchInner fns mk room idx fuel opener ms = .ok (opener', ms') →
      AllShapeList ms.children →
      (opener.remaining > 0 → ∃ t, ms.children[idx]? = some t ∧ t.children = []) →
      AllShapeList ms'.children ∧
      (opener'.remaining > 0 → ∃ t, ms'.children[idx]? = some t ∧ t.children = []) := by
  intro fuel
  induction fuel with
  | zero =>
    intro opener ms opener' ms' h hm hi
    simp only [matchInner, Except.ok.injEq, Prod.mk.injEq] at h
    obtain ⟨rfl, rfl⟩ := h; exact ⟨hm, hi⟩
  | succ fuel ih =>
    intro opener ms opener' ms' h hm hi
    unfold matchInner at h
    split at h
    · next hcond =>
      -- the nesting-limit `break` returns the state unchanged
      split at h
      · simp only [Except.ok.injEq, Prod.mk.injEq] at h
        obtain ⟨rfl, rfl⟩ := h; exact ⟨hm, hi⟩
      simp only at h
      split at h
      · simp only [Except.ok.injEq, Prod.mk.injEq] at h
        obtain ⟨rfl, rfl⟩ := h; exact ⟨hm, hi⟩
      · next ml w hpick =>
        split at h
        · simp at h
        · split at h
          · simp at h
          · next hlen =>
            split at h
            · simp at h
            · next init otok hpop =>
              have hhead : ms.children.take (idx + 1) = init ++ [otok] := by
                rcases popLast_spec (ms.children.take (idx + 1)) with ⟨hp, _⟩ | ⟨i, l, hp, hl⟩
                · rw [hp] at hpop; simp at hpop
                · rw [hp] at hpop; simp only [Option.some.injEq, Prod.mk.injEq] at hpop
                  rw [hl, hpop.1, hpop.2]
              have hheadOK : AllShapeList (init ++ [otok]) := by
                rw [← hhead]; exact hm.take _
              have hil : init.length = idx := by
                have := congrArg List.length hhead
                simp only [List.length_take, List.length_append, List.length_cons,
                  List.length_nil] at this
                omega
              have hotokAt : ms.children[idx]? = some otok := by
                have h1 : (ms.children.take (idx + 1))[idx]? = ms.children[idx]? := by
                  rw [List.getElem?_take]; simp
                rw [← h1, hhead, ← hil]; simp
              split at h
              · simp at h
              · next otok' smp hcut =>
                have hotok' : AllShape otok' ∧ otok'.children = otok.children := by
                  have ho := hheadOK.right.1
                  split at hcut
                  · split at hcut
                    · simp at hcut
                    · simp only [Except.ok.injEq, Prod.mk.injEq] at hcut
                      rw [← hcut.1]
                      exact ⟨ho.rerange _, rfl⟩
                  · simp only [Except.ok.injEq, Prod.mk.injEq] at hcut
                    rw [← hcut.1]; exact ⟨ho, rfl⟩
                have hnew : AllShape { val := Val.wrap w mk, range := some (smp,
                    (match ms.closerRange with
                      | some (s, e) => (some (s + ml, e), s + ml)
                      | none => (none, 0)).2), children := ms.children.drop (idx + 1) } := by
                  rw [AllShape_eq]; exact ⟨trivial, hm.drop _⟩
                refine ih _ _ _ _ h ?_ ?_
                · simp only
                  refine AllShapeList.append ?_ (AllShapeList.single hnew)
                  split
                  · exact hheadOK.left
                  · exact hheadOK.left.append (AllShapeList.single hotok'.1)
                · intro hrem
                  simp only at hrem
                  obtain ⟨t, ht, htc⟩ := hi hcond.2
                  rw [hotokAt] at ht
                  simp only [Option.some.injEq] at ht; subst ht
                  refine ⟨otok', ?_, hotok'.2.trans htc⟩
                  simp only
                  rw [if_neg (by omega), ← hil]
                  simp
    · simp only [Except.ok.injEq, Prod.mk.injEq] at h
      obtain ⟨rfl, rfl⟩ := h; exact ⟨hm, hi⟩

theorem matchOuter_shape (fns : Nat → Option Wrap) (mk : Char) (room minIdx : Nat) :
    ∀ (k : Nat) (ms ms' : MatchSt), matchOuter fns mk room minIdx k ms = .ok ms' →
      AllShapeList ms.children → AllShapeList ms'.children := by
  intro k
  induction k with
  | zero =>
    intro ms ms' h hm
    simp only [matchOuter, Except.ok.injEq] at h; subst h; exact hm
  | succ k ih =>
    intro ms ms' h hm
    unfold matchOuter at h
    simp only at h
    -- the read of `children[idx + 1]` (for `inner_depth`) changes no node
    split at h
    · simp at h
    next nxt hnxt =>
    split at h
    · simp at h
    · next tok htok =>
      have htokOK := hm.getElem? htok
      split at h
      · exact ih _ _ h hm
      · next opener hop =>
        have htc : tok.children = [] := htokOK.marker_children hop
        split at h
        · simp at h
        · next opener' ms1 hgo =>
          have hgo' : AllShapeList ms1.children ∧
              (opener'.remaining > 0 → ∃ t, ms1.children[minIdx + k]? = some t ∧ t.children = []) := by
            split at hgo
            · exact matchInner_shape fns mk _ _ _ _ _ _ _ hgo hm (fun _ => ⟨tok, htok, htc⟩)
            · simp only [Except.ok.injEq, Prod.mk.injEq] at hgo
              obtain ⟨rfl, rfl⟩ := hgo; exact ⟨hm, fun _ => ⟨tok, htok, htc⟩⟩
          split at h
          · next hpos =>
            split at h
            · simp at h
            · next cs hrep =>
              refine ih _ _ h ?_
              unfold replaceAt at hrep
              split at hrep
              · simp at hrep
              · next n hn =>
                simp only [Except.ok.injEq] at hrep; subst hrep
                refine hgo'.1.set _ ?_
                obtain ⟨t, ht, htc'⟩ := hgo'.2 hpos
                rw [hn] at ht
                simp only [Option.some.injEq] at ht; subst ht
                exact allShape_remark htc' _ _
          · exact ih _ _ h hgo'.1

theorem scanAndMatch_shape {fns : Nat → Option Wrap} {mk : Char} {room : Nat} {cs out : List Node}
    {b b' : List (Char × List Nat)} (h : scanAndMatch fns mk room cs b = .ok (out, b'))
    (hc : AllShapeList cs) : AllShapeList out := by
  unfold scanAndMatch at h
  split at h
  · simp only [Except.ok.injEq, Prod.mk.injEq] at h; rw [← h.1]; exact hc
  · split at h
    · simp at h
    · next init closerTok hpop =>
      have hcs : cs = init ++ [closerTok] := by
        rcases popLast_spec cs with ⟨hp, _⟩ | ⟨i, l, hp, hl⟩
        · rw [hp] at hpop; simp at hpop
        · rw [hp] at hpop; simp only [Option.some.injEq, Prod.mk.injEq] at hpop
          rw [hl, hpop.1, hpop.2]
      subst hcs
      have hct : AllShape closerTok := hc.right.1
      split at h
      · simp at h
      · next closer hcl =>
        have hcc : closerTok.children = [] := hct.marker_children hcl
        simp only at h
        split at h
        · simp at h
        · split at h
          · simp at h
          · split at h
            · simp at h
            · next ms hms =>
              have hok := matchOuter_shape fns mk _ _ _ _ _ hms hc.left
              split at h
              · simp only [Except.ok.injEq, Prod.mk.injEq] at h; rw [← h.1]
                exact hok.append (AllShapeList.single (allShape_remark hcc _ _))
              · simp only [Except.ok.injEq, Prod.mk.injEq] at h; rw [← h.1]; exact hok

theorem ruleEmph_shape {cfg : Cfg} {mk : Char} {csw : Bool} {st st' : IState} {silent : Bool}
    {o : Option Nat} (h : ruleEmph cfg mk csw st silent = .ok (o, st'))
    (hc : AllShapeList st.children) : AllShapeList st'.children := by
  unfold ruleEmph at h
  split at h
  · simp only [Except.ok.injEq, Prod.mk.injEq] at h; rw [← h.2]; exact hc
  · split at h
    · simp at h
    · simp at h
    · split at h
      · simp only [Except.ok.injEq, Prod.mk.injEq] at h; rw [← h.2]; exact hc
      · split at h
        · simp at h
        · next scanned hsc =>
          split at h
          · simp at h
          · next r hr =>
            have hpush : AllShapeList (st.push (Node.leaf (.emphMarker mk scanned.length scanned.length
                scanned.canOpen scanned.canClose) (some r))).children :=
              push_shape hc (allShape_leaf (v := .emphMarker _ _ _ _ _) rfl _)
            simp only at h
            split at h
            · split at h
              · simp at h
              · next cs b hsm =>
                simp only [Except.ok.injEq, Prod.mk.injEq] at h; rw [← h.2]
                exact scanAndMatch_shape hsm hpush
            · simp only [Except.ok.injEq, Prod.mk.injEq] at h; rw [← h.2]; exact hpush

/-! ==== END MODEL-SENSITIVE SECTION (emphasis delimiter matching) ================================ -/

/-! ## the link rule, the loops -/

/-- `tok` keeps the shape invariant -/
def ShapeFn (tok : IState → Except Panic IState) : Prop :=
  ∀ s s', tok s = .ok s' → AllShapeList s.children → AllShapeList s'.children

theorem linkRule_shape {cfg : Cfg} {skip tok : IState → Except Panic IState} (hq : CalmFn skip)
    (ht : ShapeFn tok) {fuel : Nat} {mk : List Nat → Option (List Char) → Val}
    (hmk : ∀ u t cs, ShapeOK (mk u t) cs)
    {en : Bool} {offset : Nat} {st : IState} {silent : Bool} {o : Option Nat} {st' : IState}
    (h : linkRule cfg skip tok fuel mk en offset st silent = .ok (o, st'))
    (hc : AllShapeList st.children) : AllShapeList st'.children := by
  unfold linkRule at h
  simp only at h
  split at h
  · simp at h
  · next st1 hpl =>
    simp only [Except.ok.injEq, Prod.mk.injEq] at h; rw [← h.2]
    have q := parseLink_calm hq hpl
    rw [q.children]; exact hc
  · next res st1 hpl =>
    have q := parseLink_calm hq hpl
    have hc1 : AllShapeList st1.children := by rw [q.children]; exact hc
    split at h
    · split at h
      · simp at h
      · simp only [Except.ok.injEq, Prod.mk.injEq] at h; rw [← h.2]; exact hc1
    · split at h
      · simp at h
      · next st3 htok =>
        have hc3 : AllShapeList st3.children := ht _ _ htok trivial
        split at h
        · simp at h
        · split at h
          · simp at h
          · split at h
            · simp at h
            · simp only [Except.ok.injEq, Prod.mk.injEq] at h; rw [← h.2]
              refine AllShapeList.append hc1 (AllShapeList.single ?_)
              rw [AllShape_eq]; exact ⟨hmk _ _ _, hc3⟩

theorem runRule_shape {cfg : Cfg} {skip tok : IState → Except Panic IState} (hq : CalmFn skip)
    (ht : ShapeFn tok) {fuel : Nat} {id : RuleId} {st : IState} {silent : Bool} {o : Option Nat}
    {st' : IState} (h : runRule cfg skip tok fuel id st silent = .ok (o, st'))
    (hc : AllShapeList st.children) : AllShapeList st'.children := by
  unfold runRule at h
  cases id with
  | text => exact ruleText_shape (liftR_ok.mp h) hc
  | newline => exact ruleNewline_shape (liftR_ok.mp h) hc
  | escape => exact ruleEscape_shape (liftR_ok.mp h) hc
  | backticks => exact ruleBackticks_shape (liftR_ok.mp h) hc
  | emph mk csw => exact ruleEmph_shape (liftR_ok.mp h) hc
  | link =>
    simp only at h
    unfold ruleLink at h
    split at h
    · simp at h
    · simp at h
    · split at h
      · simp only [Except.ok.injEq, Prod.mk.injEq] at h; rw [← h.2]; exact hc
      · exact linkRule_shape (mk := Val.link) hq ht (fun _ _ _ => trivial) h hc
  | image =>
    simp only at h
    unfold ruleImage at h
    split at h
    · simp at h
    · exact linkRule_shape (mk := Val.image) hq ht (fun _ _ _ => trivial) h hc
    · simp only [Except.ok.injEq, Prod.mk.injEq] at h; rw [← h.2]; exact hc
  | linkEnd => simp only [Except.ok.injEq, Prod.mk.injEq] at h; rw [← h.2]; exact hc
  | autolink => exact ruleAutolink_shape (liftR_ok.mp h) hc
  | entity => exact ruleEntity_shape (liftR_ok.mp h) hc

theorem firstRule_shape {run : RuleId → IState → RuleRes} (rules : List RuleId)
    (hrun : ∀ id ∈ rules, ∀ s o s', run id s = .ok (o, s') → AllShapeList s.children →
      AllShapeList s'.children) :
    ∀ (st : IState) (o : Option Nat) (st' : IState), firstRule run rules st = .ok (o, st') →
      AllShapeList st.children → AllShapeList st'.children := by
  induction rules with
  | nil =>
    intro st o st' h hc
    simp only [firstRule, Except.ok.injEq, Prod.mk.injEq] at h; rw [← h.2]; exact hc
  | cons r rs ih =>
    intro st o st' h hc
    unfold firstRule at h
    split at h
    · simp at h
    · next n st1 hr =>
      simp only [Except.ok.injEq, Prod.mk.injEq] at h; rw [← h.2]
      exact hrun r (by simp) _ _ _ hr hc
    · next st1 hr =>
      exact ih (fun id hid => hrun id (List.mem_cons_of_mem _ hid)) _ _ _ h
        (hrun r (by simp) _ _ _ hr hc)

theorem tokStep_shape {cfg : Cfg} {skip tok : IState → Except Panic IState} (hq : CalmFn skip)
    (ht : ShapeFn tok) {fuel : Nat} {st st' : IState} (h : tokStep cfg skip tok fuel st = .ok st')
    (hc : AllShapeList st.children) : AllShapeList st'.children := by
  have hok : ∀ o st1, (if st.level < cfg.maxNesting then
        firstRule (fun id s => runRule cfg skip tok fuel id s false) cfg.chain st
      else .ok (none, st)) = .ok (o, st1) → AllShapeList st1.children := by
    intro o st1 hh
    split at hh
    · exact firstRule_shape cfg.chain (fun id _ s o s' hr hcs => runRule_shape hq ht hr hcs)
        _ _ _ hh hc
    · simp only [Except.ok.injEq, Prod.mk.injEq] at hh; rw [← hh.2]; exact hc
  unfold tokStep at h
  simp only at h
  split at h
  · simp at h
  · next len st1 hr =>
    simp only [Except.ok.injEq] at h; rw [← h]
    exact (hok _ _ hr : AllShapeList st1.children)
  · next st1 hr =>
    have hc1 := hok _ _ hr
    split at h
    · simp at h
    · next ch hch =>
      split at h
      · simp at h
      · next st2 hp =>
        simp only [Except.ok.injEq] at h; rw [← h]
        exact (pushText_shape (liftR_ok.mp hp) hc1 : AllShapeList st2.children)

/-- **The shape invariant through the whole tokenizer** (partial correctness, any fuel, every
    configuration): `tokenize` keeps "every node has the shape its value demands". -/
theorem shape_induction (cfg : Cfg) : ∀ fuel : Nat, ∀ (e : Nat) (st st' : IState),
    tokLoop cfg fuel e st = .ok st' → AllShapeList st.children → AllShapeList st'.children := by
  intro fuel
  induction fuel with
  | zero =>
    intro e st st' h hc
    unfold tokLoop at h
    split at h
    · simp at h
    · simp only [Except.ok.injEq] at h; rw [← h]; exact hc
  | succ f ih =>
    intro e st st' h hc
    unfold tokLoop at h
    split at h
    · simp only at h
      split at h
      · simp at h
      · next st1 hstep =>
        have ht : ShapeFn (fun s => tokLoop cfg f s.posMax s) := fun s s' hh hcs => ih _ _ _ hh hcs
        exact ih _ _ _ h (tokStep_shape (skipToken_calm cfg f) ht hstep hc)
    · simp only [Except.ok.injEq] at h; rw [← h]; exact hc

/-- every node the inline parser hands out has the shape its value demands -/
theorem parseInline_shapes (cfg : Cfg) {content : List Char} {mapping : Srcmap} {ns : List Node}
    (h : parseInline cfg content mapping = .ok ns) : AllShapeList ns := by
  unfold parseInline tokenize at h
  split at h
  · simp at h
  · next st hst =>
    simp only [Except.ok.injEq] at h; subst h
    exact shape_induction cfg _ _ _ _ hst (by unfold IState.init; trivial)

end MdIt.Inline
