/-
  Helper development for `Props/Inline.lean` (continued): autolinks and emphasis markers.
-/
import MdIt.Lemmas.InlineRules

namespace MdIt.Inline
open MdIt.InlineOps (Srcmap getSourcePosFor getMap byteLen slice)
open MdIt.C05 (WFMap byteLen_append slice_ok_iff)

/-! ## autolink -/

theorem autolinkScan_spec {l : List Char} {p0 p : Nat} (h : autolinkScan l p0 = some p) :
    ∃ u v, l = u ++ '>' :: v ∧ p = p0 + byteLen u := by
  induction l generalizing p0 with
  | nil => simp [autolinkScan] at h
  | cons c r ih =>
    unfold autolinkScan at h
    split at h
    · simp at h
    · split at h
      · next hc =>
        simp only [Option.some.injEq] at h; subst h; subst hc
        exact ⟨[], r, rfl, by simp [byteLen]⟩
      · obtain ⟨u, v, hr, hp⟩ := ih h
        exact ⟨c :: u, v, by rw [hr]; rfl, by rw [hp]; simp only [byteLen]; omega⟩

theorem ruleAutolink_simple {st st' : IState} {silent : Bool} {o : Option Nat}
    (h : ruleAutolink st silent = .ok (o, st')) : Simple st silent o st' := by
  unfold ruleAutolink at h
  split at h
  · simp at h
  · simp at h
  · next c rest hw =>
    split at h
    · simp only [Except.ok.injEq, Prod.mk.injEq] at h; obtain ⟨rfl, rfl⟩ := h
      exact ⟨Frame.refl _, rfl, rfl, fun _ => Quiet.refl _, by simp⟩
    · split at h
      · simp only [Except.ok.injEq, Prod.mk.injEq] at h; obtain ⟨rfl, rfl⟩ := h
        exact ⟨Frame.refl _, rfl, rfl, fun _ => Quiet.refl _, by simp⟩
      · next p hscan =>
        obtain ⟨u, v, _, hp⟩ := autolinkScan_spec hscan
        split at h
        · simp at h
        · simp only at h
          split at h
          · simp only [Except.ok.injEq, Prod.mk.injEq] at h; obtain ⟨rfl, rfl⟩ := h
            exact ⟨Frame.refl _, rfl, rfl, fun _ => Quiet.refl _, by simp⟩
          · split at h
            · simp only [Except.ok.injEq, Prod.mk.injEq] at h; obtain ⟨rfl, rfl⟩ := h
              exact ⟨Frame.refl _, rfl, rfl, fun _ => Quiet.refl _, by simp⟩
            · split at h
              · simp only [Except.ok.injEq, Prod.mk.injEq] at h; obtain ⟨rfl, rfl⟩ := h
                refine ⟨Frame.refl _, rfl, rfl, fun _ => Quiet.refl _, ?_⟩
                intro l hl; simp only [Option.some.injEq] at hl; omega
              · next hs =>
                split at h
                · simp at h
                · split at h
                  · simp at h
                  · simp only [Except.ok.injEq, Prod.mk.injEq] at h; obtain ⟨rfl, rfl⟩ := h
                    refine ⟨⟨rfl, rfl, rfl, rfl, rfl⟩, rfl, rfl, fun hq => absurd hq hs, ?_⟩
                    intro l hl; simp only [Option.some.injEq] at hl; omega

/-- the verdict of the autolink rule is the same in both modes: a successful call answers
    `pos' - pos` for the `pos'` the scan found, and real mode differs only in the pushed node -/
theorem ruleAutolink_verdict {st st1 st2 : IState} {o1 o2 : Option Nat}
    (h1 : ruleAutolink st true = .ok (o1, st1)) (h2 : ruleAutolink st false = .ok (o2, st2)) :
    o1 = o2 := by
  unfold ruleAutolink at h1 h2
  split at h1
  · simp at h1
  · simp at h1
  · next c rest hw =>
    rw [hw] at h2
    simp only at h2
    split at h1
    · next hc =>
      rw [if_pos hc] at h2
      simp only [Except.ok.injEq, Prod.mk.injEq] at h1 h2
      rw [← h1.1, ← h2.1]
    · next hc =>
      rw [if_neg hc] at h2
      split at h1
      · next hscan =>
        rw [hscan] at h2
        simp only [Except.ok.injEq, Prod.mk.injEq] at h1 h2
        rw [← h1.1, ← h2.1]
      · next p hscan =>
        rw [hscan] at h2
        simp only at h2
        split at h1
        · simp at h1
        · next url hurl =>
          rw [hurl] at h2
          simp only at h1 h2
          split at h1
          · next hno =>
            rw [if_pos hno] at h2
            simp only [Except.ok.injEq, Prod.mk.injEq] at h1 h2
            rw [← h1.1, ← h2.1]
          · next hno =>
            rw [if_neg hno] at h2
            split at h1
            · next hd =>
              rw [hd] at h2
              simp only [Except.ok.injEq, Prod.mk.injEq] at h1 h2
              rw [← h1.1, ← h2.1]
            · next full hd =>
              rw [hd] at h2
              simp only [if_true, Except.ok.injEq, Prod.mk.injEq] at h1
              simp only [Bool.false_eq_true, if_false] at h2
              split at h2
              · simp at h2
              · split at h2
                · simp at h2
                · simp only [Except.ok.injEq, Prod.mk.injEq] at h2
                  rw [← h1.1, ← h2.1]

theorem inline_rule_progress_autolink {st : IState} (hi : InlineInv st) (silent : Bool) :
    ∃ o st', ruleAutolink st silent = .ok (o, st') ∧ Advances st o := by
  obtain ⟨pre, w, post, hsrc, hpre, hlen, hw, hne⟩ := window_ok hi
  have hsl := window_eq hw
  cases w with
  | nil => exact absurd rfl hne
  | cons c rest =>
    unfold ruleAutolink
    rw [hw]
    simp only
    split
    · exact ⟨_, _, rfl, by intro len hl; simp at hl⟩
    · next hc =>
      have hc' : c = '<' := by simpa using hc
      subst hc'
      cases hscan : autolinkScan rest (st.pos + 2) with
      | none => exact ⟨_, _, rfl, by intro len hl; simp at hl⟩
      | some p =>
        simp only
        obtain ⟨u, v, hr, hp⟩ := autolinkScan_spec hscan
        have e1 : ('<' : Char).utf8Size = 1 := by decide
        have e2 : ('>' : Char).utf8Size = 1 := by decide
        -- the text between `<` and `>`
        have hurl : slice st.src (st.pos + 1) (p - 1) = .ok u := by
          apply (slice_ok_iff _ _ _ _).mpr
          refine ⟨pre ++ ['<'], '>' :: v ++ post, ?_, ?_, ?_⟩
          · rw [hsrc, hr]; simp
          · rw [byteLen_append]; simp only [byteLen, e1]; omega
          · omega
        have hbl : byteLen ('<' :: u ++ ['>']) = p - st.pos := by
          simp only [List.cons_append, byteLen, byteLen_append, e1, e2]; omega
        have hadv : Advances st (some (p - st.pos)) := by
          intro len hl
          simp only [Option.some.injEq] at hl; subst hl
          have hw2 : '<' :: rest = ('<' :: u ++ ['>']) ++ v := by rw [hr]; simp
          refine ⟨by omega, ?_, ?_⟩
          · rw [← hlen, hw2, byteLen_append, hbl]; omega
          · rw [← hbl]; exact boundary_in_slice (by rw [← hw2]; exact hsl)
        rw [hurl]
        simp only [liftOps]
        split
        · exact ⟨_, _, rfl, by intro len hl; simp at hl⟩
        · split
          · exact ⟨_, _, rfl, by intro len hl; simp at hl⟩
          · split
            · exact ⟨_, _, rfl, hadv⟩
            · obtain ⟨x, y, hm, _, _⟩ := getMap_ok (st := st) hi.wf (a := st.pos) (b := p) (by omega)
              obtain ⟨x', y', hm', _, _⟩ := getMap_ok (st := st) hi.wf (a := st.pos + 1) (b := p - 1)
                (by omega)
              rw [hm, hm']
              exact ⟨_, _, rfl, hadv⟩

/-- **silent = real (autolink).** -/
theorem silent_real_autolink {st : IState} {n : Nat} {st1 : IState}
    (hs : ruleAutolink st true = .ok (some n, st1)) :
    st1 = st ∧ ∀ o st2, ruleAutolink st false = .ok (o, st2) → o = some n ∧ st2.pos = st.pos := by
  have h1 : st1 = st := by
    unfold ruleAutolink at hs
    split at hs
    · simp at hs
    · simp at hs
    · split at hs
      · simp at hs
      · split at hs
        · simp at hs
        · split at hs
          · simp at hs
          · simp only at hs
            split at hs
            · simp at hs
            · split at hs
              · simp at hs
              · simp only [if_true, Except.ok.injEq, Prod.mk.injEq] at hs; exact hs.2.symm
  refine ⟨h1, ?_⟩
  intro o st2 hr
  exact ⟨(ruleAutolink_verdict hs hr).symm, (ruleAutolink_simple hr).pos⟩

/-! ## emphasis markers -/

theorem scanDelims_length {cfg : Cfg} {src : List Char} {posMax start : Nat} {csw : Bool}
    {d : DelimRun} (h : scanDelims cfg src posMax start csw = .ok d) :
    ∃ mk rest, liftOps (slice src start posMax) = .ok (mk :: rest) ∧ d.marker = mk ∧
      d.length = 1 + CodePair.runLen mk rest := by
  unfold scanDelims at h
  simp only at h
  split at h
  · simp at h
  · split at h
    · simp at h
    · simp at h
    · next mk rest hsl =>
      simp only [Except.ok.injEq] at h
      subst h
      exact ⟨mk, rest, hsl, rfl, rfl⟩

theorem ruleEmph_silent (cfg : Cfg) (mk : Char) (csw : Bool) (st : IState) :
    ruleEmph cfg mk csw st true = .ok (none, st) := by
  unfold ruleEmph; rfl

theorem ruleEmph_simple {cfg : Cfg} {mk : Char} {csw : Bool} {st st' : IState} {silent : Bool}
    {o : Option Nat} (h : ruleEmph cfg mk csw st silent = .ok (o, st')) : Simple st silent o st' := by
  unfold ruleEmph at h
  split at h
  · simp only [Except.ok.injEq, Prod.mk.injEq] at h; obtain ⟨rfl, rfl⟩ := h
    exact ⟨Frame.refl _, rfl, rfl, fun _ => Quiet.refl _, by simp⟩
  · next hs =>
    split at h
    · simp at h
    · simp at h
    · split at h
      · simp only [Except.ok.injEq, Prod.mk.injEq] at h; obtain ⟨rfl, rfl⟩ := h
        exact ⟨Frame.refl _, rfl, rfl, fun _ => Quiet.refl _, by simp⟩
      · split at h
        · simp at h
        · next scanned hsc =>
          obtain ⟨_, _, _, _, hlen⟩ := scanDelims_length hsc
          split at h
          · simp at h
          · simp only at h
            split at h
            · split at h
              · simp at h
              · simp only [Except.ok.injEq, Prod.mk.injEq] at h; obtain ⟨rfl, rfl⟩ := h
                refine ⟨⟨rfl, rfl, rfl, rfl, rfl⟩, rfl, rfl, fun hq => absurd hq hs, ?_⟩
                intro l hl; simp only [Option.some.injEq] at hl; omega
            · simp only [Except.ok.injEq, Prod.mk.injEq] at h; obtain ⟨rfl, rfl⟩ := h
              refine ⟨⟨rfl, rfl, rfl, rfl, rfl⟩, rfl, rfl, fun hq => absurd hq hs, ?_⟩
              intro l hl; simp only [Option.some.injEq] at hl; omega

theorem runLen_split (m : Char) (l : List Char) :
    ∃ t, l = List.replicate (CodePair.runLen m l) m ++ t := by
  induction l with
  | nil => exact ⟨[], rfl⟩
  | cons c r ih =>
    unfold CodePair.runLen
    split
    · next hc =>
      obtain ⟨t, ht⟩ := ih
      refine ⟨t, ?_⟩
      rw [List.replicate_succ, List.cons_append, ← ht, hc]
    · exact ⟨c :: r, rfl⟩

/-- progress of the emphasis-marker rule (real mode; look-ahead always answers `None`): for a
    single-byte marker the run ends on a boundary within the window.  (For a multi-byte marker the
    Rust returns the number of CHARACTERS as a byte length.) -/
theorem inline_rule_progress_emph {cfg : Cfg} {mk : Char} (hmk : mk.utf8Size = 1) {csw : Bool}
    {st st' : IState} {silent : Bool} {o : Option Nat}
    (h : ruleEmph cfg mk csw st silent = .ok (o, st')) : Advances st o := by
  intro len hl
  subst hl
  unfold ruleEmph at h
  split at h
  · simp at h
  · split at h
    · simp at h
    · simp at h
    · next c w1 hw =>
      split at h
      · simp at h
      · next hc =>
        have hc' : c = mk := by simpa using hc
        subst hc'
        split at h
        · simp at h
        · next scanned hsc =>
          obtain ⟨mk', rest, hsl, _, hlen⟩ := scanDelims_length hsc
          have hsl' : slice st.src st.pos st.posMax = .ok (mk' :: rest) := liftOps_ok.mp hsl
          have hwe := window_eq hw
          rw [hwe] at hsl'
          simp only [Except.ok.injEq, List.cons.injEq] at hsl'
          obtain ⟨rfl, rfl⟩ := hsl'
          have hfin : len = scanned.length := by
            split at h
            · simp at h
            · simp only at h
              split at h
              · split at h
                · simp at h
                · simp only [Except.ok.injEq, Prod.mk.injEq, Option.some.injEq] at h; exact h.1.symm
              · simp only [Except.ok.injEq, Prod.mk.injEq, Option.some.injEq] at h; exact h.1.symm
          obtain ⟨t, ht⟩ := runLen_split c w1
          have hrep : byteLen (c :: List.replicate (CodePair.runLen c w1) c) = 1 + CodePair.runLen c w1 := by
            have := CodePair.byteLen_replicate hmk (CodePair.runLen c w1)
            rw [codeByteLen_eq] at this
            simp only [byteLen, hmk, this]
          have hw2 : c :: w1 = (c :: List.replicate (CodePair.runLen c w1) c) ++ t := by
            rw [List.cons_append, ← ht]
          obtain ⟨_, _, hlen2⟩ := slice_boundaries hwe
          refine ⟨by omega, ?_, ?_⟩
          · rw [hfin, hlen, ← hlen2, hw2, byteLen_append, hrep]; omega
          · rw [hfin, hlen, ← hrep]
            exact boundary_in_slice (by rw [← hw2]; exact hwe)

end MdIt.Inline
