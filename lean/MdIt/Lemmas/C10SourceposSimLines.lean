/-
  C10 with the sourcepos plugin, block simulation part 5: the line tables of `src` and `lfToCrlf src`
  are entrywise `LX.ERel` for the EXACT offset relation `C10SP.crlfRel src` (`b = a + #LF before a`),
  hence the fresh parser states are `LX.SRel`.  The `StartRel` of this file asks of every line that
  ALL offsets of the line (its end included) are related at equal distances from the two starts —
  inside a line there is no line feed, so `lfBelow src` is constant there.
-/
import MdIt.Lemmas.C10SourceposSimCore

namespace MdIt.C10SP
open MdIt

/-! ## `lfBelow` -/

/-- number of line feeds of a text -/
def lfAll (a : List Char) : Nat := lfBelow a (Lines.byteLen a)

@[simp] theorem lfAll_nil : lfAll [] = 0 := rfl

theorem lfAll_cons (c : Char) (r : List Char) : lfAll (c :: r) = (if c = '\n' then 1 else 0) + lfAll r := by
  have := Lines.utf8Size_pos' c
  unfold lfAll
  rw [Lines.byteLen_cons, lfBelow, if_neg (show ¬ (c.utf8Size + Lines.byteLen r = 0) by omega),
    Nat.add_sub_cancel_left]

/-- below the end of `a` only `a` counts -/
theorem lfBelow_append_le : ∀ (a b : List Char) (n : Nat), n ≤ Lines.byteLen a →
    lfBelow (a ++ b) n = lfBelow a n
  | [], b, n, h => by
    simp only [Lines.byteLen_nil, Nat.le_zero_eq] at h
    subst h; simp
  | c :: a, b, n, h => by
    simp only [List.cons_append, lfBelow]
    by_cases h0 : n = 0
    · simp [h0]
    · rw [if_neg h0, if_neg h0, lfBelow_append_le a b _ (by simp only [Lines.byteLen_cons] at h; omega)]

/-- behind `a`: all line feeds of `a` and those of `b` below the rest -/
theorem lfBelow_append_ge : ∀ (a b : List Char) (n : Nat),
    lfBelow (a ++ b) (Lines.byteLen a + n) = lfAll a + lfBelow b n
  | [], b, n => by simp
  | c :: a, b, n => by
    have := Lines.utf8Size_pos' c
    rw [List.cons_append, lfBelow, Lines.byteLen_cons, lfAll_cons,
      if_neg (show ¬ (c.utf8Size + Lines.byteLen a + n = 0) by omega),
      show c.utf8Size + Lines.byteLen a + n - c.utf8Size = Lines.byteLen a + n by omega,
      lfBelow_append_ge a b n]
    omega

/-- a text without line feeds -/
theorem lfBelow_noLF : ∀ (l : List Char), '\n' ∉ l → ∀ n, lfBelow l n = 0
  | [], _, _ => rfl
  | c :: l, h, n => by
    simp only [lfBelow]
    by_cases h0 : n = 0
    · simp [h0]
    · rw [if_neg h0, if_neg (by intro hc; exact h (by simp [hc])), lfBelow_noLF l (fun hm => h (by simp [hm]))]

theorem lfAll_append (a b : List Char) : lfAll (a ++ b) = lfAll a + lfAll b := by
  have := lfBelow_append_ge a b (Lines.byteLen b)
  unfold lfAll at *
  rw [Lines.byteLen_append]; exact this

/-- inside a line `l` that starts behind `pre` (its end included) the count is that of `pre` -/
theorem lfBelow_in_line (pre l x : List Char) (hl : '\n' ∉ l) (d : Nat) (hd : d ≤ Lines.byteLen l) :
    lfBelow (pre ++ (l ++ x)) (Lines.byteLen pre + d) = lfAll pre := by
  rw [lfBelow_append_ge, lfBelow_append_le l x d hd, lfBelow_noLF l hl]; rfl

end MdIt.C10SP

namespace MdIt.Block.LX
open MdIt.Lines (LineOffset linesT afterLine termOf flat mkOff offsetsOf lfToCrlf lfToCr)
open MdIt.Block.LE

/-- two lists of (line, terminator) pairs laid out from `st₁` / `st₂`: the same lines, and every
    offset of a line (from its start to its end) `ρ`-related to the offset at the same distance -/
def StartRel (ρ : Nat → Nat → Prop) : Nat → Nat → List (List Char × List Char) → List (List Char × List Char) → Prop
  | _, _, [], [] => True
  | st₁, st₂, x :: r₁, y :: r₂ =>
    x.1 = y.1 ∧ (∀ d, d ≤ Lines.byteLen x.1 → ρ (st₁ + d) (st₂ + d)) ∧
      StartRel ρ (st₁ + Lines.byteLen x.1 + Lines.byteLen x.2) (st₂ + Lines.byteLen y.1 + Lines.byteLen y.2) r₁ r₂
  | _, _, [], _ :: _ => False
  | _, _, _ :: _, [] => False

theorem StartRel.length {ρ : Nat → Nat → Prop} : ∀ {st₁ st₂ : Nat} {L₁ L₂ : List (List Char × List Char)},
    StartRel ρ st₁ st₂ L₁ L₂ → L₁.length = L₂.length
  | _, _, [], [], _ => rfl
  | _, _, [], _ :: _, h => by simp [StartRel] at h
  | _, _, _ :: _, [], h => by simp [StartRel] at h
  | _, _, _ :: _, _ :: _, h => by
    simp only [StartRel] at h
    simp [StartRel.length h.2.2]

/-- the pair at the same index: the same line, `ρ`-related offsets -/
theorem StartRel.at {ρ : Nat → Nat → Prop} : ∀ {A₁ A₂ : List (List Char × List Char)} {st₁ st₂ : Nat}
    {x y : List Char × List Char} {B₁ B₂ : List (List Char × List Char)},
    StartRel ρ st₁ st₂ (A₁ ++ x :: B₁) (A₂ ++ y :: B₂) → A₁.length = A₂.length →
    x.1 = y.1 ∧ ∀ d, d ≤ Lines.byteLen x.1 →
      ρ (st₁ + Lines.byteLen (flat A₁) + d) (st₂ + Lines.byteLen (flat A₂) + d)
  | [], [], _, _, _, _, _, _, h, _ => by
    simp only [List.nil_append, StartRel] at h
    simpa using ⟨h.1, h.2.1⟩
  | [], _ :: _, _, _, _, _, _, _, _, hl => by simp at hl
  | _ :: _, [], _, _, _, _, _, _, _, hl => by simp at hl
  | a :: A₁, b :: A₂, st₁, st₂, x, y, B₁, B₂, h, hl => by
    simp only [List.cons_append, StartRel] at h
    have := StartRel.at h.2.2 (by simpa using hl)
    refine ⟨this.1, ?_⟩
    intro d hd
    have e := this.2 d hd
    simp only [Lines.flat_cons, Lines.byteLen_append] at e ⊢
    simpa [Nat.add_assoc] using e

theorem StartRel.symm {ρ : Nat → Nat → Prop} : ∀ {L₁ L₂ : List (List Char × List Char)} {a b : Nat},
    StartRel ρ a b L₁ L₂ → StartRel (fun x y => ρ y x) b a L₂ L₁
  | [], [], _, _, _ => trivial
  | [], _ :: _, _, _, h => by simp [StartRel] at h
  | _ :: _, [], _, _, h => by simp [StartRel] at h
  | _ :: _, _ :: _, _, _, h => by
    simp only [StartRel] at h ⊢
    exact ⟨h.1.symm, fun d hd => h.2.1 d (by rw [h.1]; exact hd), StartRel.symm h.2.2⟩

/-- entries at the same index of two tables cut from sources with `StartRel` line lists -/
theorem erel_of_startRel {ρ : Nat → Nat → Prop} {s₁ s₂ : List Char}
    (h : StartRel ρ 0 0 (linesT s₁) (linesT s₂)) {i : Nat} {o₁ o₂ : LineOffset}
    (h₁ : (Lines.splitLines s₁)[i]? = some o₁) (h₂ : (Lines.splitLines s₂)[i]? = some o₂) :
    ERel ρ s₁ s₂ o₁ o₂ := by
  obtain ⟨A₁, x, B₁, hL₁, hA₁, rfl, hs₁, _, _⟩ := Lines.split_entry h₁
  obtain ⟨A₂, y, B₂, hL₂, hA₂, rfl, hs₂, _, _⟩ := Lines.split_entry h₂
  rw [hL₁, hL₂] at h
  obtain ⟨hxy, hr⟩ := h.at (hA₁.trans hA₂.symm)
  simp only [Nat.zero_add] at hr
  have hl := Lines.lead_append_rest x.1
  have hlen := congrArg Lines.byteLen hl
  simp only [Lines.byteLen_append] at hlen
  refine ⟨Lines.lead x.1, x.1.dropWhile Lines.isBlank, flat A₁, x.2 ++ flat B₁, flat A₂, y.2 ++ flat B₂,
    ?_, ?_, rfl, rfl, ?_, ?_, ?_, ?_, ?_, ?_⟩
  · rw [hl]; conv => lhs; rw [hs₁]
  · rw [hl, hxy]; conv => lhs; rw [hs₂]
  · simp [mkOff, Lines.byteLen_lead]
  · simp [mkOff, Lines.byteLen_lead, hxy]
  · simp [mkOff]; omega
  · simp [mkOff, ← hxy]; omega
  · simp [mkOff, hxy]
  · intro d hd
    exact hr d (by omega)

/-! ## LF ↦ CR LF, exactly -/

theorem noTerm_noLF {l : List Char} (h : Lines.NoTerm l) : '\n' ∉ l := fun hm => (h _ hm).1 rfl

/-- LF ↦ CR LF behind a prefix `pre`: the same lines; the offset `a` of the LF text is the offset
    `a + #LF before a` of the CR LF text, for every offset of every line -/
theorem linesT_crlf_exact_gen : ∀ (n : Nat) (pre s : List Char), s.length = n → '\r' ∉ s →
    StartRel (C10SP.crlfRel (pre ++ s)) (Lines.byteLen pre) (Lines.byteLen pre + C10SP.lfAll pre)
      (linesT s) (linesT (lfToCrlf s)) := by
  intro n
  induction n using Nat.strongRecOn with
  | _ n ih =>
    intro pre s hn hcr
    obtain ⟨hs, hx⟩ := crfree_split hcr
    have hl := Lines.lineOf_noTerm s
    -- every offset of the first line
    have hline : ∀ x, s = Lines.lineOf s ++ x → ∀ d, d ≤ Lines.byteLen (Lines.lineOf s) →
        C10SP.crlfRel (pre ++ s) (Lines.byteLen pre + d) (Lines.byteLen pre + C10SP.lfAll pre + d) := by
      intro x hx d hd
      unfold C10SP.crlfRel
      rw [hx, C10SP.lfBelow_in_line pre _ x (noTerm_noLF hl) d hd]
      omega
    rcases hx with hx | ⟨r, hx, hr, hlen⟩
    · rw [hx] at hs
      have hline' := hline [] hs
      generalize Lines.lineOf s = l at hs hl hline'
      subst hs
      rw [List.append_nil] at hline' ⊢
      have e : linesT l = [(l, [])] := by
        have := linesT_step (x := []) hl (by intro c r h; cases h)
        simpa [termOf] using this
      have e' : lfToCrlf l = l := by
        have := lfToCrlf_noTerm hl []
        simpa [lfToCrlf] using this
      rw [e', e]
      simp only [StartRel]
      exact ⟨trivial, hline', trivial⟩
    · rw [hx] at hs
      have hline' := hline _ hs
      generalize Lines.lineOf s = l at hs hl hline'
      subst hs
      rw [lfToCrlf_noTerm hl]
      simp only [lfToCrlf, if_true]
      rw [linesT_step hl (by intro c r h; cases h; exact .inl rfl),
        linesT_step hl (by intro c r h; cases h; exact .inr rfl)]
      have t1 : termOf ('\n' :: r) = (['\n'], r) := by simp [termOf]
      have t2 : termOf ('\r' :: '\n' :: lfToCrlf r) = (['\r', '\n'], lfToCrlf r) := by simp [termOf]
      rw [t1, t2]
      simp only
      by_cases hr0 : r = []
      · subst hr0
        simp only [lfToCrlf, if_true, StartRel]
        exact ⟨trivial, hline', trivial⟩
      · have hr0' : lfToCrlf r ≠ [] := fun h => hr0 (lfToCrlf_eq_nil.mp h)
        rw [if_neg hr0, if_neg hr0']
        simp only [StartRel]
        refine ⟨trivial, hline', ?_⟩
        have := ih r.length (by simp at hn; omega) (pre ++ l ++ ['\n']) r rfl hr
        have e1 : pre ++ l ++ ['\n'] ++ r = pre ++ (l ++ '\n' :: r) := by simp
        have e2 : C10SP.lfAll (pre ++ l ++ ['\n']) = C10SP.lfAll pre + 1 := by
          rw [C10SP.lfAll_append, C10SP.lfAll_append, C10SP.lfAll_cons]
          have : C10SP.lfAll l = 0 := C10SP.lfBelow_noLF l (noTerm_noLF hl) _
          simp [this]
        rw [e1, e2] at this
        have b1 : Lines.byteLen ['\n'] = 1 := by decide
        have b2 : Lines.byteLen ['\r', '\n'] = 2 := by decide
        simp only [Lines.byteLen_append, b1] at this
        rw [b1, b2]
        rw [show Lines.byteLen pre + C10SP.lfAll pre + Lines.byteLen l + 2
          = Lines.byteLen pre + Lines.byteLen l + 1 + (C10SP.lfAll pre + 1) by omega]
        exact this

/-- **LF ↦ CR LF: the line lists are related by the exact offset translation** -/
theorem linesT_crlf_exact (src : List Char) (h : '\r' ∉ src) :
    StartRel (C10SP.crlfRel src) 0 0 (linesT src) (linesT (lfToCrlf src)) := by
  have := linesT_crlf_exact_gen _ [] src rfl h
  simpa using this

/-! ## the fresh states -/

theorem ctx_of (ρ : Nat → Nat → Prop) (s₁ s₂ : List Char) : Ctx ρ (geoOf s₁ s₂) :=
  ⟨incT_split s₁, incT_split s₂⟩

/-- the states `BlockState::new` makes for two sources with `StartRel` line lists -/
theorem srel_fresh {ρ : Nat → Nat → Prop} {s₁ s₂ : List Char}
    (h : StartRel ρ 0 0 (linesT s₁) (linesT s₂)) (k : Kind) (refs : Refs.RefMap) :
    SRel ρ (geoOf s₁ s₂) (BState.fresh s₁ k refs) (BState.fresh s₂ k refs) := by
  have hlen : (Lines.splitLines s₂).length = (Lines.splitLines s₁).length := by
    rw [Lines.splitLines_eq, Lines.splitLines_eq, Lines.offsetsOf_length, Lines.offsetsOf_length, h.length]
  refine ⟨rfl, rfl, hlen, ?_, rfl, rfl, rfl, rfl, ?_, rfl, rfl, rfl, rfl, rfl, NRelL.nil⟩
  · intro i o₁ o₂ h₁ h₂
    exact erel_of_startRel h h₁ h₂
  · simp only [BState.fresh, hlen]

end MdIt.Block.LX
