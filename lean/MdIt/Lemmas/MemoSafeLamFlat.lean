/-
  Helper development for `Props/MemoSafe.lean`, second part: the per-rule comparison (L2) for the rules
  WITHOUT look-ahead recursion.

  A memo entry `k ↦ v` was made by a look-ahead step from a witness state `st0` (position `k`, the top
  `pos_max`); inside a nested label frame the REAL tokenizer reaches `k` at a state `s` with the same
  text and position, `s.posMax ≤ st0.posMax` (the character at `s.posMax` is `]`), another tree / memo.

    * PART 1 — on ONE state the real verdict is the look-ahead verdict (`real_silent_verdict`: the
      converse of `silent_real_<rule>`; no hypothesis: the statement talks about runs that returned);
      what a real run of a flat rule keeps (`real_keeps`, `runRule_backticks_unchanged`); a flat rule
      declines in real mode at a first character outside `firesAt` (`real_declines`);
    * PART 2 — `flat_L2`: look-ahead verdict at `st0` against real verdict at `s`, for text, newline,
      escape, autolink, entity, linkEnd (window independence + PART 1);
    * PART 3 — `emph_real_L2`: what the emphasis rule does in real mode (declines off its marker; at its
      marker takes the whole run of markers).
-/
import MdIt.Lemmas.MemoSafeLamDef

namespace MdIt.Inline
open MdIt.InlineOps (Srcmap getSourcePosFor getMap byteLen slice)
open MdIt.C05 (WFMap byteLen_append slice_ok_iff)

/-! ## PART 1: real verdict = look-ahead verdict on the same state -/

theorem ruleText_real_silent {s s' : IState} {o : Option Nat} (h : ruleText s false = .ok (o, s')) :
    ruleText s true = .ok (o, s) := by
  cases hw : s.window with
  | error e => unfold ruleText at h; rw [hw] at h; simp at h
  | ok w =>
    have v := ruleText_verdict hw h
    rw [ruleText_silent, hw]
    simp only [textV]
    rw [v]

theorem ruleNewline_real_silent {s s' : IState} {o : Option Nat}
    (h : ruleNewline s false = .ok (o, s')) : ruleNewline s true = .ok (o, s) := by
  cases hw : s.window with
  | error e => unfold ruleNewline at h; rw [hw] at h; simp at h
  | ok w =>
    cases w with
    | nil => unfold ruleNewline at h; rw [hw] at h; simp at h
    | cons c rest =>
      have v := ruleNewline_verdict hw h
      rw [ruleNewline_silent, hw]
      simp only [newlineV]
      rw [v]

theorem ruleEscape_real_silent {s s' : IState} {o : Option Nat}
    (h : ruleEscape s false = .ok (o, s')) : ruleEscape s true = .ok (o, s) := by
  cases hw : s.window with
  | error e => unfold ruleEscape at h; rw [hw] at h; simp at h
  | ok w =>
    have v := ruleEscape_verdict hw h
    rw [ruleEscape_silent, hw]
    simp only [escapeV]
    unfold escapeLen at v
    cases hc : Entity.escapeCore w with
    | error e => unfold ruleEscape at h; rw [hw] at h; simp [hc] at h
    | ok r =>
      rw [hc] at v
      match r, v with
      | none, v => simp only at v ⊢; rw [v]
      | some (.hardbreak len), v => simp only at v ⊢; rw [v]
      | some (.special sp), v => simp only at v ⊢; rw [v]

theorem ruleEntity_real_silent {cfg : Cfg} {s s' : IState} {o : Option Nat}
    (h : ruleEntity cfg s false = .ok (o, s')) : ruleEntity cfg s true = .ok (o, s) := by
  cases hw : s.window with
  | error e => unfold ruleEntity at h; rw [hw] at h; simp at h
  | ok w =>
    cases w with
    | nil => unfold ruleEntity at h; rw [hw] at h; simp at h
    | cons c rest =>
      rw [ruleEntity_silent, hw]
      simp only [entityV]
      unfold ruleEntity at h
      rw [hw] at h
      simp only at h
      split at h
      · next hc =>
        rw [if_pos hc]
        simp only [Except.ok.injEq, Prod.mk.injEq] at h
        rw [← h.1]
      · next hc =>
        rw [if_neg hc]
        split at h
        · simp at h
        · next suffix hsuf =>
          rw [hsuf]
          simp only
          split at h
          · simp at h
          · next hcore =>
            rw [hcore]
            simp only [Except.ok.injEq, Prod.mk.injEq] at h
            rw [← h.1]
          · next sp hcore =>
            rw [hcore]
            simp only [Bool.false_eq_true, if_false] at h
            split at h
            · simp at h
            · simp only [Except.ok.injEq, Prod.mk.injEq] at h
              rw [← h.1]

theorem ruleAutolink_real_silent {s s' : IState} {o : Option Nat}
    (h : ruleAutolink s false = .ok (o, s')) : ruleAutolink s true = .ok (o, s) := by
  cases hw : s.window with
  | error e => unfold ruleAutolink at h; rw [hw] at h; simp at h
  | ok w =>
    cases w with
    | nil => unfold ruleAutolink at h; rw [hw] at h; simp at h
    | cons c rest =>
      rw [ruleAutolink_silent, hw]
      simp only [autolinkV]
      unfold ruleAutolink at h
      rw [hw] at h
      simp only at h
      split at h
      · next hc =>
        rw [if_pos hc]
        simp only [Except.ok.injEq, Prod.mk.injEq] at h
        rw [← h.1]
      · next hc =>
        rw [if_neg hc]
        unfold autolinkTail
        split at h
        · next hscan =>
          rw [hscan]
          simp only [Except.ok.injEq, Prod.mk.injEq] at h
          rw [← h.1]
        · next p hscan =>
          rw [hscan]
          simp only
          split at h
          · simp at h
          · next url hurl =>
            rw [hurl]
            simp only at h ⊢
            split at h
            · next hno =>
              rw [if_pos hno]
              simp only [Except.ok.injEq, Prod.mk.injEq] at h
              rw [← h.1]
            · next hno =>
              rw [if_neg hno]
              split at h
              · next hd =>
                rw [hd]
                simp only [Except.ok.injEq, Prod.mk.injEq] at h
                rw [← h.1]
              · next full hd =>
                rw [hd]
                simp only [Bool.false_eq_true, if_false] at h
                split at h
                · simp at h
                · split at h
                  · simp at h
                  · simp only [Except.ok.injEq, Prod.mk.injEq] at h
                    rw [← h.1]

theorem ruleBackticks_real_silent {s s' : IState} {o : Option Nat}
    (h : ruleBackticks s false = .ok (o, s')) : ∃ s'', ruleBackticks s true = .ok (o, s'') := by
  have hsr := CodePair.codepair_silent_real CodePair.Variant.current '`' backtick_size s.src s.pos
    s.posMax false s.backticks
  unfold ruleBackticks at h ⊢
  cases hr : CodePair.run CodePair.Variant.current '`' s.src s.pos s.posMax false false s.backticks with
  | error e => rw [hr] at h; simp at h
  | ok r =>
    obtain ⟨oc, c⟩ := r
    rw [hr] at hsr
    cases hs : CodePair.run CodePair.Variant.current '`' s.src s.pos s.posMax false true s.backticks with
    | error e => rw [hs] at hsr; simp [Except.map] at hsr
    | ok r2 =>
      obtain ⟨oc2, c2⟩ := r2
      rw [hs] at hsr
      simp only [Except.map, CodePair.strip, Except.ok.injEq, Prod.mk.injEq] at hsr
      obtain ⟨hl, hc⟩ := hsr
      rw [hr] at h
      cases oc with
      | none =>
        simp only [Except.ok.injEq, Prod.mk.injEq] at h
        cases oc2 with
        | none => exact ⟨_, by rw [← h.1]⟩
        | some o2 => simp at hl
      | some o1 =>
        cases oc2 with
        | none => simp at hl
        | some o2 =>
          simp only [Option.map_some, Option.some.injEq] at hl
          have hn := run_silent_node _ _ _ _ _ _ _ _ _ hs
          simp only [hn]
          have ho : o = some o1.len := by
            simp only at h
            split at h
            · simp only [Except.ok.injEq, Prod.mk.injEq] at h; exact h.1.symm
            · split at h
              · simp at h
              · split at h
                · simp at h
                · simp only [Except.ok.injEq, Prod.mk.injEq] at h; exact h.1.symm
          exact ⟨_, by rw [ho, hl]⟩

/-- **real verdict = look-ahead verdict on the same state** (the six flat rules that answer in
    look-ahead mode; no hypothesis on the state: the verdict is computed before the mode is consulted) -/
theorem real_silent_verdict {cfg : Cfg} {skip tok : IState → Except Panic IState} {fuel : Nat}
    (id : RuleId)
    (hid : id = .text ∨ id = .newline ∨ id = .escape ∨ id = .backticks ∨ id = .autolink ∨ id = .entity)
    {s : IState} {o : Option Nat} {s' : IState}
    (h : runRule cfg skip tok fuel id s false = .ok (o, s')) :
    ∃ s'', runRule cfg skip tok fuel id s true = .ok (o, s'') := by
  rcases hid with rfl | rfl | rfl | rfl | rfl | rfl
  · exact ⟨s, by unfold runRule at h ⊢; rw [ruleText_real_silent (liftR_ok.mp h)]; rfl⟩
  · exact ⟨s, by unfold runRule at h ⊢; rw [ruleNewline_real_silent (liftR_ok.mp h)]; rfl⟩
  · exact ⟨s, by unfold runRule at h ⊢; rw [ruleEscape_real_silent (liftR_ok.mp h)]; rfl⟩
  · unfold runRule at h ⊢
    obtain ⟨s'', hs⟩ := ruleBackticks_real_silent (liftR_ok.mp h)
    exact ⟨s'', by rw [hs]; rfl⟩
  · exact ⟨s, by unfold runRule at h ⊢; rw [ruleAutolink_real_silent (liftR_ok.mp h)]; rfl⟩
  · exact ⟨s, by unfold runRule at h ⊢; rw [ruleEntity_real_silent (liftR_ok.mp h)]; rfl⟩

/-- a run of a flat rule (either mode) is `Simple` -/
theorem runRule_flat_simple {cfg : Cfg} {skip tok : IState → Except Panic IState} {fuel : Nat}
    {id : RuleId} (hf : id.isFlat = true) {s : IState} {silent : Bool} {o : Option Nat} {s' : IState}
    (h : runRule cfg skip tok fuel id s silent = .ok (o, s')) : Simple s silent o s' := by
  unfold runRule at h
  cases id with
  | text => exact ruleText_simple (liftR_ok.mp h)
  | newline => exact ruleNewline_simple (liftR_ok.mp h)
  | escape => exact ruleEscape_simple (liftR_ok.mp h)
  | backticks => exact ruleBackticks_simple (liftR_ok.mp h)
  | emph mk csw => exact ruleEmph_simple (liftR_ok.mp h)
  | link => simp [RuleId.isFlat] at hf
  | image => simp [RuleId.isFlat] at hf
  | linkEnd =>
    simp only [Except.ok.injEq, Prod.mk.injEq] at h
    obtain ⟨rfl, rfl⟩ := h
    exact ⟨Frame.refl _, rfl, rfl, fun _ => Quiet.refl _, by simp⟩
  | autolink => exact ruleAutolink_simple (liftR_ok.mp h)
  | entity => exact ruleEntity_simple (liftR_ok.mp h)

/-- **what a run of a flat rule keeps** (stated for every flat rule and both modes; `real_keeps` is the
    instance the task names) -/
theorem flat_keeps {cfg : Cfg} {skip tok : IState → Except Panic IState} {fuel : Nat}
    {id : RuleId} (hf : id.isFlat = true) {s : IState} {silent : Bool} {o : Option Nat} {s' : IState}
    (h : runRule cfg skip tok fuel id s silent = .ok (o, s')) :
    s'.pos = s.pos ∧ s'.cache = s.cache ∧ s'.src = s.src ∧ s'.posMax = s.posMax ∧ s'.level = s.level := by
  have hs := runRule_flat_simple hf h
  exact ⟨hs.pos, hs.cache, hs.frame.src, hs.frame.posMax, hs.frame.level⟩

theorem real_keeps {cfg : Cfg} {skip tok : IState → Except Panic IState} {fuel : Nat} (id : RuleId)
    (hid : id = .text ∨ id = .newline ∨ id = .escape ∨ id = .backticks ∨ id = .autolink ∨ id = .entity ∨
      (∃ mk csw, id = .emph mk csw) ∨ id = .linkEnd)
    {s : IState} {o : Option Nat} {s' : IState}
    (h : runRule cfg skip tok fuel id s false = .ok (o, s')) :
    s'.pos = s.pos ∧ s'.cache = s.cache ∧ s'.src = s.src ∧ s'.posMax = s.posMax ∧ s'.level = s.level := by
  refine flat_keeps ?_ h
  rcases hid with rfl | rfl | rfl | rfl | rfl | rfl | ⟨mk, csw, rfl⟩ | rfl <;> rfl

/-- only the code-span rule touches the code-span cache -/
theorem runRule_backticks_unchanged {cfg : Cfg} {skip tok : IState → Except Panic IState} {fuel : Nat}
    {id : RuleId} (hne : id ≠ .backticks) (hf : id.isFlat = true) {s : IState} {silent : Bool}
    {o : Option Nat} {s' : IState} (h : runRule cfg skip tok fuel id s silent = .ok (o, s')) :
    s'.backticks = s.backticks := by
  unfold runRule at h
  cases id with
  | text =>
    have h' := liftR_ok.mp h
    unfold ruleText at h'
    split at h'
    · simp at h'
    · simp only at h'
      split at h'
      · simp only [Except.ok.injEq, Prod.mk.injEq] at h'; rw [← h'.2]
      · split at h'
        · simp only [Except.ok.injEq, Prod.mk.injEq] at h'; rw [← h'.2]
        · split at h'
          · simp at h'
          · next st2 hp =>
            simp only [Except.ok.injEq, Prod.mk.injEq] at h'
            obtain ⟨cs, _, rfl⟩ := pushText_eq hp
            rw [← h'.2]
  | newline =>
    have h' := liftR_ok.mp h
    unfold ruleNewline at h'
    split at h'
    · simp at h'
    · simp at h'
    · split at h'
      · simp only [Except.ok.injEq, Prod.mk.injEq] at h'; rw [← h'.2]
      · simp only at h'
        split at h'
        · simp only [Except.ok.injEq, Prod.mk.injEq] at h'; rw [← h'.2]
        · split at h'
          · simp at h'
          · split at h'
            · simp at h'
            · split at h'
              · simp at h'
              · simp only [Except.ok.injEq, Prod.mk.injEq] at h'; rw [← h'.2]
  | escape =>
    have h' := liftR_ok.mp h
    unfold ruleEscape at h'
    split at h'
    · simp at h'
    · split at h'
      · simp at h'
      · simp only [Except.ok.injEq, Prod.mk.injEq] at h'; rw [← h'.2]
      · split at h'
        · simp only [Except.ok.injEq, Prod.mk.injEq] at h'; rw [← h'.2]
        · split at h'
          · simp at h'
          · simp only [Except.ok.injEq, Prod.mk.injEq] at h'; rw [← h'.2]; rfl
      · simp only at h'
        split at h'
        · simp only [Except.ok.injEq, Prod.mk.injEq] at h'; rw [← h'.2]
        · split at h'
          · simp at h'
          · simp only [Except.ok.injEq, Prod.mk.injEq] at h'; rw [← h'.2]; rfl
  | backticks => exact absurd rfl hne
  | emph mk csw =>
    have h' := liftR_ok.mp h
    unfold ruleEmph at h'
    split at h'
    · simp only [Except.ok.injEq, Prod.mk.injEq] at h'; rw [← h'.2]
    · split at h'
      · simp at h'
      · simp at h'
      · split at h'
        · simp only [Except.ok.injEq, Prod.mk.injEq] at h'; rw [← h'.2]
        · split at h'
          · simp at h'
          · split at h'
            · simp at h'
            · simp only at h'
              split at h'
              · split at h'
                · simp at h'
                · simp only [Except.ok.injEq, Prod.mk.injEq] at h'; rw [← h'.2]; rfl
              · simp only [Except.ok.injEq, Prod.mk.injEq] at h'; rw [← h'.2]; rfl
  | link => simp [RuleId.isFlat] at hf
  | image => simp [RuleId.isFlat] at hf
  | linkEnd =>
    simp only [Except.ok.injEq, Prod.mk.injEq] at h
    rw [← h.2]
  | autolink =>
    have h' := liftR_ok.mp h
    unfold ruleAutolink at h'
    split at h'
    · simp at h'
    · simp at h'
    · split at h'
      · simp only [Except.ok.injEq, Prod.mk.injEq] at h'; rw [← h'.2]
      · split at h'
        · simp only [Except.ok.injEq, Prod.mk.injEq] at h'; rw [← h'.2]
        · split at h'
          · simp at h'
          · simp only at h'
            split at h'
            · simp only [Except.ok.injEq, Prod.mk.injEq] at h'; rw [← h'.2]
            · split at h'
              · simp only [Except.ok.injEq, Prod.mk.injEq] at h'; rw [← h'.2]
              · split at h'
                · simp only [Except.ok.injEq, Prod.mk.injEq] at h'; rw [← h'.2]
                · split at h'
                  · simp at h'
                  · split at h'
                    · simp at h'
                    · simp only [Except.ok.injEq, Prod.mk.injEq] at h'; rw [← h'.2]; rfl
  | entity =>
    have h' := liftR_ok.mp h
    unfold ruleEntity at h'
    split at h'
    · simp at h'
    · split at h'
      · simp at h'
      · split at h'
        · simp only [Except.ok.injEq, Prod.mk.injEq] at h'; rw [← h'.2]
        · split at h'
          · simp at h'
          · split at h'
            · simp at h'
            · simp only [Except.ok.injEq, Prod.mk.injEq] at h'; rw [← h'.2]
            · simp only at h'
              split at h'
              · simp only [Except.ok.injEq, Prod.mk.injEq] at h'; rw [← h'.2]
              · split at h'
                · simp at h'
                · simp only [Except.ok.injEq, Prod.mk.injEq] at h'; rw [← h'.2]; rfl

/-- **a flat rule declines in real mode at a first character outside `firesAt`** (not the emphasis rule:
    it answers in real mode only) -/
theorem real_declines {cfg : Cfg} {skip tok : IState → Except Panic IState} {fuel : Nat}
    {id : RuleId} (hf : id.isFlat = true) (hne : ∀ mk csw, id ≠ .emph mk csw) {s : IState} {c : Char}
    {rest : List Char} (hw : s.window = .ok (c :: rest)) (hfire : id.firesAt c = false)
    {o : Option Nat} {s' : IState} (h : runRule cfg skip tok fuel id s false = .ok (o, s')) :
    o = none := by
  by_cases hle : id = .linkEnd
  · subst hle
    unfold runRule at h
    simp only [Except.ok.injEq, Prod.mk.injEq] at h
    exact h.1.symm
  · have hid : id = .text ∨ id = .newline ∨ id = .escape ∨ id = .backticks ∨ id = .autolink ∨
        id = .entity := by
      cases id with
      | text => simp
      | newline => simp
      | escape => simp
      | backticks => simp
      | emph mk csw => exact absurd rfl (hne mk csw)
      | link => simp [RuleId.isFlat] at hf
      | image => simp [RuleId.isFlat] at hf
      | linkEnd => exact absurd rfl hle
      | autolink => simp
      | entity => simp
    obtain ⟨s'', hs⟩ := real_silent_verdict id hid h
    exact silent_declines hw hfire _ _ hs

/-! ## PART 2: look-ahead verdict at the witness state against real verdict at the later state -/

/-- the look-ahead verdict of a rule whose look-ahead run is a function `V src pos window` depends on
    `(src, pos, posMax)` only -/
theorem silent_congr {R : IState → Bool → SRes}
    {V : List Char → Nat → List Char → Except RPanic (Option Nat)}
    (hR : ∀ st : IState, R st true =
      match st.window with
      | .error e => .error e
      | .ok w =>
        match V st.src st.pos w with
        | .error e => .error e
        | .ok o => .ok (o, st))
    {a b : IState} (h1 : b.src = a.src) (h2 : b.pos = a.pos) (h3 : b.posMax = a.posMax)
    {o : Option Nat} (h : ∃ s1, R a true = .ok (o, s1)) : ∃ s2, R b true = .ok (o, s2) := by
  obtain ⟨s1, h⟩ := h
  rw [hR] at h ⊢
  rw [window_congr h1 h2 h3, h1, h2]
  cases hw : a.window with
  | error e => rw [hw] at h; simp at h
  | ok w =>
    rw [hw] at h
    simp only at h ⊢
    cases hv : V a.src a.pos w with
    | error e => rw [hv] at h; simp at h
    | ok o1 =>
      rw [hv] at h
      simp only [Except.ok.injEq, Prod.mk.injEq] at h
      exact ⟨b, by rw [h.1]⟩

/-- the comparison for one rule, from its three ingredients: look-ahead run = function of the window,
    window independence at the witness state, real verdict = look-ahead verdict -/
theorem flat_L2_generic {R : IState → Bool → SRes}
    {V : List Char → Nat → List Char → Except RPanic (Option Nat)}
    (hR : ∀ st : IState, R st true =
      match st.window with
      | .error e => .error e
      | .ok w =>
        match V st.src st.pos w with
        | .error e => .error e
        | .ok o => .ok (o, st))
    (hrs : ∀ {s : IState} {o : Option Nat} {s' : IState}, R s false = .ok (o, s') →
      ∃ s'', R s true = .ok (o, s''))
    {st0 s : IState}
    (hwin : ∀ n, ((∃ s1, R st0 true = .ok (some n, s1)) ∧ st0.pos + n ≤ s.posMax) ↔
      (∃ s2, R (st0.shrink s.posMax) true = .ok (some n, s2)))
    (hsrc : s.src = st0.src) (hpos : s.pos = st0.pos)
    {o0 : Option Nat} {st0' : IState} {o : Option Nat} {s' : IState}
    (h0 : R st0 true = .ok (o0, st0')) (h1 : R s false = .ok (o, s')) :
    (o0 = none → o = none) ∧ (∀ n, o0 = some n → st0.pos + n ≤ s.posMax → o = some n) := by
  -- the look-ahead verdict at `s`, moved to `st0.shrink s.posMax`
  have hsh : ∃ s2, R (st0.shrink s.posMax) true = .ok (o, s2) :=
    silent_congr hR (a := s) (b := st0.shrink s.posMax) hsrc.symm hpos.symm rfl (hrs h1)
  cases o with
  | none =>
    refine ⟨fun _ => rfl, ?_⟩
    intro n hn hle
    subst hn
    obtain ⟨s2, h2⟩ := (hwin n).mp ⟨⟨st0', h0⟩, hle⟩
    obtain ⟨s3, h3⟩ := hsh
    rw [h2] at h3
    simp at h3
  | some m =>
    obtain ⟨⟨s1, hs1⟩, _⟩ := (hwin m).mpr hsh
    rw [h0] at hs1
    simp only [Except.ok.injEq, Prod.mk.injEq] at hs1
    obtain ⟨rfl, _⟩ := hs1
    refine ⟨fun h => by simp at h, ?_⟩
    intro n hn _
    exact hn

/-- **L2 for the cache-free flat rules** (text, newline, escape, autolink, entity; trivially linkEnd):
    the look-ahead verdict at the witness state `st0` (the top `pos_max`) against the REAL verdict at a
    state `s` with the same text and position and `s.posMax ≤ st0.posMax` (the character at `s.posMax` is
    `]`, or equality).  A look-ahead `None` is a real `None`; a look-ahead `Some(n)` that ends at or before
    `s.posMax` is a real `Some(n)`. -/
theorem flat_L2 {cfg : Cfg} {skip tok skip' tok' : IState → Except Panic IState} {fuel fuel' : Nat}
    (id : RuleId)
    (hid : id = .text ∨ id = .newline ∨ id = .escape ∨ id = .autolink ∨ id = .entity ∨ id = .linkEnd)
    {st0 s : IState} (h : WinHyp st0 s.posMax) (hstop : EntStop st0.src st0.posMax)
    (hsrc : s.src = st0.src) (hpos : s.pos = st0.pos) :
    ∀ o0 st0' o s', runRule cfg skip tok fuel id st0 true = .ok (o0, st0') →
      runRule cfg skip' tok' fuel' id s false = .ok (o, s') →
      (o0 = none → o = none) ∧ (∀ n, o0 = some n → st0.pos + n ≤ s.posMax → o = some n) := by
  intro o0 st0' o s' h0 h1
  unfold runRule at h0 h1
  rcases hid with rfl | rfl | rfl | rfl | rfl | rfl
  · exact flat_L2_generic (V := textV) ruleText_silent (fun h => ⟨_, ruleText_real_silent h⟩)
      (ruleText_window h) hsrc hpos (liftR_ok.mp h0) (liftR_ok.mp h1)
  · exact flat_L2_generic (V := newlineV) ruleNewline_silent (fun h => ⟨_, ruleNewline_real_silent h⟩)
      (ruleNewline_window h) hsrc hpos (liftR_ok.mp h0) (liftR_ok.mp h1)
  · exact flat_L2_generic (V := escapeV) ruleEscape_silent (fun h => ⟨_, ruleEscape_real_silent h⟩)
      (ruleEscape_window h) hsrc hpos (liftR_ok.mp h0) (liftR_ok.mp h1)
  · exact flat_L2_generic (V := autolinkV) ruleAutolink_silent
      (fun h => ⟨_, ruleAutolink_real_silent h⟩)
      (ruleAutolink_window h) hsrc hpos (liftR_ok.mp h0) (liftR_ok.mp h1)
  · exact flat_L2_generic (V := entityV cfg) (ruleEntity_silent cfg)
      (fun h => ⟨_, ruleEntity_real_silent h⟩)
      (ruleEntity_window cfg h hstop) hsrc hpos (liftR_ok.mp h0) (liftR_ok.mp h1)
  · simp only [Except.ok.injEq, Prod.mk.injEq] at h0 h1
    rw [← h0.1, ← h1.1]
    exact ⟨fun _ => rfl, fun n hn => by simp at hn⟩

/-! ## PART 3: the emphasis rule in real mode -/

theorem slice_drop_prefix {src u v : List Char} {a b : Nat} (h : slice src a b = .ok (u ++ v)) :
    slice src (a + byteLen u) b = .ok v := by
  obtain ⟨p, q, e, l1, l2⟩ := (slice_ok_iff _ _ _ _).mp h
  refine (slice_ok_iff _ _ _ _).mpr ⟨p ++ u, q, by rw [e]; simp, by rw [byteLen_append, l1], ?_⟩
  rw [byteLen_append] at l2; omega

theorem byteLen_replicate_one {mk : Char} (hmk : mk.utf8Size = 1) (k : Nat) :
    byteLen (List.replicate k mk) = k := by
  rw [← codeByteLen_eq]; exact CodePair.byteLen_replicate hmk k

/-- the verdict of the emphasis rule in real mode at its marker: the length of the whole run -/
theorem ruleEmph_real_verdict {cfg : Cfg} {mk : Char} {csw : Bool} {s : IState} {o : Option Nat}
    {s' : IState} (h : ruleEmph cfg mk csw s false = .ok (o, s')) {rest : List Char}
    (hw : s.window = .ok (mk :: rest)) : o = some (1 + CodePair.runLen mk rest) := by
  unfold ruleEmph at h
  rw [hw] at h
  simp only [Bool.false_eq_true, if_false, ne_eq, not_true_eq_false] at h
  split at h
  · simp at h
  · next scanned hsc =>
    obtain ⟨mk', rest', hsl, _, hlen⟩ := scanDelims_length hsc
    have hsl' : slice s.src s.pos s.posMax = .ok (mk' :: rest') := liftOps_ok.mp hsl
    rw [window_eq hw] at hsl'
    simp only [Except.ok.injEq, List.cons.injEq] at hsl'
    obtain ⟨rfl, rfl⟩ := hsl'
    rw [← hlen]
    split at h
    · simp at h
    · split at h
      · split at h
        · simp at h
        · simp only [Except.ok.injEq, Prod.mk.injEq] at h; exact h.1.symm
      · simp only [Except.ok.injEq, Prod.mk.injEq] at h; exact h.1.symm

/-- **the emphasis rule in real mode**: off its marker it declines and changes nothing; at its marker it
    takes the whole run — `n = 1 + runLen` characters, every one of them the marker, inside the window -/
theorem emph_real_L2 {cfg : Cfg} {mk : Char} {csw : Bool} (hmk : mk.utf8Size = 1) {s : IState}
    {o : Option Nat} {s' : IState} (h : ruleEmph cfg mk csw s false = .ok (o, s')) :
    (∀ c rest, s.window = .ok (c :: rest) → c ≠ mk → o = none ∧ s' = s) ∧
    (∀ rest, s.window = .ok (mk :: rest) → ∃ n, o = some n ∧ n = 1 + CodePair.runLen mk rest ∧ 1 ≤ n ∧
        s.pos + n ≤ s.posMax ∧
        ∀ i, i < n → ∃ r, slice s.src (s.pos + i) s.posMax = .ok (mk :: r)) := by
  constructor
  · intro c rest hw hc
    unfold ruleEmph at h
    rw [hw] at h
    simp only [Bool.false_eq_true, if_false, ne_eq, hc, not_false_eq_true, if_true, Except.ok.injEq,
      Prod.mk.injEq] at h
    exact ⟨h.1.symm, h.2.symm⟩
  · intro rest hw
    have ho := ruleEmph_real_verdict h hw
    have hwe := window_eq hw
    obtain ⟨t, ht⟩ := runLen_split mk rest
    obtain ⟨_, _, hlen⟩ := slice_boundaries hwe
    have hrun : byteLen (mk :: rest) = 1 + CodePair.runLen mk rest + byteLen t := by
      conv => lhs; rw [ht]
      simp only [byteLen, byteLen_append, hmk, byteLen_replicate_one hmk]
      omega
    refine ⟨1 + CodePair.runLen mk rest, ho, rfl, by omega, by omega, ?_⟩
    intro i hi
    -- the window is `mkⁱ ++ mk :: …`
    have hsplit : mk :: rest = List.replicate i mk ++
        mk :: (List.replicate (CodePair.runLen mk rest - i) mk ++ t) := by
      conv => lhs; rw [ht]
      have e : mk :: List.replicate (CodePair.runLen mk rest) mk =
          List.replicate i mk ++ mk :: List.replicate (CodePair.runLen mk rest - i) mk := by
        rw [← List.replicate_succ, ← List.replicate_succ, List.replicate_append_replicate]
        congr 1; omega
      rw [← List.cons_append, e]; simp
    rw [hsplit] at hwe
    have := slice_drop_prefix hwe
    rw [byteLen_replicate_one hmk] at this
    exact ⟨_, this⟩

end MdIt.Inline
