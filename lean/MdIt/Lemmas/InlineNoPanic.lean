/-
  Helper development for `Props/Inline.lean`: composition of the per-rule totality results —
  `tokenize` does not panic for chains WITHOUT the link / image rules (then `skip_token` and its
  memo are never used).
-/
import MdIt.Lemmas.InlineEmphTotal

namespace MdIt.Inline
open MdIt.InlineOps (Srcmap getSourcePosFor getMap byteLen slice)
open MdIt.C05 (WFMap MonoMap byteLen_append slice_ok_iff)

/-- the rule neither looks ahead with `skip_token` nor recurses -/
def RuleId.isFlat : RuleId → Bool
  | .link => false
  | .image => false
  | _ => true

/-- what the composed no-panic theorem maintains along a run (frame started at source `lo`) -/
structure Good (lo : Nat) (st : IState) : Prop where
  le : st.pos ≤ st.posMax
  bpos : Boundary st.src st.pos
  bmax : Boundary st.src st.posMax
  map : MapOK st.src st.srcmap
  stop : EntStop st.src st.posMax
  ri : RInv lo st
  bottoms : BottomsOK st.bottoms

theorem Good.inv {lo : Nat} {st : IState} (h : Good lo st) (hlt : st.pos < st.posMax) : InlineInv st :=
  ⟨hlt, h.bpos, h.bmax, h.map.wf⟩

/-- the translation never maps below the inline offset -/
theorem tr_ge {src : List Char} {m : Srcmap} (hm : MapOK src m) {p x : Nat}
    (hx : getSourcePosFor m p = .ok x) : p ≤ x := by
  obtain ⟨x0, hx0⟩ := C05.translate_total m hm.wf 0
  have := translate_expand m hm.wf hm.mono 0 p (by omega) x0 x hx0 hx
  omega

theorem tailSpaces_le (s : List Char) : tailSpaces s ≤ byteLen s := by
  obtain ⟨pre, hpre⟩ := tailSpaces_split s
  have : byteLen s = byteLen pre + tailSpaces s := by
    conv => lhs; rw [hpre]
    rw [byteLen_append, byteLen_replicate_space]
  omega

theorem Good.trailOK {lo : Nat} {st : IState} (h : Good lo st) : TrailOK st := by
  intro init last hcs hlt
  obtain ⟨_, start, xs, xe, hsl, _, hxe, hrange⟩ := h.ri.trail init last hcs hlt
  obtain ⟨_, _, hse⟩ := slice_boundaries hsl
  have h1 := tailSpaces_le last.content
  refine ⟨by omega, ?_⟩
  intro a b hr
  rw [hrange] at hr; simp only [Option.some.injEq, Prod.mk.injEq] at hr
  obtain ⟨_, rfl⟩ := hr
  have := tr_ge h.map hxe
  omega

/-- a successful flat rule in real mode: what the state looks like afterwards -/
structure FlatStep (lo : Nat) (st : IState) (o : Option Nat) (st' : IState) : Prop where
  frame : Frame st st'
  pos : st'.pos = st.pos
  adv : Advances st o
  ri : StepRI lo st o st'
  bottoms : BottomsOK st'.bottoms

theorem FlatStep.good {lo : Nat} {st st' : IState} {o : Option Nat} (hg : Good lo st)
    (h : FlatStep lo st o st') : Good lo { st' with pos := st'.pos + o.getD 0 } := by
  have hsrc := h.frame.src
  have hmap := h.frame.srcmap
  have hpm := h.frame.posMax
  cases o with
  | none =>
    simp only [Option.getD_none, Nat.add_zero]
    refine ⟨?_, ?_, ?_, ?_, ?_, ?_, h.bottoms⟩
    · simp only; rw [h.pos, hpm]; exact hg.le
    · simp only; rw [hsrc, h.pos]; exact hg.bpos
    · simp only; rw [hsrc, hpm]; exact hg.bmax
    · simp only; rw [hsrc, hmap]; exact hg.map
    · simp only; rw [hsrc, hpm]; exact hg.stop
    · have := h.ri
      unfold StepRI at this
      simp only [Option.getD_none, Nat.add_zero] at this
      unfold RInv; simp only; rw [hsrc, hmap]; exact this
  | some len =>
    obtain ⟨_, h2, h3⟩ := h.adv len rfl
    simp only [Option.getD_some]
    refine ⟨?_, ?_, ?_, ?_, ?_, ?_, h.bottoms⟩
    · simp only; rw [h.pos, hpm]; exact h2
    · simp only; rw [hsrc, h.pos]; exact h3
    · simp only; rw [hsrc, hpm]; exact hg.bmax
    · simp only; rw [hsrc, hmap]; exact hg.map
    · simp only; rw [hsrc, hpm]; exact hg.stop
    · have := h.ri
      unfold StepRI at this
      simp only [Option.getD_some] at this
      unfold RInv; simp only; rw [hsrc, hmap]; exact this

/-! ## the rules leave `OpenersBottom` alone (all but emphasis) -/

theorem ruleText_bottoms {st st' : IState} {silent : Bool} {o : Option Nat}
    (h : ruleText st silent = .ok (o, st')) : st'.bottoms = st.bottoms := by
  unfold ruleText at h
  split at h
  · simp at h
  · simp only at h
    split at h
    · simp only [Except.ok.injEq, Prod.mk.injEq] at h; rw [← h.2]
    · split at h
      · simp only [Except.ok.injEq, Prod.mk.injEq] at h; rw [← h.2]
      · split at h
        · simp at h
        · next st2 hp =>
          simp only [Except.ok.injEq, Prod.mk.injEq] at h; rw [← h.2]
          obtain ⟨cs, _, rfl⟩ := pushText_eq hp; rfl

theorem ruleNewline_bottoms {st st' : IState} {silent : Bool} {o : Option Nat}
    (h : ruleNewline st silent = .ok (o, st')) : st'.bottoms = st.bottoms := by
  unfold ruleNewline at h
  split at h
  · simp at h
  · simp at h
  · split at h
    · simp only [Except.ok.injEq, Prod.mk.injEq] at h; rw [← h.2]; first | done | rfl
    · simp only at h
      split at h
      · simp only [Except.ok.injEq, Prod.mk.injEq] at h; rw [← h.2]; first | done | rfl
      · split at h
        · simp at h
        · next cs hpop =>
          split at h
          · simp at h
          · split at h
            · simp at h
            · simp only [Except.ok.injEq, Prod.mk.injEq] at h; rw [← h.2]; first | done | rfl

theorem ruleEscape_bottoms {st st' : IState} {silent : Bool} {o : Option Nat}
    (h : ruleEscape st silent = .ok (o, st')) : st'.bottoms = st.bottoms := by
  unfold ruleEscape at h
  split at h
  · simp at h
  · split at h
    · simp at h
    · simp only [Except.ok.injEq, Prod.mk.injEq] at h; rw [← h.2]; first | done | rfl
    · split at h
      · simp only [Except.ok.injEq, Prod.mk.injEq] at h; rw [← h.2]; first | done | rfl
      · split at h
        · simp at h
        · simp only [Except.ok.injEq, Prod.mk.injEq] at h; rw [← h.2]; first | done | rfl
    · simp only at h
      split at h
      · simp only [Except.ok.injEq, Prod.mk.injEq] at h; rw [← h.2]; first | done | rfl
      · split at h
        · simp at h
        · simp only [Except.ok.injEq, Prod.mk.injEq] at h; rw [← h.2]; first | done | rfl

theorem ruleEntity_bottoms {cfg : Cfg} {st st' : IState} {silent : Bool} {o : Option Nat}
    (h : ruleEntity cfg st silent = .ok (o, st')) : st'.bottoms = st.bottoms := by
  unfold ruleEntity at h
  split at h
  · simp at h
  · split at h
    · simp at h
    · split at h
      · simp only [Except.ok.injEq, Prod.mk.injEq] at h; rw [← h.2]; first | done | rfl
      · split at h
        · simp at h
        · split at h
          · simp at h
          · simp only [Except.ok.injEq, Prod.mk.injEq] at h; rw [← h.2]; first | done | rfl
          · simp only at h
            split at h
            · simp only [Except.ok.injEq, Prod.mk.injEq] at h; rw [← h.2]; first | done | rfl
            · split at h
              · simp at h
              · simp only [Except.ok.injEq, Prod.mk.injEq] at h; rw [← h.2]; first | done | rfl

theorem ruleBackticks_bottoms {st st' : IState} {silent : Bool} {o : Option Nat}
    (h : ruleBackticks st silent = .ok (o, st')) : st'.bottoms = st.bottoms := by
  unfold ruleBackticks at h
  split at h
  · simp at h
  · simp only [Except.ok.injEq, Prod.mk.injEq] at h; rw [← h.2]; first | done | rfl
  · next oc c hrun =>
    split at h
    · simp only [Except.ok.injEq, Prod.mk.injEq] at h; rw [← h.2]; first | done | rfl
    · next nd hnd =>
      split at h
      · simp at h
      · split at h
        · simp at h
        · simp only [Except.ok.injEq, Prod.mk.injEq] at h; rw [← h.2]; first | done | rfl

theorem ruleAutolink_bottoms {st st' : IState} {silent : Bool} {o : Option Nat}
    (h : ruleAutolink st silent = .ok (o, st')) : st'.bottoms = st.bottoms := by
  unfold ruleAutolink at h
  split at h
  · simp at h
  · simp at h
  · split at h
    · simp only [Except.ok.injEq, Prod.mk.injEq] at h; rw [← h.2]; first | done | rfl
    · split at h
      · simp only [Except.ok.injEq, Prod.mk.injEq] at h; rw [← h.2]; first | done | rfl
      · split at h
        · simp at h
        · next url hurl =>
          simp only at h
          split at h
          · simp only [Except.ok.injEq, Prod.mk.injEq] at h; rw [← h.2]; first | done | rfl
          · next hmatch =>
            split at h
            · simp only [Except.ok.injEq, Prod.mk.injEq] at h; rw [← h.2]; first | done | rfl
            · split at h
              · simp only [Except.ok.injEq, Prod.mk.injEq] at h; rw [← h.2]; first | done | rfl
              · split at h
                · simp at h
                · split at h
                  · simp at h
                  · simp only [Except.ok.injEq, Prod.mk.injEq] at h; rw [← h.2]; first | done | rfl

/-! ## one rule, the chain, one step, the loop -/

theorem flat_rule_step {cfg : Cfg} (hsz : ∀ mk csw, RuleId.emph mk csw ∈ cfg.chain → mk.utf8Size = 1)
    {skip tok : IState → Except Panic IState} {fuel : Nat} {id : RuleId} (hid : id ∈ cfg.chain)
    (hflat : id.isFlat = true) {lo : Nat} {st : IState} (hg : Good lo st) (hlt : st.pos < st.posMax) :
    ∃ o st', runRule cfg skip tok fuel id st false = .ok (o, st') ∧ FlatStep lo st o st' := by
  have hi := hg.inv hlt
  unfold runRule
  cases id with
  | text =>
    obtain ⟨o, st', h, hadv⟩ := inline_rule_progress_text hi false
    have hs := ruleText_simple h
    exact ⟨o, st', by simp only [h, liftR], hs.frame, hs.pos, hadv, ruleText_ranges hg.map hg.ri h,
      by rw [ruleText_bottoms h]; exact hg.bottoms⟩
  | newline =>
    obtain ⟨o, st', h, hadv⟩ := inline_rule_progress_newline hi false (fun _ => hg.trailOK)
    have hs := ruleNewline_simple h
    exact ⟨o, st', by simp only [h, liftR], hs.frame, hs.pos, hadv, ruleNewline_ranges hg.map hg.ri h,
      by rw [ruleNewline_bottoms h]; exact hg.bottoms⟩
  | escape =>
    obtain ⟨o, st', h, hadv⟩ := inline_rule_progress_escape hi false
    have hs := ruleEscape_simple h
    exact ⟨o, st', by simp only [h, liftR], hs.frame, hs.pos, hadv, ruleEscape_ranges hg.map hg.ri h,
      by rw [ruleEscape_bottoms h]; exact hg.bottoms⟩
  | backticks =>
    obtain ⟨o, st', h, hadv⟩ := inline_rule_progress_backticks hi false
    have hs := ruleBackticks_simple h
    exact ⟨o, st', by simp only [h, liftR], hs.frame, hs.pos, hadv, ruleBackticks_ranges hg.map hg.ri h,
      by rw [ruleBackticks_bottoms h]; exact hg.bottoms⟩
  | emph mk csw =>
    obtain ⟨o, st', h, hb⟩ := ruleEmph_total (cfg := cfg) (mk := mk) (csw := csw) false hi hg.map hg.ri
      hg.bottoms
    have hs := ruleEmph_simple h
    exact ⟨o, st', by simp only [h, liftR], hs.frame, hs.pos,
      inline_rule_progress_emph (hsz mk csw hid) h, ruleEmph_ranges hg.map hg.ri h, hb⟩
  | link => simp [RuleId.isFlat] at hflat
  | image => simp [RuleId.isFlat] at hflat
  | linkEnd =>
    refine ⟨none, st, rfl, Frame.refl _, rfl, by intro len hl; simp at hl, stepRI_same hg.ri, hg.bottoms⟩
  | autolink =>
    obtain ⟨o, st', h, hadv⟩ := inline_rule_progress_autolink hi false
    have hs := ruleAutolink_simple h
    exact ⟨o, st', by simp only [h, liftR], hs.frame, hs.pos, hadv, ruleAutolink_ranges hg.map hg.ri h,
      by rw [ruleAutolink_bottoms h]; exact hg.bottoms⟩
  | entity =>
    obtain ⟨o, st', h, hadv⟩ := inline_rule_progress_entity cfg hi hg.stop false
    have hs := ruleEntity_simple h
    exact ⟨o, st', by simp only [h, liftR], hs.frame, hs.pos, hadv, ruleEntity_ranges hg.map hg.ri h,
      by rw [ruleEntity_bottoms h]; exact hg.bottoms⟩

theorem firstRule_flat {cfg : Cfg} (hsz : ∀ mk csw, RuleId.emph mk csw ∈ cfg.chain → mk.utf8Size = 1)
    {skip tok : IState → Except Panic IState} {fuel : Nat} {lo : Nat} :
    ∀ (rules : List RuleId), (∀ id ∈ rules, id ∈ cfg.chain ∧ id.isFlat = true) →
      ∀ (st : IState), Good lo st → st.pos < st.posMax →
      ∃ o st', firstRule (fun id s => runRule cfg skip tok fuel id s false) rules st = .ok (o, st') ∧
        FlatStep lo st o st' := by
  intro rules
  induction rules with
  | nil =>
    intro _ st hg _
    exact ⟨none, st, rfl, Frame.refl _, rfl, by intro len hl; simp at hl, stepRI_same hg.ri, hg.bottoms⟩
  | cons r rs ih =>
    intro hall st hg hlt
    obtain ⟨o, st1, h1, f1⟩ := flat_rule_step hsz (skip := skip) (tok := tok) (fuel := fuel)
      (hall r (by simp)).1 (hall r (by simp)).2 hg hlt
    unfold firstRule
    simp only [h1]
    cases o with
    | some n => exact ⟨some n, st1, rfl, f1⟩
    | none =>
      simp only
      -- the declined rule left a good state at the same position
      have hg1 := f1.good hg
      simp only [Option.getD_none, Nat.add_zero] at hg1
      have hg1' : Good lo st1 := hg1
      have hlt1 : st1.pos < st1.posMax := by rw [f1.pos, f1.frame.posMax]; exact hlt
      obtain ⟨o2, st2, h2, f2⟩ := ih (fun id hid => hall id (List.mem_cons_of_mem _ hid)) st1 hg1' hlt1
      refine ⟨o2, st2, h2, f1.frame.trans f2.frame, by rw [f2.pos, f1.pos], ?_, ?_, f2.bottoms⟩
      · intro len hl
        have := f2.adv len hl
        rw [f1.pos, f1.frame.posMax, f1.frame.src] at this
        exact this
      · have := f2.ri
        unfold StepRI at this ⊢
        rw [f1.frame.src, f1.frame.srcmap] at this
        exact this

/-- **one iteration of the tokenizer loop does not panic** (flat chain) -/
theorem tokStep_flat {cfg : Cfg} (hsz : ∀ mk csw, RuleId.emph mk csw ∈ cfg.chain → mk.utf8Size = 1)
    (hflat : ∀ id ∈ cfg.chain, id.isFlat = true) {skip tok : IState → Except Panic IState} {fuel : Nat}
    {lo : Nat} {st : IState} (hg : Good lo st) (hlt : st.pos < st.posMax) :
    ∃ st', tokStep cfg skip tok fuel st = .ok st' ∧ Good lo st' ∧ st.pos < st'.pos ∧
      st'.posMax = st.posMax := by
  have hok : ∃ o st1, (if st.level < cfg.maxNesting then
        firstRule (fun id s => runRule cfg skip tok fuel id s false) cfg.chain st
      else .ok (none, st)) = .ok (o, st1) ∧ FlatStep lo st o st1 := by
    split
    · exact firstRule_flat hsz cfg.chain (fun id hid => ⟨hid, hflat id hid⟩) st hg hlt
    · exact ⟨none, st, rfl, Frame.refl _, rfl, by intro len hl; simp at hl, stepRI_same hg.ri, hg.bottoms⟩
  obtain ⟨o, st1, h1, f1⟩ := hok
  unfold tokStep
  simp only [h1]
  cases o with
  | some len =>
    simp only
    have hg' := f1.good hg
    simp only [Option.getD_some] at hg'
    obtain ⟨hl1, _, _⟩ := f1.adv len rfl
    exact ⟨_, rfl, hg', by simp only; rw [f1.pos]; omega, f1.frame.posMax⟩
  | none =>
    simp only
    have hg1 := f1.good hg
    simp only [Option.getD_none, Nat.add_zero] at hg1
    have hg1' : Good lo st1 := hg1
    have hlt1 : st1.pos < st1.posMax := by rw [f1.pos, f1.frame.posMax]; exact hlt
    obtain ⟨pre, w, post, hsrc, hpre, hlen, hw, hne⟩ := window_ok (hg1'.inv hlt1)
    cases w with
    | nil => exact absurd rfl hne
    | cons ch rest =>
      have hfc : firstChar st1 = .ok ch := by unfold firstChar; rw [hw]; rfl
      rw [hfc]
      simp only
      have hsl := window_eq hw
      have hb : Boundary st1.src (st1.pos + ch.utf8Size) := by
        have := boundary_in_slice (u := [ch]) (v := rest) hsl
        simpa [byteLen] using this
      have hle : st1.pos + ch.utf8Size ≤ st1.posMax := by
        simp only [byteLen] at hlen; omega
      obtain ⟨_, _, _, _, _, _, hs2⟩ := slice_of_boundaries hg1'.bpos hb (by omega)
      obtain ⟨st2, hp⟩ := pushText_total hg1'.map.wf hs2
      rw [hp]
      simp only [liftR]
      have hri := fallback_ranges hg1'.map hg1'.ri hp
      obtain ⟨cs, _, rfl⟩ := pushText_eq hp
      have hc := Char.utf8Size_pos ch
      refine ⟨_, rfl, ⟨hle, hb, hg1'.bmax, hg1'.map, hg1'.stop, hri, hg1'.bottoms⟩, ?_, f1.frame.posMax⟩
      simp only; rw [f1.pos]; omega

/-- **`tokenize` does not panic** when the chain contains neither the link nor the image rule -/
theorem tokLoop_flat {cfg : Cfg} (hsz : ∀ mk csw, RuleId.emph mk csw ∈ cfg.chain → mk.utf8Size = 1)
    (hflat : ∀ id ∈ cfg.chain, id.isFlat = true) {lo : Nat} :
    ∀ (fuel : Nat) (st : IState), Good lo st → st.posMax - st.pos ≤ fuel →
      ∃ st', tokLoop cfg fuel st.posMax st = .ok st' ∧ Good lo st' := by
  intro fuel
  induction fuel with
  | zero =>
    intro st hg hf
    unfold tokLoop
    rw [if_neg (by omega)]
    exact ⟨st, rfl, hg⟩
  | succ f ih =>
    intro st hg hf
    unfold tokLoop
    split
    · next hlt =>
      simp only
      obtain ⟨st1, h1, hg1, hp1, hpm1⟩ := tokStep_flat hsz hflat (skip := fun s => skipToken cfg f s)
        (tok := fun s => tokLoop cfg f s.posMax s) (fuel := f) hg hlt
      rw [h1]
      simp only
      have := ih st1 hg1 (by omega)
      rw [hpm1] at this
      exact this
    · exact ⟨st, rfl, hg⟩

/-! ## the initial state -/

theorem trimSrc_spec (src : List Char) :
    ∃ front mid back, src = front ++ mid ++ back ∧ (∀ c ∈ front, isSpTab c = true) ∧
      (∀ c ∈ back, isSpTab c = true) ∧ (trimSrc src).1 = front.length ∧
      (trimSrc src).2 = byteLen src - back.length := by
  have hrev : src = (src.reverse.dropWhile isSpTab).reverse ++ (src.reverse.takeWhile isSpTab).reverse := by
    rw [← List.reverse_append, List.takeWhile_append_dropWhile, List.reverse_reverse]
  have hmid : (src.reverse.dropWhile isSpTab).reverse
      = ((src.reverse.dropWhile isSpTab).drop 1).reverse ++ ((src.reverse.dropWhile isSpTab).take 1).reverse := by
    rw [← List.reverse_append, List.take_append_drop]
  have hrest := (List.takeWhile_append_dropWhile (p := isSpTab)
    (l := ((src.reverse.dropWhile isSpTab).drop 1).reverse)).symm
  refine ⟨(((src.reverse.dropWhile isSpTab).drop 1).reverse).takeWhile isSpTab,
    (((src.reverse.dropWhile isSpTab).drop 1).reverse).dropWhile isSpTab
      ++ ((src.reverse.dropWhile isSpTab).take 1).reverse,
    (src.reverse.takeWhile isSpTab).reverse, ?_, ?_, ?_, ?_, ?_⟩
  · calc src = (src.reverse.dropWhile isSpTab).reverse ++ (src.reverse.takeWhile isSpTab).reverse := hrev
      _ = _ := by rw [hmid]
      _ = _ := by rw [hrest]
      _ = _ := by simp only [List.append_assoc]
  · intro c hc; exact mem_takeWhile_imp hc
  · intro c hc; exact mem_takeWhile_imp (List.mem_reverse.mp hc)
  · unfold trimSrc; rfl
  · unfold trimSrc; simp

theorem isSpTab_not_ent {c : Char} (h : isSpTab c = true) : isEntChar c = false := by
  unfold isSpTab at h
  simp only [Bool.or_eq_true, beq_iff_eq] at h
  rcases h with rfl | rfl <;> decide

/-- the state `InlineState::new` makes is good -/
theorem init_good {content : List Char} {mapping : Srcmap} (hm : MapOK content mapping) :
    ∃ lo, getSourcePosFor mapping (trimSrc content).1 = .ok lo ∧ Good lo (IState.init content mapping) := by
  obtain ⟨lo, hlo⟩ := C05.translate_total mapping hm.wf (trimSrc content).1
  obtain ⟨front, mid, back, hsrc, hfront, hback, h1, h2⟩ := trimSrc_spec content
  have hbf : byteLen front = front.length := byteLen_ascii _ (fun c hc => isSpTab_size (hfront c hc))
  have hbb : byteLen back = back.length := byteLen_ascii _ (fun c hc => isSpTab_size (hback c hc))
  have hlen : byteLen content = byteLen front + byteLen mid + byteLen back := by
    conv => lhs; rw [hsrc]
    rw [byteLen_append, byteLen_append]
  refine ⟨lo, hlo, ?_, ?_, ?_, hm, ?_, ?_, ?_⟩
  · show (trimSrc content).1 ≤ (trimSrc content).2
    rw [h1, h2]; omega
  · show Boundary content (trimSrc content).1
    exact ⟨front, mid ++ back, by rw [hsrc]; simp, by rw [h1, hbf]⟩
  · show Boundary content (trimSrc content).2
    exact ⟨front ++ mid, back, hsrc, by rw [h2, byteLen_append]; omega⟩
  · show EntStop content (trimSrc content).2
    intro pre c post hs hl
    have hl' : byteLen pre = byteLen (front ++ mid) := by rw [hl, h2, byteLen_append]; omega
    have := C05.append_inj_byteLen pre (c :: post) (front ++ mid) back (by rw [← hs, hsrc]) hl'
    exact isSpTab_not_ent (hback c (by rw [← this.2]; simp))
  · exact ⟨⟨lo, hlo, Nat.le_refl _⟩, trivial, markersOK_nil,
      by intro init last hcs; simp [IState.init] at hcs⟩
  · intro k l hkl; simp [IState.init] at hkl

end MdIt.Inline
