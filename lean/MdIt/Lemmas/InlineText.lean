/-
  Helper development for `Props/Inline.lean`: the text normal form of the RAW tokenizer output when
  no emphasis-like rule is configured (then no `FragmentsJoin` runs): no empty `Text`, no two
  adjacent `Text`s, at every depth — through `C14.push_no_adjacent` / `C14.pop_no_adjacent` and the
  projection `erase`.
-/
import MdIt.Lemmas.InlineCalm

namespace MdIt.Inline
open MdIt.InlineOps (Srcmap getSourcePosFor getMap byteLen slice INode)

/-! ## `trailing_text_push / pop` through the projection -/

theorem eraseList_append (a b : List Node) : eraseList (a ++ b) = eraseList a ++ eraseList b := by
  simp [eraseList_eq_map]

theorem erase_newText (c : List Char) (r : Option (Nat × Nat)) :
    erase (Node.newText c r) = INode.newText c r := by
  simp [Node.newText, INode.newText, erase, eraseList]

theorem erase_text_with {n : Node} (h : n.isText = true) (c : List Char) (r : Option (Nat × Nat)) :
    erase { n with val := .text c, range := r } = { erase n with content := c, range := r } := by
  obtain ⟨v, r0, cs⟩ := n
  cases v <;> simp_all [erase, Node.isText]

theorem popLast_erase (cs : List Node) :
    InlineOps.popLast (eraseList cs) =
      match popLast cs with
      | none => none
      | some (i, l) => some (eraseList i, erase l) := by
  rcases popLast_spec cs with ⟨hp, rfl⟩ | ⟨init, last, hp, rfl⟩
  · rw [hp]; rfl
  · rw [hp, eraseList_append]
    simp only [eraseList]
    exact C05.popLast_snoc _ _

theorem liftOps_ok' {α : Type} {x : Except InlineOps.Panic α} {a : α} (h : liftOps x = .ok a) :
    x = .ok a := liftOps_ok.mp h

/-- a successful `trailing_text_push` of this model is `InlineOps.trailingTextPush` on the
    projection -/
theorem erase_trailingTextPush {src : List Char} {m : Srcmap} {cs out : List Node} {a b : Nat}
    (h : trailingTextPush src m cs a b = .ok out) :
    InlineOps.trailingTextPush src m (eraseList cs) a b = .ok (eraseList out) := by
  have hfresh : ∀ out, (match liftOps (slice src a b) with
      | .error e => (.error e : Except RPanic (List Node))
      | .ok piece =>
        match liftOps (getMap m a b) with
        | .error e => .error e
        | .ok r => .ok (cs ++ [Node.newText piece (some r)])) = .ok out →
      (match slice src a b with
        | .error e => (.error e : Except InlineOps.Panic (List INode))
        | .ok piece =>
          match getMap m a b with
          | .error e => .error e
          | .ok r => .ok (eraseList cs ++ [INode.newText piece (some r)])) = .ok (eraseList out) := by
    intro out ho
    split at ho
    · simp at ho
    · next piece hp =>
      rw [liftOps_ok' hp]
      split at ho
      · simp at ho
      · next r hr =>
        rw [liftOps_ok' hr]
        simp only [Except.ok.injEq] at ho; subst ho
        simp [eraseList_append, eraseList, erase_newText]
  unfold trailingTextPush at h
  unfold InlineOps.trailingTextPush
  simp only at h ⊢
  rw [popLast_erase]
  rcases popLast_spec cs with ⟨hp, _⟩ | ⟨init, last, hp, hcs⟩
  · rw [hp] at h ⊢; exact hfresh out h
  · rw [hp] at h ⊢
    simp only [erase_isText] at h ⊢
    split at h
    · next hlt =>
      simp only [hlt, if_true]
      split at h
      · simp at h
      · next piece hp1 =>
        rw [liftOps_ok' hp1]
        simp only [erase_range, erase_content]
        split at h
        · next hr =>
          simp only [Except.ok.injEq] at h; subst h
          rw [hr]
          simp only [eraseList_append, eraseList, Except.ok.injEq]
          congr 1
          have := erase_text_with hlt (last.content ++ piece) last.range
          rw [hr] at this
          simp only [List.cons.injEq, and_true]
          rw [← hr]
          obtain ⟨v, r0, cs0⟩ := last
          cases v <;> simp_all [erase, Node.isText, Node.content]
        · next ms me hr =>
          rw [hr]
          simp only
          split at h
          · simp at h
          · next mapEnd hme =>
            rw [liftOps_ok' hme]
            simp only [Except.ok.injEq] at h; subst h
            simp only [eraseList_append, eraseList, Except.ok.injEq]
            congr 1
            simp only [List.cons.injEq, and_true]
            obtain ⟨v, r0, cs0⟩ := last
            cases v <;> simp_all [erase, Node.isText, Node.content]
    · next hlt =>
      simp only [hlt, Bool.false_eq_true, if_false]
      exact hfresh out h

/-- the same for `trailing_text_pop` -/
theorem erase_trailingTextPop {cs out : List Node} {count : Nat}
    (h : trailingTextPop cs count = .ok out) :
    InlineOps.trailingTextPop (eraseList cs) count = .ok (eraseList out) := by
  unfold trailingTextPop at h
  unfold InlineOps.trailingTextPop
  split at h
  · next h0 => simp only [Except.ok.injEq] at h; subst h; rw [if_pos h0]
  · next h0 =>
    rw [if_neg h0, popLast_erase]
    rcases popLast_spec cs with ⟨hp, _⟩ | ⟨init, last, hp, hcs⟩
    · rw [hp] at h; simp at h
    · rw [hp] at h ⊢
      simp only [erase_isText, erase_content, erase_range] at h ⊢
      split at h
      · simp at h
      · next hlt =>
        have hlt' : last.isText = true := by simpa using hlt
        simp only [hlt', Bool.not_true, Bool.false_eq_true, if_false]
        split at h
        · next heq => simp only [Except.ok.injEq] at h; subst h; rw [if_pos heq]
        · next hne =>
          rw [if_neg hne]
          split at h
          · simp at h
          · next hlt2 =>
            rw [if_neg hlt2]
            split at h
            · simp at h
            · next content' htr =>
              rw [liftOps_ok' htr]
              simp only
              split at h
              · next hr =>
                simp only [Except.ok.injEq] at h; subst h
                rw [hr]
                simp only [eraseList_append, eraseList, Except.ok.injEq]
                congr 1
                simp only [List.cons.injEq, and_true]
                obtain ⟨v, r0, cs0⟩ := last
                cases v <;> simp_all [erase, Node.isText, Node.content]
              · next ms me hr =>
                rw [hr]
                simp only
                split at h
                · simp at h
                · next hge =>
                  rw [if_neg hge]
                  simp only [Except.ok.injEq] at h; subst h
                  simp only [eraseList_append, eraseList, Except.ok.injEq]
                  congr 1
                  simp only [List.cons.injEq, and_true]
                  obtain ⟨v, r0, cs0⟩ := last
                  cases v <;> simp_all [erase, Node.isText, Node.content]

end MdIt.Inline
