/-
  Helper development for `Props/Inline.lean`: the text normal form of the RAW tokenizer output when
  no emphasis-like rule is configured (then no `FragmentsJoin` runs): no empty `Text`, no two
  adjacent `Text`s, at every depth — through `C14.push_no_adjacent` / `C14.pop_no_adjacent` and the
  projection `erase`.
-/
import MdIt.Lemmas.InlineCalm

namespace MdIt.Inline
open MdIt.InlineOps (Srcmap getSourcePosFor getMap byteLen slice INode)

/-! ## `trailing_text_push / pop` through the projection -/

theorem eraseList_append (a b : List Node) : eraseList (a ++ b) = eraseList a ++ eraseList b := by
  simp [eraseList_eq_map]

theorem erase_newText (c : List Char) (r : Option (Nat × Nat)) :
    erase (Node.newText c r) = INode.newText c r := by
  simp [Node.newText, INode.newText, erase, eraseList]

theorem erase_text_with {n : Node} (h : n.isText = true) (c : List Char) (r : Option (Nat × Nat)) :
    erase { n with val := .text c, range := r } = { erase n with content := c, range := r } := by
  obtain ⟨v, r0, cs⟩ := n
  cases v <;> simp_all [erase, Node.isText]

theorem popLast_erase (cs : List Node) :
    InlineOps.popLast (eraseList cs) =
      match popLast cs with
      | none => none
      | some (i, l) => some (eraseList i, erase l) := by
  rcases popLast_spec cs with ⟨hp, rfl⟩ | ⟨init, last, hp, rfl⟩
  · rw [hp]; rfl
  · rw [hp, eraseList_append]
    simp only [eraseList]
    exact C05.popLast_snoc _ _

theorem liftOps_ok' {α : Type} {x : Except InlineOps.Panic α} {a : α} (h : liftOps x = .ok a) :
    x = .ok a := liftOps_ok.mp h

/-- a successful `trailing_text_push` of this model is `InlineOps.trailingTextPush` on the
    projection -/
theorem erase_trailingTextPush {src : List Char} {m : Srcmap} {cs out : List Node} {a b : Nat}
    (h : trailingTextPush src m cs a b = .ok out) :
    InlineOps.trailingTextPush src m (eraseList cs) a b = .ok (eraseList out) := by
  have hfresh : ∀ out, (match liftOps (slice src a b) with
      | .error e => (.error e : Except RPanic (List Node))
      | .ok piece =>
        match liftOps (getMap m a b) with
        | .error e => .error e
        | .ok r => .ok (cs ++ [Node.newText piece (some r)])) = .ok out →
      (match slice src a b with
        | .error e => (.error e : Except InlineOps.Panic (List INode))
        | .ok piece =>
          match getMap m a b with
          | .error e => .error e
          | .ok r => .ok (eraseList cs ++ [INode.newText piece (some r)])) = .ok (eraseList out) := by
    intro out ho
    split at ho
    · simp at ho
    · next piece hp =>
      rw [liftOps_ok' hp]
      split at ho
      · simp at ho
      · next r hr =>
        rw [liftOps_ok' hr]
        simp only [Except.ok.injEq] at ho; subst ho
        simp [eraseList_append, eraseList, erase_newText]
  unfold trailingTextPush at h
  unfold InlineOps.trailingTextPush
  simp only at h ⊢
  rw [popLast_erase]
  rcases popLast_spec cs with ⟨hp, _⟩ | ⟨init, last, hp, hcs⟩
  · rw [hp] at h ⊢; exact hfresh out h
  · rw [hp] at h ⊢
    simp only [erase_isText] at h ⊢
    split at h
    · next hlt =>
      simp only [hlt, if_true]
      split at h
      · simp at h
      · next piece hp1 =>
        rw [liftOps_ok' hp1]
        simp only [erase_range, erase_content]
        split at h
        · next hr =>
          simp only [Except.ok.injEq] at h; subst h
          rw [hr]
          simp only [eraseList_append, eraseList, Except.ok.injEq]
          congr 1
          have := erase_text_with hlt (last.content ++ piece) last.range
          rw [hr] at this
          simp only [List.cons.injEq, and_true]
          rw [← hr]
          obtain ⟨v, r0, cs0⟩ := last
          cases v <;> simp_all [erase, Node.isText, Node.content]
        · next ms me hr =>
          rw [hr]
          simp only
          split at h
          · simp at h
          · next mapEnd hme =>
            rw [liftOps_ok' hme]
            simp only [Except.ok.injEq] at h; subst h
            simp only [eraseList_append, eraseList, Except.ok.injEq]
            congr 1
            simp only [List.cons.injEq, and_true]
            obtain ⟨v, r0, cs0⟩ := last
            cases v <;> simp_all [erase, Node.isText, Node.content]
    · next hlt =>
      simp only [hlt, Bool.false_eq_true, if_false]
      exact hfresh out h

/-- the same for `trailing_text_pop` -/
theorem erase_trailingTextPop {cs out : List Node} {count : Nat}
    (h : trailingTextPop cs count = .ok out) :
    InlineOps.trailingTextPop (eraseList cs) count = .ok (eraseList out) := by
  unfold trailingTextPop at h
  unfold InlineOps.trailingTextPop
  split at h
  · next h0 => simp only [Except.ok.injEq] at h; subst h; rw [if_pos h0]
  · next h0 =>
    rw [if_neg h0, popLast_erase]
    rcases popLast_spec cs with ⟨hp, _⟩ | ⟨init, last, hp, hcs⟩
    · rw [hp] at h; simp at h
    · rw [hp] at h ⊢
      simp only [erase_isText, erase_content, erase_range] at h ⊢
      split at h
      · simp at h
      · next hlt =>
        have hlt' : last.isText = true := by simpa using hlt
        simp only [hlt', Bool.not_true, Bool.false_eq_true, if_false]
        split at h
        · next heq => simp only [Except.ok.injEq] at h; subst h; rw [if_pos heq]
        · next hne =>
          rw [if_neg hne]
          split at h
          · simp at h
          · next hlt2 =>
            rw [if_neg hlt2]
            split at h
            · simp at h
            · next content' htr =>
              rw [liftOps_ok' htr]
              simp only
              split at h
              · next hr =>
                simp only [Except.ok.injEq] at h; subst h
                rw [hr]
                simp only [eraseList_append, eraseList, Except.ok.injEq]
                congr 1
                simp only [List.cons.injEq, and_true]
                obtain ⟨v, r0, cs0⟩ := last
                cases v <;> simp_all [erase, Node.isText, Node.content]
              · next ms me hr =>
                rw [hr]
                simp only
                split at h
                · simp at h
                · next hge =>
                  rw [if_neg hge]
                  simp only [Except.ok.injEq] at h; subst h
                  simp only [eraseList_append, eraseList, Except.ok.injEq]
                  congr 1
                  simp only [List.cons.injEq, and_true]
                  obtain ⟨v, r0, cs0⟩ := last
                  cases v <;> simp_all [erase, Node.isText, Node.content]

/-! ## the text of a code span is never empty -/

theorem codeByteLen_ne_nil {l : List Char} (h : 0 < CodePair.byteLen l) : l ≠ [] := by
  intro e; subst e; simp [CodePair.byteLen] at h

theorem findB_zero {m : Char} {s : List Char} (h : CodePair.findB m s = some 0) : s.head? = some m := by
  cases s with
  | nil => simp [CodePair.findB] at h
  | cons c r =>
    unfold CodePair.findB at h
    split at h
    · next hc => simp [hc]
    · cases hf : CodePair.findB m r with
      | none => simp [hf] at h
      | some k =>
        simp only [hf, Option.map_some, Option.some.injEq] at h
        have := Char.utf8Size_pos c
        omega

theorem mkNode_content_ne {src : List Char} {sp p ms me n : Nat} {nd : CodePair.Node}
    (h : CodePair.mkNode src sp p ms me n = .ok nd) (hlt : p < ms) : nd.content ≠ [] := by
  have hf : ∀ a b c d e (ct : List Char), CodePair.finishNode a b c d e ct = .ok nd → nd.content = ct := by
    intro a b c d e ct hf
    unfold CodePair.finishNode at hf
    split at hf
    · split at hf
      · simp only [Except.ok.injEq] at hf; subst hf; rfl
      · simp at hf
    · simp at hf
  unfold CodePair.mkNode at h
  split at h
  · simp at h
  · next raw hraw =>
    obtain ⟨x, z, _, hx, hu⟩ := CodePair.slice_some hraw
    have hlen : 0 < CodePair.byteLen (CodePair.normalise raw) := by
      rw [CodePair.byteLen_normalise]; omega
    simp only at h
    split at h
    · next hpad =>
      split at h
      · simp at h
      · next inner hin =>
        split at h
        · simp at h
        · rw [hf _ _ _ _ _ _ h]
          obtain ⟨x', z', _, hx', hu'⟩ := CodePair.slice_some hin
          unfold CodePair.padded at hpad
          simp only [Bool.and_eq_true, decide_eq_true_eq] at hpad
          exact codeByteLen_ne_nil (by omega)
    · rw [hf _ _ _ _ _ _ h]; exact codeByteLen_ne_nil hlen

theorem scan_content_ne (v : CodePair.Variant) (m : Char) (src : List Char)
    (pos posMax n p : Nat) (silent : Bool) (matchEnd : Nat) (c : CodePair.Cache) (o : CodePair.Outcome)
    (c' : CodePair.Cache) (nd : CodePair.Node)
    (H : p < matchEnd ∨ (matchEnd = p ∧ ∀ s, CodePair.slice src p posMax = some s → s.head? ≠ some m))
    (h : CodePair.scan v m src pos posMax n p silent matchEnd c = .ok (some o, c'))
    (hn : o.node = some nd) : nd.content ≠ [] := by
  fun_induction CodePair.scan v m src pos posMax n p silent matchEnd c
  case case1 => simp at h
  case case2 => simp at h
  case case3 => simp at h
  case case4 => simp at h
  case case5 =>
    simp only [Except.ok.injEq, Prod.mk.injEq, Option.some.injEq] at h
    obtain ⟨rfl, _⟩ := h; simp at hn
  case case6 => simp_all
  case case7 matchEnd c s hs off hf s' hs' heq hnu hsil nd' hmk =>
    simp only [Except.ok.injEq, Prod.mk.injEq, Option.some.injEq] at h
    obtain ⟨rfl, _⟩ := h
    simp only [Option.some.injEq] at hn; subst hn
    apply mkNode_content_ne hmk
    rcases H with H | ⟨rfl, H⟩
    · omega
    · have := H s hs
      have : off ≠ 0 := by
        intro e; subst e; exact this (findB_zero hf)
      omega
  case case8 => simp_all
  case case9 matchEnd c s hs off hf s' hs' hne mx hrec ih =>
    apply ih _ h
    left
    rcases H with H | ⟨rfl, _⟩ <;> omega

theorem runLen_tail (m : Char) (l : List Char) :
    ∃ t, l = List.replicate (CodePair.runLen m l) m ++ t ∧ t.head? ≠ some m := by
  induction l with
  | nil => exact ⟨[], rfl, by simp⟩
  | cons c r ih =>
    unfold CodePair.runLen
    split
    · next hc =>
      obtain ⟨t, ht, hh⟩ := ih
      refine ⟨t, ?_, hh⟩
      rw [List.replicate_succ, List.cons_append, ← ht, hc]
    · next hc => exact ⟨c :: r, rfl, by simpa using hc⟩

theorem run_content_ne (v : CodePair.Variant) (m : Char) (hm1 : m.utf8Size = 1) (src : List Char)
    (pos posMax : Nat) (prev silent : Bool) (c : CodePair.Cache) (o : CodePair.Outcome)
    (c' : CodePair.Cache) (nd : CodePair.Node)
    (h : CodePair.run v m src pos posMax prev silent c = .ok (some o, c')) (hn : o.node = some nd) :
    nd.content ≠ [] := by
  unfold CodePair.run at h
  split at h
  · simp at h
  · simp at h
  · next ch rest hw =>
    -- the text behind the opener run does not start with the marker
    have hH : ch = m → ∀ s, CodePair.slice src (pos + 1 + CodePair.runLen m rest) posMax = some s →
        s.head? ≠ some m := by
      intro hch s hs
      subst hch
      obtain ⟨x, z, hsrc, hx, hu⟩ := CodePair.slice_some hw
      obtain ⟨t, ht, hh⟩ := runLen_tail ch rest
      have hrep := CodePair.byteLen_replicate hm1 (CodePair.runLen ch rest)
      have hsrc2 : src = (x ++ ch :: List.replicate (CodePair.runLen ch rest) ch) ++ t ++ z := by
        rw [hsrc]; conv => lhs; rw [ht]
        simp
      have hbl : CodePair.byteLen (x ++ ch :: List.replicate (CodePair.runLen ch rest) ch)
          = pos + 1 + CodePair.runLen ch rest := by
        rw [CodePair.byteLen_append]; simp only [CodePair.byteLen, hm1, hrep]; omega
      have hpm : posMax = pos + 1 + CodePair.runLen ch rest + CodePair.byteLen t := by
        have : CodePair.byteLen (ch :: rest) = 1 + CodePair.runLen ch rest + CodePair.byteLen t := by
          conv => lhs; rw [ht]
          simp only [CodePair.byteLen, CodePair.byteLen_append, hm1, hrep]
          omega
        omega
      have := CodePair.slice_mid (x ++ ch :: List.replicate (CodePair.runLen ch rest) ch) t z
      rw [hbl, ← hpm, ← hsrc2] at this
      rw [this] at hs
      simp only [Option.some.injEq] at hs; subst hs; exact hh
    split at h
    · simp at h
    · next hc =>
      have hcm : ch = m := by simpa using hc
      have H := hH hcm
      repeat' split at h
      all_goals first
        | simp at h
        | exact scan_content_ne _ _ _ _ _ _ _ _ _ _ _ _ _ (Or.inr ⟨rfl, H⟩) h hn

end MdIt.Inline
