/-
  C05 for ALL sources, the table side, part "shift": a table with the facts `get_lines` guarantees
  (`WFMap`, `MonoMapV`, `KeysLFV`) whose virtual-space entries are spaces at line starts (`VirtSp`)
  is `MapT`: the clamped translation is monotone everywhere and a SHIFT on every stretch of the
  inline text that starts with a solid character (neither space nor line feed) and holds no line
  feed.

    * `mapT_of_virt`    `WFMap m → MonoMapV m → KeysLFV c m → VirtSp c m → MapT c m`
    * `mapT_of_mapOK`   `Inline.MapOK c m → MapT c m` (no virtual-space entries: `VirtSp` vacuous)
    * `sh_exTab_mapT`   the split-tab table `[(0,5),(4,11),(7,11)]` of the content "` a\n   `"
                        (document "-    ` a\n\t\t`") is `MapT`; it is not `MapOK`
                        (`sh_exTab_not_mapOK`), and the solid start is necessary
                        (`sh_exTab_space_start_no_shift`).
-/
import MdIt.Lemmas.C05TabsDefs

namespace MdIt.C05T
open MdIt.InlineOps (Srcmap getSourcePosFor byteLen)
open MdIt.C05R (Cut Bdy)
open MdIt.C05I (KeysLFV AfterLF)

/-! ## characters at positions -/

/-- one position holds one character -/
theorem sh_charAt_unique {s : List Char} {p : Nat} {x y : Char} (hx : CharAt s p x)
    (hy : CharAt s p y) : x = y := by
  obtain ⟨pre, post, e, hp⟩ := hx
  obtain ⟨pre', post', e', hp'⟩ := hy
  have := C05R.prefix_unique (p := pre) (p' := pre') (r := x :: post) (r' := y :: post')
    (by rw [← e, ← e']) (by omega)
  have h2 := this.2
  simp only [List.cons.injEq] at h2
  exact h2.1

/-- the first character of a selected string sits at the start of the selection -/
theorem sh_cut_head {c : List Char} {p q : Nat} {ch0 : Char} {w : List Char}
    (h : Cut c p q (ch0 :: w)) : CharAt c p ch0 := by
  obtain ⟨P, Q, e, hp, _⟩ := h
  exact ⟨P, w ++ Q, by rw [e]; simp, hp⟩

/-- a character at a position inside a selection is a member of the selected string -/
theorem sh_charAt_mem_cut {c : List Char} {p q g : Nat} {w : List Char} {x : Char}
    (h : Cut c p q w) (hx : CharAt c g x) (h1 : p ≤ g) (h2 : g < q) : x ∈ w := by
  obtain ⟨pre, post, e, hp⟩ := hx
  subst hp
  exact C05R.fa_mem_cut h e h1 h2

/-- no line feed sits inside a selection that holds none -/
theorem sh_no_lf {c : List Char} {p q g : Nat} {ch0 : Char} {w : List Char}
    (h : Cut c p q (ch0 :: w)) (h0 : ch0 ≠ '\n') (hw : '\n' ∉ w) (hx : CharAt c g '\n')
    (h1 : p ≤ g) (h2 : g < q) : False := by
  have := sh_charAt_mem_cut h hx h1 h2
  simp only [List.mem_cons] at this
  rcases this with e | e
  · exact h0 e.symm
  · exact hw e

/-- a position directly behind a line feed: the line feed sits one byte before it -/
theorem sh_afterLF_charAt {c : List Char} {k : Nat} (h : AfterLF c k) :
    1 ≤ k ∧ CharAt c (k - 1) '\n' := by
  obtain ⟨pre, post, e, hk⟩ := h
  rw [C05I.linesLen_eq] at hk
  exact ⟨by omega, pre, post, e, by omega⟩

/-! ## a solid stretch meets no virtual segment and no later key -/

/-- a position of a solid stretch is not in a virtual-space segment -/
theorem sh_not_virtual {c : List Char} {m : Srcmap} (hs : VirtSp c m) {p q : Nat} {ch0 : Char}
    {w : List Char} (hc : Cut c p q (ch0 :: w)) (h0 : ch0 ≠ ' ') (h0' : ch0 ≠ '\n') (hw : '\n' ∉ w)
    {i k v k' pos : Nat} (hi : m[i]? = some (k, v)) (hn : m[i + 1]? = some (k', v))
    (hp : p ≤ pos) (hq : pos ≤ q) (hk : k ≤ pos) (hk' : pos < k') : False := by
  rcases Nat.lt_or_ge p k with hlt | hge
  · -- the segment starts behind `p`: a line feed sits in front of it, inside the stretch
    rcases hs.ls i k v k' hi hn with h | h
    · omega
    · exact sh_no_lf hc h0' hw h (by omega) (by omega)
  · -- the stretch starts inside the segment, with a space
    have h1 := hs.sp i k v k' hi hn p hge (by omega)
    exact h0 (sh_charAt_unique (sh_cut_head hc) h1)

/-- the entry behind the one a position of a solid stretch belongs to lies beyond the stretch, and
    is a real line start: the clamp is inactive on the whole segment -/
theorem sh_next_far {c : List Char} {m : Srcmap} (hv : C05.MonoMapV m) (hk : KeysLFV c m)
    (hs : VirtSp c m) {p q : Nat} {ch0 : Char} {w : List Char} (hc : Cut c p q (ch0 :: w))
    (h0 : ch0 ≠ ' ') (h0' : ch0 ≠ '\n') (hw : '\n' ∉ w)
    {i k v k' v' pos : Nat} (hi : m[i]? = some (k, v)) (hn : m[i + 1]? = some (k', v'))
    (hp : p ≤ pos) (hq : pos ≤ q) (hkp : k ≤ pos) (hk' : pos < k') :
    q < k' ∧ v + (k' - k) ≤ v' := by
  have hreal : v ≠ v' := by
    intro e; subst e
    exact sh_not_virtual hs hc h0 h0' hw hi hn hp hq hkp hk'
  refine ⟨?_, ?_⟩
  · rcases hk i k' v' hn with h | ⟨k0, h⟩
    · obtain ⟨h1, h2⟩ := sh_afterLF_charAt h
      rcases Nat.lt_or_ge q k' with hlt | hge
      · exact hlt
      · exact (sh_no_lf hc h0' hw h2 (by omega) (by omega)).elim
    · rw [hi] at h
      simp only [Option.some.injEq, Prod.mk.injEq] at h
      exact absurd h.2 hreal
  · rcases hv i k v k' v' hi hn with h | h
    · exact h
    · exact absurd h hreal

/-- **the shift**: on a stretch of the inline text that starts with a solid character and holds no
    line feed, the clamped translation is affine with the entry of any of its positions -/
theorem sh_shift {c : List Char} {m : Srcmap} (hm : C05.WFMap m) (hv : C05.MonoMapV m)
    (hk : KeysLFV c m) (hs : VirtSp c m) {p q : Nat} {ch0 : Char} {w : List Char}
    (hc : Cut c p q (ch0 :: w)) (h0 : ch0 ≠ ' ') (h0' : ch0 ≠ '\n') (hw : '\n' ∉ w)
    {p1 p2 x1 x2 : Nat} (h1 : p ≤ p1) (h12 : p1 ≤ p2) (h2 : p2 ≤ q)
    (e1 : getSourcePosFor m p1 = .ok x1) (e2 : getSourcePosFor m p2 = .ok x2) :
    x2 = x1 + (p2 - p1) := by
  obtain ⟨i, k, v, _, hi, hkp, hlater⟩ := C05.lineOf_spec m hm p1
  have hfar : ∀ k' v', m[i + 1]? = some (k', v') → q < k' ∧ v + (k' - k) ≤ v' := by
    intro k' v' hn
    exact sh_next_far hv hk hs hc h0 h0' hw hi hn h1 (by omega) hkp
      (hlater (i + 1) k' v' (by omega) hn)
  have t1 := C05.translate_segment_free m hm p1 i k v hi hkp
    (by intro k' v' hn; have := hfar k' v' hn; omega)
    (by intro k' v' hn; have := hfar k' v' hn; omega)
  have t2 := C05.translate_segment_free m hm p2 i k v hi (by omega)
    (by intro k' v' hn; have := hfar k' v' hn; omega)
    (by intro k' v' hn; have := hfar k' v' hn; omega)
  rw [t1] at e1
  rw [t2] at e2
  simp only [Except.ok.injEq] at e1 e2
  omega

/-! ## the deliverables -/

/-- **`MapT` from the table facts**: what `get_lines` guarantees of its table (`WFMap`, `MonoMapV`,
    `KeysLFV`) plus "virtual spaces are spaces at line starts" gives the interface of the inline
    range induction -/
theorem mapT_of_virt {c : List Char} {m : Srcmap} (hw : C05.WFMap m) (hv : C05.MonoMapV m)
    (hk : C05I.KeysLFV c m) (hs : VirtSp c m) : MapT c m where
  wf := hw
  mono := fun p p' x x' hle hx hx' => C05.translate_mono_all m hw hv p p' hle x x' hx hx'
  shift := fun _ _ _ _ _ _ _ _ hc h0 h0' hn h1 h12 h2 e1 e2 =>
    sh_shift hw hv hk hs hc h0 h0' hn h1 h12 h2 e1 e2

/-- consecutive keys of a well-formed table increase -/
theorem sh_keys_lt {m : Srcmap} (hw : C05.WFMap m) {i k0 v0 k v : Nat} (h0 : m[i]? = some (k0, v0))
    (h1 : m[i + 1]? = some (k, v)) : k0 < k := by
  obtain ⟨a, ea⟩ := C05.getElem?_key m i k0 v0 h0
  obtain ⟨b, eb⟩ := C05.getElem?_key m (i + 1) k v h1
  have := MdIt.SourceMap.sorted_strict hw.sorted a b (by omega)
  omega

/-- a table without virtual-space entries (`MapOK`) is `MapT` -/
theorem mapT_of_mapOK {c : List Char} {m : Srcmap} (h : Inline.MapOK c m) : MapT c m := by
  have hw := h.wf
  apply mapT_of_virt hw h.mono.toV
  · intro i k v hi
    obtain ⟨⟨k0, v0⟩, h0⟩ := C05.getElem?_some_of_lt m i (i + 1) _ hi (by omega)
    have := sh_keys_lt hw h0 hi
    obtain ⟨pre, post, e, hl⟩ := h.lf (i + 1) k v hi (by omega)
    exact .inl ⟨pre, post, e, by rw [C05I.linesLen_eq]; exact hl⟩
  · have hno : ∀ i k0 v k, m[i]? = some (k0, v) → m[i + 1]? = some (k, v) → False := by
      intro i k0 v k h0 h1
      have := sh_keys_lt hw h0 h1
      have := h.mono i k0 v k v h0 h1
      omega
    exact ⟨fun i k0 v k h0 h1 => (hno i k0 v k h0 h1).elim,
      fun i k0 v k h0 h1 => (hno i k0 v k h0 h1).elim⟩

/-! ## the split-tab example -/

/-- the content of the paragraph of "-    ` a\n\t\t`": the second line is cut at column 5 inside the
    second tab, 3 virtual spaces (positions 4, 5, 6) stand for its rest -/
def sh_exC : List Char := ['`', ' ', 'a', '\n', ' ', ' ', ' ', '`']

/-- its table: line 1 at source 5; line 2 and the position behind its virtual spaces both at the
    source offset 11 of the split tab -/
def sh_exM : Srcmap := [(0, 5), (4, 11), (7, 11)]

theorem sh_exC_eq : "` a\n   `".toList = sh_exC := by decide +kernel

theorem sh_exM_wf : C05.WFMap sh_exM := ⟨⟨_, _, rfl⟩, by decide⟩

theorem sh_exM_monoV : C05.MonoMapV sh_exM := by
  intro i k1 v1 k2 v2 h1 h2
  match i with
  | 0 => simp [sh_exM] at h1 h2; omega
  | 1 => simp [sh_exM] at h1 h2; omega
  | n + 2 => simp [sh_exM] at h2

theorem sh_exM_keys : KeysLFV sh_exC sh_exM := by
  intro i k v h
  match i with
  | 0 =>
    simp [sh_exM] at h
    obtain ⟨rfl, rfl⟩ := h
    exact .inl ⟨['`', ' ', 'a'], [' ', ' ', ' ', '`'], rfl, by decide⟩
  | 1 =>
    simp [sh_exM] at h
    obtain ⟨rfl, rfl⟩ := h
    exact .inr ⟨4, rfl⟩
  | n + 2 => simp [sh_exM] at h

theorem sh_exM_virt : VirtSp sh_exC sh_exM := by
  constructor
  · intro i k0 v k h0 h1 p hp hp'
    match i with
    | 0 => simp [sh_exM] at h0 h1; omega
    | 1 =>
      simp [sh_exM] at h0 h1
      obtain ⟨rfl, rfl⟩ := h0
      obtain ⟨rfl, _⟩ := h1
      have : p = 4 ∨ p = 5 ∨ p = 6 := by omega
      rcases this with rfl | rfl | rfl
      · exact ⟨['`', ' ', 'a', '\n'], [' ', ' ', '`'], rfl, by decide⟩
      · exact ⟨['`', ' ', 'a', '\n', ' '], [' ', '`'], rfl, by decide⟩
      · exact ⟨['`', ' ', 'a', '\n', ' ', ' '], ['`'], rfl, by decide⟩
    | n + 2 => simp [sh_exM] at h1
  · intro i k0 v k h0 h1
    match i with
    | 0 => simp [sh_exM] at h0 h1; omega
    | 1 =>
      simp [sh_exM] at h0 h1
      obtain ⟨rfl, rfl⟩ := h0
      exact .inr ⟨['`', ' ', 'a'], [' ', ' ', ' ', '`'], rfl, by decide⟩
    | n + 2 => simp [sh_exM] at h1

/-- the split-tab table of "-    ` a\n\t\t`" is `MapT` … -/
theorem sh_exTab_mapT : MapT "` a\n   `".toList [(0, 5), (4, 11), (7, 11)] := by
  rw [sh_exC_eq]
  exact mapT_of_virt sh_exM_wf sh_exM_monoV sh_exM_keys sh_exM_virt

/-- … the translation is constant `= 11` on the virtual segment `[4, 7]` and a shift behind … -/
example : (List.range 10).map (getSourcePosFor sh_exM) =
    [.ok 5, .ok 6, .ok 7, .ok 8, .ok 11, .ok 11, .ok 11, .ok 11, .ok 12, .ok 13] := by
  decide +kernel

/-- … and it is not `MapOK` (the entries `(4,11)`, `(7,11)` break `MonoMap`) -/
theorem sh_exTab_not_mapOK : ¬ Inline.MapOK sh_exC sh_exM := by
  intro h
  have := h.mono 1 4 11 7 11 rfl rfl
  omega

/-- `MapT.shift` at work: the closing backtick (position 7, `ch0 = '`'`) up to the end -/
example : ∀ x1 x2, getSourcePosFor sh_exM 7 = .ok x1 → getSourcePosFor sh_exM 8 = .ok x2 →
    x2 = x1 + (8 - 7) := fun x1 x2 e1 e2 =>
  (sh_exC_eq ▸ sh_exTab_mapT).shift 7 8 '`' [] 7 8 x1 x2
    ⟨['`', ' ', 'a', '\n', ' ', ' ', ' '], [], rfl, by decide, by decide⟩ (by decide) (by decide)
    (by simp) (by omega) (by omega) (by omega) e1 e2

/-- the hypothesis `ch0 ≠ ' '` of `MapT.shift` is necessary: the stretch `c[5..8] = "  `"` holds no
    line feed, but starts with a (virtual) space — positions 5 and 8 are 3 bytes apart in the inline
    text and only 1 byte apart in the source -/
theorem sh_exTab_space_start_no_shift :
    Cut sh_exC 5 8 [' ', ' ', '`'] ∧ '\n' ∉ [' ', ' ', '`'] ∧
      getSourcePosFor sh_exM 5 = .ok 11 ∧ getSourcePosFor sh_exM 8 = .ok 12 ∧ 12 ≠ 11 + (8 - 5) :=
  ⟨⟨['`', ' ', 'a', '\n', ' '], [], rfl, by decide, by decide⟩, by decide, by decide +kernel,
    by decide +kernel, by decide⟩

end MdIt.C05T
