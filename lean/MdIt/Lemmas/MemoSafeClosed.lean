/-
  Helper development for `Props/MemoSafe.lean` (the open memo lemma of C01's inline totality):
  LOOK-AHEAD CODE INSIDE A CLOSED FRAME NEVER TRIPS THE GUARD.

  Everything under `skip_token` (label walks, silent rules) runs inside ONE frame: `posMax` never
  changes.  Every entry it adds to the memo ends at or before `posMax` (`New st.posMax _ _`).  Hence
  if the memo is `Closed st.cache lo st.posMax` for some `lo ≤` all positions visited, it stays so,
  every memo hit at a visited position ends inside the frame (`closed_hit`), the guard of
  `skipTokenG cfg true` is never taken, and the guarded look-ahead equals the model's.

  Generic part: two callees `skip` / `skip'` with `SkipEqHyp skip skip'` (they agree on the closed
  states of a frame, and the first only adds entries that end inside it); all contracts
  (`CalmFn`, `SkipHypT`) are about the FIRST callee, the second is only compared.
  Instance: `skip_guard_free` (guarded vs. model `skip_token`, by induction on fuel; no side
  condition on the chain — `skipTokenG_T` is the `skip_token` half of `guarded_total` on its own) and
  the corollaries `parseLink_guard_free` / `skipStep_guard_free` for the real-mode caller.

  Second pass (`…_grow`): the same chain for ONE callee with the postcondition `Grow p M c c'`
  (new entries end ≤ M, old `lookup` answers stay, keys below the start position `p` untouched):
  `SkipGrowHyp`, `labelLoop_grow` … `skipStep_grow`, instance `skip_grow`, `parseLink_guard_grow`.
-/
import MdIt.Lemmas.MemoSafeDef

namespace MdIt.Inline
open MdIt.InlineOps (Srcmap getSourcePosFor getMap byteLen slice)
open MdIt.C05 (WFMap MonoMap byteLen_append slice_ok_iff)

/-- two `skip_token`s that agree on the closed states of a frame and only add entries that end
    inside it -/
def SkipEqHyp (skip skip' : IState → Except Panic IState) : Prop :=
  ∀ s lo, LInv s → s.pos < s.posMax → Closed s.cache lo s.posMax → lo ≤ s.pos →
    skip s = skip' s ∧ ∀ s', skip s = .ok s' → New s.posMax s.cache s'.cache

/-! ## `parse_link_label` -/

theorem labelLoop_eq {skip skip' : IState → Except Panic IState} (hq : CalmFn skip)
    (hs : SkipHypT skip) (he : SkipEqHyp skip skip') (en : Bool) (lo : Nat) :
    ∀ (n : Nat) (level : Int) (st : IState), LInv st → Closed st.cache lo st.posMax → lo ≤ st.pos →
      labelLoop skip en n level st = labelLoop skip' en n level st ∧
      ∀ res st', labelLoop skip en n level st = .ok (res, st') →
        New st.posMax st.cache st'.cache := by
  intro n
  induction n with
  | zero =>
    intro level st _ _ _
    exact ⟨rfl, by intro res st' h; simp [labelLoop] at h⟩
  | succ n ih =>
    intro level st hi hc hlo
    obtain ⟨w, hw, hsl, hlen⟩ := hi.window
    unfold labelLoop
    rw [hw]
    simp only [liftR]
    cases w with
    | nil =>
      exact ⟨rfl, by
        intro res st' h
        simp only [Except.ok.injEq, Prod.mk.injEq] at h; obtain ⟨_, rfl⟩ := h
        exact New.refl _ _⟩
    | cons ch rest =>
      have hlt : st.pos < st.posMax := by
        have := Char.utf8Size_pos ch
        simp only [byteLen] at hlen; omega
      simp only
      by_cases h1 : ch = ']' ∧ level - 1 = 0
      · simp only [if_pos h1]
        exact ⟨trivial, by
          intro res st' h
          simp only [Except.ok.injEq, Prod.mk.injEq] at h; obtain ⟨_, rfl⟩ := h
          exact New.refl _ _⟩
      · simp only [if_neg h1]
        obtain ⟨heq, hnew⟩ := he st lo hi hlt hc hlo
        have hsk := hs st hi hlt
        rw [← heq]
        cases hst1 : skip st with
        | error e => exact ⟨rfl, by intro res st' h; simp at h⟩
        | ok st1 =>
          simp only
          obtain ⟨hm1, hp1, hle1, hb1⟩ := hsk.ok st1 hst1
          have hc1 := hq st st1 hst1
          have hi1 : LInv st1 := hi.step hc1 hm1 hle1 hb1
          have hn1 := hnew st1 hst1
          have hcl1 : Closed st1.cache lo st1.posMax := by rw [hc1.posMax]; exact hc.of_new hn1
          have hrec := fun level' => ih level' st1 hi1 hcl1 (by omega)
          have hrec1 : ∀ level', labelLoop skip' en n level' st1 = labelLoop skip en n level' st1 :=
            fun l => (hrec l).1.symm
          have hrec2 : ∀ level' res st', labelLoop skip en n level' st1 = .ok (res, st') →
              New st.posMax st.cache st'.cache := by
            intro l res st' h
            have := (hrec l).2 res st' h
            rw [hc1.posMax] at this
            exact hn1.trans this
          simp only [hrec1]
          refine ⟨trivial, ?_⟩
          intro res st'
          split
          · split
            · intro h; simp at h
            · split
              · exact hrec2 _ _ _
              · split
                · intro h
                  simp only [Except.ok.injEq, Prod.mk.injEq] at h; obtain ⟨_, rfl⟩ := h
                  exact hn1
                · exact hrec2 _ _ _
          · exact hrec2 _ _ _

/-- `parse_link_label` from a `[` whose successor position lies in the closed part of the window -/
theorem parseLinkLabel_eq {skip skip' : IState → Except Panic IState} (hq : CalmFn skip)
    (hs : SkipHypT skip) (he : SkipEqHyp skip skip') (en : Bool) (fuel : Nat) (st : IState)
    (start lo : Nat) (hi : LInv st) (hb : Boundary st.src (start + 1)) (hle : start + 1 ≤ st.posMax)
    (hc : Closed st.cache lo st.posMax) (hlo : lo ≤ start + 1) :
    parseLinkLabel skip fuel st start en = parseLinkLabel skip' fuel st start en ∧
    ∀ o st', parseLinkLabel skip fuel st start en = .ok (o, st') →
      New st.posMax st.cache st'.cache := by
  have hi0 : LInv { st with pos := start + 1 } :=
    ⟨hle, hb, hi.bmax, hi.wf, hi.stop, hi.memo⟩
  have hl := labelLoop_eq hq hs he en lo fuel 1 { st with pos := start + 1 } hi0 hc hlo
  unfold parseLinkLabel
  simp only
  rw [← hl.1]
  refine ⟨rfl, ?_⟩
  intro o st'
  split
  · intro h; simp at h
  · next st1 hll =>
    intro h
    simp only [Except.ok.injEq, Prod.mk.injEq] at h; obtain ⟨_, rfl⟩ := h
    exact hl.2 _ st1 hll
  · next found st1 hll =>
    intro h
    simp only [Except.ok.injEq, Prod.mk.injEq] at h; obtain ⟨_, rfl⟩ := h
    exact hl.2 _ st1 hll

/-! ## `parse_link` -/

/-- the tail of `parse_link_ref` behind the optional second label: every successful outcome returns
    the state `st1` it was entered with — close a goal `(tail) = .ok (o, st') → New M c st'.cache`
    from `hn : New M c st1.cache` -/
macro "ref_tail " hn:term : tactic =>
  `(tactic| (
    repeat' split
    all_goals
      (intro h
       first
       | (simp at h; done)
       | (simp only [Except.ok.injEq, Prod.mk.injEq] at h; have h2 := h.2; subst h2; exact $hn))))

theorem parseLinkRef_eq {cfg : Cfg} {skip skip' : IState → Except Panic IState} (hq : CalmFn skip)
    (hs : SkipHypT skip) (he : SkipEqHyp skip skip') (fuel : Nat) (st : IState)
    (labelStart labelEnd lo : Nat) (hi : LInv st) (hle : labelStart ≤ labelEnd)
    (hend : ∃ r, slice st.src labelEnd st.posMax = .ok (']' :: r))
    (hc : Closed st.cache lo st.posMax) (hlo : lo ≤ labelStart) :
    parseLinkRef cfg skip fuel st labelStart labelEnd =
      parseLinkRef cfg skip' fuel st labelStart labelEnd ∧
    ∀ o st', parseLinkRef cfg skip fuel st labelStart labelEnd = .ok (o, st') →
      New st.posMax st.cache st'.cache := by
  obtain ⟨r0, hr0⟩ := hend
  obtain ⟨hle1, hb1⟩ := after_bracket hr0
  obtain ⟨w, hw⟩ := slice_ok_of hb1 hi.bmax hle1
  unfold parseLinkRef
  rw [hw, liftR_liftOps_ok]
  simp only
  rcases w with _ | ⟨c, r1⟩
  · simp only
    refine ⟨trivial, ?_⟩
    intro o st'
    ref_tail (New.refl _ _)
  · by_cases hcb : c = '['
    · subst hcb
      have hbr : Boundary st.src (labelEnd + 1 + 1) ∧ labelEnd + 1 + 1 ≤ st.posMax := by
        have e1 : ('[' : Char).utf8Size = 1 := by decide
        constructor
        · have := boundary_in_slice (u := ['[']) (v := r1) hw
          simpa [byteLen, e1] using this
        · have := (slice_boundaries hw).2.2
          simp only [byteLen, e1] at this; omega
      have hlab := parseLinkLabel_eq hq hs he false fuel st (labelEnd + 1) lo hi hbr.1 hbr.2 hc
        (by omega)
      simp only
      rw [← hlab.1]
      cases hpl : parseLinkLabel skip fuel st (labelEnd + 1) false with
      | error e => exact ⟨rfl, by intro o st' h; simp at h⟩
      | ok p =>
        obtain ⟨o1, st1⟩ := p
        have hn1 := hlab.2 _ _ hpl
        cases o1 with
        | none =>
          simp only
          refine ⟨trivial, ?_⟩
          intro o st'
          ref_tail hn1
        | some x =>
          simp only
          cases hsl : liftR (liftOps (slice st.src (labelEnd + 1 + 1) x)) with
          | error e => exact ⟨trivial, by intro o st' h; simp at h⟩
          | ok l =>
            simp only
            refine ⟨trivial, ?_⟩
            intro o st'
            ref_tail hn1
    · simp only [List.cons.injEq, hcb, false_and, imp_self, implies_true]
      refine ⟨trivial, ?_⟩
      intro o st'
      ref_tail (New.refl _ _)

theorem parseLink_eq {cfg : Cfg} {skip skip' : IState → Except Panic IState} (hq : CalmFn skip)
    (hs : SkipHypT skip) (he : SkipEqHyp skip skip') (fuel : Nat) (st : IState) (pos lo : Nat)
    (en : Bool) (hi : LInv st) (hb : Boundary st.src (pos + 1)) (hle : pos + 1 ≤ st.posMax)
    (hc : Closed st.cache lo st.posMax) (hlo : lo ≤ pos + 1) :
    parseLink cfg skip fuel st pos en = parseLink cfg skip' fuel st pos en ∧
    ∀ o st', parseLink cfg skip fuel st pos en = .ok (o, st') →
      New st.posMax st.cache st'.cache := by
  have hlabT := parseLinkLabel_T hq hs en fuel st pos hi hb hle
  have hlab := parseLinkLabel_eq hq hs he en fuel st pos lo hi hb hle hc hlo
  unfold parseLink
  rw [← hlab.1]
  cases hpl : parseLinkLabel skip fuel st pos en with
  | error e => exact ⟨rfl, by intro o st' h; simp at h⟩
  | ok p =>
    obtain ⟨o1, st1⟩ := p
    have hn1 := hlab.2 _ _ hpl
    obtain ⟨hi1, hc1, hp1, hx⟩ := hlabT.2 _ _ hpl
    cases o1 with
    | none =>
      simp only
      refine ⟨trivial, ?_⟩
      intro o st' h
      simp only [Except.ok.injEq, Prod.mk.injEq] at h; obtain ⟨_, rfl⟩ := h
      exact hn1
    | some labelEnd =>
      simp only
      obtain ⟨hx1, rx, hrx⟩ := hx labelEnd rfl
      have href := parseLinkRef_eq (cfg := cfg) hq hs he fuel st1 (pos + 1) labelEnd lo hi1 hx1
        (by rw [hc1.src, hc1.posMax]; exact ⟨rx, hrx⟩)
        (by rw [hc1.posMax]; exact hc.of_new hn1) hlo
      generalize Link.parseInlineTail _ _ _ _ = r
      cases r with
      | error e => exact ⟨rfl, by intro o st' h; simp at h⟩
      | ok oi =>
        cases oi with
        | some il =>
          simp only
          refine ⟨trivial, ?_⟩
          intro o st' h
          simp only [Except.ok.injEq, Prod.mk.injEq] at h; obtain ⟨_, rfl⟩ := h
          exact hn1
        | none =>
          simp only
          refine ⟨href.1, ?_⟩
          intro o st' h
          have := href.2 o st' h
          rw [hc1.posMax] at this
          exact hn1.trans this

/-! ## the link rule, look-ahead mode -/

/-- silent mode never calls `tokenize`: the two sides may even differ in it -/
theorem linkRule_silent_eq {cfg : Cfg} {skip skip' tok tok' : IState → Except Panic IState}
    (hq : CalmFn skip) (hs : SkipHypT skip) (he : SkipEqHyp skip skip') (fuel : Nat)
    (mk : List Nat → Option (List Char) → Val) (en : Bool) (offset : Nat) (st : IState) (lo : Nat)
    (hi : LInv st) (hb : Boundary st.src (st.pos + offset + 1))
    (hle : st.pos + offset + 1 ≤ st.posMax) (hc : Closed st.cache lo st.posMax)
    (hlo : lo ≤ st.pos + offset + 1) :
    linkRule cfg skip tok fuel mk en offset st true =
      linkRule cfg skip' tok' fuel mk en offset st true ∧
    ∀ o st', linkRule cfg skip tok fuel mk en offset st true = .ok (o, st') →
      New st.posMax st.cache st'.cache := by
  have hpl := parseLink_eq (cfg := cfg) hq hs he fuel st (st.pos + offset) lo en hi hb hle hc hlo
  unfold linkRule
  simp only
  rw [← hpl.1]
  cases hp : parseLink cfg skip fuel st (st.pos + offset) en with
  | error e => exact ⟨rfl, by intro o st' h; simp at h⟩
  | ok p =>
    obtain ⟨o1, st1⟩ := p
    have hn1 := hpl.2 _ _ hp
    cases o1 with
    | none =>
      simp only
      refine ⟨trivial, ?_⟩
      intro o st' h
      simp only [Except.ok.injEq, Prod.mk.injEq] at h; obtain ⟨_, rfl⟩ := h
      exact hn1
    | some res =>
      simp only [if_true]
      refine ⟨trivial, ?_⟩
      intro o st'
      split
      · intro h; simp at h
      · intro h
        simp only [Except.ok.injEq, Prod.mk.injEq] at h; obtain ⟨_, rfl⟩ := h
        exact hn1

/-! ## one rule, the chain, one `skip_token` step — look-ahead mode -/

/-- what the comparison of two look-ahead computations from `st` delivers -/
def SilEq (st : IState) (r r' : RuleRes) : Prop :=
  r = r' ∧ ∀ o st', r = .ok (o, st') → New st.posMax st.cache st'.cache

theorem runRule_silent_eq {cfg : Cfg} {skip skip' tok tok' : IState → Except Panic IState}
    (hq : CalmFn skip) (hs : SkipHypT skip) (he : SkipEqHyp skip skip') (fuel : Nat) (id : RuleId)
    (st : IState) (lo : Nat) (hi : LInv st) (hlt : st.pos < st.posMax)
    (hc : Closed st.cache lo st.posMax) (hlo : lo ≤ st.pos) :
    SilEq st (runRule cfg skip tok fuel id st true) (runRule cfg skip' tok' fuel id st true) := by
  by_cases hflat : id.isFlat = true
  · constructor
    · unfold runRule
      cases id with
      | link => simp [RuleId.isFlat] at hflat
      | image => simp [RuleId.isFlat] at hflat
      | _ => rfl
    · intro o st' h
      rw [runRule_flat_cache hflat h]
      exact New.refl _ _
  · obtain ⟨w, hw, hsl, hlen⟩ := hi.window
    unfold SilEq
    cases id with
    | link =>
      unfold runRule
      simp only
      unfold ruleLink
      rw [hw]
      simp only [liftR]
      cases w with
      | nil => simp only [byteLen] at hlen; omega
      | cons c rest =>
        simp only
        by_cases hcb : c = '['
        · subst hcb
          simp only [ne_eq, not_true_eq_false, if_false]
          obtain ⟨hb, hle⟩ := after_first (by decide) hsl
          exact linkRule_silent_eq (cfg := cfg) (tok := tok) (tok' := tok') hq hs he fuel Val.link
            false 0 st lo hi hb hle hc (by omega)
        · simp only [ne_eq, hcb, not_false_eq_true, if_true]
          refine ⟨trivial, ?_⟩
          intro o st' h
          simp only [Except.ok.injEq, Prod.mk.injEq] at h; obtain ⟨_, rfl⟩ := h
          exact New.refl _ _
    | image =>
      unfold runRule
      simp only
      unfold ruleImage
      rw [hw]
      simp only [liftR]
      split
      · next e heq => simp at heq
      · next r heq =>
        simp only [Except.ok.injEq] at heq
        subst heq
        obtain ⟨hb, hle⟩ := after_second (by decide) (by decide) hsl
        exact linkRule_silent_eq (cfg := cfg) (tok := tok) (tok' := tok') hq hs he fuel Val.image
          true 1 st lo hi hb hle hc (by omega)
      · refine ⟨by trivial, ?_⟩
        intro o st' h
        simp only [Except.ok.injEq, Prod.mk.injEq] at h; obtain ⟨_, rfl⟩ := h
        exact New.refl _ _
    | _ => simp [RuleId.isFlat] at hflat

theorem silentBumped_eq {run run' : IState → Bool → RuleRes} {st : IState}
    (h : SilEq { st with level := st.level + 1 } (run { st with level := st.level + 1 } true)
      (run' { st with level := st.level + 1 } true)) :
    SilEq st (silentBumped run st) (silentBumped run' st) := by
  obtain ⟨h1, h2⟩ := h
  unfold SilEq silentBumped
  rw [← h1]
  cases hr : run { st with level := st.level + 1 } true with
  | error e => exact ⟨rfl, by intro o st' h; simp at h⟩
  | ok p =>
    obtain ⟨r, st1⟩ := p
    have hn1 : New st.posMax st.cache st1.cache := h2 r st1 hr
    simp only
    refine ⟨by trivial, ?_⟩
    intro o st'
    split
    · intro h; simp at h
    · intro h
      simp only [Except.ok.injEq, Prod.mk.injEq] at h; obtain ⟨_, rfl⟩ := h
      exact hn1

theorem firstRule_silent_eq {run run' : RuleId → IState → RuleRes} (lo : Nat)
    (hT : ∀ id s, LInv s → s.pos < s.posMax → SilT s (run id s))
    (hrun : ∀ id s, LInv s → s.pos < s.posMax → Closed s.cache lo s.posMax → lo ≤ s.pos →
      SilEq s (run id s) (run' id s)) :
    ∀ (rules : List RuleId) (st : IState), LInv st → st.pos < st.posMax →
      Closed st.cache lo st.posMax → lo ≤ st.pos →
      SilEq st (firstRule run rules st) (firstRule run' rules st) := by
  intro rules
  induction rules with
  | nil =>
    intro st _ _ _ _
    unfold firstRule
    refine ⟨rfl, ?_⟩
    intro o st' h
    simp only [Except.ok.injEq, Prod.mk.injEq] at h; obtain ⟨_, rfl⟩ := h
    exact New.refl _ _
  | cons r rs ih =>
    intro st hi hlt hc hlo
    have h1 := hT r st hi hlt
    obtain ⟨e1, n1⟩ := hrun r st hi hlt hc hlo
    unfold SilEq firstRule
    rw [← e1]
    cases hr : run r st with
    | error e => exact ⟨rfl, by intro o st' h; simp at h⟩
    | ok p =>
      obtain ⟨o1, st1⟩ := p
      have hn1 := n1 o1 st1 hr
      cases o1 with
      | some n =>
        simp only
        refine ⟨by trivial, ?_⟩
        intro o st' h
        simp only [Except.ok.injEq, Prod.mk.injEq] at h; obtain ⟨_, rfl⟩ := h
        exact hn1
      | none =>
        simp only
        obtain ⟨a, b, c, _⟩ := h1.ok _ _ hr
        have h2 := ih st1 a (by rw [c, b.posMax]; exact hlt)
          (by rw [b.posMax]; exact hc.of_new hn1) (by rw [c]; exact hlo)
        refine ⟨h2.1, ?_⟩
        intro o st' h
        have := h2.2 o st' h
        rw [b.posMax] at this
        exact hn1.trans this

/-- one run of the chain in look-ahead mode inside `skip_token` -/
theorem skipStep_eq {cfg : Cfg} {skip skip' tok tok' : IState → Except Panic IState}
    (hq : CalmFn skip) (hs : SkipHypT skip) (he : SkipEqHyp skip skip') (fuel : Nat) (st : IState)
    (lo : Nat) (hi : LInv st) (hlt : st.pos < st.posMax) (hc : Closed st.cache lo st.posMax)
    (hlo : lo ≤ st.pos) :
    skipStep cfg skip tok fuel st = skipStep cfg skip' tok' fuel st ∧
    ∀ st', skipStep cfg skip tok fuel st = .ok st' → New st.posMax st.cache st'.cache := by
  have hT : ∀ id s, LInv s → s.pos < s.posMax →
      SilT s (silentBumped (runRule cfg skip tok fuel id) s) := by
    intro id s his hls
    apply silentBumped_T
    exact runRule_silent_T hq hs fuel id _ ⟨his.le, his.bpos, his.bmax, his.wf, his.stop, his.memo⟩ hls
  have hfr := firstRule_silent_eq (run := fun id s => silentBumped (runRule cfg skip tok fuel id) s)
    (run' := fun id s => silentBumped (runRule cfg skip' tok' fuel id) s) lo hT
    (by
      intro id s his hls hcs hlos
      apply silentBumped_eq
      exact runRule_silent_eq hq hs he fuel id _ lo
        ⟨his.le, his.bpos, his.bmax, his.wf, his.stop, his.memo⟩ hls hcs hlos)
    cfg.chain st hi hlt hc hlo
  have hstepT := skipStep_T (cfg := cfg) (tok := tok) hq hs fuel st hi hlt
  obtain ⟨e1, n1⟩ := hfr
  constructor
  · unfold skipStep
    simp only
    rw [← e1]
  · intro st' h
    have hle := (hstepT.ok st' h).2.2.1
    unfold skipStep at h
    simp only at h
    split at h
    · simp at h
    · next len st1 hfr1 =>
      simp only [Except.ok.injEq] at h; subst h
      exact (n1 _ _ hfr1).insert hle
    · next st1 hfr1 =>
      split at h
      · simp at h
      · next ch hch =>
        simp only [Except.ok.injEq] at h; subst h
        exact (n1 _ _ hfr1).insert hle

/-! ## the instance: the guarded `skip_token` against the model's -/

/-- the `skip_token` half of `guarded_total` on its own (it does not depend on the `tokenize` half,
    hence not on the marker-size side condition of the emphasis rule) -/
theorem skipTokenG_T (cfg : Cfg) : ∀ fuel : Nat, SkipHypT (fun s => skipTokenG cfg true fuel s) := by
  intro fuel
  induction fuel with
  | zero =>
    intro s _ _
    show SkipT s (skipTokenG cfg true 0 s)
    unfold skipTokenG
    exact ⟨NoRust.fuel, by intro st' h; simp at h⟩
  | succ f ih =>
    have hq := skipTokenG_calm cfg true f
    intro st hi hlt
    show SkipT st (skipTokenG cfg true (f + 1) st)
    unfold skipTokenG
    split
    · next x hx =>
      obtain ⟨hkx, hbx⟩ := hi.memo _ _ (lookup_mem hx)
      split
      · exact ⟨NoRust.fuel, by intro st' h; simp at h⟩
      · next hng =>
        refine ⟨NoRust.ok _, ?_⟩
        intro st' h
        simp only [Except.ok.injEq] at h; subst h
        refine ⟨hi.memo, hkx, ?_, hbx⟩
        simp only [true_and, Nat.not_lt] at hng
        exact hng
    · split
      · exact skipStep_T hq ih f st hi hlt
      · refine ⟨NoRust.ok _, ?_⟩
        intro st' h
        simp only [Except.ok.injEq] at h; subst h
        exact ⟨MemoB.insert hi.memo hlt hi.bmax, hlt, Nat.le_refl _, hi.bmax⟩

/-- **inside a closed frame the guard is never taken**: from a state whose memo is closed on
    `[lo, posMax)` and whose position lies in that range, the guarded `skip_token` IS the model's
    `skip_token` (same value, same error), and it only adds memo entries that end inside the frame -/
theorem skip_guard_free (cfg : Cfg) : ∀ fuel : Nat,
    SkipEqHyp (fun s => skipTokenG cfg true fuel s) (fun s => skipToken cfg fuel s) := by
  intro fuel
  induction fuel with
  | zero =>
    intro s lo _ _ _ _
    refine ⟨?_, ?_⟩
    · show skipTokenG cfg true 0 s = skipToken cfg 0 s
      unfold skipTokenG skipToken; rfl
    · intro s' h
      simp [skipTokenG] at h
  | succ f ih =>
    intro s lo hi hlt hc hlo
    show skipTokenG cfg true (f + 1) s = skipToken cfg (f + 1) s ∧
      ∀ s', skipTokenG cfg true (f + 1) s = .ok s' → New s.posMax s.cache s'.cache
    unfold skipTokenG skipToken
    cases hx : s.cache.lookup s.pos with
    | some x =>
      have hxle : x ≤ s.posMax := closed_hit hc hlo hlt hx
      simp only
      rw [if_neg (by simp only [true_and, Nat.not_lt]; exact hxle)]
      refine ⟨rfl, ?_⟩
      intro s' h
      simp only [Except.ok.injEq] at h; subst h
      exact New.refl _ _
    | none =>
      simp only
      by_cases hl : s.level < cfg.maxNesting
      · simp only [if_pos hl]
        exact skipStep_eq (skipTokenG_calm cfg true f) (skipTokenG_T cfg f) ih f s lo hi hlt hc hlo
      · simp only [if_neg hl]
        refine ⟨by trivial, ?_⟩
        intro s' h
        simp only [Except.ok.injEq] at h; subst h
        exact (New.refl _ _).insert (Nat.le_refl _)

/-! ## corollaries for the real-mode caller -/

/-- `parse_link` as the link rule calls it in REAL mode: over the guarded `skip_token` it is
    `parse_link` over the model's, provided the memo is closed from the label on -/
theorem parseLink_guard_free (cfg : Cfg) (f fuel : Nat) (st : IState) (pos lo : Nat) (en : Bool)
    (hi : LInv st) (hb : Boundary st.src (pos + 1)) (hle : pos + 1 ≤ st.posMax)
    (hc : Closed st.cache lo st.posMax) (hlo : lo ≤ pos + 1) :
    parseLink cfg (fun s => skipTokenG cfg true f s) fuel st pos en =
      parseLink cfg (fun s => skipToken cfg f s) fuel st pos en ∧
    ∀ o st', parseLink cfg (fun s => skipTokenG cfg true f s) fuel st pos en = .ok (o, st') →
      New st.posMax st.cache st'.cache :=
  parseLink_eq (skipTokenG_calm cfg true f) (skipTokenG_T cfg f) (skip_guard_free cfg f) fuel st pos lo
    en hi hb hle hc hlo

/-- the whole `skip_token` step (one chain run in look-ahead mode) at a fuel -/
theorem skipStep_guard_free (cfg : Cfg) (f fuel : Nat) (st : IState) (lo : Nat) (hi : LInv st)
    (hlt : st.pos < st.posMax) (hc : Closed st.cache lo st.posMax) (hlo : lo ≤ st.pos) :
    skipStep cfg (fun s => skipTokenG cfg true f s) (fun s => tokLoopG cfg true f s.posMax s) fuel st =
      skipStep cfg (fun s => skipToken cfg f s) (fun s => tokLoop cfg f s.posMax s) fuel st ∧
    ∀ st', skipStep cfg (fun s => skipTokenG cfg true f s) (fun s => tokLoopG cfg true f s.posMax s)
        fuel st = .ok st' → New st.posMax st.cache st'.cache :=
  skipStep_eq (skipTokenG_calm cfg true f) (skipTokenG_T cfg f) (skip_guard_free cfg f) fuel st lo hi
    hlt hc hlo

/-! # second pass: the memo only GROWS, above the position the look-ahead started from

The same chain with the stronger postcondition `Grow p M c c'` (`MemoSafeDef.lean`: new entries end
at or before `M`, every old `lookup` answer stays, keys below `p` are untouched), for ONE callee. -/

/-- a `skip_token` that only grows the memo at or above its position, and leaves its own jump in it -/
def SkipGrowHyp (skip : IState → Except Panic IState) : Prop :=
  ∀ s, LInv s → s.pos < s.posMax → ∀ s', skip s = .ok s' →
    Grow s.pos s.posMax s.cache s'.cache ∧ s'.cache.lookup s.pos = some s'.pos

theorem labelLoop_grow {skip : IState → Except Panic IState} (hq : CalmFn skip)
    (hs : SkipHypT skip) (hg : SkipGrowHyp skip) (en : Bool) :
    ∀ (n : Nat) (level : Int) (st : IState), LInv st →
      ∀ res st', labelLoop skip en n level st = .ok (res, st') →
        Grow st.pos st.posMax st.cache st'.cache := by
  intro n
  induction n with
  | zero => intro level st _ res st' h; simp [labelLoop] at h
  | succ n ih =>
    intro level st hi res st' h
    obtain ⟨w, hw, hsl, hlen⟩ := hi.window
    unfold labelLoop at h
    rw [hw] at h
    simp only [liftR] at h
    cases w with
    | nil =>
      simp only [Except.ok.injEq, Prod.mk.injEq] at h; obtain ⟨_, rfl⟩ := h
      exact Grow.refl _ _ _
    | cons ch rest =>
      have hlt : st.pos < st.posMax := by
        have := Char.utf8Size_pos ch
        simp only [byteLen] at hlen; omega
      simp only at h
      split at h
      · simp only [Except.ok.injEq, Prod.mk.injEq] at h; obtain ⟨_, rfl⟩ := h
        exact Grow.refl _ _ _
      · split at h
        · simp at h
        · next st1 hst1 =>
          obtain ⟨hm1, hp1, hle1, hb1⟩ := (hs st hi hlt).ok st1 hst1
          have hc1 := hq st st1 hst1
          have hi1 : LInv st1 := hi.step hc1 hm1 hle1 hb1
          have hg1 := (hg st hi hlt st1 hst1).1
          have hrec : ∀ level', labelLoop skip en n level' st1 = .ok (res, st') →
              Grow st.pos st.posMax st.cache st'.cache := by
            intro l hl
            have := ih l st1 hi1 res st' hl
            rw [hc1.posMax] at this
            exact hg1.trans (this.mono_lo (by omega))
          split at h
          · split at h
            · simp at h
            · split at h
              · exact hrec _ h
              · split at h
                · simp only [Except.ok.injEq, Prod.mk.injEq] at h; obtain ⟨_, rfl⟩ := h
                  exact hg1
                · exact hrec _ h
          · exact hrec _ h

theorem parseLinkLabel_grow {skip : IState → Except Panic IState} (hq : CalmFn skip)
    (hs : SkipHypT skip) (hg : SkipGrowHyp skip) (en : Bool) (fuel : Nat) (st : IState)
    (start : Nat) (hi : LInv st) (hb : Boundary st.src (start + 1)) (hle : start + 1 ≤ st.posMax) :
    ∀ o st', parseLinkLabel skip fuel st start en = .ok (o, st') →
      Grow (start + 1) st.posMax st.cache st'.cache := by
  have hi0 : LInv { st with pos := start + 1 } :=
    ⟨hle, hb, hi.bmax, hi.wf, hi.stop, hi.memo⟩
  have hl := labelLoop_grow hq hs hg en fuel 1 { st with pos := start + 1 } hi0
  intro o st' h
  unfold parseLinkLabel at h
  simp only at h
  split at h
  · simp at h
  · next st1 hll =>
    simp only [Except.ok.injEq, Prod.mk.injEq] at h; obtain ⟨_, rfl⟩ := h
    exact hl _ st1 hll
  · next found st1 hll =>
    simp only [Except.ok.injEq, Prod.mk.injEq] at h; obtain ⟨_, rfl⟩ := h
    exact hl _ st1 hll

theorem parseLinkRef_grow {cfg : Cfg} {skip : IState → Except Panic IState} (hq : CalmFn skip)
    (hs : SkipHypT skip) (hg : SkipGrowHyp skip) (fuel : Nat) (st : IState)
    (labelStart labelEnd : Nat) (hi : LInv st)
    (hend : ∃ r, slice st.src labelEnd st.posMax = .ok (']' :: r)) :
    ∀ o st', parseLinkRef cfg skip fuel st labelStart labelEnd = .ok (o, st') →
      Grow (labelEnd + 1 + 1) st.posMax st.cache st'.cache := by
  obtain ⟨r0, hr0⟩ := hend
  obtain ⟨hle1, hb1⟩ := after_bracket hr0
  obtain ⟨w, hw⟩ := slice_ok_of hb1 hi.bmax hle1
  intro o st'
  unfold parseLinkRef
  rw [hw, liftR_liftOps_ok]
  simp only
  rcases w with _ | ⟨c, r1⟩
  · simp only
    ref_tail (Grow.refl _ _ _)
  · by_cases hcb : c = '['
    · subst hcb
      have hbr : Boundary st.src (labelEnd + 1 + 1) ∧ labelEnd + 1 + 1 ≤ st.posMax := by
        have e1 : ('[' : Char).utf8Size = 1 := by decide
        constructor
        · have := boundary_in_slice (u := ['[']) (v := r1) hw
          simpa [byteLen, e1] using this
        · have := (slice_boundaries hw).2.2
          simp only [byteLen, e1] at this; omega
      have hlab := parseLinkLabel_grow hq hs hg false fuel st (labelEnd + 1) hi hbr.1 hbr.2
      simp only
      cases hpl : parseLinkLabel skip fuel st (labelEnd + 1) false with
      | error e => intro h; simp at h
      | ok p =>
        obtain ⟨o1, st1⟩ := p
        have hn1 := hlab _ _ hpl
        cases o1 with
        | none =>
          simp only
          ref_tail hn1
        | some x =>
          simp only
          cases hsl : liftR (liftOps (slice st.src (labelEnd + 1 + 1) x)) with
          | error e => intro h; simp at h
          | ok l =>
            simp only
            ref_tail hn1
    · simp only [List.cons.injEq, hcb, false_and, imp_self, implies_true]
      ref_tail (Grow.refl _ _ _)

theorem parseLink_grow {cfg : Cfg} {skip : IState → Except Panic IState} (hq : CalmFn skip)
    (hs : SkipHypT skip) (hg : SkipGrowHyp skip) (fuel : Nat) (st : IState) (pos : Nat)
    (en : Bool) (hi : LInv st) (hb : Boundary st.src (pos + 1)) (hle : pos + 1 ≤ st.posMax) :
    ∀ o st', parseLink cfg skip fuel st pos en = .ok (o, st') →
      Grow (pos + 1) st.posMax st.cache st'.cache := by
  have hlabT := parseLinkLabel_T hq hs en fuel st pos hi hb hle
  have hlab := parseLinkLabel_grow hq hs hg en fuel st pos hi hb hle
  intro o st'
  unfold parseLink
  cases hpl : parseLinkLabel skip fuel st pos en with
  | error e => intro h; simp at h
  | ok p =>
    obtain ⟨o1, st1⟩ := p
    have hn1 := hlab _ _ hpl
    obtain ⟨hi1, hc1, hp1, hx⟩ := hlabT.2 _ _ hpl
    cases o1 with
    | none =>
      simp only
      intro h
      simp only [Except.ok.injEq, Prod.mk.injEq] at h; obtain ⟨_, rfl⟩ := h
      exact hn1
    | some labelEnd =>
      simp only
      obtain ⟨hx1, rx, hrx⟩ := hx labelEnd rfl
      have href := parseLinkRef_grow (cfg := cfg) hq hs hg fuel st1 (pos + 1) labelEnd hi1
        (by rw [hc1.src, hc1.posMax]; exact ⟨rx, hrx⟩)
      generalize Link.parseInlineTail _ _ _ _ = r
      cases r with
      | error e => intro h; simp at h
      | ok oi =>
        cases oi with
        | some il =>
          simp only
          intro h
          simp only [Except.ok.injEq, Prod.mk.injEq] at h; obtain ⟨_, rfl⟩ := h
          exact hn1
        | none =>
          simp only
          intro h
          have := href o st' h
          rw [hc1.posMax] at this
          exact hn1.trans (this.mono_lo (by omega))

theorem linkRule_silent_grow {cfg : Cfg} {skip tok : IState → Except Panic IState}
    (hq : CalmFn skip) (hs : SkipHypT skip) (hg : SkipGrowHyp skip) (fuel : Nat)
    (mk : List Nat → Option (List Char) → Val) (en : Bool) (offset : Nat) (st : IState)
    (hi : LInv st) (hb : Boundary st.src (st.pos + offset + 1))
    (hle : st.pos + offset + 1 ≤ st.posMax) :
    ∀ o st', linkRule cfg skip tok fuel mk en offset st true = .ok (o, st') →
      Grow (st.pos + 1) st.posMax st.cache st'.cache := by
  have hpl := parseLink_grow (cfg := cfg) hq hs hg fuel st (st.pos + offset) en hi hb hle
  intro o st'
  unfold linkRule
  simp only
  cases hp : parseLink cfg skip fuel st (st.pos + offset) en with
  | error e => intro h; simp at h
  | ok p =>
    obtain ⟨o1, st1⟩ := p
    have hn1 := (hpl _ _ hp).mono_lo (by omega : st.pos + 1 ≤ st.pos + offset + 1)
    cases o1 with
    | none =>
      simp only
      intro h
      simp only [Except.ok.injEq, Prod.mk.injEq] at h; obtain ⟨_, rfl⟩ := h
      exact hn1
    | some res =>
      simp only [if_true]
      split
      · intro h; simp at h
      · intro h
        simp only [Except.ok.injEq, Prod.mk.injEq] at h; obtain ⟨_, rfl⟩ := h
        exact hn1

theorem runRule_silent_grow {cfg : Cfg} {skip tok : IState → Except Panic IState}
    (hq : CalmFn skip) (hs : SkipHypT skip) (hg : SkipGrowHyp skip) (fuel : Nat) (id : RuleId)
    (st : IState) (hi : LInv st) (hlt : st.pos < st.posMax) :
    ∀ o st', runRule cfg skip tok fuel id st true = .ok (o, st') →
      Grow (st.pos + 1) st.posMax st.cache st'.cache := by
  by_cases hflat : id.isFlat = true
  · intro o st' h
    rw [runRule_flat_cache hflat h]
    exact Grow.refl _ _ _
  · obtain ⟨w, hw, hsl, hlen⟩ := hi.window
    cases id with
    | link =>
      unfold runRule
      simp only
      unfold ruleLink
      rw [hw]
      simp only [liftR]
      cases w with
      | nil => simp only [byteLen] at hlen; omega
      | cons c rest =>
        simp only
        by_cases hcb : c = '['
        · subst hcb
          simp only [ne_eq, not_true_eq_false, if_false]
          obtain ⟨hb, hle⟩ := after_first (by decide) hsl
          exact linkRule_silent_grow (cfg := cfg) (tok := tok) hq hs hg fuel Val.link
            false 0 st hi hb hle
        · simp only [ne_eq, hcb, not_false_eq_true, if_true]
          intro o st' h
          simp only [Except.ok.injEq, Prod.mk.injEq] at h; obtain ⟨_, rfl⟩ := h
          exact Grow.refl _ _ _
    | image =>
      unfold runRule
      simp only
      unfold ruleImage
      rw [hw]
      simp only [liftR]
      split
      · next e heq => simp at heq
      · next r heq =>
        simp only [Except.ok.injEq] at heq
        subst heq
        obtain ⟨hb, hle⟩ := after_second (by decide) (by decide) hsl
        exact linkRule_silent_grow (cfg := cfg) (tok := tok) hq hs hg fuel Val.image
          true 1 st hi hb hle
      · intro o st' h
        simp only [Except.ok.injEq, Prod.mk.injEq] at h; obtain ⟨_, rfl⟩ := h
        exact Grow.refl _ _ _
    | _ => simp [RuleId.isFlat] at hflat

theorem silentBumped_grow {run : IState → Bool → RuleRes} {st : IState} {p : Nat}
    (h : ∀ o st', run { st with level := st.level + 1 } true = .ok (o, st') →
      Grow p st.posMax st.cache st'.cache) :
    ∀ o st', silentBumped run st = .ok (o, st') → Grow p st.posMax st.cache st'.cache := by
  intro o st'
  unfold silentBumped
  cases hr : run { st with level := st.level + 1 } true with
  | error e => intro h; simp at h
  | ok q =>
    obtain ⟨r, st1⟩ := q
    have hn1 := h r st1 hr
    simp only
    split
    · intro h; simp at h
    · intro h
      simp only [Except.ok.injEq, Prod.mk.injEq] at h; obtain ⟨_, rfl⟩ := h
      exact hn1

theorem firstRule_silent_grow {run : RuleId → IState → RuleRes}
    (hT : ∀ id s, LInv s → s.pos < s.posMax → SilT s (run id s))
    (hrun : ∀ id s, LInv s → s.pos < s.posMax → ∀ o s', run id s = .ok (o, s') →
      Grow (s.pos + 1) s.posMax s.cache s'.cache) :
    ∀ (rules : List RuleId) (st : IState), LInv st → st.pos < st.posMax →
      ∀ o st', firstRule run rules st = .ok (o, st') →
        Grow (st.pos + 1) st.posMax st.cache st'.cache := by
  intro rules
  induction rules with
  | nil =>
    intro st _ _ o st' h
    unfold firstRule at h
    simp only [Except.ok.injEq, Prod.mk.injEq] at h; obtain ⟨_, rfl⟩ := h
    exact Grow.refl _ _ _
  | cons r rs ih =>
    intro st hi hlt o st'
    have h1 := hT r st hi hlt
    have n1 := hrun r st hi hlt
    unfold firstRule
    cases hr : run r st with
    | error e => intro h; simp at h
    | ok q =>
      obtain ⟨o1, st1⟩ := q
      have hn1 := n1 o1 st1 hr
      cases o1 with
      | some n =>
        simp only
        intro h
        simp only [Except.ok.injEq, Prod.mk.injEq] at h; obtain ⟨_, rfl⟩ := h
        exact hn1
      | none =>
        simp only
        obtain ⟨a, b, c, _⟩ := h1.ok _ _ hr
        intro h
        have := ih st1 a (by rw [c, b.posMax]; exact hlt) o st' h
        rw [b.posMax, c] at this
        exact hn1.trans this

/-- one run of the chain in look-ahead mode inside `skip_token`, behind a failed `lookup` -/
theorem skipStep_grow {cfg : Cfg} {skip tok : IState → Except Panic IState}
    (hq : CalmFn skip) (hs : SkipHypT skip) (hg : SkipGrowHyp skip) (fuel : Nat) (st : IState)
    (hi : LInv st) (hlt : st.pos < st.posMax) (hmiss : st.cache.lookup st.pos = none) :
    ∀ st', skipStep cfg skip tok fuel st = .ok st' →
      Grow st.pos st.posMax st.cache st'.cache ∧ st'.cache.lookup st.pos = some st'.pos := by
  have hT : ∀ id s, LInv s → s.pos < s.posMax →
      SilT s (silentBumped (runRule cfg skip tok fuel id) s) := by
    intro id s his hls
    apply silentBumped_T
    exact runRule_silent_T hq hs fuel id _ ⟨his.le, his.bpos, his.bmax, his.wf, his.stop, his.memo⟩ hls
  have n1 := firstRule_silent_grow (run := fun id s => silentBumped (runRule cfg skip tok fuel id) s) hT
    (by
      intro id s his hls
      apply silentBumped_grow
      exact runRule_silent_grow hq hs hg fuel id _
        ⟨his.le, his.bpos, his.bmax, his.wf, his.stop, his.memo⟩ hls)
    cfg.chain st hi hlt
  have hstepT := skipStep_T (cfg := cfg) (tok := tok) hq hs fuel st hi hlt
  intro st' h
  have hle := (hstepT.ok st' h).2.2.1
  unfold skipStep at h
  simp only at h
  split at h
  · simp at h
  · next len st1 hfr1 =>
    simp only [Except.ok.injEq] at h; subst h
    exact ⟨(n1 _ _ hfr1).insert hle hmiss, lookup_cacheInsert_self _ _ _⟩
  · next st1 hfr1 =>
    split at h
    · simp at h
    · next ch hch =>
      simp only [Except.ok.injEq] at h; subst h
      exact ⟨(n1 _ _ hfr1).insert hle hmiss, lookup_cacheInsert_self _ _ _⟩

/-- **the guarded `skip_token` only grows the memo**, at or above its position and inside its frame,
    and its own jump is in the memo afterwards -/
theorem skip_grow (cfg : Cfg) : ∀ fuel : Nat, SkipGrowHyp (fun s => skipTokenG cfg true fuel s) := by
  intro fuel
  induction fuel with
  | zero => intro s _ _ s' h; simp [skipTokenG] at h
  | succ f ih =>
    intro s hi hlt s' h
    simp only at h
    unfold skipTokenG at h
    split at h
    · next x hx =>
      split at h
      · simp at h
      · simp only [Except.ok.injEq] at h; subst h
        exact ⟨Grow.refl _ _ _, hx⟩
    · next hmiss =>
      split at h
      · exact skipStep_grow (skipTokenG_calm cfg true f) (skipTokenG_T cfg f) ih f s hi hlt hmiss s' h
      · simp only [Except.ok.injEq] at h; subst h
        exact ⟨(Grow.refl (s.pos + 1) _ _).insert (Nat.le_refl _) hmiss, lookup_cacheInsert_self _ _ _⟩

/-- `parse_link` over the guarded `skip_token` at a fuel only grows the memo, from the label on -/
theorem parseLink_guard_grow (cfg : Cfg) (f fuel : Nat) (st : IState) (pos : Nat) (en : Bool)
    (hi : LInv st) (hb : Boundary st.src (pos + 1)) (hle : pos + 1 ≤ st.posMax) :
    ∀ o st', parseLink cfg (fun s => skipTokenG cfg true f s) fuel st pos en = .ok (o, st') →
      Grow (pos + 1) st.posMax st.cache st'.cache :=
  parseLink_grow (skipTokenG_calm cfg true f) (skipTokenG_T cfg f) (skip_grow cfg f) fuel st pos en hi
    hb hle

/-! ## examples: the hypotheses are satisfiable, and `Closed` is necessary -/

/-- the `Closed` hypothesis is NECESSARY: one memo entry at the position that ends beyond `pos_max`
    separates the guarded `skip_token` from the model's, at every configuration -/
example (cfg : Cfg) (s : IState) (x : Nat) (hx : s.cache.lookup s.pos = some x)
    (hbig : s.posMax < x) :
    skipTokenG cfg true 1 s = .error .fuel ∧ skipToken cfg 1 s = .ok { s with pos := x } := by
  constructor
  · unfold skipTokenG; rw [hx]; simp [hbig]
  · unfold skipToken; rw [hx]

example : ¬ Closed [(0, 5)] 0 2 := by
  intro h; have := h 0 5 (by simp) (by omega) (by omega); omega

/-- the initial state of EVERY inline run (empty memo) meets the hypotheses of `skip_guard_free`
    with `lo = 0`; so does the state behind the first `skip_token` (non-empty memo, still closed):
    two consecutive guarded look-ahead steps from the start of a paragraph are the model's -/
example (cfg : Cfg) (fuel : Nat) {content : List Char} {mapping : Srcmap}
    (hm : MapOK content mapping)
    (hlt : (IState.init content mapping).pos < (IState.init content mapping).posMax) :
    skipTokenG cfg true fuel (IState.init content mapping) =
      skipToken cfg fuel (IState.init content mapping) ∧
    ∀ s1, skipTokenG cfg true fuel (IState.init content mapping) = .ok s1 → s1.pos < s1.posMax →
      skipTokenG cfg true fuel s1 = skipToken cfg fuel s1 := by
  obtain ⟨lo, _, hg⟩ := init_good hm
  have hmB : MemoB (IState.init content mapping) := by intro k v h; simp [IState.init] at h
  have hi := hg.linv hmB
  have hcl : Closed (IState.init content mapping).cache 0 (IState.init content mapping).posMax :=
    Closed.nil _ _
  obtain ⟨e0, n0⟩ := skip_guard_free cfg fuel _ 0 hi hlt hcl (Nat.zero_le _)
  refine ⟨e0, ?_⟩
  intro s1 h1 hlt1
  obtain ⟨hm1, _, hle1, hb1⟩ := (skipTokenG_T cfg fuel _ hi hlt).ok s1 h1
  have hc1 := skipTokenG_calm cfg true fuel _ s1 h1
  have hi1 : LInv s1 := hi.step hc1 hm1 hle1 hb1
  exact (skip_guard_free cfg fuel s1 0 hi1 hlt1
    (by rw [hc1.posMax]; exact hcl.of_new (n0 s1 h1)) (Nat.zero_le _)).1

/-- … and the memo entry of that first step is there (`skip_grow`) -/
example (cfg : Cfg) (fuel : Nat) {content : List Char} {mapping : Srcmap}
    (hm : MapOK content mapping)
    (hlt : (IState.init content mapping).pos < (IState.init content mapping).posMax) :
    ∀ s1, skipTokenG cfg true fuel (IState.init content mapping) = .ok s1 →
      s1.cache.lookup (IState.init content mapping).pos = some s1.pos := by
  obtain ⟨lo, _, hg⟩ := init_good hm
  have hmB : MemoB (IState.init content mapping) := by intro k v h; simp [IState.init] at h
  intro s1 h1
  exact (skip_grow cfg fuel _ (hg.linv hmB) hlt s1 h1).2

end MdIt.Inline
