/-
  Helper development for `Props/Inline.lean`: source ranges, part 5 — emphasis-like pairs:
  `scan_and_match_delimiters` keeps the sibling list ordered, every wrapper it makes encloses the
  nodes it takes in, and no range arithmetic underflows.
-/
import MdIt.Lemmas.InlineRanges4

namespace MdIt.Inline
open MdIt.InlineOps (Srcmap getSourcePosFor getMap byteLen slice)
open MdIt.C05 (WFMap MonoMap byteLen_append slice_ok_iff)

/-- an ordered, well ranged sibling list inside `[lo, hi]` with sound markers -/
structure ListOK (lo hi : Nat) (l : List Node) : Prop where
  ord : OrderedN lo hi l
  deep : WellRangedList l
  markers : MarkersOK l

theorem MarkersOK.append {a b : List Node} (ha : MarkersOK a) (hb : MarkersOK b) : MarkersOK (a ++ b) := by
  intro n hn mk hmk
  rcases List.mem_append.mp hn with h | h
  · exact ha n h mk hmk
  · exact hb n h mk hmk

theorem MarkersOK.left {a b : List Node} (h : MarkersOK (a ++ b)) : MarkersOK a :=
  fun n hn => h n (List.mem_append_left _ hn)

theorem MarkersOK.right {a b : List Node} (h : MarkersOK (a ++ b)) : MarkersOK b :=
  fun n hn => h n (List.mem_append_right _ hn)

theorem markersOK_nil : MarkersOK [] := by intro n hn; simp at hn

theorem ListOK.append {lo mid hi : Nat} {a b : List Node} (ha : ListOK lo mid a) (hb : ListOK mid hi b) :
    ListOK lo hi (a ++ b) :=
  ⟨ha.ord.append hb.ord, ha.deep.append hb.deep, ha.markers.append hb.markers⟩

theorem ListOK.split {lo hi : Nat} {a b : List Node} (h : ListOK lo hi (a ++ b)) :
    ∃ mid, ListOK lo mid a ∧ ListOK mid hi b := by
  obtain ⟨mid, m1, m2⟩ := h.ord.split
  exact ⟨mid, ⟨m1, h.deep.left, h.markers.left⟩, ⟨m2, h.deep.right, h.markers.right⟩⟩

theorem ListOK.widen {lo hi lo' hi' : Nat} {l : List Node} (h : ListOK lo hi l) (h1 : lo' ≤ lo)
    (h2 : hi ≤ hi') : ListOK lo' hi' l :=
  ⟨h.ord.widen h1 h2, h.deep, h.markers⟩

theorem listOK_nil {lo hi : Nat} (h : lo ≤ hi) : ListOK lo hi [] := ⟨h, trivial, markersOK_nil⟩

/-- a list splits around the element at an index -/
theorem split_at_getElem? {α : Type} {l : List α} {i : Nat} {x : α} (h : l[i]? = some x) :
    l = l.take i ++ [x] ++ l.drop (i + 1) ∧ (l.take i).length = i := by
  have hi : i < l.length := by
    rcases Nat.lt_or_ge i l.length with h' | h'
    · exact h'
    · rw [List.getElem?_eq_none h'] at h; simp at h
  rw [List.getElem?_eq_getElem hi] at h
  simp only [Option.some.injEq] at h
  refine ⟨?_, by simp; omega⟩
  rw [← h]
  simp

/-- the closer part of the matching state: its remaining delimiters fit into its range, which
    starts at or behind `mid` (the end of the list before it) and ends at or before `hi` -/
def CloserOK (hi mid : Nat) (ms : MatchSt) : Prop :=
  ∃ s e, ms.closerRange = some (s, e) ∧ mid ≤ s ∧ s + ms.closer.remaining ≤ e ∧ e ≤ hi

/-- "nothing matched yet, or the list ends in a wrapper" -/
def LastFlag (r0 : Nat) (ms : MatchSt) : Prop :=
  ms.closer.remaining = r0 ∨ ∀ init last, ms.children = init ++ [last] → last.isText = false

/-- the shape of the children while the opener at `idx` (range start `oS`) is being matched:
    the nodes before it, the opener token unless it has been used up, and what follows -/
def IShape (lo hi r0 : Nat) (pre : List Node) (oS : Nat) (opener : Marker) (ms : MatchSt) : Prop :=
  ∃ oE mid tail, ListOK oE mid tail ∧ CloserOK hi mid ms ∧ oS + opener.remaining ≤ oE ∧
    LastFlag r0 ms ∧
    ((0 < opener.remaining ∧ ∃ otok : Node, otok.range = some (oS, oE) ∧ otok.children = [] ∧
        ms.children = pre ++ [otok] ++ tail) ∨
     (opener.remaining = 0 ∧ tail ≠ [] ∧ ms.children = pre ++ tail))

theorem pickLen_le {fns : Nat → Option Wrap} {n ml : Nat} {w : Wrap} (h : pickLen fns n = some (ml, w)) :
    1 ≤ ml ∧ ml ≤ n := by
  induction n with
  | zero => simp [pickLen] at h
  | succ n ih =>
    unfold pickLen at h
    split at h
    · simp only [Option.some.injEq, Prod.mk.injEq] at h; omega
    · have := ih h; omega

theorem wrap_not_text {w : Wrap} {mk : Char} {r : Option (Nat × Nat)} {cs : List Node} :
    (Node.mk (.wrap w mk) r cs).isText = false := rfl

theorem matchInner_ranges {lo hi r0 : Nat} {fns : Nat → Option Wrap} {mk : Char} {room : Nat}
    {pre : List Node} {oS : Nat} (hpre : ListOK lo oS pre) :
    ∀ (fuel : Nat) (opener : Marker) (ms : MatchSt) (opener' : Marker) (ms' : MatchSt),
      matchInner fns mk room pre.length fuel opener ms = .ok (opener', ms') →
      IShape lo hi r0 pre oS opener ms → IShape lo hi r0 pre oS opener' ms' := by
  intro fuel
  induction fuel with
  | zero =>
    intro opener ms opener' ms' h hs
    simp only [matchInner, Except.ok.injEq, Prod.mk.injEq] at h
    obtain ⟨rfl, rfl⟩ := h; exact hs
  | succ fuel ih =>
    intro opener ms opener' ms' h hs
    unfold matchInner at h
    split at h
    · next hpos =>
      split at h
      · simp only [Except.ok.injEq, Prod.mk.injEq] at h
        obtain ⟨rfl, rfl⟩ := h; exact hs
      simp only at h
      split at h
      · simp only [Except.ok.injEq, Prod.mk.injEq] at h
        obtain ⟨rfl, rfl⟩ := h; exact hs
      · next ml w hpick =>
        obtain ⟨hml1, hml2⟩ := pickLen_le hpick
        obtain ⟨oE, mid, tail, htail, ⟨s, e, hcr, hms, hse, hehi⟩, hoE, hflag, hshape⟩ := hs
        rcases hshape with ⟨_, otok, hor, hoc, hch⟩ | ⟨h0, _, _⟩
        · split at h
          · simp at h
          · split at h
            · simp at h
            · -- `head = pre ++ [otok]`, `tail` moves into the wrapper
              have hlen : pre.length + 1 = (pre ++ [otok]).length := by simp
              have htake : ms.children.take (pre.length + 1) = pre ++ [otok] := by
                rw [hch, hlen, List.take_left]
              have hdrop : ms.children.drop (pre.length + 1) = tail := by
                rw [hch, hlen, List.drop_left]
              have hoEmid := htail.ord.le
              rw [htake, hdrop, popLast_snoc, hcr] at h
              simp only [hor] at h
              split at h
              · simp at h
              · next otok' smp hcut =>
                split at hcut
                · simp at hcut
                · next hnu =>
                  simp only [Except.ok.injEq, Prod.mk.injEq] at hcut
                  obtain ⟨rfl, rfl⟩ := hcut
                  apply ih _ _ _ _ h
                  -- the state after one match
                  have hwrap : WellRanged (Node.mk (.wrap w mk) (some (oE - ml, s + ml)) tail) := by
                    rw [WellRanged_eq]
                    refine ⟨⟨oE - ml, s + ml, rfl, by omega, ?_⟩, htail.deep⟩
                    exact htail.ord.widen (by omega) (by omega)
                  have htl : ListOK (oE - ml) (s + ml) [Node.mk (.wrap w mk) (some (oE - ml, s + ml)) tail] := by
                    refine ⟨orderedN_single rfl (Nat.le_refl _) (by omega) (Nat.le_refl _),
                      WellRangedList.single hwrap, ?_⟩
                    intro n hn mk' hmk'
                    simp only [List.mem_singleton] at hn; subst hn
                    simp [Node.asMarker] at hmk'
                  refine ⟨oE - ml, s + ml, _, htl, ⟨s + ml, e, rfl, Nat.le_refl _, ?_, hehi⟩, ?_, ?_, ?_⟩
                  · simp only; omega
                  · simp only; omega
                  · right
                    intro init last hl
                    simp only at hl
                    by_cases hz : opener.remaining - ml = 0
                    · simp only [hz, if_true] at hl
                      obtain ⟨_, rfl⟩ := snoc_inj hl; rfl
                    · simp only [hz, if_false] at hl
                      obtain ⟨_, rfl⟩ := snoc_inj hl; rfl
                  · by_cases hz : opener.remaining - ml = 0
                    · right
                      refine ⟨hz, by simp, ?_⟩
                      simp only [hz, if_true]
                    · left
                      refine ⟨by simp only; omega, Node.mk otok.val (some (oS, oE - ml)) otok.children,
                        rfl, hoc, ?_⟩
                      simp only [hz, if_false]
        · omega
    · simp only [Except.ok.injEq, Prod.mk.injEq] at h
      obtain ⟨rfl, rfl⟩ := h; exact hs

/-! ## the outer loop -/

/-- the invariant of the outer loop -/
def MInv (lo hi r0 : Nat) (ms : MatchSt) : Prop :=
  ∃ mid, ListOK lo mid ms.children ∧ CloserOK hi mid ms ∧ LastFlag r0 ms

theorem getElem?_mid {α : Type} (pre : List α) (x : α) (t : List α) :
    (pre ++ [x] ++ t)[pre.length]? = some x := by
  simp

theorem set_mid {α : Type} (pre : List α) (x y : α) (t : List α) :
    (pre ++ [x] ++ t).set pre.length y = pre ++ [y] ++ t := by
  simp

theorem marker_toVal_asMarker (m : Marker) (r : Option (Nat × Nat)) (cs : List Node) :
    (Node.mk m.toVal r cs).asMarker = some m := by
  cases m; rfl

theorem marker_toVal_isText (m : Marker) (r : Option (Nat × Nat)) (cs : List Node) :
    (Node.mk m.toVal r cs).isText = false := by
  cases m; rfl

/-- replacing a middle element by a non-text keeps "the list does not end in a text" -/
theorem last_not_text_set {pre t : List Node} {x y : Node} (hy : y.isText = false)
    (h : ∀ init last, pre ++ [x] ++ t = init ++ [last] → last.isText = false) :
    ∀ init last, pre ++ [y] ++ t = init ++ [last] → last.isText = false := by
  intro init last hl
  rcases List.eq_nil_or_concat t with rfl | ⟨t', z, ht⟩
  · simp only [List.append_nil] at hl
    obtain ⟨_, rfl⟩ := snoc_inj hl; exact hy
  · rw [List.concat_eq_append] at ht; subst ht
    have e1 : pre ++ [y] ++ (t' ++ [z]) = (pre ++ [y] ++ t') ++ [z] := by simp
    rw [e1] at hl
    obtain ⟨_, rfl⟩ := snoc_inj hl
    exact h (pre ++ [x] ++ t') z (by simp)

theorem matchOuter_ranges {lo hi r0 : Nat} {fns : Nat → Option Wrap} {mk : Char} (room minIdx : Nat) :
    ∀ (k : Nat) (ms ms' : MatchSt), matchOuter fns mk room minIdx k ms = .ok ms' →
      MInv lo hi r0 ms → MInv lo hi r0 ms' := by
  intro k
  induction k with
  | zero =>
    intro ms ms' h hm
    simp only [matchOuter, Except.ok.injEq] at h; subst h; exact hm
  | succ k ih =>
    intro ms ms' h hm
    unfold matchOuter at h
    simp only at h
    split at h
    · simp at h
    next nxt hnxt =>
    -- the depth bookkeeping does not touch what `MInv` / `IShape` talk about
    have hm' : MInv lo hi r0 { ms with innerDepth := max ms.innerDepth (wrapDepth nxt) } := hm
    split at h
    · simp at h
    · next tok htok =>
      split at h
      · exact ih _ _ h hm'
      · next opener hop =>
        obtain ⟨mid, hlist, hcl, hflag⟩ := hm
        obtain ⟨hsplit, hlen⟩ := split_at_getElem? htok
        obtain ⟨pre, hpredef⟩ : ∃ pre, pre = ms.children.take (minIdx + k) := ⟨_, rfl⟩
        obtain ⟨tl, htldef⟩ : ∃ tl, tl = ms.children.drop (minIdx + k + 1) := ⟨_, rfl⟩
        rw [← hpredef] at hlen
        rw [← hpredef, ← htldef] at hsplit
        -- the three parts of the list
        have hl3 := hlist
        rw [hsplit] at hl3
        obtain ⟨y, hl12, hltail⟩ := hl3.split
        obtain ⟨x, hlpre, hltok⟩ := hl12.split
        obtain ⟨hch, hrem, oS, oE, hor, hfit⟩ :=
          hlist.markers tok (List.mem_of_getElem? htok) opener hop
        obtain ⟨a, b, hab, hxa, _, hby⟩ := hltok.ord
        rw [hor] at hab; simp only [Option.some.injEq, Prod.mk.injEq] at hab
        obtain ⟨rfl, rfl⟩ := hab
        simp only [OrderedN] at hby
        have hpre : ListOK lo oS pre := hlpre.widen (Nat.le_refl _) hxa
        have htail : ListOK oE mid tl := hltail.widen hby (Nat.le_refl _)
        -- the shape before the inner loop
        have hshape0 : IShape lo hi r0 pre oS opener
            { ms with innerDepth := max ms.innerDepth (wrapDepth nxt) } :=
          ⟨oE, mid, _, htail, hcl, hfit, hflag, Or.inl ⟨hrem, tok, hor, hch, hsplit⟩⟩
        split at h
        · simp at h
        · next opener' ms1 hgo =>
          have hshape : IShape lo hi r0 pre oS opener' ms1 := by
            split at hgo
            · rw [← hlen] at hgo
              exact matchInner_ranges hpre _ _ _ _ _ hgo hshape0
            · simp only [Except.ok.injEq, Prod.mk.injEq] at hgo
              obtain ⟨rfl, rfl⟩ := hgo; exact hshape0
          obtain ⟨oE', mid', tail', htail', hcl', hfit', hflag', hsh⟩ := hshape
          split at h
          · next hpos =>
            split at h
            · simp at h
            · next cs hrep =>
              apply ih _ _ h
              rcases hsh with ⟨_, otok', hor', hoc', hch'⟩ | ⟨h0, _, _⟩
              · -- the opener token gets its new value
                unfold replaceAt at hrep
                rw [hch', ← hlen, getElem?_mid] at hrep
                simp only [Except.ok.injEq] at hrep
                rw [set_mid] at hrep
                subst hrep
                have hnew : ListOK oS oE' [Node.mk opener'.toVal otok'.range otok'.children] := by
                  refine ⟨orderedN_single hor' (Nat.le_refl _) (by omega) (Nat.le_refl _),
                    WellRangedList.single ?_, ?_⟩
                  · rw [WellRanged_eq]; simp only [hoc']
                    exact ⟨⟨oS, oE', hor', by omega, by simp only [OrderedN]; omega⟩, trivial⟩
                  · intro n hn mk' hmk'
                    simp only [List.mem_singleton] at hn; subst hn
                    rw [marker_toVal_asMarker] at hmk'
                    simp only [Option.some.injEq] at hmk'; subst hmk'
                    exact ⟨hoc', hpos, oS, oE', hor', hfit'⟩
                refine ⟨mid', (hpre.append hnew).append htail', hcl', ?_⟩
                rcases hflag' with hf | hf
                · left; exact hf
                · right
                  rw [hch'] at hf
                  exact last_not_text_set (marker_toVal_isText _ _ _) hf
              · omega
          · next hpos =>
            apply ih _ _ h
            rcases hsh with ⟨hp, _⟩ | ⟨h0, _, hch'⟩
            · omega
            · refine ⟨mid', ?_, hcl', hflag'⟩
              rw [hch']
              exact hpre.append (htail'.widen (by omega) (Nat.le_refl _))

/-! ## `scan_and_match_delimiters`, the rule -/

theorem scanAndMatch_ranges {src : List Char} {m : Srcmap} {lo pos : Nat} {fns : Nat → Option Wrap}
    {mk : Char} {room : Nat} {cs out : List Node} {b b' : List (Char × List Nat)}
    (hi : RI src m lo pos cs) (h : scanAndMatch fns mk room cs b = .ok (out, b'))
    (hlast : ∀ init last, cs = init ++ [last] → last.asMarker ≠ none) : RI src m lo pos out := by
  unfold scanAndMatch at h
  split at h
  · simp only [Except.ok.injEq, Prod.mk.injEq] at h; rw [← h.1]; exact hi
  · split at h
    · simp at h
    · next init closerTok hpop =>
      have hcs : cs = init ++ [closerTok] := by
        rcases popLast_spec cs with ⟨hp, _⟩ | ⟨i, l, hp, hl⟩
        · rw [hp] at hpop; simp at hpop
        · rw [hp] at hpop; simp only [Option.some.injEq, Prod.mk.injEq] at hpop
          rw [hl, hpop.1, hpop.2]
      subst hcs
      split at h
      · simp at h
      · next closer hcl =>
        obtain ⟨hT, hhT, hord⟩ := hi.ord
        obtain ⟨hcc, hrem, cS, cE, hcr, hfit⟩ := hi.markers closerTok (by simp) closer hcl
        obtain ⟨a, b0, hab, hinit, _, hbT⟩ := hord.last
        rw [hcr] at hab; simp only [Option.some.injEq, Prod.mk.injEq] at hab
        obtain ⟨rfl, rfl⟩ := hab
        simp only at h
        split at h
        · simp at h
        · split at h
          · simp at h
          · split at h
            · simp at h
            · next ms hms =>
              have hm0 : MInv lo hT closer.remaining
                  { closer := closer, closerRange := closerTok.range, children := init,
                    newMin := init.length - 1 } :=
                ⟨cS, ⟨hinit, hi.deep.left, hi.markers.left⟩, ⟨cS, cE, hcr, Nat.le_refl _, hfit, hbT⟩,
                  Or.inl rfl⟩
              obtain ⟨mid, hlist, ⟨s, e, hcr', hms', hfit', heT⟩, hflag⟩ :=
                matchOuter_ranges _ _ _ _ _ hms hm0
              split at h
              · next hpos =>
                simp only [Except.ok.injEq, Prod.mk.injEq] at h; rw [← h.1]
                have hse : s ≤ e := by omega
                refine ⟨⟨hT, hhT, hlist.ord.snoc (n := Node.mk ms.closer.toVal ms.closerRange
                    closerTok.children) hcr' hms' hse heT⟩,
                  hlist.deep.append (WellRangedList.single ?_), hlist.markers.append ?_, ?_⟩
                · rw [WellRanged_eq]; simp only [hcc]
                  exact ⟨⟨s, e, hcr', hse, by simp only [OrderedN]; exact hse⟩, trivial⟩
                · intro n hn mk' hmk'
                  simp only [List.mem_singleton] at hn; subst hn
                  rw [marker_toVal_asMarker] at hmk'
                  simp only [Option.some.injEq] at hmk'; subst hmk'
                  exact ⟨hcc, hpos, s, e, hcr', hfit'⟩
                · intro init' last' hcs' hlt'
                  obtain ⟨_, rfl⟩ := snoc_inj hcs'
                  rw [marker_toVal_isText] at hlt'; cases hlt'
              · next hpos =>
                simp only [Except.ok.injEq, Prod.mk.injEq] at h; rw [← h.1]
                refine ⟨⟨hT, hhT, hlist.ord.widen (Nat.le_refl _) (by omega)⟩, hlist.deep, hlist.markers, ?_⟩
                intro init' last' hcs' hlt'
                rcases hflag with hf | hf
                · omega
                · rw [hf init' last' hcs'] at hlt'; cases hlt'

theorem ruleEmph_ranges {cfg : Cfg} {mk : Char} {csw : Bool} {lo : Nat} {st st' : IState}
    {o : Option Nat} (hm : MapOK st.src st.srcmap) (hi : RInv lo st)
    (h : ruleEmph cfg mk csw st false = .ok (o, st')) : StepRI lo st o st' := by
  unfold ruleEmph at h
  simp only [Bool.false_eq_true, if_false] at h
  split at h
  · simp at h
  · simp at h
  · split at h
    · simp only [Except.ok.injEq, Prod.mk.injEq] at h; obtain ⟨rfl, rfl⟩ := h; exact stepRI_same hi
    · split at h
      · simp at h
      · next scanned hsc =>
        obtain ⟨_, _, _, _, hlen⟩ := scanDelims_length hsc
        split at h
        · simp at h
        · next r hr =>
          obtain ⟨rx, ry⟩ := r
          obtain ⟨e1, e2, _⟩ := getMap_eq hr
          -- the state with the marker pushed, at the position behind the run
          have hexp := translate_expand st.srcmap hm.wf hm.mono st.pos (st.pos + scanned.length)
            (by omega) rx ry e1 e2
          obtain ⟨hT, hhT, hord⟩ := hi.ord
          rw [e1] at hhT; simp only [Except.ok.injEq] at hhT; subst hhT
          have hpushed : RI st.src st.srcmap lo (st.pos + scanned.length)
              (st.children ++ [Node.leaf (.emphMarker mk scanned.length scanned.length scanned.canOpen
                scanned.canClose) (some (rx, ry))]) := by
            refine ⟨⟨ry, e2, hord.snoc (n := Node.leaf _ (some (rx, ry))) rfl (Nat.le_refl _) (by omega)
                (Nat.le_refl _)⟩,
              hi.deep.append (WellRangedList.single (wellRanged_leaf (by omega))),
              hi.markers.append ?_, ?_⟩
            · intro n hn mk' hmk'
              simp only [List.mem_singleton] at hn; subst hn
              simp only [Node.leaf, Node.asMarker, Option.some.injEq] at hmk'
              subst hmk'
              exact ⟨rfl, by simp only; omega, rx, ry, rfl, by simp only; omega⟩
            · intro init' last' hcs' hlt'
              obtain ⟨_, rfl⟩ := snoc_inj hcs'
              cases hlt'
          split at h
          · split at h
            · simp at h
            · next cs b hsm =>
              simp only [Except.ok.injEq, Prod.mk.injEq] at h; obtain ⟨rfl, rfl⟩ := h
              unfold StepRI
              simp only [Option.getD_some, IState.push]
              apply scanAndMatch_ranges hpushed hsm
              intro init last hl
              obtain ⟨_, rfl⟩ := snoc_inj hl
              simp [Node.leaf, Node.asMarker]
          · simp only [Except.ok.injEq, Prod.mk.injEq] at h; obtain ⟨rfl, rfl⟩ := h
            unfold StepRI
            simp only [Option.getD_some, IState.push]
            exact hpushed

end MdIt.Inline
