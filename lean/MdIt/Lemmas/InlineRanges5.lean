/-
  Helper development for `Props/Inline.lean`: source ranges, part 5 — emphasis-like pairs:
  `scan_and_match_delimiters` keeps the sibling list ordered, every wrapper it makes encloses the
  nodes it takes in, and no range arithmetic underflows.
-/
import MdIt.Lemmas.InlineRanges4

namespace MdIt.Inline
open MdIt.InlineOps (Srcmap getSourcePosFor getMap byteLen slice)
open MdIt.C05 (WFMap MonoMap byteLen_append slice_ok_iff)

/-- an ordered, well ranged sibling list inside `[lo, hi]` with sound markers -/
structure ListOK (lo hi : Nat) (l : List Node) : Prop where
  ord : OrderedN lo hi l
  deep : WellRangedList l
  markers : MarkersOK l

theorem MarkersOK.append {a b : List Node} (ha : MarkersOK a) (hb : MarkersOK b) : MarkersOK (a ++ b) := by
  intro n hn mk hmk
  rcases List.mem_append.mp hn with h | h
  · exact ha n h mk hmk
  · exact hb n h mk hmk

theorem MarkersOK.left {a b : List Node} (h : MarkersOK (a ++ b)) : MarkersOK a :=
  fun n hn => h n (List.mem_append_left _ hn)

theorem MarkersOK.right {a b : List Node} (h : MarkersOK (a ++ b)) : MarkersOK b :=
  fun n hn => h n (List.mem_append_right _ hn)

theorem markersOK_nil : MarkersOK [] := by intro n hn; simp at hn

theorem ListOK.append {lo mid hi : Nat} {a b : List Node} (ha : ListOK lo mid a) (hb : ListOK mid hi b) :
    ListOK lo hi (a ++ b) :=
  ⟨ha.ord.append hb.ord, ha.deep.append hb.deep, ha.markers.append hb.markers⟩

theorem ListOK.split {lo hi : Nat} {a b : List Node} (h : ListOK lo hi (a ++ b)) :
    ∃ mid, ListOK lo mid a ∧ ListOK mid hi b := by
  obtain ⟨mid, m1, m2⟩ := h.ord.split
  exact ⟨mid, ⟨m1, h.deep.left, h.markers.left⟩, ⟨m2, h.deep.right, h.markers.right⟩⟩

theorem ListOK.widen {lo hi lo' hi' : Nat} {l : List Node} (h : ListOK lo hi l) (h1 : lo' ≤ lo)
    (h2 : hi ≤ hi') : ListOK lo' hi' l :=
  ⟨h.ord.widen h1 h2, h.deep, h.markers⟩

theorem listOK_nil {lo hi : Nat} (h : lo ≤ hi) : ListOK lo hi [] := ⟨h, trivial, markersOK_nil⟩

/-- a list splits around the element at an index -/
theorem split_at_getElem? {α : Type} {l : List α} {i : Nat} {x : α} (h : l[i]? = some x) :
    l = l.take i ++ [x] ++ l.drop (i + 1) ∧ (l.take i).length = i := by
  have hi : i < l.length := by
    rcases Nat.lt_or_ge i l.length with h' | h'
    · exact h'
    · rw [List.getElem?_eq_none h'] at h; simp at h
  rw [List.getElem?_eq_getElem hi] at h
  simp only [Option.some.injEq] at h
  refine ⟨?_, by simp; omega⟩
  rw [← h]
  simp

/-- the closer part of the matching state: its remaining delimiters fit into its range, which
    starts at or behind `mid` (the end of the list before it) and ends at or before `hi` -/
def CloserOK (hi mid : Nat) (ms : MatchSt) : Prop :=
  ∃ s e, ms.closerRange = some (s, e) ∧ mid ≤ s ∧ s + ms.closer.remaining ≤ e ∧ e ≤ hi

/-- "nothing matched yet, or the list ends in a wrapper" -/
def LastFlag (r0 : Nat) (ms : MatchSt) : Prop :=
  ms.closer.remaining = r0 ∨ ∀ init last, ms.children = init ++ [last] → last.isText = false

/-- the shape of the children while the opener at `idx` (range start `oS`) is being matched:
    the nodes before it, the opener token unless it has been used up, and what follows -/
def IShape (lo hi r0 : Nat) (pre : List Node) (oS : Nat) (opener : Marker) (ms : MatchSt) : Prop :=
  ∃ oE mid tail, ListOK oE mid tail ∧ CloserOK hi mid ms ∧ oS + opener.remaining ≤ oE ∧
    LastFlag r0 ms ∧
    ((0 < opener.remaining ∧ ∃ otok : Node, otok.range = some (oS, oE) ∧ otok.children = [] ∧
        ms.children = pre ++ [otok] ++ tail) ∨
     (opener.remaining = 0 ∧ ms.children = pre ++ tail))

theorem pickLen_le {fns : Nat → Option Wrap} {n ml : Nat} {w : Wrap} (h : pickLen fns n = some (ml, w)) :
    1 ≤ ml ∧ ml ≤ n := by
  induction n with
  | zero => simp [pickLen] at h
  | succ n ih =>
    unfold pickLen at h
    split at h
    · simp only [Option.some.injEq, Prod.mk.injEq] at h; omega
    · have := ih h; omega

theorem wrap_not_text {w : Wrap} {mk : Char} {r : Option (Nat × Nat)} {cs : List Node} :
    (Node.mk (.wrap w mk) r cs).isText = false := rfl

theorem matchInner_ranges {lo hi r0 : Nat} {fns : Nat → Option Wrap} {mk : Char} {pre : List Node}
    {oS : Nat} (hpre : ListOK lo oS pre) :
    ∀ (fuel : Nat) (opener : Marker) (ms : MatchSt) (opener' : Marker) (ms' : MatchSt),
      matchInner fns mk pre.length fuel opener ms = .ok (opener', ms') →
      IShape lo hi r0 pre oS opener ms → IShape lo hi r0 pre oS opener' ms' := by
  intro fuel
  induction fuel with
  | zero =>
    intro opener ms opener' ms' h hs
    simp only [matchInner, Except.ok.injEq, Prod.mk.injEq] at h
    obtain ⟨rfl, rfl⟩ := h; exact hs
  | succ fuel ih =>
    intro opener ms opener' ms' h hs
    unfold matchInner at h
    split at h
    · next hpos =>
      simp only at h
      split at h
      · simp only [Except.ok.injEq, Prod.mk.injEq] at h
        obtain ⟨rfl, rfl⟩ := h; exact hs
      · next ml w hpick =>
        obtain ⟨hml1, hml2⟩ := pickLen_le hpick
        obtain ⟨oE, mid, tail, htail, ⟨s, e, hcr, hms, hse, hehi⟩, hoE, hflag, hshape⟩ := hs
        rcases hshape with ⟨_, otok, hor, hoc, hch⟩ | ⟨h0, _⟩
        · split at h
          · simp at h
          · split at h
            · simp at h
            · -- `head = pre ++ [otok]`, `tail` moves into the wrapper
              have hlen : pre.length + 1 = (pre ++ [otok]).length := by simp
              have htake : ms.children.take (pre.length + 1) = pre ++ [otok] := by
                rw [hch, hlen, List.take_left]
              have hdrop : ms.children.drop (pre.length + 1) = tail := by
                rw [hch, hlen, List.drop_left]
              have hoEmid := htail.ord.le
              rw [htake, hdrop, popLast_snoc, hcr] at h
              simp only [hor] at h
              split at h
              · simp at h
              · next otok' smp hcut =>
                split at hcut
                · simp at hcut
                · next hnu =>
                  simp only [Except.ok.injEq, Prod.mk.injEq] at hcut
                  obtain ⟨rfl, rfl⟩ := hcut
                  apply ih _ _ _ _ h
                  -- the state after one match
                  have hwrap : WellRanged (Node.mk (.wrap w mk) (some (oE - ml, s + ml)) tail) := by
                    rw [WellRanged_eq]
                    refine ⟨⟨oE - ml, s + ml, rfl, by omega, ?_⟩, htail.deep⟩
                    exact htail.ord.widen (by omega) (by omega)
                  have htl : ListOK (oE - ml) (s + ml) [Node.mk (.wrap w mk) (some (oE - ml, s + ml)) tail] := by
                    refine ⟨orderedN_single rfl (Nat.le_refl _) (by omega) (Nat.le_refl _),
                      WellRangedList.single hwrap, ?_⟩
                    intro n hn mk' hmk'
                    simp only [List.mem_singleton] at hn; subst hn
                    simp [Node.asMarker] at hmk'
                  refine ⟨oE - ml, s + ml, _, htl, ⟨s + ml, e, rfl, Nat.le_refl _, ?_, hehi⟩, ?_, ?_, ?_⟩
                  · simp only; omega
                  · simp only; omega
                  · right
                    intro init last hl
                    simp only at hl
                    by_cases hz : opener.remaining - ml = 0
                    · simp only [hz, if_true] at hl
                      obtain ⟨_, rfl⟩ := snoc_inj hl; rfl
                    · simp only [hz, if_false] at hl
                      obtain ⟨_, rfl⟩ := snoc_inj hl; rfl
                  · by_cases hz : opener.remaining - ml = 0
                    · right
                      refine ⟨hz, ?_⟩
                      simp only [hz, if_true]
                    · left
                      refine ⟨by simp only; omega, Node.mk otok.val (some (oS, oE - ml)) otok.children,
                        rfl, hoc, ?_⟩
                      simp only [hz, if_false]
                      simp
        · omega
    · simp only [Except.ok.injEq, Prod.mk.injEq] at h
      obtain ⟨rfl, rfl⟩ := h; exact hs

end MdIt.Inline
