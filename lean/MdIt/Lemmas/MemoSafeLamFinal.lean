/-
  Helper development for `Props/MemoSafe.lean`, second part: the assembly.

    * `entryP_NF`      — a nested frame entered from the top frame satisfies `NF` (the entry side of
                         `Lemmas/MemoSafeLamTop.lean`);
    * `flatL2_holds`, `realKeeps_holds`, `emphL2_holds`, `parseLinkL2Part_link` — the per-rule
                         comparison statements of `Lemmas/MemoSafeLamNF.lean`, proved;
    * `nestHyps_of`    — the hypotheses of the nested induction for a coherent chain without the
                         code-span rule and without the image rule;
    * `parseInline_total_link` — **`md.inline.parse` is total** for such chains.
-/
import MdIt.Lemmas.MemoSafeLamTop
import MdIt.Lemmas.MemoSafeLamBack
import MdIt.Lemmas.MemoSafeLamLink
import MdIt.Lemmas.MemoSafeLamNest

namespace MdIt.Inline
open MdIt.InlineOps (Srcmap getSourcePosFor getMap byteLen slice)

variable {cfg : Cfg} {B : List Char → CodePair.Cache → Prop} {src : List Char} {Mtop : Nat}

/-- **a nested frame entered from the top frame satisfies `NF`** -/
theorem entryP_NF (f : Nat) :
    EntryP cfg B src Mtop (fun s => skipTokenG cfg true f s) (NF cfg B src Mtop) := by
  intro lo st offset en fuel res st1 hg hm htop hb hle hpl htop1
  have hq := skipTokenG_calm cfg true f
  have hs := skipTokenG_T cfg f
  have hgr := skip_grow cfg f
  have hi := hg.linv hm
  obtain ⟨hi1, hc1, _, hres⟩ := (parseLink_T (cfg := cfg) hq hs fuel st (st.pos + offset) en hi hb hle).2
    _ _ hpl
  have hR := hres res rfl
  obtain ⟨rx, hrx⟩ := hR.bracket
  obtain ⟨hls, hrec⟩ := parseLink_records (cfg := cfg) hq hs hgr fuel st (st.pos + offset) en hi hb hle
    res st1 hpl
  have hsrc : st.src = src := htop.hsrc
  have hmax : st.posMax = Mtop := htop.hmax
  refine ⟨⟨?_, ?_, ?_, htop1.just⟩, htop1.hsrc, htop1.back, ?_, ?_, ?_⟩
  · rw [← hsrc, ← hmax]; exact hg.bmax
  · rw [← hsrc, ← hmax]; exact hg.stop
  · intro k v hkv
    have := hi1.memo k v hkv
    rw [htop1.hsrc] at this
    exact this
  · obtain ⟨lo', hg', _⟩ := nested_good (cfg := cfg) hq hs hg hm hb hle hpl
    exact ⟨lo', hg'⟩
  · rw [← hsrc, ← hmax]; exact ⟨rx, hrx⟩
  · have := hrec st1.cache (LookupMono.refl _)
    rw [hsrc, hmax] at this
    refine ⟨en, fuel, 1, Int.le_refl _, ?_⟩
    show pwalk src Mtop st1.cache en fuel 1 res.labelStart = .done (some true) res.labelEnd
    rw [hls]
    exact this

theorem flatL2_holds (cfg : Cfg) : FlatL2 cfg :=
  fun _ _ _ _ _ _ id hid _ _ h hstop hsrc hpos => flat_L2 id hid h hstop hsrc hpos

theorem realKeeps_holds (cfg : Cfg) : RealKeeps cfg := by
  intro skip tok fuel id hf s o s' h
  obtain ⟨a, b, c, d, e⟩ := flat_keeps hf h
  exact ⟨a, b, c, d, e, fun hne => runRule_backticks_unchanged hne hf h⟩

theorem emphL2_holds (cfg : Cfg) : EmphL2 cfg := by
  intro mk csw hmk s o s' h
  obtain ⟨h1, h2⟩ := emph_real_L2 hmk h
  refine ⟨h1, ?_⟩
  intro rest hw
  obtain ⟨n, a, _, b, c, d⟩ := h2 rest hw
  exact ⟨n, a, b, c, d⟩

/-- `ParseLinkL2` for the link rule -/
theorem parseLinkL2Part_link (cfg : Cfg) (B : List Char → CodePair.Cache → Prop) (src : List Char)
    (Mtop : Nat) : ParseLinkL2Part cfg B src Mtop 0 false := by
  intro skip0 f0 w w1 r0 s v hq hs hg hiw hwsrc hwmax hwpos hwit hmono hnf hlt hlk hv hhead hnone hsome n
  have hh : ∃ rest, slice src s.pos Mtop = .ok ('[' :: rest) := by
    rcases hhead with ⟨_, _, h⟩ | ⟨h, _, _⟩
    · exact h
    · cases h
  exact parseLinkL2_link skip0 f0 w w1 r0 s v hq hs hg hiw hwsrc hwmax hwpos hwit hmono hnf hlt hlk hv
    hh hnone hsome n

/-- the hypotheses of the nested induction, for a coherent chain without the code-span rule and
    without the image rule (and with the link rule at most once) -/
theorem nestHyps_of (cfg : Cfg) (src : List Char) (Mtop : Nat) (hc : ChainCoherent cfg = true)
    (hnb : RuleId.backticks ∉ cfg.chain) (hni : RuleId.image ∉ cfg.chain)
    (hone : cfg.chain.count .link ≤ 1) : NestHyps cfg (fun _ _ => True) src Mtop :=
  { coh := hc
    hB := backOK_true
    flat := flatL2_holds cfg
    back := fun h => absurd h hnb
    keep := realKeeps_holds cfg
    emph := emphL2_holds cfg
    plLink := fun _ => parseLinkL2Part_link cfg _ src Mtop
    plImage := fun h => absurd h hni
    one := ⟨hone, by rw [List.count_eq_zero_of_not_mem hni]; exact Nat.zero_le _⟩ }

/-- **`md.inline.parse` is total** — the inline pass of the model never panics and never runs out of
    fuel — for every `ChainCoherent` chain without the code-span rule and without the image rule (link
    rule at most once; any emphasis-like rules, text, newline, escape, autolink, entity, `linkEnd`),
    every `max_nesting`, every reference map, every content with a `MapOK` table. -/
theorem parseInline_total_link (cfg : Cfg) (hc : ChainCoherent cfg = true)
    (hnb : RuleId.backticks ∉ cfg.chain) (hni : RuleId.image ∉ cfg.chain)
    (hone : cfg.chain.count .link ≤ 1) {content : List Char} {mapping : Srcmap}
    (hm : MapOK content mapping) : ∃ cs, parseInline cfg content mapping = .ok cs := by
  have H := nestHyps_of cfg content (IState.init content mapping).posMax hc hnb hni hone
  exact parseInline_total_of_nested (B := fun _ _ => True) backOK_true (coherent_hsz hc) hm trivial
    (fun f s hs => nested_tokEq H f s hs) (fun f => entryP_NF f)

/-- the general form: total whenever the per-rule comparison statements hold for the chain (the
    code-span and image statements are the ones not proved yet) -/
theorem parseInline_total_of_nestHyps (cfg : Cfg) (B : List Char → CodePair.Cache → Prop)
    {content : List Char} {mapping : Srcmap} (hm : MapOK content mapping)
    (hB0 : B content CodePair.Cache.empty)
    (H : NestHyps cfg B content (IState.init content mapping).posMax) :
    ∃ cs, parseInline cfg content mapping = .ok cs :=
  parseInline_total_of_nested (B := B) H.hB (coherent_hsz H.coh) hm hB0
    (fun f s hs => nested_tokEq H f s hs) (fun f => entryP_NF f)

end MdIt.Inline
