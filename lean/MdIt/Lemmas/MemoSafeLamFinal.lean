/-
  Helper development for `Props/MemoSafe.lean`, second part: the assembly.

    * `entryP_NF`      — a nested frame entered from the top frame satisfies `NF` (the entry side of
                         `Lemmas/MemoSafeLamTop.lean`);
    * `flatL2_holds`, `realKeeps_holds`, `emphL2_holds`, `parseLinkL2Part_link` — the per-rule
                         comparison statements of `Lemmas/MemoSafeLamNF.lean`, proved;
    * `nestHyps_of`    — the hypotheses of the nested induction for a coherent chain without the
                         code-span rule and without the image rule;
    * `parseInline_total_link` — **`md.inline.parse` is total** for such chains.
-/
import MdIt.Lemmas.MemoSafeLamTop
import MdIt.Lemmas.MemoSafeLamBack
import MdIt.Lemmas.MemoSafeLamLink
import MdIt.Lemmas.MemoSafeLamImage
import MdIt.Lemmas.MemoSafeLamNest

namespace MdIt.Inline
open MdIt.InlineOps (Srcmap getSourcePosFor getMap byteLen slice)

variable {cfg : Cfg} {B : List Char → CodePair.Cache → Prop} {src : List Char} {Mtop : Nat}

/-- **a nested frame entered from the top frame satisfies `NF`** -/
theorem entryP_NF (f : Nat) :
    EntryP cfg B src Mtop (fun s => skipTokenG cfg true f s) (NF cfg B src Mtop) := by
  intro lo st offset en fuel res st1 hg hm htop hb hle hpl htop1
  have hq := skipTokenG_calm cfg true f
  have hs := skipTokenG_T cfg f
  have hgr := skip_grow cfg f
  have hi := hg.linv hm
  obtain ⟨hi1, hc1, _, hres⟩ := (parseLink_T (cfg := cfg) hq hs fuel st (st.pos + offset) en hi hb hle).2
    _ _ hpl
  have hR := hres res rfl
  obtain ⟨rx, hrx⟩ := hR.bracket
  obtain ⟨hls, hrec⟩ := parseLink_records (cfg := cfg) hq hs hgr fuel st (st.pos + offset) en hi hb hle
    res st1 hpl
  have hsrc : st.src = src := htop.hsrc
  have hmax : st.posMax = Mtop := htop.hmax
  refine ⟨⟨?_, ?_, ?_, htop1.just⟩, htop1.hsrc, htop1.back, ?_, ?_, ?_⟩
  · rw [← hsrc, ← hmax]; exact hg.bmax
  · rw [← hsrc, ← hmax]; exact hg.stop
  · intro k v hkv
    have := hi1.memo k v hkv
    rw [htop1.hsrc] at this
    exact this
  · obtain ⟨lo', hg', _⟩ := nested_good (cfg := cfg) hq hs hg hm hb hle hpl
    exact ⟨lo', hg'⟩
  · rw [← hsrc, ← hmax]; exact ⟨rx, hrx⟩
  · have := hrec st1.cache (LookupMono.refl _)
    rw [hsrc, hmax] at this
    refine ⟨en, fuel, 1, Int.le_refl _, ?_⟩
    show pwalk src Mtop st1.cache en fuel 1 res.labelStart = .done (some true) res.labelEnd
    rw [hls]
    exact this

theorem flatL2_holds (cfg : Cfg) : FlatL2 cfg :=
  fun _ _ _ _ _ _ id hid _ _ h hstop hsrc hpos => flat_L2 id hid h hstop hsrc hpos

theorem realKeeps_holds (cfg : Cfg) : RealKeeps cfg := by
  intro skip tok fuel id hf s o s' h
  obtain ⟨a, b, c, d, e⟩ := flat_keeps hf h
  exact ⟨a, b, c, d, e, fun hne => runRule_backticks_unchanged hne hf h⟩

theorem emphL2_holds (cfg : Cfg) : EmphL2 cfg := by
  intro mk csw hmk s o s' h
  obtain ⟨h1, h2⟩ := emph_real_L2 hmk h
  refine ⟨h1, ?_⟩
  intro rest hw
  obtain ⟨n, a, _, b, c, d⟩ := h2 rest hw
  exact ⟨n, a, b, c, d⟩

/-- `ParseLinkL2` for the link rule -/
theorem parseLinkL2Part_link (cfg : Cfg) (B : List Char → CodePair.Cache → Prop) (src : List Char)
    (Mtop : Nat) : ParseLinkL2Part cfg B src Mtop 0 false := by
  intro skip0 f0 w w1 r0 s v hq hs hg hiw hwsrc hwmax hwpos hwit hmono hnf hlt hlk hv hhead hnone hsome n
  have hh : ∃ rest, slice src s.pos Mtop = .ok ('[' :: rest) := by
    rcases hhead with ⟨_, _, h⟩ | ⟨h, _, _⟩
    · exact h
    · cases h
  exact parseLinkL2_link skip0 f0 w w1 r0 s v hq hs hg hiw hwsrc hwmax hwpos hwit hmono hnf hlt hlk hv
    hh hnone hsome n

/-- the hypotheses of the nested induction, for a coherent chain without the code-span rule and
    without the image rule (and with the link rule at most once) -/
theorem nestHyps_of (cfg : Cfg) (src : List Char) (Mtop : Nat) (hc : ChainCoherent cfg = true)
    (hnb : RuleId.backticks ∉ cfg.chain) (hni : RuleId.image ∉ cfg.chain)
    (hone : cfg.chain.count .link ≤ 1) : NestHyps cfg (fun _ _ => True) src Mtop :=
  { coh := hc
    hB := backOK_true
    flat := flatL2_holds cfg
    back := fun h => absurd h hnb
    keep := realKeeps_holds cfg
    emph := emphL2_holds cfg
    plLink := fun _ => parseLinkL2Part_link cfg _ src Mtop
    plImage := fun h => absurd h hni
    one := ⟨hone, by rw [List.count_eq_zero_of_not_mem hni]; exact Nat.zero_le _⟩ }

/-- **`md.inline.parse` is total** — the inline pass of the model never panics and never runs out of
    fuel — for every `ChainCoherent` chain without the code-span rule and without the image rule (link
    rule at most once; any emphasis-like rules, text, newline, escape, autolink, entity, `linkEnd`),
    every `max_nesting`, every reference map, every content with a `MapOK` table. -/
theorem parseInline_total_link (cfg : Cfg) (hc : ChainCoherent cfg = true)
    (hnb : RuleId.backticks ∉ cfg.chain) (hni : RuleId.image ∉ cfg.chain)
    (hone : cfg.chain.count .link ≤ 1) {content : List Char} {mapping : Srcmap}
    (hm : MapOK content mapping) : ∃ cs, parseInline cfg content mapping = .ok cs := by
  have H := nestHyps_of cfg content (IState.init content mapping).posMax hc hnb hni hone
  exact parseInline_total_of_nested (B := fun _ _ => True) backOK_true (coherent_hsz hc) hm trivial
    (fun f s hs => nested_tokEq H f s hs) (fun f => entryP_NF f)

/-- the general form: total whenever the per-rule comparison statements hold for the chain (the
    code-span and image statements are the ones not proved yet) -/
theorem parseInline_total_of_nestHyps (cfg : Cfg) (B : List Char → CodePair.Cache → Prop)
    {content : List Char} {mapping : Srcmap} (hm : MapOK content mapping)
    (hB0 : B content CodePair.Cache.empty)
    (H : NestHyps cfg B content (IState.init content mapping).posMax) :
    ∃ cs, parseInline cfg content mapping = .ok cs :=
  parseInline_total_of_nested (B := B) H.hB (coherent_hsz H.coh) hm hB0
    (fun f s hs => nested_tokEq H f s hs) (fun f => entryP_NF f)

/-- `ParseLinkL2` for the image rule -/
theorem parseLinkL2Part_image (cfg : Cfg) (B : List Char → CodePair.Cache → Prop) (src : List Char)
    (Mtop : Nat) : ParseLinkL2Part cfg B src Mtop 1 true := by
  intro skip0 f0 w w1 r0 s v hq hs hg hiw hwsrc hwmax hwpos hwit hmono hnf hlt hlk hv hhead hnone hsome n
  have hh : ∃ rest, slice src s.pos Mtop = .ok ('!' :: '[' :: rest) := by
    rcases hhead with ⟨h, _, _⟩ | ⟨_, _, h⟩
    · cases h
    · exact h
  exact parseLinkL2_image skip0 f0 w w1 r0 s v hq hs hg hiw hwsrc hwmax hwpos hwit hmono hnf hlt hlk hv
    hh hnone hsome n

/-- the hypotheses of the nested induction, for a coherent chain without the code-span rule (link and
    image rules at most once each) -/
theorem nestHyps_nocode (cfg : Cfg) (src : List Char) (Mtop : Nat) (hc : ChainCoherent cfg = true)
    (hnb : RuleId.backticks ∉ cfg.chain)
    (hone : cfg.chain.count .link ≤ 1 ∧ cfg.chain.count .image ≤ 1) :
    NestHyps cfg (fun _ _ => True) src Mtop :=
  { coh := hc
    hB := backOK_true
    flat := flatL2_holds cfg
    back := fun h => absurd h hnb
    keep := realKeeps_holds cfg
    emph := emphL2_holds cfg
    plLink := fun _ => parseLinkL2Part_link cfg _ src Mtop
    plImage := fun _ => parseLinkL2Part_image cfg _ src Mtop
    one := hone }

/-- **`md.inline.parse` is total** for every `ChainCoherent` chain without the code-span rule — links AND
    images (each rule at most once), any emphasis-like rules, text, newline, escape, autolink, entity —
    every `max_nesting`, every reference map, every content with a `MapOK` table. -/
theorem parseInline_total_nocode (cfg : Cfg) (hc : ChainCoherent cfg = true)
    (hnb : RuleId.backticks ∉ cfg.chain)
    (hone : cfg.chain.count .link ≤ 1 ∧ cfg.chain.count .image ≤ 1) {content : List Char}
    {mapping : Srcmap} (hm : MapOK content mapping) : ∃ cs, parseInline cfg content mapping = .ok cs :=
  parseInline_total_of_nestHyps cfg (fun _ _ => True) hm trivial
    (nestHyps_nocode cfg content _ hc hnb hone)

/-! ## code spans, for contents without two adjacent backticks -/

/-- no two adjacent backticks in the text -/
def NoDoubleTick (src : List Char) : Prop := ¬ ['`', '`'] <:+: src

instance (src : List Char) : Decidable (NoDoubleTick src) := by unfold NoDoubleTick; infer_instance

theorem NoDoubleTick.charAt {src : List Char} (h : NoDoubleTick src) (q : Nat) :
    ¬ (0 < q ∧ CodePair.charAt src (q - 1) = some '`' ∧ CodePair.charAt src q = some '`') := by
  rintro ⟨hq, h1, h2⟩
  apply h
  unfold CodePair.charAt at h1 h2
  cases hd : CodePair.dropB src (q - 1) with
  | none => rw [hd] at h1; simp at h1
  | some t =>
    rw [hd] at h1
    simp only [Option.bind_some] at h1
    cases t with
    | nil => simp at h1
    | cons c t' =>
      simp only [List.head?_cons, Option.some.injEq] at h1
      subst h1
      obtain ⟨a, ha, hl⟩ := CodePair.dropB_some hd
      have e1 : ('`' : Char).utf8Size = 1 := by decide
      have hq2 : CodePair.dropB src q = some t' := by
        have := CodePair.dropB_append_add (a ++ ['`']) t' 0
        rw [CodePair.byteLen_append] at this
        simp only [CodePair.byteLen, e1, Nat.add_zero, CodePair.dropB_zero] at this
        rw [ha, show q = CodePair.byteLen a + (1 + 0) by omega]
        simpa using this
      rw [hq2] at h2
      simp only [Option.bind_some] at h2
      cases t' with
      | nil => simp at h2
      | cons c2 t'' =>
        simp only [List.head?_cons, Option.some.injEq] at h2
        subst h2
        exact ⟨a, t'', by rw [ha]; simp⟩

/-- the code-span comparison, for texts without two adjacent backticks: no position is strictly inside
    a backtick run, so the two caches agree on `inside_failed` everywhere -/
theorem backL2_of_noDouble (cfg : Cfg) {src : List Char} (Mtop : Nat) (hnd : NoDoubleTick src) :
    BackL2 cfg BInv src Mtop := by
  intro skip tok skip' tok' fuel fuel' st0 s h hs0 hm0 hsrc hpos hb0 hb1
  refine back_L2_runRule h hsrc hpos hb0 hb1 (by rw [hs0, hm0]; exact hnd.charAt Mtop) ?_
  rw [hpos]
  rw [hsrc] at hb1
  exact inside_agree_of_not_interior hb0 hb1 (by rw [hs0]; exact hnd.charAt st0.pos)

theorem nestHyps_nodouble (cfg : Cfg) (src : List Char) (Mtop : Nat) (hc : ChainCoherent cfg = true)
    (hone : cfg.chain.count .link ≤ 1 ∧ cfg.chain.count .image ≤ 1) (hnd : NoDoubleTick src) :
    NestHyps cfg BInv src Mtop :=
  { coh := hc
    hB := backOK_BInv
    flat := flatL2_holds cfg
    back := fun _ => backL2_of_noDouble cfg Mtop hnd
    keep := realKeeps_holds cfg
    emph := emphL2_holds cfg
    plLink := fun _ => parseLinkL2Part_link cfg _ src Mtop
    plImage := fun _ => parseLinkL2Part_image cfg _ src Mtop
    one := hone }

/-- **`md.inline.parse` is total for EVERY `ChainCoherent` chain — the stock CommonMark chain with
    strikethrough included — on contents without two adjacent backticks** (single-backtick code spans
    only), every `max_nesting`, every reference map, every `MapOK` table. -/
theorem parseInline_total_nodouble (cfg : Cfg) (hc : ChainCoherent cfg = true)
    (hone : cfg.chain.count .link ≤ 1 ∧ cfg.chain.count .image ≤ 1) {content : List Char}
    {mapping : Srcmap} (hm : MapOK content mapping) (hnd : NoDoubleTick content) :
    ∃ cs, parseInline cfg content mapping = .ok cs :=
  parseInline_total_of_nestHyps cfg BInv hm (BInv.empty content)
    (nestHyps_nodouble cfg content _ hc hone hnd)

end MdIt.Inline
