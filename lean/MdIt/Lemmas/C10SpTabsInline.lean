/-
  C10 with the sourcepos plugin, ALL sources (split tabs included) — the EXACT lock-step simulation of the
  inline parser under two per-line tables that are only `C05T.MapT`, final part: from the internal relation
  (`XT.LRel K true`, Lemmas/C10SpTabsInlineBase / Emph / Link) to the interface relation `C10SP.XLT`
  (Lemmas/C10SpTabsDefs.lean), and the theorem

      C10SP.parseInline_exactT :
        MapT c m₁ → MapT c m₂ → MLe m₁ m₂ → SolidMarkers cfg.chain → parseInline cfg c m₁ = .ok ns₁ →
          ∃ ns₂, parseInline cfg c m₂ = .ok ns₂ ∧ XLT c m₁ m₂ ns₁ ns₂

  (side 2 does not panic; same shape and values; every attribute-rendering node — `CodeInline`,
  `Em` / `Strong` / `Strikethrough`, `Link`, `Image`, `Autolink` — has on both sides the translation of
  ONE stretch `[p, q]` of the inline text, `q ≤ |c|`, a SOLID character (not LF, not space) starting at `p`).

  Unlike the `MapOK` version (Lemmas/C10SpFullInline.lean) nothing is taken from the single-run range
  theorems: `q ≤ |c|` is carried by the simulation (`posMax ≤ |src|` in the state relation, every
  `get_map(p, q)` of an attribute-rendering node has `q ≤ posMax`: `c05x_backticks_end`,
  `c05x_autolink_end`, `parseLink_end`; `p + rem ≤ |c|` in the token invariant), and `p ≤ q` is not part
  of `SameSpanT`.
-/
import MdIt.Lemmas.C10SpTabsInlineLink
import MdIt.Lemmas.C05TabsShift

namespace MdIt.Inline.XT
open MdIt.InlineOps (Srcmap getSourcePosFor getMap byteLen slice)
open MdIt.Pipeline (MLe)
open MdIt.C10SP (CharSolid SameSpanT attrValT XNT XLT)
set_option linter.unusedVariables false

theorem span_of_attr {K : Ctx} {v : Val} {r₁ r₂ : Option (Nat × Nat)} (ha : attrValT v = true)
    (h : Extra K v r₁ r₂) : Span K r₁ r₂ := by
  cases v <;> first | exact h | (simp [attrValT] at ha)

theorem sameSpanT_of_span {K : Ctx} {r₁ r₂ : Option (Nat × Nat)} (h : Span K r₁ r₂) :
    SameSpanT K.c K.m₁ K.m₂ r₁ r₂ := h

mutual
theorem XN_of (K : Ctx) : ∀ (a b : Node), NRel K true a b → XNT K.c K.m₁ K.m₂ a b
  | ⟨v₁, r₁, cs₁⟩, ⟨v₂, r₂, cs₂⟩, h => by
    simp only [NRel] at h
    obtain ⟨rfl, hr, hx, hc⟩ := h
    simp only [XNT]
    exact ⟨trivial, fun ha => sameSpanT_of_span (span_of_attr ha (hx rfl)), XL_of K cs₁ cs₂ hc⟩
theorem XL_of (K : Ctx) : ∀ (l₁ l₂ : List Node), LRel K true l₁ l₂ → XLT K.c K.m₁ K.m₂ l₁ l₂
  | [], [], _ => by simp only [XLT]
  | [], _ :: _, h => absurd h (LRel_nil_cons _ _ _)
  | _ :: _, [], h => absurd h (LRel_cons_nil _ _ _)
  | a :: as, b :: bs, h => by
    rw [LRel_cons_cons] at h
    simp only [XLT]
    exact ⟨XN_of K a b h.1, XL_of K as bs h.2⟩
end

end MdIt.Inline.XT

namespace MdIt.C10SP
open MdIt.Inline.XT
open MdIt.Inline

/-- **the exact inline simulation for `MapT` tables** (tables of `get_lines` with or without split
    tabs).  Two per-line tables for the same inline text, both `MapT`, same keys, values pointwise `≤`;
    every emphasis marker of the chain a single byte other than LF and space.  If the run under the
    first table succeeds so does the run under the second, with the same tree up to ranges, and the
    ranges of every attribute-rendering node are on both sides the translations of ONE stretch of the
    inline text that ends inside the text and starts at a solid character. -/
theorem parseInline_exactT (cfg : Inline.Cfg) (c : List Char) (m₁ m₂ : InlineOps.Srcmap)
    (h₁ : C05T.MapT c m₁) (h₂ : C05T.MapT c m₂) (hle : Pipeline.MLe m₁ m₂)
    (hmk : C05T.SolidMarkers cfg.chain)
    {ns₁ : List Inline.Node} (h : Inline.parseInline cfg c m₁ = .ok ns₁) :
    ∃ ns₂, Inline.parseInline cfg c m₂ = .ok ns₂ ∧ C10SP.XLT c m₁ m₂ ns₁ ns₂ := by
  have sim := parseInline_sim ⟨c, m₁, m₂, h₁, h₂⟩ true cfg hmk (fun _ => hle) h
  cases h2 : Inline.parseInline cfg c m₂ with
  | error e => simp only [h2] at sim; cases sim
  | ok ns₂ =>
    simp only [h2] at sim
    exact ⟨ns₂, rfl, XL_of ⟨c, m₁, m₂, h₁, h₂⟩ ns₁ ns₂ sim⟩

/-- the ∀-form for the consumers -/
theorem parseInline_exactT' (cfg : Inline.Cfg) (hmk : C05T.SolidMarkers cfg.chain) :
    ∀ (c : List Char) (m₁ m₂ : InlineOps.Srcmap), C05T.MapT c m₁ → C05T.MapT c m₂ →
      Pipeline.MLe m₁ m₂ → ∀ ns₁, Inline.parseInline cfg c m₁ = .ok ns₁ →
        ∃ ns₂, Inline.parseInline cfg c m₂ = .ok ns₂ ∧ C10SP.XLT c m₁ m₂ ns₁ ns₂ :=
  fun c m₁ m₂ h₁ h₂ hle _ h => parseInline_exactT cfg c m₁ m₂ h₁ h₂ hle hmk h

/-! ### non-vacuity -/

namespace InlineWitnessT

theorem mapOK_one (c : List Char) (v : Nat) : Inline.MapOK c [(0, v)] := by
  refine ⟨⟨⟨v, [], rfl⟩, by simp⟩, ?_, ?_⟩
  · intro i k1 v1 k2 v2 h1 h2
    simp at h2
  · intro i k v' h hk
    match i, h with
    | 0, h => simp at h; omega
    | n + 1, h => simp at h

theorem mle_one {v w : Nat} (h : v ≤ w) : Pipeline.MLe [(0, v)] [(0, w)] := by
  refine ⟨rfl, ?_⟩
  intro i k₁ v₁ k₂ v₂ h₁ h₂
  match i, h₁, h₂ with
  | 0, h₁, h₂ => simp at h₁ h₂; omega
  | n + 1, h₁, _ => simp at h₁

theorem mle_refl (m : InlineOps.Srcmap) : Pipeline.MLe m m :=
  ⟨rfl, fun i k₁ v₁ k₂ v₂ h1 h2 => by
    rw [h1] at h2; simp only [Option.some.injEq, Prod.mk.injEq] at h2; omega⟩

theorem solidMarkers_exCfg (n : Nat) : C05T.SolidMarkers (Inline.exCfg n).chain := by
  intro mk csw h
  simp [Inline.exCfg] at h
  obtain ⟨rfl, _⟩ := h
  exact ⟨rfl, by decide, by decide⟩

/-- every text, two single-line tables with different offsets -/
example (cfg : Inline.Cfg) (hmk : C05T.SolidMarkers cfg.chain) (c : List Char) {v w : Nat} (hvw : v ≤ w)
    {ns₁ : List Inline.Node} (h : Inline.parseInline cfg c [(0, v)] = .ok ns₁) :
    ∃ ns₂, Inline.parseInline cfg c [(0, w)] = .ok ns₂ ∧ XLT c [(0, v)] [(0, w)] ns₁ ns₂ :=
  parseInline_exactT cfg c _ _ (C05T.mapT_of_mapOK (mapOK_one c v)) (C05T.mapT_of_mapOK (mapOK_one c w))
    (mle_one hvw) hmk h

/-- a table WITH a split tab (the paragraph of "-    ` a\n\t\t`", `C05T.sh_exTab_mapT`; it is not
    `MapOK`: `C05T.sh_exTab_not_mapOK`): the hypotheses of the theorem hold … -/
example {ns₁ : List Inline.Node}
    (h : Inline.parseInline (Inline.exCfg 100) "` a\n   `".toList [(0, 5), (4, 11), (7, 11)] = .ok ns₁) :
    ∃ ns₂, Inline.parseInline (Inline.exCfg 100) "` a\n   `".toList [(0, 5), (4, 11), (7, 11)] = .ok ns₂ ∧
      XLT "` a\n   `".toList [(0, 5), (4, 11), (7, 11)] [(0, 5), (4, 11), (7, 11)] ns₁ ns₂ :=
  parseInline_exactT (Inline.exCfg 100) _ _ _ C05T.sh_exTab_mapT C05T.sh_exTab_mapT (mle_refl _)
    (solidMarkers_exCfg 100) h

/-- … and the run succeeds: one code span whose range `(5, 12)` is the translation of `[0, 8]` -/
example :
    (Inline.parseInline (Inline.exCfg 100) "` a\n   `".toList [(0, 5), (4, 11), (7, 11)]).toOption.map
      (fun ns => ns.map (fun n => (attrValT n.val, n.range))) = some [(true, some (5, 12))] := by
  decide +kernel

end InlineWitnessT

end MdIt.C10SP
