/-
  Helper development for `Props/InlineTotal.lean`: no Rust panic of ONE rule call in either mode, of
  the chain, and of one step of each tokenizer loop, against callees meeting `SkipHypT` / `TokHypT`.
-/
import MdIt.Lemmas.InlineTotalFrame

namespace MdIt.Inline
open MdIt.InlineOps (Srcmap getSourcePosFor getMap byteLen slice)
open MdIt.C05 (WFMap MonoMap byteLen_append slice_ok_iff)

/-! ## look-ahead mode -/

/-- what a rule call in look-ahead mode guarantees -/
structure SilT (st : IState) (r : RuleRes) : Prop where
  noRust : NoRust r
  ok : ∀ o st', r = .ok (o, st') → LInv st' ∧ Calm st st' ∧ st'.pos = st.pos ∧ Advances st o

theorem SilT.declined {st : IState} (hi : LInv st) : SilT st (.ok (none, st)) :=
  ⟨NoRust.ok _, by
    intro o st' h
    simp only [Except.ok.injEq, Prod.mk.injEq] at h; obtain ⟨rfl, rfl⟩ := h
    exact ⟨hi, Calm.refl _, rfl, by intro len h; simp at h⟩⟩

theorem silT_of_simple {st : IState} (hi : LInv st) {r : SRes}
    (htot : ∃ o st', r = .ok (o, st') ∧ Advances st o)
    (hsimp : ∀ o st', r = .ok (o, st') → Simple st true o st') : SilT st (liftR r) := by
  obtain ⟨o, st', hr, hadv⟩ := htot
  refine ⟨by rw [hr]; exact NoRust.ok _, ?_⟩
  intro o2 st2 h
  have h' := liftR_ok.mp h
  rw [hr] at h'
  simp only [Except.ok.injEq, Prod.mk.injEq] at h'; obtain ⟨rfl, rfl⟩ := h'
  have hs := hsimp _ _ hr
  have hm : MemoB st' := by
    intro k v hkv
    rw [hs.cache] at hkv
    rw [hs.frame.src]; exact hi.memo k v hkv
  exact ⟨hi.same hs.calm hm hs.pos, hs.calm, hs.pos, hadv⟩

/-- the position behind a one-byte first character of the window -/
theorem after_first {st : IState} {c : Char} {rest : List Char} (hc : c.utf8Size = 1)
    (h : slice st.src st.pos st.posMax = .ok (c :: rest)) :
    Boundary st.src (st.pos + 1) ∧ st.pos + 1 ≤ st.posMax := by
  constructor
  · have := boundary_in_slice (u := [c]) (v := rest) h
    simpa [byteLen, hc] using this
  · have := (slice_boundaries h).2.2
    simp only [byteLen, hc] at this; omega

theorem after_second {st : IState} {c d : Char} {rest : List Char} (hc : c.utf8Size = 1)
    (hd : d.utf8Size = 1) (h : slice st.src st.pos st.posMax = .ok (c :: d :: rest)) :
    Boundary st.src (st.pos + 1 + 1) ∧ st.pos + 1 + 1 ≤ st.posMax := by
  constructor
  · have := boundary_in_slice (u := [c, d]) (v := rest) h
    simpa [byteLen, hc, hd, Nat.add_assoc] using this
  · have := (slice_boundaries h).2.2
    simp only [byteLen, hc, hd] at this; omega

theorem runRule_silent_T {cfg : Cfg} {skip tok : IState → Except Panic IState} (hq : CalmFn skip)
    (hs : SkipHypT skip) (fuel : Nat) (id : RuleId) (st : IState) (hi : LInv st)
    (hlt : st.pos < st.posMax) : SilT st (runRule cfg skip tok fuel id st true) := by
  have hinv := hi.inv hlt
  obtain ⟨w, hw, hsl, hlen⟩ := hi.window
  unfold runRule
  cases id with
  | text =>
    exact silT_of_simple hi (inline_rule_progress_text hinv true) (fun _ _ h => ruleText_simple h)
  | newline =>
    exact silT_of_simple hi (inline_rule_progress_newline hinv true (by intro h; simp at h))
      (fun _ _ h => ruleNewline_simple h)
  | escape =>
    exact silT_of_simple hi (inline_rule_progress_escape hinv true) (fun _ _ h => ruleEscape_simple h)
  | backticks =>
    exact silT_of_simple hi (inline_rule_progress_backticks hinv true)
      (fun _ _ h => ruleBackticks_simple h)
  | emph mk csw =>
    simp only [ruleEmph_silent, liftR]
    exact SilT.declined hi
  | link =>
    simp only
    unfold ruleLink
    rw [hw]
    simp only [liftR]
    cases w with
    | nil => simp only [byteLen] at hlen; omega
    | cons c rest =>
      simp only
      split
      · exact SilT.declined hi
      · next hc =>
        have hc' : c = '[' := by simpa using hc
        subst hc'
        obtain ⟨hb, hle⟩ := after_first (by decide) hsl
        have := linkRule_silent_T (cfg := cfg) (tok := tok) hq hs fuel Val.link false 0 st hi hb hle
        exact ⟨this.1, this.2⟩
  | image =>
    simp only
    unfold ruleImage
    rw [hw]
    simp only [liftR]
    split
    · next e heq => simp at heq
    · next r heq =>
      simp only [Except.ok.injEq] at heq
      subst heq
      obtain ⟨hb, hle⟩ := after_second (by decide) (by decide) hsl
      have := linkRule_silent_T (cfg := cfg) (tok := tok) hq hs fuel Val.image true 1 st hi hb hle
      exact ⟨this.1, this.2⟩
    · exact SilT.declined hi
  | linkEnd => exact SilT.declined hi
  | autolink =>
    exact silT_of_simple hi (inline_rule_progress_autolink hinv true)
      (fun _ _ h => ruleAutolink_simple h)
  | entity =>
    exact silT_of_simple hi (inline_rule_progress_entity cfg hinv hi.stop true)
      (fun _ _ h => ruleEntity_simple h)

theorem silentBumped_T {run : IState → Bool → RuleRes} {st : IState}
    (h : SilT { st with level := st.level + 1 } (run { st with level := st.level + 1 } true)) :
    SilT st (silentBumped run st) := by
  unfold silentBumped
  split
  · next e he =>
    refine ⟨?_, by intro o st' h; simp at h⟩
    intro p hp; simp only [Except.error.injEq] at hp; subst hp; exact h.noRust p he
  · next r st1 he =>
    obtain ⟨a, b, c, d⟩ := h.ok _ _ he
    have hlev : st1.level = st.level + 1 := b.level
    rw [if_neg (by omega)]
    refine ⟨NoRust.ok _, ?_⟩
    intro o st' hh
    simp only [Except.ok.injEq, Prod.mk.injEq] at hh; obtain ⟨rfl, rfl⟩ := hh
    refine ⟨⟨a.le, a.bpos, a.bmax, a.wf, a.stop, a.memo⟩,
      ⟨b.children, b.bottoms, b.src, b.srcmap, b.posMax, ?_, b.linkLevel⟩, c, d⟩
    simp only; rw [hlev]; simp

theorem firstRule_silent_T {run : RuleId → IState → RuleRes}
    (hrun : ∀ id s, LInv s → s.pos < s.posMax → SilT s (run id s)) :
    ∀ (rules : List RuleId) (st : IState), LInv st → st.pos < st.posMax →
      SilT st (firstRule run rules st) := by
  intro rules
  induction rules with
  | nil => intro st hi _; unfold firstRule; exact SilT.declined hi
  | cons r rs ih =>
    intro st hi hlt
    have h1 := hrun r st hi hlt
    unfold firstRule
    split
    · next e he =>
      refine ⟨?_, by intro o st' h; simp at h⟩
      intro p hp; simp only [Except.error.injEq] at hp; subst hp; exact h1.noRust p he
    · next n st1 he =>
      refine ⟨NoRust.ok _, ?_⟩
      intro o st' h
      simp only [Except.ok.injEq, Prod.mk.injEq] at h; obtain ⟨rfl, rfl⟩ := h
      exact h1.ok _ _ he
    · next st1 he =>
      obtain ⟨a, b, c, _⟩ := h1.ok _ _ he
      have h2 := ih st1 a (by rw [c, b.posMax]; exact hlt)
      refine ⟨h2.noRust, ?_⟩
      intro o st' h
      obtain ⟨a', b', c', d'⟩ := h2.ok _ _ h
      refine ⟨a', b.trans b', by rw [c', c], ?_⟩
      intro len hl
      have := d' len hl
      rw [c, b.posMax, b.src] at this
      exact this

/-- one run of the chain in look-ahead mode inside `skip_token` -/
theorem skipStep_T {cfg : Cfg} {skip tok : IState → Except Panic IState} (hq : CalmFn skip)
    (hs : SkipHypT skip) (fuel : Nat) (st : IState) (hi : LInv st) (hlt : st.pos < st.posMax) :
    SkipT st (skipStep cfg skip tok fuel st) := by
  have hok : SilT st
      (firstRule (fun id s => silentBumped (runRule cfg skip tok fuel id) s) cfg.chain st) := by
    apply firstRule_silent_T _ cfg.chain st hi hlt
    intro id s his hls
    apply silentBumped_T
    exact runRule_silent_T hq hs fuel id _ ⟨his.le, his.bpos, his.bmax, his.wf, his.stop, his.memo⟩ hls
  unfold skipStep
  simp only
  split
  · next e he =>
    refine ⟨?_, by intro st' h; simp at h⟩
    intro p hp; simp only [Except.error.injEq] at hp; subst hp; exact hok.noRust p he
  · next len st1 he =>
    obtain ⟨a, b, c, d⟩ := hok.ok _ _ he
    obtain ⟨d1, d2, d3⟩ := d len rfl
    refine ⟨NoRust.ok _, ?_⟩
    intro st' h
    simp only [Except.ok.injEq] at h; subst h
    rw [c]
    refine ⟨?_, by simp only; omega, d2, d3⟩
    intro k v hkv
    exact MemoB.insert a.memo (by omega) (by rw [b.src]; exact d3) k v hkv
  · next st1 he =>
    obtain ⟨a, b, c, _⟩ := hok.ok _ _ he
    have hlt1 : st1.pos < st1.posMax := by rw [c, b.posMax]; exact hlt
    obtain ⟨w, hw, hsl, hlen⟩ := a.window
    unfold firstChar
    rw [hw]
    simp only [liftR]
    cases w with
    | nil => simp only [byteLen] at hlen; omega
    | cons ch rest =>
      simp only
      have hc := Char.utf8Size_pos ch
      have hb : Boundary st1.src (st1.pos + ch.utf8Size) := by
        have := boundary_in_slice (u := [ch]) (v := rest) hsl
        simpa [byteLen] using this
      have hle : st1.pos + ch.utf8Size ≤ st1.posMax := by
        simp only [byteLen] at hlen; omega
      refine ⟨NoRust.ok _, ?_⟩
      intro st' h
      simp only [Except.ok.injEq] at h; subst h
      refine ⟨?_, by simp only; rw [c]; omega, by simp only; rw [← b.posMax]; exact hle,
        by simp only; rw [← b.src]; exact hb⟩
      intro k v hkv
      exact MemoB.insert a.memo (by rw [c]; omega) hb k v hkv

/-! ## real mode -/

/-- what a rule call in real mode guarantees -/
structure RealT (lo : Nat) (st : IState) (r : RuleRes) : Prop where
  noRust : NoRust r
  ok : ∀ o st', r = .ok (o, st') → StepT lo st o st'

theorem Good.add_zero {lo : Nat} {st : IState} (h : Good lo st) :
    Good lo { st with pos := st.pos + 0 } := by
  cases st; simpa using h

theorem Good.of_add_zero {lo : Nat} {st : IState} (h : Good lo { st with pos := st.pos + 0 }) :
    Good lo st := by
  cases st; simpa using h

theorem RealT.declined {lo : Nat} {st : IState} (hg : Good lo st) (hm : MemoB st) :
    RealT lo st (.ok (none, st)) :=
  ⟨NoRust.ok _, by
    intro o st' h
    simp only [Except.ok.injEq, Prod.mk.injEq] at h; obtain ⟨rfl, rfl⟩ := h
    exact ⟨hg.add_zero, hm, Frame.refl _, fun _ => rfl, by intro len h; simp at h⟩⟩

/-- flat rules leave the memo alone -/
theorem runRule_flat_cache {cfg : Cfg} {skip tok : IState → Except Panic IState} {fuel : Nat}
    {id : RuleId} (hflat : id.isFlat = true) {st : IState} {silent : Bool} {o : Option Nat}
    {st' : IState} (h : runRule cfg skip tok fuel id st silent = .ok (o, st')) :
    st'.cache = st.cache := by
  unfold runRule at h
  cases id with
  | text => exact (ruleText_simple (liftR_ok.mp h)).cache
  | newline => exact (ruleNewline_simple (liftR_ok.mp h)).cache
  | escape => exact (ruleEscape_simple (liftR_ok.mp h)).cache
  | backticks => exact (ruleBackticks_simple (liftR_ok.mp h)).cache
  | emph mk csw => exact (ruleEmph_simple (liftR_ok.mp h)).cache
  | link => simp [RuleId.isFlat] at hflat
  | image => simp [RuleId.isFlat] at hflat
  | linkEnd => simp only [Except.ok.injEq, Prod.mk.injEq] at h; rw [← h.2]
  | autolink => exact (ruleAutolink_simple (liftR_ok.mp h)).cache
  | entity => exact (ruleEntity_simple (liftR_ok.mp h)).cache

theorem runRule_real_T {cfg : Cfg} (hsz : ∀ mk csw, RuleId.emph mk csw ∈ cfg.chain → mk.utf8Size = 1)
    {skip tok : IState → Except Panic IState} (hq : CalmFn skip) (hs : SkipHypT skip)
    (ht : TokHypT tok) (hr : RangesFn tok) (fuel : Nat) {id : RuleId} (hid : id ∈ cfg.chain)
    {lo : Nat} (st : IState) (hg : Good lo st) (hm : MemoB st) (hlt : st.pos < st.posMax) :
    RealT lo st (runRule cfg skip tok fuel id st false) := by
  by_cases hflat : id.isFlat = true
  · obtain ⟨o, st', h, f⟩ := flat_rule_step hsz (skip := skip) (tok := tok) (fuel := fuel) hid hflat hg hlt
    refine ⟨noRust_of_eq h, ?_⟩
    intro o2 st2 h2
    rw [h] at h2
    simp only [Except.ok.injEq, Prod.mk.injEq] at h2; obtain ⟨rfl, rfl⟩ := h2
    have hc := runRule_flat_cache hflat h
    refine ⟨f.good hg, ?_, f.frame, fun _ => f.pos, ?_⟩
    · intro k v hkv
      rw [hc] at hkv
      rw [f.frame.src]; exact hm k v hkv
    · intro len hl
      have := (f.adv len hl).1
      rw [f.pos]; omega
  · have hi := hg.linv hm
    obtain ⟨w, hw, hsl, hlen⟩ := hi.window
    cases id with
    | link =>
      unfold runRule
      simp only
      unfold ruleLink
      rw [hw]
      simp only [liftR]
      cases w with
      | nil => simp only [byteLen] at hlen; omega
      | cons c rest =>
        simp only
        split
        · exact RealT.declined hg hm
        · next hc =>
          have hc' : c = '[' := by simpa using hc
          subst hc'
          obtain ⟨hb, hle⟩ := after_first (by decide) hsl
          have := linkRule_real_T (cfg := cfg) hq hs ht hr fuel Val.link
            (by intro u t c h; cases h) (by intro u t r cs; rfl) false 0 st hg hm hb hle
          exact ⟨this.1, this.2⟩
    | image =>
      unfold runRule
      simp only
      unfold ruleImage
      rw [hw]
      simp only [liftR]
      split
      · next e heq => simp at heq
      · next r heq =>
        simp only [Except.ok.injEq] at heq
        subst heq
        obtain ⟨hb, hle⟩ := after_second (by decide) (by decide) hsl
        have := linkRule_real_T (cfg := cfg) hq hs ht hr fuel Val.image
          (by intro u t c h; cases h) (by intro u t r cs; rfl) true 1 st hg hm hb hle
        exact ⟨this.1, this.2⟩
      · exact RealT.declined hg hm
    | _ => simp [RuleId.isFlat] at hflat

theorem firstRule_real_T {cfg : Cfg} (hsz : ∀ mk csw, RuleId.emph mk csw ∈ cfg.chain → mk.utf8Size = 1)
    {skip tok : IState → Except Panic IState} (hq : CalmFn skip) (hs : SkipHypT skip)
    (ht : TokHypT tok) (hr : RangesFn tok) (fuel : Nat) {lo : Nat} :
    ∀ (rules : List RuleId), (∀ id ∈ rules, id ∈ cfg.chain) →
      ∀ (st : IState), Good lo st → MemoB st → st.pos < st.posMax →
      RealT lo st (firstRule (fun id s => runRule cfg skip tok fuel id s false) rules st) := by
  intro rules
  induction rules with
  | nil => intro _ st hg hm _; unfold firstRule; exact RealT.declined hg hm
  | cons r rs ih =>
    intro hall st hg hm hlt
    have h1 := runRule_real_T hsz hq hs ht hr fuel (hall r (by simp)) st hg hm hlt
    unfold firstRule
    split
    · next e he =>
      refine ⟨?_, by intro o st' h; simp at h⟩
      intro p hp; simp only [Except.error.injEq] at hp; subst hp; exact h1.noRust p he
    · next n st1 he =>
      refine ⟨NoRust.ok _, ?_⟩
      intro o st' h
      simp only [Except.ok.injEq, Prod.mk.injEq] at h; obtain ⟨rfl, rfl⟩ := h
      exact h1.ok _ _ he
    · next st1 he =>
      have s1 := h1.ok _ _ he
      have hg1 : Good lo st1 := Good.of_add_zero (by simpa using s1.good)
      have hp1 := s1.nonePos rfl
      have h2 := ih (fun id hid => hall id (List.mem_cons_of_mem _ hid)) st1 hg1 s1.memo
        (by rw [hp1, s1.frame.posMax]; exact hlt)
      refine ⟨h2.noRust, ?_⟩
      intro o st' h
      have s2 := h2.ok _ _ h
      exact ⟨s2.good, s2.memo, s1.frame.trans s2.frame, fun ho => by rw [s2.nonePos ho, hp1],
        by intro len hl; have := s2.adv len hl; rw [hp1] at this; exact this⟩

/-- **one iteration of the tokenizer loop does not panic** -/
theorem tokStep_T {cfg : Cfg} (hsz : ∀ mk csw, RuleId.emph mk csw ∈ cfg.chain → mk.utf8Size = 1)
    {skip tok : IState → Except Panic IState} (hq : CalmFn skip) (hs : SkipHypT skip)
    (ht : TokHypT tok) (hr : RangesFn tok) (fuel : Nat) {lo : Nat} (st : IState) (hg : Good lo st)
    (hm : MemoB st) (hlt : st.pos < st.posMax) :
    NoRust (tokStep cfg skip tok fuel st) ∧
    ∀ st', tokStep cfg skip tok fuel st = .ok st' →
      Good lo st' ∧ MemoB st' ∧ Frame st st' ∧ st.pos < st'.pos := by
  have hok : RealT lo st (if st.level < cfg.maxNesting then
        firstRule (fun id s => runRule cfg skip tok fuel id s false) cfg.chain st
      else .ok (none, st)) := by
    split
    · exact firstRule_real_T hsz hq hs ht hr fuel cfg.chain (fun _ h => h) st hg hm hlt
    · exact RealT.declined hg hm
  unfold tokStep
  simp only
  split
  · next e he =>
    refine ⟨?_, by intro st' h; simp at h⟩
    intro p hp; simp only [Except.error.injEq] at hp; subst hp; exact hok.noRust p he
  · next len st1 he =>
    have s1 := hok.ok _ _ he
    refine ⟨NoRust.ok _, ?_⟩
    intro st' h
    simp only [Except.ok.injEq] at h; subst h
    exact ⟨by simpa using s1.good, s1.memo,
      ⟨s1.frame.src, s1.frame.srcmap, s1.frame.posMax, s1.frame.level, s1.frame.linkLevel⟩,
      s1.adv len rfl⟩
  · next st1 he =>
    have s1 := hok.ok _ _ he
    have hg1 : Good lo st1 := Good.of_add_zero (by simpa using s1.good)
    have hp1 := s1.nonePos rfl
    have hlt1 : st1.pos < st1.posMax := by rw [hp1, s1.frame.posMax]; exact hlt
    obtain ⟨pre, w, post, hsrc, hpre, hlen, hw, hne⟩ := window_ok (hg1.inv hlt1)
    cases w with
    | nil => exact absurd rfl hne
    | cons ch rest =>
      have hfc : firstChar st1 = .ok ch := by unfold firstChar; rw [hw]; rfl
      rw [hfc]
      simp only
      have hsl := window_eq hw
      have hb : Boundary st1.src (st1.pos + ch.utf8Size) := by
        have := boundary_in_slice (u := [ch]) (v := rest) hsl
        simpa [byteLen] using this
      have hle : st1.pos + ch.utf8Size ≤ st1.posMax := by
        simp only [byteLen] at hlen; omega
      obtain ⟨_, _, _, _, _, _, hs2⟩ := slice_of_boundaries hg1.bpos hb (by omega)
      obtain ⟨st2, hp⟩ := pushText_total hg1.map.wf hs2
      rw [hp]
      simp only [liftR]
      have hri := fallback_ranges hg1.map hg1.ri hp
      obtain ⟨cs, _, rfl⟩ := pushText_eq hp
      have hc := Char.utf8Size_pos ch
      refine ⟨NoRust.ok _, ?_⟩
      intro st' h
      simp only [Except.ok.injEq] at h; subst h
      refine ⟨⟨hle, hb, hg1.bmax, hg1.map, hg1.stop, hri, hg1.bottoms⟩, s1.memo,
        ⟨s1.frame.src, s1.frame.srcmap, s1.frame.posMax, s1.frame.level, s1.frame.linkLevel⟩, ?_⟩
      simp only; rw [hp1]; omega

end MdIt.Inline
