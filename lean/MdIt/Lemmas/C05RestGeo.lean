/-
  C05, remaining clauses: the block invariant WITH LINE TERMINATORS.

  `Geo3 src0 s = Geo2 src0 s ∧ C05R.TermOk s.src s.offs` (Lemmas/C05RestDefs.lean): every line of the
  table ends at the end of the document or in front of a '\n' / '\r'.  `TermOk` speaks about `src`
  and the `lineEnd` fields only; the two container rules rewrite table entries through `Refines`
  (`lineStart`, `lineEnd` unchanged), every other rule is a `Frame` — so it is kept everywhere.
  The induction over the tokenizer of Lemmas/C05InlineGeo.lean (`tokenize_geo2`, `parseBlocks_geo2`)
  is redone for `Geo3` / `InlSpec3`: `g3_tokenize_geo3`, `parseBlocks_geo3`.
-/
import MdIt.Lemmas.C05RestDefs

namespace MdIt.Block
open MdIt.Lines (LineOffset)
open MdIt.C05I (KeptBlank OrderD)

/-! ## `TermOk` -/

theorem g3_TermOk.of_refines {src : List Char} {offs offs' : List LineOffset} (h : Refines offs offs')
    (ht : C05R.TermOk src offs) : C05R.TermOk src offs' := by
  intro k o' ho'
  obtain ⟨o, ho⟩ := h.get' ho'
  have e := h.entry k o o' ho ho'
  rw [e.2.1]
  exact ht k o ho

theorem g3_Geo3.of_eq {src0 : List Char} {s s' : BState} (h : Geo3 src0 s) (h1 : s'.src = s.src)
    (h2 : s'.offs = s.offs) (h3 : s'.blkIndent = s.blkIndent) (h4 : s'.lineMax ≤ s.lineMax)
    (h5 : s.line ≤ s'.line) : Geo3 src0 s' :=
  ⟨h.g2.of_eq h1 h2 h3 h4 h5, by rw [h1, h2]; exact h.term⟩

theorem g3_Geo3.of_frame {src0 : List Char} {s s' : BState} (h : Geo3 src0 s) (hf : Frame s s')
    (hl : s.line ≤ s'.line) : Geo3 src0 s' :=
  g3_Geo3.of_eq h hf.src hf.offs hf.blkIndent (Nat.le_of_eq hf.lineMax) hl

/-- the table `generate_caches` builds: every line ends at the end of the input or in front of its
    terminator -/
theorem g3_termOk_split (src : List Char) : C05R.TermOk src (Lines.splitLines src) := by
  intro i o ho
  obtain ⟨A, lt, B, _, _, rfl, hsrc, _, hterm⟩ := Lines.split_entry ho
  have hend : (Lines.mkOff (Lines.byteLen (Lines.flat A)) lt).lineEnd
      = InlineOps.byteLen (Lines.flat A ++ lt.1) := by
    rw [← C05I.linesLen_eq]; simp [Lines.mkOff]
  rcases hterm with ht | ⟨ht, hB⟩
  · right
    obtain ⟨c, rest, hc, hcc⟩ : ∃ c rest, lt.2 = c :: rest ∧ (c = '\n' ∨ c = '\r') := by
      rcases ht with h | h | h
      · exact ⟨_, _, h, .inl rfl⟩
      · exact ⟨_, _, h, .inr rfl⟩
      · exact ⟨_, _, h, .inr rfl⟩
    refine ⟨Lines.flat A ++ lt.1, c, rest ++ Lines.flat B, ?_, hend.symm, hcc⟩
    conv => lhs; rw [hsrc, hc]
    simp
  · left
    rw [hend]
    conv => rhs; rw [hsrc, ht, hB]
    simp

theorem g3_termOk_fresh (src : List Char) (k : Kind) (refs : Refs.RefMap) :
    C05R.TermOk (BState.fresh src k refs).src (BState.fresh src k refs).offs :=
  g3_termOk_split src

theorem g3_geo3_fresh (src : List Char) (hsmall : 4 * Lines.byteLen src + 8 < 2147483648) (k : Kind)
    (refs : Refs.RefMap) : Geo3 src (BState.fresh src k refs) :=
  ⟨geo2_fresh src hsmall k refs, g3_termOk_fresh src k refs⟩

/-! ## the rules -/

def g3_KeepsGeo3 (src0 : List Char) (P : InlP) (s s' : BState) : Prop :=
  ∀ lo, Geo3 src0 s → StartsGe s lo → KidsOk P s lo → KidsOk P s' lo

theorem g3_KeepsGeo_to3 {src0 : List Char} {P : InlP} {s s' : BState} (h : KeepsGeo P s s') :
    g3_KeepsGeo3 src0 P s s' := fun lo hg => h lo hg.g2.geo

theorem g3_KeepsGeo3.refl (src0 : List Char) (P : InlP) (s : BState) : g3_KeepsGeo3 src0 P s s :=
  fun _ _ _ h => h

def g3_TokGeo3 (src0 : List Char) (P : InlP) (tok : Tok) : Prop :=
  ∀ s s', tok s = .ok s' → g3_KeepsGeo3 src0 P s s'

theorem g3_heading_geo3 {src0 : List Char} {P : InlP} (hP : InlSpec3 src0 P) {s s' : BState} {b : Bool}
    (h : headingRule s false = .ok (b, s')) : g3_KeepsGeo3 src0 P s s' := by
  unfold headingRule at h
  crack h
  all_goals (try subst_vars)
  all_goals (first | exact g3_KeepsGeo3.refl _ _ _ | skip)
  intro lo hg2 hs hk
  have hg := hg2.g2.geo
  obtain ⟨_, oa, ob, ha, hb, rfl⟩ := getMap_ok5 ‹BState.getMap _ _ _ = _›
  rw [ha] at hb; cases hb
  have ho := off_ok ‹BState.off _ _ = _›
  rw [ha] at ho; cases ho
  obtain ⟨g1, g2, g3, g4⟩ := hg.map_ok (Nat.le_refl _) ha ha
  have hp := hP.heading s _ _ _ _ _ hg2 ha ‹BState.getLine _ _ = _› ‹liftL (Lines.slice _ _ _) = _›
  exact hk.push hg ha ha (Nat.le_refl _) spanB_range
    (rangedB_text _ g2 g3 g4 hp (Nat.le_refl _) g2 (Nat.le_refl _)) (hs _ _ (Nat.le_refl _) ha).1
    g1 g2 (Nat.le_refl _) rfl rfl rfl (by simp [BState.push])

theorem g3_paragraph_geo3 {src0 : List Char} {P : InlP} (hP : InlSpec3 src0 P) {test : Test} (ht : TestPure test)
    {fuel : Nat} {s s' : BState} {b : Bool} (h : paragraphRule test fuel s false = .ok (b, s'))
    (hl : s.line < s.lineMax) : g3_KeepsGeo3 src0 P s s' := by
  unfold paragraphRule at h
  crack h
  have hscan := ‹lazyScan _ _ _ _ _ = _›
  have hgl := ‹BState.getLines _ _ _ _ _ = _›
  have he := ‹psub _ _ = _›
  have hr := ‹BState.getMap _ _ _ = _›
  obtain ⟨h1, h2, _, _⟩ := lazyScan_spec ht false _ _ _ _ hscan
  subst_vars
  intro lo hg2 hs hk
  have hg := hg2.g2.geo
  obtain ⟨hab, oa, ob, ha, hb, rfl⟩ := getMap_ok5 hr
  obtain ⟨hle, rfl⟩ := psub_ok he
  obtain ⟨g1, g2, g3, g4⟩ := hg.map_ok hab ha hb
  have hp := hP.lines _ _ _ _ _ oa ob hg2 hgl h2 ha hb (hg2.g2.kept _ _ (Nat.le_refl _) hl ha)
  exact hk.push hg ha hb hab spanB_range
    (rangedB_text _ g2 g3 g4 hp (Nat.le_refl _) g2 (Nat.le_refl _)) (hs _ _ (Nat.le_refl _) ha).1
    g1 g2 (Nat.le_refl _) rfl rfl rfl (by simp [BState.push]; omega)

theorem g3_lheading_geo3 {src0 : List Char} {P : InlP} (hP : InlSpec3 src0 P) {test : Test} (ht : TestPure test)
    {fuel : Nat} {s s' : BState} {b : Bool} (h : lheadingRule test fuel s false = .ok (b, s'))
    (hl : s.line < s.lineMax) : g3_KeepsGeo3 src0 P s s' := by
  unfold lheadingRule at h
  crack h
  · subst_vars; exact g3_KeepsGeo3.refl _ _ _
  · have h1 := (lazyScan_spec ht true _ _ _ _ ‹lazyScan _ _ _ _ _ = _›).1
    subst_vars; exact g3_KeepsGeo3.refl _ _ _
  · have hscan := ‹lazyScan _ _ _ _ _ = _›
    have hgl := ‹BState.getLines _ _ _ _ _ = _›
    have he := ‹psub _ _ = _›
    have hr := ‹BState.getMap _ _ _ = _›
    obtain ⟨h1, h2, _, _⟩ := lazyScan_spec ht true _ _ _ _ hscan
    subst_vars
    intro lo hg2 hs hk
    have hg := hg2.g2.geo
    obtain ⟨hab, oa, ob, ha, hb, rfl⟩ := getMap_ok5 hr
    obtain ⟨hle, rfl⟩ := psub_ok he
    simp only [Nat.add_sub_cancel] at ha hb hab
    obtain ⟨g1, g2, g3, g4⟩ := hg.map_ok hab ha hb
    have hlen := (List.getElem?_eq_some_iff.mp hb).1
    obtain ⟨oe, hpe⟩ : ∃ oe, _ = some oe := ⟨_, List.getElem?_eq_getElem (Nat.lt_of_le_of_lt (Nat.sub_le _ 1) hlen)⟩
    have hp := hP.lines _ _ _ _ _ oa _ hg2 hgl h2 ha hpe (hg2.g2.kept _ _ (Nat.le_refl _) hl ha)
    have hm := hg.end_mono (Nat.sub_le _ 1) hpe hb
    have hm2 := hg.map_ok (b := _ - 1) (by omega) ha hpe
    exact hk.push hg ha hb hab spanB_range
      (rangedB_text _ g2 g3 g4 hp (Nat.le_refl _) hm2.2.1 hm) (hs _ _ (Nat.le_refl _) ha).1
      g1 g2 (Nat.le_refl _) rfl rfl rfl (by simp [BState.push])

/-! ## block quote -/

theorem g3_nested_run3 {src0 : List Char} {P : InlP} {tok : Tok} (hsh : g3_TokGeo3 src0 P tok) {SN s2 : BState}
    (htok : tok SN = .ok s2) (hg : Geo3 src0 SN) {m : Nat} {x : LineOffset} {lo : Nat} (hline : SN.line = m)
    (hx : SN.offs[m]? = some x) (h1 : lo ≤ x.firstNonspace) (h2 : CutGe SN.src SN.blkIndent x lo)
    (hc : SN.children = []) : KidsOk P s2 lo :=
  hsh _ _ htok lo hg (startsGe_nested hg.g2.geo hline hx h1 h2) (kidsOk_nil hc lo)

theorem g3_blockquote_geo3 {src0 : List Char} {P : InlP} {tok : Tok} {test : Test} (hk : TokSpec tok)
    (hsh : g3_TokGeo3 src0 P tok) (ht : TestPure test) {fuel : Nat} {s s' : BState} {b : Bool}
    (h : blockquoteRule tok test fuel s false = .ok (b, s')) (hl : s.line < s.lineMax)
    (hi : IndentOk s) : g3_KeepsGeo3 src0 P s s' := by
  obtain ⟨i, hi, hi0⟩ := hi
  unfold blockquoteRule at h
  replace h := bind_ok.mp h
  obtain ⟨ind, hind, h⟩ := h
  dsimp only at h
  by_cases hge : ind ≥ 4
  · rw [if_pos hge] at h; crack h; subst_vars; exact g3_KeepsGeo3.refl _ _ _
  rw [if_neg hge] at h
  replace h := bind_ok.mp h
  obtain ⟨line, hline, h⟩ := h
  by_cases hhead : line.head? ≠ some '>'
  · rw [if_pos hhead] at h; crack h; subst_vars; exact g3_KeepsGeo3.refl _ _ _
  rw [if_neg hhead] at h
  have hhead := Classical.not_not.mp hhead
  simp only [Bool.false_eq_true, if_false] at h
  replace h := bind_ok.mp h
  obtain ⟨⟨n, old', S'⟩, hscan, h⟩ := h
  simp only at h
  replace h := bind_ok.mp h
  obtain ⟨s2, htok, h⟩ := h
  replace h := bind_ok.mp h
  obtain ⟨lvl, hlvl, h⟩ := h
  replace h := bind_ok.mp h
  obtain ⟨offs, hoffs, h⟩ := h
  replace h := bind_ok.mp h
  obtain ⟨e, he, h⟩ := h
  replace h := bind_ok.mp h
  obtain ⟨r, hr, h⟩ := h
  simp only [pure_ok, Prod.mk.injEq] at h
  obtain ⟨_, hs'⟩ := h
  obtain ⟨hsb, hmn, hup, _, hT, add, hadd, hrest⟩ := bqScan_spec ht _ _ _ _ _ _ _ _ hscan
  have href := bqScan_refines ht _ _ _ _ _ _ _ _ hscan
  obtain ⟨o0, o0', rest, le', ho0, hrw, ho0'⟩ := bqScan_first_entry ht hscan hl hi hi0 hline hhead
  have hfr := hk.frame _ _ htok
  have hmono := hk.mono _ _ htok
  simp only at hmono
  obtain ⟨_, rfl⟩ := psub_ok hlvl
  simp only [List.nil_append] at hadd
  subst hadd
  rw [hfr.offs] at hoffs
  simp only at hoffs
  rw [hrest] at hoffs
  cases hoffs
  obtain ⟨hle, rfl⟩ := psub_ok he
  subst hs'
  intro lo hg2 hs hkids
  have hg := hg2.g2.geo
  obtain ⟨hab, oa, ob, ha, hb, rfl⟩ := getMap_ok5 hr
  simp only at ha hb hab hle
  rw [ho0] at ha; cases ha
  obtain ⟨g1, g2, g3, g4⟩ := hg.map_ok hab ho0 hb
  -- the nested state
  have hgS : Geo S' := ⟨hT hg.table, href.sorted hg.sorted, bqScan_ind ht _ _ _ _ _ _ _ _ hscan hg.ind,
    by rw [hsb.src]; exact hg.small⟩
  have hgeo := bqRewrite_geo hrw
  have hcut := bqRewrite_cut hrw (hg.table _ _ ho0)
  have hkept := bqScan_kept ht s.line _ _ _ _ _ _ _ _ hscan hg.table
    (fun k o h1 h2 => absurd h2 (by omega))
  have hnest := g3_nested_run3 hsh htok (lo := o0.firstNonspace)
    ⟨⟨hgS.of_eq rfl rfl, hsb.src.trans hg2.g2.srcEq, href.sortedS hg2.g2.strict,
      fun k o h1 h2 h3 => hkept k o h1 h2 h3⟩,
      by rw [hsb.src]; exact g3_TermOk.of_refines href hg2.term⟩ rfl ho0' (by omega)
    (by simp only [hsb.src]; exact hcut) rfl
  have hend : ∀ e o, e < s2.line → s2.offs[e]? = some o → o.lineEnd ≤ ob.lineEnd := by
    intro e o he ho
    rw [hfr.offs] at ho
    simp only at ho
    obtain ⟨o1, ho1⟩ := href.get' ho
    have := href.entry e o1 o ho1 ho
    have := hg.end_mono (j := _ - 1) (by omega) ho1 hb
    omega
  refine hkids.push hg ho0 hb hab spanB_range
    (rangedB_container hnest (by rw [hfr.src]; exact hsb.src) g2 g3 g4 hend s2.nodeKind)
    (hs _ _ (Nat.le_refl _) ho0).1 g1 g2 (Nat.le_refl _) ?_ rfl ?_ ?_
  · simp [hfr.src, hsb.src]
  · simp [hsb.children]
  · simp; omega

/-! ## list -/

theorem g3_listItemBody_geo3 {src0 : List Char} {P : InlP} {tok : Tok} (hsh : g3_TokGeo3 src0 P tok) {S2 S3 : BState}
    {m : Nat} {re : Bool} (h : listItemBody tok S2 m re = .ok S3) (hg : Geo3 src0 S2) (hline : S2.line = m)
    (hc : S2.children = []) {x : LineOffset} {lo : Nat} (hx : S2.offs[m]? = some x)
    (h1 : lo ≤ x.firstNonspace) (h2 : CutGe S2.src S2.blkIndent x lo) : KidsOk P S3 lo := by
  unfold listItemBody at h
  crack h
  · subst_vars; exact kidsOk_nil (by exact hc) lo
  · have htok := ‹tok _ = _›
    subst_vars
    have := g3_nested_run3 hsh htok (g3_Geo3.of_eq hg rfl rfl rfl (Nat.le_refl _) (Nat.le_refl _)) (lo := lo) rfl hx h1 h2 hc
    exact ⟨this.ord, this.deep⟩

theorem g3_listItem_geo3 {src0 : List Char} {P : InlP} {tok : Tok} (hk : TokSpec tok) (hsh : g3_TokGeo3 src0 P tok)
    {S S' : BState} {m pos : Nat} {pee tight pee' tight' : Bool}
    (h : listItem tok S m pos pee tight = .ok (S', tight', pee'))
    (hline : S.line = m) (hlt : m < S.lineMax) (hio : IndentOk S) :
    ∀ lo, Geo3 src0 S → FnGe S lo → KidsOk P S lo → KidsOk P S' lo := by
  have hspec := listItem_spec hk h hline hlt
  unfold listItem at h
  replace h := bind_ok.mp h
  obtain ⟨o, ho, h⟩ := h
  replace h := bind_ok.mp h
  obtain ⟨⟨o', indent, re⟩, hrw, h⟩ := h
  simp only at h
  replace h := bind_ok.mp h
  obtain ⟨S2, hS2, h⟩ := h
  replace h := bind_ok.mp h
  obtain ⟨S3, hbody, h⟩ := h
  replace h := bind_ok.mp h
  obtain ⟨pe, hpe, h⟩ := h
  split at h
  · cases h
  rename_i li hli
  replace h := bind_ok.mp h
  obtain ⟨S5, hS5, h⟩ := h
  replace h := bind_ok.mp h
  obtain ⟨e, he, h⟩ := h
  replace h := bind_ok.mp h
  obtain ⟨r, hr, h⟩ := h
  simp only [pure_ok, Prod.mk.injEq] at h
  obtain ⟨hS', _, _⟩ := h
  subst hS'
  obtain ⟨hm, hS2eq⟩ := setOff_ok hS2
  obtain ⟨hm5, rfl⟩ := setOff_ok hS5
  have ho' := off_ok ho
  obtain ⟨hok, hc⟩ := itemRewrite_spec hrw
  have hgeo := itemRewrite_geo hrw
  simp only at hS2 hS2eq hbody hr he
  intro lo hgg hs hkids
  have hg := hgg.g2.geo
  have hcond : S2.isEmpty m = true ∨ IndentOk { S2 with line := m } := by
    refine item_cond (x := o') (by rw [hS2eq]; simp [hm]) ?_
    rw [hS2eq]
    exact hc
  obtain ⟨hfr, hlt', hle'⟩ := listItemBody_spec hk hbody (by rw [hS2eq]; exact hline)
    (by rw [hS2eq]; exact hlt) hcond
  have href : Refines S.offs S2.offs := by
    rw [hS2eq]; exact Refines.set ho' hgeo.1 hgeo.2.1 hgeo.2.2
  have hT2 : TableOk S2 :=
    TableOk.setOff (s := { S with nodeKind := .listItem, children := [], listIndent := some S.blkIndent, blkIndent := indent, tight := true })
      (fun k o ho => hg.table k o ho) hS2 (hok (hg.table _ _ ho'))
  have hg2 : Geo S2 := ⟨hT2, href.sorted hg.sorted,
    by rw [hS2eq]; exact hg.ind.set m (itemRewrite_ind hrw (hg.ind _ _ ho') (hg.table _ _ ho').bounds.1),
    by rw [hS2eq]; exact hg.small⟩
  -- the strengthened part
  obtain ⟨hi0, hi1, hi2⟩ := itemRewrite_indent hrw (hg.table _ _ ho') (hg.ind _ _ ho') hg.small
  obtain ⟨iv, hiv, hiv0⟩ := hio
  rw [hline, lineIndent_of_off ho'] at hiv
  simp only [Except.ok.injEq] at hiv
  have hblk : Lines.usizeAsI32 S.blkIndent ≤ Lines.usizeAsI32 indent := by
    rw [usizeAsI32_small (by omega), usizeAsI32_small (by omega)]
    omega
  have hkeptm := itemRewrite_kept hrw (hg.table _ _ ho') (hg.ind _ _ ho') hg.small
  have hg22 : Geo3 src0 S2 := by
    refine ⟨⟨hg2, by rw [hS2eq]; exact hgg.g2.srcEq, href.sortedS hgg.g2.strict, ?_⟩,
      by rw [show S2.src = S.src by rw [hS2eq]]; exact g3_TermOk.of_refines href hgg.term⟩
    rw [hS2eq]
    intro k x hk1 hk2 hx
    simp only [List.getElem?_set] at hx
    split at hx
    · simp at hx
      obtain ⟨_, rfl⟩ := hx
      exact hkeptm
    · exact (hgg.g2.kept k x (by simpa [hline] using hk1) hk2 hx).mono hblk
  have hx2 : S2.offs[m]? = some o' := by rw [hS2eq]; simp [hm]
  have hcut := itemRewrite_cut hrw (hg.table _ _ ho') (hg.ind _ _ ho') hg.small
  have hnest : KidsOk P S3 o.firstNonspace :=
    g3_listItemBody_geo3 hsh hbody hg22 (by rw [hS2eq]; exact hline) (by rw [hS2eq]) hx2 hgeo.2.2
      (by rw [hS2eq]; exact hcut)
  obtain ⟨hle, rfl⟩ := psub_ok he
  obtain ⟨hab, oa, ob, ha, hb, rfl⟩ := getMap_ok5 hr
  have hrestore : (S3.offs.set m o) = S.offs := by
    rw [hfr.offs, hS2eq]
    simp only [List.set_set]
    rw [← (List.getElem?_eq_some_iff.mp ho').2]
    exact List.set_getElem_self _
  simp only [hrestore] at ha hb hab hle
  rw [ho'] at ha; cases ha
  obtain ⟨g1, g2, g3, g4⟩ := hg.map_ok hab ho' hb
  have hend : ∀ e x, e < S3.line → S3.offs[e]? = some x → x.lineEnd ≤ ob.lineEnd := by
    intro e x he hx
    rw [hfr.offs] at hx
    obtain ⟨x1, hx1⟩ := href.get' hx
    have := href.entry e x1 x hx1 hx
    have := hg.end_mono (j := S3.line - 1) (by omega) hx1 hb
    omega
  have hsrc3 : S3.src = S.src := by rw [hfr.src, hS2eq]
  subst hline
  refine hkids.push hg ho' hb hab spanB_range
    (rangedB_container hnest hsrc3 g2 g3 g4 hend S3.nodeKind)
    (hs _ _ (Nat.le_refl _) ho') g1 g2 (Nat.le_refl _) ?_ ?_ ?_ ?_
  · simp [hsrc3]
  · simp [hrestore]
  · simp
  · simp; omega

theorem g3_listLoop_geo3 {src0 : List Char} {P : InlP} {tok : Tok} {test : Test} (hk : TokSpec tok)
    (hsh : g3_TokGeo3 src0 P tok) (ht : TestPure test) {ordered : Bool} {mc : Char} :
    ∀ (fuel : Nat) (S : BState) (m pos : Nat) (pee tight : Bool) (n : Nat) (tight' : Bool) (S' : BState),
      listLoop tok test ordered mc fuel S m pos pee tight = .ok (n, tight', S') →
      S.line = m → m < S.lineMax → IndentOk S →
      ∀ lo, Geo3 src0 S → FnGe S lo → KidsOk P S lo → KidsOk P S' lo := by
  intro fuel
  induction fuel with
  | zero => intro S m pos pee tight n tight' S' h; simp [listLoop] at h
  | succ f ih =>
    intro S m pos pee tight n tight' S' h hline hlt hio
    simp only [listLoop] at h
    crack h
    all_goals (try subst_vars)
    · rename_i wi wc hc _ hnone _ hitem
      obtain ⟨S1, t1, p1⟩ := wi
      obtain ⟨c, S2⟩ := wc
      obtain ⟨rfl, _⟩ := listContinue_spec ht hc
      exact g3_listItem_geo3 hk hsh hitem rfl hlt hio
    · rename_i wi wc hc _ p hsome _ hitem
      obtain ⟨S1, t1, p1⟩ := wi
      obtain ⟨c, S2⟩ := wc
      obtain ⟨hfr, h1, h2⟩ := listItem_spec hk hitem rfl hlt
      obtain ⟨rfl, hc2⟩ := listContinue_spec ht hc
      simp only at hsome h hc2
      have hlt2 := hc2 (by rw [hsome]; simp)
      have hio2 : IndentOk S2 := by
        simp only at hc
        rw [hsome] at hc
        exact listContinue_ind ht hc
      intro lo hg hs hkids
      exact ih _ _ _ _ _ _ _ _ h rfl hlt2 hio2 lo (g3_Geo3.of_frame hg hfr (Nat.le_of_lt h1))
        (fun k o hk ho => hs k o (by omega) (by rw [← hfr.offs]; exact ho))
        (g3_listItem_geo3 hk hsh hitem rfl hlt hio lo hg hs hkids)

theorem g3_list_rule_geo3 {src0 : List Char} {P : InlP} {tok : Tok} {test : Test} (hk : TokSpec tok)
    (hsh : g3_TokGeo3 src0 P tok) (ht : TestPure test) {fuel : Nat} {s s' : BState} {b : Bool}
    (h : listRule tok test fuel s false = .ok (b, s')) (hl : s.line < s.lineMax) (hi : IndentOk s) :
    g3_KeepsGeo3 src0 P s s' := by
  unfold listRule at h
  crack h
  all_goals (try subst_vars)
  all_goals (try (exact g3_KeepsGeo3.refl _ _ _))
  all_goals (
    have hloop := ‹listLoop _ _ _ _ _ _ _ _ _ _ = _›
    have htight := ‹(if _ then tightenItems _ else _) = Except.ok _›
    have he := ‹psub _ 1 = Except.ok (_ : Nat)›
    have hr := ‹BState.getMap _ _ _ = _›
    rename_i wl _ cs _ _ _ _ _ _ _
    obtain ⟨n, t, S'⟩ := wl
    obtain ⟨hfr, hline', hmn, _⟩ := listLoop_spec hk ht _ _ _ _ _ _ _ _ _ hloop rfl hl
    intro lo hg2 hs hkids
    have hg := hg2.g2.geo
    obtain ⟨hab, oa, ob, ha, hb, rfl⟩ := getMap_ok5 hr
    simp only at ha hb hab hfr hline' hmn htight
    have hoffs : S'.offs = s.offs := hfr.offs
    have hsrc : S'.src = s.src := hfr.src
    rw [hoffs] at ha hb
    obtain ⟨g1, g2, g3, g4⟩ := hg.map_ok hab ha hb
    have hinner := g3_listLoop_geo3 hk hsh ht _ _ _ _ _ _ _ _ _ hloop rfl hl hi oa.firstNonspace
      (g3_Geo3.of_eq hg2 rfl rfl rfl (Nat.le_refl _) (Nat.le_refl _)) (fun k o hk ho => by
        have hk' : s.line ≤ k := hk
        have ho' : s.offs[k]? = some o := ho
        rcases Nat.lt_or_ge s.line k with hlt | hge
        · have h1 := hg.sorted s.line k oa o hlt ha ho'
          have h2 := (hg.table _ _ ha).bounds
          have h3 := (hg.table _ _ ho').bounds
          omega
        · have : k = s.line := by omega
          subst this
          rw [ha] at ho'; cases ho'
          exact Nat.le_refl _) (kidsOk_nil rfl _)
    obtain ⟨⟨hi', hord, hbd⟩, hdeep⟩ := hinner
    rw [hsrc] at hdeep
    obtain ⟨hle, rfl⟩ := psub_ok he
    have hord2 : OrderedB P oa.firstNonspace ob.lineEnd S'.children := by
      refine hord.widen (Nat.le_refl _) ?_
      rcases hbd with hbd | ⟨e, o, he, hoe, hle⟩
      · omega
      · rw [hoffs] at hoe
        have := hg.end_mono (j := n - 1) (by omega) hoe hb
        omega
    have hcs : OrderedB P oa.firstNonspace ob.lineEnd cs ∧ ∀ c ∈ cs, RangedB P s.src c := by
      split at htight
      · exact tightenItems_geo _ _ _ _ htight hord2 hdeep
      · simp [pure, Except.pure] at htight; subst htight; exact ⟨hord2, hdeep⟩
    have hnode : RangedB P s.src ⟨S'.nodeKind, some (oa.firstNonspace, ob.lineEnd), cs⟩ := by
      refine .mk _ (fun x y h => ?_) (fun h => by cases h) hcs.2
      cases h
      exact ⟨g2, g3, g4, hcs.1⟩
    refine hkids.push hg ha hb hab spanB_range hnode (hs _ _ (Nat.le_refl _) ha).1 g1 g2 (Nat.le_refl _)
      ?_ ?_ rfl ?_
    · simp [hsrc]
    · simp [hoffs]
    · simp [hline']; omega)

/-! ## the chain and the tokenizer -/

theorem g3_runRule_geo3 {src0 : List Char} {P : InlP} (hP : InlSpec3 src0 P) {cfg : Cfg} {tok : Tok} {test : Test}
    (hk : TokSpec tok) (hsh : g3_TokGeo3 src0 P tok) (ht : TestPure test) (fuel : Nat) (r : RuleId)
    {s s' : BState} {b : Bool} (h : runRule cfg tok test fuel r s false = .ok (b, s'))
    (hl : s.line < s.lineMax) (hi : IndentOk s) : g3_KeepsGeo3 src0 P s s' := by
  cases r <;> simp only [runRule] at h
  · exact g3_KeepsGeo_to3 (code_geo h)
  · exact g3_KeepsGeo_to3 (fence_geo h)
  · exact g3_blockquote_geo3 hk hsh ht h hl hi
  · exact g3_KeepsGeo_to3 (hr_geo h)
  · exact g3_list_rule_geo3 hk hsh ht h hl hi
  · exact g3_KeepsGeo_to3 (reference_geo ht h)
  · exact g3_heading_geo3 hP h
  · exact g3_lheading_geo3 hP ht h hl
  · exact g3_paragraph_geo3 hP ht h hl

theorem g3_runChain_geo3 {src0 : List Char} {P : InlP} {run : RuleId → BState → Bool → Res} (hr : RunSpec run)
    (hsh : ∀ r s b s', run r s false = .ok (b, s') → s.line < s.lineMax → IndentOk s → g3_KeepsGeo3 src0 P s s') :
    ∀ (chain : List RuleId) (s : BState) (b : Bool) (s' : BState),
      runChain run chain s false = .ok (b, s') → s.line < s.lineMax → IndentOk s → g3_KeepsGeo3 src0 P s s' := by
  intro chain
  induction chain with
  | nil => intro s b s' h _ _; simp [runChain] at h; rw [← h.2]; exact g3_KeepsGeo3.refl _ _ _
  | cons r rs ih =>
    intro s b s' h hl hi
    simp only [runChain] at h
    split at h
    · cases h
    · rename_i s1 h1
      cases h
      exact hsh _ _ _ _ h1 hl hi
    · rename_i s1 h1
      have := hr.false_same _ _ _ h1
      subst this
      exact ih _ _ _ h hl hi

/-- with the paragraph rule in the chain the fallback is dead code -/
theorem g3_afterChain_geo3 {src0 : List Char} {P : InlP} {s s' : BState} {prev : Nat}
    (h : afterChain true s prev = .ok s') : g3_KeepsGeo3 src0 P s s' := by
  unfold afterChain at h
  crack h
  exact g3_KeepsGeo3.refl _ _ _

theorem g3_tokLoop_geo3 {src0 : List Char} {P : InlP} {cfg : Cfg}
    {run : RuleId → BState → Bool → Res} (hr : RunSpec run)
    (hsh : ∀ r s b s', run r s false = .ok (b, s') → s.line < s.lineMax → IndentOk s → g3_KeepsGeo3 src0 P s s')
    (hpara : ∀ s b s', runChain run cfg.chain s false = .ok (b, s') → b = true) :
    ∀ (fuel : Nat) (he : Bool) (s s' : BState), tokLoop cfg run fuel he s = .ok s' → g3_KeepsGeo3 src0 P s s' := by
  intro fuel
  induction fuel with
  | zero => intro he s s' h; simp [tokLoop] at h
  | succ f ih =>
    intro he s s' h
    simp only [tokLoop] at h
    obtain ⟨hs1, hs2, hs3, hs4⟩ := skipEmpty_spec s.offs s.lineMax s.line
    generalize Lines.skipEmptyLines s.offs s.lineMax s.line = l' at h hs1 hs2 hs3 hs4
    crack h
    all_goals (try subst_vars)
    · exact g3_KeepsGeo3.refl _ _ _
    · exact fun lo hg hs hk => hk.of_eq rfl rfl rfl hs1
    · exact fun lo hg hs hk => hk.of_eq rfl rfl rfl hs1
    · exact fun lo hg hs hk => hk.of_eq rfl rfl rfl (by simp; omega)
    all_goals (
      have hchain := ‹runChain _ _ _ _ = _›
      have hafter := ‹afterChain _ _ _ = _›
      have hind := ‹BState.lineIndent _ _ = _›
      have hlt : l' < s.lineMax := by omega
      have hio : IndentOk ({ s with line := l' } : BState) := ⟨_, hind, by omega⟩
      obtain ⟨h13, hlt3, _⟩ := tok_iter hr (s1 := { s with line := l' }) rfl hlt hio hchain hafter
      have hfr2 := runChain_frame hr hchain hlt hio
      have hb := hpara _ _ _ hchain
      intro lo hg hs hk
      have hg1 : Geo3 src0 ({ s with line := l' } : BState) := g3_Geo3.of_eq hg rfl rfl rfl (Nat.le_refl _) hs1
      have hst1 : StartsGe ({ s with line := l' } : BState) lo := hs.of_eq rfl rfl rfl hs1
      have hk1 : KidsOk P ({ s with line := l' } : BState) lo := hk.of_eq rfl rfl rfl hs1
      have hk2 := g3_runChain_geo3 hr hsh _ _ _ _ hchain hlt hio lo hg1 hst1 hk1
      have hk3 := g3_afterChain_geo3 (src0 := src0) (P := P) (by rw [← hb]; exact hafter) lo
        (g3_Geo3.of_frame hg1 hfr2.1 hfr2.2) (hst1.of_frame hfr2.1 hfr2.2) hk2
      refine ih _ _ _ h lo (g3_Geo3.of_eq (g3_Geo3.of_frame hg1 h13 (Nat.le_of_lt hlt3)) rfl rfl rfl (Nat.le_refl _) ?_)
        ((hst1.of_frame h13 (Nat.le_of_lt hlt3)).of_eq rfl rfl rfl ?_)
        (hk3.of_eq rfl rfl rfl ?_)
      all_goals (simp))

/-- the tokenizer keeps the strengthened invariant (paragraph rule in the chain) -/
theorem g3_tokenize_geo3 {src0 : List Char} {P : InlP} (cfg : Cfg) (hpara : Cfg.hasPara cfg = true)
    (hP : InlSpec3 src0 P) : ∀ fuel : Nat, g3_TokGeo3 src0 P (tokenize cfg fuel) := by
  intro fuel
  induction fuel with
  | zero => intro s s' h; simp [tokenize, engine] at h
  | succ f ih =>
    intro s s' h
    simp only [tokenize, engine] at h
    have hk := tokenize_tokSpec cfg f
    have ht := testRules_pure cfg f
    refine g3_tokLoop_geo3 (runRule_spec hk ht _)
      (fun r s b s' h hl hi => g3_runRule_geo3 hP hk ih ht _ r h hl hi) ?_ _ _ _ _ h
    intro s b s' hc
    exact runChain_para _ _ _ _ (by simpa [Cfg.hasPara] using hpara) hc

/-- **the block tree, with the strengthened claim about placeholders** -/
theorem parseBlocks_geo3 {P : InlP} {cfg : Cfg} {src : List Char} (hpara : Cfg.hasPara cfg = true)
    (hP : InlSpec3 src P) {root : BNode} {refs : Refs.RefMap}
    (hsmall : 4 * Lines.byteLen src + 8 < 2147483648)
    (h : parseBlocks cfg src = .ok (root, refs)) :
    root.range = some (0, Lines.byteLen src) ∧ RangedB P src root := by
  unfold parseBlocks at h
  split at h
  · cases h
  · rename_i s hs
    simp only [Except.ok.injEq, Prod.mk.injEq] at h
    obtain ⟨rfl, _⟩ := h
    refine ⟨rfl, ?_⟩
    have hfr := (tokenize_spec cfg _ _ _ hs).frame
    have hg2 := g3_geo3_fresh src hsmall .root []
    have hg := hg2.g2.geo
    have hk := g3_tokenize_geo3 cfg hpara hP _ _ _ hs 0 hg2
      (fun k o _ _ => ⟨Nat.zero_le _, fun _ _ => Nat.zero_le _⟩) (kidsOk_nil rfl 0)
    obtain ⟨⟨hi, hord, hbd⟩, hdeep⟩ := hk
    have hsrc : s.src = src := hfr.src
    rw [hsrc] at hdeep
    refine .mk _ (fun a b h => ?_) (fun h => by cases h) hdeep
    simp only [Option.some.injEq, Prod.mk.injEq] at h
    obtain ⟨rfl, rfl⟩ := h
    refine ⟨Nat.zero_le _, ⟨[], src, rfl, rfl⟩, ⟨src, [], by simp, rfl⟩, hord.widen (Nat.le_refl _) ?_⟩
    rcases hbd with hbd | ⟨e, o, he, hoe, hle⟩
    · omega
    · rw [hfr.offs] at hoe
      have := (hg.table _ _ hoe).bounds
      simp only [BState.fresh] at this
      omega

/-! ## applicability -/

/-- `InlSpec3` is satisfiable: the trivial claim -/
theorem g3_inlSpec3_triv (src0 : List Char) : InlSpec3 src0 (fun _ _ _ _ => True) :=
  ⟨fun _ _ _ _ _ _ _ _ _ _ _ _ _ => trivial, fun _ _ _ _ _ _ _ _ _ _ => trivial⟩

/-- what `Geo3` adds over `Geo2`, as a claim about placeholders: the stretch `[a, b]` of every
    `InlineRoot` ends at the end of the document or in front of a line break (third clause of `PFull`) -/
theorem g3_inlSpec3_lineEnd (src0 : List Char) :
    InlSpec3 src0 (fun _ _ _ b => b = InlineOps.byteLen src0 ∨ C05R.BrkAt src0 b) := by
  refine ⟨?_, ?_⟩
  · intro s b e c m ob oe hg _ _ _ hoe _
    have := hg.term _ _ hoe
    rw [hg.g2.srcEq] at this
    exact this
  · intro s o line content textPos textMax hg ho _ _
    have := hg.term _ _ ho
    rw [hg.g2.srcEq] at this
    exact this

/-- a quote over a CR LF, a blank line, a list item with a lazy continuation behind a bare CR,
    no final terminator -/
def g3_exDoc : List Char := "> a\r\n> b\n\n- c\rd".toList

/-- `parseBlocks_geo3` applies (non-vacuity), with the trivial and with the line-end claim -/
example : ∃ root refs, parseBlocks exCfg g3_exDoc = .ok (root, refs) ∧ root.range = some (0, 15) ∧
    RangedB (fun _ _ _ _ => True) g3_exDoc root ∧
    RangedB (fun _ _ _ b => b = InlineOps.byteLen g3_exDoc ∨ C05R.BrkAt g3_exDoc b) g3_exDoc root := by
  have h : (parseBlocks exCfg g3_exDoc).toOption.isSome = true := by decide +kernel
  cases hp : parseBlocks exCfg g3_exDoc with
  | error e => rw [hp] at h; cases h
  | ok v =>
    obtain ⟨root, refs⟩ := v
    have hsmall : 4 * Lines.byteLen g3_exDoc + 8 < 2147483648 := by decide +kernel
    have h1 := parseBlocks_geo3 (by decide) (g3_inlSpec3_triv _) hsmall hp
    have h2 := parseBlocks_geo3 (by decide) (g3_inlSpec3_lineEnd _) hsmall hp
    exact ⟨root, refs, rfl, h1.1, h1.2, h2.2⟩

/-- `TermOk` does not follow from `Geo2`'s table clauses: the table `[(0,1),(2,3)]` over "aXb" is
    strictly separated and LF-free, but byte 1 is no line break -/
example : ¬ C05R.TermOk "aXb".toList [⟨0, 1, 0, 0⟩, ⟨2, 3, 2, 0⟩] := by
  intro h
  rcases h 0 _ rfl with h | ⟨p, c, q, e, hp, hc⟩
  · revert h; decide
  · simp only at hp
    match p, e, hp with
    | [x], e, _ =>
      simp at e
      obtain ⟨_, rfl, _⟩ := e
      rcases hc with hc | hc <;> cases hc
    | [], _, hp => simp [InlineOps.byteLen] at hp
    | x :: y :: r, _, hp =>
      have := Char.utf8Size_pos x
      have := Char.utf8Size_pos y
      simp [InlineOps.byteLen] at hp
      omega

end MdIt.Block
