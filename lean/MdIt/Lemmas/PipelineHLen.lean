/-
  The content of every placeholder of a TAB-FREE document is no longer than the source
  (`BlockH.parseBlocksH_content_len`), through the geometric invariant of `Lemmas/PipelineHGeo.lean` with the
  placeholder claim `Block.PLen`.

  * paragraph / setext heading: `get_lines` — the entries of the table (`C05I.Seg`) telescope: without a
    split tab each content segment fits between the source positions of its entry and the next one
    (`C05I.seg_len`), the last one ends at the last line's `line_end ≤ |src|`;
  * ATX heading: a slice of a slice of the source (`C05R.fa_heading_cut`).
-/
import MdIt.Lemmas.PipelineHGeo
import MdIt.Lemmas.C05RestFaith

namespace MdIt.C05I
open MdIt.Lines
open MdIt.InlineOps (getSourcePosFor Srcmap)

/-- without virtual-space entries the content behind key `x.1` fits between `x.2` and `hi` -/
theorem seg_len {c : List Char} {hi : Nat} : ∀ (m : Srcmap) (x : Nat × Nat),
    SegAll (Seg False c 0 hi) (x :: m) → x.1 ≤ byteLen c ∧ x.2 + (byteLen c - x.1) ≤ hi
  | [], x, hs => by
    have h : Seg False c 0 hi x none := hs.1
    exact h
  | y :: r, x, hs => by
    have h : Seg False c 0 hi x (some y) := hs.1
    have ih := seg_len r y hs.2
    obtain ⟨h1, _, ⟨hF, _⟩ | ⟨h3, _, _⟩⟩ := h
    · exact hF.elim
    · constructor <;> omega

end MdIt.C05I

namespace MdIt.Block
open MdIt.Lines (LineOffset)

/-- the claim about a placeholder: in a tab-free document its content is no longer than the source -/
def PLen (src0 : List Char) : InlP := fun c _ _ _ => '\t' ∉ src0 → Lines.byteLen c ≤ Lines.byteLen src0

theorem inlSpec2_plen (src0 : List Char) : InlSpec2 src0 (PLen src0) := by
  refine ⟨?_, ?_⟩
  · intro s b e c m ob oe hg hgl hbe hob hoe hkept htab
    have hgl' := C05I.getLines_lift hgl
    obtain ⟨hs, v, rest, rfl⟩ := C05I.getLines_seg (V := '\t' ∈ s.src) hg.geo.table (Nat.zero_le _)
      hg.strict.orderD id hbe hgl' hoe
    have hs' := C05I.SegAll.imp (C05I.Seg.noV (by rw [hg.srcEq]; exact htab)) hs
    have h1 := C05I.seg_len rest (0, v) hs'
    have hb := (hg.geo.table _ _ hoe).bounds
    rw [hg.srcEq] at hb
    simp only at h1
    omega
  · intro s o line content textPos textMax hg ho hline hcontent htab
    have h1 : Lines.getLine s.src s.offs s.line = .ok line := liftL_ok5 hline
    unfold Lines.getLine at h1
    rw [ho] at h1
    simp only at h1
    obtain ⟨hc, _⟩ := C05R.fa_heading_cut (hg.geo.table _ _ ho) h1 (liftL_ok5 hcontent)
    rw [hg.srcEq] at hc
    obtain ⟨p, q, hsrc, _, _⟩ := hc
    have := congrArg InlineOps.byteLen hsrc
    rw [C05.byteLen_append, C05.byteLen_append] at this
    rw [C05I.linesLen_eq, C05I.linesLen_eq]
    omega

end MdIt.Block

namespace MdIt.BlockH
open MdIt.Block

/-- **the content of every placeholder of a tab-free document is no longer than the source** (paragraph
    rule in the ten-rule chain, `i32` bound of the block side) -/
theorem parseBlocksH_content_len (cfg : CfgH) (src : List Char)
    (hsmall : 4 * Lines.byteLen src + 8 < 2147483648) (hpara : hasParaH cfg.chain = true)
    (htab : '\t' ∉ src) {root : BNode} {refs : Refs.RefMap} (hb : parseBlocksH cfg src = .ok (root, refs)) :
    AllInl (fun c _ => Lines.byteLen c ≤ Lines.byteLen src) root := by
  obtain ⟨hr, hg⟩ := parseBlocksH_geo2 hpara (inlSpec2_plen src) hsmall hb
  refine hg.allInl (fun c m a b h => h htab) ?_
  intro c m _ hnone
  rw [hr] at hnone
  cases hnone

end MdIt.BlockH
