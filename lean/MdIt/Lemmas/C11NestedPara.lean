/-
  C11 inside containers, code SPANS, block level: a one-line paragraph wrapped in containers keeps its
  inline text (`parseBlocks_para_nested`).  The forest version (`wrapForest`: the innermost children are a
  list, since `mark_tight_paragraphs` may unwrap the paragraph in a list item) of `parseBlocks_wrap1` /
  `parseBlocks_nested` in `MdIt/Lemmas/C11Nested.lean`, for documents of ONE line (every position of the tree
  lies on line 0, so the byte maps of C06 are `+ width`).
-/
import MdIt.Lemmas.C11Nested
set_option linter.unusedSimpArgs false
set_option linter.unusedVariables false

namespace MdIt.C11N
open MdIt.Block MdIt.Block.Li
open MdIt.Lines (NoTerm lead IsTerminator)

/-! ## 10. a one-line paragraph inside containers: the inline text is the same -/

/-- the wrapper's nodes around a list of children -/
def Wrapper.nodeL (x : Wrapper) (r : Nat × Nat) (cs : List BNode) : BNode :=
  if x.isQuote then ⟨x.kind, some r, cs⟩ else ⟨x.kind, some r, [⟨.listItem, some r, cs⟩]⟩

/-- the wrapper nodes (all up to `E`) around the innermost children `leaf` -/
def wrapForest (E : Nat) : List Wrapper → Nat → List BNode → List BNode
  | [], _, leaf => leaf
  | x :: ws, off, leaf => [x.nodeL (off, E) (wrapForest E ws (off + x.width) leaf)]

/-- the placeholder the inline pass replaces: inline text `c`, the per-line table `m` moved by `W` bytes -/
def inlineRootAt (c : List Char) (m : List (Nat × Nat)) (W : Nat) : BNode :=
  ⟨.inlineRoot c (m.map fun kv => (kv.1, kv.2 + W)), none, []⟩

/-- the paragraph (from byte `W + a` to `E`) over the placeholder — or, unwrapped by
    `mark_tight_paragraphs` (`tg`), the placeholder alone -/
def paraLeaf (c : List Char) (m : List (Nat × Nat)) (a W E : Nat) (tg : Bool) : List BNode :=
  if tg then [inlineRootAt c m W] else [⟨.paragraph, some (W + a, E), [inlineRootAt c m W]⟩]

theorem reloc_inlineRootAt (σ : Nat → Nat) (d B : Nat) (hσ : ∀ p, p ≤ B → σ p = p + d) (c : List Char)
    (m : List (Nat × Nat)) (W : Nat) (hm : ∀ kv ∈ m, kv.2 + W ≤ B) :
    relocNode σ (inlineRootAt c m W) = inlineRootAt c m (W + d) := by
  simp only [inlineRootAt, relocNode, relocNodes, relocKind, Option.map_none, List.map_map]
  congr 2
  apply List.map_congr_left
  intro kv hkv
  simp only [Function.comp]
  rw [hσ _ (hm kv hkv)]
  congr 1
  omega

theorem reloc_paraLeaf (σ : Nat → Nat) (d B E E' : Nat) (hσ : ∀ p, p ≤ B → σ p = p + d) (hE : σ E = E')
    (c : List Char) (m : List (Nat × Nat)) (a W : Nat) (ha : W + a ≤ B) (hm : ∀ kv ∈ m, kv.2 + W ≤ B) (tg : Bool) :
    relocNodes σ (paraLeaf c m a W E tg) = paraLeaf c m a (W + d) E' tg := by
  have hi := reloc_inlineRootAt σ d B hσ c m W hm
  cases tg
  · simp only [paraLeaf, Bool.false_eq_true, if_false, relocNodes, relocNode, hi, Option.map_some, hσ _ ha, hE,
      show relocKind σ Kind.paragraph = Kind.paragraph from rfl]
    rw [Nat.add_right_comm]
  · simp only [paraLeaf, if_true, relocNodes, hi]

theorem reloc_wrapForest (σ : Nat → Nat) (d B E E' : Nat) (hσ : ∀ a, a ≤ B → σ a = a + d) (hE : σ E = E')
    (leaf leaf' : List BNode) (hl : relocNodes σ leaf = leaf') :
    ∀ (ws : List Wrapper) (off : Nat), off + widthAll ws ≤ B →
      relocNodes σ (wrapForest E ws off leaf) = wrapForest E' ws (off + d) leaf'
  | [], off, _ => hl
  | x :: ws, off, h => by
    simp only [widthAll] at h
    have ih := reloc_wrapForest σ d B E E' hσ hE leaf leaf' hl ws (off + x.width) (by omega)
    rw [Nat.add_right_comm] at ih
    simp only [wrapForest, Wrapper.nodeL]
    split <;>
      simp only [relocNode, relocNodes, relocKind_wrapper, Option.map_some, hσ off (by omega), hE, ih,
        (show relocKind σ Kind.listItem = Kind.listItem from rfl)]

theorem markTight_paraLeaf (c : List Char) (m : List (Nat × Nat)) (a W E : Nat) (tg : Bool) :
    markTight (paraLeaf c m a W E tg) = paraLeaf c m a W E true := by
  cases tg <;> simp [paraLeaf, markTight, inlineRootAt]

theorem markTight_wrapForest (E : Nat) (x : Wrapper) (ws : List Wrapper) (off : Nat) (leaf : List BNode) :
    markTight (wrapForest E (x :: ws) off leaf) = wrapForest E (x :: ws) off leaf := by
  simp only [wrapForest, Wrapper.nodeL]
  split <;> (cases x <;> simp [markTight, Wrapper.kind])

/-- is the paragraph unwrapped after one more wrapper: a list item directly around the paragraph is tight
    (the run on a one-paragraph document ends `tight`), anything further out leaves the leaf alone -/
def stepTight (x : Wrapper) (ws : List Wrapper) (tg : Bool) : Bool :=
  match ws with
  | [] => (!x.isQuote) || tg
  | _ => tg

/-- the paragraph is unwrapped iff the INNERMOST wrapper is a list item -/
def tightOf : List Wrapper → Bool
  | [] => false
  | x :: ws => stepTight x ws (tightOf ws)

/-- **one wrapper around a one-line paragraph document** (the forest version of `parseBlocks_wrap1`) -/
theorem parseBlocks_wrap1_line (cfg : Cfg) (hmn : 0 < cfg.maxNesting) (c : List Char) (m : List (Nat × Nat)) (a : Nat)
    (ws : List Wrapper) (l' : List Char) (g : Good [l']) (hf : FirstLineOk l')
    (ha : widthAll ws + a ≤ Lines.byteLen l') (hm : ∀ kv ∈ m, kv.2 + widthAll ws ≤ Lines.byteLen l')
    (x : Wrapper) (hx : x.Ok) (hch : ChainFor cfg.chain [x])
    (hhr : .hr ∈ cfg.chain.takeWhile (· ≠ .list) → x.isQuote = false → hrLook 0 (x.mk ++ ' ' :: l') = false)
    (hsize : Lines.byteLen (docOf [l']) + 20 < 2147483648) (tg : Bool)
    (htight : ws = [] → ∀ t, tokenize cfg (fuelFor cfg (docOf [l'])) (BState.fresh (docOf [l']) .root []) = .ok t →
      t.tight = true)
    (ih : parseBlocks cfg (docOf [l']) =
      .ok (⟨.root, some (0, Lines.byteLen (docOf [l'])),
            wrapForest (Lines.byteLen (docOf [l'])) ws 0 (paraLeaf c m a (widthAll ws) (Lines.byteLen (docOf [l'])) tg)⟩, [])) :
    parseBlocks { cfg with maxNesting := cfg.maxNesting + x.cost } (docOf [x.pre 0 ++ l']) =
      .ok (⟨.root, some (0, Lines.byteLen (docOf [x.pre 0 ++ l'])),
            wrapForest (Lines.byteLen (docOf [x.pre 0 ++ l'])) (x :: ws) 0
              (paraLeaf c m a (widthAll (x :: ws)) (Lines.byteLen (docOf [x.pre 0 ++ l'])) (stepTight x ws tg))⟩, []) := by
  have hwrap := wrap1_docOf hx g.ne g.noTerm g.last
  have hcons : wrapLines x [l'] = [x.pre 0 ++ l'] := by simp [wrapLines_cons]
  rw [hcons] at hwrap
  have g2 : Good [x.pre 0 ++ l'] := by rw [← hcons]; exact g.wrap hx
  have hn : (Lines.linesT (docOf [l'])).length = 1 := by rw [g.linesT, withTerms_length]; rfl
  obtain ⟨c0, p0, hp0, hc0⟩ := (Wrapper.preFacts hx).head
  have hlead : lead (x.pre 0 ++ l') = [] := by
    rw [hp0]; exact (lead_nonblank_cons _ hc0).1
  have hwa : widthAll (x :: ws) = widthAll ws + x.width := by simp [widthAll]; omega
  by_cases hq : x.isQuote = true
  · have hxq : x = .quote := by cases x <;> simp [Wrapper.isQuote] at hq ⊢
    subst hxq
    obtain ⟨hmem, hpre⟩ := hch.quote ⟨.quote, by simp, rfl⟩
    obtain ⟨rr, hrr, hp⟩ := quote_commutes cfg (docOf [l']) g.tab (by omega) _ _
      (MdIt.Pipeline.split_at_first .blockquote _ hmem) hpre ih
    have hwrap' : prefixQuote (docOf [l']) = docOf [Wrapper.quote.pre 0 ++ l'] := hwrap
    rw [hwrap', hn] at hrr
    rw [hwrap'] at hp
    obtain ⟨hσ, hE⟩ := sigma_good g (by omega)
    rw [hwrap'] at hE
    have hleaf := reloc_paraLeaf _ 2 _ _ _ hσ hE c m a (widthAll ws) (by simpa using ha) (by simpa using hm) tg
    have hrel := reloc_wrapForest _ 2 _ _ _ hσ hE _ _ hleaf ws 0 (by simp; omega)
    have hrng : rr = (0, Lines.byteLen (docOf [Wrapper.quote.pre 0 ++ l'])) := by
      have := getMap_whole g2 (by simpa using hrr)
      simpa [hlead] using this
    subst hrng
    have hst : stepTight Wrapper.quote ws tg = tg := by cases ws <;> simp [stepTight, Wrapper.isQuote]
    rw [show Wrapper.quote.cost = 1 from rfl, hp, hwa, hst]
    simp only [hrel, wrapForest, Wrapper.nodeL, Wrapper.isQuote, if_true, Wrapper.kind, Wrapper.width, Wrapper.mk,
      List.length_cons, List.length_nil, Nat.zero_add]
  · have hq' : x.isQuote = false := by simpa using hq
    have hmk := Wrapper.mkOk hx hq'
    obtain ⟨mv, mc, hdet, hmc, hch0, hkind⟩ := Wrapper.itemData hx hq'
    obtain ⟨hmem, hpre⟩ := hch.list ⟨x, by simp, hq'⟩
    have hwl := width_le x hx
    have hw1 : wrap1 x (docOf [l']) = itemDoc x.mk (docOf [l']) := by
      cases x with
      | quote => cases hq'
      | bullet c => rfl
      | ordered ds dl => rfl
    have hLT : Lines.linesT (docOf [l']) = [(l', [])] := by rw [g.linesT]; rfl
    obtain ⟨t, htk, hch_t, hrefs_t⟩ : ∃ t, tokenize cfg (fuelFor cfg (docOf [l'])) (BState.fresh (docOf [l']) .root []) = .ok t ∧
        t.children = wrapForest (Lines.byteLen (docOf [l'])) ws 0
          (paraLeaf c m a (widthAll ws) (Lines.byteLen (docOf [l'])) tg) ∧ t.refs = [] := by
      unfold parseBlocks at ih
      cases htk : tokenize cfg (fuelFor cfg (docOf [l'])) (BState.fresh (docOf [l']) .root []) with
      | error e => rw [htk] at ih; cases ih
      | ok t =>
        rw [htk] at ih
        simp only [Except.ok.injEq, Prod.mk.injEq, BNode.mk.injEq] at ih
        exact ⟨t, rfl, ih.1.2.2, ih.2⟩
    obtain ⟨rr, hrr, hp⟩ := item_commutes_gen cfg hmk hdet hmc hch0 (docOf [l']) g.tab
      (by simp only [Wrapper.width] at hwl; omega) ⟨l', [], [], hLT, hf.1, hf.2⟩ hmn _ _
      (MdIt.Pipeline.split_at_first .list _ hmem) hpre
      (fun hin l0 t0 rest0 h0 => by
        rw [hLT] at h0
        simp only [List.cons.injEq, Prod.mk.injEq] at h0
        rw [← h0.1.1]
        exact hhr hin hq') htk
    rw [hch_t, hrefs_t] at hp
    have hwrap' : itemDoc x.mk (docOf [l']) = docOf [x.pre 0 ++ l'] := by rw [← hw1]; exact hwrap
    rw [hwrap', hn] at hrr
    rw [hwrap'] at hp
    obtain ⟨hσ, hE⟩ := tau_good hmk g (by omega)
    rw [hwrap'] at hE
    have hleaf := reloc_paraLeaf _ (x.mk.length + 1) _ _ _ hσ hE c m a (widthAll ws) (by simpa using ha)
      (by simpa using hm) tg
    have hrel := reloc_wrapForest _ (x.mk.length + 1) _ _ _ hσ hE _ _ hleaf ws 0 (by simp; omega)
    have hrng : rr = (0, Lines.byteLen (docOf [x.pre 0 ++ l'])) := by
      have := getMap_whole g2 (by simpa using hrr)
      simpa [hlead] using this
    subst hrng
    have hcost : x.cost = 2 := by
      cases x with
      | quote => cases hq'
      | bullet c => rfl
      | ordered ds dl => rfl
    rw [hcost, hp, hwa, hrel]
    cases ws with
    | nil =>
      have htt : t.tight = true := htight rfl t htk
      simp only [htt, if_true, wrapForest, markTight_paraLeaf, Wrapper.nodeL, hq', hkind, Wrapper.width, Bool.false_eq_true,
        if_false, widthAll, Nat.zero_add, Nat.add_zero, stepTight, Bool.not_false, Bool.true_or]
    | cons y ws' =>
      rw [markTight_wrapForest]
      simp only [ite_self, stepTight]
      simp only [wrapForest, Wrapper.nodeL, hq', hkind, Wrapper.width, Bool.false_eq_true, if_false, Nat.zero_add]

theorem wrapAllLines_single (w : List Wrapper) (l : List Char) : wrapAllLines w [l] = [firstLine w l] := by
  obtain ⟨r', h, hl⟩ := wrapAllLines_cons w l []
  have : r' = [] := List.length_eq_zero_iff.mp (by simpa using hl)
  rw [h, this]

theorem docOf_single (l : List Char) : docOf [l] = l := by simp [docOf, Lines.joinLines]

/-- **a one-line paragraph inside containers, block level.**  `l` a tab-free, terminator-free line that
    starts with a character other than a blank and that, as a document, parses to one paragraph
    (`Root[Paragraph[InlineRoot c m]]`, the paragraph from byte `a`).  Inside any list `w` of wrappers
    (conditions as in `parseBlocks_nested`) the block tree is the chain of wrapper nodes around that paragraph
    — or, exactly when the innermost wrapper is a list item (`tightOf w`: the run on the one-paragraph document
    ends `tight`, hypothesis `htight`), around the bare placeholder, the paragraph unwrapped by
    `mark_tight_paragraphs` — and the placeholder holds the
    SAME inline text `c`; its per-line table is `m` moved by the width of the prefixes.  The inline rules
    (`CodePair.span_verbatim_ctx` for a code span) therefore see the text they see at top level. -/
theorem parseBlocks_para_nested (cfg : Cfg) (hmn : 0 < cfg.maxNesting) (c : List Char) (m : List (Nat × Nat)) (a : Nat)
    (l : List Char) (g : Good [l]) (hf : FirstLineOk l) (ha : a ≤ Lines.byteLen l)
    (hm : ∀ kv ∈ m, kv.2 ≤ Lines.byteLen l)
    (hbase : parseBlocks cfg (docOf [l]) =
      .ok (⟨.root, some (0, Lines.byteLen (docOf [l])),
            [⟨.paragraph, some (a, Lines.byteLen (docOf [l])), [⟨.inlineRoot c m, none, []⟩]⟩]⟩, []))
    (htight : ∀ t, tokenize cfg (fuelFor cfg (docOf [l])) (BState.fresh (docOf [l]) .root []) = .ok t → t.tight = true) :
    ∀ (w : List Wrapper), (∀ x ∈ w, x.Ok) → ChainFor cfg.chain w →
      (.hr ∈ cfg.chain.takeWhile (· ≠ .list) → HrFree w l) →
      Lines.byteLen (docOf [firstLine w l]) + 20 < 2147483648 →
      parseBlocks { cfg with maxNesting := cfg.maxNesting + depthCost w } (docOf [firstLine w l]) =
        .ok (⟨.root, some (0, Lines.byteLen (docOf [firstLine w l])),
              wrapForest (Lines.byteLen (docOf [firstLine w l])) w 0
                (paraLeaf c m a (widthAll w) (Lines.byteLen (docOf [firstLine w l])) (tightOf w))⟩, [])
  | [], _, _, _, _ => by
    have e : (m.map fun kv => (kv.1, kv.2 + 0)) = m := by simp
    simp only [firstLine, depthCost, wrapForest, paraLeaf, tightOf, Bool.false_eq_true, if_false, widthAll, Nat.zero_add,
      inlineRootAt, e]
    exact hbase
  | x :: ws, hw, hch, hhr, hsize => by
    have hws : ∀ y ∈ ws, y.Ok := fun y hy => hw y (List.mem_cons_of_mem _ hy)
    have hx : x.Ok := hw x (by simp)
    have g' : Good [firstLine ws l] := by rw [← wrapAllLines_single]; exact Good.wrapAll hws g
    have pf := Wrapper.preFacts hx
    have hsz' : Lines.byteLen (docOf [firstLine ws l]) + 20 < 2147483648 := by
      simp only [docOf_single, firstLine, Lines.byteLen_append] at hsize ⊢
      omega
    have ih := parseBlocks_para_nested cfg hmn c m a l g hf ha hm hbase htight ws hws hch.tail (fun h => (hhr h).tail) hsz'
    have hf' : FirstLineOk (firstLine ws l) := by
      cases ws with
      | nil => exact hf
      | cons y ws' =>
        have := firstLine_head (hws y (by simp)) ws' l
        exact ⟨this.2, .inl (by rw [this.1]; rfl)⟩
    have hbl := byteLen_firstLine hws l
    have h := parseBlocks_wrap1_line { cfg with maxNesting := cfg.maxNesting + depthCost ws }
      (Nat.lt_of_lt_of_le hmn (Nat.le_add_right _ _)) c m a ws (firstLine ws l) g' hf' (by omega)
      (fun kv hkv => by have := hm kv hkv; omega) x hx hch.head
      (fun hin hq => hr_item hx hq (hhr hin)) hsz' (tightOf ws)
      (fun hws0 t ht => by subst hws0; exact htight t ht) ih
    rw [cfg_nest] at h
    exact h

end MdIt.C11N
