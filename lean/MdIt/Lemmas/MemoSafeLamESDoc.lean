/-
  Helper development for `Props/MemoSafe.lean`, fifth part: the whole document, for every coherent chain,
  with NO hypothesis on the text of the paragraphs (the copy of `Lemmas/MemoSafeLamCSDoc.lean` on top of
  `ES.parseInline_total`).
-/
import MdIt.Lemmas.MemoSafeLamDoc
import MdIt.Lemmas.MemoSafeLamESFinal

namespace MdIt.Pipeline
open MdIt

/-- **C01, whole pipeline, EVERY coherent chain, every text**: `md.parse` returns a tree and both
    renderers return a string (no tab split by a container indent, `i32` size bound, paragraph rule). -/
theorem doc_total_coherent (cfg : DocCfg) (src : List Char)
    (hc : Inline.ChainCoherent (cfg.inlineCfg []) = true)
    (hone : cfg.inlineChain.count .link ≤ 1 ∧ cfg.inlineChain.count .image ≤ 1)
    (hsmall : 4 * Lines.byteLen src + 8 < 2147483648) (hpara : cfg.hasPara = true)
    (hnv : NoSplitTab cfg src) :
    (∃ t, parseDoc cfg src = .ok t) ∧ ∀ x, ∃ html, renderDoc x cfg src = .ok html := by
  apply doc_total_of_inline
  intro root refs hb
  have hmap := doc_tables_mapOK cfg src hsmall hpara hnv hb
  have hall : Block.AllInl (fun c m => ∃ cs, Inline.parseInline (cfg.inlineCfg refs) c m = .ok cs) root :=
    hmap.imp (fun c m hm => Inline.ES.parseInline_total (cfg.inlineCfg refs) hc hone hm)
  exact (placeholders_of_allInl _ (sizeOf root)).1 root (Nat.le_refl _) hall
    (Block.parseBlocks_inlNoRange hb)

/-- … with hypotheses on the SOURCE only: no tab, the size bound -/
theorem doc_total_coherent_src (cfg : DocCfg) (src : List Char)
    (hc : Inline.ChainCoherent (cfg.inlineCfg []) = true)
    (hone : cfg.inlineChain.count .link ≤ 1 ∧ cfg.inlineChain.count .image ≤ 1)
    (hsmall : 4 * Lines.byteLen src + 8 < 2147483648) (hpara : cfg.hasPara = true)
    (htab : '\t' ∉ src) :
    (∃ t, parseDoc cfg src = .ok t) ∧ ∀ x, ∃ html, renderDoc x cfg src = .ok html :=
  doc_total_coherent cfg src hc hone hsmall hpara (noSplitTab_of_tabFree cfg src hsmall hpara htab)

/-- the stock configuration with strikethrough (`exCfg`), any `max_nesting`, sourcepos on or off: every
    source without tab, within the `i32` size bound -/
theorem doc_total_stock_all (sp : Bool) (mn : Nat) (src : List Char) (htab : '\t' ∉ src)
    (hsmall : 4 * Lines.byteLen src + 8 < 2147483648) :
    (∃ t, parseDoc (exCfg sp mn) src = .ok t) ∧ ∀ x, ∃ html, renderDoc x (exCfg sp mn) src = .ok html :=
  doc_total_coherent_src (exCfg sp mn) src
    (by show Inline.ChainCoherent ((exCfg false 0).inlineCfg []) = true; decide +kernel)
    (by show (exCfg false 0).inlineChain.count .link ≤ 1 ∧ (exCfg false 0).inlineChain.count .image ≤ 1
        decide +kernel)
    hsmall (by show (exCfg false 0).hasPara = true; decide +kernel) htab

end MdIt.Pipeline
