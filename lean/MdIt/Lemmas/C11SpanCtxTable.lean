/-
  C11, code SPANS, multi-line paragraphs inside containers: what the per-line table of
  `C11X.parseBlocks_para_nested_lines` TRANSLATES to.  The table of the paragraph `Ls` inside prefixes of total width
  `W` per line (`Ls'` the wrapped lines, `|Ls'[i]| = W + |Ls[i]|`) is `(lineTable Ls Ls')` moved by `W`; it is
  well-formed (`wf_nestTable`), so `get_source_pos_for` is total on it (`trOf`, `trOf_ok`), and byte `x` of line `i`
  of the inline text is byte `x` of line `i` of the source behind that line's prefixes:
      `trOf W Ls Ls' (start of line i in docOf Ls + x) = start of line i in docOf Ls + (i + 1) · W + x`
  (`trOf_spec`): every line's prefix shifts the source offset once more.
-/
import MdIt.Lemmas.C11SpanCtxBlock
import MdIt.Lemmas.C11SpanMultiDoc
set_option linter.unusedSimpArgs false
set_option linter.unusedVariables false

namespace MdIt.C11X
open MdIt.Block MdIt.Block.Li MdIt.C11N
open MdIt.Lines (NoTerm lead)

theorem starts_succ : ∀ (Ls : List (List Char)) (p i : Nat) (h : i + 1 < (starts p Ls).length),
    (starts p Ls)[i + 1] = (starts p Ls)[i]'(by omega) + Lines.byteLen (Ls[i]'(by rw [starts_length] at h; omega)) + 1
  | [], _, _, h => by simp [starts] at h
  | l :: ls, p, 0, h => by
    cases ls with
    | nil => simp [starts] at h
    | cons l2 ls => simp [starts]
  | l :: ls, p, i + 1, h => by
    have h' : i + 1 < (starts (p + Lines.byteLen l + 1) ls).length := by
      simp only [starts, List.length_cons] at h; omega
    have := starts_succ ls (p + Lines.byteLen l + 1) i h'
    simpa [starts] using this

theorem starts_zero (Ls : List (List Char)) (p : Nat) (h : 0 < (starts p Ls).length) : (starts p Ls)[0] = p := by
  cases Ls with
  | nil => simp [starts] at h
  | cons l ls => rfl

theorem starts_lower : ∀ (Ls : List (List Char)) (p : Nat), ∀ k ∈ starts p Ls, p ≤ k
  | [], _, k, h => by simp [starts] at h
  | l :: ls, p, k, h => by
    simp only [starts, List.mem_cons] at h
    rcases h with rfl | h
    · exact Nat.le_refl _
    · have := starts_lower ls _ k h; omega

theorem starts_sorted : ∀ (Ls : List (List Char)) (p : Nat), (starts p Ls).Pairwise (· < ·)
  | [], _ => by simp [starts]
  | l :: ls, p => by
    simp only [starts, List.pairwise_cons]
    refine ⟨?_, starts_sorted ls _⟩
    intro k hk
    have := starts_lower ls _ k hk
    omega

/-- the lines `Ls'` are the lines `Ls` behind prefixes of `W` bytes each -/
structure Prefixed (W : Nat) (Ls Ls' : List (List Char)) : Prop where
  len : Ls'.length = Ls.length
  bytes : ∀ i (h : i < Ls'.length), Lines.byteLen Ls'[i] = W + Lines.byteLen (Ls[i]'(by rw [len] at h; exact h))

/-- every prefix shifts the line start once more: line `i` of the wrapped document starts `i · W` bytes later -/
theorem starts_prefixed {W : Nat} {Ls Ls' : List (List Char)} (hp : Prefixed W Ls Ls') :
    ∀ i (h : i < (starts 0 Ls).length) (h' : i < (starts 0 Ls').length),
      (starts 0 Ls')[i] = (starts 0 Ls)[i] + i * W := by
  intro i
  induction i with
  | zero => intro h h'; simp [starts_zero]
  | succ i ih =>
    intro h h'
    have hl' : i < Ls'.length := by rw [starts_length] at h'; omega
    rw [starts_succ _ _ _ h, starts_succ _ _ _ h', ih (by omega) (by omega), hp.bytes i hl', Nat.succ_mul]
    omega

/-- the table of the n-line paragraph inside the containers: one entry per line, start in the inline text and start
    of the line's content in the source -/
def nestTable (W : Nat) (Ls Ls' : List (List Char)) : List (Nat × Nat) :=
  (lineTable Ls Ls').map fun kv => (kv.1, kv.2 + W)

theorem nestTable_keys {W : Nat} {Ls Ls' : List (List Char)} (hlen : Ls'.length = Ls.length) :
    (nestTable W Ls Ls').map Prod.fst = starts 0 Ls := by
  unfold nestTable lineTable
  rw [List.map_map]
  have : (Prod.fst ∘ fun kv : Nat × Nat => (kv.1, kv.2 + W)) = Prod.fst := by funext kv; rfl
  rw [this]
  exact List.map_fst_zip (by simp [starts_length, hlen])

theorem wf_nestTable {W : Nat} {Ls Ls' : List (List Char)} (hlen : Ls'.length = Ls.length) (hne : Ls ≠ []) :
    C05.WFMap (nestTable W Ls Ls') := by
  refine ⟨?_, by rw [nestTable_keys hlen]; exact starts_sorted Ls 0⟩
  cases Ls with
  | nil => exact absurd rfl hne
  | cons l r =>
    cases Ls' with
    | nil => simp at hlen
    | cons l' r' => exact ⟨0 + W, _, rfl⟩

theorem nestTable_getElem? {W : Nat} {Ls Ls' : List (List Char)} (hlen : Ls'.length = Ls.length) (i : Nat)
    (h : i < Ls.length) :
    (nestTable W Ls Ls')[i]? =
      some ((starts 0 Ls)[i]'(by rw [starts_length]; exact h),
        (starts 0 Ls')[i]'(by rw [starts_length, hlen]; exact h) + W) := by
  unfold nestTable lineTable
  rw [List.getElem?_map, List.getElem?_eq_getElem (by simp [starts_length, hlen]; exact h)]
  simp

/-- the translation the table defines (total: `trOf_ok`) -/
def trOf (W : Nat) (Ls Ls' : List (List Char)) (a : Nat) : Nat :=
  match InlineOps.getSourcePosFor (nestTable W Ls Ls') a with
  | .ok x => x
  | .error _ => 0

theorem trOf_ok {W : Nat} {Ls Ls' : List (List Char)} (hlen : Ls'.length = Ls.length) (hne : Ls ≠ []) (a : Nat) :
    InlineOps.getSourcePosFor (nestTable W Ls Ls') a = .ok (trOf W Ls Ls' a) := by
  obtain ⟨x, hx⟩ := C05.translate_total _ (wf_nestTable (W := W) hlen hne) a
  simp [trOf, hx]

/-- **where the bytes of the paragraph text come from**: byte `x` of line `i` of the inline text (the position of the
    line's end included) is byte `W + x` of line `i` of the wrapped source -/
theorem trOf_line {W : Nat} {Ls Ls' : List (List Char)} (hp : Prefixed W Ls Ls') (hne : Ls ≠ []) (i : Nat)
    (h : i < Ls.length) (x : Nat) (hx : x ≤ Lines.byteLen Ls[i]) :
    trOf W Ls Ls' ((starts 0 Ls)[i]'(by rw [starts_length]; exact h) + x) =
      (starts 0 Ls')[i]'(by rw [starts_length, hp.len]; exact h) + W + x := by
  have hwf := wf_nestTable (W := W) hp.len hne
  have hsl := starts_length Ls 0
  have hsl' := starts_length Ls' 0
  have hlen := hp.len
  have := C05.translate_segment_free _ hwf ((starts 0 Ls)[i]'(by omega) + x) i _ _
    (nestTable_getElem? hp.len i h) (by omega)
    (fun k' v' hn => by
      by_cases h1 : i + 1 < Ls.length
      · rw [nestTable_getElem? hp.len (i + 1) h1] at hn
        simp only [Option.some.injEq, Prod.mk.injEq] at hn
        rw [← hn.1, starts_succ _ _ _ (by omega)]
        omega
      · rw [List.getElem?_eq_none (by simp [nestTable, lineTable, starts_length, hlen]; omega)] at hn
        cases hn)
    (fun k' v' hn => by
      by_cases h1 : i + 1 < Ls.length
      · rw [nestTable_getElem? hp.len (i + 1) h1] at hn
        simp only [Option.some.injEq, Prod.mk.injEq] at hn
        rw [← hn.2, starts_succ _ _ _ (by omega), hp.bytes i (by omega)]
        omega
      · rw [List.getElem?_eq_none (by simp [nestTable, lineTable, starts_length, hlen]; omega)] at hn
        cases hn)
  simp only [trOf, this]
  omega

/-- … in closed form: the source offset is the inline offset plus `(i + 1) · W` — the prefixes of the lines
    `0 … i` stand in front of it -/
theorem trOf_spec {W : Nat} {Ls Ls' : List (List Char)} (hp : Prefixed W Ls Ls') (hne : Ls ≠ []) (i : Nat)
    (h : i < Ls.length) (x : Nat) (hx : x ≤ Lines.byteLen Ls[i]) :
    trOf W Ls Ls' ((starts 0 Ls)[i]'(by rw [starts_length]; exact h) + x) =
      (starts 0 Ls)[i]'(by rw [starts_length]; exact h) + x + (i + 1) * W := by
  rw [trOf_line hp hne i h x hx, starts_prefixed hp i (by rw [starts_length]; exact h)
    (by rw [starts_length, hp.len]; exact h), Nat.succ_mul]
  omega

/-- the wrapped lines are the lines behind prefixes of `widthAll w` bytes -/
theorem prefixed_wrapAllLines {w : List Wrapper} (hw : ∀ x ∈ w, x.Ok) (Ls : List (List Char)) :
    Prefixed (widthAll w) Ls (wrapAllLines w Ls) :=
  ⟨wrapAllLines_length w Ls, fun i h => byteLen_wrapAllLines hw Ls i h⟩

end MdIt.C11X
