/-
  Helper development for `Props/Inline.lean`: look-ahead is calm — `skip_token` (any fuel, partial
  correctness) changes neither the tree under construction nor `src` / `srcmap`.
-/
import MdIt.Lemmas.InlineVals2

namespace MdIt.Inline
open MdIt.InlineOps (Srcmap getSourcePosFor getMap byteLen slice)

/-- the tree under construction and the text are untouched -/
structure Calm (a b : IState) : Prop where
  children : b.children = a.children
  bottoms : b.bottoms = a.bottoms
  src : b.src = a.src
  srcmap : b.srcmap = a.srcmap
  posMax : b.posMax = a.posMax
  level : b.level = a.level
  linkLevel : b.linkLevel = a.linkLevel

theorem Calm.refl (a : IState) : Calm a a := ⟨rfl, rfl, rfl, rfl, rfl, rfl, rfl⟩

theorem Calm.trans {a b c : IState} (h1 : Calm a b) (h2 : Calm b c) : Calm a c :=
  ⟨h2.children.trans h1.children, h2.bottoms.trans h1.bottoms, h2.src.trans h1.src,
   h2.srcmap.trans h1.srcmap, h2.posMax.trans h1.posMax, h2.level.trans h1.level,
   h2.linkLevel.trans h1.linkLevel⟩

theorem Calm.frame {a b : IState} (h : Calm a b) : Frame a b :=
  ⟨h.src, h.srcmap, h.posMax, h.level, h.linkLevel⟩

def CalmFn (skip : IState → Except Panic IState) : Prop := ∀ s s', skip s = .ok s' → Calm s s'

theorem labelLoop_calm {skip : IState → Except Panic IState} (hq : CalmFn skip) (en : Bool) :
    ∀ (n : Nat) (level : Int) (st : IState) (res : Option Bool) (st' : IState),
      labelLoop skip en n level st = .ok (res, st') → Calm st st' := by
  intro n
  induction n with
  | zero => intro level st res st' h; simp [labelLoop] at h
  | succ n ih =>
    intro level st res st' h
    unfold labelLoop at h
    split at h
    · simp at h
    · simp only [Except.ok.injEq, Prod.mk.injEq] at h; rw [← h.2]; exact Calm.refl _
    · split at h
      · simp only [Except.ok.injEq, Prod.mk.injEq] at h; rw [← h.2]; exact Calm.refl _
      · simp only at h
        split at h
        · simp at h
        · next st1 hs =>
          have q1 := hq _ _ hs
          split at h
          · split at h
            · simp at h
            · split at h
              · exact q1.trans (ih _ _ _ _ h)
              · split at h
                · simp only [Except.ok.injEq, Prod.mk.injEq] at h; rw [← h.2]; exact q1
                · exact q1.trans (ih _ _ _ _ h)
          · exact q1.trans (ih _ _ _ _ h)

theorem parseLinkLabel_calm {skip : IState → Except Panic IState} (hq : CalmFn skip) {fuel : Nat}
    {st : IState} {start : Nat} {en : Bool} {o : Option Nat} {st' : IState}
    (h : parseLinkLabel skip fuel st start en = .ok (o, st')) : Calm st st' := by
  unfold parseLinkLabel at h
  simp only at h
  split at h
  · simp at h
  · next st1 hl =>
    simp only [Except.ok.injEq, Prod.mk.injEq] at h; rw [← h.2]
    have := labelLoop_calm hq en _ _ _ _ _ hl
    exact ⟨this.children, this.bottoms, this.src, this.srcmap, this.posMax, this.level, this.linkLevel⟩
  · next found st1 hl =>
    simp only [Except.ok.injEq, Prod.mk.injEq] at h; rw [← h.2]
    have := labelLoop_calm hq en _ _ _ _ _ hl
    exact ⟨this.children, this.bottoms, this.src, this.srcmap, this.posMax, this.level, this.linkLevel⟩

theorem parseLinkRef_calm {cfg : Cfg} {skip : IState → Except Panic IState} (hq : CalmFn skip)
    {fuel : Nat} {st : IState} {ls le : Nat} {o : Option LinkRes} {st' : IState}
    (h : parseLinkRef cfg skip fuel st ls le = .ok (o, st')) : Calm st st' := by
  unfold parseLinkRef at h
  split at h
  · simp at h
  · next w hw =>
    clear hw
    simp only at h
    split at h
    · simp at h
    · next ml pos st1 hsec =>
      have hq1 : Calm st st1 := by
        split at hsec
        · split at hsec
          · simp at hsec
          · next x st2 hl =>
            split at hsec
            · simp at hsec
            · simp only [Except.ok.injEq, Prod.mk.injEq] at hsec
              rw [← hsec.2.2]; exact parseLinkLabel_calm hq hl
          · next st2 hl =>
            simp only [Except.ok.injEq, Prod.mk.injEq] at hsec
            rw [← hsec.2.2]; exact parseLinkLabel_calm hq hl
        · simp only [Except.ok.injEq, Prod.mk.injEq] at hsec
          rw [← hsec.2.2]; exact Calm.refl _
      split at h
      · simp only [Except.ok.injEq, Prod.mk.injEq] at h; rw [← h.2]; exact hq1
      · split at h
        · simp at h
        · split at h
          · simp only [Except.ok.injEq, Prod.mk.injEq] at h; rw [← h.2]; exact hq1
          · simp only [Except.ok.injEq, Prod.mk.injEq] at h; rw [← h.2]; exact hq1

theorem parseLink_calm {cfg : Cfg} {skip : IState → Except Panic IState} (hq : CalmFn skip)
    {fuel : Nat} {st : IState} {pos : Nat} {en : Bool} {o : Option LinkRes} {st' : IState}
    (h : parseLink cfg skip fuel st pos en = .ok (o, st')) : Calm st st' := by
  unfold parseLink at h
  split at h
  · simp at h
  · next st1 hl =>
    simp only [Except.ok.injEq, Prod.mk.injEq] at h; rw [← h.2]; exact parseLinkLabel_calm hq hl
  · next le st1 hl =>
    have q1 := parseLinkLabel_calm hq hl
    simp only at h
    split at h
    · simp at h
    · simp only [Except.ok.injEq, Prod.mk.injEq] at h; rw [← h.2]; exact q1
    · exact q1.trans (parseLinkRef_calm hq h)

theorem parseLinkLabel_pos {skip : IState → Except Panic IState} {fuel : Nat} {st : IState}
    {start : Nat} {en : Bool} {o : Option Nat} {st' : IState}
    (h : parseLinkLabel skip fuel st start en = .ok (o, st')) : st'.pos = st.pos := by
  unfold parseLinkLabel at h
  simp only at h
  split at h
  · simp at h
  · simp only [Except.ok.injEq, Prod.mk.injEq] at h; rw [← h.2]
  · simp only [Except.ok.injEq, Prod.mk.injEq] at h; rw [← h.2]

theorem parseLinkRef_pos {cfg : Cfg} {skip : IState → Except Panic IState} {fuel : Nat} {st : IState}
    {ls le : Nat} {o : Option LinkRes} {st' : IState}
    (h : parseLinkRef cfg skip fuel st ls le = .ok (o, st')) : st'.pos = st.pos := by
  unfold parseLinkRef at h
  split at h
  · simp at h
  · next w hw =>
    clear hw
    simp only at h
    split at h
    · simp at h
    · next ml pos st1 hsec =>
      have hp1 : st1.pos = st.pos := by
        split at hsec
        · split at hsec
          · simp at hsec
          · next x st2 hl =>
            split at hsec
            · simp at hsec
            · simp only [Except.ok.injEq, Prod.mk.injEq] at hsec
              rw [← hsec.2.2]; exact parseLinkLabel_pos hl
          · next st2 hl =>
            simp only [Except.ok.injEq, Prod.mk.injEq] at hsec
            rw [← hsec.2.2]; exact parseLinkLabel_pos hl
        · simp only [Except.ok.injEq, Prod.mk.injEq] at hsec
          rw [← hsec.2.2]
      split at h
      · simp only [Except.ok.injEq, Prod.mk.injEq] at h; rw [← h.2]; exact hp1
      · split at h
        · simp at h
        · split at h
          · simp only [Except.ok.injEq, Prod.mk.injEq] at h; rw [← h.2]; exact hp1
          · simp only [Except.ok.injEq, Prod.mk.injEq] at h; rw [← h.2]; exact hp1

/-- `parse_link` restores `state.pos` (unconditionally) -/
theorem parseLink_pos {cfg : Cfg} {skip : IState → Except Panic IState} {fuel : Nat} {st : IState}
    {pos : Nat} {en : Bool} {o : Option LinkRes} {st' : IState}
    (h : parseLink cfg skip fuel st pos en = .ok (o, st')) : st'.pos = st.pos := by
  unfold parseLink at h
  split at h
  · simp at h
  · next st1 hl =>
    simp only [Except.ok.injEq, Prod.mk.injEq] at h; rw [← h.2]; exact parseLinkLabel_pos hl
  · next le st1 hl =>
    simp only at h
    split at h
    · simp at h
    · simp only [Except.ok.injEq, Prod.mk.injEq] at h; rw [← h.2]; exact parseLinkLabel_pos hl
    · rw [parseLinkRef_pos h]; exact parseLinkLabel_pos hl


theorem parseLinkRef_labelStart {cfg : Cfg} {skip : IState → Except Panic IState} {fuel : Nat}
    {st : IState} {ls le : Nat} {res : LinkRes} {st' : IState}
    (h : parseLinkRef cfg skip fuel st ls le = .ok (some res, st')) : res.labelStart = ls := by
  unfold parseLinkRef at h
  split at h
  · simp at h
  · next w hw =>
    clear hw
    simp only at h
    split at h
    · simp at h
    · split at h
      · simp at h
      · split at h
        · simp at h
        · split at h
          · simp at h
          · simp only [Except.ok.injEq, Prod.mk.injEq, Option.some.injEq] at h
            rw [← h.1]

/-- `parse_link` reports `label_start = pos + 1` (unconditionally) -/
theorem parseLink_labelStart {cfg : Cfg} {skip : IState → Except Panic IState} {fuel : Nat}
    {st : IState} {pos : Nat} {en : Bool} {res : LinkRes} {st' : IState}
    (h : parseLink cfg skip fuel st pos en = .ok (some res, st')) : res.labelStart = pos + 1 := by
  unfold parseLink at h
  split at h
  · simp at h
  · simp at h
  · simp only at h
    split at h
    · simp at h
    · simp only [Except.ok.injEq, Prod.mk.injEq, Option.some.injEq] at h
      rw [← h.1]
    · exact parseLinkRef_labelStart h

theorem linkRule_silent_calm {cfg : Cfg} {skip tok : IState → Except Panic IState} (hq : CalmFn skip)
    {fuel : Nat} {mk : List Nat → Option (List Char) → Val} {en : Bool} {offset : Nat} {st : IState}
    {o : Option Nat} {st' : IState}
    (h : linkRule cfg skip tok fuel mk en offset st true = .ok (o, st')) : Calm st st' := by
  unfold linkRule at h
  simp only at h
  split at h
  · simp at h
  · next st1 hpl =>
    simp only [Except.ok.injEq, Prod.mk.injEq] at h; rw [← h.2]; exact parseLink_calm hq hpl
  · next res st1 hpl =>
    simp only [if_true] at h
    split at h
    · simp at h
    · simp only [Except.ok.injEq, Prod.mk.injEq] at h; rw [← h.2]; exact parseLink_calm hq hpl

theorem Simple.calm {st st' : IState} {o : Option Nat} (h : Simple st true o st') : Calm st st' :=
  ⟨(h.quiet rfl).children, (h.quiet rfl).bottoms, h.frame.src, h.frame.srcmap, h.frame.posMax,
   h.frame.level, h.frame.linkLevel⟩

theorem runRule_silent_calm {cfg : Cfg} {skip tok : IState → Except Panic IState} (hq : CalmFn skip)
    {fuel : Nat} {id : RuleId} {st : IState} {o : Option Nat} {st' : IState}
    (h : runRule cfg skip tok fuel id st true = .ok (o, st')) : Calm st st' := by
  unfold runRule at h
  cases id with
  | text => exact (ruleText_simple (liftR_ok.mp h)).calm
  | newline => exact (ruleNewline_simple (liftR_ok.mp h)).calm
  | escape => exact (ruleEscape_simple (liftR_ok.mp h)).calm
  | backticks => exact (ruleBackticks_simple (liftR_ok.mp h)).calm
  | emph mk csw => exact (ruleEmph_simple (liftR_ok.mp h)).calm
  | link =>
    simp only at h
    unfold ruleLink at h
    split at h
    · simp at h
    · simp at h
    · split at h
      · simp only [Except.ok.injEq, Prod.mk.injEq] at h; rw [← h.2]; exact Calm.refl _
      · exact linkRule_silent_calm hq h
  | image =>
    simp only at h
    unfold ruleImage at h
    split at h
    · simp at h
    · exact linkRule_silent_calm hq h
    · simp only [Except.ok.injEq, Prod.mk.injEq] at h; rw [← h.2]; exact Calm.refl _
  | linkEnd =>
    simp only [Except.ok.injEq, Prod.mk.injEq] at h; rw [← h.2]; exact Calm.refl _
  | autolink => exact (ruleAutolink_simple (liftR_ok.mp h)).calm
  | entity => exact (ruleEntity_simple (liftR_ok.mp h)).calm

theorem firstRule_calm {run : RuleId → IState → RuleRes}
    (hrun : ∀ id s o s', run id s = .ok (o, s') → Calm s s') :
    ∀ (rules : List RuleId) (st : IState) (o : Option Nat) (st' : IState),
      firstRule run rules st = .ok (o, st') → Calm st st' := by
  intro rules
  induction rules with
  | nil =>
    intro st o st' h
    simp only [firstRule, Except.ok.injEq, Prod.mk.injEq] at h; rw [← h.2]; exact Calm.refl _
  | cons r rs ih =>
    intro st o st' h
    unfold firstRule at h
    split at h
    · simp at h
    · next n st1 hr =>
      simp only [Except.ok.injEq, Prod.mk.injEq] at h; rw [← h.2]; exact hrun _ _ _ _ hr
    · next st1 hr => exact (hrun _ _ _ _ hr).trans (ih _ _ _ h)

theorem silentBumped_calm {run : IState → Bool → RuleRes} {st : IState} {o : Option Nat}
    {st' : IState} (hrun : ∀ s o s', run s true = .ok (o, s') → Calm s s')
    (h : silentBumped run st = .ok (o, st')) : Calm st st' := by
  unfold silentBumped at h
  split at h
  · simp at h
  · next r st1 hr =>
    split at h
    · simp at h
    · simp only [Except.ok.injEq, Prod.mk.injEq] at h; rw [← h.2]
      have q := hrun _ _ _ hr
      have hlev : st1.level = st.level + 1 := q.level
      exact ⟨q.children, q.bottoms, q.src, q.srcmap, q.posMax, by simp only; omega, q.linkLevel⟩

theorem skipStep_calm {cfg : Cfg} {skip tok : IState → Except Panic IState} (hq : CalmFn skip)
    {fuel : Nat} {st st' : IState} (h : skipStep cfg skip tok fuel st = .ok st') : Calm st st' := by
  have hfr : ∀ o st1, firstRule (fun id s => silentBumped (runRule cfg skip tok fuel id) s) cfg.chain st
      = .ok (o, st1) → Calm st st1 :=
    fun o st1 hok => firstRule_calm
      (fun id s o s' hr => silentBumped_calm (fun s2 o2 s2' hr2 => runRule_silent_calm hq hr2) hr) _ _ _ _ hok
  unfold skipStep at h
  simp only at h
  split at h
  · simp at h
  · next len st1 hok =>
    simp only [Except.ok.injEq] at h; rw [← h]
    have q := hfr _ _ hok
    exact ⟨q.children, q.bottoms, q.src, q.srcmap, q.posMax, q.level, q.linkLevel⟩
  · next st1 hok =>
    have q := hfr _ _ hok
    split at h
    · simp at h
    · simp only [Except.ok.injEq] at h; rw [← h]
      exact ⟨q.children, q.bottoms, q.src, q.srcmap, q.posMax, q.level, q.linkLevel⟩

/-- **`skip_token` is calm**, at every fuel -/
theorem skipToken_calm (cfg : Cfg) : ∀ fuel : Nat, CalmFn (fun s => skipToken cfg fuel s) := by
  intro fuel
  induction fuel with
  | zero => intro s s' h; simp [skipToken] at h
  | succ f ih =>
    intro s s' h
    simp only at h
    unfold skipToken at h
    split at h
    · simp only [Except.ok.injEq] at h; rw [← h]; exact ⟨rfl, rfl, rfl, rfl, rfl, rfl, rfl⟩
    · split at h
      · exact skipStep_calm ih h
      · simp only [Except.ok.injEq] at h; rw [← h]; exact ⟨rfl, rfl, rfl, rfl, rfl, rfl, rfl⟩

end MdIt.Inline
