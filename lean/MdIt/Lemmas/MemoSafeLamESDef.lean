/-
  Helper development for `Props/MemoSafe.lean`, fifth part (the escape landing, K3): shared definitions, in
  the namespace `MdIt.Inline.ES`; `MemoSafeLamESTop.lean` / `MemoSafeLamESNest.lean` are copies of the
  `CS` developments against these definitions.

  `esc src x`: the character at byte position `x` is ESCAPED — an odd number of backslashes right before
  it.  New invariants (conditional on the escape rule being in the chain; brute-force check K4 of
  `/verif/work/w9-memo/Brute.lean`):
    * `EPc cfg src pos` — a state at which rules run (`pos < pos_max`) is not at an escaped character: the
      real tokenizer and every label walk enter a run of backslashes at its first character and the
      escape rule takes two characters at a time;
    * `NL src c`       — no marked position of `inside_failed` sits right behind an escaped character
      (marks come from opener calls, which happen at non-escaped positions): so the position behind an
      escaped backtick is NEVER marked (`land_unmarked`), in any cache;
    * `IFP` is refined: a state at a position strictly inside a backtick run WHOSE PREVIOUS CHARACTER IS
      NOT ESCAPED has the position marked.
  `EndHyp` no longer needs a hypothesis on the text: the one token besides the unit step that ends
  strictly inside a run is the escape of a backtick, and then the previous character IS escaped.
-/
import MdIt.Lemmas.MemoSafeLamCSFinal

namespace MdIt.Inline.ES
open MdIt.Inline
open MdIt.Inline.CS (Interior MK InsideSub BC MarksHyp AgreeHyp insideSub_ruleBackticks
  not_interior_after_bracket backOK_BC)
open MdIt.InlineOps (Srcmap getSourcePosFor getMap byteLen slice)

/-- the character at byte position `x` is escaped: an odd number of backslashes right before it -/
def esc (src : List Char) : Nat → Bool
  | 0 => false
  | x + 1 => (CodePair.charAt src x == some '\\') && !(esc src x)

/-- not at an escaped character — when the escape rule is in the chain -/
def EPc (cfg : Cfg) (src : List Char) (x : Nat) : Prop :=
  RuleId.escape ∈ cfg.chain → esc src x = false

theorem esc_succ_of_ne {src : List Char} {x : Nat} (h : CodePair.charAt src x ≠ some '\\') :
    esc src (x + 1) = false := by
  simp only [esc, Bool.and_eq_false_imp, beq_iff_eq]
  intro h'; exact absurd h' h

/-- behind a `[` the position is not escaped -/
theorem esc_after_bracket {src : List Char} {p M : Nat} {r : List Char}
    (h : slice src p M = .ok ('[' :: r)) : esc src (p + 1) = false := by
  apply esc_succ_of_ne
  have hc : CodePair.charAt src p = some '[' := by
    have := charAt_next (u := []) (b := '[') (v := r) (a := p) (q := M) (by simpa using h)
    simpa [byteLen] using this
  rw [hc]; decide

/-- no marked position sits right behind an escaped character -/
def NL (src : List Char) (c : CodePair.Cache) : Prop :=
  ∀ q, c.insideFailed.contains q = true → esc src (q - 1) = false

theorem NL.empty (src : List Char) : NL src CodePair.Cache.empty := by
  intro q h; simp [CodePair.Cache.empty] at h

/-- the position behind an escaped character is never marked -/
theorem land_unmarked {src : List Char} {c : CodePair.Cache} (h : NL src c) {k : Nat}
    (hk : esc src (k - 1) = true) : c.insideFailed.contains k = false := by
  cases hc : c.insideFailed.contains k with
  | false => rfl
  | true => rw [h k hc] at hk; cases hk

/-- the code-span cache invariant of this part: `BC` and, with the escape rule, `NL` -/
def BE (cfg : Cfg) (src : List Char) (c : CodePair.Cache) : Prop :=
  BC src c ∧ (RuleId.escape ∈ cfg.chain → NL src c)

theorem BE.empty (cfg : Cfg) (src : List Char) : BE cfg src CodePair.Cache.empty :=
  ⟨CS.BC.empty src, fun _ => NL.empty src⟩

/-- `B` is preserved by the code-span rule at states whose `pos_max` cuts no backtick run and whose
    position is not an escaped character -/
def BackOK (cfg : Cfg) (B : List Char → CodePair.Cache → Prop) : Prop :=
  ∀ (st : IState) (silent : Bool) (o : Option Nat) (st' : IState),
    ruleBackticks st silent = .ok (o, st') → CodePair.NoCut '`' st.src st.posMax →
    EPc cfg st.src st.pos → B st.src st.backticks → B st'.src st'.backticks

/-- a state at a position strictly inside a backtick run whose previous character is not escaped has
    the position in `inside_failed` -/
def IFP (cfg : Cfg) (s : IState) : Prop :=
  Interior s.src s.pos → (RuleId.escape ∈ cfg.chain → esc s.src (s.pos - 1) = false) →
    s.backticks.insideFailed.contains s.pos = true

/-- the only token that ends strictly inside a backtick run, behind a non-escaped character, is the unit
    step at a backtick (statement; the witness state is not at an escaped character) -/
def EndHyp (cfg : Cfg) (B : List Char → CodePair.Cache → Prop) (src : List Char) (Mtop : Nat) : Prop :=
  ∀ m p k, Inline.Just cfg B src Mtop m p k → EPc cfg src p → Interior src k →
    (RuleId.escape ∈ cfg.chain → esc src (k - 1) = false) → k = p + 1

/-- a look-ahead token that starts at a non-escaped character ends at a non-escaped character
    (statement) -/
def EndEP (cfg : Cfg) (B : List Char → CodePair.Cache → Prop) (src : List Char) (Mtop : Nat) : Prop :=
  ∀ m p v, Inline.Just cfg B src Mtop m p v → EPc cfg src p → v < Mtop → EPc cfg src v

/-- one iteration of the REAL tokenizer loop BELOW THE NESTING LIMIT from a non-escaped character ends at a
    non-escaped character (statement; over the limit no rule runs and the loop walks character by
    character, also over escaped ones) -/
def StepEP (cfg : Cfg) : Prop :=
  ∀ (skip tok : IState → Except Panic IState) (fuel : Nat) (st st' : IState), CalmFn skip →
    tokStep cfg skip tok fuel st = .ok st' → st.level < cfg.maxNesting → st.pos < st.posMax →
    EPc cfg st.src st.pos → st'.pos < st.posMax → EPc cfg st.src st'.pos

/-- the code-span rule at a position behind an escaped character: neither cache has it marked
    (`land_unmarked` for `B := BE cfg`) -/
def LandHyp (cfg : Cfg) (B : List Char → CodePair.Cache → Prop) (src : List Char) : Prop :=
  ∀ (c : CodePair.Cache) (k : Nat), B src c → RuleId.escape ∈ cfg.chain → esc src (k - 1) = true →
    c.insideFailed.contains k = false

/-! ## the witness of a memo entry -/

/-- `Inline.Just` plus: the witness state satisfies the refined `IFP` (code-span rule in the chain) and is
    not at an escaped character -/
def Just (cfg : Cfg) (B : List Char → CodePair.Cache → Prop) (src : List Char) (Mtop : Nat)
    (m : List (Nat × Nat)) (k v : Nat) : Prop :=
  ∃ (skip0 tok0 : IState → Except Panic IState) (f0 : Nat) (st0 st0' : IState),
    CalmFn skip0 ∧ SkipHypT skip0 ∧ SkipGrowHyp skip0 ∧
    LInv st0 ∧ st0.src = src ∧ st0.posMax = Mtop ∧ st0.pos = k ∧ st0.pos < st0.posMax ∧
    B st0.src st0.backticks ∧ st0.cache.lookup k = none ∧
    skipStep cfg skip0 tok0 f0 st0 = .ok st0' ∧ st0'.pos = v ∧ LookupMono st0'.cache m ∧
    (RuleId.backticks ∈ cfg.chain → IFP cfg st0) ∧ EPc cfg src k

theorem Just.toJust {cfg : Cfg} {B : List Char → CodePair.Cache → Prop} {src : List Char} {Mtop : Nat}
    {m : List (Nat × Nat)} {k v : Nat} (h : Just cfg B src Mtop m k v) :
    Inline.Just cfg B src Mtop m k v := by
  obtain ⟨skip0, tok0, f0, st0, st0', a1, a2, a3, a4, a5, a6, a7, a8, a9, a10, a11, a12, a13, _⟩ := h
  exact ⟨skip0, tok0, f0, st0, st0', a1, a2, a3, a4, a5, a6, a7, a8, a9, a10, a11, a12, a13⟩

theorem Just.ep {cfg : Cfg} {B : List Char → CodePair.Cache → Prop} {src : List Char} {Mtop : Nat}
    {m : List (Nat × Nat)} {k v : Nat} (h : Just cfg B src Mtop m k v) : EPc cfg src k := by
  obtain ⟨_, _, _, _, _, _, _, _, _, _, _, _, _, _, _, _, _, _, _, a15⟩ := h
  exact a15

theorem Just.mono {cfg : Cfg} {B : List Char → CodePair.Cache → Prop} {src : List Char} {Mtop : Nat}
    {m m' : List (Nat × Nat)} {k v : Nat} (h : Just cfg B src Mtop m k v) (hm : LookupMono m m') :
    Just cfg B src Mtop m' k v := by
  obtain ⟨skip0, tok0, f0, st0, st0', a1, a2, a3, a4, a5, a6, a7, a8, a9, a10, a11, a12, a13, a14⟩ := h
  exact ⟨skip0, tok0, f0, st0, st0', a1, a2, a3, a4, a5, a6, a7, a8, a9, a10, a11, a12, a13.trans hm, a14⟩

/-- every memo entry is an over-limit entry (`v = Mtop`) or has its witness -/
def JustAll (cfg : Cfg) (B : List Char → CodePair.Cache → Prop) (src : List Char) (Mtop : Nat)
    (m : List (Nat × Nat)) : Prop :=
  ∀ k v, (k, v) ∈ m → v = Mtop ∨ Just cfg B src Mtop m k v

theorem JustAll.toJustAll {cfg : Cfg} {B : List Char → CodePair.Cache → Prop} {src : List Char}
    {Mtop : Nat} {m : List (Nat × Nat)} (h : JustAll cfg B src Mtop m) :
    Inline.JustAll cfg B src Mtop m :=
  fun k v hkv => (h k v hkv).imp id Just.toJust

theorem JustAll.nil (cfg : Cfg) (B : List Char → CodePair.Cache → Prop) (src : List Char) (Mtop : Nat) :
    JustAll cfg B src Mtop [] := by
  intro k v h; simp at h

theorem JustAll.grow {cfg : Cfg} {B : List Char → CodePair.Cache → Prop} {src : List Char} {Mtop : Nat}
    {m m' : List (Nat × Nat)} (h : JustAll cfg B src Mtop m) (hm : LookupMono m m')
    (hnew : ∀ k v, (k, v) ∈ m' → (k, v) ∈ m ∨ v = Mtop ∨ Just cfg B src Mtop m' k v) :
    JustAll cfg B src Mtop m' := by
  intro k v hkv
  rcases hnew k v hkv with h1 | h1 | h1
  · rcases h k v h1 with h2 | h2
    · exact .inl h2
    · exact .inr (h2.mono hm)
  · exact .inl h1
  · exact .inr h1

/-- the invariant of the states of the TOP frame (as in `CS`, with the new witnesses) -/
structure TopInv (cfg : Cfg) (B : List Char → CodePair.Cache → Prop) (src : List Char) (Mtop : Nat)
    (s : IState) : Prop where
  hsrc : s.src = src
  hmax : s.posMax = Mtop
  back : B s.src s.backticks
  le : ∀ k v, (k, v) ∈ s.cache → v ≤ Mtop
  just : JustAll cfg B src Mtop s.cache
  nocut : CodePair.NoCut '`' src Mtop
  hmk : RuleId.backticks ∈ cfg.chain → MK s

theorem TopInv.closed {cfg : Cfg} {B : List Char → CodePair.Cache → Prop} {src : List Char} {Mtop : Nat}
    {s : IState} (h : TopInv cfg B src Mtop s) : Closed s.cache 0 s.posMax := by
  intro k v hkv _ _
  rw [h.hmax]; exact h.le k v hkv

/-- **the refined `IFP` of the state a `skip_token` call returns**, from the entry it followed or made -/
theorem ifp_of_entry {cfg : Cfg} {B : List Char → CodePair.Cache → Prop} {src : List Char} {Mtop : Nat}
    (hend : EndHyp cfg B src Mtop) {s' : IState} (ht : TopInv cfg B src Mtop s')
    (hbt : RuleId.backticks ∈ cfg.chain) {p : Nat} (hp : (p, s'.pos) ∈ s'.cache) : IFP cfg s' := by
  intro hi hne
  rw [ht.hsrc] at hi hne
  rcases ht.just p s'.pos hp with hv | hj
  · exact absurd (show Interior src Mtop by rw [← hv]; exact hi) ht.nocut
  · have hk := hend _ _ _ hj.toJust hj.ep hi hne
    rw [hk] at hp
    have := ht.hmk hbt p hp (by rw [ht.hsrc, ← hk]; exact hi)
    rw [hk]; exact this

/-- **the state a `skip_token` call returns is not at an escaped character** (unless it is at `pos_max`) -/
theorem ep_of_entry {cfg : Cfg} {B : List Char → CodePair.Cache → Prop} {src : List Char} {Mtop : Nat}
    (hep : EndEP cfg B src Mtop) {s' : IState} (ht : TopInv cfg B src Mtop s')
    {p : Nat} (hp : (p, s'.pos) ∈ s'.cache) (hlt : s'.pos < s'.posMax) : EPc cfg src s'.pos := by
  rw [ht.hmax] at hlt
  rcases ht.just p s'.pos hp with hv | hj
  · omega
  · exact hep _ _ _ hj.toJust hj.ep hlt

end MdIt.Inline.ES
