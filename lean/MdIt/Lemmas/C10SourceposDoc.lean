/-
  C10 with the sourcepos plugin: the document-level lemmas behind Props/C10Sourcepos.lean (moved here so
  that `Lemmas/C10SpFull*.lean` can use them): two sources whose block trees agree below the root
  (`renderDoc_of_blocks_eq_sp`), and LF ↦ CR LF from the exact block relation (`doc_crlf_sp_of_blocks_q`,
  `spliceList_exact`, `InlineExact`, `PlN2`, `inlineExact_of_plain`).
-/
import MdIt.Lemmas.C10SourceposTree
import MdIt.Lemmas.C10SourceposSim
import MdIt.Props.DocTotal

namespace MdIt.Pipeline
open MdIt
open MdIt.Block.LE (FRel BRes BlocksRel NRel NRelL KRel MRel RgRel)
open MdIt.Lines (lfToCrlf lfToCr)
open MdIt.SourceMap (runSt mkMarks)

/-! # Part 1: two sources whose block trees agree below the root -/

mutual
theorem allN_spPure (p : Node → Bool) (hp : ∀ k r a a' cs cs', p ⟨k, r, a, cs⟩ = p ⟨k, r, a', cs'⟩)
    (src : List Char) (t : Node) : allN p (spPure src t) = allN p t := by
  match t with
  | ⟨k, r, a, cs⟩ =>
    simp only [spPure, allN, allNList_spPure p hp src cs]
    rw [hp k r _ a _ cs]
theorem allNList_spPure (p : Node → Bool) (hp : ∀ k r a a' cs cs', p ⟨k, r, a, cs⟩ = p ⟨k, r, a', cs'⟩)
    (src : List Char) (cs : List Node) : allNList p (spPureList src cs) = allNList p cs := by
  match cs with
  | [] => rfl
  | c :: r => simp only [spPureList, allNList, allN_spPure p hp src c, allNList_spPure p hp src r]
end

theorem rendered_attrs (q : Nat × Nat → Bool) (k : Kind) (r : Option (Nat × Nat))
    (a a' : List (List Char × List Char)) (cs cs' : List Node) :
    rendered q ⟨k, r, a, cs⟩ = rendered q ⟨k, r, a', cs'⟩ := rfl

mutual
theorem allN_true (t : Node) : allN (rendered fun _ => true) t = true := by
  match t with
  | ⟨k, r, a, cs⟩ =>
    simp only [allN, allNList_true cs, Bool.and_true, rendered]
    cases r <;> simp
theorem allNList_true (cs : List Node) : allNList (rendered fun _ => true) cs = true := by
  match cs with
  | [] => rfl
  | c :: r => simp only [allNList, allN_true c, allNList_true r, Bool.and_self]
end

/-- the tree `afterBlocks` hands to the sourcepos pass -/
def joined (cfg : DocCfg) (t : Node) : Node := if cfg.hasJoin = true then joinNode t else t

theorem rmap_joined (cfg : DocCfg) (f : Nat → Nat) (nr : Bool) (t : Node) :
    rmap f nr (joined cfg t) = joined cfg (rmap f nr t) := by
  unfold joined
  split
  · exact rmap_joinNode f nr t
  · rfl

theorem afterBlocks_sp (cfg : DocCfg) (hsp : cfg.sourcepos = true) (src : List Char) (root : Block.BNode)
    (refs : Refs.RefMap) :
    afterBlocks cfg src root refs =
      match spliceNode (cfg.inlineCfg refs) root with
      | .error e => .error e
      | .ok t => .ok (spPure src (joined cfg t)) := by
  unfold afterBlocks
  cases spliceNode (cfg.inlineCfg refs) root with
  | error e => rfl
  | ok t => simp only [hsp, if_true, sourceposNode_eq, joined]

/-- the core chain behind the block pass, sourcepos on, on two block roots with the SAME children -/
theorem afterBlocks_same_children (x : Bool) (cfg : DocCfg) (hsp : cfg.sourcepos = true) (s₁ s₂ : List Char)
    (q : Nat × Nat → Bool) (hq : ∀ r, q r = true → posAttr s₂ r = posAttr s₁ r)
    (r₁ r₂ : Option (Nat × Nat)) (cs : List Block.BNode) (refs : Refs.RefMap)
    (hall : ∀ t, afterBlocks cfg s₁ ⟨.root, r₁, cs⟩ refs = .ok t → allN (rendered q) t = true) :
    renderOf x cfg (afterBlocks cfg s₂ ⟨.root, r₂, cs⟩ refs) =
      renderOf x cfg (afterBlocks cfg s₁ ⟨.root, r₁, cs⟩ refs) := by
  rw [afterBlocks_sp cfg hsp, afterBlocks_sp cfg hsp] at *
  simp only [spliceNode] at *
  cases hs : spliceList (cfg.inlineCfg refs) cs with
  | error e => rfl
  | ok cs' =>
    simp only [hs] at hall
    have hall' := hall _ rfl
    rw [allN_spPure _ (rendered_attrs q)] at hall'
    have hT : rmap id true (joined cfg ⟨.blk .root, r₂, [], cs'⟩) =
        rmap id true (joined cfg ⟨.blk .root, r₁, [], cs'⟩) := by
      rw [rmap_joined, rmap_joined]
      simp [rmap, rangeOf, Kind.rendersAttrs]
    have := final_stage x cfg s₁ s₂ id q (fun r h => hq r h) _ _ hT hall'
    rw [sourceposNode_eq, sourceposNode_eq] at this
    exact this

/-- two sources whose block passes agree up to the root's range render alike WITH `data-sourcepos`,
    when the ranges of the attribute-rendering nodes have the same positions in both -/
theorem renderDoc_of_blocks_eq_sp (x : Bool) (cfg : DocCfg) (s₁ s₂ : List Char) (hsp : cfg.sourcepos = true)
    (h : BRes Eq (Block.parseBlocks cfg.blockCfg s₁) (Block.parseBlocks cfg.blockCfg s₂))
    (q : Nat × Nat → Bool) (hq : ∀ r, q r = true → posAttr s₂ r = posAttr s₁ r)
    (hall : ∀ t, parseDoc cfg s₁ = .ok t → allN (rendered q) t = true) :
    renderDoc x cfg s₂ = renderDoc x cfg s₁ := by
  rcases h with ⟨a, b, h1, h2, hk, hc, hr⟩ | ⟨e, h1, h2⟩
  · obtain ⟨hroot, _⟩ := Block.parseBlocks_wf h1
    obtain ⟨⟨k₁, r₁, c₁⟩, refs₁⟩ := a
    obtain ⟨⟨k₂, r₂, c₂⟩, refs₂⟩ := b
    simp only at hk hc hr hroot
    subst hk hr hroot
    have := Block.LE.NRelL.eq hc; subst this
    rw [renderDoc_eq_renderOf, renderDoc_eq_renderOf]
    unfold parseDoc at hall ⊢
    rw [h1] at hall
    rw [h1, h2]
    exact afterBlocks_same_children x cfg hsp s₁ s₂ q hq r₁ r₂ c₁ refs₁ hall
  · unfold renderDoc parseDoc
    rw [h1, h2]

/-- the range lies inside the text: it starts at one of its bytes and ends at or before its end -/
def insideB (src : List Char) (r : Nat × Nat) : Bool := decide (C10SP.Inside src r)

/-! # Part 3: LF ↦ CR LF -/

/-- where LF ↦ CR LF moves the byte at offset `a` of a CR-free text -/
def shiftOf (src : List Char) (a : Nat) : Nat := a + C10SP.lfBelow src a

/-- the start of the range does not point at a line feed, and the end is not 0 -/
def anchoredB (src : List Char) (r : Nat × Nat) : Bool := decide (C10SP.Anchored src r)

theorem posAttr_crlf (src : List Char) (hcr : '\r' ∉ src) (r : Nat × Nat) (h : anchoredB src r = true) :
    posAttr (lfToCrlf src) (shiftOf src r.1, shiftOf src r.2) = posAttr src r := by
  have ha : C10SP.Anchored src r := by simpa [anchoredB] using h
  have h1 := C10SP.getPosition_crlf_start src hcr r.1 ha.1
  have h2 := C10SP.getPosition_crlf_end src hcr r.2 ha.2
  rw [C10SP.getPosition_run, C10SP.getPosition_run] at h1 h2
  simp only [Except.ok.injEq] at h1 h2
  simp only [posAttr, shiftOf, h1, h2]

/-- what is needed of ONE pair of inline runs: for the same text under the per-line tables of the LF and
    of the CR LF document, the nodes that render attributes have ranges moved by `f`, all else equal -/
def InlineExact (icfg : Inline.Cfg) (f : Nat → Nat) (c : List Char) (m₁ m₂ : InlineOps.Srcmap) : Prop :=
  ∀ ns₁ ns₂, Inline.parseInline icfg c m₁ = .ok ns₁ → Inline.parseInline icfg c m₂ = .ok ns₂ →
    rmapList id true (ofInlineList ns₂) = rmapList f true (ofInlineList ns₁)

mutual
/-- `P` at every pair of `InlineRoot` placeholders the splice walk visits in two block trees of the
    same shape -/
def PlN2 (P : List Char → InlineOps.Srcmap → InlineOps.Srcmap → Prop) : Block.BNode → Block.BNode → Prop
  | ⟨_, _, c₁⟩, ⟨_, _, c₂⟩ => PlL2 P c₁ c₂
def PlL2 (P : List Char → InlineOps.Srcmap → InlineOps.Srcmap → Prop) : List Block.BNode → List Block.BNode → Prop
  | x :: xs, y :: ys =>
    (match x.kind, y.kind with
     | .inlineRoot c m₁, .inlineRoot _ m₂ => P c m₁ m₂
     | _, _ => PlN2 P x y) ∧ PlL2 P xs ys
  | _, _ => True
end

theorem rangeOf_rel {ρsrc : List Char} {k : Kind} {r₁ r₂ : Option (Nat × Nat)}
    (h : RgRel (C10SP.crlfRel ρsrc) r₁ r₂) :
    rangeOf id true k r₂ = rangeOf (shiftOf ρsrc) true k r₁ := by
  unfold rangeOf
  split
  · rfl
  · match r₁, r₂, h with
    | none, none, _ => rfl
    | some x, some y, h =>
      obtain ⟨h1, h2⟩ := h
      unfold C10SP.crlfRel at h1 h2
      simp [mapRange, shiftOf, h1, h2]

mutual
/-- the splice walk on two block trees related by the EXACT offset relation -/
theorem spliceNode_exact {icfg : Inline.Cfg} {src : List Char} : ∀ (b₁ b₂ : Block.BNode) (t₁ t₂ : Node),
    NRel (C10SP.crlfRel src) b₁ b₂ → (∀ c m, b₁.kind ≠ .inlineRoot c m) →
    PlN2 (InlineExact icfg (shiftOf src)) b₁ b₂ →
    spliceNode icfg b₁ = .ok t₁ → spliceNode icfg b₂ = .ok t₂ →
    rmap id true t₂ = rmap (shiftOf src) true t₁
  | ⟨k₁, r₁, c₁⟩, ⟨k₂, r₂, c₂⟩, t₁, t₂, hn, hk, hp, h₁, h₂ => by
    simp only [NRel] at hn
    simp only [PlN2] at hp
    have hkk : k₂ = k₁ := hn.1.eq_of_not_inline hk
    subst hkk
    simp only [spliceNode] at h₁ h₂
    split at h₁
    · cases h₁
    · rename_i o₁ ho₁
      split at h₂
      · cases h₂
      · rename_i o₂ ho₂
        cases h₁; cases h₂
        simp only [rmap, rangeOf_rel hn.2.1, spliceList_exact c₁ c₂ o₁ o₂ hn.2.2 hp ho₁ ho₂]
theorem spliceList_exact {icfg : Inline.Cfg} {src : List Char} : ∀ (c₁ c₂ : List Block.BNode) (o₁ o₂ : List Node),
    NRelL (C10SP.crlfRel src) c₁ c₂ → PlL2 (InlineExact icfg (shiftOf src)) c₁ c₂ →
    spliceList icfg c₁ = .ok o₁ → spliceList icfg c₂ = .ok o₂ →
    rmapList id true o₂ = rmapList (shiftOf src) true o₁
  | [], [], o₁, o₂, _, _, h₁, h₂ => by
    simp only [spliceList, Except.ok.injEq] at h₁ h₂
    subst h₁ h₂; rfl
  | [], _ :: _, _, _, hn, _, _, _ => by simp only [NRelL] at hn
  | _ :: _, [], _, _, hn, _, _, _ => by simp only [NRelL] at hn
  | x :: xs, y :: ys, o₁, o₂, hn, hp, h₁, h₂ => by
    obtain ⟨hxy, hrest⟩ := hn.cons_inv
    have hk := hxy.kind
    simp only [PlL2] at hp
    obtain ⟨hp1, hp2⟩ := hp
    simp only [spliceList] at h₁
    split at h₁
    · -- an `InlineRoot` on side 1, hence on side 2
      rename_i content m₁ hk₁
      have hy : ∃ m₂, y.kind = .inlineRoot content m₂ := by
        rw [hk₁] at hk
        rcases hk with hk | ⟨c, a, b, e1, e2, _⟩
        · exact ⟨m₁, hk.symm⟩
        · cases e1; exact ⟨b, e2⟩
      obtain ⟨m₂, hy⟩ := hy
      rw [hk₁, hy] at hp1
      simp only at hp1
      simp only [spliceList, hy] at h₂
      split at h₁
      · cases h₁
      · rename_i ns₁ hns₁
        split at h₁
        · cases h₁
        · rename_i q₁ hq₁
          cases h₁
          split at h₂
          · cases h₂
          · rename_i ns₂ hns₂
            split at h₂
            · cases h₂
            · rename_i q₂ hq₂
              cases h₂
              have e1 := hp1 ns₁ ns₂ hns₁ hns₂
              have e2 := spliceList_exact xs ys q₁ q₂ hrest hp2 hq₁ hq₂
              simp only [rmapList_eq_map, List.map_append] at e1 e2 ⊢
              rw [e1, e2]
    · -- anything else: the same kind on side 2
      rename_i hne₁
      have hy : y.kind = x.kind := hk.eq_of_not_inline (fun c m e => hne₁ c m e)
      have hp1' : PlN2 (InlineExact icfg (shiftOf src)) x y := by
        revert hp1
        split
        · rename_i e1 _
          exact absurd e1 (hne₁ _ _)
        · exact id
      simp only [spliceList] at h₂
      split at h₂
      · rename_i c m hyk
        rw [hy] at hyk
        exact absurd hyk (hne₁ c m)
      · split at h₁
        · cases h₁
        · rename_i t₁ ht₁
          split at h₁
          · cases h₁
          · rename_i q₁ hq₁
            cases h₁
            split at h₂
            · cases h₂
            · rename_i t₂ ht₂
              split at h₂
              · cases h₂
              · rename_i q₂ hq₂
                cases h₂
                simp only [rmapList, spliceNode_exact x y t₁ t₂ hxy (fun c m e => hne₁ c m e) hp1' ht₁ ht₂,
                  spliceList_exact xs ys q₁ q₂ hrest hp2 hq₁ hq₂]
end

mutual
theorem nrel_mono {ρ ρ' : Nat → Nat → Prop} (h : ∀ a b, ρ a b → ρ' a b) :
    ∀ (n₁ n₂ : Block.BNode), NRel ρ n₁ n₂ → NRel ρ' n₁ n₂
  | ⟨k₁, r₁, c₁⟩, ⟨k₂, r₂, c₂⟩, hn => by
    simp only [NRel] at hn ⊢
    refine ⟨?_, ?_, nrelL_mono h c₁ c₂ hn.2.2⟩
    · rcases hn.1 with e | ⟨c, m₁, m₂, e1, e2, hm⟩
      · exact Or.inl e
      · refine Or.inr ⟨c, m₁, m₂, e1, e2, ?_⟩
        clear e1 e2
        induction m₁ generalizing m₂ with
        | nil => cases m₂ <;> simp_all [Block.LE.MRel]
        | cons p r ih =>
          cases m₂ with
          | nil => simp [Block.LE.MRel] at hm
          | cons p' r' => exact ⟨hm.1, h _ _ hm.2.1, ih r' hm.2.2⟩
    · match r₁, r₂, hn.2.1 with
      | none, none, _ => trivial
      | some x, some y, hr => exact ⟨h _ _ hr.1, h _ _ hr.2⟩
theorem nrelL_mono {ρ ρ' : Nat → Nat → Prop} (h : ∀ a b, ρ a b → ρ' a b) :
    ∀ (a b : List Block.BNode), NRelL ρ a b → NRelL ρ' a b
  | [], [], _ => by simp only [NRelL]
  | [], _ :: _, hn => by simp only [NRelL] at hn
  | _ :: _, [], hn => by simp only [NRelL] at hn
  | x :: xs, y :: ys, hn => by
    obtain ⟨h1, h2⟩ := hn.cons_inv
    exact Block.LE.NRelL.cons (nrel_mono h x y h1) (nrelL_mono h xs ys h2)
end

/-- **LF ↦ CR LF with sourcepos, from the exact block relation**, for any check `q` of the ranges of the
    attribute-rendering nodes that makes the positions agree -/
theorem doc_crlf_sp_of_blocks_q (x : Bool) (cfg : DocCfg) (src : List Char) (hsp : cfg.sourcepos = true)
    (hcr : '\r' ∉ src)
    (hb : BRes (C10SP.crlfRel src) (Block.parseBlocks cfg.blockCfg src) (Block.parseBlocks cfg.blockCfg (lfToCrlf src)))
    (hinl : ∀ e, parseDoc cfg src ≠ .error (.inline e))
    (hix : ∀ root₁ refs₁ root₂ refs₂, Block.parseBlocks cfg.blockCfg src = .ok (root₁, refs₁) →
      Block.parseBlocks cfg.blockCfg (lfToCrlf src) = .ok (root₂, refs₂) →
      PlN2 (InlineExact (cfg.inlineCfg refs₁) (shiftOf src)) root₁ root₂)
    (q : Nat × Nat → Bool)
    (hq : ∀ r, q r = true → posAttr (lfToCrlf src) (shiftOf src r.1, shiftOf src r.2) = posAttr src r)
    (hanch : ∀ t, parseDoc cfg src = .ok t → allN (rendered q) t = true) :
    renderDoc x cfg (lfToCrlf src) = renderDoc x cfg src := by
  rcases hb with ⟨a, b, h1, h2, hk, hc, hr⟩ | ⟨e, h1, h2⟩
  · obtain ⟨hroot, _⟩ := Block.parseBlocks_wf h1
    have hix' := hix _ _ _ _ h1 h2
    obtain ⟨⟨k₁, r₁, c₁⟩, refs₁⟩ := a
    obtain ⟨⟨k₂, r₂, c₂⟩, refs₂⟩ := b
    simp only at hk hc hr hroot hix'
    subst hk hr hroot
    simp only [PlN2] at hix'
    rw [renderDoc_eq_renderOf, renderDoc_eq_renderOf]
    unfold parseDoc at hinl hanch ⊢
    rw [h1] at hinl hanch
    rw [h1, h2]
    simp only at hinl hanch ⊢
    rw [afterBlocks_sp cfg hsp] at hinl hanch ⊢
    rw [afterBlocks_sp cfg hsp]
    simp only [spliceNode] at hinl hanch ⊢
    cases hs₁ : spliceList (cfg.inlineCfg refs₁) c₁ with
    | error e =>
      exfalso
      obtain ⟨e', rfl⟩ := spliceList_error c₁ e hs₁
      rw [hs₁] at hinl
      exact hinl e' rfl
    | ok u₁ =>
      obtain ⟨u₂, hs₂⟩ := spliceList_ok_transfer c₁ c₂ u₁
        (nrelL_mono (fun a b (h : C10SP.crlfRel src a b) => by unfold C10SP.crlfRel at h; omega) c₁ c₂ hc) hs₁
      simp only [hs₁] at hanch
      simp only [hs₂]
      have hall := hanch _ rfl
      rw [allN_spPure _ (rendered_attrs _)] at hall
      have hu := spliceList_exact (icfg := cfg.inlineCfg refs₁) (src := src) c₁ c₂ u₁ u₂ hc hix' hs₁ hs₂
      have hT : rmap id true (joined cfg ⟨.blk .root, r₂, [], u₂⟩) =
          rmap (shiftOf src) true (joined cfg ⟨.blk .root, r₁, [], u₁⟩) := by
        rw [rmap_joined, rmap_joined]
        simp [rmap, rangeOf, Kind.rendersAttrs, hu]
      have := final_stage x cfg src (lfToCrlf src) (shiftOf src) q hq _ _ hT hall
      rw [sourceposNode_eq, sourceposNode_eq] at this
      exact this
  · unfold renderDoc parseDoc
    rw [h1, h2]


/-- **LF ↦ CR LF with sourcepos, from the exact block relation.** -/
theorem doc_crlf_sp_of_blocks (x : Bool) (cfg : DocCfg) (src : List Char) (hsp : cfg.sourcepos = true)
    (hcr : '\r' ∉ src)
    (hb : BRes (C10SP.crlfRel src) (Block.parseBlocks cfg.blockCfg src) (Block.parseBlocks cfg.blockCfg (lfToCrlf src)))
    (hinl : ∀ e, parseDoc cfg src ≠ .error (.inline e))
    (hix : ∀ root₁ refs₁ root₂ refs₂, Block.parseBlocks cfg.blockCfg src = .ok (root₁, refs₁) →
      Block.parseBlocks cfg.blockCfg (lfToCrlf src) = .ok (root₂, refs₂) →
      PlN2 (InlineExact (cfg.inlineCfg refs₁) (shiftOf src)) root₁ root₂)
    (hanch : ∀ t, parseDoc cfg src = .ok t → allN (rendered (anchoredB src)) t = true) :
    renderDoc x cfg (lfToCrlf src) = renderDoc x cfg src :=
  doc_crlf_sp_of_blocks_q x cfg src hsp hcr hb hinl hix (anchoredB src) (fun r h => posAttr_crlf src hcr r h) hanch

/-! ### `InlineExact` for inline content without attribute-rendering nodes -/

/-- no node of the tree renders attributes (`Text`, `TextSpecial`, breaks only) -/
def plainB (n : Node) : Bool := !n.kind.rendersAttrs

mutual
theorem rmap_plain (f : Nat → Nat) : ∀ t : Node, allN plainB t = true → rmap f true t = eraseRanges t
  | ⟨k, r, a, cs⟩, h => by
    simp only [allN, Bool.and_eq_true, plainB, Bool.not_eq_true'] at h
    simp only [rmap, eraseRanges, rangeOf, h.1, Bool.not_false, Bool.and_self, if_true,
      rmapList_plain f cs h.2]
theorem rmapList_plain (f : Nat → Nat) : ∀ l : List Node, allNList plainB l = true →
    rmapList f true l = eraseRangesList l
  | [], _ => rfl
  | c :: cs, h => by
    simp only [allNList, Bool.and_eq_true] at h
    simp only [rmapList, eraseRangesList, rmap_plain f c h.1, rmapList_plain f cs h.2]
end

mutual
theorem allN_plain_erase : ∀ t : Node, allN plainB (eraseRanges t) = allN plainB t
  | ⟨k, r, a, cs⟩ => by simp only [eraseRanges, allN, plainB, allNList_plain_erase cs]
theorem allNList_plain_erase : ∀ l : List Node, allNList plainB (eraseRangesList l) = allNList plainB l
  | [] => rfl
  | c :: cs => by simp only [eraseRangesList, allNList, allN_plain_erase c, allNList_plain_erase cs]
end

/-- an inline run that produces `Text` / `TextSpecial` / break nodes only is `InlineExact` for ANY pair
    of tables and any `f` (`inline_range_free`: the two runs differ in ranges only, and none of these
    ranges is rendered) — `hix` holds at every paragraph without emphasis, links, images, code spans
    and autolinks -/
theorem inlineExact_of_plain (icfg : Inline.Cfg) (f : Nat → Nat) (c : List Char) (m₁ m₂ : InlineOps.Srcmap)
    (hplain : ∀ ns₁, Inline.parseInline icfg c m₁ = .ok ns₁ → allNList plainB (ofInlineList ns₁) = true) :
    InlineExact icfg f c m₁ m₂ := by
  intro ns₁ ns₂ h₁ h₂
  have he := inline_range_free icfg c m₁ m₂ ns₁ ns₂ h₁ h₂
  have hp₁ := hplain ns₁ h₁
  have hp₂ : allNList plainB (ofInlineList ns₂) = true := by
    rw [← allNList_plain_erase, ← he, allNList_plain_erase]; exact hp₁
  rw [rmapList_plain id _ hp₂, rmapList_plain f _ hp₁, he]

end MdIt.Pipeline
