/-
  Helper development for `Props/C12Doc.lean` (C12 at whole-document level), INLINE side:
  a symbolic run of `Inline.tokLoop` on a window that holds `Entity.escapeAllPunct s`.

    * `trigger` / `runRule_quiet`   every rule of the html-free chain looks at the first character of
                                    the window and answers `None` without touching the state unless it
                                    is "its" character
    * `step_escape`, `step_text`    one iteration of `tokenize` at `\c` (the escape rule pushes the
                                    `TextSpecial`) and at a punctuation-free run (the text rule takes
                                    all of it)
    * `tokLoop_escaped`             the loop: the children are `Text` / `TextSpecial` leaves that show `s`
    * `trimSrc_mid`                 `InlineState::new` on  blanks ++ mid ++ blanks
    * `parseInline_escaped`         `md.inline.parse` on  blanks ++ escapeAllPunct m ++ blanks

  Nothing here unfolds the emphasis matcher (`matchInner` / `matchOuter` / `scanAndMatch`): an
  emphasis rule is only ever met at a character that is not its marker.
-/
import MdIt.Lemmas.InlineRules
import MdIt.Props.C12

namespace MdIt.Inline.C12
open MdIt.InlineOps (Srcmap getSourcePosFor getMap byteLen slice)
open MdIt.C05 (WFMap byteLen_append slice_ok_iff)
open MdIt.Entity (escapeAllPunct isAsciiPunct nonStop notPunct splitRun)

/-! ## what the children look like -/

/-- a `Text` leaf, or the `TextSpecial` leaf the escape rule makes for an escapable character -/
def TS (n : Node) : Prop :=
  n.children = [] ∧
  ((∃ c, n.val = .text c) ∨ (∃ ch, n.val = .special [ch] ['\\', ch] infoEscape))

/-- the characters a node shows: `Text.content`, `TextSpecial.content` -/
def showNode (n : Node) : List Char :=
  match n.val with
  | .text c => c
  | .special c _ _ => c
  | _ => []

def showList (l : List Node) : List Char := l.flatMap showNode

theorem showList_append (a b : List Node) : showList (a ++ b) = showList a ++ showList b := by
  simp [showList]

theorem showList_single (n : Node) : showList [n] = showNode n := by simp [showList]

/-! ## `trailing_text_push` on such children -/

theorem wf_single : WFMap [(0, 0)] := ⟨⟨0, [], rfl⟩, by simp⟩

theorem trailingTextPush_show (src : List Char) (m : Srcmap) (hm : WFMap m) (cs : List Node)
    (a b : Nat) (piece : List Char) (hs : slice src a b = .ok piece) (hcs : ∀ n ∈ cs, TS n) :
    ∃ out, trailingTextPush src m cs a b = .ok out ∧ (∀ n ∈ out, TS n) ∧
      showList out = showList cs ++ piece := by
  have hab : a ≤ b := by have := (slice_boundaries hs).2.2; omega
  obtain ⟨x, hx⟩ := C05.translate_total m hm a
  obtain ⟨y, hy⟩ := C05.translate_total m hm b
  have hmap : liftOps (getMap m a b) = .ok (x, y) := by
    unfold InlineOps.getMap; rw [if_neg (by omega), hx, hy]; rfl
  have hsl : liftOps (slice src a b) = .ok piece := by rw [hs]; rfl
  have hy' : liftOps (getSourcePosFor m b) = .ok y := by rw [hy]; rfl
  have hfresh : (∀ n ∈ cs ++ [Node.newText piece (some (x, y))], TS n) ∧
      showList (cs ++ [Node.newText piece (some (x, y))]) = showList cs ++ piece := by
    constructor
    · intro n hn
      rcases List.mem_append.mp hn with h | h
      · exact hcs n h
      · simp only [List.mem_singleton] at h; subst h
        exact ⟨rfl, .inl ⟨piece, rfl⟩⟩
    · rw [showList_append, showList_single]; rfl
  unfold trailingTextPush
  simp only [hsl, hmap, hy']
  rcases popLast_spec cs with ⟨hp, _⟩ | ⟨init, last, hp, hcs'⟩
  · rw [hp]; exact ⟨_, rfl, hfresh.1, hfresh.2⟩
  · rw [hp]
    simp only
    by_cases ht : last.isText = true
    · rw [if_pos ht]
      have hlast : TS last := hcs last (by rw [hcs']; simp)
      have hinit : ∀ n ∈ init, TS n := fun n hn => hcs n (by rw [hcs']; simp [hn])
      obtain ⟨c, hc⟩ : ∃ c, last.val = .text c := by
        unfold Node.isText at ht
        split at ht
        · exact ⟨_, by assumption⟩
        · cases ht
      have hcont : last.content = c := by unfold Node.content; rw [hc]
      have hshow : showList cs = showList init ++ c := by
        rw [hcs', showList_append, showList_single]; unfold showNode; rw [hc]
      split
      · refine ⟨_, rfl, ?_, ?_⟩
        · intro n hn
          rcases List.mem_append.mp hn with h | h
          · exact hinit n h
          · simp only [List.mem_singleton] at h; subst h
            exact ⟨hlast.1, .inl ⟨_, rfl⟩⟩
        · rw [showList_append, showList_single, hshow, hcont]; simp [showNode]
      · refine ⟨_, rfl, ?_, ?_⟩
        · intro n hn
          rcases List.mem_append.mp hn with h | h
          · exact hinit n h
          · simp only [List.mem_singleton] at h; subst h
            exact ⟨hlast.1, .inl ⟨_, rfl⟩⟩
        · rw [showList_append, showList_single, hshow, hcont]; simp [showNode]
    · rw [if_neg ht]; exact ⟨_, rfl, hfresh.1, hfresh.2⟩

/-! ## every rule looks at the first character -/

/-- the first characters a rule can answer `Some(..)` at -/
def trigger : RuleId → Char → Bool
  | .text, c => nonStop c
  | .newline, c => c == '\n'
  | .escape, c => c == '\\'
  | .backticks, c => c == '`'
  | .emph mk _, c => c == mk
  | .link, c => c == '['
  | .image, c => c == '!'
  | .linkEnd, _ => false
  | .autolink, c => c == '<'
  | .entity, c => c == '&'

theorem window_slice {st : IState} {w : List Char} (hw : st.window = .ok w) :
    slice st.src st.pos st.posMax = .ok w := window_eq hw

/-- at a character that is not "its own", a rule (real mode) answers `None` and leaves the state
    alone -/
theorem runRule_quiet (cfg : Cfg) (skip tok : IState → Except Panic IState) (fuel : Nat)
    (r : RuleId) (st : IState) (c : Char) (w : List Char)
    (hw : st.window = .ok (c :: w)) (ht : trigger r c = false) :
    runRule cfg skip tok fuel r st false = .ok (none, st) := by
  cases r with
  | text =>
    simp only [trigger] at ht
    have hs' : (splitRun nonStop (c :: w)).1 = [] := by simp [splitRun, ht]
    have hs : (splitRun (fun c => !Entity.textStop.contains c) (c :: w)).1 = [] := hs'
    simp only [runRule, ruleText, hw, hs, byteLen]
    rfl
  | newline =>
    simp only [trigger, beq_eq_false_iff_ne, ne_eq] at ht
    simp only [runRule, ruleNewline, hw, ht, not_false_eq_true, if_true, liftR]
    simp [ht]
  | escape =>
    simp only [trigger, beq_eq_false_iff_ne, ne_eq] at ht
    have : Entity.escapeCore (c :: w) = .ok none := by simp [Entity.escapeCore, ht]
    simp only [runRule, ruleEscape, hw, this, liftR]
  | backticks =>
    simp only [trigger, beq_eq_false_iff_ne, ne_eq] at ht
    have hs := (codeSlice_eq _ _ _ _).mpr (window_slice hw)
    simp only [runRule, ruleBackticks, CodePair.run, hs, ht, not_false_eq_true, if_true, liftR]
    simp [ht]
  | emph mk csw =>
    simp only [trigger, beq_eq_false_iff_ne, ne_eq] at ht
    simp only [runRule, ruleEmph, hw]
    simp [ht, liftR]
  | link =>
    simp only [trigger, beq_eq_false_iff_ne, ne_eq] at ht
    simp only [runRule, ruleLink, hw, liftR]
    simp [ht]
  | image =>
    simp only [trigger, beq_eq_false_iff_ne, ne_eq] at ht
    simp only [runRule, ruleImage, hw, liftR]
    split <;> first
      | rfl
      | (rename_i heq; simp only [Except.ok.injEq, List.cons.injEq] at heq; exact absurd heq.1 ht)
      | (rename_i heq; cases heq)
  | linkEnd => rfl
  | autolink =>
    simp only [trigger, beq_eq_false_iff_ne, ne_eq] at ht
    simp only [runRule, ruleAutolink, hw, liftR]
    simp [ht]
  | entity =>
    simp only [trigger, beq_eq_false_iff_ne, ne_eq] at ht
    simp only [runRule, ruleEntity, hw, liftR]
    simp [ht]

/-! ## the chain condition -/

/-- what the round trip needs of the inline chain: the text scanner and the escape rule are in it
    (anywhere), and every emphasis-like rule has an ASCII punctuation marker other than `\` (true of
    `*`, `_`, `~`).  No condition on order; any of the other rules may be present or absent. -/
structure ChainOK (chain : List RuleId) : Prop where
  text : RuleId.text ∈ chain
  escape : RuleId.escape ∈ chain
  emph : ∀ mk csw, RuleId.emph mk csw ∈ chain → isAsciiPunct mk = true ∧ mk ≠ '\\'

theorem firstRule_only (run : RuleId → IState → RuleRes) (chain : List RuleId) (st : IState)
    (r0 : RuleId) (n : Nat) (st' : IState) (hmem : r0 ∈ chain)
    (hfire : run r0 st = .ok (some n, st'))
    (hq : ∀ r ∈ chain, r ≠ r0 → run r st = .ok (none, st)) :
    firstRule run chain st = .ok (some n, st') := by
  induction chain with
  | nil => cases hmem
  | cons r rs ih =>
    by_cases hr : r = r0
    · subst hr; simp only [firstRule, hfire]
    · have h1 := hq r (by simp) hr
      simp only [firstRule, h1]
      refine ih ?_ (fun r' hr' hne => hq r' (List.mem_cons_of_mem _ hr') hne)
      rcases List.mem_cons.mp hmem with h | h
      · exact absurd h.symm hr
      · exact h

theorem trigger_plain {chain : List RuleId} (hc : ChainOK chain) {c : Char}
    (hp : isAsciiPunct c = false) (hn : c ≠ '\n') :
    ∀ r ∈ chain, r ≠ .text → trigger r c = false := by
  have key : ∀ d : Char, isAsciiPunct d = true → (c == d) = false := by
    intro d hd
    rw [beq_eq_false_iff_ne]
    intro h; subst h; rw [hp] at hd; cases hd
  intro r hr hne
  cases r with
  | text => exact absurd rfl hne
  | newline => simp only [trigger, beq_eq_false_iff_ne]; exact hn
  | escape => exact key _ (by decide)
  | backticks => exact key _ (by decide)
  | emph mk csw => exact key _ (hc.emph mk csw hr).1
  | link => exact key _ (by decide)
  | image => exact key _ (by decide)
  | linkEnd => rfl
  | autolink => exact key _ (by decide)
  | entity => exact key _ (by decide)

theorem trigger_backslash {chain : List RuleId} (hc : ChainOK chain) :
    ∀ r ∈ chain, r ≠ .escape → trigger r '\\' = false := by
  intro r hr hne
  cases r with
  | escape => exact absurd rfl hne
  | emph mk csw =>
    simp only [trigger, beq_eq_false_iff_ne]
    exact fun h => (hc.emph mk csw hr).2 h.symm
  | text => decide
  | _ => rfl

/-! ## one iteration of `tokenize` -/

theorem window_of_src {st : IState} {P W B : List Char} (hsrc : st.src = P ++ W ++ B)
    (hpos : st.pos = byteLen P) (hmax : st.posMax = byteLen P + byteLen W) :
    st.window = .ok W := by
  have : slice st.src st.pos st.posMax = .ok W :=
    (slice_ok_iff _ _ _ _).mpr ⟨P, B, hsrc, hpos.symm, by omega⟩
  unfold IState.window; rw [this]; rfl

/-- at `\c` with `c` ASCII punctuation: the escape rule pushes `TextSpecial { content: c }` and the
    loop moves behind the two characters -/
theorem step_escape {cfg : Cfg} (hc : ChainOK cfg.chain) (skip tok : IState → Except Panic IState)
    (fuel : Nat) (st : IState) (P E B : List Char) (c : Char) (hp : isAsciiPunct c = true)
    (hsrc : st.src = P ++ ('\\' :: c :: E) ++ B) (hpos : st.pos = byteLen P)
    (hmax : st.posMax = byteLen P + byteLen ('\\' :: c :: E))
    (hwf : WFMap st.srcmap) (hlv : st.level < cfg.maxNesting) (hts : ∀ n ∈ st.children, TS n) :
    ∃ st', tokStep cfg skip tok fuel st = .ok st' ∧ st'.src = st.src ∧ st'.srcmap = st.srcmap ∧
      st'.posMax = st.posMax ∧ st'.level = st.level ∧ st'.pos = byteLen (P ++ ['\\', c]) ∧
      (∀ n ∈ st'.children, TS n) ∧ showList st'.children = showList st.children ++ [c] := by
  have hw := window_of_src hsrc hpos hmax
  have hcore := Entity.escapeCore_escapable c E ((Entity.escapable_is_ascii_punct c).2 hp)
  obtain ⟨x, y, hmap, -, -⟩ := getMap_ok (st := st) hwf
    (show st.pos ≤ st.pos + byteLen ['\\', c] by omega)
  have hrule : runRule cfg skip tok fuel .escape st false =
      .ok (some (byteLen ['\\', c]),
        st.push (Node.leaf (.special [c] ['\\', c] infoEscape) (some (x, y)))) := by
    simp only [runRule, ruleEscape, hw, hcore, hmap, liftR]
    rfl
  have hfirst := firstRule_only (fun id s => runRule cfg skip tok fuel id s false) cfg.chain st
    .escape _ _ hc.escape hrule
    (fun r hr hne => runRule_quiet cfg skip tok fuel r st _ _ hw (trigger_backslash hc r hr hne))
  refine ⟨{ st with children := st.children ++ [Node.leaf (.special [c] ['\\', c] infoEscape) (some (x, y))],
                    pos := st.pos + byteLen ['\\', c] }, ?_, rfl, rfl, rfl, rfl, ?_, ?_, ?_⟩
  · unfold tokStep
    simp only [if_pos hlv, hfirst]
    rfl
  · simp only [hpos, byteLen_append]
  · intro n hn
    simp only at hn
    rcases List.mem_append.mp hn with h | h
    · exact hts n h
    · simp only [List.mem_singleton] at h; subst h
      exact ⟨rfl, .inr ⟨c, rfl⟩⟩
  · simp only [showList_append, showList_single]; rfl

/-- at a run `a` of characters that are neither ASCII punctuation nor a line feed, followed by the end
    of the window or a stop character: the text scanner takes exactly `a` -/
theorem step_text {cfg : Cfg} (hc : ChainOK cfg.chain) (skip tok : IState → Except Panic IState)
    (fuel : Nat) (st : IState) (P a E B : List Char) (hane : a ≠ [])
    (ha : ∀ x ∈ a, isAsciiPunct x = false ∧ x ≠ '\n') (hE : ∀ x ∈ E.head?, nonStop x = false)
    (hsrc : st.src = P ++ (a ++ E) ++ B) (hpos : st.pos = byteLen P)
    (hmax : st.posMax = byteLen P + byteLen (a ++ E))
    (hwf : WFMap st.srcmap) (hlv : st.level < cfg.maxNesting) (hts : ∀ n ∈ st.children, TS n) :
    ∃ st', tokStep cfg skip tok fuel st = .ok st' ∧ st'.src = st.src ∧ st'.srcmap = st.srcmap ∧
      st'.posMax = st.posMax ∧ st'.level = st.level ∧ st'.pos = byteLen (P ++ a) ∧
      (∀ n ∈ st'.children, TS n) ∧ showList st'.children = showList st.children ++ a := by
  have hw := window_of_src hsrc hpos hmax
  obtain ⟨c, a', rfl⟩ := List.exists_cons_of_ne_nil hane
  have hrun : splitRun nonStop ((c :: a') ++ E) = (c :: a', E) :=
    Entity.splitRun_append nonStop (c :: a') E
      (fun x hx => Entity.nonStop_of_notPunct x (ha x hx).1 (ha x hx).2) hE
  have hrun' : splitRun (fun c => !Entity.textStop.contains c) ((c :: a') ++ E) = (c :: a', E) := hrun
  have hlen : byteLen (c :: a') ≠ 0 := by
    have := Char.utf8Size_pos c; simp only [byteLen]; omega
  have hsl : slice st.src st.pos (st.pos + byteLen (c :: a')) = .ok (c :: a') :=
    (slice_ok_iff _ _ _ _).mpr ⟨P, E ++ B, by rw [hsrc]; simp, hpos.symm, rfl⟩
  obtain ⟨out, hout, hts', hshow⟩ :=
    trailingTextPush_show st.src st.srcmap hwf st.children _ _ _ hsl hts
  have hrule : runRule cfg skip tok fuel .text st false =
      .ok (some (byteLen (c :: a')), { st with children := out }) := by
    simp only [runRule, ruleText, hw, hrun', if_neg hlen, IState.pushText, hout, liftR]
    rfl
  have hw' : st.window = .ok (c :: (a' ++ E)) := hw
  have hfirst := firstRule_only (fun id s => runRule cfg skip tok fuel id s false) cfg.chain st
    .text _ _ hc.text hrule
    (fun r hr hne => runRule_quiet cfg skip tok fuel r st _ _ hw'
      (trigger_plain hc (ha c (by simp)).1 (ha c (by simp)).2 r hr hne))
  refine ⟨{ st with children := out, pos := st.pos + byteLen (c :: a') }, ?_, rfl, rfl, rfl, rfl,
    ?_, hts', hshow⟩
  · unfold tokStep
    simp only [if_pos hlv, hfirst]
  · simp only [hpos, byteLen_append]

/-! ## the loop -/

theorem byteLen_cons2 (a b : Char) (E : List Char) : byteLen (a :: b :: E) = byteLen [a, b] + byteLen E := by
  simp only [byteLen]; omega

theorem escapeAllPunct_head_stop (s : List Char) (h : ∀ c ∈ s.head?, notPunct c = false) :
    ∀ x ∈ (escapeAllPunct s).head?, nonStop x = false := by
  cases s with
  | nil => simp [escapeAllPunct]
  | cons c t =>
    have hc : isAsciiPunct c = true := by simpa [notPunct] using h c (by simp)
    intro x hx
    simp only [escapeAllPunct, hc, if_true, List.head?_cons, Option.mem_def, Option.some.injEq] at hx
    subst hx; decide

/-- **the inline loop on an escaped string.**  `st.src = P ++ escapeAllPunct s ++ B`, the window is
    exactly the middle part, the children so far are `Text` / `TextSpecial` leaves: the loop runs to
    the end of the window without panic, the children stay such leaves and show `s` more. -/
theorem tokLoop_escaped {cfg : Cfg} (hc : ChainOK cfg.chain) :
    ∀ (n : Nat) (s : List Char), s.length ≤ n → '\n' ∉ s → ∀ fuel, n ≤ fuel →
    ∀ (st : IState) (P B : List Char), st.src = P ++ escapeAllPunct s ++ B → st.pos = byteLen P →
      st.posMax = byteLen P + byteLen (escapeAllPunct s) → WFMap st.srcmap →
      st.level < cfg.maxNesting → (∀ n ∈ st.children, TS n) →
      ∃ st', tokLoop cfg fuel st.posMax st = .ok st' ∧ (∀ n ∈ st'.children, TS n) ∧
        showList st'.children = showList st.children ++ s := by
  intro n
  induction n with
  | zero =>
    intro s hs _ fuel _ st P B hsrc hpos hmax _ _ hts
    have : s = [] := List.length_eq_zero_iff.mp (by omega)
    subst this
    refine ⟨st, ?_, hts, by simp⟩
    unfold tokLoop
    rw [if_neg (by simp [escapeAllPunct, byteLen] at hmax; omega)]
  | succ n ih =>
    intro s hs hn fuel hf st P B hsrc hpos hmax hwf hlv hts
    match s, hs, hn with
    | [], _, _ =>
      refine ⟨st, ?_, hts, by simp⟩
      unfold tokLoop
      rw [if_neg (by simp [escapeAllPunct, byteLen] at hmax; omega)]
    | c :: t, hs, hn =>
      obtain ⟨f, rfl⟩ : ∃ f, fuel = f + 1 := ⟨fuel - 1, by omega⟩
      have hnt : '\n' ∉ t := fun h => hn (by simp [h])
      by_cases hp : isAsciiPunct c = true
      · have hesc : escapeAllPunct (c :: t) = '\\' :: c :: escapeAllPunct t := by
          simp [escapeAllPunct, hp]
        rw [hesc] at hsrc hmax
        obtain ⟨st1, h1, e1, e2, e3, e4, e5, hts1, hshow1⟩ :=
          step_escape hc (fun s => skipToken cfg f s) (fun s => tokLoop cfg f s.posMax s) f st P
            (escapeAllPunct t) B c hp hsrc hpos hmax hwf hlv hts
        obtain ⟨st2, h2, hts2, hshow2⟩ := ih t (by simpa using hs) hnt f (by omega) st1
          (P ++ ['\\', c]) B (by rw [e1, hsrc]; simp) e5
          (by rw [e3, hmax, byteLen_append, byteLen_cons2 '\\' c]; omega) (by rw [e2]; exact hwf)
          (by rw [e4]; exact hlv) hts1
        refine ⟨st2, ?_, hts2, by rw [hshow2, hshow1]; simp⟩
        have hlt : st.pos < st.posMax := by
          have := byteLen_pos_of_ne_nil (l := '\\' :: c :: escapeAllPunct t) (by simp)
          rw [hpos, hmax]; omega
        unfold tokLoop
        rw [if_pos hlt]
        simp only [h1]
        rw [← e3]; exact h2
      · have hp' : isAsciiPunct c = false := by simpa using hp
        have hsound := Entity.splitRun_sound notPunct (c :: t)
        generalize ha : (splitRun notPunct (c :: t)).1 = a at hsound
        generalize hs' : (splitRun notPunct (c :: t)).2 = s' at hsound
        have hane : a ≠ [] := by
          intro he; rw [← ha] at he; simp [splitRun, notPunct, hp'] at he
        have hlen : (c :: t).length = a.length + s'.length := by rw [hsound.2.1]; simp
        have hapos : 0 < a.length := List.length_pos_iff.2 hane
        have hns' : '\n' ∉ s' := fun h => hn (by rw [hsound.2.1]; simp [h])
        have hesc : escapeAllPunct (c :: t) = a ++ escapeAllPunct s' := by
          rw [hsound.2.1]; exact Entity.escapeAllPunct_append_notPunct a s' hsound.1
        have haP : ∀ x ∈ a, isAsciiPunct x = false ∧ x ≠ '\n' := by
          intro x hx
          refine ⟨by simpa [notPunct] using hsound.1 x hx, ?_⟩
          intro he; subst he; exact hn (by rw [hsound.2.1]; simp [hx])
        rw [hesc] at hsrc hmax
        obtain ⟨st1, h1, e1, e2, e3, e4, e5, hts1, hshow1⟩ :=
          step_text hc (fun s => skipToken cfg f s) (fun s => tokLoop cfg f s.posMax s) f st P a
            (escapeAllPunct s') B hane haP (escapeAllPunct_head_stop s' hsound.2.2) hsrc hpos hmax
            hwf hlv hts
        obtain ⟨st2, h2, hts2, hshow2⟩ := ih s' (by simp at hs hlen; omega) hns' f (by omega) st1
          (P ++ a) B (by rw [e1, hsrc]; simp) e5
          (by rw [e3, hmax]; simp only [byteLen_append]; omega) (by rw [e2]; exact hwf)
          (by rw [e4]; exact hlv) hts1
        refine ⟨st2, ?_, hts2, ?_⟩
        · have hlt : st.pos < st.posMax := by
            have := byteLen_pos_of_ne_nil hane
            rw [hpos, hmax]; simp only [byteLen_append]; omega
          unfold tokLoop
          rw [if_pos hlt]
          simp only [h1]
          rw [← e3]; exact h2
        · rw [hshow2, hshow1, hsound.2.1]; simp

/-! ## `InlineState::new`: the trimmed window -/

theorem takeWhile_append_stop {α : Type} (p : α → Bool) (a b : List α) (ha : ∀ x ∈ a, p x = true)
    (hb : ∀ x ∈ b.head?, p x = false) : (a ++ b).takeWhile p = a ∧ (a ++ b).dropWhile p = b := by
  induction a with
  | nil =>
    cases b with
    | nil => simp
    | cons x r => have := hb x (by simp); simp [List.takeWhile_cons, List.dropWhile_cons, this]
  | cons x r ih =>
    have hx := ha x (by simp)
    have := ih (fun y hy => ha y (by simp [hy]))
    simp [List.takeWhile_cons, List.dropWhile_cons, hx, this.1, this.2]

/-- `trim_src` on  blanks ++ mid ++ blanks  where `mid` is non-empty and neither starts nor ends
    with a blank: the window is exactly `mid` -/
theorem trimSrc_mid (w m w' : List Char) (hw : ∀ c ∈ w, isSpTab c = true)
    (hw' : ∀ c ∈ w', isSpTab c = true) (hne : m ≠ [])
    (hh : ∀ c ∈ m.head?, isSpTab c = false) (hl : ∀ c ∈ m.getLast?, isSpTab c = false) :
    trimSrc (w ++ m ++ w') = (byteLen w, byteLen w + byteLen m) := by
  obtain ⟨mi, l, rfl⟩ : ∃ mi l, m = mi ++ [l] := ⟨m.dropLast, m.getLast hne, (List.dropLast_concat_getLast hne).symm⟩
  have hlb : isSpTab l = false := hl l (by simp)
  have hrev : (w ++ (mi ++ [l]) ++ w').reverse = w'.reverse ++ (l :: (mi.reverse ++ w.reverse)) := by simp
  have h1 := takeWhile_append_stop isSpTab w'.reverse (l :: (mi.reverse ++ w.reverse))
    (fun x hx => hw' x (List.mem_reverse.mp hx)) (by intro x hx; simp at hx; subst hx; exact hlb)
  have hmi : ∀ x ∈ mi.head?, isSpTab x = false := by
    intro x hx
    cases mi with
    | nil => simp at hx
    | cons y r => simp at hx; subst hx; exact hh _ (by simp)
  have h2 := takeWhile_append_stop isSpTab w mi hw hmi
  have hbw : byteLen w = w.length := byteLen_ascii _ (fun c hc => isSpTab_size (hw c hc))
  have hbw' : byteLen w' = w'.length := byteLen_ascii _ (fun c hc => isSpTab_size (hw' c hc))
  unfold trimSrc
  simp only [hrev, h1.1, h1.2, List.drop_succ_cons, List.drop_zero, List.reverse_append,
    List.reverse_reverse, h2.1, List.length_reverse]
  simp only [byteLen_append, hbw, hbw']
  congr 1
  omega

theorem escapeAllPunct_length (l : List Char) : l.length ≤ (escapeAllPunct l).length := by
  induction l with
  | nil => simp [escapeAllPunct]
  | cons c t ih => simp only [escapeAllPunct]; split <;> simp <;> omega

/-- **`md.inline.parse` on an escaped line** (with any blanks around it, any well-formed per-line
    table): no panic, the children are `Text` / `TextSpecial` leaves and show exactly `m`. -/
theorem parseInline_escaped {cfg : Cfg} (hc : ChainOK cfg.chain) (hmax : 0 < cfg.maxNesting)
    (w m w' : List Char) (mapping : Srcmap) (hmap : WFMap mapping)
    (hw : ∀ c ∈ w, isSpTab c = true) (hw' : ∀ c ∈ w', isSpTab c = true) (hne : m ≠ [])
    (hh : ∀ c ∈ m.head?, isSpTab c = false) (hl : ∀ c ∈ m.getLast?, isSpTab c = false)
    (hn : '\n' ∉ m) :
    ∃ ns, parseInline cfg (w ++ escapeAllPunct m ++ w') mapping = .ok ns ∧ (∀ n ∈ ns, TS n) ∧
      showList ns = m := by
  have hwE : ∀ c ∈ (escapeAllPunct m).head?, isSpTab c = false := by
    cases m with
    | nil => exact absurd rfl hne
    | cons c t =>
      intro x hx
      simp only [escapeAllPunct] at hx
      split at hx
      · simp at hx; subst hx; decide
      · simp at hx; subst hx; exact hh _ (by simp)
  have hlE : ∀ c ∈ (escapeAllPunct m).getLast?, isSpTab c = false := by
    obtain ⟨mi, l, rfl⟩ : ∃ mi l, m = mi ++ [l] :=
      ⟨m.dropLast, m.getLast hne, (List.dropLast_concat_getLast hne).symm⟩
    have hlb : isSpTab l = false := hl l (by simp)
    have happ : ∀ a b : List Char, escapeAllPunct (a ++ b) = escapeAllPunct a ++ escapeAllPunct b := by
      intro a b
      induction a with
      | nil => rfl
      | cons c t ih => simp only [List.cons_append, escapeAllPunct]; split <;> simp [ih]
    intro x hx
    rw [happ] at hx
    simp only [escapeAllPunct] at hx
    split at hx
    · simp at hx; subst hx; exact hlb
    · simp at hx; subst hx; exact hlb
  have hneE : escapeAllPunct m ≠ [] := by
    intro he
    have := escapeAllPunct_length m
    rw [he] at this
    exact hne (List.length_eq_zero_iff.mp (by simpa using this))
  have htrim := trimSrc_mid w (escapeAllPunct m) w' hw hw' hneE hwE hlE
  let st0 : IState := IState.init (w ++ escapeAllPunct m ++ w') mapping
  have hfuel : m.length ≤ topFuel cfg (w ++ escapeAllPunct m ++ w') := by
    have h1 := escapeAllPunct_length m
    have h2 : ∀ l : List Char, l.length ≤ byteLen l := by
      intro l
      induction l with
      | nil => simp
      | cons c t ih => have := Char.utf8Size_pos c; simp only [byteLen, List.length_cons]; omega
    have h2 := h2 (escapeAllPunct m)
    unfold topFuel
    simp only [byteLen_append]
    have : byteLen w + byteLen (escapeAllPunct m) + byteLen w' + 2 ≤
        (byteLen w + byteLen (escapeAllPunct m) + byteLen w' + 2) * (cfg.maxNesting + 2) :=
      Nat.le_mul_of_pos_right _ (by omega)
    omega
  obtain ⟨st', h, hts, hshow⟩ := tokLoop_escaped hc m.length m (Nat.le_refl _) hn
    (topFuel cfg (w ++ escapeAllPunct m ++ w')) hfuel st0 w w' rfl
    (by show (trimSrc _).1 = _; rw [htrim]) (by show (trimSrc _).2 = _; rw [htrim]) hmap
    (by show 0 < _; exact hmax) (by intro n hn; cases hn)
  refine ⟨st'.children, ?_, hts, by rw [hshow]; rfl⟩
  unfold parseInline tokenize
  have : (IState.init (w ++ escapeAllPunct m ++ w') mapping) = st0 := rfl
  rw [this, h]

/-! ## exact steps (for the templated documents of the context-agreement part) -/

/-- `tokenize`: one more iteration -/
theorem tokLoop_step {cfg : Cfg} {f : Nat} {st st1 : IState} (hlt : st.pos < st.posMax)
    (h1 : tokStep cfg (fun s => skipToken cfg f s) (fun s => tokLoop cfg f s.posMax s) f st = .ok st1)
    (hpm : st1.posMax = st.posMax) :
    tokLoop cfg (f + 1) st.posMax st = tokLoop cfg f st1.posMax st1 := by
  rw [hpm]
  conv => lhs; unfold tokLoop
  rw [if_pos hlt]
  simp only [h1]

theorem tokLoop_done {cfg : Cfg} {f : Nat} {st : IState} (h : ¬ st.pos < st.posMax) :
    tokLoop cfg f st.posMax st = .ok st := by
  unfold tokLoop
  rw [if_neg h]

/-- the text scanner on a plain run when the last child is not a `Text`: a fresh `Text` node -/
theorem step_text_fresh {cfg : Cfg} (hc : ChainOK cfg.chain) (skip tok : IState → Except Panic IState)
    (fuel : Nat) (st : IState) (P a E B : List Char) (hane : a ≠ [])
    (ha : ∀ x ∈ a, isAsciiPunct x = false ∧ x ≠ '\n') (hE : ∀ x ∈ E.head?, nonStop x = false)
    (hsrc : st.src = P ++ (a ++ E) ++ B) (hpos : st.pos = byteLen P)
    (hmax : st.posMax = byteLen P + byteLen (a ++ E))
    (hwf : WFMap st.srcmap) (hlv : st.level < cfg.maxNesting)
    (hlast : ∀ init l, st.children = init ++ [l] → l.isText = false) :
    ∃ st' rg, tokStep cfg skip tok fuel st = .ok st' ∧ st'.src = st.src ∧ st'.srcmap = st.srcmap ∧
      st'.posMax = st.posMax ∧ st'.level = st.level ∧ st'.pos = byteLen (P ++ a) ∧
      st'.children = st.children ++ [Node.newText a (some rg)] := by
  have hw := window_of_src hsrc hpos hmax
  obtain ⟨c, a', rfl⟩ := List.exists_cons_of_ne_nil hane
  have hrun : splitRun nonStop ((c :: a') ++ E) = (c :: a', E) :=
    Entity.splitRun_append nonStop (c :: a') E
      (fun x hx => Entity.nonStop_of_notPunct x (ha x hx).1 (ha x hx).2) hE
  have hrun' : splitRun (fun c => !Entity.textStop.contains c) ((c :: a') ++ E) = (c :: a', E) := hrun
  have hlen : byteLen (c :: a') ≠ 0 := by
    have := Char.utf8Size_pos c; simp only [byteLen]; omega
  have hsl : slice st.src st.pos (st.pos + byteLen (c :: a')) = .ok (c :: a') :=
    (slice_ok_iff _ _ _ _).mpr ⟨P, E ++ B, by rw [hsrc]; simp, hpos.symm, rfl⟩
  obtain ⟨x, y, hmap, -, -⟩ := getMap_ok (st := st) hwf
    (show st.pos ≤ st.pos + byteLen (c :: a') by omega)
  have hmap' : liftOps (getMap st.srcmap st.pos (st.pos + byteLen (c :: a'))) = .ok (x, y) := hmap
  have hsl' : liftOps (slice st.src st.pos (st.pos + byteLen (c :: a'))) = .ok (c :: a') := by
    rw [hsl]; rfl
  have hpush : trailingTextPush st.src st.srcmap st.children st.pos (st.pos + byteLen (c :: a')) =
      .ok (st.children ++ [Node.newText (c :: a') (some (x, y))]) := by
    unfold trailingTextPush
    simp only [hsl', hmap']
    rcases popLast_spec st.children with ⟨hp, _⟩ | ⟨init, last, hp, hcs⟩
    · rw [hp]
    · rw [hp]; simp only [hlast init last hcs]; rfl
  have hrule : runRule cfg skip tok fuel .text st false =
      .ok (some (byteLen (c :: a')),
        { st with children := st.children ++ [Node.newText (c :: a') (some (x, y))] }) := by
    simp only [runRule, ruleText, hw, hrun', if_neg hlen, IState.pushText, hpush, liftR]
    rfl
  have hw' : st.window = .ok (c :: (a' ++ E)) := hw
  have hfirst := firstRule_only (fun id s => runRule cfg skip tok fuel id s false) cfg.chain st
    .text _ _ hc.text hrule
    (fun r hr hne => runRule_quiet cfg skip tok fuel r st _ _ hw'
      (trigger_plain hc (ha c (by simp)).1 (ha c (by simp)).2 r hr hne))
  refine ⟨{ st with children := st.children ++ [Node.newText (c :: a') (some (x, y))],
                    pos := st.pos + byteLen (c :: a') }, (x, y), ?_, rfl, rfl, rfl, rfl, ?_, rfl⟩
  · unfold tokStep
    simp only [if_pos hlv, hfirst]
  · simp only [hpos, byteLen_append]

/-- a rule `r0` that answers at the first character `c0` of `R` with the `TextSpecial`
    `{ content: X, markup: R, info }` of length `|R|`, all other rules of the chain being quiet at `c0` -/
theorem step_special {cfg : Cfg} (skip tok : IState → Except Panic IState) (fuel : Nat) (st : IState)
    (P R E B X info : List Char) (r0 : RuleId) (c0 : Char) (R' : List Char) (hR : R = c0 :: R')
    (hmem : r0 ∈ cfg.chain) (hq : ∀ r ∈ cfg.chain, r ≠ r0 → trigger r c0 = false)
    (hfire : ∀ rg, st.getMap st.pos (st.pos + byteLen R) = .ok rg →
      runRule cfg skip tok fuel r0 st false =
        .ok (some (byteLen R), st.push (Node.leaf (.special X R info) (some rg))))
    (hsrc : st.src = P ++ (R ++ E) ++ B) (hpos : st.pos = byteLen P)
    (hmax : st.posMax = byteLen P + byteLen (R ++ E))
    (hwf : WFMap st.srcmap) (hlv : st.level < cfg.maxNesting) :
    ∃ st' rg, tokStep cfg skip tok fuel st = .ok st' ∧ st'.src = st.src ∧ st'.srcmap = st.srcmap ∧
      st'.posMax = st.posMax ∧ st'.level = st.level ∧ st'.pos = byteLen (P ++ R) ∧
      st'.children = st.children ++ [Node.leaf (.special X R info) (some rg)] := by
  have hw := window_of_src hsrc hpos hmax
  have hw' : st.window = .ok (c0 :: (R' ++ E)) := by rw [hw, hR]; rfl
  obtain ⟨x, y, hmap, -, -⟩ := getMap_ok (st := st) hwf (show st.pos ≤ st.pos + byteLen R by omega)
  have hrule := hfire (x, y) hmap
  have hfirst := firstRule_only (fun id s => runRule cfg skip tok fuel id s false) cfg.chain st
    r0 _ _ hmem hrule
    (fun r hr hne => runRule_quiet cfg skip tok fuel r st _ _ hw' (hq r hr hne))
  refine ⟨{ st with children := st.children ++ [Node.leaf (.special X R info) (some (x, y))],
                    pos := st.pos + byteLen R }, (x, y), ?_, rfl, rfl, rfl, rfl, ?_, rfl⟩
  · unfold tokStep
    simp only [if_pos hlv, hfirst]
    rfl
  · simp only [hpos, byteLen_append]

/-- the escape rule on `\c …` -/
theorem fire_escape (cfg : Cfg) (skip tok : IState → Except Panic IState) (fuel : Nat) (st : IState)
    (c : Char) (E : List Char) (hc : c ∈ Entity.escapable) (hw : st.window = .ok ('\\' :: c :: E))
    (rg : Nat × Nat) (hmap : st.getMap st.pos (st.pos + byteLen ['\\', c]) = .ok rg) :
    runRule cfg skip tok fuel .escape st false =
      .ok (some (byteLen ['\\', c]), st.push (Node.leaf (.special [c] ['\\', c] infoEscape) (some rg))) := by
  have hcore := Entity.escapeCore_escapable c E hc
  simp only [runRule, ruleEscape, hw, hcore, hmap, liftR]
  rfl

/-- the entity rule when the window reaches to the end of the source (`window = suffix`) -/
theorem fire_entity (cfg : Cfg) (skip tok : IState → Except Panic IState) (fuel : Nat) (st : IState)
    (P R E X : List Char) (R' : List Char) (hR : R = '&' :: R')
    (hcore : Entity.entityCore cfg.entity (R ++ E) (R ++ E) = .ok (some ⟨R.length, X, R⟩))
    (hsrc : st.src = P ++ (R ++ E)) (hpos : st.pos = byteLen P)
    (hmax : st.posMax = byteLen P + byteLen (R ++ E))
    (rg : Nat × Nat) (hmap : st.getMap st.pos (st.pos + byteLen R) = .ok rg) :
    runRule cfg skip tok fuel .entity st false =
      .ok (some (byteLen R), st.push (Node.leaf (.special X R infoEntity) (some rg))) := by
  have hw : st.window = .ok ('&' :: (R' ++ E)) := by
    have := window_of_src (B := []) (by rw [hsrc]; simp) hpos hmax
    rw [this, hR]; rfl
  have hsuf : liftOps (slice st.src st.pos (byteLen st.src)) = .ok (R ++ E) := by
    have : slice st.src st.pos (byteLen st.src) = .ok (R ++ E) :=
      (slice_ok_iff _ _ _ _).mpr ⟨P, [], by rw [hsrc]; simp, hpos.symm, by rw [hsrc, hpos]; simp only [byteLen_append]⟩
    rw [this]; rfl
  have hcore' : Entity.entityCore cfg.entity ('&' :: (R' ++ E)) (R ++ E) = .ok (some ⟨R.length, X, R⟩) := by
    rw [← hcore, hR]; rfl
  simp only [runRule, ruleEntity, hw, hsuf, hcore', liftR]
  simp [hmap]

/-- **`md.inline.parse("a" ++ R ++ "b")`** for a reference / escape `R` handled by rule `r0`:
    exactly `[Text "a", TextSpecial { content: X, markup: R, info }, Text "b"]` -/
theorem parseInline_aRb {cfg : Cfg} (hc : ChainOK cfg.chain) (hmax : 0 < cfg.maxNesting)
    (R X info : List Char) (r0 : RuleId) (c0 : Char) (R' : List Char) (hR : R = c0 :: R')
    (hstop : nonStop c0 = false) (hmem : r0 ∈ cfg.chain)
    (hq : ∀ r ∈ cfg.chain, r ≠ r0 → trigger r c0 = false)
    (hfire : ∀ (skip tok : IState → Except Panic IState) (fuel : Nat) (st : IState),
      st.src = ['a'] ++ (R ++ ['b']) → st.pos = byteLen ['a'] →
      st.posMax = byteLen ['a'] + byteLen (R ++ ['b']) →
      ∀ rg, st.getMap st.pos (st.pos + byteLen R) = .ok rg →
      runRule cfg skip tok fuel r0 st false =
        .ok (some (byteLen R), st.push (Node.leaf (.special X R info) (some rg)))) :
    ∃ r1 r2 r3, parseInline cfg ('a' :: (R ++ ['b'])) [(0, 0)] =
      .ok [Node.newText ['a'] (some r1), Node.leaf (.special X R info) (some r2),
           Node.newText ['b'] (some r3)] := by
  have htrim : trimSrc ('a' :: (R ++ ['b'])) = (0, byteLen ('a' :: (R ++ ['b']))) := by
    have := trimSrc_mid [] ('a' :: (R ++ ['b'])) [] (by simp) (by simp) (by simp)
      (by intro c hc; simp at hc; subst hc; decide)
      (by intro c hc
          rw [show 'a' :: (R ++ ['b']) = ('a' :: R) ++ ['b'] by simp, List.getLast?_append] at hc
          simp at hc; subst hc; decide)
    simpa [byteLen] using this
  obtain ⟨f, hf⟩ : ∃ f, topFuel cfg ('a' :: (R ++ ['b'])) = f + 3 := by
    refine ⟨topFuel cfg ('a' :: (R ++ ['b'])) - 3, ?_⟩
    unfold topFuel
    have : 1 * 3 ≤ (byteLen ('a' :: (R ++ ['b'])) + 2) * (cfg.maxNesting + 2) :=
      Nat.mul_le_mul (by omega) (by omega)
    omega
  let st0 : IState := IState.init ('a' :: (R ++ ['b'])) [(0, 0)]
  have hb : ∀ x ∈ ['b'], isAsciiPunct x = false ∧ x ≠ '\n' := by
    intro x hx; simp at hx; subst hx; exact ⟨by decide, by decide⟩
  have ha : ∀ x ∈ ['a'], isAsciiPunct x = false ∧ x ≠ '\n' := by
    intro x hx; simp at hx; subst hx; exact ⟨by decide, by decide⟩
  -- step 1: "a"
  obtain ⟨st1, r1, h1, s1, m1, p1, l1, q1, c1⟩ := step_text_fresh hc (fun s => skipToken cfg (f + 2) s)
    (fun s => tokLoop cfg (f + 2) s.posMax s) (f + 2) st0 [] ['a'] (R ++ ['b']) [] (by simp) ha
    (by intro x hx; rw [hR] at hx; simp at hx; subst hx; exact hstop)
    (by show 'a' :: (R ++ ['b']) = _; simp) (by show (trimSrc _).1 = _; rw [htrim]; rfl)
    (by show (trimSrc _).2 = _; rw [htrim]; simp [byteLen]) wf_single (by show 0 < _; exact hmax)
    (by intro init l h; exact absurd h (by simp [st0, IState.init]))
  -- step 2: R
  obtain ⟨st2, r2, h2, s2, m2, p2, l2, q2, c2⟩ := step_special (fun s => skipToken cfg (f + 1) s)
    (fun s => tokLoop cfg (f + 1) s.posMax s) (f + 1) st1 ['a'] R ['b'] [] X info r0 c0 R' hR hmem hq
    (fun rg hrg => hfire _ _ _ st1 (by rw [s1]; rfl) (by rw [q1]; rfl)
      (by rw [p1]; show (trimSrc _).2 = _; rw [htrim]; simp [byteLen]) rg hrg)
    (by rw [s1]; show 'a' :: (R ++ ['b']) = _; simp) (by rw [q1]; rfl)
    (by rw [p1]; show (trimSrc _).2 = _; rw [htrim]; simp [byteLen]) (by rw [m1]; exact wf_single)
    (by rw [l1]; show 0 < _; exact hmax)
  -- step 3: "b"
  obtain ⟨st3, r3, h3, s3, m3, p3, l3, q3, c3⟩ := step_text_fresh hc (fun s => skipToken cfg f s)
    (fun s => tokLoop cfg f s.posMax s) f st2 (['a'] ++ R) ['b'] [] [] (by simp) hb (by simp)
    (by rw [s2, s1]; show 'a' :: (R ++ ['b']) = _; simp) q2
    (by rw [p2, p1]; show (trimSrc _).2 = _; rw [htrim]; simp [byteLen, byteLen_append]; omega)
    (by rw [m2, m1]; exact wf_single) (by rw [l2, l1]; show 0 < _; exact hmax)
    (by intro init l h
        rw [c2] at h
        have := List.append_inj' h rfl
        simp only [List.cons.injEq, and_true] at this
        rw [← this.2]; rfl)
  have hlen : byteLen ('a' :: (R ++ ['b'])) = byteLen ['a'] + byteLen R + byteLen ['b'] := by
    simp [byteLen, byteLen_append]; omega
  have hRpos : 0 < byteLen R := byteLen_pos_of_ne_nil (by rw [hR]; simp)
  have e0 : st0.posMax = byteLen ('a' :: (R ++ ['b'])) := by show (trimSrc _).2 = _; rw [htrim]
  have e0' : st0.pos = 0 := by show (trimSrc _).1 = _; rw [htrim]
  have hbpos : 0 < byteLen ['b'] := byteLen_pos_of_ne_nil (by simp)
  have hapos : 0 < byteLen ['a'] := byteLen_pos_of_ne_nil (by simp)
  refine ⟨r1, r2, r3, ?_⟩
  unfold parseInline tokenize
  show (match tokLoop cfg (topFuel cfg ('a' :: (R ++ ['b']))) st0.posMax st0 with
    | .error e => (Except.error e : Except Panic (List Node)) | .ok st => .ok st.children) = _
  rw [hf, tokLoop_step (by rw [e0', e0, hlen]; omega) h1 p1,
    tokLoop_step (by rw [q1, p1, e0, hlen]; simp only [List.nil_append]; omega) h2 p2,
    tokLoop_step (by rw [q2, p2, p1, e0, hlen, byteLen_append]; omega) h3 p3,
    tokLoop_done (by rw [q3, p3, p2, p1, e0, hlen]; simp only [byteLen_append]; omega)]
  simp only [c3, c2, c1]
  rfl

end MdIt.Inline.C12
