/-
  C05, the remaining clauses — the frame invariant `FI` through the inline tokenizer.
  Part 2: the code-span rule and the newline rule.
-/
import MdIt.Lemmas.C05RestInline

namespace MdIt.C05R
open MdIt.Inline
open MdIt.InlineOps (Srcmap getSourcePosFor getMap byteLen slice)

/-! ## code spans -/

theorem fi_normalise_id {l : List Char} (h : '\n' ∉ l) : CodePair.normalise l = l := by
  induction l with
  | nil => rfl
  | cons c r ih =>
    have hc : c ≠ '\n' := fun e => h (by rw [e]; simp)
    have hr : '\n' ∉ r := fun e => h (by simp [e])
    unfold CodePair.normalise at ih ⊢
    simp only [List.map_cons, hc, if_false, ih hr]

theorem fi_normalise_size {a : Char} (h : (if a = '\n' then ' ' else a) = ' ') : a.utf8Size = 1 := by
  split at h
  · next e => rw [e]; decide
  · rw [h]; decide

/-- the content of the code span is the (normalised) text between the inner offsets -/
theorem fi_mkNode_cut {src : List Char} {sp p ms me n : Nat} {nd : CodePair.Node}
    (h : CodePair.mkNode src sp p ms me n = .ok nd) :
    ∃ w, Cut src nd.innerStart nd.innerEnd w ∧ ('\n' ∉ w → w = nd.content) := by
  have hf : ∀ a b c d e (ct : List Char), CodePair.finishNode a b c d e ct = .ok nd →
      nd.innerStart = d ∧ nd.innerEnd = e ∧ nd.content = ct := by
    intro a b c d e ct hf
    unfold CodePair.finishNode at hf
    split at hf
    · split at hf
      · simp only [Except.ok.injEq] at hf; subst hf; exact ⟨rfl, rfl, rfl⟩
      · simp at hf
    · simp at hf
  unfold CodePair.mkNode at h
  split at h
  · simp at h
  · next raw hraw =>
    have hcut : Cut src p ms raw := (cut_iff_ops _ _ _ _).mp ((codeSlice_eq _ _ _ _).mp hraw)
    simp only at h
    split at h
    · next hpad =>
      obtain ⟨mid, hmid, _⟩ := CodePair.padded_split hpad
      split at h
      · simp at h
      · next inner hinner =>
        rw [hmid, CodePair.slice_inner] at hinner
        simp only [Option.some.injEq] at hinner; subst hinner
        split at h
        · simp at h
        · next hms0 =>
          obtain ⟨e1, e2, e3⟩ := hf _ _ _ _ _ _ h
          rw [e1, e2, e3]
          -- `raw = a :: rmid ++ [z]` with `a`, `z` single bytes
          unfold CodePair.normalise at hmid
          obtain ⟨a, r1, hr1, ha, hr1m⟩ := List.map_eq_cons_iff.mp hmid
          obtain ⟨rmid, rz, hr1', hrmid, hrz⟩ := List.map_eq_append_iff.mp hr1m
          obtain ⟨z, rz', hrz', hz, hrz''⟩ := List.map_eq_cons_iff.mp hrz
          have : rz' = [] := by simpa using hrz''
          subst this
          subst hr1 hr1' hrz'
          have sa := fi_normalise_size ha
          have sz := fi_normalise_size hz
          obtain ⟨P, Q, hsrc, hP, hlen⟩ := hcut
          refine ⟨rmid, ⟨P ++ [a], [z] ++ Q, by rw [hsrc]; simp, ?_, ?_⟩, ?_⟩
          · rw [C05.byteLen_append]; simp only [byteLen, sa]; omega
          · simp only [byteLen, C05.byteLen_append, sa, sz] at hlen; omega
          · intro hn
            rw [← hrmid]
            exact (fi_normalise_id hn).symm
    · obtain ⟨e1, e2, e3⟩ := hf _ _ _ _ _ _ h
      rw [e1, e2, e3]
      exact ⟨raw, hcut, fun hn => (fi_normalise_id hn).symm⟩

theorem fi_scan_node (v : CodePair.Variant) (m : Char) (src : List Char)
    (pos posMax n p : Nat) (silent : Bool) (matchEnd : Nat) (c : CodePair.Cache) (o : CodePair.Outcome)
    (c' : CodePair.Cache) (nd : CodePair.Node)
    (h : CodePair.scan v m src pos posMax n p silent matchEnd c = .ok (some o, c'))
    (hn : o.node = some nd) : ∃ ms me, CodePair.mkNode src pos p ms me n = .ok nd := by
  fun_induction CodePair.scan v m src pos posMax n p silent matchEnd c <;> simp_all
  · obtain ⟨rfl, _⟩ := h; simp at hn
  · next hmk =>
    obtain ⟨rfl, _⟩ := h
    simp only [Option.some.injEq] at hn; subst hn
    exact ⟨_, _, hmk⟩

theorem fi_run_node (v : CodePair.Variant) (m : Char) (src : List Char) (pos posMax : Nat)
    (prev silent : Bool) (c : CodePair.Cache) (o : CodePair.Outcome) (c' : CodePair.Cache)
    (nd : CodePair.Node)
    (h : CodePair.run v m src pos posMax prev silent c = .ok (some o, c')) (hn : o.node = some nd) :
    ∃ p ms me n, CodePair.mkNode src pos p ms me n = .ok nd := by
  unfold CodePair.run at h
  repeat' split at h
  all_goals first
    | (simp at h; done)
    | (obtain ⟨ms, me, hh⟩ := fi_scan_node _ _ _ _ _ _ _ _ _ _ _ _ _ h hn; exact ⟨_, _, _, _, hh⟩)

theorem fi_ruleBackticks {src0 : List Char} {st st' : IState} {o : Option Nat}
    (hctx : Ctx src0 st.src st.srcmap) (hf : FInv src0 st)
    (h : ruleBackticks st false = .ok (o, st')) :
    FI src0 st.src st.srcmap (st'.pos + o.getD 0) st'.children := by
  unfold ruleBackticks at h
  split at h
  · simp at h
  · simp only [Except.ok.injEq, Prod.mk.injEq] at h; obtain ⟨rfl, rfl⟩ := h
    exact fi_none hf
  · next oc c hrun =>
    split at h
    · next hnone =>
      exfalso
      have : ∀ (v : CodePair.Variant) (m : Char) (src : List Char) (pos posMax n p matchEnd : Nat)
          (c : CodePair.Cache) (o : CodePair.Outcome) (c' : CodePair.Cache),
          CodePair.scan v m src pos posMax n p false matchEnd c = .ok (some o, c') → o.node ≠ none := by
        intro v m src pos posMax n p matchEnd c o c' hs
        fun_induction CodePair.scan v m src pos posMax n p false matchEnd c <;> simp_all
        all_goals (try (obtain ⟨rfl, _⟩ := hs; simp))
      have hrn : oc.node ≠ none := by
        unfold CodePair.run at hrun
        repeat' split at hrun
        all_goals first
          | exact this _ _ _ _ _ _ _ _ _ _ _ hrun
          | simp at hrun
      exact hrn hnone
    · next nd hnd =>
      split at h
      · simp at h
      · next r hr =>
        split at h
        · simp at h
        · next ri hri =>
          simp only [Except.ok.injEq, Prod.mk.injEq] at h; obtain ⟨rfl, rfl⟩ := h
          obtain ⟨rx, ry⟩ := r
          obtain ⟨ix, iy⟩ := ri
          obtain ⟨e1, e2, _⟩ := getMap_eq hr
          obtain ⟨f1, f2, _⟩ := getMap_eq hri
          obtain ⟨s1, s2, _, _, _⟩ := run_node_shape _ _ _ _ _ _ _ _ _ _ nd hrun hnd
          rw [s1] at e1
          rw [s2] at e2
          simp only [Option.getD_some]
          have hb : Bdy st.src (st.pos + oc.len) :=
            (codeBoundary_iff _ _).mp
              (CodePair.codepair_progress _ _ backtick_size _ _ _ _ _ _ _ _ hrun).2.2
          obtain ⟨p, ms, me, n, hmk⟩ := fi_run_node _ _ _ _ _ _ _ _ _ _ nd hrun hnd
          obtain ⟨w, hcut, hw⟩ := fi_mkNode_cut hmk
          exact hf.push hb (fi_fthN_oneText (hctx.fth.bdy hf.bpos e1) (hctx.fth.bdy hb e2)
            (by intro t e; cases e) (by intro x y z e; cases e)
            (by intro mk l rem o c e; cases e) (hctx.fth.bdy hcut.bdy_left f1)
            (hctx.fth.bdy hcut.bdy_right f2) (hctx.fth.sel hcut hw f1 f2))
            (fi_not_textLike (by intro t e; cases e) (by intro mk l rem o c e; cases e))

/-! ## the newline rule -/

/-- **`trailing_text_pop` of the blanks before a line feed** moves the frame invariant back to
    `pos - tail`: the popped blanks lie on one line of the table, so the shortened range
    `(xs, xe - tail)` is the translated `(start, pos - tail)` -/
theorem fi_pop {src0 c : List Char} {m : Srcmap} {lo pos : Nat} {cs out : List Node}
    (hctx : Ctx src0 c m) (hr : RI c m lo pos cs) (hf : FI src0 c m pos cs)
    (hpop : trailingTextPop cs (tailSpaces (trailingTextGet cs)) = .ok out)
    (hge : ¬ pos < tailSpaces (trailingTextGet cs)) :
    FI src0 c m (pos - tailSpaces (trailingTextGet cs)) out := by
  have hm := hctx.map
  rcases pop_tail_cases hpop with ⟨h0, rfl⟩ | ⟨init, last, pre, hcs, hlt, htail, hget, hpre, hcase⟩
  · rw [h0]; exact hf
  · rw [hget] at hge ⊢
    obtain ⟨hch, start, xs, xe, hsl, hxs, hxe, hrange⟩ := hr.trail init last hcs hlt
    obtain ⟨_, _, hse⟩ := slice_boundaries hsl
    have hbl : byteLen last.content = byteLen pre + tailSpaces last.content := by
      conv => lhs; rw [hpre]
      rw [C05.byteLen_append, byteLen_replicate_space]
    -- the blanks are `c[pos - tail .. pos]`, on one line
    have hsp : slice c (pos - tailSpaces last.content) pos
        = .ok (List.replicate (tailSpaces last.content) ' ') := by
      obtain ⟨p, q, e, l1, l2⟩ := (C05.slice_ok_iff _ _ _ _).mp hsl
      apply (C05.slice_ok_iff _ _ _ _).mpr
      refine ⟨p ++ pre, q, ?_, ?_, ?_⟩
      · rw [e]; conv => lhs; rw [hpre]
        simp
      · rw [C05.byteLen_append]; omega
      · rw [byteLen_replicate_space]; omega
    obtain ⟨rx, e1⟩ := C05.translate_total m hm.wf (pos - tailSpaces last.content)
    have hline := translate_same_line m hm.wf hm.mono (pos - tailSpaces last.content) pos
      (by omega) (no_key_inside hm.lf hsp (space_not_lf _)) rx xe e1 hxe
    have hstart : start + byteLen pre = pos - tailSpaces last.content := by omega
    -- the kept part
    have hcutpre : Cut c start (pos - tailSpaces last.content) pre := by
      rw [← hstart]
      exact fi_cut_of_slice_prefix (u := pre) (v := List.replicate (tailSpaces last.content) ' ')
        (by rw [← hpre]; exact hsl)
    have htl := fi_textLike_of_isText hlt
    subst hcs
    have hd := (fi_fthL_append _ _ _).mp hf.deep
    have hadj := (fi_adjd_snoc _ _).mp hf.adj
    have hst := (fi_strict_append _ _).mp hf.strict
    rcases hcase with ⟨hpnil, rfl⟩ | ⟨hpne, a', b', hr', hle', rfl⟩ | ⟨_, hr', _⟩
    · -- the whole node goes: `start = pos - tail`
      subst hpnil
      simp only [byteLen, Nat.add_zero] at hstart
      rw [← hstart]
      refine ⟨hcutpre.bdy_left, hd.1, hadj.1, hst.1, ?_⟩
      intro i y hiy hty
      obtain ⟨a1, b1, b2, q1, q2⟩ := hadj.2 y (fi_getLast_snoc hiy) hty htl
      rw [hrange] at q2; simp only [Option.some.injEq, Prod.mk.injEq] at q2
      exact ⟨a1, b1, q1, by rw [← q2.1]; exact hxs⟩
    · -- the node keeps `pre`, its range end moves left by `tail`
      rw [hrange] at hr'; simp only [Option.some.injEq, Prod.mk.injEq] at hr'
      obtain ⟨hr1, hr2⟩ := hr'
      subst hr1 hr2
      have hend : xe - tailSpaces last.content = rx := by omega
      rw [hend]
      have hbp : 0 < byteLen pre := byteLen_pos_of_ne_nil hpne
      have hexp := translate_expand m hm.wf hm.mono start (pos - tailSpaces last.content) (by omega)
        xs rx hxs e1
      have hfn : FthN src0 (Node.mk (.text pre) (some (xs, rx)) last.children) :=
        fi_fthN_text (n := Node.mk (.text pre) (some (xs, rx)) last.children) rfl hch rfl
          (hctx.fth.bdy hcutpre.bdy_left hxs) (hctx.fth.bdy hcutpre.bdy_right e1)
          (hctx.fth.sel hcutpre (fun _ => rfl) hxs e1)
      refine ⟨hcutpre.bdy_right, (fi_fthL_append _ _ _).mpr ⟨hd.1, (fi_fthL_single _ _).mpr hfn⟩,
        ?_, ?_, ?_⟩
      · refine (fi_adjd_snoc _ _).mpr ⟨hadj.1, ?_⟩
        intro y hy hty _
        obtain ⟨a1, b1, b2, q1, q2⟩ := hadj.2 y hy hty htl
        rw [hrange] at q2; simp only [Option.some.injEq, Prod.mk.injEq] at q2
        exact ⟨a1, b1, rx, q1, by rw [← q2.1]⟩
      · exact (fi_strict_append _ _).mpr ⟨hst.1,
          (fi_strict_single _).mpr (fun _ => ⟨xs, rx, rfl, by omega⟩)⟩
      · intro i l hil _
        obtain ⟨_, rfl⟩ := snoc_inj hil
        exact ⟨xs, rx, rfl, e1⟩
    · rw [hrange] at hr'; cases hr'

theorem fi_ruleNewline {src0 : List Char} {lo : Nat} {st st' : IState} {o : Option Nat}
    (hctx : Ctx src0 st.src st.srcmap) (hi : RInv lo st) (hf : FInv src0 st)
    (h : ruleNewline st false = .ok (o, st')) :
    FI src0 st.src st.srcmap (st'.pos + o.getD 0) st'.children := by
  unfold ruleNewline at h
  split at h
  · simp at h
  · simp at h
  · next c rest hw =>
    have hsl := window_eq hw
    split at h
    · simp only [Except.ok.injEq, Prod.mk.injEq] at h; obtain ⟨rfl, rfl⟩ := h; exact fi_none hf
    · next hc =>
      have hc' : c = '\n' := by simpa using hc
      subst hc'
      simp only [Bool.false_eq_true, if_false] at h
      split at h
      · simp at h
      · next cs hpop =>
        split at h
        · simp at h
        · next hge =>
          split at h
          · simp at h
          · next r hr =>
            simp only [Except.ok.injEq, Prod.mk.injEq] at h; obtain ⟨rfl, rfl⟩ := h
            obtain ⟨rx, ry⟩ := r
            obtain ⟨e1, e2, _⟩ := getMap_eq hr
            simp only [Option.getD_some]
            have epos : st.pos + (st.pos + 1 + (List.takeWhile isSpTab rest).length - st.pos)
                = st.pos + 1 + (List.takeWhile isSpTab rest).length := by omega
            rw [epos]
            -- the cursor behind the line feed and the leading blanks of the next line
            have hb : Bdy st.src (st.pos + 1 + (List.takeWhile isSpTab rest).length) := by
              have hsplit : '\n' :: rest
                  = ('\n' :: List.takeWhile isSpTab rest) ++ List.dropWhile isSpTab rest := by
                simp [List.takeWhile_append_dropWhile]
              have := boundary_in_slice (u := '\n' :: List.takeWhile isSpTab rest)
                (v := List.dropWhile isSpTab rest) (by rw [← hsplit]; exact hsl)
              have e0 : ('\n' : Char).utf8Size = 1 := by decide
              simp only [byteLen, e0, byteLen_takeWhile_spTab] at this
              have e3 : st.pos + (1 + (List.takeWhile isSpTab rest).length)
                  = st.pos + 1 + (List.takeWhile isSpTab rest).length := by omega
              rw [e3] at this; exact this
            have hpopd := fi_pop hctx hi hf hpop hge
            exact hpopd.push hb (fi_fthN_plain (hctx.fth.bdy hpopd.bpos e1) (hctx.fth.bdy hb e2)
              (by intro t e; split at e <;> cases e) (by intro x y z e; split at e <;> cases e)
              (by intro mk l rem o c e; split at e <;> cases e) trivial trivial)
              (fi_not_textLike (by intro t e; split at e <;> cases e)
                (by intro mk l rem o c e; split at e <;> cases e))

end MdIt.C05R
