/-
  Attribute boundaries (the lemma `attr_boundaries` named OPEN in `Props/LinksDoc.lean`), on the
  attribute part `pattrsStr a` / `attrsStr a` of a tag piece as the serializer writes it:

    `parseAttrs_pattrsStr`, `parseAttrs_attrsStr`
        the tokenizer of `Lemmas/HrefConverseTok.lean`, reading the attribute part left to right,
        recovers exactly the attribute list (for `attrsStr`: names and values through `escape_html`)
    `attr_boundaries`
        by POSITION: every occurrence of ` name=` (blank, name, equals sign) in the attribute part
        either starts an attribute called `name` of the list — at the boundary between two
        attributes — or lies wholly between the quotes of ONE attribute's value
    `tag_piece_occurrence`
        the same inside a whole tag piece `<tag … >` / `<tag … />`: an occurrence can only lie in
        the attribute part
-/
import MdIt.Lemmas.HrefConverseTok

set_option autoImplicit false

namespace MdIt.HtmlTok
open MdIt.Render (Piece pattrsStr flattenP flatten Escaped escapeHtml escapeChar attrStr attrsStr
  escAttrs Event pattrsStr_escAttrs)

/-! ## 1. `parseAttrs` recovers the list -/

/-- **`parseAttrs_pattrsStr`.**  The attribute part as written (names non-empty and readable, values
    without `"` and U+0000) is read back, attribute by attribute, as exactly the list. -/
theorem parseAttrs_pattrsStr (a : List (List Char × List Char)) (h : ∀ nv ∈ a, AttrTok nv) :
    parseAttrs (pattrsStr a) = some a := by
  obtain ⟨st', hst', e2⟩ := run_attrs a h _ ⟨false, [], [], false⟩ (.inl rfl)
  have e3 := run_close_gt hst'
  have := run_trans e2 e3
  simp only [List.nil_append] at this
  unfold parseAttrs
  rw [this]

theorem escapeChar_ne_nil (c : Char) : escapeChar c ≠ [] := by
  unfold escapeChar
  repeat' split
  all_goals simp

theorem escapeHtml_ne_nil {n : List Char} (h : n ≠ []) : escapeHtml n ≠ [] := by
  cases n with
  | nil => exact absurd rfl h
  | cons c r =>
    simp only [escapeHtml, ne_eq, List.append_eq_nil_iff, not_and]
    intro hc; exact absurd hc (escapeChar_ne_nil c)

theorem escapeChar_nameTok {c : Char} (h : nameChar c = true) : NameTok (escapeChar c) := by
  unfold escapeChar
  split
  · decide
  · split
    · decide
    · split
      · decide
      · split
        · decide
        · intro d hd
          simp only [List.mem_singleton] at hd
          subst hd; exact h

theorem escapeHtml_nameTok {n : List Char} (h : NameTok n) : NameTok (escapeHtml n) := by
  induction n with
  | nil => intro c hc; simp [escapeHtml] at hc
  | cons c r ih =>
    intro d hd
    simp only [escapeHtml, List.mem_append] at hd
    rcases hd with hd | hd
    · exact escapeChar_nameTok (h c (by simp)) d hd
    · exact ih (fun x hx => h x (by simp [hx])) d hd

theorem escapeChar_nul {c : Char} (h : '\x00' ∈ escapeChar c) : c = '\x00' := by
  unfold escapeChar at h
  split at h
  · exact absurd h (by decide)
  · split at h
    · exact absurd h (by decide)
    · split at h
      · exact absurd h (by decide)
      · split at h
        · exact absurd h (by decide)
        · simp only [List.mem_singleton] at h
          exact h.symm

theorem escapeHtml_nul {v : List Char} (h : '\x00' ∉ v) : '\x00' ∉ escapeHtml v := by
  induction v with
  | nil => simp [escapeHtml]
  | cons c r ih =>
    intro hm
    simp only [escapeHtml, List.mem_append] at hm
    rcases hm with hm | hm
    · exact h (by simp [escapeChar_nul hm])
    · exact ih (fun hx => h (by simp [hx])) hm

theorem escapeHtml_valTok {v : List Char} (h : '\x00' ∉ v) : ValTok (escapeHtml v) := by
  intro c hc
  refine ⟨((Render.escapeHtml_escaped v).no_delim c hc).2.2, ?_⟩
  rintro rfl
  exact escapeHtml_nul h hc

/-- **`parseAttrs_attrsStr`.**  What `make_attrs` writes for ANY attribute list whose names are
    non-empty and free of white space, `/`, `>`, `=`, ASCII upper case and U+0000, and whose values
    are free of U+0000 — values are otherwise ARBITRARY: quotes, blanks, `href=`, `>` … — is read
    back by the tokenizer as exactly that list, names and values as `escape_html` wrote them. -/
theorem parseAttrs_attrsStr (attrs : List (List Char × List Char))
    (h : ∀ nv ∈ attrs, nv.1 ≠ [] ∧ NameTok nv.1 ∧ '\x00' ∉ nv.2) :
    parseAttrs (attrsStr attrs) = some (escAttrs attrs) := by
  rw [← pattrsStr_escAttrs]
  apply parseAttrs_pattrsStr
  intro nv hnv
  obtain ⟨nv0, h0, rfl⟩ := List.mem_map.mp hnv
  obtain ⟨h1, h2, h3⟩ := h nv0 h0
  exact ⟨escapeHtml_ne_nil h1, escapeHtml_nameTok h2, escapeHtml_valTok h3⟩

/-- each condition on the names is needed: a blank, an `=`, a `>` or an upper case letter in a NAME
    changes what the browser reads (the shipped names are literals) -/
example : parseAttrs (attrsStr [("x onclick".toList, "y".toList)]) =
    some [("x".toList, []), ("onclick".toList, "y".toList)] := by decide +kernel
example : parseAttrs (attrsStr [("a=b".toList, "y".toList)]) =
    some [("a".toList, "b=\"y\"".toList)] := by decide +kernel
example : parseAttrs (attrsStr [("a>".toList, "y".toList)]) =
    some [("a&gt;".toList, "y".toList)] ∧ escAttrs [("a>".toList, "y".toList)] = [("a&gt;".toList, "y".toList)] := by
  decide +kernel
example : parseAttrs (attrsStr [("Href".toList, "y".toList)]) = some [("href".toList, "y".toList)] := by
  decide +kernel
example : parseAttrs (attrsStr [([], "y".toList)]) = some [("=\"y\"".toList, [])] := by decide +kernel
/-- … and a hostile VALUE changes nothing -/
example : parseAttrs (attrsStr [("title".toList, "x\" href=\"javascript:x\" y=\"".toList)]) =
    some [("title".toList, "x&quot; href=&quot;javascript:x&quot; y=&quot;".toList)] := by decide +kernel

/-! ## 2. occurrences of ` name=` by position -/

/-- where an element of `a ++ b` lies -/
theorem split_mem {α : Type} {a b pre rest : List α} {c : α} (h : a ++ b = pre ++ c :: rest) :
    (∃ a2, a = pre ++ c :: a2 ∧ rest = a2 ++ b) ∨ (∃ b1, pre = a ++ b1 ∧ b = b1 ++ c :: rest) := by
  rcases List.append_eq_append_iff.mp h with ⟨a', h1, h2⟩ | ⟨c', h1, h2⟩
  · exact .inr ⟨a', h1, h2⟩
  · cases c' with
    | nil =>
      refine .inr ⟨[], by simpa using h1.symm, ?_⟩
      simpa using h2.symm
    | cons d c'' =>
      simp only [List.cons_append, List.cons.injEq] at h2
      obtain ⟨rfl, rfl⟩ := h2
      exact .inl ⟨c'', h1, rfl⟩

/-- a word without `q` that starts `a ++ q :: b` is a prefix of `a` -/
theorem prefix_of_not_mem {α : Type} {p post a b : List α} {q : α} (h : p ++ post = a ++ q :: b)
    (hq : q ∉ p) : ∃ a2, a = p ++ a2 ∧ post = a2 ++ q :: b := by
  rcases List.append_eq_append_iff.mp h.symm with ⟨a', h1, h2⟩ | ⟨c', h1, h2⟩
  · cases a' with
    | nil => exact ⟨[], by simpa using h1.symm, by simpa using h2.symm⟩
    | cons d a'' =>
      simp only [List.cons_append, List.cons.injEq] at h2
      exact absurd (by rw [h1, h2.1]; simp) hq
  · exact ⟨c', h1, h2⟩

theorem name_unique {α : Type} {n nm post rest : List α} {x : α} (h : n ++ x :: post = nm ++ x :: rest)
    (h1 : x ∉ n) (h2 : x ∉ nm) : n = nm ∧ post = rest := by
  obtain ⟨a2, e1, e2⟩ := prefix_of_not_mem h h1
  cases a2 with
  | nil => simp at e1 e2; exact ⟨e1.symm, e2⟩
  | cons y a2' =>
    simp only [List.cons_append, List.cons.injEq] at e2
    exact absurd (by rw [e1, ← e2.1]; simp) h2

/-- where a blank of ` name="value"` ++ `B` lies: it is the leading one, it is inside the value, or
    it is in `B` -/
theorem space_in_attr {nm v B pre rest : List Char} (hnm : ' ' ∉ nm)
    (h : (' ' :: (nm ++ ('=' :: '"' :: (v ++ ['"'])))) ++ B = pre ++ ' ' :: rest) :
    (pre = [] ∧ rest = nm ++ ('=' :: '"' :: (v ++ '"' :: B))) ∨
    (∃ v1 v2, v = v1 ++ ' ' :: v2 ∧ pre = ' ' :: (nm ++ ('=' :: '"' :: v1)) ∧ rest = v2 ++ '"' :: B) ∨
    (∃ b1, pre = (' ' :: (nm ++ ('=' :: '"' :: (v ++ ['"'])))) ++ b1 ∧ B = b1 ++ ' ' :: rest) := by
  have h' : [' '] ++ (nm ++ (['=', '"'] ++ (v ++ (['"'] ++ B)))) = pre ++ ' ' :: rest := by
    simpa using h
  rcases split_mem h' with ⟨a2, e1, e2⟩ | ⟨b1, e1, h1⟩
  · cases pre with
    | nil =>
      simp only [List.nil_append, List.cons.injEq, true_and] at e1
      subst e1
      exact .inl ⟨rfl, by simpa using e2⟩
    | cons d pre' => simp at e1
  rcases split_mem h1 with ⟨a2, e2, _⟩ | ⟨b2, e2, h2⟩
  · exact absurd (by rw [e2]; simp) hnm
  rcases split_mem h2 with ⟨a2, e3, _⟩ | ⟨b3, e3, h3⟩
  · exfalso
    rcases b2 with _ | ⟨x, _ | ⟨y, b2⟩⟩ <;> simp at e3
  rcases split_mem h3 with ⟨a2, e4, r4⟩ | ⟨b4, e4, h4⟩
  · refine .inr (.inl ⟨b3, a2, e4, ?_, by simpa using r4⟩)
    rw [e1, e2, e3]; simp
  rcases split_mem h4 with ⟨a2, e5, _⟩ | ⟨b5, e5, h5⟩
  · exfalso
    rcases b4 with _ | ⟨x, b4⟩ <;> simp at e5
  · refine .inr (.inr ⟨b5, ?_, h5⟩)
    rw [e1, e2, e3, e4, e5]; simp

/-- **`attr_boundaries`.**  In the attribute part of a tag piece (names without blank and `=`,
    values without `"` — escaped values have none), EVERY occurrence of the characters ` name=`
    (a blank, then `name` — any word without blank, `=`, `"` — then the equals sign) is of one of two kinds:
    * it starts an attribute of the list whose name is exactly `name`: what precedes it is the
      attribute part of the attributes before, what follows is `"value"` and the attributes after;
    * it lies wholly inside the value of ONE attribute, strictly between its quotes. -/
theorem attr_boundaries (n : List Char) (hn : ' ' ∉ n ∧ '=' ∉ n ∧ '"' ∉ n)
    (a : List (List Char × List Char)) (ha : ∀ nv ∈ a, ' ' ∉ nv.1 ∧ '=' ∉ nv.1 ∧ '"' ∉ nv.2) :
    ∀ (pre post : List Char), pattrsStr a = pre ++ (' ' :: (n ++ ['='])) ++ post →
      (∃ a1 v a2, a = a1 ++ (n, v) :: a2 ∧ pre = pattrsStr a1 ∧
        post = '"' :: (v ++ '"' :: pattrsStr a2)) ∨
      (∃ a1 nm v1 v2 a2, a = a1 ++ (nm, v1 ++ (' ' :: (n ++ ['='])) ++ v2) :: a2 ∧
        pre = pattrsStr a1 ++ (' ' :: (nm ++ ('=' :: '"' :: v1))) ∧
        post = v2 ++ '"' :: pattrsStr a2) := by
  induction a with
  | nil => intro pre post h; simp [pattrsStr] at h
  | cons nv r ih =>
    intro pre post h
    obtain ⟨nm, v⟩ := nv
    have hnv := ha (nm, v) (by simp)
    simp only at hnv
    have ihr := ih (fun x hx => ha x (by simp [hx]))
    have h' : (' ' :: (nm ++ ('=' :: '"' :: (v ++ ['"'])))) ++ pattrsStr r =
        pre ++ ' ' :: (n ++ '=' :: post) := by
      simpa [pattrsStr] using h
    rcases space_in_attr hnv.1 h' with ⟨rfl, e⟩ | ⟨v1, v2, ev, epre, e⟩ | ⟨b1, epre, e⟩
    · -- the leading blank: the names agree
      obtain ⟨rfl, rfl⟩ := name_unique e hn.2.1 hnv.2.1
      exact .inl ⟨[], v, r, rfl, rfl, rfl⟩
    · -- inside the value
      have e' : (n ++ ['=']) ++ post = v2 ++ '"' :: pattrsStr r := by simpa using e
      have hq : '"' ∉ n ++ ['='] := by
        simp only [List.mem_append, List.mem_singleton, not_or]
        exact ⟨hn.2.2, by decide⟩
      obtain ⟨w, ew, epost⟩ := prefix_of_not_mem e' hq
      refine .inr ⟨[], nm, v1, w, r, ?_, by simpa [pattrsStr] using epre, epost⟩
      rw [ev, ew]; simp
    · -- in the rest
      rcases ihr b1 post (by simpa using e) with ⟨a1, v', a2, e1, e2, e3⟩ | ⟨a1, nm', v1, v2, a2, e1, e2, e3⟩
      · refine .inl ⟨(nm, v) :: a1, v', a2, by rw [e1]; rfl, ?_, e3⟩
        rw [epre, e2]; simp [pattrsStr]
      · refine .inr ⟨(nm, v) :: a1, nm', v1, v2, a2, by rw [e1]; rfl, ?_, e3⟩
        rw [epre, e2]; simp [pattrsStr]

/-- **Inside a whole tag piece** `<tag attrs>` / `<tag attrs />` (element name without blank) an
    occurrence of ` name=` can only lie in the attribute part — to which `attr_boundaries` applies. -/
theorem tag_piece_occurrence (n : List Char) (tag : List Char) (htag : ' ' ∉ tag)
    (a : List (List Char × List Char)) (close : List Char)
    (hclose : close = ['>'] ∨ close = [' ', '/', '>']) (pre post : List Char)
    (h : '<' :: (tag ++ (pattrsStr a ++ close)) = pre ++ (' ' :: (n ++ ['='])) ++ post) :
    ∃ pre' post', pre = '<' :: (tag ++ pre') ∧ post = post' ++ close ∧
      pattrsStr a = pre' ++ (' ' :: (n ++ ['='])) ++ post' := by
  have h' : ['<'] ++ (tag ++ (pattrsStr a ++ close)) = pre ++ ' ' :: (n ++ '=' :: post) := by
    simpa using h
  rcases split_mem h' with ⟨a2, e1, _⟩ | ⟨b1, e1, h1⟩
  · exfalso
    rcases pre with _ | ⟨x, pre⟩ <;> simp at e1
  rcases split_mem h1 with ⟨a2, e2, _⟩ | ⟨b2, e2, h2⟩
  · exact absurd (by rw [e2]; simp) htag
  have heq : ∀ c ∈ close, c ≠ '=' := by
    rcases hclose with rfl | rfl <;> decide
  rcases split_mem h2 with ⟨a2, e3, r3⟩ | ⟨b3, e3, h3⟩
  · -- the blank is in the attribute part; so is the `=`
    rcases split_mem r3.symm with ⟨x, e4, r4⟩ | ⟨b4, _, e4⟩
    · refine ⟨b2, x, by rw [e1, e2]; simp, r4, ?_⟩
      rw [e3, e4]; simp
    · exact absurd rfl (heq '=' (by rw [e4]; simp))
  · -- the blank is in ` />`: no `=` follows
    exfalso
    have : '=' ∈ close := by rw [h3]; simp
    exact heq _ this rfl

end MdIt.HtmlTok
