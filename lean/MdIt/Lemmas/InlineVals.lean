/-
  Helper development for `Props/Inline.lean`: a tree invariant of the form "every node value in the
  tree satisfies `P`" is preserved by the whole tokenizer (partial correctness: no fuel bound needed),
  for every `P` that holds of the values the configured rules create (`GoodP`).
  Instances: `P` = "link / image / autolink urls come out of a validation pipeline"
  (`link_url_from_pipeline`), `P` = "not an `EmphMarker`" when no emphasis-like rule is configured.
-/
import MdIt.Lemmas.InlineRules2

namespace MdIt.Inline
open MdIt.InlineOps (Srcmap getSourcePosFor getMap byteLen slice)

mutual
/-- every value in the tree below (and including) the node satisfies `P` -/
def AllVals (P : Val → Prop) : Node → Prop
  | ⟨v, _, cs⟩ => P v ∧ AllValsList P cs
def AllValsList (P : Val → Prop) : List Node → Prop
  | [] => True
  | c :: cs => AllVals P c ∧ AllValsList P cs
end

theorem AllVals_eq (P : Val → Prop) (n : Node) : AllVals P n ↔ P n.val ∧ AllValsList P n.children := by
  cases n; simp [AllVals]

theorem allValsList_iff (P : Val → Prop) (l : List Node) :
    AllValsList P l ↔ ∀ n ∈ l, AllVals P n := by
  induction l with
  | nil => simp [AllValsList]
  | cons c cs ih => simp [AllValsList, ih]

theorem AllValsList.append {P : Val → Prop} {a b : List Node} (ha : AllValsList P a)
    (hb : AllValsList P b) : AllValsList P (a ++ b) := by
  rw [allValsList_iff] at *
  intro n hn
  rcases List.mem_append.mp hn with h | h
  · exact ha n h
  · exact hb n h

theorem AllValsList.left {P : Val → Prop} {a b : List Node} (h : AllValsList P (a ++ b)) :
    AllValsList P a := by
  rw [allValsList_iff] at *
  exact fun n hn => h n (List.mem_append_left _ hn)

theorem AllValsList.right {P : Val → Prop} {a b : List Node} (h : AllValsList P (a ++ b)) :
    AllValsList P b := by
  rw [allValsList_iff] at *
  exact fun n hn => h n (List.mem_append_right _ hn)

theorem AllValsList.single {P : Val → Prop} {n : Node} (h : AllVals P n) : AllValsList P [n] :=
  ⟨h, trivial⟩

theorem AllValsList.take {P : Val → Prop} {l : List Node} (h : AllValsList P l) (k : Nat) :
    AllValsList P (l.take k) := by
  rw [allValsList_iff] at *
  exact fun n hn => h n (List.mem_of_mem_take hn)

theorem AllValsList.drop {P : Val → Prop} {l : List Node} (h : AllValsList P l) (k : Nat) :
    AllValsList P (l.drop k) := by
  rw [allValsList_iff] at *
  exact fun n hn => h n (List.mem_of_mem_drop hn)

theorem AllValsList.set {P : Val → Prop} {l : List Node} (h : AllValsList P l) (k : Nat) {x : Node}
    (hx : AllVals P x) : AllValsList P (l.set k x) := by
  rw [allValsList_iff] at *
  intro n hn
  rcases List.mem_or_eq_of_mem_set hn with h' | h'
  · exact h n h'
  · rw [h']; exact hx

theorem AllValsList.getElem? {P : Val → Prop} {l : List Node} (h : AllValsList P l) {k : Nat} {x : Node}
    (hx : l[k]? = some x) : AllVals P x := by
  rw [allValsList_iff] at h
  exact h x (List.mem_of_getElem? hx)

/-- a node whose value is replaced, its children kept -/
theorem AllVals.withVal {P : Val → Prop} {n : Node} (h : AllVals P n) {v : Val} (hv : P v)
    (r : Option (Nat × Nat)) : AllVals P { n with val := v, range := r } := by
  rw [AllVals_eq] at *; exact ⟨hv, h.2⟩

/-! ## what the rules create -/

/-- where a link / image destination can come from: nothing (`href = None`), the inline
    pipeline (`Link.inlineDest` with `unescape_all` as decoder), or the reference map -/
def HrefOK (cfg : Cfg) (href : Option (List Nat)) : Prop :=
  href = none ∨ (∃ raw, Link.inlineDest (Entity.unescapeAll cfg.entity) raw = href) ∨
  (∃ m k e, cfg.refs = some m ∧ (k, e) ∈ m ∧ href = some e.dest)

/-- `P` holds of every value the configured rules can create -/
structure GoodP (cfg : Cfg) (P : Val → Prop) : Prop where
  text : ∀ c, P (.text c)
  special : ∀ c m i, P (.special c m i)
  soft : P .softbreak
  hard : P .hardbreak
  code : ∀ m n, P (.codeInline m n)
  autolink : ∀ b url u, Link.autolinkDest b url = some u → P (.autolink u)
  link : ∀ href t, HrefOK cfg href → P (.link (href.getD []) t)
  image : ∀ href t, HrefOK cfg href → P (.image (href.getD []) t)
  marker : ∀ mk csw, RuleId.emph mk csw ∈ cfg.chain → ∀ l r o c, P (.emphMarker mk l r o c)
  wrap : ∀ mk csw, RuleId.emph mk csw ∈ cfg.chain → ∀ w, P (.wrap w mk)
  /-- the delimiter matching rewrites `remaining` of markers it finds in the tree -/
  markerRem : ∀ m l r r' o c, P (.emphMarker m l r o c) → P (.emphMarker m l r' o c)

/-- the invariant on a state -/
def ValsOK (P : Val → Prop) (st : IState) : Prop := AllValsList P st.children

/-! ## trailing text -/

theorem trailingTextPush_vals {P : Val → Prop} (hP : ∀ c, P (.text c)) {src : List Char} {m : Srcmap}
    {cs out : List Node} {a b : Nat} (h : trailingTextPush src m cs a b = .ok out)
    (hc : AllValsList P cs) : AllValsList P out := by
  have hnew : ∀ piece r, AllVals P (Node.newText piece r) := by
    intro piece r; rw [AllVals_eq]; exact ⟨hP _, trivial⟩
  have hfresh : ∀ out, (match liftOps (slice src a b) with
      | .error e => (.error e : Except RPanic (List Node))
      | .ok piece =>
        match liftOps (getMap m a b) with
        | .error e => .error e
        | .ok r => .ok (cs ++ [Node.newText piece (some r)])) = .ok out → AllValsList P out := by
    intro out h
    split at h
    · simp at h
    · split at h
      · simp at h
      · simp only [Except.ok.injEq] at h; subst h
        exact hc.append (AllValsList.single (hnew _ _))
  unfold trailingTextPush at h
  simp only at h
  rcases popLast_spec cs with ⟨hp, _⟩ | ⟨init, last, hp, hcs⟩
  · rw [hp] at h; exact hfresh out h
  · rw [hp] at h
    simp only at h
    subst hcs
    have hlast : AllVals P last := by
      have := hc.right; exact this.1
    split at h
    · split at h
      · simp at h
      · split at h
        · simp only [Except.ok.injEq] at h; subst h
          refine hc.left.append (AllValsList.single ?_)
          rw [AllVals_eq] at hlast ⊢; exact ⟨hP _, hlast.2⟩
        · split at h
          · simp at h
          · simp only [Except.ok.injEq] at h; subst h
            refine hc.left.append (AllValsList.single ?_)
            rw [AllVals_eq] at hlast ⊢; exact ⟨hP _, hlast.2⟩
    · exact hfresh out h

theorem pushText_vals {P : Val → Prop} (hP : ∀ c, P (.text c)) {st st' : IState} {a b : Nat}
    (h : st.pushText a b = .ok st') (hc : ValsOK P st) : ValsOK P st' := by
  obtain ⟨cs, hcs, rfl⟩ := pushText_eq h
  exact trailingTextPush_vals hP hcs hc

theorem trailingTextPop_vals {P : Val → Prop} (hP : ∀ c, P (.text c)) {cs out : List Node} {count : Nat}
    (h : trailingTextPop cs count = .ok out) (hc : AllValsList P cs) : AllValsList P out := by
  unfold trailingTextPop at h
  split at h
  · simp only [Except.ok.injEq] at h; subst h; exact hc
  · rcases popLast_spec cs with ⟨hp, _⟩ | ⟨init, last, hp, hcs⟩
    · rw [hp] at h; simp at h
    · rw [hp] at h
      simp only at h
      subst hcs
      have hlast : AllVals P last := hc.right.1
      split at h
      · simp at h
      · split at h
        · simp only [Except.ok.injEq] at h; subst h; exact hc.left
        · split at h
          · simp at h
          · split at h
            · simp at h
            · split at h
              · simp only [Except.ok.injEq] at h; subst h
                refine hc.left.append (AllValsList.single ?_)
                rw [AllVals_eq] at hlast ⊢; exact ⟨hP _, hlast.2⟩
              · split at h
                · simp at h
                · simp only [Except.ok.injEq] at h; subst h
                  refine hc.left.append (AllValsList.single ?_)
                  rw [AllVals_eq] at hlast ⊢; exact ⟨hP _, hlast.2⟩

/-! ## the rules without look-ahead recursion -/

theorem ValsOK.push {P : Val → Prop} {st : IState} (h : ValsOK P st) {n : Node} (hn : AllVals P n) :
    ValsOK P (st.push n) := by
  unfold ValsOK IState.push; exact AllValsList.append h (AllValsList.single hn)

theorem leaf_vals {P : Val → Prop} {v : Val} (hv : P v) (r : Option (Nat × Nat)) :
    AllVals P (Node.leaf v r) := by
  rw [AllVals_eq]; exact ⟨hv, trivial⟩

theorem ruleText_vals {cfg : Cfg} {P : Val → Prop} (g : GoodP cfg P) {st st' : IState} {silent : Bool}
    {o : Option Nat} (h : ruleText st silent = .ok (o, st')) (hc : ValsOK P st) : ValsOK P st' := by
  unfold ruleText at h
  split at h
  · simp at h
  · simp only at h
    split at h
    · simp only [Except.ok.injEq, Prod.mk.injEq] at h; rw [← h.2]; exact hc
    · split at h
      · simp only [Except.ok.injEq, Prod.mk.injEq] at h; rw [← h.2]; exact hc
      · split at h
        · simp at h
        · next st2 hp =>
          simp only [Except.ok.injEq, Prod.mk.injEq] at h; rw [← h.2]
          exact pushText_vals g.text hp hc

theorem ruleNewline_vals {cfg : Cfg} {P : Val → Prop} (g : GoodP cfg P) {st st' : IState}
    {silent : Bool} {o : Option Nat} (h : ruleNewline st silent = .ok (o, st')) (hc : ValsOK P st) :
    ValsOK P st' := by
  unfold ruleNewline at h
  split at h
  · simp at h
  · simp at h
  · split at h
    · simp only [Except.ok.injEq, Prod.mk.injEq] at h; rw [← h.2]; exact hc
    · simp only at h
      split at h
      · simp only [Except.ok.injEq, Prod.mk.injEq] at h; rw [← h.2]; exact hc
      · split at h
        · simp at h
        · next cs hpop =>
          split at h
          · simp at h
          · split at h
            · simp at h
            · simp only [Except.ok.injEq, Prod.mk.injEq] at h; rw [← h.2]
              have := trailingTextPop_vals g.text hpop hc
              unfold ValsOK
              refine this.append (AllValsList.single (leaf_vals ?_ _))
              split
              · exact g.hard
              · exact g.soft

theorem ruleEscape_vals {cfg : Cfg} {P : Val → Prop} (g : GoodP cfg P) {st st' : IState}
    {silent : Bool} {o : Option Nat} (h : ruleEscape st silent = .ok (o, st')) (hc : ValsOK P st) :
    ValsOK P st' := by
  unfold ruleEscape at h
  split at h
  · simp at h
  · split at h
    · simp at h
    · simp only [Except.ok.injEq, Prod.mk.injEq] at h; rw [← h.2]; exact hc
    · split at h
      · simp only [Except.ok.injEq, Prod.mk.injEq] at h; rw [← h.2]; exact hc
      · split at h
        · simp at h
        · simp only [Except.ok.injEq, Prod.mk.injEq] at h; rw [← h.2]
          exact hc.push (leaf_vals g.hard _)
    · simp only at h
      split at h
      · simp only [Except.ok.injEq, Prod.mk.injEq] at h; rw [← h.2]; exact hc
      · split at h
        · simp at h
        · simp only [Except.ok.injEq, Prod.mk.injEq] at h; rw [← h.2]
          exact hc.push (leaf_vals (g.special _ _ _) _)

theorem ruleEntity_vals {cfg : Cfg} {P : Val → Prop} (g : GoodP cfg P) {st st' : IState}
    {silent : Bool} {o : Option Nat} (h : ruleEntity cfg st silent = .ok (o, st')) (hc : ValsOK P st) :
    ValsOK P st' := by
  unfold ruleEntity at h
  split at h
  · simp at h
  · split at h
    · simp at h
    · split at h
      · simp only [Except.ok.injEq, Prod.mk.injEq] at h; rw [← h.2]; exact hc
      · split at h
        · simp at h
        · split at h
          · simp at h
          · simp only [Except.ok.injEq, Prod.mk.injEq] at h; rw [← h.2]; exact hc
          · simp only at h
            split at h
            · simp only [Except.ok.injEq, Prod.mk.injEq] at h; rw [← h.2]; exact hc
            · split at h
              · simp at h
              · simp only [Except.ok.injEq, Prod.mk.injEq] at h; rw [← h.2]
                exact hc.push (leaf_vals (g.special _ _ _) _)

theorem ruleBackticks_vals {cfg : Cfg} {P : Val → Prop} (g : GoodP cfg P) {st st' : IState}
    {silent : Bool} {o : Option Nat} (h : ruleBackticks st silent = .ok (o, st')) (hc : ValsOK P st) :
    ValsOK P st' := by
  unfold ruleBackticks at h
  split at h
  · simp at h
  · simp only [Except.ok.injEq, Prod.mk.injEq] at h; rw [← h.2]; exact hc
  · split at h
    · simp only [Except.ok.injEq, Prod.mk.injEq] at h; rw [← h.2]; exact hc
    · split at h
      · simp at h
      · split at h
        · simp at h
        · simp only [Except.ok.injEq, Prod.mk.injEq] at h; rw [← h.2]
          unfold ValsOK
          refine AllValsList.append hc (AllValsList.single ?_)
          rw [AllVals_eq]
          exact ⟨g.code _ _, AllValsList.single (by rw [AllVals_eq]; exact ⟨g.text _, trivial⟩)⟩

theorem ruleAutolink_vals {cfg : Cfg} {P : Val → Prop} (g : GoodP cfg P) {st st' : IState}
    {silent : Bool} {o : Option Nat} (h : ruleAutolink st silent = .ok (o, st')) (hc : ValsOK P st) :
    ValsOK P st' := by
  unfold ruleAutolink at h
  split at h
  · simp at h
  · simp at h
  · split at h
    · simp only [Except.ok.injEq, Prod.mk.injEq] at h; rw [← h.2]; exact hc
    · split at h
      · simp only [Except.ok.injEq, Prod.mk.injEq] at h; rw [← h.2]; exact hc
      · split at h
        · simp at h
        · simp only at h
          split at h
          · simp only [Except.ok.injEq, Prod.mk.injEq] at h; rw [← h.2]; exact hc
          · split at h
            · simp only [Except.ok.injEq, Prod.mk.injEq] at h; rw [← h.2]; exact hc
            · next full hd =>
              split at h
              · simp only [Except.ok.injEq, Prod.mk.injEq] at h; rw [← h.2]; exact hc
              · split at h
                · simp at h
                · split at h
                  · simp at h
                  · simp only [Except.ok.injEq, Prod.mk.injEq] at h; rw [← h.2]
                    refine hc.push ?_
                    rw [AllVals_eq]
                    exact ⟨g.autolink _ _ _ hd,
                      AllValsList.single (by rw [AllVals_eq]; exact ⟨g.text _, trivial⟩)⟩

/-! ## delimiter matching -/

theorem asMarker_val {n : Node} {m : Marker} (h : n.asMarker = some m) : n.val = m.toVal := by
  unfold Node.asMarker at h
  split at h
  · simp only [Option.some.injEq] at h; subst h; simpa [Marker.toVal]
  · simp at h

/-- the body of the outer loop behind the `inner_depth` update (`ms` = the state with the updated
    `innerDepth`), as a function of its own: lets proofs name that state before unfolding -/
def matchOuterBody (fns : Nat → Option Wrap) (mk : Char) (room minIdx k : Nat) (ms : MatchSt) :
    Except RPanic MatchSt :=
  match ms.children[minIdx + k]? with
  | none => .error .index
  | some tok =>
    match tok.asMarker with
    | none => matchOuter fns mk room minIdx k ms
    | some opener =>
      let go : Except RPanic (Marker × MatchSt) :=
        if opener.open_ && opener.marker == ms.closer.marker && !isOddMatch opener ms.closer then
          matchInner fns mk room (minIdx + k) ms.closer.remaining opener ms
        else .ok (opener, ms)
      match go with
      | .error e => .error e
      | .ok (opener', ms') =>
        if opener'.remaining > 0 then
          match replaceAt ms'.children (minIdx + k) opener' with
          | .error e => .error e
          | .ok cs => matchOuter fns mk room minIdx k { ms' with children := cs }
        else matchOuter fns mk room minIdx k ms'

theorem matchOuter_succ (fns : Nat → Option Wrap) (mk : Char) (room minIdx k : Nat) (ms0 : MatchSt) :
    matchOuter fns mk room minIdx (k + 1) ms0 =
      match ms0.children[minIdx + k + 1]? with
      | none => .error .index
      | some nxt =>
        matchOuterBody fns mk room minIdx k
          { ms0 with innerDepth := max ms0.innerDepth (wrapDepth nxt) } := by
  rw [matchOuter]
  rfl

/-- what the matching loops maintain -/
structure MatchOK (P : Val → Prop) (ms : MatchSt) : Prop where
  children : AllValsList P ms.children
  closer : P ms.closer.toVal

theorem matchInner_vals {cfg : Cfg} {P : Val → Prop} (g : GoodP cfg P) {mk : Char} {csw : Bool}
    (hmem : RuleId.emph mk csw ∈ cfg.chain) (fns : Nat → Option Wrap) (room idx : Nat) :
    ∀ (fuel : Nat) (opener : Marker) (ms : MatchSt) (opener' : Marker) (ms' : MatchSt),
      matchInner fns mk room idx fuel opener ms = .ok (opener', ms') →
      P opener.toVal → MatchOK P ms → P opener'.toVal ∧ MatchOK P ms' := by
  intro fuel
  induction fuel with
  | zero =>
    intro opener ms opener' ms' h ho hm
    simp only [matchInner, Except.ok.injEq, Prod.mk.injEq] at h
    obtain ⟨rfl, rfl⟩ := h; exact ⟨ho, hm⟩
  | succ fuel ih =>
    intro opener ms opener' ms' h ho hm
    unfold matchInner at h
    split at h
    · split at h
      · simp only [Except.ok.injEq, Prod.mk.injEq] at h
        obtain ⟨rfl, rfl⟩ := h; exact ⟨ho, hm⟩
      simp only at h
      split at h
      · simp only [Except.ok.injEq, Prod.mk.injEq] at h
        obtain ⟨rfl, rfl⟩ := h; exact ⟨ho, hm⟩
      · next ml w hpick =>
        split at h
        · simp at h
        · split at h
          · simp at h
          · split at h
            · simp at h
            · next init otok hpop =>
              have hhead : ms.children.take (idx + 1) = init ++ [otok] := by
                rcases popLast_spec (ms.children.take (idx + 1)) with ⟨hp, _⟩ | ⟨i, l, hp, hl⟩
                · rw [hp] at hpop; simp at hpop
                · rw [hp] at hpop; simp only [Option.some.injEq, Prod.mk.injEq] at hpop
                  rw [hl, hpop.1, hpop.2]
              have hheadOK : AllValsList P (init ++ [otok]) := by
                rw [← hhead]; exact hm.children.take _
              split at h
              · simp at h
              · next otok' smp hcut =>
                have hotok' : AllVals P otok' := by
                  have ho := hheadOK.right.1
                  split at hcut
                  · split at hcut
                    · simp at hcut
                    · simp only [Except.ok.injEq, Prod.mk.injEq] at hcut
                      rw [← hcut.1]
                      rw [AllVals_eq] at ho ⊢; exact ho
                  · simp only [Except.ok.injEq, Prod.mk.injEq] at hcut
                    rw [← hcut.1]; exact ho
                have hnew : AllVals P { val := Val.wrap w mk, range := some (smp,
                    (match ms.closerRange with
                      | some (s, e) => (some (s + ml, e), s + ml)
                      | none => (none, 0)).2), children := ms.children.drop (idx + 1) } := by
                  rw [AllVals_eq]; exact ⟨g.wrap mk csw hmem w, hm.children.drop _⟩
                refine ih _ _ _ _ h ?_ ⟨?_, ?_⟩
                · cases opener; exact g.markerRem _ _ _ _ _ _ ho
                · simp only
                  refine AllValsList.append ?_ (AllValsList.single hnew)
                  split
                  · exact hheadOK.left
                  · exact hheadOK.left.append (AllValsList.single hotok')
                · have := hm.closer
                  cases hcl : ms.closer
                  rw [hcl] at this
                  exact g.markerRem _ _ _ _ _ _ this
    · simp only [Except.ok.injEq, Prod.mk.injEq] at h
      obtain ⟨rfl, rfl⟩ := h; exact ⟨ho, hm⟩

theorem matchOuter_vals {cfg : Cfg} {P : Val → Prop} (g : GoodP cfg P) {mk : Char} {csw : Bool}
    (hmem : RuleId.emph mk csw ∈ cfg.chain) (fns : Nat → Option Wrap) (room minIdx : Nat) :
    ∀ (k : Nat) (ms ms' : MatchSt), matchOuter fns mk room minIdx k ms = .ok ms' →
      MatchOK P ms → MatchOK P ms' := by
  intro k
  induction k with
  | zero =>
    intro ms ms' h hm
    simp only [matchOuter, Except.ok.injEq] at h; subst h; exact hm
  | succ k ih =>
    intro ms0 ms' h hm0
    unfold matchOuter at h
    simp only at h
    split at h
    · simp at h
    next nxt hnxt =>
    have hm : MatchOK P { ms0 with innerDepth := max ms0.innerDepth (wrapDepth nxt) } :=
      ⟨hm0.children, hm0.closer⟩
    split at h
    · simp at h
    · next tok htok =>
      have htokOK := hm0.children.getElem? htok
      split at h
      · exact ih _ _ h hm
      · next opener hop =>
        have hval := asMarker_val hop
        have hPo : P opener.toVal := by rw [← hval]; exact ((AllVals_eq P tok).mp htokOK).1
        split at h
        · simp at h
        · next opener' ms1 hgo =>
          have hgo' : P opener'.toVal ∧ MatchOK P ms1 := by
            split at hgo
            · exact matchInner_vals g hmem fns _ _ _ _ _ _ _ hgo hPo hm
            · simp only [Except.ok.injEq, Prod.mk.injEq] at hgo
              obtain ⟨rfl, rfl⟩ := hgo; exact ⟨hPo, hm⟩
          split at h
          · split at h
            · simp at h
            · next cs hrep =>
              refine ih _ _ h ⟨?_, hgo'.2.closer⟩
              unfold replaceAt at hrep
              split at hrep
              · simp at hrep
              · next n hn =>
                simp only [Except.ok.injEq] at hrep; subst hrep
                refine hgo'.2.children.set _ ?_
                have := hgo'.2.children.getElem? hn
                rw [AllVals_eq] at this ⊢; exact ⟨hgo'.1, this.2⟩
          · exact ih _ _ h hgo'.2

theorem scanAndMatch_vals {cfg : Cfg} {P : Val → Prop} (g : GoodP cfg P) {mk : Char} {csw : Bool}
    (hmem : RuleId.emph mk csw ∈ cfg.chain) {fns : Nat → Option Wrap} {room : Nat} {cs out : List Node}
    {b b' : List (Char × List Nat)} (h : scanAndMatch fns mk room cs b = .ok (out, b'))
    (hc : AllValsList P cs) : AllValsList P out := by
  unfold scanAndMatch at h
  split at h
  · simp only [Except.ok.injEq, Prod.mk.injEq] at h; rw [← h.1]; exact hc
  · split at h
    · simp at h
    · next init closerTok hpop =>
      have hcs : cs = init ++ [closerTok] := by
        rcases popLast_spec cs with ⟨hp, _⟩ | ⟨i, l, hp, hl⟩
        · rw [hp] at hpop; simp at hpop
        · rw [hp] at hpop; simp only [Option.some.injEq, Prod.mk.injEq] at hpop
          rw [hl, hpop.1, hpop.2]
      subst hcs
      have hct : AllVals P closerTok := hc.right.1
      split at h
      · simp at h
      · next closer hcl =>
        have hval := asMarker_val hcl
        simp only at h
        split at h
        · simp at h
        · split at h
          · simp at h
          · split at h
            · simp at h
            · next ms hms =>
              have hok := matchOuter_vals g hmem fns _ _ _ _ _ hms
                ⟨hc.left, by rw [← hval]; exact ((AllVals_eq P closerTok).mp hct).1⟩
              split at h
              · simp only [Except.ok.injEq, Prod.mk.injEq] at h; rw [← h.1]
                refine hok.children.append (AllValsList.single ?_)
                rw [AllVals_eq] at hct ⊢; exact ⟨hok.closer, hct.2⟩
              · simp only [Except.ok.injEq, Prod.mk.injEq] at h; rw [← h.1]; exact hok.children

theorem ruleEmph_vals {cfg : Cfg} {P : Val → Prop} (g : GoodP cfg P) {mk : Char} {csw : Bool}
    (hmem : RuleId.emph mk csw ∈ cfg.chain) {st st' : IState} {silent : Bool} {o : Option Nat}
    (h : ruleEmph cfg mk csw st silent = .ok (o, st')) (hc : ValsOK P st) : ValsOK P st' := by
  unfold ruleEmph at h
  split at h
  · simp only [Except.ok.injEq, Prod.mk.injEq] at h; rw [← h.2]; exact hc
  · split at h
    · simp at h
    · simp at h
    · split at h
      · simp only [Except.ok.injEq, Prod.mk.injEq] at h; rw [← h.2]; exact hc
      · split at h
        · simp at h
        · next scanned hsc =>
          split at h
          · simp at h
          · next r hr =>
            have hpush : ValsOK P (st.push (Node.leaf (.emphMarker mk scanned.length scanned.length
                scanned.canOpen scanned.canClose) (some r))) :=
              hc.push (leaf_vals (g.marker mk csw hmem _ _ _ _) _)
            simp only at h
            split at h
            · split at h
              · simp at h
              · next cs b hsm =>
                simp only [Except.ok.injEq, Prod.mk.injEq] at h; rw [← h.2]
                exact scanAndMatch_vals g hmem hsm hpush
            · simp only [Except.ok.injEq, Prod.mk.injEq] at h; rw [← h.2]; exact hpush

end MdIt.Inline
