/-
  No-panic development for the block model: the pure string function behind the reference rule
  (`refParse`, with `labelScan`, `wsScan`, `refTitle`, `refTrail`, `trailGo`; `Model/Block.lean`
  §reference.rs) never panics on a text whose first character is one byte long.

  Panic sites of `refParse`: `Link.slice str a b`, `Link.parseLinkDestination str pos len`,
  `Link.parseLinkTitle str pos len` (`len = Link.byteLen str`), all via `liftK`.  Every position that
  reaches one of them is the byte length of a prefix of `str` (`RWin str p`: `str[p..]` can be taken):

    * `labelScan` / `wsScan` advance by `clen c` of the characters they consume (`labelScan_ext`,
      `wsScan_ext`);
    * the destination / title parsers answer a position of the same kind (`Link.inwin_dest`,
      `Link.inwin_title`).

  The one position that is NOT tracked is the `1` of the final `str[1..label_end]`: the Rust skips the
  first character blindly (`chars.next(); // skip '['`), so a text that starts with a multi-byte
  character panics (`refParse_multibyte_head_panics`) — hence the hypothesis `Link.clen c = 1` of
  `refParse_total`.  The rule only applies `refParse` to `trimStr (get_lines …)`, whose first
  character is the (one byte) first non-blank character of the first line (`trimStr_head`).
-/
import MdIt.Lemmas.BlockTotalCore

namespace MdIt.Block

/-! ## positions from which the rest of the text can be sliced -/

/-- `str[p..]` can be taken: `p` is a character boundary of `str` -/
def RWin (str : List Char) (p : Nat) : Prop := Link.InWin str (Link.byteLen str) p

theorem rwin_of_split {str pre suf : List Char} {p : Nat} (h : str = pre ++ suf)
    (hp : Link.byteLen pre = p) : Link.slice str p (Link.byteLen str) = .ok suf :=
  (Link.slice_ok_iff _ _ _ _).2 ⟨pre, [], by simp [h], hp, by simp [h, Link.byteLen_append, hp]⟩

theorem RWin.of_split {str pre suf : List Char} {p : Nat} (h : str = pre ++ suf)
    (hp : Link.byteLen pre = p) : RWin str p := ⟨suf, rwin_of_split h hp⟩

/-- moving on by a prefix of the window -/
theorem RWin.drop {str pre suf : List Char} {p : Nat}
    (h : Link.slice str p (Link.byteLen str) = .ok (pre ++ suf)) :
    Link.slice str (p + Link.byteLen pre) (Link.byteLen str) = .ok suf :=
  Link.slice_drop str pre suf p _ h

/-! ## the two scanners advance by the bytes they consume -/

/-- `labelScan` stops at a `]`, and its position is the start position plus the bytes consumed -/
theorem labelScan_ext : ∀ (rest : List Char) (esc : Bool) (pos lines le l' : Nat) (rest' : List Char),
    labelScan esc rest pos lines = some (le, l', rest') →
    ∃ u, rest = u ++ ']' :: rest' ∧ le = pos + Link.byteLen u := by
  intro rest
  induction rest with
  | nil => intro esc pos lines le l' rest' h; simp [labelScan] at h
  | cons c r ih =>
    intro esc pos lines le l' rest' h
    have step : ∀ esc' lines', labelScan esc' r (pos + Link.clen c) lines' = some (le, l', rest') →
        ∃ u, c :: r = u ++ ']' :: rest' ∧ le = pos + Link.byteLen u := by
      intro esc' lines' h'
      obtain ⟨u, hu, hle⟩ := ih _ _ _ _ _ _ h'
      exact ⟨c :: u, by simp [hu], by simp [Link.byteLen]; omega⟩
    simp only [labelScan] at h
    split at h
    · exact step _ _ h
    · split at h
      · cases h
      · split at h
        · rename_i hc
          simp at h
          obtain ⟨rfl, rfl, rfl⟩ := h
          subst hc
          exact ⟨[], rfl, by simp [Link.byteLen]⟩
        · split at h
          · rename_i hc
            subst hc
            exact step false (lines + 1) (by simpa [clen_nl'] using h)
          · split at h
            · rename_i hc
              subst hc
              exact step true lines (by simpa [clen_bs'] using h)
            · exact step false lines h

/-- `wsScan` consumes a prefix and advances by its byte length -/
theorem wsScan_ext : ∀ (rest : List Char) (pos lines : Nat),
    ∃ w suf, rest = w ++ suf ∧ (wsScan rest pos lines).1 = pos + Link.byteLen w := by
  intro rest
  induction rest with
  | nil => intro pos lines; exact ⟨[], [], rfl, by simp [wsScan, Link.byteLen]⟩
  | cons c r ih =>
    intro pos lines
    simp only [wsScan]
    split
    · rename_i hc
      have hcl : Link.clen c = 1 := by rcases hc with rfl | rfl <;> decide
      obtain ⟨w, suf, hr, hp⟩ := ih (pos + 1) lines
      exact ⟨c :: w, suf, by simp [hr], by rw [hp]; simp [Link.byteLen, hcl]; omega⟩
    · split
      · rename_i hc
        subst hc
        obtain ⟨w, suf, hr, hp⟩ := ih (pos + 1) (lines + 1)
        exact ⟨'\n' :: w, suf, by simp [hr], by rw [hp]; simp [Link.byteLen, clen_nl']; omega⟩
      · exact ⟨[], c :: r, rfl, by simp [Link.byteLen]⟩

/-- `wsScan` from the start of a window ends at the start of a window -/
theorem wsScan_rwin {str tail : List Char} {pos : Nat} (lines : Nat)
    (h : Link.slice str pos (Link.byteLen str) = .ok tail) : RWin str (wsScan tail pos lines).1 := by
  obtain ⟨w, suf, rfl, hp⟩ := wsScan_ext tail pos lines
  exact ⟨suf, hp ▸ RWin.drop h⟩

/-! ## title and trailer -/

/-- `refTitle` never panics from a window, and the position it answers is the start of a window -/
theorem refTitle_total (cfg : Cfg) (str : List Char) (start pos lines dp dl : Nat)
    (hp : RWin str pos) (hd : RWin str dp) :
    ∃ r, refTitle cfg str (Link.byteLen str) start pos lines dp dl = .ok r ∧ RWin str r.2.1 := by
  unfold refTitle
  split
  · obtain ⟨chars, hs⟩ := hp
    obtain ⟨t, ht⟩ := Link.title_total str chars pos _ hs
    rw [ht]
    cases t with
    | none => exact ⟨_, rfl, hd⟩
    | some res => exact ⟨_, rfl, Link.inwin_title _ _ _ _ ht⟩
  · exact ⟨_, rfl, hp⟩

/-- `refTrail` never panics when both positions are window starts -/
theorem refTrail_total (str : List Char) (title : Option (List Char)) (pos lines dp dl : Nat)
    (hp : RWin str pos) (hd : RWin str dp) :
    ∃ r, refTrail str (Link.byteLen str) title pos lines dp dl = .ok r := by
  obtain ⟨t1, h1⟩ := hp
  obtain ⟨t2, h2⟩ := hd
  unfold refTrail
  rw [h1]
  simp only [liftK, bind, Except.bind]
  split
  · exact ⟨_, rfl⟩
  · split
    · rw [h2]
      simp only
      split <;> exact ⟨_, rfl⟩
    · exact ⟨_, rfl⟩

/-! ## `refParse` -/

/-- **`refParse` never panics on a text whose first character is one byte long** (in the rule: the
    `[`).  Any Unicode behind it, unterminated label, missing destination, … -/
theorem refParse_total (cfg : Cfg) (c : Char) (r : List Char) (hc : Link.clen c = 1) :
    ∃ x, refParse cfg (c :: r) = .ok x := by
  unfold refParse
  simp only [List.tail_cons, hc]
  cases hlab : labelScan false r 1 0 with
  | none => exact ⟨_, rfl⟩
  | some lab =>
    obtain ⟨le, l1, rest⟩ := lab
    obtain ⟨u, hr, hle⟩ := labelScan_ext _ _ _ _ _ _ _ hlab
    simp only
    split
    · rename_i rest2
      -- the text is `c :: u ++ ']' :: ':' :: rest2`
      have hstr : c :: r = (c :: u ++ [']', ':']) ++ rest2 := by simp [hr]
      have hpre : Link.byteLen (c :: u ++ [']', ':']) = le + 2 := by
        simp [Link.byteLen, Link.byteLen_append, hc, clen_rb, clen_colon]; omega
      have hw0 := rwin_of_split hstr hpre
      have hw1 := wsScan_rwin l1 hw0
      generalize hws1 : wsScan rest2 (le + 2) l1 = r1 at hw1
      obtain ⟨p1, l2⟩ := r1
      simp only at hw1 ⊢
      obtain ⟨t1, ht1⟩ := hw1
      obtain ⟨dest, hdest⟩ := Link.dest_total _ _ _ _ ht1
      rw [hdest]
      simp only [liftK, bind, Except.bind]
      cases dest with
      | none => exact ⟨_, rfl⟩
      | some res =>
        simp only
        split
        · exact ⟨_, rfl⟩
        · split
          · exact ⟨_, rfl⟩
          · have hwD : RWin (c :: r) res.pos := Link.inwin_dest _ _ _ _ hdest
            obtain ⟨tail, htail⟩ := hwD
            rw [htail]
            simp only
            have hw2 := wsScan_rwin (l2 + res.lines) htail
            generalize hws2 : wsScan tail res.pos (l2 + res.lines) = r2 at hw2
            obtain ⟨p2, l3⟩ := r2
            simp only at hw2 ⊢
            obtain ⟨rt, hrt, hw3⟩ := refTitle_total cfg (c :: r) res.pos p2 l3 res.pos (l2 + res.lines)
              hw2 ⟨tail, htail⟩
            rw [hrt]
            obtain ⟨title, p3, l4⟩ := rt
            simp only at hw3 ⊢
            obtain ⟨fin, hfin⟩ := refTrail_total (c :: r) title p3 l4 res.pos (l2 + res.lines)
              hw3 ⟨tail, htail⟩
            rw [hfin]
            simp only
            cases fin with
            | none => exact ⟨_, rfl⟩
            | some tl =>
              obtain ⟨title', l5⟩ := tl
              simp only
              have hraw : Link.slice (c :: r) 1 le = .ok u :=
                (Link.slice_ok_iff _ _ _ _).2 ⟨[c], ']' :: ':' :: rest2, by simp [hr], by simp [Link.byteLen, hc],
                  by omega⟩
              rw [hraw]
              exact ⟨_, rfl⟩
    · exact ⟨_, rfl⟩

theorem refParse_nil (cfg : Cfg) : refParse cfg [] = .ok none := by
  simp [refParse, labelScan, pure, Except.pure]

theorem refParse_noPanic (cfg : Cfg) (c : Char) (r : List Char) (hc : Link.clen c = 1) :
    NoPanic (refParse cfg (c :: r)) := .of_total (refParse_total cfg c r hc)

/-! ### the exact panic condition -/

theorem liftK_err {α : Type} {x : Except Link.Panic α} {e : Panic} (h : liftK x = .error e) : e = .slice := by
  cases x with
  | ok a => simp [liftK] at h
  | error e' => cases e'; simp [liftK] at h; exact h.symm

theorem refTitle_err {cfg : Cfg} {str : List Char} {len start pos lines dp dl : Nat} {e : Panic}
    (h : refTitle cfg str len start pos lines dp dl = .error e) : e = .slice := by
  unfold refTitle at h
  crackE h
  exact liftK_err h

theorem refTrail_err {str : List Char} {len : Nat} {title : Option (List Char)} {pos lines dp dl : Nat}
    {e : Panic} (h : refTrail str len title pos lines dp dl = .error e) : e = .slice := by
  unfold refTrail at h
  crackE h
  all_goals exact liftK_err h

theorem refParse_err {cfg : Cfg} {str : List Char} {e : Panic} (h : refParse cfg str = .error e) :
    e = .slice := by
  unfold refParse at h
  crackE h
  all_goals first | exact liftK_err h | exact refTitle_err h | exact refTrail_err h

/-- **exact hypothesis**: the only panic of `refParse` is the slice class, and it needs a text that
    starts with a multi-byte character -/
theorem refParse_error {cfg : Cfg} {str : List Char} {e : Panic} (h : refParse cfg str = .error e) :
    e = .slice ∧ ∃ c r, str = c :: r ∧ Link.clen c ≠ 1 := by
  refine ⟨refParse_err h, ?_⟩
  cases str with
  | nil => rw [refParse_nil] at h; cases h
  | cons c r =>
    refine ⟨c, r, rfl, fun hc => ?_⟩
    exact absurd_err h (refParse_total cfg c r hc)

/-! ## `str::trim` keeps the first non-whitespace character in front -/

theorem dropWhile_all {p : Char → Bool} : ∀ (ws : List Char) (rest : List Char),
    (∀ d ∈ ws, p d = true) → (ws ++ rest).dropWhile p = rest.dropWhile p
  | [], _, _ => rfl
  | d :: ws, rest, h => by
    simp only [List.cons_append, List.dropWhile_cons, h d (by simp), if_true]
    exact dropWhile_all ws rest (fun x hx => h x (List.mem_cons_of_mem _ hx))

theorem dropWhile_snoc {p : Char → Bool} {c : Char} (hc : p c = false) : ∀ (l : List Char),
    (l ++ [c]).dropWhile p = l.dropWhile p ++ [c]
  | [] => by simp [hc]
  | a :: t => by
    simp only [List.cons_append, List.dropWhile_cons]
    split
    · exact dropWhile_snoc hc t
    · rfl

/-- the first non-whitespace character of a text is the first character of its `trim` -/
theorem trimStr_head (ws : List Char) (c : Char) (r : List Char) (hws : ∀ d ∈ ws, isWsChar d = true)
    (hc : isWsChar c = false) : ∃ r', trimStr (ws ++ c :: r) = c :: r' := by
  unfold trimStr
  rw [dropWhile_all ws (c :: r) hws, List.dropWhile_cons, hc]
  simp only [Bool.false_eq_true, if_false, List.reverse_cons]
  rw [dropWhile_snoc hc, List.reverse_append]
  exact ⟨_, rfl⟩

/-- a text is whitespace only (`trim` is empty) or `whitespace ++ c :: r` with `c` not whitespace -/
theorem ws_split : ∀ (x : List Char), (∀ d ∈ x, isWsChar d = true) ∨
    ∃ ws c r, x = ws ++ c :: r ∧ (∀ d ∈ ws, isWsChar d = true) ∧ isWsChar c = false
  | [] => .inl (by simp)
  | a :: t => by
    cases ha : isWsChar a with
    | false => exact .inr ⟨[], a, t, rfl, by simp, ha⟩
    | true =>
      rcases ws_split t with h | ⟨ws, c, r, rfl, h1, h2⟩
      · exact .inl (by simpa [ha] using h)
      · exact .inr ⟨a :: ws, c, r, rfl, by simpa [ha] using h1, h2⟩

theorem trimStr_all_ws (x : List Char) (h : ∀ d ∈ x, isWsChar d = true) : trimStr x = [] := by
  unfold trimStr
  have := dropWhile_all (p := isWsChar) x [] h
  simp only [List.append_nil] at this
  rw [this]; rfl

/-- **`refParse` after `trim`, as the rule calls it**: no panic when the first non-whitespace
    character of the text (if any) is one byte long. -/
theorem refParse_trim_total (cfg : Cfg) (x : List Char)
    (h : ∀ ws c r, x = ws ++ c :: r → (∀ d ∈ ws, isWsChar d = true) → isWsChar c = false →
      Link.clen c = 1) : ∃ y, refParse cfg (trimStr x) = .ok y := by
  rcases ws_split x with hall | ⟨ws, c, r, rfl, h1, h2⟩
  · rw [trimStr_all_ws x hall]; exact ⟨_, refParse_nil cfg⟩
  · obtain ⟨r', hr'⟩ := trimStr_head ws c r h1 h2
    rw [hr']
    exact refParse_total cfg c r' (h ws c r rfl h1 h2)

/-- `Link`'s own `len_utf8` is `Char.utf8Size` (what `WsAscii` of `BInv` speaks about) -/
theorem linkClen_eq (c : Char) : Link.clen c = c.utf8Size := by
  unfold Link.clen Char.utf8Size
  simp only [UInt32.le_iff_toNat_le, UInt32.toNat_ofNatLT, Char.toNat]
  repeat' split
  all_goals omega

/-- in `a ++ b :: t` with `a` and `b` one byte wide and `b` not whitespace, the first
    non-whitespace character is one byte wide -/
theorem first_nonws_ascii : ∀ (a : List Char) (b : Char) (t : List Char),
    (∀ d ∈ a, d.utf8Size = 1) → b.utf8Size = 1 → isWsChar b = false →
    ∀ ws c r, a ++ b :: t = ws ++ c :: r → (∀ d ∈ ws, isWsChar d = true) → isWsChar c = false →
      Link.clen c = 1
  | [], b, t, _, hb, hbw, ws, c, r, h, hws, _ => by
    cases ws with
    | nil => simp at h; rw [← h.1, linkClen_eq]; exact hb
    | cons d ws' =>
      simp at h
      have := hws d (by simp)
      rw [← h.1, hbw] at this; cases this
  | a0 :: a', b, t, ha, hb, hbw, ws, c, r, h, hws, hc => by
    cases ws with
    | nil => simp at h; rw [← h.1, linkClen_eq]; exact ha a0 (by simp)
    | cons d ws' =>
      simp at h
      exact first_nonws_ascii a' b t (fun x hx => ha x (List.mem_cons_of_mem _ hx)) hb hbw ws' c r h.2
        (fun x hx => hws x (List.mem_cons_of_mem _ hx)) hc

/-- **the shape the reference rule produces**: `get_lines` answers one-byte characters (kept
    indentation) in front of the `[` of the first line; `refParse ∘ trim` does not panic on it,
    whatever follows. -/
theorem refParse_trim_ascii (cfg : Cfg) (a : List Char) (b : Char) (t : List Char)
    (ha : ∀ d ∈ a, d.utf8Size = 1) (hb : b.utf8Size = 1) (hbw : isWsChar b = false) :
    ∃ y, refParse cfg (trimStr (a ++ b :: t)) = .ok y :=
  refParse_trim_total cfg _ (first_nonws_ascii a b t ha hb hbw)

theorem isWsChar_lbrack : isWsChar '[' = false := by decide

/-! ## the hypothesis is necessary -/

/-- which panic, if any -/
def panicOf {α : Type} : Except Panic α → Option Panic
  | .ok _ => none
  | .error e => some e

/-- FINDING (model = Rust `reference.rs`: `chars.next(); // skip '['` … `&str[1..label_end]`): a text
    whose first character is two bytes long and that is otherwise a complete definition panics at
    the final label slice. `"é]: x"` -/
example : panicOf (refParse exCfg ['é', ']', ':', ' ', 'x']) = some .slice := by decide +kernel
/-- with a one-byte first character (whatever it is) the same text is a definition -/
example : (refParse exCfg ['e', ']', ':', ' ', 'x']).toOption = some (some ([], [120], none, 0)) := by
  decide +kernel
/-- multi-byte characters anywhere behind the first are fine: `"[é]: é 'é'"` -/
example : panicOf (refParse exCfg ['[', 'é', ']', ':', ' ', 'é', ' ', '\'', 'é', '\'']) = none := by
  decide +kernel
/-- the multi-byte head does not panic when the parse gives up before the final slice: `"é]: "` -/
example : panicOf (refParse exCfg ['é', ']', ':', ' ']) = none := by decide +kernel

end MdIt.Block
