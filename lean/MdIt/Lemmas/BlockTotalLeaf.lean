/-
  No-panic lemmas of the rules that do not nest: hr, heading, code, fence, and (given a total
  look-ahead) paragraph and lheading, with the shared `lazyScan`.
-/
import MdIt.Lemmas.BlockTotalCore

namespace MdIt.Block
open MdIt.Lines (LineOffset)

theorem hr_np {s : BState} {silent : Bool} (hI : BInv s) (hl : s.line < s.lineMax) :
    NoPanic (hrRule s silent) := by
  have hlen := hI.lineMax
  intro e h
  unfold hrRule at h
  crackE h
  · exact absurd_err h (lineIndent_total (by omega))
  · exact absurd_err h (getLine_total hI.table (by omega))
  · exact absurd_err h (getMap_total (Nat.le_refl _) (by omega))

/-! ### heading -/

theorem byteLen_hashes : ∀ (hs : List Char), (∀ c ∈ hs, c = '#') → Lines.byteLen hs = hs.length
  | [], _ => rfl
  | c :: r, h => by
    have hc := h c (by simp)
    subst hc
    have := byteLen_hashes r (fun x hx => h x (List.mem_cons_of_mem _ hx))
    simp [this, show '#'.utf8Size = 1 by decide]; omega

theorem atxOpen_shape : ∀ (l : List Char) (lvl level textPos : Nat) (rest : List Char),
    atxOpen l lvl = some (level, textPos, rest) →
    ∃ hs : List Char, (∀ c ∈ hs, c = '#') ∧ textPos = lvl + hs.length ∧
      ((l = hs ∧ rest = []) ∨ ∃ b, (b = ' ' ∨ b = '\t') ∧ l = hs ++ b :: rest)
  | [], lvl, level, textPos, rest, h => by
    simp [atxOpen] at h
    exact ⟨[], by simp, by simp [h.2.1.symm], .inl ⟨rfl, h.2.2⟩⟩
  | c :: r, lvl, level, textPos, rest, h => by
    simp only [atxOpen] at h
    split at h
    · split at h
      · cases h
      · obtain ⟨hs, h1, h2, h3⟩ := atxOpen_shape r (lvl + 1) level textPos rest h
        rename_i hc _
        subst hc
        refine ⟨'#' :: hs, ?_, by simp; omega, ?_⟩
        · intro x hx; simp at hx; rcases hx with rfl | hx; rfl; exact h1 x hx
        · rcases h3 with ⟨rfl, rfl⟩ | ⟨b, hb, rfl⟩
          · exact .inl ⟨rfl, rfl⟩
          · exact .inr ⟨b, hb, rfl⟩
    · split at h
      · rename_i hb
        simp at h
        obtain ⟨_, rfl, rfl⟩ := h
        exact ⟨[], by simp, by simp, .inr ⟨c, hb, rfl⟩⟩
      · cases h

theorem heading_slice_total {line rest : List Char} {level textPos : Nat}
    (h : atxOpen line 0 = some (level, textPos, rest)) :
    ∃ r, Lines.slice line textPos (atxTextMax line rest textPos) = .ok r := by
  obtain ⟨hs, hhs, htp, hcase⟩ := atxOpen_shape _ _ _ _ _ h
  have hbl := byteLen_hashes hs hhs
  have htp' : textPos = Lines.byteLen hs := by omega
  unfold atxTextMax
  split
  · -- nothing behind the closing sequence
    rcases hcase with ⟨rfl, rfl⟩ | ⟨b, hb, rfl⟩
    · exact ⟨[], by rw [htp']; exact Lines.slice_eq_ok_iff.mpr ⟨line, [], by simp, rfl, by simp⟩⟩
    · exact ⟨[], by rw [htp']; exact Lines.slice_eq_ok_iff.mpr ⟨hs, b :: rest, by simp, rfl, by simp⟩⟩
  · rename_i c r' hR
    split
    · rename_i hc
      rcases hcase with ⟨rfl, rfl⟩ | ⟨b, hb, rfl⟩
      · simp at hR
      · have hsuf : (c :: r') <:+ rest.reverse := by
          rw [← hR]
          exact (List.dropWhile_suffix _).trans (List.dropWhile_suffix _)
        obtain ⟨X, hX⟩ := hsuf
        have hrest : rest = r'.reverse ++ [c] ++ X.reverse := by
          have := congrArg List.reverse hX
          simp at this
          rw [← this]; simp
        have hc1 : c.utf8Size = 1 := by
          simp [isBlank] at hc; rcases hc with rfl | rfl <;> decide
        have hb1 : b.utf8Size = 1 := by rcases hb with rfl | rfl <;> decide
        refine ⟨[b] ++ r'.reverse ++ [c], ?_⟩
        rw [htp']
        refine Lines.slice_eq_ok_iff.mpr ⟨hs, X.reverse, by rw [hrest]; simp, rfl, ?_⟩
        simp [hc1, hb1]; omega
    · refine ⟨line.drop hs.length, ?_⟩
      rw [htp']
      refine Lines.slice_eq_ok_iff.mpr ⟨hs, [], ?_, rfl, ?_⟩
      · rcases hcase with ⟨rfl, rfl⟩ | ⟨b, hb, rfl⟩ <;> simp
      · rcases hcase with ⟨rfl, rfl⟩ | ⟨b, hb, rfl⟩ <;> simp

theorem heading_np {s : BState} {silent : Bool} (hI : BInv s) (hl : s.line < s.lineMax) :
    NoPanic (headingRule s silent) := by
  have hlen := hI.lineMax
  intro e h
  unfold headingRule at h
  crackE h
  · exact absurd_err h (lineIndent_total (by omega))
  · exact absurd_err h (getLine_total hI.table (by omega))
  · exact absurd_err h (liftL_total (heading_slice_total ‹atxOpen _ 0 = _›))
  · exact absurd_err h (off_total (by omega))
  · exact absurd_err h (getMap_total (Nat.le_refl _) (by omega))

/-! ### code -/

theorem codeScan_total (s : BState) (n last : Nat) (hlen : s.lineMax ≤ s.offs.length) :
    ∃ r, codeScan s n last = .ok r := by
  fun_induction codeScan s n last with
  | case1 n last h1 h2 ih => exact ih
  | case2 n last h1 h2 e he =>
    exact absurd_err he (lineIndent_total (by omega))
  | case3 n last h1 h2 ind hind h3 ih => exact ih
  | case4 n last h1 h2 ind hind h3 => exact ⟨_, rfl⟩
  | case5 n last h1 => exact ⟨_, rfl⟩

/-- `get_lines` only appends to the mapping it was given -/
theorem getLinesGo_mapping_prefix (src : List Char) (offs : List LineOffset) (e indent : Nat) (keep : Bool)
    (line : Nat) (result : List Char) (mapping : List (Nat × Nat)) (c : List Char) (m : List (Nat × Nat))
    (h : Lines.getLinesGo src offs e indent keep line result mapping = .ok (c, m)) :
    ∃ rest, m = mapping ++ rest := by
  fun_induction Lines.getLinesGo src offs e indent keep line result mapping with
  | case4 line result mapping hlt o ho addLastLf ws hws numSpaces first hcalc mapping1 result1 mapping2 t ht
      result2 result3 ih =>
    obtain ⟨rest, hrest⟩ := ih h
    subst hrest
    by_cases hn : numSpaces > 0
    · exact ⟨[(Lines.byteLen result, o.lineStart + first)] ++
        [(Lines.byteLen result1, o.lineStart + first)] ++ rest, by simp [mapping2, mapping1, hn]⟩
    · exact ⟨[(Lines.byteLen result, o.lineStart + first)] ++ rest, by simp [mapping2, mapping1, hn]⟩
  | case5 line result mapping hlt =>
    simp at h; exact ⟨[], by simp [h.2]⟩
  | _ => simp_all

/-- the first entry of the mapping of `get_lines` points into the leading blanks of the first line -/
theorem getLines_first_map {s : BState} {b e indent : Nat} {keep : Bool} {c : List Char}
    {m : List (Nat × Nat)} (h : s.getLines b e indent keep = .ok (c, m)) (hbe : b < e)
    {o : LineOffset} (ho : s.offs[b]? = some o) (hl : LineOk s.src o) :
    ∃ m0 rest, m = m0 :: rest ∧ m0.2 ≤ o.firstNonspace := by
  have h := liftL_eq_ok h
  obtain ⟨a, b', _, _, h3, h4, _⟩ := hl.slices
  unfold Lines.getLines at h
  rw [if_neg (by omega), Lines.getLinesGo] at h
  simp only [hbe, if_true, ho, h3] at h
  have hle := Lines.calc_right_le a (o.indentNonspace - Lines.usizeAsI32 indent)
  generalize Lines.calcRightWs a (o.indentNonspace - Lines.usizeAsI32 indent) = r at h hle
  obtain ⟨n, first⟩ := r
  simp only at h hle
  split at h
  · cases h
  · obtain ⟨rest, hrest⟩ := getLinesGo_mapping_prefix _ _ _ _ _ _ _ _ _ _ h
    subst hrest
    split
    · exact ⟨(0, o.lineStart + first), _, by simp; rfl, by simp only; omega⟩
    · exact ⟨(0, o.lineStart + first), rest, by simp, by simp only; omega⟩

theorem code_np {s : BState} {silent : Bool} (hI : BInv s) (hl : s.line < s.lineMax) :
    NoPanic (codeRule s silent) := by
  have hlen := hI.lineMax
  intro e h
  unfold codeRule at h
  crackE h
  · exact absurd_err h (lineIndent_total (by omega))
  · exact absurd_err h (codeScan_total _ _ _ hlen)
  · have := codeScan_spec _ _ _ _ ‹codeScan _ _ _ = _› (Nat.le_refl _)
    exact absurd_err h (getLines_total (s := { s with line := _ }) hI.table (by omega) (by show _ ≤ s.offs.length; omega))
  all_goals (
    have hscan := codeScan_spec _ _ _ _ ‹codeScan _ _ _ = _› (Nat.le_refl _)
    have hgl := ‹BState.getLines _ _ _ _ _ = _›
    have hs : s.line < s.offs.length := by omega
    obtain ⟨m0, rest, hm, hm0⟩ := getLines_first_map (s := { s with line := _ }) hgl (by omega)
      (List.getElem?_eq_getElem hs) (hI.table _ _ (List.getElem?_eq_getElem hs)))
  · simp_all
  · exact absurd_err h (psub_total (by show 1 ≤ _; omega))
  · obtain ⟨_, rfl⟩ := psub_ok ‹psub _ 1 = _›
    exact absurd_err h (off_total (by show _ < s.offs.length; omega))
  · -- `debug_assert!(start_pos <= end_pos)` of `get_map_from_offsets`
    exfalso
    obtain ⟨_, rfl⟩ := psub_ok ‹psub _ 1 = _›
    have ho := off_ok ‹BState.off _ _ = _›
    simp only at ho
    have h1 := hI.mono _ _ _ _ (by omega) (List.getElem?_eq_getElem hs) ho
    have h2 := (hI.table _ _ (List.getElem?_eq_getElem hs)).order
    simp_all
    omega

/-! ### fence -/

theorem countRun_split (m : Char) : ∀ (l : List Char),
    l = List.replicate (countRun m l) m ++ l.drop (countRun m l)
  | [] => by simp [countRun]
  | c :: r => by
    simp only [countRun]
    split
    · rename_i hc
      subst hc
      have := countRun_split c r
      rw [Nat.add_comm, List.replicate_succ]
      simp only [List.cons_append, List.drop_succ_cons]
      rw [← this]
    · simp

theorem byteLen_replicate (m : Char) (hm : m.utf8Size = 1) (k : Nat) :
    Lines.byteLen (List.replicate k m) = k := by
  induction k with
  | zero => rfl
  | succ k ih => simp [List.replicate_succ, ih, hm]; omega

theorem fence_params_total {marker : Char} {rest : List Char} (hm : marker.utf8Size = 1) :
    ∃ r, Lines.slice (marker :: rest) (1 + countRun marker rest) (Lines.byteLen (marker :: rest)) = .ok r := by
  have hsplit := countRun_split marker rest
  refine ⟨rest.drop (countRun marker rest), ?_⟩
  refine Lines.slice_eq_ok_iff.mpr ⟨marker :: List.replicate (countRun marker rest) marker, [], ?_, ?_, ?_⟩
  · simp; exact hsplit
  · simp [byteLen_replicate marker hm, hm]
  · conv => rhs; rw [hsplit]
    simp [byteLen_replicate marker hm, hm]
    omega

theorem fenceScan_total (s : BState) (marker : Char) (len n : Nat) (hI : BInv s) :
    ∃ r, fenceScan s marker len n = .ok r := by
  have hlen := hI.lineMax
  fun_induction fenceScan s marker len n with
  | case1 n h => exact ⟨_, rfl⟩
  | case2 n e h he => exact absurd_err he (getLine_total hI.table (by omega))
  | case3 n e h he _ => exact absurd_err he (lineIndent_total (by omega))
  | _ => first | assumption | exact ⟨_, rfl⟩

theorem fence_np {s : BState} {silent : Bool} (hI : BInv s) (hl : s.line < s.lineMax) :
    NoPanic (fenceRule s silent) := by
  have hlen := hI.lineMax
  intro e h
  unfold fenceRule at h
  crackE h
  · exact absurd_err h (lineIndent_total (by omega))
  · exact absurd_err h (getLine_total hI.table (by omega))
  · have hm : ¬¬(_ ∨ _) := ‹_›
    refine absurd_err h (liftL_total (fence_params_total ?_))
    rcases Classical.not_not.mp hm with rfl | rfl <;> decide
  · exact absurd_err h (fenceScan_total _ _ _ _ hI)
  · exact absurd_err h (off_total (by omega))
  all_goals (
    have hscan := ‹fenceScan _ _ _ _ = _›
    obtain ⟨h1, h2, h3⟩ := fenceScan_spec _ _ _ _ _ _ hscan hl)
  all_goals (try (exact absurd_err h (getLines_total hI.table (by omega) (by omega))))
  all_goals (try (exact absurd_err h (psub_total (by omega))))
  all_goals (
    obtain ⟨hle, rfl⟩ := psub_ok ‹psub _ _ = _›
    refine absurd_err h (getMap_total ?_ ?_)
    · split <;> omega
    · split
      · have := h3 ‹_›; omega
      · omega)

/-! ### paragraph, lheading: the shared scan -/

theorem BInv.line {s : BState} (h : BInv s) (n : Nat) : BInv { s with line := n } :=
  h.congr rfl rfl h.lineMax

theorem lazyScan_np {test : Test} (ht : TestPure test) (hto : TestOK test) (setext : Bool) :
    ∀ (fuel : Nat) (s : BState) (n : Nat), BInv s → NoPanic (lazyScan test setext fuel s n) := by
  intro fuel
  induction fuel with
  | zero => intro s n _ e h; simp [lazyScan] at h; exact h.symm
  | succ f ih =>
    intro s n hI e h
    have hlen := hI.lineMax
    simp only [lazyScan] at h
    crackE h
    all_goals (have hc : ¬(_ ∨ _) := ‹_›; simp only [not_or, Nat.not_le] at hc)
    · exact absurd_err h (lineIndent_total (by omega))
    · exact ih _ _ hI e h
    · unfold setextCheck at h
      crackE h
      exact absurd_err h (getLine_total hI.table (by omega))
    · exact absurd_err h (off_total (by omega))
    · exact ih _ _ hI e h
    · exact hto _ (hI.line _) (by simp only; omega) e h
    · have e' := ht _ _ ‹test _ = _›
      simp only [e'] at h
      exact ih _ _ ((hI.line _).line _) e h

theorem paragraph_np {test : Test} (ht : TestPure test) (hto : TestOK test) {fuel : Nat} {s : BState}
    {silent : Bool} (hI : BInv s) (hl : s.line < s.lineMax) :
    NoPanic (paragraphRule test fuel s silent) := by
  have hlen := hI.lineMax
  intro e h
  unfold paragraphRule at h
  crackE h
  · exact lazyScan_np ht hto _ _ _ _ hI e h
  all_goals (
    obtain ⟨h1, h2, h3, _⟩ := lazyScan_spec ht false _ _ _ _ ‹lazyScan _ _ _ _ _ = _›
    have h3 := h3 hl
    try simp only [h1] at h)
  · exact absurd_err h (getLines_total hI.table (by omega) (by omega))
  · exact absurd_err h (psub_total (by omega))
  · obtain ⟨_, rfl⟩ := psub_ok ‹psub _ 1 = _›
    refine absurd_err h (getMap_total ?_ ?_)
    · omega
    · show _ - 1 < s.offs.length; omega

theorem lheading_np {test : Test} (ht : TestPure test) (hto : TestOK test) {fuel : Nat} {s : BState}
    {silent : Bool} (hI : BInv s) (hl : s.line < s.lineMax) :
    NoPanic (lheadingRule test fuel s silent) := by
  have hlen := hI.lineMax
  intro e h
  unfold lheadingRule at h
  crackE h
  · exact absurd_err h (lineIndent_total (by omega))
  · exact lazyScan_np ht hto _ _ _ _ hI e h
  all_goals (
    obtain ⟨h1, h2, h3, h4⟩ := lazyScan_spec ht true _ _ _ _ ‹lazyScan _ _ _ _ _ = _›
    have h3 := h3 hl
    have h4 := h4 ‹_›
    try simp only [h1] at h)
  · exact absurd_err h (getLines_total hI.table (by omega) (by omega))
  all_goals (try (exact absurd_err h (psub_total (by omega))))
  · obtain ⟨_, rfl⟩ := psub_ok ‹psub _ 1 = _›
    refine absurd_err h (getMap_total ?_ ?_)
    · omega
    · show _ + 1 - 1 < s.offs.length; omega

end MdIt.Block
