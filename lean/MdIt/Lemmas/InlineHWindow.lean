/-
  Window independence of the raw-HTML tag matcher (`Html.tagRest` / `Html.tagMatch`, i.e. `HTML_TAG_RE`):
  what `FlatL2` of the memo-safety development (`Lemmas/MemoSafeLamNF.lean`) needs of the html rule.

  Windows are compared as lists: the SMALLER window is `w` (text up to `pos_max'`), the LARGER one is
  `w ++ x` (text up to `pos_max ≥ pos_max'`).  For a matcher `f : List Char → Option (List Char)` (result =
  what is left behind the match):

      Ext f  :=  f w = some r  →  f (w ++ x) = some (r ++ x)
                 a match under the smaller window IS the match under every larger window (same extent)
      Shr f  :=  f (w ++ x) = some r0 → |x| ≤ |r0|  →  ∃ r, r0 = r ++ x ∧ f w = some r
                 a match under the larger window that ends inside the smaller one IS the match under the
                 smaller window

  See the end of the file for what is proved (every alternative of `HTML_TAG_RE` except the open tag, and
  the whole matcher on windows that do not start an open tag) and what is open (the open tag: attribute
  backtracking; no counterexample in an exhaustive search).
-/
import MdIt.Props.Html

namespace MdIt.InlineH.Window
open MdIt.Html
open MdIt.InlineOps (byteLen)

def Ext (f : List Char → Option (List Char)) : Prop :=
  ∀ w x r, f w = some r → f (w ++ x) = some (r ++ x)

def Shr (f : List Char → Option (List Char)) : Prop :=
  ∀ w x r0, f (w ++ x) = some r0 → x.length ≤ r0.length → ∃ r, r0 = r ++ x ∧ f w = some r

/-! ## greedy runs -/

theorem dropWhile_append_of_ne {p : Char → Bool} : ∀ {w x : List Char}, w.dropWhile p ≠ [] →
    (w ++ x).dropWhile p = w.dropWhile p ++ x
  | [], _, h => absurd rfl h
  | c :: t, x, h => by
    simp only [List.cons_append, List.dropWhile_cons] at h ⊢
    split
    · next hc => rw [if_pos hc] at h; exact dropWhile_append_of_ne h
    · rfl

theorem dropWhile_append_of_nil {p : Char → Bool} : ∀ {w x : List Char}, w.dropWhile p = [] →
    (w ++ x).dropWhile p = x.dropWhile p
  | [], _, _ => rfl
  | c :: t, x, h => by
    simp only [List.cons_append, List.dropWhile_cons] at h ⊢
    split
    · next hc => rw [if_pos hc] at h; exact dropWhile_append_of_nil h
    · next hc => rw [if_neg hc] at h; cases h

theorem dropWhile_append_cons {p : Char → Bool} {w x : List Char} {c : Char} {r : List Char}
    (h : w.dropWhile p = c :: r) : (w ++ x).dropWhile p = c :: (r ++ x) := by
  rw [dropWhile_append_of_ne (by rw [h]; simp), h]; rfl

/-- the run of the larger window, seen from the smaller one: it stopped inside the smaller window, or it
    ran through its end (then what is left is a suffix of `x`) -/
theorem dropWhile_append_cases (p : Char → Bool) (w x : List Char) :
    (∃ c r, w.dropWhile p = c :: r ∧ (w ++ x).dropWhile p = c :: (r ++ x)) ∨
    (w.dropWhile p = [] ∧ (w ++ x).dropWhile p = x.dropWhile p) := by
  cases h : w.dropWhile p with
  | nil => exact .inr ⟨rfl, dropWhile_append_of_nil h⟩
  | cons c r => exact .inl ⟨c, r, rfl, dropWhile_append_cons h⟩

/-! ## literals -/

theorem stripPrefix_ext (pat : List Char) : Ext (stripPrefix pat) := by
  intro w x r h
  have e := stripPrefix_eq h
  subst e
  clear h
  induction pat with
  | nil => simp [stripPrefix]
  | cons p ps ih => simp only [List.cons_append, stripPrefix, if_true]; exact ih

theorem stripPrefix_self (pat s : List Char) : stripPrefix pat (pat ++ s) = some s := by
  induction pat with
  | nil => simp [stripPrefix]
  | cons p ps ih => simp only [List.cons_append, stripPrefix, if_true]; exact ih

theorem stripPrefix_shr (pat : List Char) : Shr (stripPrefix pat) := by
  intro w x r0 h hl
  have e := stripPrefix_eq h
  -- `w ++ x = pat ++ r0` with `|x| ≤ |r0|`: `pat` is a prefix of `w`
  have hlen : pat.length ≤ w.length := by
    have := congrArg List.length e; simp at this; omega
  obtain ⟨r, hw⟩ : ∃ r, w = pat ++ r := by
    refine ⟨w.drop pat.length, ?_⟩
    have h1 : (w ++ x).take pat.length = pat := by rw [e]; simp
    rw [List.take_append_of_le_length hlen] at h1
    conv => lhs; rw [← List.take_append_drop pat.length w, h1]
  subst hw
  rw [List.append_assoc] at e
  have := List.append_cancel_left e
  exact ⟨r, this.symm, stripPrefix_self pat r⟩

/-- the first occurrence of a literal -/
theorem findSub_ext (pat : List Char) : Ext (findSub pat) := by
  intro w
  induction w with
  | nil =>
    intro x r h
    simp only [findSub] at h
    have e := stripPrefix_eq h
    have hp : pat = [] ∧ r = [] := by
      have := congrArg List.length e; simp at this
      exact ⟨List.eq_nil_of_length_eq_zero (by omega), List.eq_nil_of_length_eq_zero (by omega)⟩
    obtain ⟨rfl, rfl⟩ := hp
    cases x <;> simp [findSub, stripPrefix]
  | cons c t ih =>
    intro x r h
    simp only [findSub] at h
    simp only [List.cons_append, findSub]
    split at h
    · next rest hs =>
      simp only [Option.some.injEq] at h; subst h
      have := stripPrefix_ext pat _ x _ hs
      simp only [List.cons_append] at this
      rw [this]
    · next hs =>
      -- no occurrence at this position in the smaller window; none in the larger one either, because
      -- a later occurrence lies entirely inside the smaller window
      cases hs' : stripPrefix pat (c :: (t ++ x)) with
      | none => simp only; exact ih x r h
      | some r1 =>
        exfalso
        obtain ⟨pre, hpre⟩ := findSub_suffix h
        have e1 := stripPrefix_eq hs'
        -- `pat` is a prefix of `c :: t ++ x` and fits into `c :: t` by its length: it is a prefix of `c :: t`
        have hlen : pat.length ≤ (c :: t).length := by
          have := congrArg List.length hpre; simp at this ⊢; omega
        have h1 : (c :: (t ++ x)).take pat.length = pat := by rw [e1]; simp
        have h2 : (c :: t).take pat.length = pat := by
          have : c :: (t ++ x) = (c :: t) ++ x := rfl
          rw [this, List.take_append_of_le_length hlen] at h1; exact h1
        have h3 : stripPrefix pat (c :: t) = some ((c :: t).drop pat.length) := by
          conv => lhs; rw [← List.take_append_drop pat.length (c :: t), h2]
          exact stripPrefix_self _ _
        rw [h3] at hs; cases hs

theorem findSub_shr (pat : List Char) : Shr (findSub pat) := by
  intro w
  induction w with
  | nil =>
    intro x r0 h hl
    obtain ⟨pre, hpre⟩ := findSub_suffix h
    have hz : pre = [] ∧ pat = [] := by
      have := congrArg List.length hpre; simp at this
      exact ⟨List.eq_nil_of_length_eq_zero (by omega), List.eq_nil_of_length_eq_zero (by omega)⟩
    obtain ⟨rfl, rfl⟩ := hz
    simp only [List.nil_append] at hpre
    exact ⟨[], by simpa using hpre.symm, by simp [findSub, stripPrefix]⟩
  | cons c t ih =>
    intro x r0 h hl
    simp only [List.cons_append, findSub] at h
    simp only [findSub]
    split at h
    · next rest hs =>
      simp only [Option.some.injEq] at h; subst h
      obtain ⟨r, hr, hw⟩ := stripPrefix_shr pat (c :: t) x _ hs hl
      exact ⟨r, hr, by rw [hw]⟩
    · next hs =>
      obtain ⟨r, hr, hw⟩ := ih x r0 h hl
      refine ⟨r, hr, ?_⟩
      cases hs' : stripPrefix pat (c :: t) with
      | none => simp only; exact hw
      | some r1 =>
        have := stripPrefix_ext pat _ x _ hs'
        simp only [List.cons_append] at this
        rw [this] at hs; cases hs

/-! ## the close tag `</name\s*>` -/

theorem closeTagK_len {s r : List Char} (h : closeTagK always s = some r) : r.length + 4 ≤ s.length := by
  unfold closeTagK at h
  split at h
  · next c t =>
    split at h
    · split at h
      · next r' hd =>
        simp only [always, if_true, Option.some.injEq] at h; subst h
        have h1 := length_dropWhile_le isWs (t.dropWhile isTagChar)
        have h2 := length_dropWhile_le isTagChar t
        rw [hd] at h1; simp at h1 ⊢; omega
      · cases h
    · cases h
  · cases h

theorem closeTagK_ext : Ext (closeTagK always) := by
  intro w x r h
  unfold closeTagK at h
  split at h
  · next c t =>
    simp only [List.cons_append, closeTagK]
    split at h
    · next hc =>
      rw [if_pos hc]
      split at h
      · next r' hd =>
        simp only [always, if_true, Option.some.injEq] at h; subst h
        cases ht : t.dropWhile isTagChar with
        | nil => rw [ht] at hd; simp at hd
        | cons a u =>
          rw [ht] at hd
          rw [dropWhile_append_cons ht]
          have := dropWhile_append_cons (x := x) hd
          simp only [List.cons_append] at this
          rw [this]
          simp [always]
      · cases h
    · cases h
  · cases h

theorem closeTagK_shr : Shr (closeTagK always) := by
  intro w x r0 h hl
  have hlen := closeTagK_len h
  simp only [List.length_append] at hlen
  match w, h, hlen with
  | [], _, hlen => simp at hlen; omega
  | [_], _, hlen => simp at hlen; omega
  | [_, _], _, hlen => simp at hlen; omega
  | a :: b :: c :: t, h, _ =>
    simp only [List.cons_append] at h
    unfold closeTagK at h ⊢
    split at h
    · next c' t' heq =>
      simp only [List.cons.injEq] at heq
      obtain ⟨rfl, rfl, rfl, rfl⟩ := heq
      simp only
      split at h
      · next hc =>
        rw [if_pos hc]
        rcases dropWhile_append_cases isTagChar t x with ⟨a1, u1, e1, e1'⟩ | ⟨e1, e1'⟩
        · rw [e1'] at h
          rw [e1]
          have hcons : a1 :: (u1 ++ x) = (a1 :: u1) ++ x := rfl
          rw [hcons] at h
          rcases dropWhile_append_cases isWs (a1 :: u1) x with ⟨a2, u2, e2, e2'⟩ | ⟨e2, e2'⟩
          · rw [e2'] at h
            rw [e2]
            split at h
            · next r' heq2 =>
              simp only [List.cons.injEq] at heq2
              obtain ⟨rfl, rfl⟩ := heq2
              simp only [always, if_true, Option.some.injEq] at h
              exact ⟨u2, h.symm, by simp [always]⟩
            · cases h
          · rw [e2'] at h
            split at h
            · next r' heq2 =>
              simp only [always, if_true, Option.some.injEq] at h; subst h
              have := length_dropWhile_le isWs x
              rw [heq2] at this; simp at this; omega
            · cases h
        · rw [e1'] at h
          split at h
          · next r' heq2 =>
            simp only [always, if_true, Option.some.injEq] at h; subst h
            have h1 := length_dropWhile_le isWs (x.dropWhile isTagChar)
            have h2 := length_dropWhile_le isTagChar x
            rw [heq2] at h1; simp at h1; omega
          · cases h
      · cases h
    · cases h

/-! ## the declaration `<![A-Z]+\s+[^>]*>` (behind `<!`) -/

theorem declRest_lt {s r : List Char} (h : declRest s = some r) : r.length < s.length := by
  obtain ⟨mid, hm⟩ := declRest_suffix h
  cases mid with
  | nil =>
    -- the match is not empty
    exfalso
    simp only [List.nil_append] at hm; subst hm
    unfold declRest at h
    split at h
    · cases h
    · next c t =>
      split at h
      · split at h
        · next w r' hd =>
          split at h
          · split at h
            · next y r'' hd2 =>
              simp only [Option.some.injEq] at h
              have h1 := length_dropWhile_le isUpper t
              have h2 := length_dropWhile_le (· != '>') r'
              rw [hd] at h1; rw [hd2] at h2
              have := congrArg List.length h
              simp at h1 h2 this; omega
            · cases h
          · cases h
        · cases h
      · cases h
  | cons a m => rw [hm]; simp; omega

theorem declRest_ext : Ext declRest := by
  intro w x r h
  unfold declRest at h
  split at h
  · cases h
  · next c t =>
    simp only [List.cons_append, declRest]
    split at h
    · next hc =>
      rw [if_pos hc]
      split at h
      · next ws r' hd =>
        rw [dropWhile_append_cons hd]
        simp only
        split at h
        · next hws =>
          rw [if_pos hws]
          split at h
          · next y r'' hd2 =>
            simp only [Option.some.injEq] at h; subst h
            rw [dropWhile_append_cons hd2]
          · cases h
        · cases h
      · cases h
    · cases h

theorem declRest_shr : Shr declRest := by
  intro w x r0 h hl
  cases w with
  | nil =>
    have := declRest_lt h
    simp at this; omega
  | cons c t =>
    simp only [List.cons_append] at h
    unfold declRest at h ⊢
    simp only at h ⊢
    split at h
    · next hc =>
      rw [if_pos hc]
      rcases dropWhile_append_cases isUpper t x with ⟨a1, u1, e1, e1'⟩ | ⟨e1, e1'⟩
      · rw [e1'] at h
        rw [e1]
        simp only at h ⊢
        split at h
        · next hws =>
          rw [if_pos hws]
          rcases dropWhile_append_cases (· != '>') u1 x with ⟨a2, u2, e2, e2'⟩ | ⟨e2, e2'⟩
          · rw [e2'] at h
            rw [e2]
            simp only [Option.some.injEq] at h
            exact ⟨u2, h.symm, rfl⟩
          · rw [e2'] at h
            split at h
            · next y r'' hd2 =>
              simp only [Option.some.injEq] at h; subst h
              have := length_dropWhile_le (· != '>') x
              rw [hd2] at this; simp at this; omega
            · cases h
        · cases h
      · rw [e1'] at h
        split at h
        · next ws r' hd =>
          split at h
          · split at h
            · next y r'' hd2 =>
              simp only [Option.some.injEq] at h; subst h
              have h1 := length_dropWhile_le isUpper x
              have h2 := length_dropWhile_le (· != '>') r'
              rw [hd] at h1; rw [hd2] at h2; simp at h1 h2; omega
            · cases h
          · cases h
        · cases h
    · cases h

/-! ## the comment body `(?:-?[^-])*-->` -/

theorem commentBody_lt_aux : ∀ (n : Nat) (s r : List Char), s.length ≤ n → commentBody s = some r →
    r.length < s.length := by
  intro n
  induction n with
  | zero => intro s r hl h; cases s <;> simp [commentBody] at h hl
  | succ n ih =>
    intro s r hl h
    unfold commentBody at h
    split at h
    · cases h
    · next c t =>
      split at h
      · split at h
        · cases h
        · next d t' =>
          split at h
          · split at h
            · simp only [Option.some.injEq] at h; subst h; simp; omega
            · cases h
          · have := ih t' r (by simp at hl; omega) h; simp; omega
      · have := ih t r (by simp at hl; omega) h; simp; omega

theorem commentBody_lt {s r : List Char} (h : commentBody s = some r) : r.length < s.length :=
  commentBody_lt_aux _ _ _ (Nat.le_refl _) h

theorem commentBody_ext_aux : ∀ (n : Nat) (w x r : List Char), w.length ≤ n → commentBody w = some r →
    commentBody (w ++ x) = some (r ++ x) := by
  intro n
  induction n with
  | zero => intro w x r hl h; cases w <;> simp [commentBody] at h hl
  | succ n ih =>
    intro w x r hl h
    unfold commentBody at h
    split at h
    · cases h
    · next c t =>
      simp only [List.cons_append]
      unfold commentBody
      split at h
      · next hc =>
        rw [if_pos hc]
        split at h
        · cases h
        · next d t' =>
          simp only [List.cons_append]
          split at h
          · next hd =>
            rw [if_pos hd]
            split at h
            · next r'' =>
              simp only [Option.some.injEq] at h; subst h
              simp
            · cases h
          · next hd =>
            rw [if_neg hd]
            exact ih t' x r (by simp at hl; omega) h
      · next hc =>
        rw [if_neg hc]
        exact ih t x r (by simp at hl; omega) h

theorem commentBody_ext : Ext commentBody := fun w x r h => commentBody_ext_aux _ w x r (Nat.le_refl _) h

theorem commentBody_shr_aux : ∀ (n : Nat) (w x r0 : List Char), w.length ≤ n →
    commentBody (w ++ x) = some r0 → x.length ≤ r0.length → ∃ r, r0 = r ++ x ∧ commentBody w = some r := by
  intro n
  induction n with
  | zero =>
    intro w x r0 hl h hx
    have hw : w = [] := List.eq_nil_of_length_eq_zero (by omega)
    subst hw
    have := commentBody_lt h; simp at this; omega
  | succ n ih =>
    intro w x r0 hl h hx
    cases w with
    | nil => have := commentBody_lt h; simp at this; omega
    | cons c t =>
      simp only [List.cons_append] at h
      unfold commentBody at h ⊢
      split at h
      · next hc =>
        rw [if_pos hc]
        cases t with
        | nil =>
          -- the dash is the last character of the smaller window: the match ends behind it
          exfalso
          simp only [List.nil_append] at h
          split at h
          · cases h
          · next d t' =>
            split at h
            · split at h
              · simp only [Option.some.injEq] at h; subst h; simp at hx; omega
              · cases h
            · have := commentBody_lt h; simp at hx; omega
        | cons d t' =>
          simp only [List.cons_append] at h ⊢
          split at h
          · next hd =>
            rw [if_pos hd]
            cases t' with
            | nil =>
              exfalso
              simp only [List.nil_append] at h
              split at h
              · simp only [Option.some.injEq] at h; subst h; simp at hx; omega
              · cases h
            | cons e t'' =>
              simp only [List.cons_append] at h ⊢
              split at h
              · next r'' heq =>
                simp only [List.cons.injEq] at heq
                obtain ⟨rfl, rfl⟩ := heq
                simp only [Option.some.injEq] at h
                exact ⟨t'', h.symm, rfl⟩
              · cases h
          · next hd =>
            rw [if_neg hd]
            exact ih t' x r0 (by simp at hl; omega) h hx
      · next hc =>
        rw [if_neg hc]
        exact ih t x r0 (by simp at hl; omega) h hx

theorem commentBody_shr : Shr commentBody := fun w x r0 h hx => commentBody_shr_aux _ w x r0 (Nat.le_refl _) h hx

/-! ## the comment behind `<!--` -/

theorem commentRest_lt {s r : List Char} (h : commentRest s = some r) : r.length < s.length := by
  unfold commentRest at h
  split at h
  · simp only [Option.some.injEq] at h; subst h; simp; omega
  · split at h
    · cases h
    · next c t =>
      split at h
      · split at h
        · cases h
        · next d t' =>
          split at h
          · have := commentBody_lt h; simp; omega
          · cases h
      · split at h
        · have := commentBody_lt h; simp; omega
        · cases h

theorem commentRest_ext : Ext commentRest := by
  intro w x r h
  unfold commentRest at h
  split at h
  · next r' => simp only [Option.some.injEq] at h; subst h; simp [commentRest]
  · next hno =>
    split at h
    · cases h
    · next c t =>
      split at h
      · next hc =>
        subst hc
        split at h
        · cases h
        · next d t' =>
          split at h
          · next hd =>
            have hb := commentBody_ext _ x _ h
            unfold commentRest
            split
            · next r'' heq =>
              simp only [List.cons_append, List.cons.injEq, true_and] at heq
              exact absurd heq.1 hd.2
            · simp only [List.cons_append, if_true]
              rw [if_pos hd]; exact hb
          · cases h
      · next hc =>
        split at h
        · next hc2 =>
          have hb := commentBody_ext _ x _ h
          unfold commentRest
          split
          · next r'' heq =>
            simp only [List.cons_append, List.cons.injEq] at heq
            exact absurd heq.1 hc
          · simp only [List.cons_append]
            rw [if_neg hc, if_pos hc2]; exact hb
        · cases h

theorem commentRest_shr : Shr commentRest := by
  intro w x r0 h hx
  cases w with
  | nil => have := commentRest_lt h; simp at this; omega
  | cons c t =>
    simp only [List.cons_append] at h
    unfold commentRest at h
    split at h
    · next r' heq =>
      simp only [Option.some.injEq] at h; subst h
      simp only [List.cons.injEq] at heq
      obtain ⟨rfl, heq⟩ := heq
      match t, heq with
      | [], heq => simp only [List.nil_append] at heq; subst heq; simp at hx; omega
      | [d], heq =>
        simp only [List.cons_append, List.nil_append, List.cons.injEq] at heq
        obtain ⟨_, heq⟩ := heq; subst heq; simp at hx; omega
      | d :: e :: t'', heq =>
        simp only [List.cons_append, List.cons.injEq] at heq
        obtain ⟨rfl, rfl, rfl⟩ := heq
        exact ⟨t'', rfl, by simp [commentRest]⟩
    · next hno =>
      simp only at h
      split at h
      · next hc =>
        subst hc
        cases t with
        | nil =>
          exfalso
          simp only [List.nil_append] at h
          split at h
          · cases h
          · next d t' =>
            split at h
            · have := commentBody_lt h; simp at hx; omega
            · cases h
        | cons d t' =>
          simp only [List.cons_append] at h
          split at h
          · next hd =>
            obtain ⟨r, hr, hw⟩ := commentBody_shr _ x r0 h hx
            refine ⟨r, hr, ?_⟩
            unfold commentRest
            split
            · next r'' heq =>
              simp only [List.cons.injEq, true_and] at heq
              exact absurd heq.1 hd.2
            · simp only [if_true]
              rw [if_pos hd]; exact hw
          · cases h
      · next hc =>
        split at h
        · next hc2 =>
          obtain ⟨r, hr, hw⟩ := commentBody_shr _ x r0 h hx
          refine ⟨r, hr, ?_⟩
          unfold commentRest
          split
          · next r'' heq =>
            simp only [List.cons.injEq] at heq
            exact absurd heq.1 hc
          · simp only
            rw [if_neg hc, if_pos hc2]; exact hw
        · cases h

/-! ## the four alternatives that start with `<!` or `<?` -/

theorem split_prefix {w x p s : List Char} (h : w ++ x = p ++ s) (hl : x.length ≤ s.length) :
    ∃ w', w = p ++ w' ∧ s = w' ++ x := by
  rcases List.append_eq_append_iff.mp h with ⟨a, hp, hx⟩ | ⟨c, hw, hs⟩
  · have ha : a = [] := by
      have := congrArg List.length hx; simp at this
      exact List.eq_nil_of_length_eq_zero (by omega)
    subst ha
    simp only [List.append_nil, List.nil_append] at hp hx
    exact ⟨[], by simp [hp], by simp [hx]⟩
  · exact ⟨c, hw, hs⟩

theorem declRest_head {s r : List Char} (h : declRest s = some r) : ∃ c t, s = c :: t ∧ isUpper c = true := by
  unfold declRest at h
  split at h
  · cases h
  · next c t =>
    split at h
    · next hc => exact ⟨c, t, rfl, hc⟩
    · cases h

theorem specialRest_decl {s r : List Char} (h : declRest s = some r) : specialRest ('<' :: '!' :: s) = some r := by
  obtain ⟨c, t, rfl, hc⟩ := declRest_head h
  unfold specialRest
  split
  · next r' heq =>
    simp only [List.cons.injEq, true_and] at heq
    rw [heq.1] at hc; simp [isUpper] at hc
  · next r' heq => simp at heq
  · next r' heq =>
    simp only [List.cons.injEq, true_and] at heq
    rw [heq.1] at hc; simp [isUpper] at hc
  · next r' heq =>
    simp only [List.cons.injEq, true_and] at heq
    rw [← heq]; exact h
  · next hno => exact absurd rfl (hno _)

theorem specialRest_ext : Ext specialRest := by
  intro w x r h
  unfold specialRest at h
  split at h
  · next r' => simp only [List.cons_append, specialRest]; exact commentRest_ext _ x _ h
  · next r' => simp only [List.cons_append, specialRest]; exact findSub_ext _ _ x _ h
  · next r' => simp only [List.cons_append, specialRest]; exact findSub_ext _ _ x _ h
  · next r' =>
    simp only [List.cons_append]
    exact specialRest_decl (declRest_ext _ x _ h)
  · cases h

theorem specialRest_shr : Shr specialRest := by
  intro w x r0 h hx
  unfold specialRest at h
  split at h
  · next r' heq =>
    have hlt := commentRest_lt h
    obtain ⟨w', rfl, rfl⟩ := split_prefix (p := ['<', '!', '-', '-']) (s := r') heq (by omega)
    obtain ⟨r, hr, hw⟩ := commentRest_shr _ x r0 h hx
    exact ⟨r, hr, by simp only [List.cons_append, List.nil_append, specialRest]; exact hw⟩
  · next r' heq =>
    have hlt : r0.length ≤ r'.length := by
      obtain ⟨pre, hpre⟩ := findSub_suffix h
      have := congrArg List.length hpre; simp at this; omega
    obtain ⟨w', rfl, rfl⟩ := split_prefix (p := ['<', '?']) (s := r') heq (by omega)
    obtain ⟨r, hr, hw⟩ := findSub_shr _ _ x r0 h hx
    exact ⟨r, hr, by simp only [List.cons_append, List.nil_append, specialRest]; exact hw⟩
  · next r' heq =>
    have hlt : r0.length ≤ r'.length := by
      obtain ⟨pre, hpre⟩ := findSub_suffix h
      have := congrArg List.length hpre; simp at this; omega
    obtain ⟨w', rfl, rfl⟩ := split_prefix (p := ['<', '!', '[', 'C', 'D', 'A', 'T', 'A', '[']) (s := r') heq (by omega)
    obtain ⟨r, hr, hw⟩ := findSub_shr _ _ x r0 h hx
    exact ⟨r, hr, by simp only [List.cons_append, List.nil_append, specialRest]; exact hw⟩
  · next r' _ _ heq =>
    have hlt := declRest_lt h
    obtain ⟨w', rfl, rfl⟩ := split_prefix (p := ['<', '!']) (s := r') heq (by omega)
    obtain ⟨r, hr, hw⟩ := declRest_shr _ x r0 h hx
    exact ⟨r, hr, specialRest_decl hw⟩
  · cases h

/-! ## the whole matcher on windows that do not start an open tag -/

theorem closeTagK_head {k : List Char → Bool} {s r : List Char} (h : closeTagK k s = some r) :
    ∃ t, s = '<' :: '/' :: t := by
  unfold closeTagK at h
  split at h
  · next c t => exact ⟨_, rfl⟩
  · cases h

theorem specialRest_head {s r : List Char} (h : specialRest s = some r) :
    ∃ c t, s = '<' :: c :: t ∧ (c = '!' ∨ c = '?') := by
  unfold specialRest at h
  split at h
  · exact ⟨_, _, rfl, .inl rfl⟩
  · exact ⟨_, _, rfl, .inr rfl⟩
  · exact ⟨_, _, rfl, .inl rfl⟩
  · exact ⟨_, _, rfl, .inl rfl⟩
  · cases h

theorem openTagK_second {k : List Char → Bool} {c : Char} {t : List Char} (h : isAlpha c = false) :
    openTagK k ('<' :: c :: t) = none := by
  simp [openTagK, h]

theorem closeTagK_second {k : List Char → Bool} {c : Char} {t : List Char} (h : c ≠ '/') :
    closeTagK k ('<' :: c :: t) = none := by
  unfold closeTagK
  split
  · next c' t' heq => simp only [List.cons.injEq, true_and] at heq; exact absurd heq.1 h
  · rfl

/-- **Ext, every alternative but the open tag**: a match of the close tag / comment / processing
    instruction / declaration / CDATA alternative under the smaller window is THE match of `HTML_TAG_RE`
    under every larger window — same extent -/
theorem tagRest_ext_nonopen {w x r : List Char} (hopen : openTagK always w = none)
    (h : tagRest w = some r) : tagRest (w ++ x) = some (r ++ x) := by
  unfold tagRest at h
  rw [hopen] at h
  simp only at h
  cases hc : closeTagK always w with
  | some r1 =>
    rw [hc] at h
    simp only [Option.some.injEq] at h; subst h
    obtain ⟨t, rfl⟩ := closeTagK_head hc
    have := closeTagK_ext _ x _ hc
    unfold tagRest
    rw [show ('<' :: '/' :: t) ++ x = '<' :: '/' :: (t ++ x) from rfl] at this ⊢
    rw [openTagK_second (by decide), this]
  | none =>
    rw [hc] at h
    simp only at h
    obtain ⟨c, t, rfl, hct⟩ := specialRest_head h
    have := specialRest_ext _ x _ h
    unfold tagRest
    rw [show ('<' :: c :: t) ++ x = '<' :: c :: (t ++ x) from rfl] at this ⊢
    rw [openTagK_second (by rcases hct with rfl | rfl <;> decide),
      closeTagK_second (by rcases hct with rfl | rfl <;> decide), this]

/-- **Shr, every alternative but the open tag**: a match under the larger window that is not an open tag and
    ends inside the smaller window is the match under the smaller window -/
theorem tagRest_shr_nonopen {w x r0 : List Char} (hopen : openTagK always (w ++ x) = none)
    (h : tagRest (w ++ x) = some r0) (hx : x.length ≤ r0.length) :
    ∃ r, r0 = r ++ x ∧ tagRest w = some r ∧ openTagK always w = none := by
  unfold tagRest at h
  rw [hopen] at h
  simp only at h
  cases hc : closeTagK always (w ++ x) with
  | some r1 =>
    rw [hc] at h
    simp only [Option.some.injEq] at h; subst h
    obtain ⟨r, hr, hw⟩ := closeTagK_shr w x _ hc hx
    obtain ⟨t, rfl⟩ := closeTagK_head hw
    have ho : openTagK always ('<' :: '/' :: t) = none := openTagK_second (by decide)
    exact ⟨r, hr, by unfold tagRest; rw [ho, hw], ho⟩
  | none =>
    rw [hc] at h
    simp only at h
    obtain ⟨r, hr, hw⟩ := specialRest_shr w x _ h hx
    obtain ⟨c, t, rfl, hct⟩ := specialRest_head hw
    have ho : openTagK always ('<' :: c :: t) = none :=
      openTagK_second (by rcases hct with rfl | rfl <;> decide)
    have hcl : closeTagK always ('<' :: c :: t) = none :=
      closeTagK_second (by rcases hct with rfl | rfl <;> decide)
    exact ⟨r, hr, by unfold tagRest; rw [ho, hcl, hw], ho⟩

/-! ## in terms of `tagMatch`-style extents (characters) -/

/-- the extent of the match in characters -/
def extent (s : List Char) : Option Nat := (tagRest s).map (fun r => s.length - r.length)

theorem extent_ext_nonopen {w x : List Char} {n : Nat} (hopen : openTagK always w = none)
    (h : extent w = some n) : extent (w ++ x) = some n := by
  unfold extent at h ⊢
  cases hr : tagRest w with
  | none => rw [hr] at h; cases h
  | some r =>
    rw [hr] at h
    rw [tagRest_ext_nonopen hopen hr]
    simp only [Option.map_some, Option.some.injEq, List.length_append] at h ⊢
    omega

theorem extent_shr_nonopen {w x : List Char} {n : Nat} (hopen : openTagK always (w ++ x) = none)
    (h : extent (w ++ x) = some n) (hn : n ≤ w.length) : extent w = some n := by
  unfold extent at h ⊢
  cases hr : tagRest (w ++ x) with
  | none => rw [hr] at h; cases h
  | some r0 =>
    rw [hr] at h
    simp only [Option.map_some, Option.some.injEq, List.length_append] at h
    obtain ⟨mid, hm⟩ := tagRest_spec hr
    have hl : r0.length ≤ w.length + x.length := by
      have := congrArg List.length hm; simp at this; omega
    obtain ⟨r, hr0, hw, _⟩ := tagRest_shr_nonopen hopen hr (by omega)
    rw [hw]
    subst hr0
    simp only [Option.map_some, Option.some.injEq, List.length_append] at h ⊢
    omega

/-! ## examples, and what is known about the open tag -/

-- Ext / Shr on a comment: the later `-->` of the larger window is not reached
example : extent "<!--a-->".toList = some 8 ∧ extent ("<!--a-->".toList ++ "x-->".toList) = some 8 ∧
    openTagK always "<!--a-->".toList = none := by decide +kernel
-- a processing instruction ends at the FIRST `?>` under every window
example : extent "<?a?>b?>".toList = some 5 ∧ extent "<?a?>".toList = some 5 := by decide +kernel
-- a match of the LARGER window that extends past the cut says nothing about the smaller one
-- (`FlatL2` asks nothing then): `<!--a--` + `>` ; `<a b="x>` + `y">`
example : extent "<!--a--".toList = none ∧ extent "<!--a-->".toList = some 8 := by decide +kernel
example : extent "<a b=\"x>".toList = none ∧ extent "<a b=\"x>y\">".toList = some 11 := by decide +kernel
-- the open tag: instances of Ext and Shr (the attribute value may hold a `>`; backtracking over an
-- unquoted value and over Unicode white space)
example : extent "<a b='>' c>".toList = some 11 ∧ extent "<a b='>' c>d>".toList = some 11 ∧
    extent "<a b=c d>".toList = some 9 ∧ extent "<a b=c d>e f='>".toList = some 9 ∧
    extent "<a b=\u00a0c>".toList = some 8 ∧ extent "<a b=\u00a0c>\u00a0>".toList = some 8 := by decide +kernel

/-
  WHAT IS TRUE (window-shrink independence of `HTML_TAG_RE`), for the smaller window `w` and the larger `w ++ x`:

   (E)  tagRest w = some r                      →  tagRest (w ++ x) = some (r ++ x)
   (S)  tagRest (w ++ x) = some r0, |x| ≤ |r0|  →  ∃ r, r0 = r ++ x ∧ tagRest w = some r

  i.e. the verdict of the larger window restricted to matches that END INSIDE the smaller window is exactly the
  verdict of the smaller window; a match of the larger window that extends past the cut (`<!--a--|>`,
  `<a b="x>|y">`) is unconstrained, and the smaller window then has NO match (by (E)).  `FlatL2` follows:
  `o0 = none → o = none` is the contrapositive of (E); `o0 = some n`, `pos + n ≤ pos_max'` `→ o = some n` is (S).
  The lazy `[\s\S]*?` of the comment / processing / CDATA alternatives and the `[^>]*` of the declaration never
  match longer under a larger window: they stop at the FIRST terminator (`findSub_ext`, `commentBody_ext`).

  PROVED here: (E) and (S) for the close tag (`closeTagK_ext/_shr`), the comment (`commentRest_ext/_shr`), the
  processing instruction and CDATA (`findSub_ext/_shr`), the declaration (`declRest_ext/_shr`), their union
  (`specialRest_ext/_shr`) and the whole matcher on every window that does not start an open tag
  (`tagRest_ext_nonopen`, `tagRest_shr_nonopen`, `extent_ext_nonopen`, `extent_shr_nonopen`).

  OPEN: (E) and (S) for the open tag (`openTagK always`, i.e. `attrsK`).  No counterexample: an exhaustive search
  over all 1 948 717 strings `<a` + at most 6 characters of  a ␠ = " ' > / < U+00A0 ` \n  (every split of every string)
  found none for (E) nor for (S).  Why it should hold, and what the proof needs: every greedy run of the pattern
  (`\s*`, the tag / attribute name, the unquoted value) is over a class that excludes `>`, and a match ends with
  `>`, so no run of a successful parse reaches the end of the smaller window (`dropWhile_append_cons` applies);
  the only construct that can cross a `>` is a quoted value, and a quote that is not closed inside `w` makes the
  attribute — hence, because `=` forces a value, the whole parse through that attribute — fail under `w`.  The
  induction is over `attrsK` (well-founded on the length, `findSome?` over `valueEnds`): it needs the candidate
  lists `valueEnds (s ++ x)` and `(valueEnds s).map (· ++ x)` to agree on every candidate that ends inside `s`
  (`splits_append` for runs that stop inside `s`), and "an attribute head whose name run reaches the end of `w`
  cannot lead to a match under `w`".
-/

end MdIt.InlineH.Window
