/-
  Window independence of the raw-HTML tag matcher (`Html.tagRest` / `Html.tagMatch`, i.e. `HTML_TAG_RE`):
  what `FlatL2` of the memo-safety development (`Lemmas/MemoSafeLamNF.lean`) needs of the html rule.

  Windows are compared as lists: the SMALLER window is `w` (text up to `pos_max'`), the LARGER one is
  `w ++ x` (text up to `pos_max ≥ pos_max'`).  For a matcher `f : List Char → Option (List Char)` (result =
  what is left behind the match):

      Ext f  :=  f w = some r  →  f (w ++ x) = some (r ++ x)
                 a match under the smaller window IS the match under every larger window (same extent)
      Shr f  :=  f (w ++ x) = some r0 → |x| ≤ |r0|  →  ∃ r, r0 = r ++ x ∧ f w = some r
                 a match under the larger window that ends inside the smaller one IS the match under the
                 smaller window

  See the end of the file for what is proved: both facts for every alternative but the open tag; for the open
  tag `Shr` and the weak form of `Ext` (the larger window matches too), which give the `FlatL2` fact for the whole
  `HTML_TAG_RE` (`extent_flatL2`, `tagRest_shr`, `tagRest_ext_weak`); open: same-extent `Ext` for the open tag.
-/
import MdIt.Props.Html

namespace MdIt.InlineH.Window
open MdIt.Html
open MdIt.InlineOps (byteLen)

def Ext (f : List Char → Option (List Char)) : Prop :=
  ∀ w x r, f w = some r → f (w ++ x) = some (r ++ x)

def Shr (f : List Char → Option (List Char)) : Prop :=
  ∀ w x r0, f (w ++ x) = some r0 → x.length ≤ r0.length → ∃ r, r0 = r ++ x ∧ f w = some r

/-! ## greedy runs -/

theorem dropWhile_append_of_ne {p : Char → Bool} : ∀ {w x : List Char}, w.dropWhile p ≠ [] →
    (w ++ x).dropWhile p = w.dropWhile p ++ x
  | [], _, h => absurd rfl h
  | c :: t, x, h => by
    simp only [List.cons_append, List.dropWhile_cons] at h ⊢
    split
    · next hc => rw [if_pos hc] at h; exact dropWhile_append_of_ne h
    · rfl

theorem dropWhile_append_of_nil {p : Char → Bool} : ∀ {w x : List Char}, w.dropWhile p = [] →
    (w ++ x).dropWhile p = x.dropWhile p
  | [], _, _ => rfl
  | c :: t, x, h => by
    simp only [List.cons_append, List.dropWhile_cons] at h ⊢
    split
    · next hc => rw [if_pos hc] at h; exact dropWhile_append_of_nil h
    · next hc => rw [if_neg hc] at h; cases h

theorem dropWhile_append_cons {p : Char → Bool} {w x : List Char} {c : Char} {r : List Char}
    (h : w.dropWhile p = c :: r) : (w ++ x).dropWhile p = c :: (r ++ x) := by
  rw [dropWhile_append_of_ne (by rw [h]; simp), h]; rfl

/-- the run of the larger window, seen from the smaller one: it stopped inside the smaller window, or it
    ran through its end (then what is left is a suffix of `x`) -/
theorem dropWhile_append_cases (p : Char → Bool) (w x : List Char) :
    (∃ c r, w.dropWhile p = c :: r ∧ (w ++ x).dropWhile p = c :: (r ++ x)) ∨
    (w.dropWhile p = [] ∧ (w ++ x).dropWhile p = x.dropWhile p) := by
  cases h : w.dropWhile p with
  | nil => exact .inr ⟨rfl, dropWhile_append_of_nil h⟩
  | cons c r => exact .inl ⟨c, r, rfl, dropWhile_append_cons h⟩

/-! ## literals -/

theorem stripPrefix_ext (pat : List Char) : Ext (stripPrefix pat) := by
  intro w x r h
  have e := stripPrefix_eq h
  subst e
  clear h
  induction pat with
  | nil => simp [stripPrefix]
  | cons p ps ih => simp only [List.cons_append, stripPrefix, if_true]; exact ih

theorem stripPrefix_self (pat s : List Char) : stripPrefix pat (pat ++ s) = some s := by
  induction pat with
  | nil => simp [stripPrefix]
  | cons p ps ih => simp only [List.cons_append, stripPrefix, if_true]; exact ih

theorem stripPrefix_shr (pat : List Char) : Shr (stripPrefix pat) := by
  intro w x r0 h hl
  have e := stripPrefix_eq h
  -- `w ++ x = pat ++ r0` with `|x| ≤ |r0|`: `pat` is a prefix of `w`
  have hlen : pat.length ≤ w.length := by
    have := congrArg List.length e; simp at this; omega
  obtain ⟨r, hw⟩ : ∃ r, w = pat ++ r := by
    refine ⟨w.drop pat.length, ?_⟩
    have h1 : (w ++ x).take pat.length = pat := by rw [e]; simp
    rw [List.take_append_of_le_length hlen] at h1
    conv => lhs; rw [← List.take_append_drop pat.length w, h1]
  subst hw
  rw [List.append_assoc] at e
  have := List.append_cancel_left e
  exact ⟨r, this.symm, stripPrefix_self pat r⟩

/-- the first occurrence of a literal -/
theorem findSub_ext (pat : List Char) : Ext (findSub pat) := by
  intro w
  induction w with
  | nil =>
    intro x r h
    simp only [findSub] at h
    have e := stripPrefix_eq h
    have hp : pat = [] ∧ r = [] := by
      have := congrArg List.length e; simp at this
      exact ⟨List.eq_nil_of_length_eq_zero (by omega), List.eq_nil_of_length_eq_zero (by omega)⟩
    obtain ⟨rfl, rfl⟩ := hp
    cases x <;> simp [findSub, stripPrefix]
  | cons c t ih =>
    intro x r h
    simp only [findSub] at h
    simp only [List.cons_append, findSub]
    split at h
    · next rest hs =>
      simp only [Option.some.injEq] at h; subst h
      have := stripPrefix_ext pat _ x _ hs
      simp only [List.cons_append] at this
      rw [this]
    · next hs =>
      -- no occurrence at this position in the smaller window; none in the larger one either, because
      -- a later occurrence lies entirely inside the smaller window
      cases hs' : stripPrefix pat (c :: (t ++ x)) with
      | none => simp only; exact ih x r h
      | some r1 =>
        exfalso
        obtain ⟨pre, hpre⟩ := findSub_suffix h
        have e1 := stripPrefix_eq hs'
        -- `pat` is a prefix of `c :: t ++ x` and fits into `c :: t` by its length: it is a prefix of `c :: t`
        have hlen : pat.length ≤ (c :: t).length := by
          have := congrArg List.length hpre; simp at this ⊢; omega
        have h1 : (c :: (t ++ x)).take pat.length = pat := by rw [e1]; simp
        have h2 : (c :: t).take pat.length = pat := by
          have : c :: (t ++ x) = (c :: t) ++ x := rfl
          rw [this, List.take_append_of_le_length hlen] at h1; exact h1
        have h3 : stripPrefix pat (c :: t) = some ((c :: t).drop pat.length) := by
          conv => lhs; rw [← List.take_append_drop pat.length (c :: t), h2]
          exact stripPrefix_self _ _
        rw [h3] at hs; cases hs

theorem findSub_shr (pat : List Char) : Shr (findSub pat) := by
  intro w
  induction w with
  | nil =>
    intro x r0 h hl
    obtain ⟨pre, hpre⟩ := findSub_suffix h
    have hz : pre = [] ∧ pat = [] := by
      have := congrArg List.length hpre; simp at this
      exact ⟨List.eq_nil_of_length_eq_zero (by omega), List.eq_nil_of_length_eq_zero (by omega)⟩
    obtain ⟨rfl, rfl⟩ := hz
    simp only [List.nil_append] at hpre
    exact ⟨[], by simpa using hpre.symm, by simp [findSub, stripPrefix]⟩
  | cons c t ih =>
    intro x r0 h hl
    simp only [List.cons_append, findSub] at h
    simp only [findSub]
    split at h
    · next rest hs =>
      simp only [Option.some.injEq] at h; subst h
      obtain ⟨r, hr, hw⟩ := stripPrefix_shr pat (c :: t) x _ hs hl
      exact ⟨r, hr, by rw [hw]⟩
    · next hs =>
      obtain ⟨r, hr, hw⟩ := ih x r0 h hl
      refine ⟨r, hr, ?_⟩
      cases hs' : stripPrefix pat (c :: t) with
      | none => simp only; exact hw
      | some r1 =>
        have := stripPrefix_ext pat _ x _ hs'
        simp only [List.cons_append] at this
        rw [this] at hs; cases hs

/-! ## the close tag `</name\s*>` -/

theorem closeTagK_len {s r : List Char} (h : closeTagK always s = some r) : r.length + 4 ≤ s.length := by
  unfold closeTagK at h
  split at h
  · next c t =>
    split at h
    · split at h
      · next r' hd =>
        simp only [always, if_true, Option.some.injEq] at h; subst h
        have h1 := length_dropWhile_le isWs (t.dropWhile isTagChar)
        have h2 := length_dropWhile_le isTagChar t
        rw [hd] at h1; simp at h1 ⊢; omega
      · cases h
    · cases h
  · cases h

theorem closeTagK_ext : Ext (closeTagK always) := by
  intro w x r h
  unfold closeTagK at h
  split at h
  · next c t =>
    simp only [List.cons_append, closeTagK]
    split at h
    · next hc =>
      rw [if_pos hc]
      split at h
      · next r' hd =>
        simp only [always, if_true, Option.some.injEq] at h; subst h
        cases ht : t.dropWhile isTagChar with
        | nil => rw [ht] at hd; simp at hd
        | cons a u =>
          rw [ht] at hd
          rw [dropWhile_append_cons ht]
          have := dropWhile_append_cons (x := x) hd
          simp only [List.cons_append] at this
          rw [this]
          simp [always]
      · cases h
    · cases h
  · cases h

theorem closeTagK_shr : Shr (closeTagK always) := by
  intro w x r0 h hl
  have hlen := closeTagK_len h
  simp only [List.length_append] at hlen
  match w, h, hlen with
  | [], _, hlen => simp at hlen; omega
  | [_], _, hlen => simp at hlen; omega
  | [_, _], _, hlen => simp at hlen; omega
  | a :: b :: c :: t, h, _ =>
    simp only [List.cons_append] at h
    unfold closeTagK at h ⊢
    split at h
    · next c' t' heq =>
      simp only [List.cons.injEq] at heq
      obtain ⟨rfl, rfl, rfl, rfl⟩ := heq
      simp only
      split at h
      · next hc =>
        rw [if_pos hc]
        rcases dropWhile_append_cases isTagChar t x with ⟨a1, u1, e1, e1'⟩ | ⟨e1, e1'⟩
        · rw [e1'] at h
          rw [e1]
          have hcons : a1 :: (u1 ++ x) = (a1 :: u1) ++ x := rfl
          rw [hcons] at h
          rcases dropWhile_append_cases isWs (a1 :: u1) x with ⟨a2, u2, e2, e2'⟩ | ⟨e2, e2'⟩
          · rw [e2'] at h
            rw [e2]
            split at h
            · next r' heq2 =>
              simp only [List.cons.injEq] at heq2
              obtain ⟨rfl, rfl⟩ := heq2
              simp only [always, if_true, Option.some.injEq] at h
              exact ⟨u2, h.symm, by simp [always]⟩
            · cases h
          · rw [e2'] at h
            split at h
            · next r' heq2 =>
              simp only [always, if_true, Option.some.injEq] at h; subst h
              have := length_dropWhile_le isWs x
              rw [heq2] at this; simp at this; omega
            · cases h
        · rw [e1'] at h
          split at h
          · next r' heq2 =>
            simp only [always, if_true, Option.some.injEq] at h; subst h
            have h1 := length_dropWhile_le isWs (x.dropWhile isTagChar)
            have h2 := length_dropWhile_le isTagChar x
            rw [heq2] at h1; simp at h1; omega
          · cases h
      · cases h
    · cases h

/-! ## the declaration `<![A-Z]+\s+[^>]*>` (behind `<!`) -/

theorem declRest_lt {s r : List Char} (h : declRest s = some r) : r.length < s.length := by
  obtain ⟨mid, hm⟩ := declRest_suffix h
  cases mid with
  | nil =>
    -- the match is not empty
    exfalso
    simp only [List.nil_append] at hm; subst hm
    unfold declRest at h
    split at h
    · cases h
    · next c t =>
      split at h
      · split at h
        · next w r' hd =>
          split at h
          · split at h
            · next y r'' hd2 =>
              simp only [Option.some.injEq] at h
              have h1 := length_dropWhile_le isUpper t
              have h2 := length_dropWhile_le (· != '>') r'
              rw [hd] at h1; rw [hd2] at h2
              have := congrArg List.length h
              simp at h1 h2 this; omega
            · cases h
          · cases h
        · cases h
      · cases h
  | cons a m => rw [hm]; simp; omega

theorem declRest_ext : Ext declRest := by
  intro w x r h
  unfold declRest at h
  split at h
  · cases h
  · next c t =>
    simp only [List.cons_append, declRest]
    split at h
    · next hc =>
      rw [if_pos hc]
      split at h
      · next ws r' hd =>
        rw [dropWhile_append_cons hd]
        simp only
        split at h
        · next hws =>
          rw [if_pos hws]
          split at h
          · next y r'' hd2 =>
            simp only [Option.some.injEq] at h; subst h
            rw [dropWhile_append_cons hd2]
          · cases h
        · cases h
      · cases h
    · cases h

theorem declRest_shr : Shr declRest := by
  intro w x r0 h hl
  cases w with
  | nil =>
    have := declRest_lt h
    simp at this; omega
  | cons c t =>
    simp only [List.cons_append] at h
    unfold declRest at h ⊢
    simp only at h ⊢
    split at h
    · next hc =>
      rw [if_pos hc]
      rcases dropWhile_append_cases isUpper t x with ⟨a1, u1, e1, e1'⟩ | ⟨e1, e1'⟩
      · rw [e1'] at h
        rw [e1]
        simp only at h ⊢
        split at h
        · next hws =>
          rw [if_pos hws]
          rcases dropWhile_append_cases (· != '>') u1 x with ⟨a2, u2, e2, e2'⟩ | ⟨e2, e2'⟩
          · rw [e2'] at h
            rw [e2]
            simp only [Option.some.injEq] at h
            exact ⟨u2, h.symm, rfl⟩
          · rw [e2'] at h
            split at h
            · next y r'' hd2 =>
              simp only [Option.some.injEq] at h; subst h
              have := length_dropWhile_le (· != '>') x
              rw [hd2] at this; simp at this; omega
            · cases h
        · cases h
      · rw [e1'] at h
        split at h
        · next ws r' hd =>
          split at h
          · split at h
            · next y r'' hd2 =>
              simp only [Option.some.injEq] at h; subst h
              have h1 := length_dropWhile_le isUpper x
              have h2 := length_dropWhile_le (· != '>') r'
              rw [hd] at h1; rw [hd2] at h2; simp at h1 h2; omega
            · cases h
          · cases h
        · cases h
    · cases h

/-! ## the comment body `(?:-?[^-])*-->` -/

theorem commentBody_lt_aux : ∀ (n : Nat) (s r : List Char), s.length ≤ n → commentBody s = some r →
    r.length < s.length := by
  intro n
  induction n with
  | zero => intro s r hl h; cases s <;> simp [commentBody] at h hl
  | succ n ih =>
    intro s r hl h
    unfold commentBody at h
    split at h
    · cases h
    · next c t =>
      split at h
      · split at h
        · cases h
        · next d t' =>
          split at h
          · split at h
            · simp only [Option.some.injEq] at h; subst h; simp; omega
            · cases h
          · have := ih t' r (by simp at hl; omega) h; simp; omega
      · have := ih t r (by simp at hl; omega) h; simp; omega

theorem commentBody_lt {s r : List Char} (h : commentBody s = some r) : r.length < s.length :=
  commentBody_lt_aux _ _ _ (Nat.le_refl _) h

theorem commentBody_ext_aux : ∀ (n : Nat) (w x r : List Char), w.length ≤ n → commentBody w = some r →
    commentBody (w ++ x) = some (r ++ x) := by
  intro n
  induction n with
  | zero => intro w x r hl h; cases w <;> simp [commentBody] at h hl
  | succ n ih =>
    intro w x r hl h
    unfold commentBody at h
    split at h
    · cases h
    · next c t =>
      simp only [List.cons_append]
      unfold commentBody
      split at h
      · next hc =>
        rw [if_pos hc]
        split at h
        · cases h
        · next d t' =>
          simp only [List.cons_append]
          split at h
          · next hd =>
            rw [if_pos hd]
            split at h
            · next r'' =>
              simp only [Option.some.injEq] at h; subst h
              simp
            · cases h
          · next hd =>
            rw [if_neg hd]
            exact ih t' x r (by simp at hl; omega) h
      · next hc =>
        rw [if_neg hc]
        exact ih t x r (by simp at hl; omega) h

theorem commentBody_ext : Ext commentBody := fun w x r h => commentBody_ext_aux _ w x r (Nat.le_refl _) h

theorem commentBody_shr_aux : ∀ (n : Nat) (w x r0 : List Char), w.length ≤ n →
    commentBody (w ++ x) = some r0 → x.length ≤ r0.length → ∃ r, r0 = r ++ x ∧ commentBody w = some r := by
  intro n
  induction n with
  | zero =>
    intro w x r0 hl h hx
    have hw : w = [] := List.eq_nil_of_length_eq_zero (by omega)
    subst hw
    have := commentBody_lt h; simp at this; omega
  | succ n ih =>
    intro w x r0 hl h hx
    cases w with
    | nil => have := commentBody_lt h; simp at this; omega
    | cons c t =>
      simp only [List.cons_append] at h
      unfold commentBody at h ⊢
      split at h
      · next hc =>
        rw [if_pos hc]
        cases t with
        | nil =>
          -- the dash is the last character of the smaller window: the match ends behind it
          exfalso
          simp only [List.nil_append] at h
          split at h
          · cases h
          · next d t' =>
            split at h
            · split at h
              · simp only [Option.some.injEq] at h; subst h; simp at hx; omega
              · cases h
            · have := commentBody_lt h; simp at hx; omega
        | cons d t' =>
          simp only [List.cons_append] at h ⊢
          split at h
          · next hd =>
            rw [if_pos hd]
            cases t' with
            | nil =>
              exfalso
              simp only [List.nil_append] at h
              split at h
              · simp only [Option.some.injEq] at h; subst h; simp at hx; omega
              · cases h
            | cons e t'' =>
              simp only [List.cons_append] at h ⊢
              split at h
              · next r'' heq =>
                simp only [List.cons.injEq] at heq
                obtain ⟨rfl, rfl⟩ := heq
                simp only [Option.some.injEq] at h
                exact ⟨t'', h.symm, rfl⟩
              · cases h
          · next hd =>
            rw [if_neg hd]
            exact ih t' x r0 (by simp at hl; omega) h hx
      · next hc =>
        rw [if_neg hc]
        exact ih t x r0 (by simp at hl; omega) h hx

theorem commentBody_shr : Shr commentBody := fun w x r0 h hx => commentBody_shr_aux _ w x r0 (Nat.le_refl _) h hx

/-! ## the comment behind `<!--` -/

theorem commentRest_lt {s r : List Char} (h : commentRest s = some r) : r.length < s.length := by
  unfold commentRest at h
  split at h
  · simp only [Option.some.injEq] at h; subst h; simp; omega
  · split at h
    · cases h
    · next c t =>
      split at h
      · split at h
        · cases h
        · next d t' =>
          split at h
          · have := commentBody_lt h; simp; omega
          · cases h
      · split at h
        · have := commentBody_lt h; simp; omega
        · cases h

theorem commentRest_ext : Ext commentRest := by
  intro w x r h
  unfold commentRest at h
  split at h
  · next r' => simp only [Option.some.injEq] at h; subst h; simp [commentRest]
  · next hno =>
    split at h
    · cases h
    · next c t =>
      split at h
      · next hc =>
        subst hc
        split at h
        · cases h
        · next d t' =>
          split at h
          · next hd =>
            have hb := commentBody_ext _ x _ h
            unfold commentRest
            split
            · next r'' heq =>
              simp only [List.cons_append, List.cons.injEq, true_and] at heq
              exact absurd heq.1 hd.2
            · simp only [List.cons_append, if_true]
              rw [if_pos hd]; exact hb
          · cases h
      · next hc =>
        split at h
        · next hc2 =>
          have hb := commentBody_ext _ x _ h
          unfold commentRest
          split
          · next r'' heq =>
            simp only [List.cons_append, List.cons.injEq] at heq
            exact absurd heq.1 hc
          · simp only [List.cons_append]
            rw [if_neg hc, if_pos hc2]; exact hb
        · cases h

theorem commentRest_shr : Shr commentRest := by
  intro w x r0 h hx
  cases w with
  | nil => have := commentRest_lt h; simp at this; omega
  | cons c t =>
    simp only [List.cons_append] at h
    unfold commentRest at h
    split at h
    · next r' heq =>
      simp only [Option.some.injEq] at h; subst h
      simp only [List.cons.injEq] at heq
      obtain ⟨rfl, heq⟩ := heq
      match t, heq with
      | [], heq => simp only [List.nil_append] at heq; subst heq; simp at hx; omega
      | [d], heq =>
        simp only [List.cons_append, List.nil_append, List.cons.injEq] at heq
        obtain ⟨_, heq⟩ := heq; subst heq; simp at hx; omega
      | d :: e :: t'', heq =>
        simp only [List.cons_append, List.cons.injEq] at heq
        obtain ⟨rfl, rfl, rfl⟩ := heq
        exact ⟨t'', rfl, by simp [commentRest]⟩
    · next hno =>
      simp only at h
      split at h
      · next hc =>
        subst hc
        cases t with
        | nil =>
          exfalso
          simp only [List.nil_append] at h
          split at h
          · cases h
          · next d t' =>
            split at h
            · have := commentBody_lt h; simp at hx; omega
            · cases h
        | cons d t' =>
          simp only [List.cons_append] at h
          split at h
          · next hd =>
            obtain ⟨r, hr, hw⟩ := commentBody_shr _ x r0 h hx
            refine ⟨r, hr, ?_⟩
            unfold commentRest
            split
            · next r'' heq =>
              simp only [List.cons.injEq, true_and] at heq
              exact absurd heq.1 hd.2
            · simp only [if_true]
              rw [if_pos hd]; exact hw
          · cases h
      · next hc =>
        split at h
        · next hc2 =>
          obtain ⟨r, hr, hw⟩ := commentBody_shr _ x r0 h hx
          refine ⟨r, hr, ?_⟩
          unfold commentRest
          split
          · next r'' heq =>
            simp only [List.cons.injEq] at heq
            exact absurd heq.1 hc
          · simp only
            rw [if_neg hc, if_pos hc2]; exact hw
        · cases h

/-! ## the four alternatives that start with `<!` or `<?` -/

theorem split_prefix {w x p s : List Char} (h : w ++ x = p ++ s) (hl : x.length ≤ s.length) :
    ∃ w', w = p ++ w' ∧ s = w' ++ x := by
  rcases List.append_eq_append_iff.mp h with ⟨a, hp, hx⟩ | ⟨c, hw, hs⟩
  · have ha : a = [] := by
      have := congrArg List.length hx; simp at this
      exact List.eq_nil_of_length_eq_zero (by omega)
    subst ha
    simp only [List.append_nil, List.nil_append] at hp hx
    exact ⟨[], by simp [hp], by simp [hx]⟩
  · exact ⟨c, hw, hs⟩

theorem declRest_head {s r : List Char} (h : declRest s = some r) : ∃ c t, s = c :: t ∧ isUpper c = true := by
  unfold declRest at h
  split at h
  · cases h
  · next c t =>
    split at h
    · next hc => exact ⟨c, t, rfl, hc⟩
    · cases h

theorem specialRest_decl {s r : List Char} (h : declRest s = some r) : specialRest ('<' :: '!' :: s) = some r := by
  obtain ⟨c, t, rfl, hc⟩ := declRest_head h
  unfold specialRest
  split
  · next r' heq =>
    simp only [List.cons.injEq, true_and] at heq
    rw [heq.1] at hc; simp [isUpper] at hc
  · next r' heq => simp at heq
  · next r' heq =>
    simp only [List.cons.injEq, true_and] at heq
    rw [heq.1] at hc; simp [isUpper] at hc
  · next r' heq =>
    simp only [List.cons.injEq, true_and] at heq
    rw [← heq]; exact h
  · next hno => exact absurd rfl (hno _)

theorem specialRest_ext : Ext specialRest := by
  intro w x r h
  unfold specialRest at h
  split at h
  · next r' => simp only [List.cons_append, specialRest]; exact commentRest_ext _ x _ h
  · next r' => simp only [List.cons_append, specialRest]; exact findSub_ext _ _ x _ h
  · next r' => simp only [List.cons_append, specialRest]; exact findSub_ext _ _ x _ h
  · next r' =>
    simp only [List.cons_append]
    exact specialRest_decl (declRest_ext _ x _ h)
  · cases h

theorem specialRest_shr : Shr specialRest := by
  intro w x r0 h hx
  unfold specialRest at h
  split at h
  · next r' heq =>
    have hlt := commentRest_lt h
    obtain ⟨w', rfl, rfl⟩ := split_prefix (p := ['<', '!', '-', '-']) (s := r') heq (by omega)
    obtain ⟨r, hr, hw⟩ := commentRest_shr _ x r0 h hx
    exact ⟨r, hr, by simp only [List.cons_append, List.nil_append, specialRest]; exact hw⟩
  · next r' heq =>
    have hlt : r0.length ≤ r'.length := by
      obtain ⟨pre, hpre⟩ := findSub_suffix h
      have := congrArg List.length hpre; simp at this; omega
    obtain ⟨w', rfl, rfl⟩ := split_prefix (p := ['<', '?']) (s := r') heq (by omega)
    obtain ⟨r, hr, hw⟩ := findSub_shr _ _ x r0 h hx
    exact ⟨r, hr, by simp only [List.cons_append, List.nil_append, specialRest]; exact hw⟩
  · next r' heq =>
    have hlt : r0.length ≤ r'.length := by
      obtain ⟨pre, hpre⟩ := findSub_suffix h
      have := congrArg List.length hpre; simp at this; omega
    obtain ⟨w', rfl, rfl⟩ := split_prefix (p := ['<', '!', '[', 'C', 'D', 'A', 'T', 'A', '[']) (s := r') heq (by omega)
    obtain ⟨r, hr, hw⟩ := findSub_shr _ _ x r0 h hx
    exact ⟨r, hr, by simp only [List.cons_append, List.nil_append, specialRest]; exact hw⟩
  · next r' _ _ heq =>
    have hlt := declRest_lt h
    obtain ⟨w', rfl, rfl⟩ := split_prefix (p := ['<', '!']) (s := r') heq (by omega)
    obtain ⟨r, hr, hw⟩ := declRest_shr _ x r0 h hx
    exact ⟨r, hr, specialRest_decl hw⟩
  · cases h

/-! ## the whole matcher on windows that do not start an open tag -/

theorem closeTagK_head {k : List Char → Bool} {s r : List Char} (h : closeTagK k s = some r) :
    ∃ t, s = '<' :: '/' :: t := by
  unfold closeTagK at h
  split at h
  · next c t => exact ⟨_, rfl⟩
  · cases h

theorem specialRest_head {s r : List Char} (h : specialRest s = some r) :
    ∃ c t, s = '<' :: c :: t ∧ (c = '!' ∨ c = '?') := by
  unfold specialRest at h
  split at h
  · exact ⟨_, _, rfl, .inl rfl⟩
  · exact ⟨_, _, rfl, .inr rfl⟩
  · exact ⟨_, _, rfl, .inl rfl⟩
  · exact ⟨_, _, rfl, .inl rfl⟩
  · cases h

theorem openTagK_second {k : List Char → Bool} {c : Char} {t : List Char} (h : isAlpha c = false) :
    openTagK k ('<' :: c :: t) = none := by
  simp [openTagK, h]

theorem closeTagK_second {k : List Char → Bool} {c : Char} {t : List Char} (h : c ≠ '/') :
    closeTagK k ('<' :: c :: t) = none := by
  unfold closeTagK
  split
  · next c' t' heq => simp only [List.cons.injEq, true_and] at heq; exact absurd heq.1 h
  · rfl

/-- **Ext, every alternative but the open tag**: a match of the close tag / comment / processing
    instruction / declaration / CDATA alternative under the smaller window is THE match of `HTML_TAG_RE`
    under every larger window — same extent -/
theorem tagRest_ext_nonopen {w x r : List Char} (hopen : openTagK always w = none)
    (h : tagRest w = some r) : tagRest (w ++ x) = some (r ++ x) := by
  unfold tagRest at h
  rw [hopen] at h
  simp only at h
  cases hc : closeTagK always w with
  | some r1 =>
    rw [hc] at h
    simp only [Option.some.injEq] at h; subst h
    obtain ⟨t, rfl⟩ := closeTagK_head hc
    have := closeTagK_ext _ x _ hc
    unfold tagRest
    rw [show ('<' :: '/' :: t) ++ x = '<' :: '/' :: (t ++ x) from rfl] at this ⊢
    rw [openTagK_second (by decide), this]
  | none =>
    rw [hc] at h
    simp only at h
    obtain ⟨c, t, rfl, hct⟩ := specialRest_head h
    have := specialRest_ext _ x _ h
    unfold tagRest
    rw [show ('<' :: c :: t) ++ x = '<' :: c :: (t ++ x) from rfl] at this ⊢
    rw [openTagK_second (by rcases hct with rfl | rfl <;> decide),
      closeTagK_second (by rcases hct with rfl | rfl <;> decide), this]

/-- **Shr, every alternative but the open tag**: a match under the larger window that is not an open tag and
    ends inside the smaller window is the match under the smaller window -/
theorem tagRest_shr_nonopen {w x r0 : List Char} (hopen : openTagK always (w ++ x) = none)
    (h : tagRest (w ++ x) = some r0) (hx : x.length ≤ r0.length) :
    ∃ r, r0 = r ++ x ∧ tagRest w = some r ∧ openTagK always w = none := by
  unfold tagRest at h
  rw [hopen] at h
  simp only at h
  cases hc : closeTagK always (w ++ x) with
  | some r1 =>
    rw [hc] at h
    simp only [Option.some.injEq] at h; subst h
    obtain ⟨r, hr, hw⟩ := closeTagK_shr w x _ hc hx
    obtain ⟨t, rfl⟩ := closeTagK_head hw
    have ho : openTagK always ('<' :: '/' :: t) = none := openTagK_second (by decide)
    exact ⟨r, hr, by unfold tagRest; rw [ho, hw], ho⟩
  | none =>
    rw [hc] at h
    simp only at h
    obtain ⟨r, hr, hw⟩ := specialRest_shr w x _ h hx
    obtain ⟨c, t, rfl, hct⟩ := specialRest_head hw
    have ho : openTagK always ('<' :: c :: t) = none :=
      openTagK_second (by rcases hct with rfl | rfl <;> decide)
    have hcl : closeTagK always ('<' :: c :: t) = none :=
      closeTagK_second (by rcases hct with rfl | rfl <;> decide)
    exact ⟨r, hr, by unfold tagRest; rw [ho, hcl, hw], ho⟩

/-! ## the open tag: candidate lists of the attribute backtracking under a larger window -/

theorem findSome_attach {α β : Type} (l : List α) (f : α → Option β) :
    l.attach.findSome? (fun ⟨r, _⟩ => f r) = l.findSome? f := by
  conv => rhs; rw [← List.attach_map_subtype_val l]
  rw [List.findSome?_map]
  rfl

/-- `attrsK` without the termination plumbing -/
theorem attrsK_eq (k : List Char → Bool) (s : List Char) :
    attrsK k s =
      match attrHead s with
      | none => closeK k s
      | some s2 =>
        match (valueEnds s2).findSome? (attrsK k) with
        | some r => some r
        | none =>
          match attrsK k s2 with
          | some r => some r
          | none => closeK k s := by
  rw [attrsK]
  simp only [findSome_attach]
  split <;> rename_i hh <;> split at hh
  · simp_all
  · rename_i s2 hs2
    rw [hs2]; dsimp only
    cases h1 : List.findSome? (attrsK k) (valueEnds s2) with
    | some r => rw [h1] at hh; dsimp only at hh ⊢; first | exact hh.symm | cases hh
    | none => rw [h1] at hh; dsimp only at hh ⊢; rw [hh]
  · simp_all
  · rename_i s2 hs2
    rw [hs2]; dsimp only
    cases h1 : List.findSome? (attrsK k) (valueEnds s2) with
    | some r => rw [h1] at hh; dsimp only at hh ⊢; first | exact hh.symm | cases hh
    | none => rw [h1] at hh; dsimp only at hh ⊢; rw [hh]

/-- `L'` is `L` with `x` appended to every member, plus inserted members no longer than `x`, order kept -/
inductive Emb (x : List Char) : List (List Char) → List (List Char) → Prop
  | nil : Emb x [] []
  | keep {a : List Char} {L L' : List (List Char)} : Emb x L L' → Emb x (a :: L) ((a ++ x) :: L')
  | extra {e : List Char} {L L' : List (List Char)} : e.length ≤ x.length → Emb x L L' → Emb x L (e :: L')

theorem Emb.append {x : List Char} {A A' B B' : List (List Char)} (h1 : Emb x A A') (h2 : Emb x B B') :
    Emb x (A ++ B) (A' ++ B') := by
  induction h1 with
  | nil => exact h2
  | keep _ ih => exact .keep ih
  | extra he _ ih => exact .extra he ih

theorem Emb.extras {x : List Char} : ∀ (E : List (List Char)), (∀ e ∈ E, e.length ≤ x.length) → Emb x [] E
  | [], _ => .nil
  | e :: E, h => .extra (h e List.mem_cons_self) (Emb.extras E (fun e' he' => h e' (List.mem_cons_of_mem _ he')))

theorem Emb.mem {x : List Char} {L L' : List (List Char)} (h : Emb x L L') {v : List Char} (hv : v ∈ L) :
    v ++ x ∈ L' := by
  induction h with
  | nil => cases hv
  | keep _ ih =>
    rcases List.mem_cons.mp hv with rfl | hv
    · exact List.mem_cons_self
    · exact List.mem_cons_of_mem _ (ih hv)
  | extra _ _ ih => exact List.mem_cons_of_mem _ (ih hv)

theorem Emb.flatMap {x : List Char} {g : List Char → List (List Char)}
    (hg : ∀ m, Emb x (g m) (g (m ++ x))) (hs : ∀ e : List Char, e.length ≤ x.length → Emb x [] (g e))
    {M M' : List (List Char)} (h : Emb x M M') : Emb x (M.flatMap g) (M'.flatMap g) := by
  induction h with
  | nil => exact .nil
  | keep _ ih => simp only [List.flatMap_cons]; exact (hg _).append ih
  | extra he _ ih =>
    simp only [List.flatMap_cons]
    have := (hs _ he).append ih
    simpa using this

theorem splits_last (p : Char → Bool) (x : List Char) :
    ∃ E, splits p x = E ++ [x] ∧ ∀ e ∈ E, e.length ≤ x.length := by
  cases x with
  | nil => exact ⟨[], rfl, by simp⟩
  | cons c r =>
    simp only [splits]
    split
    · exact ⟨splits p r, rfl, fun e he => by have := mem_splits_le he; simp; omega⟩
    · exact ⟨[], rfl, by simp⟩

theorem splits_emb (p : Char → Bool) (x : List Char) : ∀ t, Emb x (splits p t) (splits p (t ++ x))
  | [] => by
    obtain ⟨E, hE, hs⟩ := splits_last p x
    simp only [List.nil_append, splits, hE]
    have := (Emb.extras E hs).append (Emb.keep (a := []) Emb.nil)
    simpa using this
  | c :: r => by
    simp only [List.cons_append, splits]
    split
    · exact (splits_emb p x r).append (Emb.keep (a := c :: r) Emb.nil)
    · exact Emb.keep (a := c :: r) Emb.nil

theorem mem_quotedEnd_lt {q : Char} {x v : List Char} (hv : v ∈ quotedEnd q x) : v.length < x.length := by
  unfold quotedEnd at hv
  split at hv
  · next y r'' hd =>
    simp only [List.mem_singleton] at hv; subst hv
    have := length_dropWhile_le (· != q) x
    rw [hd] at this; simp at this; omega
  · cases hv

theorem quotedEnd_emb (q : Char) (r x : List Char) : Emb x (quotedEnd q r) (quotedEnd q (r ++ x)) := by
  rcases dropWhile_append_cases (· != q) r x with ⟨c, r', e1, e2⟩ | ⟨e1, e2⟩
  · unfold quotedEnd
    rw [e1, e2]; exact Emb.keep Emb.nil
  · have h1 : quotedEnd q r = [] := by unfold quotedEnd; rw [e1]
    have h2 : quotedEnd q (r ++ x) = quotedEnd q x := by unfold quotedEnd; rw [e2]
    rw [h1, h2]
    exact Emb.extras _ (fun v hv => by have := mem_quotedEnd_lt hv; omega)

theorem valueAt_short {x e : List Char} (he : e.length ≤ x.length) : Emb x [] (valueAt e) :=
  Emb.extras _ (fun v hv => by have := mem_valueAt_lt hv; omega)

theorem valueAt_emb (x : List Char) : ∀ m, Emb x (valueAt m) (valueAt (m ++ x))
  | [] => by
    simp only [List.nil_append]
    exact Emb.extras _ (fun v hv => by have := mem_valueAt_lt hv; omega)
  | c :: r => by
    simp only [List.cons_append, valueAt]
    split
    · exact splits_emb _ x r
    · split
      · exact quotedEnd_emb _ r x
      · split
        · exact quotedEnd_emb _ r x
        · exact Emb.nil

theorem valueEnds_emb (s x : List Char) : Emb x (valueEnds s) (valueEnds (s ++ x)) := by
  rcases dropWhile_append_cases isWs s x with ⟨c, r, e1, e2⟩ | ⟨e1, e2⟩
  · unfold valueEnds
    rw [e1, e2]
    simp only
    split
    · exact Emb.flatMap (valueAt_emb x) (fun e he => valueAt_short he) (splits_emb isWs x r)
    · exact Emb.nil
  · have h1 : valueEnds s = [] := by unfold valueEnds; rw [e1]
    have h2 : valueEnds (s ++ x) = valueEnds x := by unfold valueEnds; rw [e2]
    rw [h1, h2]
    exact Emb.extras _ (fun v hv => by have := mem_valueEnds_lt hv; omega)

/-! ## the open tag: `closeK`, and the induction over `attrsK` -/

theorem closeK_ext : Ext (closeK always) := by
  intro w x r h
  unfold closeK at h ⊢
  split at h
  · next r' hd =>
    simp only [always, if_true, Option.some.injEq] at h; subst h
    rw [dropWhile_append_cons hd]; simp [always]
  · next r' hd =>
    simp only [always, if_true, Option.some.injEq] at h; subst h
    rw [dropWhile_append_cons hd]; simp [always]
  · cases h

theorem closeK_lt {s r : List Char} (h : closeK always s = some r) : r.length < s.length :=
  (closeK_spec h).2.1

theorem closeK_shr : Shr (closeK always) := by
  intro w x r0 h hx
  rcases dropWhile_append_cases isWs w x with ⟨c, u, e1, e2⟩ | ⟨e1, e2⟩
  · unfold closeK at h ⊢
    rw [e2] at h
    rw [e1]
    split at h
    · next r' heq =>
      simp only [List.cons.injEq] at heq
      obtain ⟨rfl, rfl⟩ := heq
      simp only [always, if_true, Option.some.injEq] at h
      exact ⟨u, h.symm, by simp [always]⟩
    · next r' heq =>
      simp only [List.cons.injEq] at heq
      obtain ⟨rfl, heq⟩ := heq
      simp only [always, if_true, Option.some.injEq] at h; subst h
      cases u with
      | nil => simp only [List.nil_append] at heq; subst heq; simp at hx; omega
      | cons d u' =>
        simp only [List.cons_append, List.cons.injEq] at heq
        obtain ⟨rfl, rfl⟩ := heq
        exact ⟨u', rfl, by simp [always]⟩
    · cases h
  · exfalso
    have hh : closeK always (w ++ x) = closeK always x := by unfold closeK; rw [e2]
    rw [hh] at h
    have := closeK_lt h; omega

abbrev A := attrsK always

theorem A_lt {s r : List Char} (h : A s = some r) : r.length < s.length :=
  (attrsK_spec always _ _ _ (Nat.le_refl _) h).2.1

/-- every way `A y` can succeed gives a result shorter than `B` -/
theorem A_bound {y r0 : List Char} {B : Nat} (h : A y = some r0)
    (h1 : ∀ s2, attrHead y = some s2 → s2.length ≤ B)
    (h2 : ∀ r, closeK always y = some r → r.length < B) : r0.length < B := by
  unfold A at h
  rw [attrsK_eq] at h
  cases ha : attrHead y with
  | none => rw [ha] at h; exact h2 _ h
  | some s2 =>
    rw [ha] at h
    dsimp only at h
    have hb := h1 s2 ha
    cases hf : List.findSome? (attrsK always) (valueEnds s2) with
    | some r =>
      rw [hf] at h; dsimp only at h
      simp only [Option.some.injEq] at h; subst h
      obtain ⟨v, hv, hav⟩ := List.exists_of_findSome?_eq_some hf
      have := A_lt hav; have := mem_valueEnds_lt hv; omega
    | none =>
      rw [hf] at h; dsimp only at h
      cases hs : attrsK always s2 with
      | some r =>
        rw [hs] at h; simp only [Option.some.injEq] at h; subst h
        have := A_lt hs; omega
      | none => rw [hs] at h; exact h2 _ h

theorem emb_findSome_some {x : List Char} {L L' : List (List Char)} (h : Emb x L L')
    (hE : ∀ v ∈ L, (A v).isSome = true → (A (v ++ x)).isSome = true)
    (hs : (L.findSome? A).isSome = true) : (L'.findSome? A).isSome = true := by
  rw [List.findSome?_isSome_iff] at hs ⊢
  obtain ⟨v, hv, hav⟩ := hs
  exact ⟨v ++ x, h.mem hv, hE v hv hav⟩

theorem emb_findSome_shr {x : List Char} {L L' : List (List Char)} (h : Emb x L L') :
    (∀ v ∈ L, (A v).isSome = true → (A (v ++ x)).isSome = true) →
    (∀ v ∈ L, ∀ r0, A (v ++ x) = some r0 → x.length ≤ r0.length → ∃ r, r0 = r ++ x ∧ A v = some r) →
    ∀ r0, L'.findSome? A = some r0 → x.length ≤ r0.length →
      ∃ r, r0 = r ++ x ∧ L.findSome? A = some r := by
  induction h with
  | nil => intro _ _ r0 h; simp at h
  | @keep a L L' _ ih =>
    intro hE hS r0 hf hx
    simp only [List.findSome?_cons] at hf ⊢
    cases hax : A (a ++ x) with
    | some r1 =>
      rw [hax] at hf; simp only [Option.some.injEq] at hf; subst hf
      obtain ⟨r, hr, har⟩ := hS a List.mem_cons_self _ hax hx
      exact ⟨r, hr, by rw [har]⟩
    | none =>
      rw [hax] at hf; dsimp only at hf
      have ha : A a = none := by
        cases haa : A a with
        | none => rfl
        | some r =>
          have := hE a List.mem_cons_self (by rw [haa]; rfl)
          rw [hax] at this; cases this
      rw [ha]
      exact ih (fun v hv => hE v (List.mem_cons_of_mem _ hv)) (fun v hv => hS v (List.mem_cons_of_mem _ hv))
        r0 hf hx
  | @extra e L L' he _ ih =>
    intro hE hS r0 hf hx
    simp only [List.findSome?_cons] at hf
    cases hae : A e with
    | some r1 =>
      rw [hae] at hf; simp only [Option.some.injEq] at hf; subst hf
      have := A_lt hae; omega
    | none =>
      rw [hae] at hf; dsimp only at hf
      exact ih hE hS r0 hf hx

/-- the two facts, for all windows of length `≤ n` -/
def PA (n : Nat) : Prop :=
  ∀ w x : List Char, w.length ≤ n →
    ((A w).isSome = true → (A (w ++ x)).isSome = true) ∧
    (∀ r0, A (w ++ x) = some r0 → x.length ≤ r0.length → ∃ r, r0 = r ++ x ∧ A w = some r)

/-- when both windows have no attribute head, `A` is `closeK` -/
theorem PA_close {w x : List Char} (h1 : attrHead w = none) (h2 : attrHead (w ++ x) = none) :
    ((A w).isSome = true → (A (w ++ x)).isSome = true) ∧
    (∀ r0, A (w ++ x) = some r0 → x.length ≤ r0.length → ∃ r, r0 = r ++ x ∧ A w = some r) := by
  have e1 : A w = closeK always w := by unfold A; rw [attrsK_eq, h1]
  have e2 : A (w ++ x) = closeK always (w ++ x) := by unfold A; rw [attrsK_eq, h2]
  rw [e1, e2]
  refine ⟨fun h => ?_, fun r0 h hx => closeK_shr w x r0 h hx⟩
  cases hc : closeK always w with
  | none => rw [hc] at h; cases h
  | some r => rw [closeK_ext w x r hc]; rfl

/-- when the smaller window cannot match and every match of the larger one is short -/
theorem PA_vacuous {w x : List Char} (h1 : A w = none) (h2 : ∀ r0, A (w ++ x) = some r0 → r0.length < x.length) :
    ((A w).isSome = true → (A (w ++ x)).isSome = true) ∧
    (∀ r0, A (w ++ x) = some r0 → x.length ≤ r0.length → ∃ r, r0 = r ++ x ∧ A w = some r) := by
  refine ⟨fun h => (by rw [h1] at h; cases h), fun r0 h hx => ?_⟩
  have := h2 r0 h; omega

theorem PA_all : ∀ n, PA n := by
  intro n
  induction n with
  | zero =>
    intro w x hw
    have : w = [] := List.eq_nil_of_length_eq_zero (by omega)
    subst this
    apply PA_vacuous
    · unfold A; rw [attrsK_eq]; simp [attrHead, closeK]
    · intro r0 h; simp only [List.nil_append] at h; exact A_lt h
  | succ n ih =>
    intro w x hw
    cases w with
    | nil =>
      apply PA_vacuous
      · unfold A; rw [attrsK_eq]; simp [attrHead, closeK]
      · intro r0 h; simp only [List.nil_append] at h; exact A_lt h
    | cons c t =>
      by_cases hc : isWs c = true
      rotate_left
      · exact PA_close (by simp [attrHead, hc]) (by simp [attrHead, hc])
      rcases dropWhile_append_cases isWs t x with ⟨c1, t1, e1, e1'⟩ | ⟨e1, e1'⟩
      · by_cases hc1 : isAttrStart c1 = true
        rotate_left
        · exact PA_close (by simp [attrHead, hc, e1, hc1]) (by simp [attrHead, hc, e1', hc1])
        rcases dropWhile_append_cases isAttrChar t1 x with ⟨c2, t2, e2, e2'⟩ | ⟨e2, e2'⟩
        · -- the main case: an attribute head that ends inside the smaller window
          have hh1 : attrHead (c :: t) = some (c2 :: t2) := by simp [attrHead, hc, e1, hc1, e2]
          have hh2 : attrHead ((c :: t) ++ x) = some ((c2 :: t2) ++ x) := by
            simp [attrHead, hc, e1', hc1, e2']
          have hlen : (c2 :: t2).length ≤ n := by
            have h1 := length_dropWhile_le isWs t
            have h2 := length_dropWhile_le isAttrChar t1
            rw [e1] at h1; rw [e2] at h2; simp at h1 h2 hw ⊢; omega
          have hemb := valueEnds_emb (c2 :: t2) x
          have hmem : ∀ v ∈ valueEnds (c2 :: t2), v.length ≤ n := fun v hv => by
            have := mem_valueEnds_lt hv; omega
          have hE : ∀ v ∈ valueEnds (c2 :: t2), (A v).isSome = true → (A (v ++ x)).isSome = true :=
            fun v hv => (ih v x (hmem v hv)).1
          have hS : ∀ v ∈ valueEnds (c2 :: t2), ∀ r0, A (v ++ x) = some r0 → x.length ≤ r0.length →
              ∃ r, r0 = r ++ x ∧ A v = some r := fun v hv => (ih v x (hmem v hv)).2
          have ihs := ih (c2 :: t2) x hlen
          have ew : A (c :: t) = (match (valueEnds (c2 :: t2)).findSome? A with
              | some r => some r
              | none => match A (c2 :: t2) with
                | some r => some r
                | none => closeK always (c :: t)) := by
            unfold A; rw [attrsK_eq, hh1]
          have ex : A ((c :: t) ++ x) = (match (valueEnds ((c2 :: t2) ++ x)).findSome? A with
              | some r => some r
              | none => match A ((c2 :: t2) ++ x) with
                | some r => some r
                | none => closeK always ((c :: t) ++ x)) := by
            unfold A; rw [attrsK_eq, hh2]
          rw [ew, ex]
          constructor
          · intro h
            cases hf : (valueEnds (c2 :: t2)).findSome? A with
            | some r =>
              have := emb_findSome_some hemb hE (by rw [hf]; rfl)
              cases hf' : (valueEnds ((c2 :: t2) ++ x)).findSome? A with
              | none => rw [hf'] at this; cases this
              | some r' => rfl
            | none =>
              rw [hf] at h; dsimp only at h
              cases hf' : (valueEnds ((c2 :: t2) ++ x)).findSome? A with
              | some r' => rfl
              | none =>
                dsimp only
                cases hs2 : A (c2 :: t2) with
                | some r =>
                  have := ihs.1 (by rw [hs2]; rfl)
                  cases hs2' : A ((c2 :: t2) ++ x) with
                  | none => rw [hs2'] at this; cases this
                  | some r' => rfl
                | none =>
                  rw [hs2] at h; dsimp only at h
                  cases hs2' : A ((c2 :: t2) ++ x) with
                  | some r' => rfl
                  | none =>
                    dsimp only
                    cases hcl : closeK always (c :: t) with
                    | none => rw [hcl] at h; cases h
                    | some r => rw [closeK_ext _ x r hcl]; rfl
          · intro r0 h hx
            cases hf' : (valueEnds ((c2 :: t2) ++ x)).findSome? A with
            | some r' =>
              rw [hf'] at h; simp only [Option.some.injEq] at h; subst h
              obtain ⟨r, hr, hfr⟩ := emb_findSome_shr hemb hE hS _ hf' hx
              exact ⟨r, hr, by rw [hfr]⟩
            | none =>
              rw [hf'] at h; dsimp only at h
              have hf : (valueEnds (c2 :: t2)).findSome? A = none := by
                cases hf : (valueEnds (c2 :: t2)).findSome? A with
                | none => rfl
                | some r =>
                  have := emb_findSome_some hemb hE (by rw [hf]; rfl)
                  rw [hf'] at this; cases this
              rw [hf]; dsimp only
              cases hs2' : A ((c2 :: t2) ++ x) with
              | some r' =>
                rw [hs2'] at h; simp only [Option.some.injEq] at h; subst h
                obtain ⟨r, hr, har⟩ := ihs.2 _ hs2' hx
                exact ⟨r, hr, by rw [har]⟩
              | none =>
                rw [hs2'] at h; dsimp only at h
                have hs2 : A (c2 :: t2) = none := by
                  cases hs2 : A (c2 :: t2) with
                  | none => rfl
                  | some r =>
                    have := ihs.1 (by rw [hs2]; rfl)
                    rw [hs2'] at this; cases this
                rw [hs2]; dsimp only
                exact closeK_shr _ x r0 h hx
        · -- the attribute name runs to the end of the smaller window
          apply PA_vacuous
          · have hh1 : attrHead (c :: t) = some [] := by simp [attrHead, hc, e1, hc1, e2]
            have hcl : closeK always (c :: t) = none := by
              unfold closeK
              have : (c :: t).dropWhile isWs = c1 :: t1 := by simp [hc, e1]
              rw [this]
              split
              · next r heq => simp only [List.cons.injEq] at heq; rw [heq.1] at hc1; exact absurd hc1 (by decide)
              · next r heq => simp only [List.cons.injEq] at heq; rw [heq.1] at hc1; exact absurd hc1 (by decide)
              · rfl
            unfold A; rw [attrsK_eq, hh1]
            have hv : valueEnds [] = [] := by simp [valueEnds]
            have hA0 : attrsK always [] = none := by rw [attrsK_eq]; simp [attrHead, closeK]
            simp only [hv, List.findSome?_nil, hA0, hcl]
          · intro r0 h
            apply A_bound h
            · intro s2 hs2
              have : attrHead ((c :: t) ++ x) = some (x.dropWhile isAttrChar) := by
                simp [attrHead, hc, e1', hc1, e2']
              rw [this] at hs2; simp only [Option.some.injEq] at hs2; subst hs2
              exact length_dropWhile_le _ _
            · intro r hr
              exfalso
              unfold closeK at hr
              have : ((c :: t) ++ x).dropWhile isWs = c1 :: (t1 ++ x) := by
                simp [hc, e1']
              rw [this] at hr
              split at hr
              · next r' heq => simp only [List.cons.injEq] at heq; rw [heq.1] at hc1; exact absurd hc1 (by decide)
              · next r' heq => simp only [List.cons.injEq] at heq; rw [heq.1] at hc1; exact absurd hc1 (by decide)
              · cases hr
      · -- the smaller window is white space only
        apply PA_vacuous
        · have hh1 : attrHead (c :: t) = none := by simp [attrHead, hc, e1]
          unfold A; rw [attrsK_eq, hh1]
          unfold closeK
          have : (c :: t).dropWhile isWs = [] := by simp [hc, e1]
          rw [this]
        · intro r0 h
          have hd : ((c :: t) ++ x).dropWhile isWs = x.dropWhile isWs := by
            simp [hc, e1']
          apply A_bound h
          · intro s2 hs2
            simp only [List.cons_append, attrHead, hc, if_true, e1'] at hs2
            split at hs2
            · next c1 r' hd1 =>
              split at hs2
              · simp only [Option.some.injEq] at hs2; subst hs2
                have h1 := length_dropWhile_le isWs x
                have h2 := length_dropWhile_le isAttrChar r'
                rw [hd1] at h1; simp at h1; omega
              · cases hs2
            · cases hs2
          · intro r hr
            have hh : closeK always ((c :: t) ++ x) = closeK always x := by unfold closeK; rw [hd]
            rw [hh] at hr
            exact closeK_lt hr

/-! ## in terms of `tagMatch`-style extents (characters) -/

/-- the extent of the match in characters -/
def extent (s : List Char) : Option Nat := (tagRest s).map (fun r => s.length - r.length)

theorem extent_ext_nonopen {w x : List Char} {n : Nat} (hopen : openTagK always w = none)
    (h : extent w = some n) : extent (w ++ x) = some n := by
  unfold extent at h ⊢
  cases hr : tagRest w with
  | none => rw [hr] at h; cases h
  | some r =>
    rw [hr] at h
    rw [tagRest_ext_nonopen hopen hr]
    simp only [Option.map_some, Option.some.injEq, List.length_append] at h ⊢
    omega

theorem extent_shr_nonopen {w x : List Char} {n : Nat} (hopen : openTagK always (w ++ x) = none)
    (h : extent (w ++ x) = some n) (hn : n ≤ w.length) : extent w = some n := by
  unfold extent at h ⊢
  cases hr : tagRest (w ++ x) with
  | none => rw [hr] at h; cases h
  | some r0 =>
    rw [hr] at h
    simp only [Option.map_some, Option.some.injEq, List.length_append] at h
    obtain ⟨mid, hm⟩ := tagRest_spec hr
    have hl : r0.length ≤ w.length + x.length := by
      have := congrArg List.length hm; simp at this; omega
    obtain ⟨r, hr0, hw, _⟩ := tagRest_shr_nonopen hopen hr (by omega)
    rw [hw]
    subst hr0
    simp only [Option.map_some, Option.some.injEq, List.length_append] at h ⊢
    omega

/-! ## the open tag and the whole `HTML_TAG_RE` -/

/-- **the open tag, weak (E)**: a match under the smaller window ⇒ some match under the larger window -/
theorem openTagK_ext_weak {w x r : List Char} (h : openTagK always w = some r) :
    (openTagK always (w ++ x)).isSome = true := by
  unfold openTagK at h
  split at h
  · next c t =>
    split at h
    · next hc =>
      simp only [List.cons_append, openTagK, hc, if_true]
      rcases dropWhile_append_cases isTagChar t x with ⟨c1, t1, e1, e1'⟩ | ⟨e1, e1'⟩
      · rw [e1] at h; rw [e1']
        exact (PA_all _ (c1 :: t1) x (Nat.le_refl _)).1 (by show (A (c1 :: t1)).isSome = true; unfold A; rw [h]; rfl)
      · rw [e1] at h
        have : attrsK always [] = none := by rw [attrsK_eq]; simp [attrHead, closeK]
        rw [this] at h; cases h
    · cases h
  · cases h

theorem openTagK_lt {s r : List Char} (h : openTagK always s = some r) : r.length + 2 < s.length := by
  unfold openTagK at h
  split at h
  · next c t =>
    split at h
    · have h1 := A_lt h
      have h2 := length_dropWhile_le isTagChar t
      simp; omega
    · cases h
  · cases h

/-- **the open tag, (S)**: a match under the larger window that ends inside the smaller one is the match
    under the smaller one -/
theorem openTagK_shr : Shr (openTagK always) := by
  intro w x r0 h hx
  have hlt := openTagK_lt h
  simp only [List.length_append] at hlt
  cases w with
  | nil => simp at hlt; omega
  | cons a w1 =>
  cases w1 with
  | nil =>
    exfalso
    unfold openTagK at h
    simp only [List.cons_append, List.nil_append] at h
    split at h
    · next c t heq =>
      simp only [List.cons.injEq] at heq
      obtain ⟨_, rfl⟩ := heq
      split at h
      · have h1 := A_lt h
        have h2 := length_dropWhile_le isTagChar t
        simp at hx; omega
      · cases h
    · cases h
  | cons b t =>
    unfold openTagK at h ⊢
    simp only [List.cons_append] at h
    split at h
    · next c t' heq =>
      simp only [List.cons.injEq] at heq
      obtain ⟨rfl, rfl, rfl⟩ := heq
      split at h
      · next hc =>
        simp only [hc, if_true]
        rcases dropWhile_append_cases isTagChar t x with ⟨c1, t1, e1, e1'⟩ | ⟨e1, e1'⟩
        · rw [e1'] at h; rw [e1]
          exact (PA_all _ (c1 :: t1) x (Nat.le_refl _)).2 r0 h hx
        · rw [e1'] at h
          have h1 := A_lt h
          have h2 := length_dropWhile_le isTagChar x
          omega
      · cases h
    · cases h

/-- **`HTML_TAG_RE`, weak (E)**: the smaller window matches ⇒ the larger window matches (possibly longer:
    `FlatL2` asks `o0 = none → o = none`, which is this) -/
theorem tagRest_ext_weak {w x r : List Char} (h : tagRest w = some r) : (tagRest (w ++ x)).isSome = true := by
  cases ho : openTagK always w with
  | some r1 =>
    have := openTagK_ext_weak (x := x) ho
    unfold tagRest
    cases ho' : openTagK always (w ++ x) with
    | none => rw [ho'] at this; cases this
    | some r' => rfl
  | none => rw [tagRest_ext_nonopen ho h]; rfl

/-- **`HTML_TAG_RE`, (S)**, every alternative: a match under the larger window that ends inside the smaller
    window is the match under the smaller window -/
theorem tagRest_shr : Shr tagRest := by
  intro w x r0 h hx
  cases ho : openTagK always (w ++ x) with
  | some r1 =>
    have e : r1 = r0 := by unfold tagRest at h; rw [ho] at h; simpa using h
    subst e
    obtain ⟨r, hr, hw⟩ := openTagK_shr w x _ ho hx
    exact ⟨r, hr, by unfold tagRest; rw [hw]⟩
  | none =>
    obtain ⟨r, hr, hw, _⟩ := tagRest_shr_nonopen ho h hx
    exact ⟨r, hr, hw⟩

/-- **the `FlatL2` fact for the html rule**, on windows: no match under the larger window ⇒ none under the
    smaller; a match under the larger window whose extent fits into the smaller window is the match there -/
theorem extent_flatL2 (w x : List Char) :
    (extent (w ++ x) = none → extent w = none) ∧
    (∀ n, extent (w ++ x) = some n → n ≤ w.length → extent w = some n) := by
  constructor
  · intro h
    unfold extent at h ⊢
    cases hw : tagRest w with
    | none => rfl
    | some r =>
      have := tagRest_ext_weak (x := x) hw
      cases hx : tagRest (w ++ x) with
      | none => rw [hx] at this; cases this
      | some r' => rw [hx] at h; cases h
  · intro n h hn
    unfold extent at h ⊢
    cases hr : tagRest (w ++ x) with
    | none => rw [hr] at h; cases h
    | some r0 =>
      rw [hr] at h
      simp only [Option.map_some, Option.some.injEq, List.length_append] at h
      obtain ⟨mid, hm⟩ := tagRest_spec hr
      have hl : r0.length ≤ w.length + x.length := by
        have := congrArg List.length hm; simp at this; omega
      obtain ⟨r, hr0, hw⟩ := tagRest_shr w x r0 hr (by omega)
      rw [hw]
      subst hr0
      simp only [Option.map_some, Option.some.injEq, List.length_append] at h ⊢
      omega

/-! ## examples, and what is known about the open tag -/

-- Ext / Shr on a comment: the later `-->` of the larger window is not reached
example : extent "<!--a-->".toList = some 8 ∧ extent ("<!--a-->".toList ++ "x-->".toList) = some 8 ∧
    openTagK always "<!--a-->".toList = none := by decide +kernel
-- a processing instruction ends at the FIRST `?>` under every window
example : extent "<?a?>b?>".toList = some 5 ∧ extent "<?a?>".toList = some 5 := by decide +kernel
-- a match of the LARGER window that extends past the cut says nothing about the smaller one
-- (`FlatL2` asks nothing then): `<!--a--` + `>` ; `<a b="x>` + `y">`
example : extent "<!--a--".toList = none ∧ extent "<!--a-->".toList = some 8 := by decide +kernel
example : extent "<a b=\"x>".toList = none ∧ extent "<a b=\"x>y\">".toList = some 11 := by decide +kernel
-- the open tag: instances of Ext and Shr (the attribute value may hold a `>`; backtracking over an
-- unquoted value and over Unicode white space)
example : extent "<a b='>' c>".toList = some 11 ∧ extent "<a b='>' c>d>".toList = some 11 ∧
    extent "<a b=c d>".toList = some 9 ∧ extent "<a b=c d>e f='>".toList = some 9 ∧
    extent "<a b=\u00a0c>".toList = some 8 ∧ extent "<a b=\u00a0c>\u00a0>".toList = some 8 := by decide +kernel

/-
  WHAT IS TRUE (window-shrink independence of `HTML_TAG_RE`), for the smaller window `w` and the larger `w ++ x`:

   (E)  tagRest w = some r                      →  tagRest (w ++ x) = some (r ++ x)
   (S)  tagRest (w ++ x) = some r0, |x| ≤ |r0|  →  ∃ r, r0 = r ++ x ∧ tagRest w = some r

  i.e. the verdict of the larger window restricted to matches that END INSIDE the smaller window is exactly the
  verdict of the smaller window; a match of the larger window that extends past the cut (`<!--a--|>`,
  `<a b="x>|y">`) is unconstrained, and the smaller window then has NO match (by (E)).  `FlatL2` follows:
  `o0 = none → o = none` is the contrapositive of (E); `o0 = some n`, `pos + n ≤ pos_max'` `→ o = some n` is (S).
  The lazy `[\s\S]*?` of the comment / processing / CDATA alternatives and the `[^>]*` of the declaration never
  match longer under a larger window: they stop at the FIRST terminator (`findSub_ext`, `commentBody_ext`).

  PROVED here:
   * (E) and (S) for the close tag (`closeTagK_ext/_shr`), the comment (`commentRest_ext/_shr`), the processing
     instruction and CDATA (`findSub_ext/_shr`), the declaration (`declRest_ext/_shr`), their union
     (`specialRest_ext/_shr`) and the whole matcher on every window that does not start an open tag
     (`tagRest_ext_nonopen`, `tagRest_shr_nonopen`, `extent_ext_nonopen`, `extent_shr_nonopen`);
   * for the OPEN TAG (`attrsK`, attribute backtracking): (S) in full (`openTagK_shr`) and the WEAK form of (E)
         (E')  openTagK always w = some r  →  (openTagK always (w ++ x)).isSome
     (`openTagK_ext_weak`: the larger window matches too — the same or, a priori, a longer tag), by a joint
     induction over `attrsK` (`PA_all`): the candidate list of the value backtracking under the larger window is
     the candidate list under the smaller one with `x` appended, in the same order, plus inserted candidates that
     lie inside `x` (`Emb`, `valueEnds_emb`); (S) at a candidate uses (E') at the EARLIER candidates and vice versa;
   * hence for the whole `HTML_TAG_RE`: `tagRest_shr` (= (S)), `tagRest_ext_weak` (= (E')), and the `FlatL2` fact
     `extent_flatL2`: no match under the larger window ⇒ none under the smaller; a match under the larger window
     whose extent fits into the smaller window is the match under the smaller window.  This is ALL `FlatL2` asks.

  STILL OPEN (not needed for `FlatL2`): the STRONG (E) for the open tag — the match under the larger window has
  the SAME extent.  It does not follow from the structural induction: a higher-priority candidate that fails
  under `w` could a priori succeed under `w ++ x` with a match that extends past the cut ((S) says nothing then).
  No counterexample: an exhaustive search over all 1 948 717 strings `<a` + at most 6 characters of
  a ␠ = " ' > / < U+00A0 ` \\n  (every split of every string) found none.  Why it should hold: the only construct that
  can run past the cut is a quoted value whose quote is not closed inside `w`, and because `=` forces a value,
  every parse of `w` through that attribute fails.
-/

end MdIt.InlineH.Window
