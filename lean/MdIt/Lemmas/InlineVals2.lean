/-
  Helper development for `Props/Inline.lean` (continued): the value invariant through the link
  rule, both loops and the induction on fuel (partial correctness).
-/
import MdIt.Lemmas.InlineVals
import MdIt.Lemmas.InlineJoin

namespace MdIt.Inline
open MdIt.InlineOps (Srcmap getSourcePosFor getMap byteLen slice)

/-- `skip` leaves the tree under construction alone -/
def QuietFn (skip : IState → Except Panic IState) : Prop := ∀ s s', skip s = .ok s' → Quiet s s'

/-- `tok` keeps the value invariant -/
def ValsFn (P : Val → Prop) (tok : IState → Except Panic IState) : Prop :=
  ∀ s s', tok s = .ok s' → ValsOK P s → ValsOK P s'

theorem lookup_mem' {α β : Type} [BEq α] [LawfulBEq α] {l : List (α × β)} {k : α} {v : β}
    (h : l.lookup k = some v) : (k, v) ∈ l := by
  induction l with
  | nil => simp at h
  | cons e r ih =>
    obtain ⟨a, b⟩ := e
    simp only [List.lookup] at h
    split at h
    · next heq =>
      simp only [Option.some.injEq] at h
      have : k = a := by simpa using heq
      subst this; subst h; simp
    · exact List.mem_cons_of_mem _ (ih h)

/-! ## `parse_link` changes nothing in the tree -/

theorem labelLoop_quiet {skip : IState → Except Panic IState} (hq : QuietFn skip) (en : Bool) :
    ∀ (n : Nat) (level : Int) (st : IState) (res : Option Bool) (st' : IState),
      labelLoop skip en n level st = .ok (res, st') → Quiet st st' := by
  intro n
  induction n with
  | zero => intro level st res st' h; simp [labelLoop] at h
  | succ n ih =>
    intro level st res st' h
    unfold labelLoop at h
    split at h
    · simp at h
    · simp only [Except.ok.injEq, Prod.mk.injEq] at h; rw [← h.2]; exact Quiet.refl _
    · split at h
      · simp only [Except.ok.injEq, Prod.mk.injEq] at h; rw [← h.2]; exact Quiet.refl _
      · simp only at h
        split at h
        · simp at h
        · next st1 hs =>
          have q1 := hq _ _ hs
          split at h
          · split at h
            · simp at h
            · split at h
              · exact q1.trans (ih _ _ _ _ h)
              · split at h
                · simp only [Except.ok.injEq, Prod.mk.injEq] at h; rw [← h.2]; exact q1
                · exact q1.trans (ih _ _ _ _ h)
          · exact q1.trans (ih _ _ _ _ h)

theorem parseLinkLabel_quiet {skip : IState → Except Panic IState} (hq : QuietFn skip) {fuel : Nat}
    {st : IState} {start : Nat} {en : Bool} {o : Option Nat} {st' : IState}
    (h : parseLinkLabel skip fuel st start en = .ok (o, st')) : Quiet st st' := by
  unfold parseLinkLabel at h
  simp only at h
  split at h
  · simp at h
  · next st1 hl =>
    simp only [Except.ok.injEq, Prod.mk.injEq] at h; rw [← h.2]
    have := labelLoop_quiet hq en _ _ _ _ _ hl
    exact ⟨this.children, this.bottoms⟩
  · next found st1 hl =>
    simp only [Except.ok.injEq, Prod.mk.injEq] at h; rw [← h.2]
    have := labelLoop_quiet hq en _ _ _ _ _ hl
    exact ⟨this.children, this.bottoms⟩

theorem parseLinkRef_quiet {cfg : Cfg} {skip : IState → Except Panic IState} (hq : QuietFn skip)
    {fuel : Nat} {st : IState} {ls le : Nat} {o : Option LinkRes} {st' : IState}
    (h : parseLinkRef cfg skip fuel st ls le = .ok (o, st')) :
    Quiet st st' ∧ ∀ res, o = some res → HrefOK cfg res.href := by
  unfold parseLinkRef at h
  split at h
  · simp at h
  · next w hw =>
    clear hw
    simp only at h
    split at h
    · simp at h
    · next ml pos st1 hsec =>
      have hq1 : Quiet st st1 := by
        split at hsec
        · split at hsec
          · simp at hsec
          · next x st2 hl =>
            split at hsec
            · simp at hsec
            · simp only [Except.ok.injEq, Prod.mk.injEq] at hsec
              rw [← hsec.2.2]; exact parseLinkLabel_quiet hq hl
          · next st2 hl =>
            simp only [Except.ok.injEq, Prod.mk.injEq] at hsec
            rw [← hsec.2.2]; exact parseLinkLabel_quiet hq hl
        · simp only [Except.ok.injEq, Prod.mk.injEq] at hsec
          rw [← hsec.2.2]; exact Quiet.refl _
      split at h
      · simp only [Except.ok.injEq, Prod.mk.injEq] at h; rw [← h.2, ← h.1]
        exact ⟨hq1, by intro res hr; simp at hr⟩
      · next refs hrefs =>
        split at h
        · simp at h
        · split at h
          · simp only [Except.ok.injEq, Prod.mk.injEq] at h; rw [← h.2, ← h.1]
            exact ⟨hq1, by intro res hr; simp at hr⟩
          · next r hlook =>
            simp only [Except.ok.injEq, Prod.mk.injEq] at h; rw [← h.2, ← h.1]
            refine ⟨hq1, ?_⟩
            intro res hr
            simp only [Option.some.injEq] at hr; subst hr
            right; right
            unfold Refs.lookup Refs.RefMap.get at hlook
            exact ⟨refs, _, r, hrefs, lookup_mem' hlook, rfl⟩

/-- the inline form hands out `None` or an accepted destination of the inline pipeline -/
theorem tail_href {dec : List Char → List Char} {src : List Char} {p max : Nat} {il : Link.InlineLink}
    (h : Link.parseInlineTail dec src p max = .ok (some il)) :
    il.href = none ∨ ∃ raw, Link.inlineDest dec raw = il.href := by
  unfold Link.parseInlineTail at h
  split at h
  · simp at h
  · split at h
    · simp only at h
      split at h
      · simp at h
      · next dest hd =>
        split at h
        · simp at h
        · next href title pos hstage =>
          have hhref : href = none ∨ ∃ raw, Link.inlineDest dec raw = href := by
            split at hstage
            · simp only [Except.ok.injEq, Prod.mk.injEq] at hstage; left; exact hstage.1.symm
            · next res =>
              unfold Link.inlineAfterDest at hstage
              split at hstage
              · next u hu =>
                have := Link.titlePart_href _ _ _ _ _ _ _ _ hstage
                right; exact ⟨res.raw, by rw [hu, this]⟩
              · have := Link.titlePart_href _ _ _ _ _ _ _ _ hstage
                left; exact this
          split at h
          · simp at h
          · simp only [Except.ok.injEq, Option.some.injEq] at h; subst h; exact hhref
          · simp at h
    · simp at h

theorem parseLink_quiet {cfg : Cfg} {skip : IState → Except Panic IState} (hq : QuietFn skip)
    {fuel : Nat} {st : IState} {pos : Nat} {en : Bool} {o : Option LinkRes} {st' : IState}
    (h : parseLink cfg skip fuel st pos en = .ok (o, st')) :
    Quiet st st' ∧ ∀ res, o = some res → HrefOK cfg res.href := by
  unfold parseLink at h
  split at h
  · simp at h
  · next st1 hl =>
    simp only [Except.ok.injEq, Prod.mk.injEq] at h; rw [← h.2, ← h.1]
    exact ⟨parseLinkLabel_quiet hq hl, by intro res hr; simp at hr⟩
  · next le st1 hl =>
    have q1 := parseLinkLabel_quiet hq hl
    simp only at h
    split at h
    · simp at h
    · next il hil =>
      simp only [Except.ok.injEq, Prod.mk.injEq] at h; rw [← h.2, ← h.1]
      refine ⟨q1, ?_⟩
      intro res hr
      simp only [Option.some.injEq] at hr; subst hr
      rcases tail_href hil with h0 | ⟨raw, hraw⟩
      · left; exact h0
      · right; left; exact ⟨raw, hraw⟩
    · obtain ⟨q2, hh⟩ := parseLinkRef_quiet hq h
      exact ⟨q1.trans q2, hh⟩

/-! ## the link rule -/

theorem linkRule_vals {cfg : Cfg} {P : Val → Prop} {skip tok : IState → Except Panic IState}
    (hq : QuietFn skip) (ht : ValsFn P tok) {fuel : Nat} {mk : List Nat → Option (List Char) → Val}
    (hmk : ∀ href t, HrefOK cfg href → P (mk (href.getD []) t))
    {en : Bool} {offset : Nat} {st : IState} {silent : Bool} {o : Option Nat} {st' : IState}
    (h : linkRule cfg skip tok fuel mk en offset st silent = .ok (o, st')) (hc : ValsOK P st) :
    ValsOK P st' ∧ (silent = true → Quiet st st') := by
  unfold linkRule at h
  simp only at h
  split at h
  · simp at h
  · next st1 hpl =>
    simp only [Except.ok.injEq, Prod.mk.injEq] at h; rw [← h.2]
    have q := (parseLink_quiet hq hpl).1
    exact ⟨by unfold ValsOK; rw [q.children]; exact hc, fun _ => q⟩
  · next res st1 hpl =>
    obtain ⟨q, hh⟩ := parseLink_quiet hq hpl
    have hc1 : ValsOK P st1 := by unfold ValsOK; rw [q.children]; exact hc
    split at h
    · split at h
      · simp at h
      · simp only [Except.ok.injEq, Prod.mk.injEq] at h; rw [← h.2]
        exact ⟨hc1, fun _ => q⟩
    · next hs =>
      split at h
      · simp at h
      · next st3 htok =>
        have hc3 : ValsOK P st3 := ht _ _ htok (by unfold ValsOK; exact trivial)
        split at h
        · simp at h
        · split at h
          · simp at h
          · split at h
            · simp at h
            · simp only [Except.ok.injEq, Prod.mk.injEq] at h; rw [← h.2]
              refine ⟨?_, fun hh => absurd hh hs⟩
              unfold ValsOK
              refine AllValsList.append hc1 (AllValsList.single ?_)
              rw [AllVals_eq]; exact ⟨hmk _ _ (hh res rfl), hc3⟩

theorem runRule_vals {cfg : Cfg} {P : Val → Prop} (g : GoodP cfg P)
    {skip tok : IState → Except Panic IState} (hq : QuietFn skip) (ht : ValsFn P tok) {fuel : Nat}
    {id : RuleId} (hid : id ∈ cfg.chain) {st : IState} {silent : Bool} {o : Option Nat} {st' : IState}
    (h : runRule cfg skip tok fuel id st silent = .ok (o, st')) (hc : ValsOK P st) :
    ValsOK P st' ∧ (silent = true → Quiet st st') := by
  unfold runRule at h
  cases id with
  | text =>
    have h' := liftR_ok.mp h
    exact ⟨ruleText_vals g h' hc, (ruleText_simple h').quiet⟩
  | newline =>
    have h' := liftR_ok.mp h
    exact ⟨ruleNewline_vals g h' hc, (ruleNewline_simple h').quiet⟩
  | escape =>
    have h' := liftR_ok.mp h
    exact ⟨ruleEscape_vals g h' hc, (ruleEscape_simple h').quiet⟩
  | backticks =>
    have h' := liftR_ok.mp h
    exact ⟨ruleBackticks_vals g h' hc, (ruleBackticks_simple h').quiet⟩
  | emph mk csw =>
    have h' := liftR_ok.mp h
    exact ⟨ruleEmph_vals g hid h' hc, (ruleEmph_simple h').quiet⟩
  | link =>
    simp only at h
    unfold ruleLink at h
    split at h
    · simp at h
    · simp at h
    · split at h
      · simp only [Except.ok.injEq, Prod.mk.injEq] at h; rw [← h.2]
        exact ⟨hc, fun _ => Quiet.refl _⟩
      · exact linkRule_vals hq ht g.link h hc
  | image =>
    simp only at h
    unfold ruleImage at h
    split at h
    · simp at h
    · exact linkRule_vals hq ht g.image h hc
    · simp only [Except.ok.injEq, Prod.mk.injEq] at h; rw [← h.2]
      exact ⟨hc, fun _ => Quiet.refl _⟩
  | linkEnd =>
    simp only [Except.ok.injEq, Prod.mk.injEq] at h; rw [← h.2]
    exact ⟨hc, fun _ => Quiet.refl _⟩
  | autolink =>
    have h' := liftR_ok.mp h
    exact ⟨ruleAutolink_vals g h' hc, (ruleAutolink_simple h').quiet⟩
  | entity =>
    have h' := liftR_ok.mp h
    exact ⟨ruleEntity_vals g h' hc, (ruleEntity_simple h').quiet⟩

theorem firstRule_vals {P : Val → Prop} {run : RuleId → IState → RuleRes} {silent : Bool}
    (rules : List RuleId)
    (hrun : ∀ id ∈ rules, ∀ s o s', run id s = .ok (o, s') → ValsOK P s →
      ValsOK P s' ∧ (silent = true → Quiet s s')) :
    ∀ (st : IState) (o : Option Nat) (st' : IState), firstRule run rules st = .ok (o, st') →
      ValsOK P st → ValsOK P st' ∧ (silent = true → Quiet st st') := by
  induction rules with
  | nil =>
    intro st o st' h hc
    simp only [firstRule, Except.ok.injEq, Prod.mk.injEq] at h; rw [← h.2]
    exact ⟨hc, fun _ => Quiet.refl _⟩
  | cons r rs ih =>
    intro st o st' h hc
    unfold firstRule at h
    split at h
    · simp at h
    · next n st1 hr =>
      simp only [Except.ok.injEq, Prod.mk.injEq] at h; rw [← h.2]
      exact hrun r (by simp) _ _ _ hr hc
    · next st1 hr =>
      obtain ⟨c1, q1⟩ := hrun r (by simp) _ _ _ hr hc
      obtain ⟨c2, q2⟩ := ih (fun id hid => hrun id (List.mem_cons_of_mem _ hid)) _ _ _ h c1
      exact ⟨c2, fun hs => (q1 hs).trans (q2 hs)⟩

theorem silentBumped_vals {P : Val → Prop} {run : IState → Bool → RuleRes} {st : IState}
    {o : Option Nat} {st' : IState}
    (hrun : ∀ s o s', run s true = .ok (o, s') → ValsOK P s → ValsOK P s' ∧ (true = true → Quiet s s'))
    (h : silentBumped run st = .ok (o, st')) (hc : ValsOK P st) :
    ValsOK P st' ∧ (true = true → Quiet st st') := by
  unfold silentBumped at h
  split at h
  · simp at h
  · next r st1 hr =>
    split at h
    · simp at h
    · simp only [Except.ok.injEq, Prod.mk.injEq] at h; rw [← h.2]
      obtain ⟨c1, q1⟩ := hrun _ _ _ hr (by unfold ValsOK; exact hc)
      have q := q1 rfl
      exact ⟨by unfold ValsOK; exact c1, fun _ => ⟨q.children, q.bottoms⟩⟩

theorem tokStep_vals {cfg : Cfg} {P : Val → Prop} (g : GoodP cfg P)
    {skip tok : IState → Except Panic IState} (hq : QuietFn skip) (ht : ValsFn P tok) {fuel : Nat}
    {st st' : IState} (h : tokStep cfg skip tok fuel st = .ok st') (hc : ValsOK P st) :
    ValsOK P st' := by
  unfold tokStep at h
  simp only at h
  split at h
  · simp at h
  · next len st1 hok =>
    simp only [Except.ok.injEq] at h; rw [← h]
    have : ValsOK P st1 := by
      split at hok
      · exact (firstRule_vals (silent := false) cfg.chain
          (fun id hid s o s' hr hcs => runRule_vals g hq ht hid hr hcs) _ _ _ hok hc).1
      · simp only [Except.ok.injEq, Prod.mk.injEq] at hok; rw [← hok.2]; exact hc
    exact this
  · next st1 hok =>
    have hc1 : ValsOK P st1 := by
      split at hok
      · exact (firstRule_vals (silent := false) cfg.chain
          (fun id hid s o s' hr hcs => runRule_vals g hq ht hid hr hcs) _ _ _ hok hc).1
      · simp only [Except.ok.injEq, Prod.mk.injEq] at hok; rw [← hok.2]; exact hc
    split at h
    · simp at h
    · split at h
      · simp at h
      · next st2 hp =>
        simp only [Except.ok.injEq] at h; rw [← h]
        exact (pushText_vals g.text (liftR_ok.mp hp) hc1 : ValsOK P st2)

theorem nsize_le_of_mem {c : Node} {l : List Node} (h : c ∈ l) : nsize c ≤ nsizeList l := by
  induction l with
  | nil => simp at h
  | cons x xs ih =>
    simp only [nsizeList]
    rcases List.mem_cons.mp h with rfl | h'
    · omega
    · have := ih h'; omega

/-- every tree satisfies the trivial predicate -/
theorem allVals_true (n : Node) : AllVals (fun _ => True) n := by
  have : ∀ k, (∀ n : Node, nsize n ≤ k → AllVals (fun _ => True) n) := by
    intro k
    induction k with
    | zero => intro n hn; rw [nsize_eq] at hn; omega
    | succ k ih =>
      intro n hn
      rw [AllVals_eq]
      refine ⟨trivial, ?_⟩
      rw [allValsList_iff]
      intro c hc
      apply ih
      rw [nsize_eq] at hn
      have := nsize_le_of_mem hc
      omega
  exact this _ n (Nat.le_refl _)

theorem skipStep_quiet {cfg : Cfg} {skip tok : IState → Except Panic IState} (hq : QuietFn skip)
    {fuel : Nat} {st st' : IState} (h : skipStep cfg skip tok fuel st = .ok st') : Quiet st st' := by
  -- the value invariant with `P = True` carries the quietness of every look-ahead call
  have g : GoodP cfg (fun _ => True) :=
    ⟨fun _ => trivial, fun _ _ _ => trivial, trivial, trivial, fun _ _ => trivial,
     fun _ _ _ _ => trivial, fun _ _ _ => trivial, fun _ _ _ => trivial, fun _ _ _ _ _ _ _ => trivial,
     fun _ _ _ _ => trivial, fun _ _ _ _ _ _ _ => trivial⟩
  have hall : ∀ s : IState, ValsOK (fun _ => True) s := by
    intro s; unfold ValsOK; rw [allValsList_iff]; intro n _; exact allVals_true n
  have ht : ValsFn (fun _ => True) tok := fun s s' _ _ => hall s'
  unfold skipStep at h
  simp only at h
  have hfr : ∀ o st1, firstRule (fun id s => silentBumped (runRule cfg skip tok fuel id) s) cfg.chain st
      = .ok (o, st1) → Quiet st st1 := by
    intro o st1 hok
    exact (firstRule_vals (P := fun _ => True) (silent := true) cfg.chain
      (fun id hid s o s' hr hcs => silentBumped_vals
        (fun s2 o2 s2' hr2 hc2 => runRule_vals g hq ht hid hr2 hc2) hr hcs) _ _ _ hok (hall st)).2 rfl
  split at h
  · simp at h
  · next len st1 hok =>
    simp only [Except.ok.injEq] at h; rw [← h]
    have q := hfr _ _ hok
    exact ⟨q.children, q.bottoms⟩
  · next st1 hok =>
    have q := hfr _ _ hok
    split at h
    · simp at h
    · simp only [Except.ok.injEq] at h; rw [← h]
      exact ⟨q.children, q.bottoms⟩

/-- **The value invariant through the whole tokenizer** (partial correctness, any fuel):
    `skip_token` leaves the tree alone; `tokenize` keeps "every value satisfies `P`". -/
theorem vals_induction (cfg : Cfg) {P : Val → Prop} (g : GoodP cfg P) : ∀ fuel : Nat,
    QuietFn (fun s => skipToken cfg fuel s) ∧
    (∀ (e : Nat) (st st' : IState), tokLoop cfg fuel e st = .ok st' → ValsOK P st → ValsOK P st') := by
  intro fuel
  induction fuel with
  | zero =>
    constructor
    · intro s s' h; simp [skipToken] at h
    · intro e st st' h hc
      unfold tokLoop at h
      split at h
      · simp at h
      · simp only [Except.ok.injEq] at h; rw [← h]; exact hc
  | succ f ih =>
    obtain ⟨ihS, ihT⟩ := ih
    have ht : ValsFn P (fun s => tokLoop cfg f s.posMax s) := fun s s' h hc => ihT _ _ _ h hc
    constructor
    · intro s s' h
      simp only at h
      unfold skipToken at h
      split at h
      · simp only [Except.ok.injEq] at h; rw [← h]; exact ⟨rfl, rfl⟩
      · split at h
        · exact skipStep_quiet ihS h
        · simp only [Except.ok.injEq] at h; rw [← h]; exact ⟨rfl, rfl⟩
    · intro e st st' h hc
      unfold tokLoop at h
      split at h
      · simp only at h
        split at h
        · simp at h
        · next st1 hstep =>
          exact ihT _ _ _ h (tokStep_vals g ihS ht hstep hc)
      · simp only [Except.ok.injEq] at h; rw [← h]; exact hc

/-! ## the post pass keeps the value invariant -/

theorem markerToText_vals {P : Val → Prop} (hP : ∀ c, P (.text c)) {n : Node} (h : AllVals P n) :
    AllVals P (markerToText n) := by
  unfold markerToText
  split
  · rw [AllVals_eq] at h ⊢; exact ⟨hP _, h.2⟩
  · exact h

theorem mergeLoop_vals {P : Val → Prop} (hP : ∀ c, P (.text c)) (cur : Node) (rest : List Node)
    (hc : AllVals P cur) (hr : AllValsList P rest) : AllValsList P (mergeLoop cur rest) := by
  induction rest generalizing cur with
  | nil => exact AllValsList.single hc
  | cons nxt rest ih =>
    simp only [mergeLoop]
    split
    · refine ⟨?_, ih _ ?_ hr.2⟩
      · have := hr.1; rw [AllVals_eq] at this ⊢; exact ⟨hP _, this.2⟩
      · rw [AllVals_eq] at hc ⊢; exact ⟨hP _, hc.2⟩
    · exact ⟨hc, ih _ hr.1 hr.2⟩

theorem fragmentsJoinN_vals {P : Val → Prop} (hP : ∀ c, P (.text c)) {cs : List Node}
    (h : AllValsList P cs) : AllValsList P (fragmentsJoinN cs) := by
  unfold fragmentsJoinN
  have h1 : AllValsList P (pass1 cs) := by
    rw [allValsList_iff] at h ⊢
    intro n hn
    unfold pass1 at hn
    obtain ⟨a, ha, rfl⟩ := List.mem_map.mp hn
    exact markerToText_vals hP (h a ha)
  have h2 : AllValsList P (mergeAll (pass1 cs)) := by
    cases hp : pass1 cs with
    | nil => simp [mergeAll, AllValsList]
    | cons c r => rw [hp] at h1; exact mergeLoop_vals hP c r h1.1 h1.2
  rw [allValsList_iff] at h2 ⊢
  exact fun n hn => h2 n (List.mem_filter.mp hn).1

theorem joinN_vals_aux {P : Val → Prop} (hP : ∀ c, P (.text c)) (k : Nat) :
    (∀ n, nsize n ≤ k → AllVals P n → AllVals P (joinNodeN n)) ∧
    (∀ l, nsizeList l ≤ k → AllValsList P l → AllValsList P (joinListN l)) := by
  induction k with
  | zero =>
    constructor
    · intro n hn; rw [nsize_eq] at hn; omega
    · intro l hl _
      cases l with
      | nil => rw [joinListN_nil]; trivial
      | cons c cs => simp only [nsizeList] at hl; have := nsize_eq c; omega
  | succ k ih =>
    have hnode : ∀ n, nsize n ≤ k + 1 → AllVals P n → AllVals P (joinNodeN n) := by
      intro n hn h
      rw [AllVals_eq] at h ⊢
      rw [joinNodeN_val, joinNodeN_children]
      refine ⟨h.1, ih.2 _ ?_ (fragmentsJoinN_vals hP h.2)⟩
      have := nsizeList_fragmentsJoinN_le n.children
      rw [nsize_eq] at hn; omega
    refine ⟨hnode, ?_⟩
    intro l hl h
    induction l with
    | nil => rw [joinListN_nil]; trivial
    | cons c cs ihl =>
      rw [joinListN_cons]
      simp only [nsizeList] at hl
      have := nsize_eq c
      exact ⟨hnode c (by omega) h.1, ihl (by omega) h.2⟩

theorem joinAllN_vals {P : Val → Prop} (hP : ∀ c, P (.text c)) {root : Node} (h : AllVals P root) :
    AllVals P (joinAllN root) :=
  (joinN_vals_aux hP (nsize root)).1 root (Nat.le_refl _) h

end MdIt.Inline
