/-
  Helper development for `Props/Inline.lean`: the rules without look-ahead recursion
  (text, newline, escape, entity, backticks, autolink, emphasis markers).  For each rule:
    * `rule<X>_simple`            what it never changes, and `some len ⇒ 1 ≤ len` (unconditional)
    * `inline_rule_progress_<x>`  under `InlineInv`: no panic, `pos + len` a boundary `≤ posMax`
    * `silent_real_<x>`           look-ahead and real mode agree on the extent
-/
import MdIt.Lemmas.InlineBase
import MdIt.Props.C12

namespace MdIt.Inline
open MdIt.InlineOps (Srcmap getSourcePosFor getMap byteLen slice)
open MdIt.C05 (WFMap byteLen_append slice_ok_iff)

/-- unconditional facts about a rule without look-ahead recursion -/
structure Simple (st : IState) (silent : Bool) (o : Option Nat) (st' : IState) : Prop where
  frame : Frame st st'
  pos : st'.pos = st.pos
  cache : st'.cache = st.cache
  quiet : silent = true → Quiet st st'
  prog : ∀ len, o = some len → 1 ≤ len

/-- what `inline_rule_progress_<rule>` states about a successful rule -/
def Advances (st : IState) (o : Option Nat) : Prop :=
  ∀ len, o = some len → 1 ≤ len ∧ st.pos + len ≤ st.posMax ∧ Boundary st.src (st.pos + len)

/-! ## `trailing_text_push` -/

theorem popLast_spec {α : Type} (l : List α) :
    (popLast l = none ∧ l = []) ∨ (∃ init last, popLast l = some (init, last) ∧ l = init ++ [last]) := by
  induction l with
  | nil => left; simp [popLast]
  | cons x r ih =>
    right
    cases r with
    | nil => exact ⟨[], x, rfl, rfl⟩
    | cons y r' =>
      rcases ih with ⟨_, h⟩ | ⟨i, l, h1, h2⟩
      · cases h
      · exact ⟨x :: i, l, by simp [popLast, h1], by rw [h2]; rfl⟩

theorem popLast_snoc {α : Type} (init : List α) (x : α) : popLast (init ++ [x]) = some (init, x) := by
  rcases popLast_spec (init ++ [x]) with ⟨_, h⟩ | ⟨i, l, h1, h2⟩
  · simp at h
  · have := List.append_inj' h2 rfl
    simp only [List.cons.injEq, and_true] at this
    rw [h1, this.1, this.2]

theorem pushText_eq {st st' : IState} {a b : Nat} (h : st.pushText a b = .ok st') :
    ∃ cs, trailingTextPush st.src st.srcmap st.children a b = .ok cs ∧
      st' = { st with children := cs } := by
  unfold IState.pushText at h
  split at h
  · simp at h
  · next cs hc => simp only [Except.ok.injEq] at h; exact ⟨cs, hc, h.symm⟩

/-- `trailing_text_push(a, b)` cannot fail on a well-formed table when `a..b` is a valid slice -/
theorem trailingTextPush_total (src : List Char) (m : Srcmap) (hm : WFMap m) (cs : List Node)
    (a b : Nat) (piece : List Char) (hs : slice src a b = .ok piece) :
    ∃ out, trailingTextPush src m cs a b = .ok out := by
  have hab : a ≤ b := by have := (slice_boundaries hs).2.2; omega
  obtain ⟨x, hx⟩ := C05.translate_total m hm a
  obtain ⟨y, hy⟩ := C05.translate_total m hm b
  have hmap : liftOps (getMap m a b) = .ok (x, y) := by
    unfold InlineOps.getMap; rw [if_neg (by omega), hx, hy]; rfl
  have hsl : liftOps (slice src a b) = .ok piece := by rw [hs]; rfl
  have hy' : liftOps (getSourcePosFor m b) = .ok y := by rw [hy]; rfl
  unfold trailingTextPush
  simp only [hsl, hmap, hy']
  split
  · exact ⟨_, rfl⟩
  · split
    · split <;> exact ⟨_, rfl⟩
    · exact ⟨_, rfl⟩

theorem pushText_total {st : IState} (hm : WFMap st.srcmap) {a b : Nat} {piece : List Char}
    (hs : slice st.src a b = .ok piece) : ∃ st', st.pushText a b = .ok st' := by
  obtain ⟨out, ho⟩ := trailingTextPush_total st.src st.srcmap hm st.children a b piece hs
  exact ⟨_, by unfold IState.pushText; rw [ho]⟩

/-! ## text -/

/-- the length `TextScanner` would take from a window -/
def textLen (w : List Char) : Nat := byteLen (Entity.splitRun (fun c => !Entity.textStop.contains c) w).1

theorem ruleText_simple {st st' : IState} {silent : Bool} {o : Option Nat}
    (h : ruleText st silent = .ok (o, st')) : Simple st silent o st' := by
  unfold ruleText at h
  split at h
  · simp at h
  · next w hw =>
    simp only at h
    split at h
    · simp only [Except.ok.injEq, Prod.mk.injEq] at h; obtain ⟨rfl, rfl⟩ := h
      exact ⟨Frame.refl _, rfl, rfl, fun _ => Quiet.refl _, by simp⟩
    · next hlen =>
      split at h
      · simp only [Except.ok.injEq, Prod.mk.injEq] at h; obtain ⟨rfl, rfl⟩ := h
        refine ⟨Frame.refl _, rfl, rfl, fun _ => Quiet.refl _, ?_⟩
        intro len hl; simp only [Option.some.injEq] at hl; omega
      · next hs =>
        split at h
        · simp at h
        · next st2 hp =>
          simp only [Except.ok.injEq, Prod.mk.injEq] at h; obtain ⟨rfl, rfl⟩ := h
          obtain ⟨cs, _, rfl⟩ := pushText_eq hp
          refine ⟨⟨rfl, rfl, rfl, rfl, rfl⟩, rfl, rfl, fun hq => absurd hq hs, ?_⟩
          intro len hl; simp only [Option.some.injEq] at hl; omega

/-- the verdict of the text rule is a function of the window -/
theorem ruleText_verdict {st st' : IState} {silent : Bool} {o : Option Nat} {w : List Char}
    (hw : st.window = .ok w) (h : ruleText st silent = .ok (o, st')) :
    o = if textLen w = 0 then none else some (textLen w) := by
  unfold ruleText at h
  rw [hw] at h
  simp only at h
  unfold textLen
  split at h
  · next h0 => simp only [Except.ok.injEq, Prod.mk.injEq] at h; rw [if_pos h0]; exact h.1.symm
  · next h0 =>
    rw [if_neg h0]
    split at h
    · simp only [Except.ok.injEq, Prod.mk.injEq] at h; exact h.1.symm
    · split at h
      · simp at h
      · simp only [Except.ok.injEq, Prod.mk.injEq] at h; exact h.1.symm

theorem textLen_prefix (w : List Char) :
    ∃ u v, w = u ++ v ∧ byteLen u = textLen w :=
  ⟨_, _, (Entity.splitRun_sound _ w).2.1, rfl⟩

theorem inline_rule_progress_text {st : IState} (hi : InlineInv st) (silent : Bool) :
    ∃ o st', ruleText st silent = .ok (o, st') ∧ Advances st o := by
  obtain ⟨pre, w, post, hsrc, hpre, hlen, hw, hne⟩ := window_ok hi
  obtain ⟨u, v, huv, hu⟩ := textLen_prefix w
  have hsl := window_eq hw
  have hb : Boundary st.src (st.pos + textLen w) := by
    rw [← hu]; exact boundary_in_slice (by rw [← huv]; exact hsl)
  have hle : st.pos + textLen w ≤ st.posMax := by
    rw [← hlen, ← hu, huv, byteLen_append]; omega
  have hadv : ∀ (o : Option Nat), (o = if textLen w = 0 then none else some (textLen w)) → Advances st o := by
    intro o ho len hl
    subst ho
    split at hl
    · simp at hl
    · simp only [Option.some.injEq] at hl; subst hl; exact ⟨by omega, hle, hb⟩
  have hpush : ∃ st', st.pushText st.pos (st.pos + textLen w) = .ok st' := by
    obtain ⟨_, _, _, _, _, _, hs2⟩ := slice_of_boundaries hi.bpos hb (by omega)
    exact pushText_total hi.wf hs2
  obtain ⟨st2, hst2⟩ := hpush
  have hex : ∃ o st', ruleText st silent = .ok (o, st') := by
    unfold ruleText
    rw [hw]
    simp only
    unfold textLen at hst2
    split
    · exact ⟨_, _, rfl⟩
    · split
      · exact ⟨_, _, rfl⟩
      · rw [hst2]; exact ⟨_, _, rfl⟩
  obtain ⟨o, st', h⟩ := hex
  exact ⟨o, st', h, hadv o (ruleText_verdict hw h)⟩

/-- **silent = real (text).**  Same verdict in both modes; look-ahead changes nothing at all. -/
theorem silent_real_text {st : IState} {n : Nat} {st1 : IState}
    (hs : ruleText st true = .ok (some n, st1)) :
    st1 = st ∧ ∀ o st2, ruleText st false = .ok (o, st2) → o = some n ∧ st2.pos = st.pos := by
  have h1 : st1 = st := by
    unfold ruleText at hs
    split at hs
    · simp at hs
    · simp only at hs
      split at hs
      · simp at hs
      · simp only [if_true, Except.ok.injEq, Prod.mk.injEq] at hs; exact hs.2.symm
  refine ⟨h1, ?_⟩
  intro o st2 hr
  cases hw : st.window with
  | error e => unfold ruleText at hs; rw [hw] at hs; simp at hs
  | ok w =>
    have v1 := ruleText_verdict hw hs
    have v2 := ruleText_verdict hw hr
    exact ⟨by rw [v2, ← v1], (ruleText_simple hr).pos⟩

/-! ## newline -/

theorem byteLen_ascii (l : List Char) (h : ∀ c ∈ l, c.utf8Size = 1) : byteLen l = l.length := by
  induction l with
  | nil => rfl
  | cons c r ih =>
    simp only [byteLen, List.length_cons]
    rw [h c (by simp), ih (fun x hx => h x (by simp [hx]))]; omega

theorem isSpTab_size {c : Char} (h : isSpTab c = true) : c.utf8Size = 1 := by
  unfold isSpTab at h
  simp only [Bool.or_eq_true, beq_iff_eq] at h
  rcases h with rfl | rfl <;> decide

theorem mem_takeWhile_imp {α : Type} {p : α → Bool} {l : List α} {x : α}
    (h : x ∈ l.takeWhile p) : p x = true := by
  induction l with
  | nil => simp at h
  | cons a r ih =>
    simp only [List.takeWhile_cons] at h
    split at h
    · next hp =>
      simp only [List.mem_cons] at h
      rcases h with rfl | h
      · exact hp
      · exact ih h
    · simp at h

theorem byteLen_takeWhile_spTab (l : List Char) :
    byteLen (l.takeWhile isSpTab) = (l.takeWhile isSpTab).length :=
  byteLen_ascii _ (fun c hc => isSpTab_size (mem_takeWhile_imp hc))

/-- the extent of a line break in a window that starts with a line feed -/
def newlineLen (rest : List Char) : Nat := 1 + (rest.takeWhile isSpTab).length

theorem ruleNewline_simple {st st' : IState} {silent : Bool} {o : Option Nat}
    (h : ruleNewline st silent = .ok (o, st')) : Simple st silent o st' := by
  unfold ruleNewline at h
  split at h
  · simp at h
  · simp at h
  · next c rest hw =>
    split at h
    · simp only [Except.ok.injEq, Prod.mk.injEq] at h; obtain ⟨rfl, rfl⟩ := h
      exact ⟨Frame.refl _, rfl, rfl, fun _ => Quiet.refl _, by simp⟩
    · simp only at h
      split at h
      · simp only [Except.ok.injEq, Prod.mk.injEq] at h; obtain ⟨rfl, rfl⟩ := h
        refine ⟨Frame.refl _, rfl, rfl, fun _ => Quiet.refl _, ?_⟩
        intro len hl; simp only [Option.some.injEq] at hl; omega
      · next hs =>
        split at h
        · simp at h
        · split at h
          · simp at h
          · split at h
            · simp at h
            · simp only [Except.ok.injEq, Prod.mk.injEq] at h; obtain ⟨rfl, rfl⟩ := h
              refine ⟨⟨rfl, rfl, rfl, rfl, rfl⟩, rfl, rfl, fun hq => absurd hq hs, ?_⟩
              intro len hl; simp only [Option.some.injEq] at hl; omega

theorem ruleNewline_verdict {st st' : IState} {silent : Bool} {o : Option Nat} {c : Char}
    {rest : List Char} (hw : st.window = .ok (c :: rest)) (h : ruleNewline st silent = .ok (o, st')) :
    o = if c ≠ '\n' then none else some (newlineLen rest) := by
  unfold ruleNewline at h
  rw [hw] at h
  simp only at h
  unfold newlineLen
  split at h
  · next hc => simp only [Except.ok.injEq, Prod.mk.injEq] at h; rw [if_pos hc]; exact h.1.symm
  · next hc =>
    rw [if_neg hc]
    have e : st.pos + 1 + (List.takeWhile isSpTab rest).length - st.pos
        = 1 + (List.takeWhile isSpTab rest).length := by omega
    split at h
    · simp only [Except.ok.injEq, Prod.mk.injEq] at h; rw [← h.1, e]
    · split at h
      · simp at h
      · split at h
        · simp at h
        · split at h
          · simp at h
          · simp only [Except.ok.injEq, Prod.mk.injEq] at h; rw [← h.1, e]

/-- what the newline rule needs from the tree in real mode: the blanks it cuts off the trailing
    text lie before `pos`, also in source offsets -/
def TrailOK (st : IState) : Prop :=
  ∀ init last, st.children = init ++ [last] → last.isText = true →
    tailSpaces last.content ≤ st.pos ∧ ∀ a b, last.range = some (a, b) → tailSpaces last.content ≤ b

theorem tailSpaces_split (s : List Char) :
    ∃ pre, s = pre ++ List.replicate (tailSpaces s) ' ' := by
  unfold tailSpaces
  have h := List.takeWhile_append_dropWhile (p := (· == ' ')) (l := s.reverse)
  refine ⟨(s.reverse.dropWhile (· == ' ')).reverse, ?_⟩
  have hall : s.reverse.takeWhile (· == ' ') = List.replicate (s.reverse.takeWhile (· == ' ')).length ' ' := by
    apply List.eq_replicate_iff.mpr
    refine ⟨rfl, ?_⟩
    intro c hc
    have := mem_takeWhile_imp hc
    simpa using this
  have : s = (s.reverse.dropWhile (· == ' ')).reverse ++ (s.reverse.takeWhile (· == ' ')).reverse := by
    rw [← List.reverse_append, h, List.reverse_reverse]
  rw [hall, List.reverse_replicate] at this
  first | exact this | (rw [List.length_replicate] at this; exact this)

theorem byteLen_replicate_space (n : Nat) : byteLen (List.replicate n ' ') = n := by
  rw [byteLen_ascii _ (by intro c hc; rw [List.eq_of_mem_replicate hc]; decide), List.length_replicate]

theorem trailingTextPop_tail_total (cs : List Node)
    (h : ∀ init last, cs = init ++ [last] → last.isText = true →
      ∀ a b, last.range = some (a, b) → tailSpaces last.content ≤ b) :
    ∃ out, trailingTextPop cs (tailSpaces (trailingTextGet cs)) = .ok out := by
  unfold trailingTextPop trailingTextGet
  rcases popLast_spec cs with ⟨hp, _⟩ | ⟨init, last, hp, hcs⟩
  · rw [hp]; simp [tailSpaces]
  · rw [hp]
    simp only
    by_cases ht : last.isText = true
    · simp only [ht, if_true, Bool.not_true, Bool.false_eq_true, if_false]
      split
      · exact ⟨_, rfl⟩
      · obtain ⟨pre, hpre⟩ := tailSpaces_split last.content
        have hbl : byteLen last.content = byteLen pre + tailSpaces last.content := by
          conv => lhs; rw [hpre]
          rw [byteLen_append, byteLen_replicate_space]
        split
        · exact ⟨_, rfl⟩
        · rw [if_neg (by omega)]
          have htr : liftOps (InlineOps.truncate last.content (byteLen last.content - tailSpaces last.content))
              = .ok pre := by
            have : byteLen last.content - tailSpaces last.content = byteLen pre := by omega
            rw [this]
            unfold InlineOps.truncate
            conv => lhs; rw [hpre]
            rw [C05.splitAtByte_append]; rfl
          rw [htr]
          simp only
          split
          · exact ⟨_, rfl⟩
          · next a b hr =>
            have := h init last hcs ht a b hr
            rw [if_neg (by omega)]; exact ⟨_, rfl⟩
    · simp only [ht, Bool.false_eq_true, if_false]
      simp [tailSpaces]

theorem inline_rule_progress_newline {st : IState} (hi : InlineInv st) (silent : Bool)
    (ht : silent = false → TrailOK st) :
    ∃ o st', ruleNewline st silent = .ok (o, st') ∧ Advances st o := by
  obtain ⟨pre, w, post, hsrc, hpre, hlen, hw, hne⟩ := window_ok hi
  cases w with
  | nil => exact absurd rfl hne
  | cons c rest =>
    have hsl := window_eq hw
    -- the extent, when the window starts with a line feed
    have hext : c = '\n' → st.pos + newlineLen rest ≤ st.posMax ∧ Boundary st.src (st.pos + newlineLen rest) := by
      intro hc
      subst hc
      have hsplit : '\n' :: rest = ('\n' :: rest.takeWhile isSpTab) ++ rest.dropWhile isSpTab := by
        simp [List.takeWhile_append_dropWhile]
      have hbl : byteLen ('\n' :: rest.takeWhile isSpTab) = newlineLen rest := by
        simp only [byteLen, byteLen_takeWhile_spTab, newlineLen]
        have : ('\n' : Char).utf8Size = 1 := by decide
        omega
      constructor
      · rw [← hlen, hsplit, byteLen_append, hbl]; omega
      · rw [← hbl]; exact boundary_in_slice (by rw [← hsplit]; exact hsl)
    have hadv : ∀ (o : Option Nat), (o = if c ≠ '\n' then none else some (newlineLen rest)) → Advances st o := by
      intro o ho len hl
      subst ho
      split at hl
      · simp at hl
      · next hc =>
        simp only [Option.some.injEq] at hl; subst hl
        have := hext (by simpa using hc)
        exact ⟨by unfold newlineLen; omega, this.1, this.2⟩
    have hex : ∃ o st', ruleNewline st silent = .ok (o, st') := by
      unfold ruleNewline
      rw [hw]
      simp only
      split
      · exact ⟨_, _, rfl⟩
      · split
        · exact ⟨_, _, rfl⟩
        · next hs =>
          have hto := ht (by simpa using hs)
          obtain ⟨out, hout⟩ := trailingTextPop_tail_total st.children
            (fun init last h1 h2 a b hr => (hto init last h1 h2).2 a b hr)
          rw [hout]
          simp only
          have hle : tailSpaces (trailingTextGet st.children) ≤ st.pos := by
            unfold trailingTextGet
            rcases popLast_spec st.children with ⟨hp, _⟩ | ⟨init, last, hp, hcs⟩
            · rw [hp]; simp [tailSpaces]
            · rw [hp]; simp only
              by_cases htx : last.isText = true
              · simp only [htx, if_true]; exact (hto init last hcs htx).1
              · simp [htx, tailSpaces]
          rw [if_neg (by omega)]
          obtain ⟨x, y, hm, _, _⟩ := getMap_ok (st := st) hi.wf
            (a := st.pos - tailSpaces (trailingTextGet st.children))
            (b := st.pos + 1 + (List.takeWhile isSpTab rest).length) (by omega)
          rw [hm]
          exact ⟨_, _, rfl⟩
    obtain ⟨o, st', h⟩ := hex
    exact ⟨o, st', h, hadv o (ruleNewline_verdict hw h)⟩

/-- **silent = real (newline).** -/
theorem silent_real_newline {st : IState} {n : Nat} {st1 : IState}
    (hs : ruleNewline st true = .ok (some n, st1)) :
    st1 = st ∧ ∀ o st2, ruleNewline st false = .ok (o, st2) → o = some n ∧ st2.pos = st.pos := by
  have h1 : st1 = st := by
    unfold ruleNewline at hs
    split at hs
    · simp at hs
    · simp at hs
    · split at hs
      · simp at hs
      · simp only [if_true, Except.ok.injEq, Prod.mk.injEq] at hs; exact hs.2.symm
  refine ⟨h1, ?_⟩
  intro o st2 hr
  cases hw : st.window with
  | error e => unfold ruleNewline at hs; rw [hw] at hs; simp at hs
  | ok w =>
    cases w with
    | nil => unfold ruleNewline at hs; rw [hw] at hs; simp at hs
    | cons c rest =>
      have v1 := ruleNewline_verdict hw hs
      have v2 := ruleNewline_verdict hw hr
      exact ⟨by rw [v2, ← v1], (ruleNewline_simple hr).pos⟩

/-! ## escape -/

/-- the verdict of the escape rule as a function of the window -/
def escapeLen (w : List Char) : Option Nat :=
  match Entity.escapeCore w with
  | .ok (some (.hardbreak len)) => some len
  | .ok (some (.special sp)) => some (byteLen sp.markup)
  | _ => none

theorem escapeCore_hardbreak {w : List Char} {len : Nat}
    (h : Entity.escapeCore w = .ok (some (.hardbreak len))) :
    ∃ w', w = '\\' :: '\n' :: w' ∧
      len = 2 + (Entity.splitRun (fun x => x == ' ' || x == '\t') w').1.length := by
  unfold Entity.escapeCore at h
  split at h
  · simp at h
  · next c w1 =>
    split at h
    · simp at h
    · next hc =>
      split at h
      · simp at h
      · next chr w' =>
        split at h
        · next hn =>
          simp only [Except.ok.injEq, Option.some.injEq, Entity.EscOut.hardbreak.injEq] at h
          have hc' : c = '\\' := by simpa using hc
          have hn' : chr = '\n' := by simpa using hn
          subst hc' hn'
          exact ⟨w', rfl, h.symm⟩
        · simp at h

theorem escapeCore_special {w : List Char} {sp : Entity.Special}
    (h : Entity.escapeCore w = .ok (some (.special sp))) :
    ∃ chr w', w = '\\' :: chr :: w' ∧ sp.markup = ['\\', chr] := by
  unfold Entity.escapeCore at h
  split at h
  · simp at h
  · next c w1 =>
    split at h
    · simp at h
    · next hc =>
      split at h
      · simp at h
      · next chr w' =>
        split at h
        · simp at h
        · simp only [Except.ok.injEq, Option.some.injEq, Entity.EscOut.special.injEq] at h
          have hc' : c = '\\' := by simpa using hc
          subst hc'
          exact ⟨chr, w', rfl, by rw [← h]⟩

theorem escapeCore_total {w : List Char} (hne : w ≠ []) : ∃ r, Entity.escapeCore w = .ok r := by
  unfold Entity.escapeCore
  cases w with
  | nil => exact absurd rfl hne
  | cons c w1 =>
    simp only
    split
    · exact ⟨_, rfl⟩
    · split
      · exact ⟨_, rfl⟩
      · split <;> exact ⟨_, rfl⟩

theorem ruleEscape_simple {st st' : IState} {silent : Bool} {o : Option Nat}
    (h : ruleEscape st silent = .ok (o, st')) : Simple st silent o st' := by
  unfold ruleEscape at h
  split at h
  · simp at h
  · next w hw =>
    split at h
    · simp at h
    · simp only [Except.ok.injEq, Prod.mk.injEq] at h; obtain ⟨rfl, rfl⟩ := h
      exact ⟨Frame.refl _, rfl, rfl, fun _ => Quiet.refl _, by simp⟩
    · next len hc =>
      obtain ⟨w', _, hlen⟩ := escapeCore_hardbreak hc
      split at h
      · simp only [Except.ok.injEq, Prod.mk.injEq] at h; obtain ⟨rfl, rfl⟩ := h
        refine ⟨Frame.refl _, rfl, rfl, fun _ => Quiet.refl _, ?_⟩
        intro l hl; simp only [Option.some.injEq] at hl; omega
      · next hs =>
        split at h
        · simp at h
        · simp only [Except.ok.injEq, Prod.mk.injEq] at h; obtain ⟨rfl, rfl⟩ := h
          refine ⟨⟨rfl, rfl, rfl, rfl, rfl⟩, rfl, rfl, fun hq => absurd hq hs, ?_⟩
          intro l hl; simp only [Option.some.injEq] at hl; omega
    · next sp hc =>
      obtain ⟨chr, w', _, hmk⟩ := escapeCore_special hc
      have hb : 1 ≤ byteLen sp.markup := by
        rw [hmk]; have := Char.utf8Size_pos chr; simp only [byteLen]; omega
      simp only at h
      split at h
      · simp only [Except.ok.injEq, Prod.mk.injEq] at h; obtain ⟨rfl, rfl⟩ := h
        refine ⟨Frame.refl _, rfl, rfl, fun _ => Quiet.refl _, ?_⟩
        intro l hl; simp only [Option.some.injEq] at hl; omega
      · next hs =>
        split at h
        · simp at h
        · simp only [Except.ok.injEq, Prod.mk.injEq] at h; obtain ⟨rfl, rfl⟩ := h
          refine ⟨⟨rfl, rfl, rfl, rfl, rfl⟩, rfl, rfl, fun hq => absurd hq hs, ?_⟩
          intro l hl; simp only [Option.some.injEq] at hl; omega

theorem ruleEscape_verdict {st st' : IState} {silent : Bool} {o : Option Nat} {w : List Char}
    (hw : st.window = .ok w) (h : ruleEscape st silent = .ok (o, st')) : o = escapeLen w := by
  unfold ruleEscape at h
  rw [hw] at h
  simp only at h
  unfold escapeLen
  split at h
  · simp at h
  · next hc => rw [hc]; simp only [Except.ok.injEq, Prod.mk.injEq] at h; exact h.1.symm
  · next len hc =>
    rw [hc]
    split at h
    · simp only [Except.ok.injEq, Prod.mk.injEq] at h; exact h.1.symm
    · split at h
      · simp at h
      · simp only [Except.ok.injEq, Prod.mk.injEq] at h; exact h.1.symm
  · next sp hc =>
    rw [hc]
    split at h
    · simp only [Except.ok.injEq, Prod.mk.injEq] at h; exact h.1.symm
    · split at h
      · simp at h
      · simp only [Except.ok.injEq, Prod.mk.injEq] at h; exact h.1.symm

theorem escapeLen_prefix {w : List Char} {len : Nat} (h : escapeLen w = some len) :
    2 ≤ len ∧ ∃ u v, w = u ++ v ∧ byteLen u = len := by
  unfold escapeLen at h
  split at h
  · next l hc =>
    simp only [Option.some.injEq] at h; subst h
    obtain ⟨w', rfl, hl⟩ := escapeCore_hardbreak hc
    have hs := Entity.splitRun_sound (fun x => x == ' ' || x == '\t') w'
    refine ⟨by omega, '\\' :: '\n' :: (Entity.splitRun (fun x => x == ' ' || x == '\t') w').1,
      (Entity.splitRun (fun x => x == ' ' || x == '\t') w').2, ?_, ?_⟩
    · simp only [List.cons_append, List.cons.injEq, true_and]; exact hs.2.1
    · have hasc : byteLen (Entity.splitRun (fun x => x == ' ' || x == '\t') w').1
          = (Entity.splitRun (fun x => x == ' ' || x == '\t') w').1.length :=
        byteLen_ascii _ (fun c hc => isSpTab_size (by have := hs.1 c hc; simpa [isSpTab] using this))
      have e1 : ('\\' : Char).utf8Size = 1 := by decide
      have e2 : ('\n' : Char).utf8Size = 1 := by decide
      simp only [byteLen, hasc, e1, e2]; omega
  · next sp hc =>
    simp only [Option.some.injEq] at h; subst h
    obtain ⟨chr, w', rfl, hmk⟩ := escapeCore_special hc
    have e1 : ('\\' : Char).utf8Size = 1 := by decide
    have := Char.utf8Size_pos chr
    refine ⟨by rw [hmk]; simp only [byteLen, e1]; omega, ['\\', chr], w', by simp, by rw [hmk]⟩
  · simp at h

theorem inline_rule_progress_escape {st : IState} (hi : InlineInv st) (silent : Bool) :
    ∃ o st', ruleEscape st silent = .ok (o, st') ∧ Advances st o := by
  obtain ⟨pre, w, post, hsrc, hpre, hlen, hw, hne⟩ := window_ok hi
  have hsl := window_eq hw
  have hadv : ∀ (o : Option Nat), o = escapeLen w → Advances st o := by
    intro o ho len hl
    subst ho
    obtain ⟨h2, u, v, huv, hu⟩ := escapeLen_prefix hl
    refine ⟨by omega, ?_, ?_⟩
    · rw [← hlen, ← hu, huv, byteLen_append]; omega
    · rw [← hu]; exact boundary_in_slice (by rw [← huv]; exact hsl)
  have hex : ∃ o st', ruleEscape st silent = .ok (o, st') := by
    obtain ⟨r, hr⟩ := escapeCore_total hne
    unfold ruleEscape
    rw [hw]
    simp only [hr]
    match r with
    | none => exact ⟨_, _, rfl⟩
    | some (.hardbreak len) =>
      simp only
      split
      · exact ⟨_, _, rfl⟩
      · obtain ⟨x, y, hm, _, _⟩ := getMap_ok (st := st) hi.wf (a := st.pos) (b := st.pos + 2) (by omega)
        rw [hm]; exact ⟨_, _, rfl⟩
    | some (.special sp) =>
      simp only
      split
      · exact ⟨_, _, rfl⟩
      · obtain ⟨x, y, hm, _, _⟩ := getMap_ok (st := st) hi.wf (a := st.pos)
          (b := st.pos + byteLen sp.markup) (by omega)
        rw [hm]; exact ⟨_, _, rfl⟩
  obtain ⟨o, st', h⟩ := hex
  exact ⟨o, st', h, hadv o (ruleEscape_verdict hw h)⟩

/-- **silent = real (escape).** -/
theorem silent_real_escape {st : IState} {n : Nat} {st1 : IState}
    (hs : ruleEscape st true = .ok (some n, st1)) :
    st1 = st ∧ ∀ o st2, ruleEscape st false = .ok (o, st2) → o = some n ∧ st2.pos = st.pos := by
  have h1 : st1 = st := by
    unfold ruleEscape at hs
    split at hs
    · simp at hs
    · split at hs
      · simp at hs
      · simp at hs
      · simp only [if_true, Except.ok.injEq, Prod.mk.injEq] at hs; exact hs.2.symm
      · simp only [if_true, Except.ok.injEq, Prod.mk.injEq] at hs; exact hs.2.symm
  refine ⟨h1, ?_⟩
  intro o st2 hr
  cases hw : st.window with
  | error e => unfold ruleEscape at hs; rw [hw] at hs; simp at hs
  | ok w =>
    have v1 := ruleEscape_verdict hw hs
    have v2 := ruleEscape_verdict hw hr
    exact ⟨by rw [v2, ← v1], (ruleEscape_simple hr).pos⟩

/-! ## entity -/

/-- the characters a character reference consists of behind its `&` -/
def isEntChar (c : Char) : Bool := c == '#' || c == ';' || Entity.isAlnumI c

theorem isAlnum_isAlnumI {c : Char} (h : Entity.isAlnum c = true) : Entity.isAlnumI c = true := by
  unfold Entity.isAlnum at h
  unfold Entity.isAlnumI Entity.isAlphaI
  simp only [Bool.or_eq_true] at h ⊢
  rcases h with h | h
  · exact Or.inl (Or.inl (Or.inl h))
  · exact Or.inr h

/-- what a successful `entityCore` matched: a prefix `&…;` of the suffix it was shown, made of
    reference characters -/
theorem entityCore_some {lookup : List Char → Option (List Char)} {w suffix : List Char}
    {sp : Entity.Special} (h : Entity.entityCore lookup w suffix = .ok (some sp)) :
    ∃ t rest, sp.markup = '&' :: t ∧ suffix = sp.markup ++ rest ∧ ∀ c ∈ t, isEntChar c = true := by
  unfold Entity.entityCore at h
  split at h
  · simp at h
  · next c w1 =>
    split at h
    · simp at h
    · split at h
      · -- digital
        unfold Entity.parseDigitalEntity at h
        split at h
        · simp at h
        · next cap rest hm =>
          simp only at h
          split at h
          · simp at h
          · next content hd =>
            simp only [Except.ok.injEq, Option.some.injEq] at h
            subst h
            unfold Entity.matchDigitalRe at hm
            split at hm
            · next s' =>
              obtain ⟨hb, hs'⟩ := Entity.matchDigitalBody_sound _ _ _ hm
              obtain ⟨hal, _, _⟩ := Entity.numericBody_alnum cap hb
              refine ⟨'#' :: (cap ++ [';']), rest, rfl, ?_, ?_⟩
              · simp [hs']
              · intro x hx
                simp only [List.mem_cons, List.mem_append, List.mem_nil_iff, or_false] at hx
                rcases hx with rfl | hx | rfl
                · decide
                · unfold isEntChar; simp [isAlnum_isAlnumI (hal x hx)]
                · decide
            · simp at hm
      · -- named
        unfold Entity.parseNamedEntity at h
        split at h
        · simp at h
        · next whole rest hm =>
          split at h
          · simp at h
          · next str hl =>
            simp only [Except.ok.injEq, Option.some.injEq] at h
            subst h
            unfold Entity.matchNamedRe at hm
            split at hm
            · next c2 s' =>
              split at hm
              · next hc2 =>
                split at hm
                · next run rest' hr =>
                  simp only [Option.some.injEq, Prod.mk.injEq] at hm
                  obtain ⟨rfl, rfl⟩ := hm
                  obtain ⟨hall, _, _, hs'⟩ := Entity.runThenSemi_sound _ _ _ _ _ hr
                  refine ⟨c2 :: (run ++ [';']), rest', rfl, ?_, ?_⟩
                  · simp [hs']
                  · intro x hx
                    simp only [List.mem_cons, List.mem_append, List.mem_nil_iff, or_false] at hx
                    rcases hx with rfl | hx | rfl
                    · unfold isEntChar Entity.isAlnumI; simp [hc2]
                    · unfold isEntChar; simp [hall x hx]
                    · decide
                · simp at hm
              · simp at hm
            · simp at hm

theorem entityCore_total (lookup : List Char → Option (List Char)) {w : List Char} (hne : w ≠ [])
    (suffix : List Char) : ∃ r, Entity.entityCore lookup w suffix = .ok r := by
  unfold Entity.entityCore
  cases w with
  | nil => exact absurd rfl hne
  | cons c w1 =>
    simp only
    split
    · exact ⟨_, rfl⟩
    · split
      · unfold Entity.parseDigitalEntity
        split
        · exact ⟨_, rfl⟩
        · next cap rest hm =>
          have hb : Entity.numericBody cap = true := by
            unfold Entity.matchDigitalRe at hm
            split at hm
            · exact (Entity.matchDigitalBody_sound _ _ _ hm).1
            · simp at hm
          simp only [Entity.numeric_parse_total cap hb]
          exact ⟨_, rfl⟩
      · unfold Entity.parseNamedEntity
        split
        · exact ⟨_, rfl⟩
        · split <;> exact ⟨_, rfl⟩

theorem ruleEntity_simple {cfg : Cfg} {st st' : IState} {silent : Bool} {o : Option Nat}
    (h : ruleEntity cfg st silent = .ok (o, st')) : Simple st silent o st' := by
  unfold ruleEntity at h
  split at h
  · simp at h
  · next w hw =>
    split at h
    · simp at h
    · split at h
      · simp only [Except.ok.injEq, Prod.mk.injEq] at h; obtain ⟨rfl, rfl⟩ := h
        exact ⟨Frame.refl _, rfl, rfl, fun _ => Quiet.refl _, by simp⟩
      · split at h
        · simp at h
        · next suffix hsuf =>
          split at h
          · simp at h
          · simp only [Except.ok.injEq, Prod.mk.injEq] at h; obtain ⟨rfl, rfl⟩ := h
            exact ⟨Frame.refl _, rfl, rfl, fun _ => Quiet.refl _, by simp⟩
          · next sp hc =>
            obtain ⟨t, rest, hmk, _, _⟩ := entityCore_some hc
            have hb : 1 ≤ byteLen sp.markup := by
              rw [hmk]; have := Char.utf8Size_pos '&'; simp only [byteLen]; omega
            simp only at h
            split at h
            · simp only [Except.ok.injEq, Prod.mk.injEq] at h; obtain ⟨rfl, rfl⟩ := h
              refine ⟨Frame.refl _, rfl, rfl, fun _ => Quiet.refl _, ?_⟩
              intro l hl; simp only [Option.some.injEq] at hl; omega
            · next hs =>
              split at h
              · simp at h
              · simp only [Except.ok.injEq, Prod.mk.injEq] at h; obtain ⟨rfl, rfl⟩ := h
                refine ⟨⟨rfl, rfl, rfl, rfl, rfl⟩, rfl, rfl, fun hq => absurd hq hs, ?_⟩
                intro l hl; simp only [Option.some.injEq] at hl; omega

/-- the verdict of the entity rule as a function of window and suffix -/
def entityLen (cfg : Cfg) (w suffix : List Char) : Option Nat :=
  match w with
  | [] => none
  | c :: _ =>
    if c ≠ '&' then none
    else
      match Entity.entityCore cfg.entity w suffix with
      | .ok (some sp) => some (byteLen sp.markup)
      | _ => none

theorem ruleEntity_verdict {cfg : Cfg} {st st' : IState} {silent : Bool} {o : Option Nat}
    {w suffix : List Char} (hw : st.window = .ok w)
    (hsuf : slice st.src st.pos (byteLen st.src) = .ok suffix)
    (h : ruleEntity cfg st silent = .ok (o, st')) : o = entityLen cfg w suffix := by
  unfold ruleEntity at h
  rw [hw] at h
  simp only at h
  unfold entityLen
  split at h
  · simp at h
  · next c w1 =>
    simp only
    split at h
    · next hc => rw [if_pos hc]; simp only [Except.ok.injEq, Prod.mk.injEq] at h; exact h.1.symm
    · next hc =>
      rw [if_neg hc]
      rw [hsuf] at h
      simp only [liftOps] at h
      split at h
      · simp at h
      · next hcore => rw [hcore]; simp only [Except.ok.injEq, Prod.mk.injEq] at h; exact h.1.symm
      · next sp hcore =>
        rw [hcore]
        split at h
        · simp only [Except.ok.injEq, Prod.mk.injEq] at h; exact h.1.symm
        · split at h
          · simp at h
          · simp only [Except.ok.injEq, Prod.mk.injEq] at h; exact h.1.symm

/-- the hypothesis the entity rule needs about `posMax` (its regexes look at `src[pos..]`, not at
    the window): the character AT `posMax`, if there is one, cannot continue a reference -/
def EntStop (src : List Char) (posMax : Nat) : Prop :=
  ∀ pre c post, src = pre ++ c :: post → byteLen pre = posMax → isEntChar c = false

theorem inline_rule_progress_entity (cfg : Cfg) {st : IState} (hi : InlineInv st)
    (hstop : EntStop st.src st.posMax) (silent : Bool) :
    ∃ o st', ruleEntity cfg st silent = .ok (o, st') ∧ Advances st o := by
  obtain ⟨pre, w, post, hsrc, hpre, hlen, hw, hne⟩ := window_ok hi
  have hsl := window_eq hw
  have hsuf : slice st.src st.pos (byteLen st.src) = .ok (w ++ post) :=
    (slice_ok_iff _ _ _ _).mpr ⟨pre, [], by rw [hsrc]; simp, hpre, by
      rw [hsrc, byteLen_append, byteLen_append, byteLen_append]; omega⟩
  have hadv : ∀ (o : Option Nat), o = entityLen cfg w (w ++ post) → Advances st o := by
    intro o ho len hl
    subst ho
    unfold entityLen at hl
    split at hl
    · simp at hl
    · next c w1 =>
      split at hl
      · simp at hl
      · next hc =>
        split at hl
        · next sp hcore =>
          simp only [Option.some.injEq] at hl; subst hl
          obtain ⟨t, rest, hmk, hsf, hall⟩ := entityCore_some hcore
          have hc' : c = '&' := by simpa using hc
          subst hc'
          -- the match does not reach beyond the window
          have hfit : byteLen sp.markup ≤ byteLen ('&' :: w1) := by
            rcases Nat.lt_or_ge (byteLen ('&' :: w1)) (byteLen sp.markup) with hlt | hge
            · exfalso
              obtain ⟨x, hx1, hx2⟩ := append_prefix ('&' :: w1) post sp.markup rest hsf (by omega)
              -- `x` is the part of the match behind the window; it is not empty
              cases x with
              | nil => simp at hx1; rw [hx1] at hlt; omega
              | cons p x' =>
                have hp : isEntChar p = true := by
                  apply hall
                  have : '&' :: t = '&' :: w1 ++ p :: x' := by rw [← hmk, hx1]
                  simp only [List.cons_append, List.cons.injEq, true_and] at this
                  rw [this]; simp
                have := hstop (pre ++ '&' :: w1) p (x' ++ rest) (by rw [hsrc, hx2]; simp)
                  (by rw [byteLen_append]; omega)
                rw [hp] at this; cases this
            · exact hge
          have hpre2 : ∃ v, '&' :: w1 = sp.markup ++ v := by
            obtain ⟨x, hx1, _⟩ := append_prefix sp.markup rest ('&' :: w1) post hsf.symm hfit
            exact ⟨x, hx1⟩
          obtain ⟨v, hv⟩ := hpre2
          refine ⟨?_, ?_, ?_⟩
          · rw [hmk]; have := Char.utf8Size_pos '&'; simp only [byteLen]; omega
          · omega
          · exact boundary_in_slice (by rw [← hv]; exact hsl)
        · simp at hl
  have hex : ∃ o st', ruleEntity cfg st silent = .ok (o, st') := by
    obtain ⟨r, hr⟩ := entityCore_total cfg.entity hne (w ++ post)
    unfold ruleEntity
    rw [hw]
    simp only
    cases w with
    | nil => exact absurd rfl hne
    | cons c w1 =>
      simp only
      split
      · exact ⟨_, _, rfl⟩
      · rw [hsuf]
        simp only [liftOps, hr]
        match r with
        | none => exact ⟨_, _, rfl⟩
        | some sp =>
          simp only
          split
          · exact ⟨_, _, rfl⟩
          · obtain ⟨x, y, hm, _, _⟩ := getMap_ok (st := st) hi.wf (a := st.pos)
              (b := st.pos + byteLen sp.markup) (by omega)
            rw [hm]; exact ⟨_, _, rfl⟩
  obtain ⟨o, st', h⟩ := hex
  exact ⟨o, st', h, hadv o (ruleEntity_verdict hw hsuf h)⟩

/-- **silent = real (entity).** -/
theorem silent_real_entity {cfg : Cfg} {st : IState} {n : Nat} {st1 : IState}
    (hs : ruleEntity cfg st true = .ok (some n, st1)) :
    st1 = st ∧ ∀ o st2, ruleEntity cfg st false = .ok (o, st2) → o = some n ∧ st2.pos = st.pos := by
  have h1 : st1 = st := by
    unfold ruleEntity at hs
    split at hs
    · simp at hs
    · split at hs
      · simp at hs
      · split at hs
        · simp at hs
        · split at hs
          · simp at hs
          · split at hs
            · simp at hs
            · simp at hs
            · simp only [if_true, Except.ok.injEq, Prod.mk.injEq] at hs; exact hs.2.symm
  refine ⟨h1, ?_⟩
  intro o st2 hr
  cases hw : st.window with
  | error e => unfold ruleEntity at hs; rw [hw] at hs; simp at hs
  | ok w =>
    cases hsuf : slice st.src st.pos (byteLen st.src) with
    | error e =>
      -- the suffix slice failed: then silent mode cannot have answered `some`
      exfalso
      unfold ruleEntity at hs
      rw [hw] at hs
      simp only at hs
      split at hs
      · simp at hs
      · split at hs
        · simp at hs
        · rw [hsuf] at hs; simp [liftOps] at hs
    | ok suffix =>
      have v1 := ruleEntity_verdict hw hsuf hs
      have v2 := ruleEntity_verdict hw hsuf hr
      exact ⟨by rw [v2, ← v1], (ruleEntity_simple hr).pos⟩

/-! ## code spans (through `MdIt.CodePair`) -/

theorem backtick_size : ('`' : Char).utf8Size = 1 := by decide

theorem scan_silent_node (v : CodePair.Variant) (m : Char) (src : List Char)
    (pos posMax n p matchEnd : Nat) (c : CodePair.Cache) (o : CodePair.Outcome) (c' : CodePair.Cache)
    (h : CodePair.scan v m src pos posMax n p true matchEnd c = .ok (some o, c')) : o.node = none := by
  fun_induction CodePair.scan v m src pos posMax n p true matchEnd c <;> simp_all
  all_goals (try (obtain ⟨rfl, _⟩ := h; rfl))

theorem run_silent_node (v : CodePair.Variant) (m : Char) (src : List Char) (pos posMax : Nat)
    (prev : Bool) (c : CodePair.Cache) (o : CodePair.Outcome) (c' : CodePair.Cache)
    (h : CodePair.run v m src pos posMax prev true c = .ok (some o, c')) : o.node = none := by
  unfold CodePair.run at h
  repeat' split at h
  all_goals first
    | exact scan_silent_node _ _ _ _ _ _ _ _ _ _ _ h
    | simp at h

theorem mkNode_ranges {src : List Char} {statePos p ms me n : Nat} {nd : CodePair.Node}
    (h : CodePair.mkNode src statePos p ms me n = .ok nd) :
    nd.rangeStart ≤ nd.rangeEnd ∧ nd.innerStart ≤ nd.innerEnd := by
  have hf : ∀ a b c d e (ct : List Char), CodePair.finishNode a b c d e ct = .ok nd →
      nd.rangeStart ≤ nd.rangeEnd ∧ nd.innerStart ≤ nd.innerEnd := by
    intro a b c d e ct hf
    unfold CodePair.finishNode at hf
    split at hf
    · split at hf
      · simp only [Except.ok.injEq] at hf; subst hf; exact ⟨by assumption, by assumption⟩
      · simp at hf
    · simp at hf
  unfold CodePair.mkNode at h
  split at h
  · simp at h
  · simp only at h
    split at h
    · split at h
      · simp at h
      · split at h
        · simp at h
        · exact hf _ _ _ _ _ _ h
    · exact hf _ _ _ _ _ _ h

theorem scan_node_ranges (v : CodePair.Variant) (m : Char) (src : List Char)
    (pos posMax n p : Nat) (silent : Bool) (matchEnd : Nat) (c : CodePair.Cache) (o : CodePair.Outcome)
    (c' : CodePair.Cache) (nd : CodePair.Node)
    (h : CodePair.scan v m src pos posMax n p silent matchEnd c = .ok (some o, c'))
    (hn : o.node = some nd) : nd.rangeStart ≤ nd.rangeEnd ∧ nd.innerStart ≤ nd.innerEnd := by
  fun_induction CodePair.scan v m src pos posMax n p silent matchEnd c <;> simp_all
  · obtain ⟨rfl, _⟩ := h; simp at hn
  · next hmk =>
    obtain ⟨rfl, _⟩ := h
    simp only [Option.some.injEq] at hn; subst hn
    exact mkNode_ranges hmk

theorem run_node_ranges (v : CodePair.Variant) (m : Char) (src : List Char) (pos posMax : Nat)
    (prev silent : Bool) (c : CodePair.Cache) (o : CodePair.Outcome) (c' : CodePair.Cache)
    (nd : CodePair.Node)
    (h : CodePair.run v m src pos posMax prev silent c = .ok (some o, c')) (hn : o.node = some nd) :
    nd.rangeStart ≤ nd.rangeEnd ∧ nd.innerStart ≤ nd.innerEnd := by
  unfold CodePair.run at h
  repeat' split at h
  all_goals first
    | exact scan_node_ranges _ _ _ _ _ _ _ _ _ _ _ _ _ h hn
    | simp at h

theorem ruleBackticks_simple {st st' : IState} {silent : Bool} {o : Option Nat}
    (h : ruleBackticks st silent = .ok (o, st')) : Simple st silent o st' := by
  unfold ruleBackticks at h
  split at h
  · simp at h
  · simp only [Except.ok.injEq, Prod.mk.injEq] at h; obtain ⟨rfl, rfl⟩ := h
    exact ⟨⟨rfl, rfl, rfl, rfl, rfl⟩, rfl, rfl, fun _ => ⟨rfl, rfl⟩, by simp⟩
  · next oc c hrun =>
    have hprog := (CodePair.codepair_progress _ _ backtick_size _ _ _ _ _ _ _ _ hrun).1
    split at h
    · simp only [Except.ok.injEq, Prod.mk.injEq] at h; obtain ⟨rfl, rfl⟩ := h
      refine ⟨⟨rfl, rfl, rfl, rfl, rfl⟩, rfl, rfl, fun _ => ⟨rfl, rfl⟩, ?_⟩
      intro l hl; simp only [Option.some.injEq] at hl; omega
    · next nd hnd =>
      split at h
      · simp at h
      · split at h
        · simp at h
        · simp only [Except.ok.injEq, Prod.mk.injEq] at h; obtain ⟨rfl, rfl⟩ := h
          refine ⟨⟨rfl, rfl, rfl, rfl, rfl⟩, rfl, rfl, ?_, ?_⟩
          · intro hs; subst hs
            have := run_silent_node _ _ _ _ _ _ _ _ _ hrun
            rw [this] at hnd; cases hnd
          · intro l hl; simp only [Option.some.injEq] at hl; omega

theorem inline_rule_progress_backticks {st : IState} (hi : InlineInv st) (silent : Bool) :
    ∃ o st', ruleBackticks st silent = .ok (o, st') ∧ Advances st o := by
  have hb1 := (codeBoundary_iff st.src st.pos).mpr hi.bpos
  have hb2 := (codeBoundary_iff st.src st.posMax).mpr hi.bmax
  obtain ⟨r, hr⟩ := CodePair.codepair_no_panic CodePair.Variant.current rfl '`' backtick_size st.src
    st.pos st.posMax false silent st.backticks hb1 hb2 hi.lt
  obtain ⟨oc, c⟩ := r
  have hadv : ∀ (o : CodePair.Outcome), oc = some o → Advances st (some o.len) := by
    intro o ho len hl
    subst ho
    simp only [Option.some.injEq] at hl; subst hl
    obtain ⟨h2, h3, h4⟩ := CodePair.codepair_progress _ _ backtick_size _ _ _ _ _ _ _ _ hr
    exact ⟨by omega, h3, (codeBoundary_iff _ _).mp h4⟩
  unfold ruleBackticks
  rw [hr]
  match oc, hadv with
  | none, _ => exact ⟨_, _, rfl, by intro len hl; simp at hl⟩
  | some o, hadv =>
    simp only
    cases hnd : o.node with
    | none => exact ⟨_, _, rfl, hadv o rfl⟩
    | some nd =>
      simp only
      obtain ⟨r1, r2⟩ := run_node_ranges _ _ _ _ _ _ _ _ _ _ nd hr hnd
      obtain ⟨x, y, hm, _, _⟩ := getMap_ok (st := st) hi.wf r1
      obtain ⟨x', y', hm', _, _⟩ := getMap_ok (st := st) hi.wf r2
      rw [hm, hm']
      exact ⟨_, _, rfl, hadv o rfl⟩

/-- **silent = real (code spans)**, from `CodePair.codepair_silent_real`: same verdict, same cache
    afterwards; look-ahead changes the code-span cache and nothing else. -/
theorem silent_real_backticks {st : IState} {n : Nat} {st1 : IState}
    (hs : ruleBackticks st true = .ok (some n, st1)) :
    st1 = { st with backticks := st1.backticks } ∧
    ∀ o st2, ruleBackticks st false = .ok (o, st2) →
      o = some n ∧ st2.pos = st.pos ∧ st2.backticks = st1.backticks := by
  have hsr := CodePair.codepair_silent_real CodePair.Variant.current '`' backtick_size st.src st.pos
    st.posMax false st.backticks
  unfold ruleBackticks at hs
  split at hs
  · simp at hs
  · simp at hs
  · next oc c hrun =>
    have hnone := run_silent_node _ _ _ _ _ _ _ _ _ hrun
    rw [hnone] at hs
    simp only [Except.ok.injEq, Prod.mk.injEq, Option.some.injEq] at hs
    obtain ⟨rfl, rfl⟩ := hs
    refine ⟨rfl, ?_⟩
    intro o st2 hr
    rw [hrun] at hsr
    unfold ruleBackticks at hr
    split at hr
    · next e he => rw [he] at hsr; simp [Except.map] at hsr
    · next c2 he =>
      rw [he] at hsr; simp [Except.map, CodePair.strip] at hsr
    · next oc2 c2 he =>
      rw [he] at hsr
      simp only [Except.map, CodePair.strip, Option.map_some, Except.ok.injEq, Prod.mk.injEq,
        Option.some.injEq] at hsr
      obtain ⟨hl, hc⟩ := hsr
      split at hr
      · simp only [Except.ok.injEq, Prod.mk.injEq] at hr; obtain ⟨rfl, rfl⟩ := hr
        exact ⟨by rw [hl], rfl, hc.symm⟩
      · split at hr
        · simp at hr
        · split at hr
          · simp at hr
          · simp only [Except.ok.injEq, Prod.mk.injEq] at hr; obtain ⟨rfl, rfl⟩ := hr
            exact ⟨by rw [hl], rfl, hc.symm⟩

end MdIt.Inline
