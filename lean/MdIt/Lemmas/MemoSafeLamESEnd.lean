/-
  Helper development for `Props/MemoSafe.lean`, fifth part (the escape landing): the statements of
  `Lemmas/MemoSafeLamESDef.lean`.

    * the code-span cache: `nl_ruleBackticks`, `backOK_BE`, `landHyp_holds`, `marksHyp_BE`, `agreeHyp_BE`,
      `backL2_BE`;
    * `endHyp_holds` — `CS.endHyp_holds` without the hypothesis on the text: the one token besides the unit
      step that ends strictly inside a run of backticks is the escape of a backtick, and then the previous
      character is escaped;
    * `endEP_holds`  — a look-ahead token from a non-escaped position ends at a non-escaped position;
    * `stepEP_below` — the same for one iteration of the REAL loop BELOW the nesting limit.  `StepEP` as
      stated carries the premise "below the limit" (over the limit it would be false); `stepEP_holds`.
-/
import MdIt.Lemmas.MemoSafeLamESDef

/-! ## `MdIt.CodePair`: where new marks come from -/

namespace MdIt.CodePair

/-- every mark a call adds lies behind the call's position, with markers all the way from there -/
theorem run_new_marks (v : Variant) (m : Char) (hm1 : m.utf8Size = 1) (src : List Char)
    (pos posMax : Nat) (prev silent : Bool) (c : Cache) (r : Option Outcome) (c' : Cache)
    (h : run v m src pos posMax prev silent c = .ok (r, c')) :
    ∀ q ∈ c'.insideFailed, q ∈ c.insideFailed ∨
      (pos < q ∧ ∀ i, pos ≤ i → i < q → charAt src i = some m) := by
  have hmark : ∀ {rest : List Char}, slice src pos posMax = some (m :: rest) → ∀ (e : Cache),
      e.insideFailed = c.insideFailed →
      ∀ q ∈ (markInside v pos (pos + 1 + runLen m rest) e).insideFailed, q ∈ c.insideFailed ∨
        (pos < q ∧ ∀ i, pos ≤ i → i < q → charAt src i = some m) := by
    intro rest hu e he q hq
    obtain ⟨x, T, Z, _, _, hx, hsrc, _⟩ := run_frame hm1 hu
    rw [markInside_inside] at hq
    split at hq
    · simp only [List.mem_append, mem_interior] at hq
      rcases hq with hq | hq
      · exact .inl (he ▸ hq)
      · exact .inr ⟨hq.1, fun i h1 h2 => opener_chars hm1 hsrc hx i h1 (by omega)⟩
    · exact .inl (he ▸ hq)
  cases run_path h with
  | other _ _ _ _ _ hc => subst hc; exact fun q hq => .inl hq
  | prevGuard _ _ _ _ _ hc => subst hc; exact fun q hq => .inl hq
  | inside _ _ _ _ _ hc => subst hc; exact fun q hq => .inl hq
  | consult rest _ hu _ _ _ _ _ hc => subst hc; exact hmark hu c rfl
  | scanned rest hu _ hs =>
    obtain ⟨x, T, Z, _, hT, hx, hsrc, f⟩ := run_frame hm1 hu
    cases r with
    | some o =>
      obtain ⟨_, _, _, _, _, _, hc', _⟩ :=
        scan_some v m hm1 src pos _ posMax _ silent _ Z T [] _ c o c' f hT hs
      rw [hc']; exact fun q hq => .inl hq
    | none =>
      obtain ⟨mx, hc', _, _⟩ := scan_none v m hm1 src pos _ posMax _ silent _ Z T [] _ c c' f hT hs
      intro q hq
      rw [hc', insideFailed_done] at hq
      exact hmark hu { c with max := mx } rfl q hq

end MdIt.CodePair

namespace MdIt.Inline.ES
open MdIt.Inline
open MdIt.Inline.CS (Interior MK InsideSub BC MarksHyp AgreeHyp)
open MdIt.InlineOps (Srcmap getSourcePosFor getMap byteLen slice)
open MdIt.C05 (WFMap byteLen_append slice_ok_iff)

/-! ## `esc` -/

theorem esc_of_last_ne {src : List Char} {v : Nat} (hv : 0 < v)
    (h : CodePair.charAt src (v - 1) ≠ some '\\') : esc src v = false := by
  have := esc_succ_of_ne h
  rwa [Nat.sub_add_cancel hv] at this

theorem esc_bs {src : List Char} {p : Nat} (hp : esc src p = false)
    (hc : CodePair.charAt src p = some '\\') : esc src (p + 1) = true := by
  simp [esc, hp, hc]

theorem esc_bs_bs {src : List Char} {p : Nat} (hp : esc src p = false)
    (h1 : CodePair.charAt src p = some '\\') : esc src (p + 2) = false := by
  have := esc_bs hp h1
  show ((CodePair.charAt src (p + 1) == some '\\') && !(esc src (p + 1))) = false
  rw [this]; simp

/-! ## 4: the code-span cache -/

theorem nl_ruleBackticks {st st' : IState} {silent : Bool} {o : Option Nat}
    (h : ruleBackticks st silent = .ok (o, st')) (hesc : esc st.src st.pos = false)
    (hnl : NL st.src st.backticks) : NL st'.src st'.backticks := by
  obtain ⟨hsrc, oc, hrun, _⟩ := ruleBackticks_run h
  rw [hsrc]
  intro q hq
  have hq' : q ∈ st'.backticks.insideFailed := by simpa using hq
  rcases CodePair.run_new_marks _ '`' backtick_size _ _ _ _ _ _ _ _ hrun q hq' with hold | ⟨hlt, hall⟩
  · exact hnl q (by simpa using hold)
  · by_cases h1 : q = st.pos + 1
    · subst h1; rw [Nat.add_sub_cancel]; exact hesc
    · have hc := hall (q - 2) (by omega) (by omega)
      have : esc st.src (q - 2 + 1) = false := esc_succ_of_ne (by rw [hc]; decide)
      have e : q - 2 + 1 = q - 1 := by omega
      rwa [e] at this

theorem backOK_BE (cfg : Cfg) : BackOK cfg (BE cfg) := by
  intro st silent o st' h hnc hep hb
  exact ⟨CS.backOK_BC st silent o st' h hnc hb.1,
    fun hmem => nl_ruleBackticks h (hep hmem) (hb.2 hmem)⟩

theorem landHyp_holds (cfg : Cfg) (src : List Char) : LandHyp cfg (BE cfg) src :=
  fun _ _ hb hmem hk => land_unmarked (hb.2 hmem) hk

theorem marksHyp_BE (cfg : Cfg) : MarksHyp cfg (BE cfg) :=
  fun skip tok fuel st st' hb => CS.marksHyp_holds cfg skip tok fuel st st' hb.1

theorem agreeHyp_BE (cfg : Cfg) (src : List Char) : AgreeHyp (BE cfg) src :=
  fun c d pos hc hd hni => CS.agreeHyp_holds src c d pos hc.1 hd.1 hni

theorem backL2_BE (cfg : Cfg) {src : List Char} {Mtop : Nat} (hnc : CodePair.NoCut '`' src Mtop) :
    CS.BackL2 cfg (BE cfg) src Mtop :=
  fun skip tok skip' tok' fuel fuel' st0 s h a b c d hb0 hb1 =>
    CS.backL2_holds cfg hnc skip tok skip' tok' fuel fuel' st0 s h a b c d hb0.1 hb1.1

/-! ## the last character of a look-ahead token is not a backslash (escape: a separate statement) -/

theorem last_ne_of_slice {src u' v : List Char} {a x : Char} {pos q : Nat}
    (h : slice src pos q = .ok (u' ++ a :: v)) (ha : a ≠ x) :
    CodePair.charAt src (pos + byteLen (u' ++ [a]) - 1) ≠ some x :=
  fun hc => ha (charAt_last h hc).symm

theorem text_last {st st' : IState} {n : Nat} (h : ruleText st true = .ok (some n, st')) :
    CodePair.charAt st.src (st.pos + n - 1) ≠ some '\\' := by
  obtain ⟨w, hw, hv⟩ := silent_verdict (V := textV) ruleText_silent h
  unfold textV at hv
  split at hv
  · simp at hv
  · next hne =>
    simp only [Except.ok.injEq, Option.some.injEq] at hv
    have hs := Entity.splitRun_sound (fun c => !Entity.textStop.contains c) w
    have hu : (Entity.splitRun (fun c => !Entity.textStop.contains c) w).1 ≠ [] := by
      intro e; unfold textLen at hne; rw [e] at hne; exact hne rfl
    obtain ⟨u', a, hua, hmem⟩ := snoc_of_ne_nil hu
    have ha : a ≠ '\\' := by
      intro e; subst e
      have := hs.1 _ hmem
      revert this; decide
    have hsl := window_eq hw
    rw [hs.2.1, hua, List.append_assoc, List.singleton_append] at hsl
    have := last_ne_of_slice hsl ha
    rw [← hua] at this
    unfold textLen at hv
    rw [hv] at this
    exact this

theorem newline_last {st st' : IState} {n : Nat} (h : ruleNewline st true = .ok (some n, st')) :
    CodePair.charAt st.src (st.pos + n - 1) ≠ some '\\' := by
  obtain ⟨w, hw, hv⟩ := silent_verdict (V := newlineV) ruleNewline_silent h
  unfold newlineV at hv
  cases w with
  | nil => simp at hv
  | cons c rest =>
    simp only at hv
    split at hv
    · simp at hv
    · next hc =>
      have hc' : c = '\n' := by simpa using hc
      subst hc'
      simp only [Except.ok.injEq, Option.some.injEq] at hv
      have htk : ('\n' :: rest.takeWhile isSpTab) ≠ [] := by simp
      obtain ⟨u', a, hua, hmem⟩ := snoc_of_ne_nil htk
      have ha : a ≠ '\\' := by
        intro e; subst e
        simp only [List.mem_cons] at hmem
        rcases hmem with hm | hm
        · revert hm; decide
        · have := mem_takeWhile_imp hm
          revert this; decide
      have hsl := window_eq hw
      have hsplit : '\n' :: rest = u' ++ a :: rest.dropWhile isSpTab := by
        have : '\n' :: rest = ('\n' :: rest.takeWhile isSpTab) ++ rest.dropWhile isSpTab := by
          simp [List.takeWhile_append_dropWhile]
        rw [this, hua]; simp
      rw [hsplit] at hsl
      have := last_ne_of_slice hsl ha
      rw [← hua] at this
      have e1 : ('\n' : Char).utf8Size = 1 := by decide
      have hlen : byteLen ('\n' :: rest.takeWhile isSpTab) = n := by
        simp only [byteLen, e1, byteLen_takeWhile_spTab]
        unfold newlineLen at hv; omega
      rw [hlen] at this
      exact this

theorem autolink_last {st st' : IState} {n : Nat} (h : ruleAutolink st true = .ok (some n, st')) :
    CodePair.charAt st.src (st.pos + n - 1) ≠ some '\\' := by
  obtain ⟨w, hw, hv⟩ := silent_verdict (V := autolinkV) ruleAutolink_silent h
  unfold autolinkV at hv
  cases w with
  | nil => simp at hv
  | cons c rest =>
    simp only at hv
    split at hv
    · simp at hv
    · next hc =>
      have hc' : c = '<' := by simpa using hc
      subst hc'
      obtain ⟨p, hp, hn⟩ := autolinkTail_some hv
      obtain ⟨u, v, hr, hpu⟩ := autolinkScan_spec hp
      have hsl := window_eq hw
      have hsplit : '<' :: rest = ('<' :: u) ++ '>' :: v := by rw [hr]; simp
      rw [hsplit] at hsl
      have := last_ne_of_slice hsl (by decide : ('>' : Char) ≠ '\\')
      have e1 : ('<' : Char).utf8Size = 1 := by decide
      have e2 : ('>' : Char).utf8Size = 1 := by decide
      have hlen : byteLen (('<' :: u) ++ ['>']) = n := by
        simp only [List.cons_append, byteLen, byteLen_append, e1, e2]; omega
      rw [hlen] at this
      exact this

theorem entity_last {cfg : Cfg} {st st' : IState} {n : Nat}
    (h : ruleEntity cfg st true = .ok (some n, st')) :
    CodePair.charAt st.src (st.pos + n - 1) ≠ some '\\' := by
  obtain ⟨w, hw, hv⟩ := silent_verdict (V := entityV cfg) (ruleEntity_silent cfg) h
  unfold entityV at hv
  cases w with
  | nil => simp at hv
  | cons c rest =>
    simp only at hv
    split at hv
    · simp at hv
    · split at hv
      · simp at hv
      · next suffix hsuf =>
        have hsuf' := liftOps_ok.mp hsuf
        split at hv
        · simp at hv
        · simp at hv
        · next sp hcore =>
          simp only [Except.ok.injEq, Option.some.injEq] at hv
          obtain ⟨t, rest', hmk, hsf, hall⟩ := entityCore_some hcore
          have hne : sp.markup ≠ [] := by rw [hmk]; simp
          obtain ⟨u', a, hua, hmem⟩ := snoc_of_ne_nil hne
          have ha : a ≠ '\\' := by
            intro e; subst e
            rw [hmk] at hmem
            simp only [List.mem_cons] at hmem
            rcases hmem with hm | hm
            · revert hm; decide
            · have := hall _ hm
              revert this; decide
          rw [hsf, hua, List.append_assoc, List.singleton_append] at hsuf'
          have := last_ne_of_slice hsuf' ha
          rw [← hua, hv] at this
          exact this

/-- a code span ends with a backtick -/
theorem backticks_last {st st' : IState} {n : Nat} (h : ruleBackticks st true = .ok (some n, st')) :
    CodePair.charAt st.src (st.pos + n - 1) = some '`' := by
  obtain ⟨c', hrun⟩ := (ruleBackticks_silent_some st n).mp ⟨st', h⟩
  cases CodePair.run_path hrun with
  | other _ _ _ _ hr _ => cases hr
  | prevGuard _ _ _ _ hr _ => cases hr
  | inside _ _ _ _ hr _ => cases hr
  | consult _ _ _ _ _ _ _ hr _ => cases hr
  | scanned rest hu _ hs =>
    obtain ⟨x, T, Z, _, hT, _, _, f⟩ := CodePair.run_frame backtick_size hu
    obtain ⟨ms, R, hms, hrun', _, ho, _, _⟩ :=
      CodePair.scan_some _ '`' backtick_size st.src st.pos _ st.posMax _ true _ Z T [] _ _ _ c' f hT hs
    obtain ⟨hl, hle, hall, _, _⟩ := hrun'
    have hn : n = ms + (1 + CodePair.runLen '`' rest) - st.pos := by
      have := congrArg CodePair.Outcome.len ho
      simpa using this
    have hge : st.pos ≤ ms := by have := f.hme; have := f.hpos; omega
    have := hall (ms + (1 + CodePair.runLen '`' rest) - 1) (by omega) (by omega)
    have e : ms + (1 + CodePair.runLen '`' rest) - 1 = st.pos + n - 1 := by omega
    rwa [e] at this

/-- **escape**: from a non-escaped position the token ends at a non-escaped position (an escaped
    backslash is the one token whose last character is a backslash) -/
theorem escape_end_esc {st st' : IState} {n : Nat} (h : ruleEscape st true = .ok (some n, st'))
    (hesc : esc st.src st.pos = false) : esc st.src (st.pos + n) = false := by
  obtain ⟨w, hw, hv⟩ := silent_verdict (V := escapeV) ruleEscape_silent h
  have hsl := window_eq hw
  have e1 : ('\\' : Char).utf8Size = 1 := by decide
  have e2 : ('\n' : Char).utf8Size = 1 := by decide
  unfold escapeV at hv
  split at hv
  · simp at hv
  · simp at hv
  · next len hcore =>
    simp only [Except.ok.injEq, Option.some.injEq] at hv
    obtain ⟨w', rfl, hlen⟩ := escapeCore_hardbreak hcore
    have hs := Entity.splitRun_sound (fun x => x == ' ' || x == '\t') w'
    have htk : ('\n' :: (Entity.splitRun (fun x => x == ' ' || x == '\t') w').1) ≠ [] := by simp
    obtain ⟨u2, a, hua2, hmem⟩ := snoc_of_ne_nil htk
    have ha : a ≠ '\\' := by
      intro e; subst e
      simp only [List.mem_cons] at hmem
      rcases hmem with hm | hm
      · revert hm; decide
      · have := hs.1 _ hm
        revert this; decide
    obtain ⟨u', hua⟩ : ∃ u', '\\' :: '\n' :: (Entity.splitRun (fun x => x == ' ' || x == '\t') w').1
        = u' ++ [a] := ⟨'\\' :: u2, by rw [hua2]; rfl⟩
    have hsplit : '\\' :: '\n' :: w' = u' ++ a :: (Entity.splitRun (fun x => x == ' ' || x == '\t') w').2 := by
      have : '\\' :: '\n' :: w' = ('\\' :: '\n' :: (Entity.splitRun (fun x => x == ' ' || x == '\t') w').1) ++
          (Entity.splitRun (fun x => x == ' ' || x == '\t') w').2 := by
        simp only [List.cons_append, List.cons.injEq, true_and]; exact hs.2.1
      rw [this, hua]; simp
    rw [hsplit] at hsl
    have hno := last_ne_of_slice hsl ha
    rw [← hua] at hno
    have hasc : byteLen (Entity.splitRun (fun x => x == ' ' || x == '\t') w').1
        = (Entity.splitRun (fun x => x == ' ' || x == '\t') w').1.length :=
      byteLen_ascii _ (fun c hc => isSpTab_size (by have := hs.1 c hc; simpa [isSpTab] using this))
    have hbl : byteLen ('\\' :: '\n' :: (Entity.splitRun (fun x => x == ' ' || x == '\t') w').1) = n := by
      simp only [byteLen, e1, e2, hasc]; omega
    rw [hbl] at hno
    exact esc_of_last_ne (by omega) hno
  · next sp hcore =>
    simp only [Except.ok.injEq, Option.some.injEq] at hv
    obtain ⟨chr, w', rfl, hmk⟩ := escapeCore_special hcore
    rw [hmk] at hv
    have hsl1 : slice st.src st.pos st.posMax = .ok (['\\'] ++ chr :: w') := hsl
    by_cases hchr : chr = '\\'
    · subst hchr
      have hn : n = 2 := by rw [← hv]; simp [byteLen, e1]
      subst hn
      exact esc_bs_bs hesc (CS.charAt_of_slice hsl)
    · have := last_ne_of_slice hsl1 hchr
      have hbl : byteLen (['\\'] ++ [chr]) = n := by rw [← hv]; rfl
      rw [hbl] at this
      have hpos := Char.utf8Size_pos chr
      exact esc_of_last_ne (by rw [← hv]; simp only [byteLen, e1]; omega) this

/-- a token that ends right behind `)` or `]` ends at a non-escaped position -/
theorem closedAt_esc {src : List Char} {e : Nat} (h : CS.ClosedAt src e) : esc src e = false := by
  obtain ⟨h1, x, hx, hx2⟩ := h
  apply esc_of_last_ne (by omega)
  rw [hx]
  rcases hx2 with rfl | rfl <;> decide

/-- **the flat rules in look-ahead mode**: from a non-escaped position a token ends at a non-escaped
    position -/
theorem flat_end_esc {cfg : Cfg} {skip tok : IState → Except Panic IState} {fuel : Nat} {id : RuleId}
    (hf : id.isFlat = true) {st : IState} {n : Nat} {st' : IState}
    (h : runRule cfg skip tok fuel id st true = .ok (some n, st'))
    (hesc : esc st.src st.pos = false) : esc st.src (st.pos + n) = false := by
  have hn := (runRule_flat_simple hf h).prog n rfl
  unfold runRule at h
  cases id with
  | text => exact esc_of_last_ne (by omega) (text_last (liftR_ok.mp h))
  | newline => exact esc_of_last_ne (by omega) (newline_last (liftR_ok.mp h))
  | escape => exact escape_end_esc (liftR_ok.mp h) hesc
  | backticks =>
    apply esc_of_last_ne (by omega)
    rw [backticks_last (liftR_ok.mp h)]; decide
  | emph mk csw =>
    have h' := liftR_ok.mp h
    rw [ruleEmph_silent] at h'
    simp at h'
  | link => simp [RuleId.isFlat] at hf
  | image => simp [RuleId.isFlat] at hf
  | linkEnd => simp at h
  | autolink => exact esc_of_last_ne (by omega) (autolink_last (liftR_ok.mp h))
  | entity => exact esc_of_last_ne (by omega) (entity_last (liftR_ok.mp h))

/-! ## 1: `EndHyp` without a hypothesis on the text -/

/-- a look-ahead token that ends strictly inside a run of backticks is the escape of a backtick -/
theorem rule_end_interior {cfg : Cfg} {skip tok : IState → Except Panic IState} (hq : CalmFn skip)
    (hs : SkipHypT skip) (fuel : Nat) (id : RuleId) {st : IState} (hi : LInv st)
    (hlt : st.pos < st.posMax) (hnc : CodePair.NoCut '`' st.src st.posMax) {n : Nat} {st' : IState}
    (h : runRule cfg skip tok fuel id st true = .ok (some n, st'))
    (hint : Interior st.src (st.pos + n)) :
    id = .escape ∧ n = 2 ∧ CodePair.charAt st.src st.pos = some '\\' := by
  have hT := (runRule_silent_T (cfg := cfg) (tok := tok) hq hs fuel id st hi hlt).ok _ _ h
  obtain ⟨_, _, hpos, hadv⟩ := hT
  obtain ⟨h1, hle, _⟩ := hadv n rfl
  by_cases hend : st.pos + n = st.posMax
  · rw [hend] at hint; exact absurd hint hnc
  have hlt2 : st.pos + n < st.posMax := by omega
  have hpair : CodePair.charAt st.src (st.pos + n - 1) = some '`' ∧
      CodePair.charAt st.src (st.pos + n) = some '`' := ⟨hint.2.1, hint.2.2⟩
  unfold runRule at h
  cases id with
  | text => exact absurd hpair (text_end_not_inside (liftR_ok.mp h))
  | newline => exact absurd hpair (newline_end_not_inside (liftR_ok.mp h))
  | escape =>
    have h' := liftR_ok.mp h
    obtain ⟨rest, hw⟩ := (escape_end_inside_iff h' hlt2).mp hpair
    obtain ⟨w, hw2, hv⟩ := silent_verdict (V := escapeV) ruleEscape_silent h'
    rw [hw] at hw2
    simp only [Except.ok.injEq] at hw2
    subst hw2
    have e1 : ('\\' : Char).utf8Size = 1 := by decide
    have e3 : ('`' : Char).utf8Size = 1 := by decide
    have hn : n = 2 := by
      simp [escapeV, Entity.escapeCore, byteLen, e1, e3] at hv
      omega
    exact ⟨rfl, hn, CS.charAt_of_slice (window_eq hw)⟩
  | backticks => exact absurd hpair (backticks_end_not_inside (liftR_ok.mp h) hlt2)
  | emph mk csw =>
    have h' := liftR_ok.mp h
    rw [ruleEmph_silent] at h'
    simp at h'
  | link =>
    exfalso
    simp only at h
    unfold ruleLink at h
    split at h
    · simp at h
    · simp at h
    · split at h
      · simp at h
      · have := CS.linkRule_closedAt hq h
        rw [hpos] at this
        exact CS.closedAt_not_interior this hint
  | image =>
    exfalso
    simp only at h
    unfold ruleImage at h
    split at h
    · simp at h
    · have := CS.linkRule_closedAt hq h
      rw [hpos] at this
      exact CS.closedAt_not_interior this hint
    · simp at h
  | linkEnd => simp at h
  | autolink => exact absurd hpair (autolink_end_not_inside (liftR_ok.mp h))
  | entity => exact absurd hpair (entity_end_not_inside (liftR_ok.mp h))

theorem endHyp_holds (cfg : Cfg) (B : List Char → CodePair.Cache → Prop) {src : List Char} {Mtop : Nat}
    (hnc : CodePair.NoCut '`' src Mtop) : EndHyp cfg B src Mtop := by
  intro m p k hJ hep hint hprev
  obtain ⟨skip0, tok0, f0, st0, st0', hq0, hs0, _, hi0, hsrc0, hmax0, hpos0, hlt0, _, _, hstep,
    hv, _⟩ := hJ
  obtain ⟨o0, w', hfr, _, hsome, hnone⟩ := skipStep_inv hstep
  obtain ⟨hi', hs', hm', hp'⟩ := wit_chain_step hq0 hs0 f0 cfg.chain hi0 hlt0 hfr
  cases o0 with
  | some n =>
    exfalso
    obtain ⟨id, hid, s, his, hss, hsm, hsp, hsb⟩ :=
      CS.firstRule_some_inv hq0 hs0 f0 cfg.chain st0 hi0 hlt0 n w' hfr
    obtain ⟨wb, hwb, _⟩ := silentBumped_ok hsb
    have hk : k = st0.pos + n := by rw [← hv, hsome n rfl, hp']
    obtain ⟨rfl, rfl, hbs⟩ := rule_end_interior (cfg := cfg) (tok := tok0) hq0 hs0 f0 id
      (st := { s with level := s.level + 1 }) his.bump
      (by show s.pos < s.posMax; rw [hsp, hsm]; exact hlt0)
      (by show CodePair.NoCut '`' s.src s.posMax; rw [hss, hsm, hsrc0, hmax0]; exact hnc) hwb
      (by show Interior s.src (s.pos + n); rw [hss, hsp, hsrc0, ← hk]; exact hint)
    -- the escape rule is in the chain: `p` is not escaped, `p + 1` is
    have hbs' : CodePair.charAt src p = some '\\' := by
      have : CodePair.charAt s.src s.pos = some '\\' := hbs
      rwa [hss, hsp, hsrc0, hpos0] at this
    have h1 := esc_bs (hep hid) hbs'
    have h2 := hprev hid
    have e : k - 1 = p + 1 := by omega
    rw [e, h1] at h2
    cases h2
  | none =>
    obtain ⟨c, hc, hpc⟩ := hnone rfl
    have hk : k = p + c.utf8Size := by rw [← hv, hpc, hp', hpos0]
    unfold firstChar at hc
    split at hc
    · simp at hc
    · simp at hc
    · next c1 rest hw =>
      simp only [Except.ok.injEq] at hc
      subst hc
      have hsl : slice src p Mtop = .ok ([] ++ c1 :: rest) := by
        have := window_eq (liftR_ok.mp hw)
        rw [hs', hp', hm', hsrc0, hpos0, hmax0] at this
        simpa using this
      have hx := charAt_last (c := '`') hsl (by
        have : p + byteLen ([] ++ [c1]) - 1 = k - 1 := by
          simp only [List.nil_append, byteLen]; omega
        rw [this]; exact hint.2.1)
      subst hx
      rw [hk]; rfl

/-! ## 2: `EndEP` -/

/-- one rule, look-ahead mode: from a non-escaped position a token ends at a non-escaped position -/
theorem rule_end_esc {cfg : Cfg} {skip tok : IState → Except Panic IState} (hq : CalmFn skip)
    (hs : SkipHypT skip) (fuel : Nat) (id : RuleId) {st : IState} (hi : LInv st)
    (hlt : st.pos < st.posMax) (hesc : esc st.src st.pos = false) {n : Nat} {st' : IState}
    (h : runRule cfg skip tok fuel id st true = .ok (some n, st')) :
    esc st.src (st.pos + n) = false := by
  by_cases hf : id.isFlat = true
  · exact flat_end_esc hf h hesc
  · have hT := (runRule_silent_T (cfg := cfg) (tok := tok) hq hs fuel id st hi hlt).ok _ _ h
    obtain ⟨_, _, hpos, _⟩ := hT
    unfold runRule at h
    cases id with
    | link =>
      simp only at h
      unfold ruleLink at h
      split at h
      · simp at h
      · simp at h
      · split at h
        · simp at h
        · have := CS.linkRule_closedAt hq h
          rw [hpos] at this
          exact closedAt_esc this
    | image =>
      simp only at h
      unfold ruleImage at h
      split at h
      · simp at h
      · have := CS.linkRule_closedAt hq h
        rw [hpos] at this
        exact closedAt_esc this
      · simp at h
    | _ => simp [RuleId.isFlat] at hf

/-- the unit step over a character that is not a backslash ends at a non-escaped position -/
theorem unit_esc {src : List Char} {p q : Nat} {c : Char} {rest : List Char}
    (hsl : slice src p q = .ok (c :: rest)) (hc : c ≠ '\\') : esc src (p + c.utf8Size) = false := by
  have hpos := Char.utf8Size_pos c
  apply esc_of_last_ne (by omega)
  have hsl' : slice src p q = .ok ([] ++ c :: rest) := by simpa using hsl
  have := last_ne_of_slice hsl' hc
  simpa [byteLen] using this

/-- the escape rule declines at a backslash only when the backslash is the last character of the window -/
theorem escape_declines_bs {st st' : IState} {rest : List Char}
    (hw : st.window = .ok ('\\' :: rest)) (h : ruleEscape st true = .ok (none, st')) : rest = [] := by
  obtain ⟨w, hw2, hv⟩ := silent_verdict (V := escapeV) ruleEscape_silent h
  rw [hw] at hw2
  simp only [Except.ok.injEq] at hw2
  subst hw2
  cases rest with
  | nil => rfl
  | cons x r =>
    exfalso
    have hcore : ∃ e, Entity.escapeCore ('\\' :: x :: r) = .ok (some e) := by
      unfold Entity.escapeCore
      simp only [bne_self_eq_false, Bool.false_eq_true, if_false]
      split <;> exact ⟨_, rfl⟩
    obtain ⟨e, he⟩ := hcore
    unfold escapeV at hv
    rw [he] at hv
    cases e <;> simp at hv

/-- a look-ahead chain that declined: every rule of it declined, at a state with the same text, position
    and `pos_max` -/
theorem firstRule_none_inv {cfg : Cfg} {skip tok : IState → Except Panic IState} (hq : CalmFn skip)
    (hs : SkipHypT skip) (fuel : Nat) :
    ∀ (rules : List RuleId) (st : IState), LInv st → st.pos < st.posMax →
      ∀ w', firstRule (fun id s => silentBumped (runRule cfg skip tok fuel id) s) rules st
          = .ok (none, w') →
        ∀ id ∈ rules, ∃ s s1, s.src = st.src ∧ s.posMax = st.posMax ∧ s.pos = st.pos ∧
          silentBumped (runRule cfg skip tok fuel id) s = .ok (none, s1) := by
  intro rules
  induction rules with
  | nil => intro st _ _ w' _ id hid; simp at hid
  | cons r rs ih =>
    intro st hi hlt w' h id hid
    unfold firstRule at h
    split at h
    · simp at h
    · simp at h
    · next st1 he =>
      obtain ⟨hi1, hs1, hm1, hp1⟩ := wit_step hq hs fuel r hi hlt he
      simp only [List.mem_cons] at hid
      rcases hid with rfl | hid
      · exact ⟨st, st1, rfl, rfl, rfl, he⟩
      · obtain ⟨s, s1, a2, a3, a4, a5⟩ := ih st1 hi1 (by rw [hp1, hm1]; exact hlt) w' h id hid
        exact ⟨s, s1, a2.trans hs1, a3.trans hm1, a4.trans hp1, a5⟩

theorem endEP_holds (cfg : Cfg) (B : List Char → CodePair.Cache → Prop) {src : List Char} {Mtop : Nat} :
    EndEP cfg B src Mtop := by
  intro m p v hJ hep hvlt hmem
  have hesc := hep hmem
  obtain ⟨skip0, tok0, f0, st0, st0', hq0, hs0, _, hi0, hsrc0, hmax0, hpos0, hlt0, _, _, hstep,
    hv, _⟩ := hJ
  obtain ⟨o0, w', hfr, _, hsome, hnone⟩ := skipStep_inv hstep
  obtain ⟨hi', hs', hm', hp'⟩ := wit_chain_step hq0 hs0 f0 cfg.chain hi0 hlt0 hfr
  cases o0 with
  | some n =>
    obtain ⟨id, hid, s, his, hss, hsm, hsp, hsb⟩ :=
      CS.firstRule_some_inv hq0 hs0 f0 cfg.chain st0 hi0 hlt0 n w' hfr
    obtain ⟨wb, hwb, _⟩ := silentBumped_ok hsb
    have hk : v = st0.pos + n := by rw [← hv, hsome n rfl, hp']
    have := rule_end_esc (cfg := cfg) (tok := tok0) hq0 hs0 f0 id
      (st := { s with level := s.level + 1 }) his.bump
      (by show s.pos < s.posMax; rw [hsp, hsm]; exact hlt0)
      (by show esc s.src s.pos = false; rw [hss, hsp, hsrc0, hpos0]; exact hesc) hwb
    have : esc s.src (s.pos + n) = false := this
    rwa [hss, hsp, hsrc0, ← hk] at this
  | none =>
    obtain ⟨c, hc, hpc⟩ := hnone rfl
    have hk : v = p + c.utf8Size := by rw [← hv, hpc, hp', hpos0]
    unfold firstChar at hc
    split at hc
    · simp at hc
    · simp at hc
    · next c1 rest hw =>
      simp only [Except.ok.injEq] at hc
      subst hc
      have hsl : slice src p Mtop = .ok (c1 :: rest) := by
        have := window_eq (liftR_ok.mp hw)
        rwa [hs', hp', hm', hsrc0, hpos0, hmax0] at this
      by_cases hc1 : c1 = '\\'
      · -- the escape rule (in the chain) declined at a backslash: the window is the lone backslash
        exfalso
        subst hc1
        obtain ⟨s, s1, hss, hsm, hsp, hsb⟩ :=
          firstRule_none_inv hq0 hs0 f0 cfg.chain st0 hi0 hlt0 w' hfr .escape hmem
        obtain ⟨wb, hwb, _⟩ := silentBumped_ok hsb
        unfold runRule at hwb
        have hwin : ({ s with level := s.level + 1 } : IState).window = .ok ('\\' :: rest) := by
          show s.window = _
          unfold IState.window
          rw [hss, hsp, hsm, hsrc0, hpos0, hmax0, hsl]; rfl
        have := escape_declines_bs hwin (liftR_ok.mp hwb)
        subst this
        obtain ⟨_, _, hlen⟩ := slice_boundaries hsl
        have e1 : ('\\' : Char).utf8Size = 1 := by decide
        simp only [byteLen, e1] at hlen hk
        omega
      · rw [hk]; exact unit_esc hsl hc1

/-! ## 3: one iteration of the REAL loop, below the nesting limit -/

/-- the link rule declines: text, position, `pos_max` are kept (either mode) -/
theorem linkRule_none {cfg : Cfg} {skip tok : IState → Except Panic IState} (hq : CalmFn skip)
    {fuel : Nat} {mk : List Nat → Option (List Char) → Val} {en : Bool} {offset : Nat} {st : IState}
    {silent : Bool} {s1 : IState}
    (h : linkRule cfg skip tok fuel mk en offset st silent = .ok (none, s1)) :
    s1.src = st.src ∧ s1.pos = st.pos ∧ s1.posMax = st.posMax := by
  unfold linkRule at h
  simp only at h
  split at h
  · simp at h
  · next st1 hpl =>
    simp only [Except.ok.injEq, Prod.mk.injEq, true_and] at h
    subst h
    have q := parseLink_calm hq hpl
    exact ⟨q.src, parseLink_pos hpl, q.posMax⟩
  · exfalso
    split at h
    · split at h <;> simp at h
    · split at h
      · simp at h
      · split at h
        · simp at h
        · split at h
          · simp at h
          · split at h <;> simp at h

/-- a rule that declines in real mode keeps text, position and `pos_max` -/
theorem real_none_keeps {cfg : Cfg} {skip tok : IState → Except Panic IState} (hq : CalmFn skip)
    {fuel : Nat} {id : RuleId} {s s1 : IState}
    (h : runRule cfg skip tok fuel id s false = .ok (none, s1)) :
    s1.src = s.src ∧ s1.pos = s.pos ∧ s1.posMax = s.posMax := by
  by_cases hf : id.isFlat = true
  · obtain ⟨a, _, b, c, _⟩ := flat_keeps hf h
    exact ⟨b, a, c⟩
  · unfold runRule at h
    cases id with
    | link =>
      simp only at h
      unfold ruleLink at h
      split at h
      · simp at h
      · simp at h
      · split at h
        · simp only [Except.ok.injEq, Prod.mk.injEq, true_and] at h; subst h; exact ⟨rfl, rfl, rfl⟩
        · exact linkRule_none hq h
    | image =>
      simp only at h
      unfold ruleImage at h
      split at h
      · simp at h
      · exact linkRule_none hq h
      · simp only [Except.ok.injEq, Prod.mk.injEq, true_and] at h; subst h; exact ⟨rfl, rfl, rfl⟩
    | _ => simp [RuleId.isFlat] at hf

/-- the real chain, read backwards -/
theorem realChain_inv {cfg : Cfg} {skip tok : IState → Except Panic IState} (hq : CalmFn skip)
    (fuel : Nat) :
    ∀ (rules : List RuleId) (st : IState) (o : Option Nat) (w' : IState),
      firstRule (fun id s => runRule cfg skip tok fuel id s false) rules st = .ok (o, w') →
      (∀ n, o = some n → ∃ id ∈ rules, ∃ s, s.src = st.src ∧ s.pos = st.pos ∧ s.posMax = st.posMax ∧
        runRule cfg skip tok fuel id s false = .ok (some n, w')) ∧
      (o = none → w'.src = st.src ∧ w'.pos = st.pos ∧ w'.posMax = st.posMax ∧
        ∀ id ∈ rules, ∃ s s1, s.src = st.src ∧ s.pos = st.pos ∧ s.posMax = st.posMax ∧
          runRule cfg skip tok fuel id s false = .ok (none, s1)) := by
  intro rules
  induction rules with
  | nil =>
    intro st o w' h
    simp only [firstRule, Except.ok.injEq, Prod.mk.injEq] at h
    obtain ⟨rfl, rfl⟩ := h
    exact ⟨by intro n hn; simp at hn, fun _ => ⟨rfl, rfl, rfl, by intro id hid; simp at hid⟩⟩
  | cons r rs ih =>
    intro st o w' h
    unfold firstRule at h
    split at h
    · simp at h
    · next n1 s1 he =>
      simp only [Except.ok.injEq, Prod.mk.injEq] at h
      obtain ⟨rfl, rfl⟩ := h
      refine ⟨?_, by intro hh; simp at hh⟩
      intro n hn
      simp only [Option.some.injEq] at hn
      subst hn
      exact ⟨r, by simp, st, rfl, rfl, rfl, he⟩
    · next s1 he =>
      obtain ⟨k1, k2, k3⟩ := real_none_keeps hq he
      obtain ⟨a, b⟩ := ih s1 o w' h
      constructor
      · intro n hn
        obtain ⟨id, hid, s, b1, b2, b3, b4⟩ := a n hn
        exact ⟨id, List.mem_cons_of_mem _ hid, s, b1.trans k1, b2.trans k2, b3.trans k3, b4⟩
      · intro ho
        obtain ⟨c1, c2, c3, c4⟩ := b ho
        refine ⟨c1.trans k1, c2.trans k2, c3.trans k3, ?_⟩
        intro id hid
        simp only [List.mem_cons] at hid
        rcases hid with rfl | hid
        · exact ⟨st, s1, rfl, rfl, rfl, he⟩
        · obtain ⟨s, s2, d1, d2, d3, d4⟩ := c4 id hid
          exact ⟨s, s2, d1.trans k1, d2.trans k2, d3.trans k3, d4⟩

/-- one rule of a coherent chain in REAL mode: from a non-escaped position the token ends at a non-escaped
    position -/
theorem real_end_esc {cfg : Cfg} (hc : ChainCoherent cfg = true) (hmem : RuleId.escape ∈ cfg.chain)
    {skip tok : IState → Except Panic IState} (hq : CalmFn skip) {fuel : Nat} {id : RuleId}
    (hid : id ∈ cfg.chain) {s : IState} (hesc : esc s.src s.pos = false) {n : Nat} {w' : IState}
    (h : runRule cfg skip tok fuel id s false = .ok (some n, w')) :
    esc s.src (w'.pos + n) = false := by
  have hflat : ∀ (hid6 : id = .text ∨ id = .newline ∨ id = .escape ∨ id = .backticks ∨
      id = .autolink ∨ id = .entity), esc s.src (w'.pos + n) = false := by
    intro hid6
    obtain ⟨s'', hs⟩ := real_silent_verdict id hid6 h
    have hf : id.isFlat = true := by
      rcases hid6 with rfl | rfl | rfl | rfl | rfl | rfl <;> rfl
    rw [(flat_keeps hf h).1]
    exact flat_end_esc hf hs hesc
  cases id with
  | text => exact hflat (by simp)
  | newline => exact hflat (by simp)
  | escape => exact hflat (by simp)
  | backticks => exact hflat (by simp)
  | autolink => exact hflat (by simp)
  | entity => exact hflat (by simp)
  | linkEnd => unfold runRule at h; simp at h
  | emph mk csw =>
    obtain ⟨hmk, hfire⟩ := coherent_marker hc hid
    have hne : mk ≠ '\\' := by
      have := hfire .escape hmem
      simp only [RuleId.firesAt, beq_eq_false_iff_ne, ne_eq] at this
      exact this
    unfold runRule at h
    have h' := liftR_ok.mp h
    have hpos := (ruleEmph_simple h').pos
    obtain ⟨hoff, hon⟩ := emph_real_L2 hmk h'
    cases hw : s.window with
    | error e => unfold ruleEmph at h'; rw [hw] at h'; simp at h'
    | ok w =>
      cases w with
      | nil => unfold ruleEmph at h'; rw [hw] at h'; simp at h'
      | cons c rest =>
        by_cases hcm : c = mk
        · subst hcm
          obtain ⟨n', ho, _, h1, _, hall⟩ := hon rest hw
          simp only [Option.some.injEq] at ho
          subst ho
          obtain ⟨r, hr⟩ := hall (n - 1) (by omega)
          have hat := CS.charAt_of_slice hr
          rw [hpos]
          apply esc_of_last_ne (by omega)
          have e : s.pos + (n - 1) = s.pos + n - 1 := by omega
          rw [← e, hat]
          simp only [ne_eq, Option.some.injEq]
          exact hne
        · have := (hoff c rest hw hcm).1
          simp at this
  | link =>
    unfold runRule at h
    simp only at h
    unfold ruleLink at h
    split at h
    · simp at h
    · simp at h
    · split at h
      · simp at h
      · exact closedAt_esc (CS.linkRule_closedAt hq h)
  | image =>
    unfold runRule at h
    simp only at h
    unfold ruleImage at h
    split at h
    · simp at h
    · exact closedAt_esc (CS.linkRule_closedAt hq h)
    · simp at h

/-- **`StepEP` below the nesting limit** (the extra premise `st.level < cfg.maxNesting`; over the limit
    the statement is false, see `stepEP_holds`) -/
theorem stepEP_below (cfg : Cfg) (hc : ChainCoherent cfg = true) :
    ∀ (skip tok : IState → Except Panic IState) (fuel : Nat) (st st' : IState), CalmFn skip →
      tokStep cfg skip tok fuel st = .ok st' → st.level < cfg.maxNesting → st.pos < st.posMax →
      EPc cfg st.src st.pos → st'.pos < st.posMax → EPc cfg st.src st'.pos := by
  intro skip tok fuel st st' hq hstep hlvl hlt hep hlt' hmem
  have hesc := hep hmem
  unfold tokStep at hstep
  simp only [if_pos hlvl] at hstep
  split at hstep
  · simp at hstep
  · next len w' hfr =>
    simp only [Except.ok.injEq] at hstep
    subst hstep
    obtain ⟨hs, _⟩ := realChain_inv hq fuel cfg.chain st _ _ hfr
    obtain ⟨id, hid, s, a1, a2, a3, a4⟩ := hs len rfl
    have := real_end_esc hc hmem hq hid (s := s) (by rw [a1, a2]; exact hesc) a4
    rw [a1] at this
    exact this
  · next w' hfr =>
    obtain ⟨_, hn⟩ := realChain_inv hq fuel cfg.chain st _ _ hfr
    obtain ⟨b1, b2, b3, b4⟩ := hn rfl
    obtain ⟨ch, hch, hp, _, _, _, _, _⟩ := fallback_keeps hstep
    unfold firstChar at hch
    split at hch
    · simp at hch
    · simp at hch
    · next c1 rest hw =>
      simp only [Except.ok.injEq] at hch
      subst hch
      have hsl : slice st.src st.pos st.posMax = .ok (c1 :: rest) := by
        have := window_eq (liftR_ok.mp hw)
        rwa [b1, b2, b3] at this
      rw [hp, b2]
      by_cases hc1 : c1 = '\\'
      · exfalso
        subst hc1
        obtain ⟨s, s1, d1, d2, d3, d4⟩ := b4 .escape hmem
        obtain ⟨s'', hs''⟩ := real_silent_verdict .escape (by simp) d4
        unfold runRule at hs''
        have hwin : s.window = .ok ('\\' :: rest) := by
          unfold IState.window
          rw [d1, d2, d3, hsl]; rfl
        have := escape_declines_bs hwin (liftR_ok.mp hs'')
        subst this
        obtain ⟨_, _, hlen⟩ := slice_boundaries hsl
        have e1 : ('\\' : Char).utf8Size = 1 := by decide
        simp only [byteLen, e1] at hlen
        rw [hp, b2, e1] at hlt'
        omega
      · exact unit_esc hsl hc1

/-- `StepEP` (which carries the premise "below the nesting limit") holds for every coherent chain.
    Over the limit the statement would be false: with `max_nesting = 0`, chain `[escape]` and the text
    `\\ab` the loop takes ONE character from the backslash (not escaped) to `a` (escaped). -/
theorem stepEP_holds (cfg : Cfg) (hc : ChainCoherent cfg = true) : StepEP cfg := stepEP_below cfg hc

end MdIt.Inline.ES
