/-
  Helper development for `Props/C16Doc.lean` (property C16 over a whole run of the inline parser), part 2:
  THE RUN.

    * `Enters cfg f s y` — the real step of the tokenizer loop at the state `s` (callees at fuel `f`) enters
      the nested label frame whose start state is `y`: some link / image rule of the chain is reached
      (`Arrives`), its `parse_link` finds a label, and `y = nestedState st1 res` is the state the rule hands
      to `tokenize`;
    * `Reach cfg content mapping f s` — `s` is a state at which the `while state.pos < end` loop of
      `InlineParser::tokenize` stands, with `f` iterations of fuel left, somewhere in the run of
      `parseInline cfg content mapping` (top frame or any nested label frame);
    * `enters_called`, `arrives_called`, `tokLoop_succ` — the relation is faithful: a panic of the frame
      `y` IS the panic of the step that enters it, a panic of a rule call IS the panic of the chain, the
      loop is one `tokStep` and the loop again;
    * `top_arrives`, `top_enters` — the top frame: the states along the real chain keep the invariant of the
      top frame (`ES.TopInv`, `Good`, `MemoB`), and every frame entered from it satisfies `ES.NF`
      (`ES.entryP_NF`);
    * `reach_inv` — **every reached state below the nesting limit is a state of the top frame
      (`TopSt`) or satisfies the invariant of the nested frames (`ES.NF`)**.
-/
import MdIt.Lemmas.C16DocNest

namespace MdIt.Inline.ES.C16Doc
open MdIt.Inline
open MdIt.Inline.CS (Interior MK InsideSub MK.of_sub InsideSub.refl InsideSub.trans AgreeHyp
  insideSub_ruleBackticks not_interior_after_bracket not_interior_after_run)
open MdIt.InlineOps (Srcmap getSourcePosFor getMap byteLen slice)
open MdIt.C05 (WFMap MonoMap byteLen_append slice_ok_iff)

/-! ## the states of a run -/

/-- the shape test of the link rule (`[`, `offset = 0`, no nested links) / the image rule (`![`,
    `offset = 1`) on the window of the state -/
def LinkShape (id : RuleId) (offset : Nat) (en : Bool) (x : IState) : Prop :=
  (id = .link ∧ offset = 0 ∧ en = false ∧ ∃ r, x.window = .ok ('[' :: r)) ∨
  (id = .image ∧ offset = 1 ∧ en = true ∧ ∃ r, x.window = .ok ('!' :: '[' :: r))

/-- **the real step at `s` (callees at fuel `f`) enters the nested label frame that starts at `y`** -/
def Enters (cfg : Cfg) (f : Nat) (s y : IState) : Prop :=
  ∃ (id : RuleId) (x : IState) (offset : Nat) (en : Bool) (res : LinkRes) (st1 : IState),
    Arrives (fun id s => runRule cfg (fun s => skipToken cfg f s) (fun s => tokLoop cfg f s.posMax s) f
      id s false) cfg.chain s id x ∧
    LinkShape id offset en x ∧
    parseLink cfg (fun s => skipToken cfg f s) f x (x.pos + offset) en = .ok (some res, st1) ∧
    y = nestedState st1 res

/-- **the states of the real tokenizer in the run of `parseInline cfg content mapping`**: `Reach … f s` —
    the loop of `tokenize` stands at `s` with `f` iterations of fuel left (top frame or nested frame) -/
inductive Reach (cfg : Cfg) (content : List Char) (mapping : Srcmap) : Nat → IState → Prop
  | init : Reach cfg content mapping (topFuel cfg content) (IState.init content mapping)
  | step {f : Nat} {s s' : IState} : Reach cfg content mapping (f + 1) s → s.pos < s.posMax →
      tokStep cfg (fun s => skipToken cfg f s) (fun s => tokLoop cfg f s.posMax s) f s = .ok s' →
      Reach cfg content mapping f s'
  | enter {f : Nat} {s y : IState} : Reach cfg content mapping (f + 1) s → s.pos < s.posMax →
      s.level < cfg.maxNesting → Enters cfg f s y → Reach cfg content mapping f y

/-! ## the relation is faithful to the model -/

/-- the loop is one step and the loop again (`Reach.step`) -/
theorem tokLoop_succ (cfg : Cfg) (f e : Nat) (s : IState) (hlt : s.pos < e) :
    tokLoop cfg (f + 1) e s =
      match tokStep cfg (fun s => skipToken cfg f s) (fun s => tokLoop cfg f s.posMax s) f s with
      | .error err => .error err
      | .ok s' => tokLoop cfg f e s' := by
  rw [tokLoop]
  simp only [if_pos hlt]
  rfl

/-- a rule the chain arrives at IS called: its panic is the panic of the chain -/
theorem arrives_called {run : RuleId → IState → RuleRes} {rules : List RuleId} {st : IState}
    {id : RuleId} {x : IState} (h : Arrives run rules st id x) {e : Panic} (he : run id x = .error e) :
    firstRule run rules st = .error e := by
  induction h with
  | here id rs st => unfold firstRule; rw [he]
  | next hrun _ ih => unfold firstRule; rw [hrun]; exact ih he

/-- a frame that is entered IS tokenized: its panic is the panic of the step that enters it -/
theorem enters_called {cfg : Cfg} {f : Nat} {s y : IState} (h : Enters cfg f s y)
    (hl : s.level < cfg.maxNesting) {e : Panic} (he : tokLoop cfg f y.posMax y = .error e) :
    tokStep cfg (fun s => skipToken cfg f s) (fun s => tokLoop cfg f s.posMax s) f s = .error e := by
  obtain ⟨id, x, offset, en, res, st1, hA, hshape, hp, rfl⟩ := h
  have hcall : runRule cfg (fun s => skipToken cfg f s) (fun s => tokLoop cfg f s.posMax s) f id x false
      = .error e := by
    have hlr : ∀ mk, linkRule cfg (fun s => skipToken cfg f s) (fun s => tokLoop cfg f s.posMax s) f mk
        en offset x false = .error e := by
      intro mk
      unfold linkRule
      simp only [hp, Bool.false_eq_true, if_false]
      have : tokLoop cfg f res.labelEnd (IState.mk st1.src st1.srcmap res.labelStart res.labelEnd
          (st1.level + 1) (st1.linkLevel + 1) st1.cache st1.backticks [] []) = .error e := he
      rw [this]
    rcases hshape with ⟨rfl, rfl, rfl, r, hr⟩ | ⟨rfl, rfl, rfl, r, hr⟩
    · unfold runRule
      simp only
      unfold ruleLink
      rw [hr]
      simp only [liftR]
      rw [if_neg (by simp)]
      exact hlr _
    · unfold runRule
      simp only
      unfold ruleImage
      rw [hr]
      simp only [liftR]
      exact hlr _
  unfold tokStep
  simp only [if_pos hl]
  rw [arrives_called hA hcall]

/-! ## the top frame -/

section
variable {cfg : Cfg} {B : List Char → CodePair.Cache → Prop} {src : List Char} {Mtop : Nat}

/-- the states along the real chain of the top frame keep the invariant of the top frame, and the real
    chain over the guarded callees arrives at the same calls -/
theorem top_arrives (hB : BackOK cfg B) (hend : EndHyp cfg B src Mtop)
    (hep : EndEP cfg B src Mtop)
    (hsz : ∀ mk csw, RuleId.emph mk csw ∈ cfg.chain → mk.utf8Size = 1)
    {skipG skipM tokG tokM : IState → Except Panic IState} {P : IState → Prop}
    (hq : CalmFn skipG) (hs : SkipHypT skipG) (hgr : SkipGrowHyp skipG)
    (hT : SkipTopHyp cfg B src Mtop skipG)
    (he : SkipEqHyp skipG skipM) (ht : TokHypT tokG) (hr : RangesFn tokG)
    (hte : TokEqAt B P tokG tokM) (hP : EntryP cfg B src Mtop skipG P) (fuel : Nat) {lo : Nat} :
    ∀ (rules : List RuleId), (∀ id ∈ rules, id ∈ cfg.chain) →
      ∀ (st : IState), Good lo st → MemoB st → st.pos < st.posMax → TopInv cfg B src Mtop st →
      EPc cfg src st.pos →
      ∀ id x, Arrives (fun id s => runRule cfg skipM tokM fuel id s false) rules st id x →
        Good lo x ∧ MemoB x ∧ x.pos < x.posMax ∧ TopInv cfg B src Mtop x := by
  intro rules
  induction rules with
  | nil => intro _ st _ _ _ _ _ id x hA; cases hA
  | cons r rs ih =>
    intro hall st hg hm hlt htop hepos id x hA
    cases hA with
    | here => exact ⟨hg, hm, hlt, htop⟩
    | next hrun hA' =>
      rename_i st1
      obtain ⟨e1, n1⟩ := runRule_real_top hB hend hep hq hs hgr hT he hte hP fuel r st hg hm hlt htop
        hepos
      have hRT := runRule_real_T hsz hq hs ht hr fuel (hall r (by simp)) st hg hm hlt
      have hrG : runRule cfg skipG tokG fuel r st false = .ok (none, st1) := e1.trans hrun
      have ht1 := n1 none st1 hrG
      have s1 := hRT.ok _ _ hrG
      have hg1 : Good lo st1 := Good.of_add_zero (by simpa using s1.good)
      have hp1 := s1.nonePos rfl
      exact ih (fun id hid => hall id (List.mem_cons_of_mem _ hid)) st1 hg1 s1.memo
        (by rw [hp1, s1.frame.posMax]; exact hlt) ht1 (by rw [hp1]; exact hepos) id x hA'

end

/-! ## the invariant of the reached states -/

/-- a state of the top frame: the invariant of the memo development (`ES.TopInv` for the code-span
    cache invariant `BE cfg`), the no-panic invariants, and: rules never run at an escaped character -/
structure TopSt (cfg : Cfg) (content : List Char) (Mtop : Nat) (s : IState) : Prop where
  inv : TopInv cfg (BE cfg) content Mtop s
  good : ∃ lo, Good lo s
  memo : MemoB s
  ep : s.pos < s.posMax → EPc cfg content s.pos

/-- below the nesting limit a reached state is a state of the top frame or of a nested label frame -/
def RInv (cfg : Cfg) (content : List Char) (Mtop : Nat) (s : IState) : Prop :=
  s.level < cfg.maxNesting → TopSt cfg content Mtop s ∨ NF cfg (BE cfg) content Mtop s

section
variable {cfg : Cfg} {content : List Char} {mapping : Srcmap}

/-- the data of the memo development for a coherent chain on a content -/
theorem hyps_all (hc : ChainCoherent cfg = true)
    (hone : cfg.chain.count .link ≤ 1 ∧ cfg.chain.count .image ≤ 1) :
    NestHyps cfg (BE cfg) content (IState.init content mapping).posMax :=
  nestHyps_all cfg content _ hc hone (CS.nocut_init content mapping)

/-- one real step from a state of the top frame -/
theorem top_step (hc : ChainCoherent cfg = true)
    (hone : cfg.chain.count .link ≤ 1 ∧ cfg.chain.count .image ≤ 1) {f : Nat} {s s' : IState}
    (T : TopSt cfg content (IState.init content mapping).posMax s) (hl : s.level < cfg.maxNesting)
    (hlt : s.pos < s.posMax)
    (hstep : tokStep cfg (fun s => skipToken cfg f s) (fun s => tokLoop cfg f s.posMax s) f s = .ok s') :
    TopSt cfg content (IState.init content mapping).posMax s' ∧ s'.level = s.level := by
  have hnc := CS.nocut_init content mapping
  have H := hyps_all (content := content) (mapping := mapping) hc hone
  have hsz := coherent_hsz hc
  have hend := endHyp_holds cfg (BE cfg) hnc
  have hep := endEP_holds cfg (BE cfg) (src := content) (Mtop := (IState.init content mapping).posMax)
  obtain ⟨lo, hg⟩ := T.good
  have hq := skipTokenG_calm cfg true f
  have hsT := skipTokenG_T cfg f
  have hr := rangesFnG cfg true f
  have ht : TokHypT (fun s => tokLoopG cfg true f s.posMax s) :=
    fun lo s hg hm => ((guarded_total cfg hsz f).2 lo s hg hm).tokT
  obtain ⟨e1, n1⟩ := tokStep_top (backOK_BE cfg) hend hep hsz hq hsT (skip_grow cfg f)
    (skip_top (backOK_BE cfg) hend hep (marksHyp_BE cfg) f) (skip_guard_free cfg f) ht hr
    (fun s hs => nested_tokEq H f s hs) (entryP_NF f) f s hg T.memo hlt T.inv (T.ep hlt)
  have hG := e1.trans hstep
  obtain ⟨hg1, hm1, f1, _⟩ := (tokStep_T hsz hq hsT ht hr f s hg T.memo hlt).2 s' hG
  refine ⟨⟨n1 s' hG, ⟨lo, hg1⟩, hm1, ?_⟩, f1.level⟩
  intro hl'
  rw [f1.posMax] at hl'
  have := stepEP_holds cfg hc _ _ f s s' hq hG hl hlt (by rw [T.inv.hsrc]; exact T.ep hlt) hl'
  rw [T.inv.hsrc] at this
  exact this

/-- every nested frame entered from a state of the top frame satisfies `ES.NF` -/
theorem top_enters (hc : ChainCoherent cfg = true)
    (hone : cfg.chain.count .link ≤ 1 ∧ cfg.chain.count .image ≤ 1) {f : Nat} {s y : IState}
    (T : TopSt cfg content (IState.init content mapping).posMax s)
    (hlt : s.pos < s.posMax) (hE : Enters cfg f s y) :
    NF cfg (BE cfg) content (IState.init content mapping).posMax y := by
  have hnc := CS.nocut_init content mapping
  have H := hyps_all (content := content) (mapping := mapping) hc hone
  have hsz := coherent_hsz hc
  have hend := endHyp_holds cfg (BE cfg) hnc
  have hep := endEP_holds cfg (BE cfg) (src := content) (Mtop := (IState.init content mapping).posMax)
  obtain ⟨lo, hg⟩ := T.good
  have hq := skipTokenG_calm cfg true f
  have hsT := skipTokenG_T cfg f
  have hr := rangesFnG cfg true f
  have ht : TokHypT (fun s => tokLoopG cfg true f s.posMax s) :=
    fun lo s hg hm => ((guarded_total cfg hsz f).2 lo s hg hm).tokT
  obtain ⟨id, x, offset, en, res, st1, hA, hshape, hp, rfl⟩ := hE
  obtain ⟨hgx, hmx, hltx, htx⟩ := top_arrives (backOK_BE cfg) hend hep hsz hq hsT (skip_grow cfg f)
    (skip_top (backOK_BE cfg) hend hep (marksHyp_BE cfg) f) (skip_guard_free cfg f) ht hr
    (fun s hs => nested_tokEq H f s hs) (entryP_NF f) f cfg.chain (fun _ h => h) s hg T.memo hlt T.inv
    (T.ep hlt) id x hA
  have hi := hgx.linv hmx
  have key : ∀ (hb : Boundary x.src (x.pos + offset + 1)) (hle : x.pos + offset + 1 ≤ x.posMax)
      (hch : ∃ r, slice x.src (x.pos + offset) x.posMax = .ok ('[' :: r)),
      NF cfg (BE cfg) content (IState.init content mapping).posMax (nestedState st1 res) := by
    intro hb hle hch
    have hpe := parseLink_eq (cfg := cfg) hq hsT (skip_guard_free cfg f) f x (x.pos + offset) 0 en hi hb
      hle htx.closed (Nat.zero_le _)
    have hpG : parseLink cfg (fun s => skipTokenG cfg true f s) f x (x.pos + offset) en
        = .ok (some res, st1) := hpe.1.trans hp
    have ht1 := parseLink_top_G (backOK_BE cfg) hend hep (marksHyp_BE cfg) f f x (x.pos + offset) en hi
      hb hle hch htx _ _ hpG
    exact entryP_NF f lo x offset en f res st1 hgx hmx htx hb hle hch hpG ht1
  rcases hshape with ⟨_, rfl, _, r, hr'⟩ | ⟨_, rfl, _, r, hr'⟩
  · obtain ⟨hb, hle⟩ := after_first (st := x) (by decide) (window_eq hr')
    exact key hb hle ⟨r, window_eq hr'⟩
  · obtain ⟨hb, hle⟩ := after_second (st := x) (by decide) (by decide) (window_eq hr')
    exact key hb hle ⟨r, Inline.slice_tail_of_cons (by decide) (window_eq hr')⟩

/-- **every reached state below the nesting limit is a state of the top frame or satisfies the invariant
    of the nested frames** -/
theorem reach_inv (hc : ChainCoherent cfg = true)
    (hone : cfg.chain.count .link ≤ 1 ∧ cfg.chain.count .image ≤ 1) (hm : MapOK content mapping) :
    ∀ f s, Reach cfg content mapping f s → RInv cfg content (IState.init content mapping).posMax s := by
  have H := hyps_all (mapping := mapping) (content := content) hc hone
  intro f s hR
  induction hR with
  | init =>
    intro _
    obtain ⟨lo, _, hg⟩ := init_good hm
    exact .inl ⟨topInv_init (BE.empty cfg content) (CS.nocut_init content mapping), ⟨lo, hg⟩,
      memoB_init' content mapping, fun _ => epc_init cfg content mapping⟩
  | step hR hlt hstep ih =>
    rename_i f s s'
    intro hl'
    by_cases hl : s.level < cfg.maxNesting
    · rcases ih hl with T | N
      · exact .inl (top_step hc hone T hl hlt hstep).1
      · obtain ⟨v, _, _, _, hS, _⟩ := nested_agree H (callees_of H f (nested_eq H f)) N hl hlt
        exact .inr (hS s' hstep).2.2.2.2
    · have := ((tokStep_over (cfg := cfg) _ _ (fun s => skipToken cfg f s)
        (fun s => tokLoop cfg f s.posMax s) f f hl).2 s' hstep).2.2.2
      omega
  | enter hR hlt hl hE ih =>
    rename_i f s y
    intro _
    rcases ih hl with T | N
    · exact .inr (top_enters hc hone T hlt hE)
    · obtain ⟨v, _, _, _, _, hEn⟩ := nested_agree H (callees_of H f (nested_eq H f)) N hl hlt
      obtain ⟨id, x, offset, en, res, st1, hA, hshape, hp, rfl⟩ := hE
      obtain ⟨rfl, _, hnf⟩ := hEn id x offset en res st1 hA hshape hp
      exact .inr hnf

end

end MdIt.Inline.ES.C16Doc
