/-
  C10 with the sourcepos plugin, block simulation part 2: the four block rules without call-backs
  (thematic break, ATX heading, indented code, fence) in lock step on `LX`-related states — a copy of
  `MdIt/Lemmas/C10DocLeaf.lean` for an offset relation that is only closed under shifts inside a line
  (`MdIt/Lemmas/C10SourceposSimCore.lean`).  The one place that shifted an offset by a computed amount,
  the content offset `first_nonspace + text_pos` of an ATX heading, stays inside the line because the
  rule has just sliced the line's text at `text_pos` (`heading_bound`).
-/
import MdIt.Lemmas.C10SourceposSimCore

namespace MdIt.Block.LX
open MdIt.Block.LE
open MdIt.Lines (LineOffset)
variable {ρ : Nat → Nat → Prop} {G : Geo} {s₁ s₂ : BState}

theorem hr_sim (_C : Ctx ρ G) (S : SRel ρ G s₁ s₂) (silent : Bool) :
    FRel (ResRel ρ G) (hrRule s₁ silent) (hrRule s₂ silent) := by
  unfold hrRule
  rw [S.line, S.lineIndent, S.getLine]
  refine frel_bind_same _ ?_
  intro ind _
  split
  · exact frel_pure ⟨rfl, S⟩
  refine frel_bind_same _ ?_
  intro line _
  split
  · exact frel_pure ⟨rfl, S⟩
  split
  · exact frel_pure ⟨rfl, S⟩
  split
  · exact frel_pure ⟨rfl, S⟩
  split
  · exact frel_pure ⟨rfl, S⟩
  split
  · exact frel_pure ⟨rfl, S⟩
  refine frel_bind (S.getMap _ _) ?_
  intro r₁ r₂ hr
  refine frel_pure ⟨rfl, ?_⟩
  srelx_fields S
  exact S.children.push (NRel.mk (KRel.refl _) hr NRelL.nil)

/-- the text of line `n` is `src[first_nonspace .. line_end]` -/
theorem getLine_len {s : BState} {n : Nat} {line : List Char} {o : LineOffset}
    (hl : s.getLine n = .ok line) (ho : s.off n = .ok o) : o.firstNonspace + Lines.byteLen line = o.lineEnd := by
  unfold BState.getLine Lines.getLine at hl
  unfold BState.off at ho
  cases h : s.offs[n]? with
  | none => rw [h] at ho; cases ho
  | some o' =>
    rw [h] at hl ho
    cases ho
    obtain ⟨_, _, _, _, hq⟩ := Lines.slice_eq_ok_iff.mp (liftL_ok' hl)
    exact hq

/-- an offset at which the rule slices the text of the line lies inside the line -/
theorem heading_bound {s : BState} {n : Nat} {line content : List Char} {o : LineOffset} {x y : Nat}
    (hl : s.getLine n = .ok line) (hc : liftL (Lines.slice line x y) = .ok content) (ho : s.off n = .ok o) :
    o.firstNonspace + x ≤ o.lineEnd := by
  have h1 := getLine_len hl ho
  obtain ⟨p, q, e, hp, _⟩ := Lines.slice_eq_ok_iff.mp (liftL_ok' hc)
  have := congrArg Lines.byteLen e
  simp only [Lines.byteLen_append] at this
  omega

theorem heading_sim (_C : Ctx ρ G) (S : SRel ρ G s₁ s₂) (silent : Bool) :
    FRel (ResRel ρ G) (headingRule s₁ silent) (headingRule s₂ silent) := by
  unfold headingRule
  rw [S.line, S.lineIndent, S.getLine]
  refine frel_bind_same _ ?_
  intro ind _
  split
  · exact frel_pure ⟨rfl, S⟩
  refine frel_bind_same _ ?_
  intro line hline
  split
  · exact frel_pure ⟨rfl, S⟩
  split
  · exact frel_pure ⟨rfl, S⟩
  split
  · exact frel_pure ⟨rfl, S⟩
  refine frel_bind_same _ ?_
  intro content hcontent
  refine frel_bind' (S.off _) ?_
  intro o₁ o₂ ho₁ _ he
  refine frel_bind (S.getMap _ _) ?_
  intro r₁ r₂ hr
  refine frel_pure ⟨rfl, ?_⟩
  srelx_fields S
  exact S.children.push (NRel.mk (KRel.refl _) hr
    (NRelL.single (nrel_inline (MRel.single (he.first_add _ (heading_bound hline hcontent ho₁))))))

/-! ## indented code -/

theorem codeScan_sim (S : SRel ρ G s₁ s₂) :
    ∀ (k n last : Nat), s₁.lineMax - n = k → codeScan s₂ n last = codeScan s₁ n last := by
  intro k
  induction k with
  | zero =>
    intro n last hk
    rw [codeScan.eq_1 s₂, codeScan.eq_1 s₁, S.lineMax, if_neg (by omega), if_neg (by omega)]
  | succ k ih =>
    intro n last hk
    rw [codeScan.eq_1 s₂, codeScan.eq_1 s₁, S.lineMax, S.isEmpty, S.lineIndent]
    have hlt : n < s₁.lineMax := by omega
    rw [if_pos hlt, if_pos hlt]
    rw [ih (n + 1) last (by omega), ih (n + 1) (n + 1) (by omega)]

theorem SRel.ord₁ (S : SRel ρ G s₁ s₂) :
    ∀ (n : Nat) (o : LineOffset), s₁.offs[n]? = some o → o.lineStart ≤ o.firstNonspace ∧ o.firstNonspace ≤ o.lineEnd := by
  intro n o ho
  rcases S.get n with ⟨h1, _⟩ | ⟨o₁, o₂, h1, _, he⟩
  · rw [h1] at ho; cases ho
  · rw [h1] at ho; cases ho
    have := he.nums; omega

theorem SRel.ord₂ (S : SRel ρ G s₁ s₂) :
    ∀ (n : Nat) (o : LineOffset), s₂.offs[n]? = some o → o.lineStart ≤ o.firstNonspace ∧ o.firstNonspace ≤ o.lineEnd := by
  intro n o ho
  rcases S.get n with ⟨_, h2⟩ | ⟨o₁, o₂, _, h2, he⟩
  · rw [h2] at ho; cases ho
  · rw [h2] at ho; cases ho
    have := he.nums; omega

theorem code_sim (C : Ctx ρ G) (S : SRel ρ G s₁ s₂) (silent : Bool) :
    FRel (ResRel ρ G) (codeRule s₁ silent) (codeRule s₂ silent) := by
  unfold codeRule
  split
  · exact frel_pure ⟨rfl, S⟩
  rw [S.line, S.lineIndent]
  refine frel_bind_same _ ?_
  intro ind _
  split
  · exact frel_pure ⟨rfl, S⟩
  rw [codeScan_sim S _ _ _ rfl]
  refine frel_bind_same _ ?_
  intro last _
  simp only
  rw [S.blkIndent]
  have S' : SRel ρ G { s₁ with line := last } { s₂ with line := last, blkIndent := s₁.blkIndent } := by
    srelx_fields S
    exact S.children
  refine frel_bind' (S'.getLines _ _ _ _) ?_
  intro p₁ p₂ hp₁ hp₂ hp
  obtain ⟨c₁, m₁⟩ := p₁
  obtain ⟨c₂, m₂⟩ := p₂
  obtain ⟨hc, hm⟩ := hp
  simp only at hc hm ⊢
  subst hc
  match m₁, m₂, hm, hp₁, hp₂ with
  | [], [], _, _, _ => exact frel_err _
  | [], _ :: _, hm, _, _ => exact hm.elim
  | _ :: _, [], hm, _, _ => exact hm.elim
  | x :: r₁, y :: r₂, hm, hp₁, hp₂ =>
    simp only
    refine frel_bind_same _ ?_
    intro l1 hl1
    refine frel_bind' (S'.off _) ?_
    intro o₁ o₂ ho₁ ho₂ he
    have a₁ := code_assert_ok C.inc₁ S'.geo₁ S'.ord₁ hp₁ hl1 ho₁
    have a₂ := code_assert_ok C.inc₂ S'.geo₂ S'.ord₂ hp₂ hl1 ho₂
    rw [if_neg a₁, if_neg a₂]
    refine frel_pure ⟨rfl, ?_⟩
    srelx_fields S'
    exact S'.children.push (NRel.mk (KRel.refl _) ⟨hm.head.2, he.end_⟩ NRelL.nil)

/-! ## fences -/

theorem fenceScan_sim (S : SRel ρ G s₁ s₂) (marker : Char) (len : Nat) :
    ∀ (k n : Nat), s₁.lineMax - n = k → fenceScan s₂ marker len n = fenceScan s₁ marker len n := by
  intro k
  induction k with
  | zero =>
    intro n hk
    rw [fenceScan.eq_1 s₂, fenceScan.eq_1 s₁, S.lineMax, if_pos (by omega), if_pos (by omega)]
  | succ k ih =>
    intro n hk
    rw [fenceScan.eq_1 s₂, fenceScan.eq_1 s₁, S.lineMax, S.getLine, S.lineIndent]
    by_cases hlt : n + 1 ≥ s₁.lineMax
    · rw [if_pos hlt, if_pos hlt]
    · rw [if_neg hlt, if_neg hlt]
      rw [ih (n + 1) (by omega)]

theorem fence_sim (_C : Ctx ρ G) (S : SRel ρ G s₁ s₂) (silent : Bool) :
    FRel (ResRel ρ G) (fenceRule s₁ silent) (fenceRule s₂ silent) := by
  unfold fenceRule
  rw [S.line, S.lineIndent, S.getLine]
  refine frel_bind_same _ ?_
  intro ind _
  split
  · exact frel_pure ⟨rfl, S⟩
  refine frel_bind_same _ ?_
  intro line _
  split
  · exact frel_pure ⟨rfl, S⟩
  split
  · exact frel_pure ⟨rfl, S⟩
  simp only
  split
  · exact frel_pure ⟨rfl, S⟩
  refine frel_bind_same _ ?_
  intro params _
  split
  · exact frel_pure ⟨rfl, S⟩
  split
  · exact frel_pure ⟨rfl, S⟩
  rw [fenceScan_sim S _ _ _ _ rfl]
  refine frel_bind_same _ ?_
  intro p _
  obtain ⟨nextLine, haveEnd⟩ := p
  simp only
  refine frel_bind (S.off _) ?_
  intro o₁ o₂ he
  rw [he.indent]
  refine frel_bind (S.getLines _ _ _ _) ?_
  intro q₁ q₂ hq
  obtain ⟨c₁, m₁⟩ := q₁
  obtain ⟨c₂, m₂⟩ := q₂
  obtain ⟨hc, _⟩ := hq
  simp only at hc ⊢
  subst hc
  refine frel_bind_same _ ?_
  intro e _
  refine frel_bind (S.getMap _ _) ?_
  intro r₁ r₂ hr
  refine frel_pure ⟨rfl, ?_⟩
  srelx_fields S
  exact S.children.push (NRel.mk (KRel.refl _) hr NRelL.nil)

end MdIt.Block.LX
