/-
  Helper development for `Props/MemoSafe.lean`, second part: more facts about the label walk on the memo
  alone (`pwalk`, `Lemmas/MemoSafeWalk.lean`) — the ones the nested-frame induction and the L2 lemma for
  `parse_link` need.

    * `outer_step`        — one step along an `Outer` walk (`Lemmas/MemoSafeLamNF.lean`);
    * `pwalk_det`         — two fuels, two verdicts: the same verdict;
    * `pwalk_shrink`      — smaller `pos_max`: a verdict reached inside the smaller window is kept;
    * `pwalk_below`       — a walk at a STRICTLY lower bracket level over the entries of a walk that
                            finds its `]` at `x` ends with a verdict strictly before `x` (found) or at
                            or before `x` (early `None`);
    * `labelLoop_hits`    — where the memo walk has a verdict for SOME fuel, `labelLoop` at ANY fuel `n`
                            over any `skip_token` that follows hits is determined by `pwalk … n …`.
-/
import MdIt.Lemmas.MemoSafeLamNF

namespace MdIt.Inline
open MdIt.InlineOps (Srcmap getSourcePosFor getMap byteLen slice)

/-- one step along an outer walk: the character, the entry, where it leads -/
theorem outer_step {src : List Char} {Mtop : Nat} {m : List (Nat × Nat)} {le p : Nat}
    (hf : ∀ k v, (k, v) ∈ m → k < v) (h : Outer src Mtop m le p 1) (hlt : p < le) :
    ∃ ch rest v, slice src p Mtop = .ok (ch :: rest) ∧ m.lookup p = some v ∧ p < v ∧ v ≤ le ∧
      Outer src Mtop m le v 1 ∧ (ch = '[' → v = p + 1 → Outer src Mtop m le v 2) := by
  obtain ⟨en, N, l, hl, hw⟩ := h
  cases N with
  | zero => simp [pwalk] at hw
  | succ N =>
    unfold pwalk at hw
    cases hsl : slice src p Mtop with
    | error e => rw [hsl] at hw; simp at hw
    | ok w =>
      rw [hsl] at hw
      cases w with
      | nil =>
        simp only [PW.done.injEq] at hw
        obtain ⟨h1, _⟩ := hw
        simp at h1
      | cons ch rest =>
        simp only at hw
        by_cases hfd : ch = ']' ∧ l - 1 = 0
        · rw [if_pos hfd] at hw
          simp only [PW.done.injEq, true_and] at hw
          omega
        · rw [if_neg hfd] at hw
          cases hlk : m.lookup p with
          | none => rw [hlk] at hw; simp at hw
          | some v =>
            rw [hlk] at hw
            simp only at hw
            have hpv : p < v := hf _ _ (lookup_mem hlk)
            by_cases hv : Mtop < v
            · rw [if_pos hv] at hw; simp at hw
            · rw [if_neg hv] at hw
              have hle : ∀ lv, pwalk src Mtop m en N lv v = .done (some true) le → v ≤ le :=
                fun lv hh => (pwalk_path en _ _ _ _ _ hh).le hf
              have hl' : (1 : Int) ≤ (if ch = ']' then l - 1 else l) := by
                split
                · next hc =>
                  have : ¬ (l - 1 = 0) := fun h0 => hfd ⟨hc, h0⟩
                  omega
                · exact hl
              refine ⟨ch, rest, v, rfl, rfl, hpv, ?_⟩
              by_cases hb : ch = '['
              · rw [if_pos hb] at hw
                by_cases hv0 : v = 0
                · rw [if_pos hv0] at hw; simp at hw
                · rw [if_neg hv0] at hw
                  by_cases hp : p = v - 1
                  · rw [if_pos hp] at hw
                    exact ⟨hle _ hw, ⟨en, N, _, by omega, hw⟩, fun _ _ => ⟨en, N, _, by omega, hw⟩⟩
                  · rw [if_neg hp] at hw
                    by_cases he : (!en) = true
                    · rw [if_pos he] at hw; simp at hw
                    · rw [if_neg he] at hw
                      exact ⟨hle _ hw, ⟨en, N, _, hl', hw⟩, fun _ hv1 => absurd (by omega) hp⟩
              · rw [if_neg hb] at hw
                exact ⟨hle _ hw, ⟨en, N, _, hl', hw⟩, fun hc => absurd hc hb⟩

/-- at the frame end the outer walk has level 1 and the character is `]` -/
theorem outer_at_end {src : List Char} {Mtop : Nat} {m : List (Nat × Nat)} {le : Nat} {r : List Char}
    (h : slice src le Mtop = .ok (']' :: r)) : Outer src Mtop m le le 1 :=
  ⟨false, 1, 1, Int.le_refl _, by rw [pwalk_cons h]; simp⟩

/-- two fuels, two verdicts: the same verdict -/
theorem pwalk_det {src : List Char} {M : Nat} {m : List (Nat × Nat)}
    (hf : ∀ k v, (k, v) ∈ m → k < v) {en : Bool} {n n' : Nat} {level : Int} {p : Nat}
    {r r' : Option Bool} {x x' : Nat} (h : pwalk src M m en n level p = .done r x)
    (h' : pwalk src M m en n' level p = .done r' x') : r = r' ∧ x = x' := by
  have hpx := (pwalk_path en _ _ _ _ _ h).le hf
  have hpx' := (pwalk_path en _ _ _ _ _ h').le hf
  have a := pwalk_fuel hf en _ _ _ _ _ h (x - p + 1 + (x' - p + 1)) (by omega)
  have b := pwalk_fuel hf en _ _ _ _ _ h' (x - p + 1 + (x' - p + 1)) (by omega)
  rw [a] at b
  simp only [PW.done.injEq] at b
  exact b

/-- **smaller `pos_max`**: a verdict "found" strictly inside, or "early `None`" at or before, the smaller
    window is the verdict under the smaller `pos_max` -/
theorem pwalk_shrink {src : List Char} {M M' : Nat} {m : List (Nat × Nat)}
    (hf : ∀ k v, (k, v) ∈ m → k < v) (hb : Boundary src M') (hle : M' ≤ M) (en : Bool) :
    ∀ (n : Nat) (level : Int) (p : Nat) (r : Option Bool) (x : Nat),
      pwalk src M m en n level p = .done r x →
      ((r = some true ∧ x < M') ∨ (r = none ∧ x ≤ M')) →
      pwalk src M' m en n level p = .done r x := by
  intro n
  induction n with
  | zero => intro level p r x h; simp [pwalk] at h
  | succ n ih =>
    intro level p r x h hx
    have hpx : p ≤ x := (pwalk_path en _ _ _ _ _ h).le hf
    unfold pwalk at h
    cases hsl : slice src p M with
    | error e => rw [hsl] at h; simp at h
    | ok w =>
      rw [hsl] at h
      cases w with
      | nil =>
        simp only [PW.done.injEq] at h
        obtain ⟨rfl, _⟩ := h
        rcases hx with ⟨h1, _⟩ | ⟨h1, _⟩ <;> simp at h1
      | cons ch rest =>
        simp only at h
        by_cases hfd : ch = ']' ∧ level - 1 = 0
        · rw [if_pos hfd] at h
          simp only [PW.done.injEq] at h
          obtain ⟨rfl, rfl⟩ := h
          have hlt : p < M' := by
            rcases hx with ⟨_, h2⟩ | ⟨h1, _⟩
            · exact h2
            · simp at h1
          obtain ⟨rest', hsl'⟩ := slice_head_shrink hsl hb hlt hle
          rw [pwalk_cons hsl', if_pos hfd]
        · rw [if_neg hfd] at h
          cases hl : m.lookup p with
          | none => rw [hl] at h; simp at h
          | some y =>
            rw [hl] at h
            simp only at h
            have hpy : p < y := hf _ _ (lookup_mem hl)
            by_cases hy : M < y
            · rw [if_pos hy] at h; simp at h
            · rw [if_neg hy] at h
              have hyx : ∀ lv, pwalk src M m en n lv y = .done r x → y ≤ x :=
                fun lv hh => (pwalk_path en _ _ _ _ _ hh).le hf
              have hxM : x ≤ M' := by rcases hx with ⟨_, h2⟩ | ⟨_, h2⟩ <;> omega
              have hgo : ∀ lv, pwalk src M m en n lv y = .done r x →
                  (∃ rest', slice src p M' = .ok (ch :: rest')) ∧ ¬ M' < y ∧
                  pwalk src M' m en n lv y = .done r x := by
                intro lv hh
                have := hyx lv hh
                exact ⟨slice_head_shrink hsl hb (by omega) hle, by omega, ih _ _ _ _ hh hx⟩
              by_cases hbk : ch = '['
              · rw [if_pos hbk] at h
                by_cases hy0 : y = 0
                · rw [if_pos hy0] at h; simp at h
                · rw [if_neg hy0] at h
                  by_cases hp : p = y - 1
                  · rw [if_pos hp] at h
                    obtain ⟨⟨rest', hsl'⟩, h2, h3⟩ := hgo _ h
                    rw [pwalk_cons hsl', if_neg hfd, hl]
                    simp only
                    rw [if_neg h2, if_pos hbk, if_neg hy0, if_pos hp]
                    exact h3
                  · rw [if_neg hp] at h
                    by_cases he : (!en) = true
                    · rw [if_pos he] at h
                      simp only [PW.done.injEq] at h
                      obtain ⟨rfl, rfl⟩ := h
                      obtain ⟨rest', hsl'⟩ := slice_head_shrink hsl hb (by omega) hle
                      rw [pwalk_cons hsl', if_neg hfd, hl]
                      simp only
                      rw [if_neg (by omega), if_pos hbk, if_neg hy0, if_neg hp, if_pos he]
                    · rw [if_neg he] at h
                      obtain ⟨⟨rest', hsl'⟩, h2, h3⟩ := hgo _ h
                      rw [pwalk_cons hsl', if_neg hfd, hl]
                      simp only
                      rw [if_neg h2, if_pos hbk, if_neg hy0, if_neg hp, if_neg he]
                      exact h3
              · rw [if_neg hbk] at h
                obtain ⟨⟨rest', hsl'⟩, h2, h3⟩ := hgo _ h
                rw [pwalk_cons hsl', if_neg hfd, hl]
                simp only
                rw [if_neg h2, if_neg hbk]
                exact h3

/-- **strictly lower bracket level**: over the entries of a walk that finds its `]` at `x`, a walk from
    the same position at a strictly lower level `1 ≤ level' < level` (any nesting flag) ends with the
    verdict "found" strictly before `x`, or with an early `None` at or before `x` -/
theorem pwalk_below {src : List Char} {M : Nat} {m : List (Nat × Nat)}
    (hf : ∀ k v, (k, v) ∈ m → k < v) (en en' : Bool) :
    ∀ (n : Nat) (level level' : Int) (p : Nat) (x : Nat), 1 ≤ level' → level' < level →
      pwalk src M m en n level p = .done (some true) x →
      ∃ r' x', pwalk src M m en' n level' p = .done r' x' ∧
        ((r' = some true ∧ x' < x) ∨ (r' = none ∧ x' ≤ x)) := by
  intro n
  induction n with
  | zero => intro level level' p x _ _ h; simp [pwalk] at h
  | succ n ih =>
    intro level level' p x h1 h2 h
    unfold pwalk at h ⊢
    cases hsl : slice src p M with
    | error e => rw [hsl] at h; simp at h
    | ok w =>
      rw [hsl] at h
      cases w with
      | nil => simp at h
      | cons ch rest =>
        simp only at h ⊢
        by_cases hfd : ch = ']' ∧ level - 1 = 0
        · exfalso; have := hfd.2; omega
        · rw [if_neg hfd] at h
          cases hl : m.lookup p with
          | none => rw [hl] at h; simp at h
          | some y =>
            rw [hl] at h
            simp only at h ⊢
            have hpy : p < y := hf _ _ (lookup_mem hl)
            by_cases hy : M < y
            · rw [if_pos hy] at h; simp at h
            · rw [if_neg hy] at h
              have hyx : ∀ lv, pwalk src M m en n lv y = .done (some true) x → y ≤ x :=
                fun lv hh => (pwalk_path en _ _ _ _ _ hh).le hf
              by_cases hfd' : ch = ']' ∧ level' - 1 = 0
              · rw [if_pos hfd']
                refine ⟨_, _, rfl, .inl ⟨rfl, ?_⟩⟩
                have hb : ch ≠ '[' := by rw [hfd'.1]; decide
                rw [if_neg hb] at h
                have := hyx _ h
                omega
              · rw [if_neg hfd', if_neg hy]
                have hlv1 : 1 ≤ (if ch = ']' then level' - 1 else level') := by
                  split
                  · next hc =>
                    have : ¬ (level' - 1 = 0) := fun h0 => hfd' ⟨hc, h0⟩
                    omega
                  · exact h1
                have hlv2 : (if ch = ']' then level' - 1 else level') <
                    (if ch = ']' then level - 1 else level) := by
                  split <;> omega
                by_cases hbk : ch = '['
                · rw [if_pos hbk] at h ⊢
                  by_cases hy0 : y = 0
                  · rw [if_pos hy0] at h; simp at h
                  · rw [if_neg hy0] at h ⊢
                    by_cases hp : p = y - 1
                    · rw [if_pos hp] at h ⊢
                      exact ih _ _ _ _ (by omega) (by omega) h
                    · rw [if_neg hp] at h ⊢
                      by_cases he : (!en) = true
                      · rw [if_pos he] at h; simp at h
                      · rw [if_neg he] at h
                        by_cases he' : (!en') = true
                        · rw [if_pos he']
                          exact ⟨_, _, rfl, .inr ⟨rfl, hyx _ h⟩⟩
                        · rw [if_neg he']
                          exact ih _ _ _ _ hlv1 hlv2 h
                · rw [if_neg hbk] at h ⊢
                  exact ih _ _ _ _ hlv1 hlv2 h

/-- **the upper walk passes through the place where the lower one finds its `]`**: there its bracket
    level exceeds 1 by the level difference, and it goes on to find its own `]` -/
theorem pwalk_through {src : List Char} {M : Nat} {m : List (Nat × Nat)} (en en' : Bool) :
    ∀ (n n' : Nat) (level level' : Int) (p : Nat) (x x' : Nat), 1 ≤ level' → level' < level →
      pwalk src M m en n level p = .done (some true) x →
      pwalk src M m en' n' level' p = .done (some true) x' →
      ∃ N, pwalk src M m en N (level - level' + 1) x' = .done (some true) x := by
  intro n
  induction n with
  | zero => intro n' level level' p x x' _ _ h; simp [pwalk] at h
  | succ n ih =>
    intro n' level level' p x x' h1 h2 h h'
    cases n' with
    | zero => simp [pwalk] at h'
    | succ n' =>
      have hkeep := h
      unfold pwalk at h h'
      cases hsl : slice src p M with
      | error e => rw [hsl] at h; simp at h
      | ok w =>
        rw [hsl] at h h'
        cases w with
        | nil => simp at h
        | cons ch rest =>
          simp only at h h'
          by_cases hfd' : ch = ']' ∧ level' - 1 = 0
          · rw [if_pos hfd'] at h'
            simp only [PW.done.injEq, true_and] at h'
            subst h'
            have : level - level' + 1 = level := by have := hfd'.2; omega
            rw [this]
            exact ⟨_, hkeep⟩
          · rw [if_neg hfd'] at h'
            by_cases hfd : ch = ']' ∧ level - 1 = 0
            · exfalso; have := hfd.2; omega
            · rw [if_neg hfd] at h
              cases hl : m.lookup p with
              | none => rw [hl] at h; simp at h
              | some y =>
                rw [hl] at h h'
                simp only at h h'
                by_cases hy : M < y
                · rw [if_pos hy] at h; simp at h
                · rw [if_neg hy] at h h'
                  have hlv1 : 1 ≤ (if ch = ']' then level' - 1 else level') := by
                    split
                    · next hc =>
                      have : ¬ (level' - 1 = 0) := fun h0 => hfd' ⟨hc, h0⟩
                      omega
                    · exact h1
                  have hlv2 : (if ch = ']' then level' - 1 else level') <
                      (if ch = ']' then level - 1 else level) := by
                    split <;> omega
                  have hdiff : (if ch = ']' then level - 1 else level) -
                      (if ch = ']' then level' - 1 else level') + 1 = level - level' + 1 := by
                    split <;> omega
                  by_cases hbk : ch = '['
                  · rw [if_pos hbk] at h h'
                    by_cases hy0 : y = 0
                    · rw [if_pos hy0] at h; simp at h
                    · rw [if_neg hy0] at h h'
                      by_cases hp : p = y - 1
                      · rw [if_pos hp] at h h'
                        obtain ⟨N, hN⟩ := ih _ _ _ _ _ _ (by omega) (by omega) h h'
                        have e : (if ch = ']' then level - 1 else level) + 1 -
                            ((if ch = ']' then level' - 1 else level') + 1) + 1
                            = level - level' + 1 := by omega
                        rw [e] at hN
                        exact ⟨N, hN⟩
                      · rw [if_neg hp] at h h'
                        by_cases he : (!en) = true
                        · rw [if_pos he] at h; simp at h
                        · rw [if_neg he] at h
                          by_cases he' : (!en') = true
                          · rw [if_pos he'] at h'; simp at h'
                          · rw [if_neg he'] at h'
                            obtain ⟨N, hN⟩ := ih _ _ _ _ _ _ hlv1 hlv2 h h'
                            rw [hdiff] at hN
                            exact ⟨N, hN⟩
                  · rw [if_neg hbk] at h h'
                    obtain ⟨N, hN⟩ := ih _ _ _ _ _ _ hlv1 hlv2 h h'
                    rw [hdiff] at hN
                    exact ⟨N, hN⟩

/-- a walk that finds its `]` never took the early return: it does not depend on the nesting flag -/
theorem pwalk_en {src : List Char} {M : Nat} {m : List (Nat × Nat)} :
    ∀ (n : Nat) (level : Int) (p : Nat) (x : Nat),
      pwalk src M m false n level p = .done (some true) x →
      pwalk src M m true n level p = .done (some true) x := by
  intro n
  induction n with
  | zero => intro level p x h; simp [pwalk] at h
  | succ n ih =>
    intro level p x h
    unfold pwalk at h ⊢
    cases hsl : slice src p M with
    | error e => rw [hsl] at h; simp at h
    | ok w =>
      rw [hsl] at h
      cases w with
      | nil => simp at h
      | cons ch rest =>
        simp only at h ⊢
        by_cases hfd : ch = ']' ∧ level - 1 = 0
        · rw [if_pos hfd] at h ⊢; exact h
        · rw [if_neg hfd] at h ⊢
          cases hl : m.lookup p with
          | none => rw [hl] at h; simp at h
          | some y =>
            rw [hl] at h
            simp only at h ⊢
            by_cases hy : M < y
            · rw [if_pos hy] at h; simp at h
            · rw [if_neg hy] at h ⊢
              by_cases hbk : ch = '['
              · rw [if_pos hbk] at h ⊢
                by_cases hy0 : y = 0
                · rw [if_pos hy0] at h; simp at h
                · rw [if_neg hy0] at h ⊢
                  by_cases hp : p = y - 1
                  · rw [if_pos hp] at h ⊢; exact ih _ _ _ h
                  · rw [if_neg hp] at h ⊢
                    simp at h
              · rw [if_neg hbk] at h ⊢; exact ih _ _ _ h

/-- how `labelLoop` reads a memo walk -/
def ofPW (st : IState) : PW → Except Panic (Option Bool × IState)
  | .done r x => .ok (r, { st with pos := x })
  | _ => .error .fuel

/-- **where the memo walk has a verdict for SOME fuel, `labelLoop` at ANY fuel is the memo walk at
    that fuel** — over any `skip_token` that follows memo hits (out of fuel on both sides alike) -/
theorem labelLoop_hits {skip : IState → Except Panic IState} (hs : FollowsHits skip) (en : Bool) :
    ∀ (n N : Nat) (level : Int) (st : IState) (r : Option Bool) (x : Nat),
      pwalk st.src st.posMax st.cache en N level st.pos = .done r x →
      labelLoop skip en n level st =
        ofPW st (pwalk st.src st.posMax st.cache en n level st.pos) := by
  intro n
  induction n with
  | zero => intro N level st r x _; simp [labelLoop, pwalk, ofPW]
  | succ n ih =>
    intro N level st r x h
    cases N with
    | zero => simp [pwalk] at h
    | succ N =>
      unfold pwalk at h
      unfold labelLoop
      rw [window_slice]
      cases hsl : slice st.src st.pos st.posMax with
      | error e => rw [hsl] at h; simp at h
      | ok w =>
        rw [hsl] at h
        cases w with
        | nil =>
          rw [pwalk_nil hsl]
          simp only [liftOps, liftR, ofPW]
        | cons ch rest =>
          simp only at h
          simp only [liftOps, liftR]
          rw [pwalk_cons hsl]
          by_cases hf : ch = ']' ∧ level - 1 = 0
          · rw [if_pos hf, if_pos hf]
            simp only [ofPW]
          · rw [if_neg hf] at h
            rw [if_neg hf, if_neg hf]
            cases hl : st.cache.lookup st.pos with
            | none => rw [hl] at h; simp at h
            | some y =>
              rw [hl] at h
              simp only at h ⊢
              by_cases hy : st.posMax < y
              · rw [if_pos hy] at h; simp at h
              · rw [if_neg hy] at h
                rw [if_neg hy]
                have hsk := hs st y hl (by omega)
                rw [hsk]
                simp only
                have hrec : ∀ lv, pwalk st.src st.posMax st.cache en N lv y = .done r x →
                    labelLoop skip en n lv { st with pos := y } =
                      ofPW st (pwalk st.src st.posMax st.cache en n lv y) := by
                  intro lv hh
                  have := ih N lv { st with pos := y } r x hh
                  simp only at this
                  rw [this]
                  cases pwalk st.src st.posMax st.cache en n lv y <;> rfl
                by_cases hb : ch = '['
                · rw [if_pos hb] at h
                  rw [if_pos hb, if_pos hb]
                  by_cases hy0 : y = 0
                  · rw [if_pos hy0] at h; simp at h
                  · rw [if_neg hy0] at h
                    rw [if_neg hy0, if_neg hy0]
                    by_cases hp : st.pos = y - 1
                    · rw [if_pos hp] at h
                      rw [if_pos hp, if_pos hp]
                      exact hrec _ h
                    · rw [if_neg hp] at h
                      rw [if_neg hp, if_neg hp]
                      by_cases he : (!en) = true
                      · rw [if_pos he, if_pos he]
                        rfl
                      · rw [if_neg he] at h
                        rw [if_neg he, if_neg he]
                        exact hrec _ h
                · rw [if_neg hb] at h
                  rw [if_neg hb, if_neg hb]
                  exact hrec _ h

/-- the label end `parse_link_label` answers, read off a memo walk -/
def labelOf : PW → Except Panic (Option Nat)
  | .done r x => .ok (if r = some true then some x else none)
  | _ => .error .fuel

/-- **`parse_link_label` over memo hits**: determined by the memo walk at its fuel; the state comes
    back unchanged -/
theorem parseLinkLabel_hits {skip : IState → Except Panic IState} (hs : FollowsHits skip)
    (s : IState) (start : Nat) (en : Bool) (n : Nat) {N : Nat} {r : Option Bool} {x : Nat}
    (h : pwalk s.src s.posMax s.cache en N 1 (start + 1) = .done r x) :
    parseLinkLabel skip n s start en =
      match labelOf (pwalk s.src s.posMax s.cache en n 1 (start + 1)) with
      | .ok o => .ok (o, s)
      | .error e => .error e := by
  have h3 := labelLoop_hits hs en n N 1 { s with pos := start + 1 } r x h
  unfold parseLinkLabel
  simp only
  rw [h3]
  simp only
  cases pwalk s.src s.posMax s.cache en n 1 (start + 1) with
  | done r' x' =>
    simp only [ofPW, labelOf]
    cases r' with
    | none => simp
    | some b =>
      cases b with
      | true => simp
      | false => simp
  | miss p => simp [ofPW, labelOf]
  | beyond p y => simp [ofPW, labelOf]
  | stuck => simp [ofPW, labelOf]

end MdIt.Inline
