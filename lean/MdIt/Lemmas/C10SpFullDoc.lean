/-
  C10 with the sourcepos plugin, full version, part 2: from the exact simulations to the hypotheses of
  `doc_final_newline_invariant_sp` / `doc_crlf_sp_of_blocks_q`.

    * `xl_rmap`     `C10SP.XL` (the result of the exact inline simulation) under a segmented table and
                    its shifted copy is `InlineExact`;
    * `xl_every`    … under ONE table: every attribute-rendering inline node starts at a byte of the
                    document that is not a line feed;
    * `joinNode_everyKR`, `spliceList_everyKR`, `spPure_everyKR`   a claim about (kind, range) that holds of
                    every value that renders no attributes survives the three passes.
-/
import MdIt.Lemmas.C10SourceposDoc
import MdIt.Lemmas.C10SpFullTables

namespace MdIt.Pipeline
open MdIt
open MdIt.InlineOps (Srcmap getSourcePosFor byteLen)
open MdIt.C05I (NoVirt)

theorem rendersAttrs_inl (v : Inline.Val) : (Kind.inl v).rendersAttrs = C10SP.attrVal v := by
  cases v <;> rfl

/-! ## A: `XL` under a table and its shifted copy -/

mutual
theorem xn_rmap {src c : List Char} {m : Srcmap} (h : TabOK src c m) :
    ∀ (n₁ n₂ : Inline.Node), C10SP.XN c m (shiftMap src m) n₁ n₂ →
      rmap id true (ofInline n₂) = rmap (shiftOf src) true (ofInline n₁)
  | ⟨v₁, r₁, cs₁⟩, ⟨v₂, r₂, cs₂⟩, hx => by
    simp only [C10SP.XN] at hx
    obtain ⟨hv, hs, hl⟩ := hx
    subst hv
    simp only [ofInline, rmap, xl_rmap h cs₁ cs₂ hl, Node.mk.injEq, true_and, and_true]
    unfold rangeOf
    rw [rendersAttrs_inl]
    cases hav : C10SP.attrVal v₁ with
    | false => simp
    | true =>
      obtain ⟨p, q, a₁, b₁, a₂, b₂, e₁, e₂, hpq, hq, _, t1, t2, t3, t4⟩ := hs hav
      subst e₁ e₂
      have s1 := tr_shift h (by omega) t1
      have s2 := tr_shift h hq t2
      rw [t3] at s1; rw [t4] at s2
      simp only [Except.ok.injEq] at s1 s2
      simp [mapRange, shiftOf, s1, s2]
theorem xl_rmap {src c : List Char} {m : Srcmap} (h : TabOK src c m) :
    ∀ (l₁ l₂ : List Inline.Node), C10SP.XL c m (shiftMap src m) l₁ l₂ →
      rmapList id true (ofInlineList l₂) = rmapList (shiftOf src) true (ofInlineList l₁)
  | [], [], _ => rfl
  | [], _ :: _, hx => by simp only [C10SP.XL] at hx
  | _ :: _, [], hx => by simp only [C10SP.XL] at hx
  | a :: as, b :: bs, hx => by
    simp only [C10SP.XL] at hx
    simp only [ofInlineList, rmapList, xn_rmap h a b hx.1, xl_rmap h as bs hx.2]
end

/-! ## B: `XL` under one table: where the attribute-rendering inline nodes start -/

/-- a character other than the line feed starts at byte `a` of `src` -/
def OnByteLf (src : List Char) (a : Nat) : Prop := ∃ u ch w, src = u ++ ch :: w ∧ byteLen u = a ∧ ch ≠ '\n'

/-- the claim about a node: if its value renders attributes, its range starts at such a byte -/
def AnchK (src : List Char) (k : Kind) (r : Option (Nat × Nat)) : Prop :=
  k.rendersAttrs = true → ∀ a b, r = some (a, b) → OnByteLf src a

theorem anchK_nr (src : List Char) (k : Kind) (r : Option (Nat × Nat)) (h : k.rendersAttrs = false) :
    AnchK src k r := by
  intro h'; rw [h] at h'; cases h'

mutual
theorem xn_every {src c : List Char} {m : Srcmap} (h : TabOK src c m) :
    ∀ (n₁ n₂ : Inline.Node), C10SP.XN c m m n₁ n₂ → Every (fun n => AnchK src n.kind n.range) (ofInline n₁)
  | ⟨v₁, r₁, cs₁⟩, ⟨v₂, r₂, cs₂⟩, hx => by
    simp only [C10SP.XN] at hx
    obtain ⟨_, hs, hl⟩ := hx
    simp only [ofInline]
    refine .mk _ ?_ (xl_every h cs₁ cs₂ hl)
    intro hk a b hr
    simp only at hk hr
    rw [rendersAttrs_inl] at hk
    obtain ⟨p, q, a₁, b₁, a₂, b₂, e₁, _, _, _, hc, t1, _, _, _⟩ := hs hk
    rw [e₁] at hr
    simp only [Option.some.injEq, Prod.mk.injEq] at hr
    obtain ⟨rfl, rfl⟩ := hr
    exact tr_onByte h hc t1
theorem xl_every {src c : List Char} {m : Srcmap} (h : TabOK src c m) :
    ∀ (l₁ l₂ : List Inline.Node), C10SP.XL c m m l₁ l₂ →
      ∀ n ∈ ofInlineList l₁, Every (fun n => AnchK src n.kind n.range) n
  | [], _, _ => by simp [ofInlineList]
  | _ :: _, [], hx => by simp only [C10SP.XL] at hx
  | a :: as, b :: bs, hx => by
    simp only [C10SP.XL] at hx
    intro n hn
    simp only [ofInlineList, List.mem_cons] at hn
    rcases hn with rfl | hn
    · exact xn_every h a b hx.1
    · exact xl_every h as bs hx.2 n hn
end

/-! ## J: the join pass -/

theorem mergeLoop_mem2 (cur : Node) (rest : List Node) :
    ∀ x ∈ mergeLoop cur rest, (x.isText = true ∧ ∃ c, (c = cur ∨ c ∈ rest) ∧ x.children = c.children) ∨
      x = cur ∨ x ∈ rest := by
  induction rest generalizing cur with
  | nil => intro x hx; simp only [mergeLoop, List.mem_singleton] at hx; exact .inr (.inl hx)
  | cons nxt rest ih =>
    intro x hx
    simp only [mergeLoop] at hx
    split at hx
    · rcases List.mem_cons.mp hx with rfl | hx
      · exact .inl ⟨rfl, nxt, .inr (by simp), rfl⟩
      · rcases ih (merged cur nxt) x hx with ⟨ht, c, hc, hch⟩ | rfl | hr
        · rcases hc with rfl | hc
          · exact .inl ⟨ht, cur, .inl rfl, hch⟩
          · exact .inl ⟨ht, c, .inr (List.mem_cons_of_mem _ hc), hch⟩
        · exact .inl ⟨rfl, cur, .inl rfl, rfl⟩
        · exact .inr (.inr (List.mem_cons_of_mem _ hr))
    · rcases List.mem_cons.mp hx with rfl | hx
      · exact .inr (.inl rfl)
      · rcases ih nxt x hx with ⟨ht, c, hc, hch⟩ | rfl | hr
        · rcases hc with rfl | hc
          · exact .inl ⟨ht, c, .inr (by simp), hch⟩
          · exact .inl ⟨ht, c, .inr (List.mem_cons_of_mem _ hc), hch⟩
        · exact .inr (.inr (by simp))
        · exact .inr (.inr (List.mem_cons_of_mem _ hr))

theorem markerToText_cases (c : Node) :
    markerToText c = c ∨ ((markerToText c).isText = true ∧ (markerToText c).children = c.children) := by
  obtain ⟨k, r, a, cs⟩ := c
  cases k with
  | blk b => left; simp [markerToText]
  | inl v => cases v <;> simp [markerToText, Node.isText]

/-- what `fragments_join` leaves: an untouched member, or a `Text` with the children of a member -/
theorem fragmentsJoin_mem2 (cs : List Node) :
    ∀ x ∈ fragmentsJoin cs, x ∈ cs ∨ (x.isText = true ∧ ∃ c ∈ cs, x.children = c.children) := by
  intro x hx
  unfold fragmentsJoin at hx
  have hx := (List.mem_filter.mp hx).1
  have hp : ∀ y ∈ pass1 cs, y ∈ cs ∨ (y.isText = true ∧ ∃ c ∈ cs, y.children = c.children) := by
    intro y hy
    unfold pass1 at hy
    obtain ⟨c, hc, rfl⟩ := List.mem_map.mp hy
    rcases markerToText_cases c with e | ⟨h1, h2⟩
    · rw [e]; exact .inl hc
    · exact .inr ⟨h1, c, hc, h2⟩
  cases hpc : pass1 cs with
  | nil => rw [hpc] at hx; simp [mergeAll] at hx
  | cons c0 r0 =>
    rw [hpc] at hx hp
    simp only [mergeAll] at hx
    rcases mergeLoop_mem2 c0 r0 x hx with ⟨ht, c, hc, hch⟩ | rfl | hr
    · have hcm : c ∈ c0 :: r0 := by rcases hc with rfl | hc <;> simp [*]
      rcases hp c hcm with h1 | ⟨_, c', hc', hch'⟩
      · exact .inr ⟨ht, c, h1, hch⟩
      · exact .inr ⟨ht, c', hc', hch.trans hch'⟩
    · exact hp _ (by simp)
    · exact hp _ (List.mem_cons_of_mem _ hr)

section passes
variable {Q : Kind → Option (Nat × Nat) → Prop} (hnr : ∀ k r, k.rendersAttrs = false → Q k r)
include hnr

theorem q_of_isText {n : Node} (h : n.isText = true) : Q n.kind n.range := hnr _ _ (kind_of_isText h)

theorem joinNode_everyKR_aux (k : Nat) : ∀ n : Node, nsize n ≤ k →
    Every (fun n => Q n.kind n.range) n → Every (fun n => Q n.kind n.range) (joinNode n) := by
  induction k with
  | zero => intro n hn; rw [nsize_eq] at hn; omega
  | succ k ih =>
    intro n hn he
    rw [joinNode_eq, joinList_eq_map]
    refine .mk _ he.here ?_
    intro y hy
    simp only at hy
    obtain ⟨x, hx, rfl⟩ := List.mem_map.mp hy
    have hsz : nsize x ≤ k := by
      have s1 := nsize_le_of_mem hx
      have s2 := nsizeList_fragmentsJoin_le n.children
      rw [nsize_eq] at hn
      omega
    apply ih x hsz
    rcases fragmentsJoin_mem2 n.children x hx with hm | ⟨ht, c, hc, hch⟩
    · exact he.child x hm
    · refine .mk _ (q_of_isText hnr ht) ?_
      rw [hch]
      exact (he.child c hc).child

/-- **the join pass keeps a claim that every non-rendering value satisfies** -/
theorem joinNode_everyKR {n : Node} (he : Every (fun n => Q n.kind n.range) n) :
    Every (fun n => Q n.kind n.range) (joinNode n) :=
  joinNode_everyKR_aux hnr _ n (Nat.le_refl _) he

theorem joined_everyK (cfg : DocCfg) {n : Node} (he : Every (fun n => Q n.kind n.range) n) :
    Every (fun n => Q n.kind n.range) (joined cfg n) := by
  unfold joined
  split
  · exact joinNode_everyKR hnr he
  · exact he

end passes

mutual
theorem spPure_everyKR {Q : Kind → Option (Nat × Nat) → Prop} (src : List Char) :
    ∀ t : Node, Every (fun n => Q n.kind n.range) t → Every (fun n => Q n.kind n.range) (spPure src t)
  | ⟨k, r, a, cs⟩, he => by
    simp only [spPure]
    exact .mk _ he.here (spPureList_everyK src cs he.child)
theorem spPureList_everyK {Q : Kind → Option (Nat × Nat) → Prop} (src : List Char) :
    ∀ cs : List Node, (∀ c ∈ cs, Every (fun n => Q n.kind n.range) c) →
      ∀ c ∈ spPureList src cs, Every (fun n => Q n.kind n.range) c
  | [], _ => by simp [spPureList]
  | c :: r, he => by
    intro x hx
    simp only [spPureList, List.mem_cons] at hx
    rcases hx with rfl | hx
    · exact spPure_everyKR src c (he c (by simp))
    · exact spPureList_everyK src r (fun y hy => he y (List.mem_cons_of_mem _ hy)) x hx
end


/-! ## S: the splice walk -/

mutual
/-- `Pb` at every ranged block node, `Pi` at every placeholder the splice walk visits -/
def BOk (Pb : Block.Kind → Option (Nat × Nat) → Prop) (Pi : List Char → Srcmap → Prop) : Block.BNode → Prop
  | ⟨_, _, cs⟩ => BOkL Pb Pi cs
def BOkL (Pb : Block.Kind → Option (Nat × Nat) → Prop) (Pi : List Char → Srcmap → Prop) : List Block.BNode → Prop
  | [] => True
  | c :: rest =>
    (match c.kind with
     | .inlineRoot ct m => Pi ct m
     | k => Pb k c.range ∧ BOk Pb Pi c) ∧ BOkL Pb Pi rest
end

mutual
theorem spliceNode_everyKR {icfg : Inline.Cfg} {Q : Kind → Option (Nat × Nat) → Prop}
    {Pb : Block.Kind → Option (Nat × Nat) → Prop} {Pi : List Char → Srcmap → Prop}
    (hb : ∀ k r, Pb k r → Q (.blk k) r)
    (hi : ∀ ct m ns, Pi ct m → Inline.parseInline icfg ct m = .ok ns →
      ∀ n ∈ ofInlineList ns, Every (fun n => Q n.kind n.range) n) :
    ∀ (b : Block.BNode) (t : Node), Q (.blk b.kind) b.range → BOk Pb Pi b → spliceNode icfg b = .ok t →
      Every (fun n => Q n.kind n.range) t
  | ⟨k, r, cs⟩, t, hq, hok, h => by
    simp only [BOk] at hok
    simp only [spliceNode] at h
    split at h
    · cases h
    · rename_i cs' hcs
      cases h
      exact .mk _ hq (spliceList_everyKR hb hi cs cs' hok hcs)
theorem spliceList_everyKR {icfg : Inline.Cfg} {Q : Kind → Option (Nat × Nat) → Prop}
    {Pb : Block.Kind → Option (Nat × Nat) → Prop} {Pi : List Char → Srcmap → Prop}
    (hb : ∀ k r, Pb k r → Q (.blk k) r)
    (hi : ∀ ct m ns, Pi ct m → Inline.parseInline icfg ct m = .ok ns →
      ∀ n ∈ ofInlineList ns, Every (fun n => Q n.kind n.range) n) :
    ∀ (cs : List Block.BNode) (out : List Node), BOkL Pb Pi cs → spliceList icfg cs = .ok out →
      ∀ n ∈ out, Every (fun n => Q n.kind n.range) n
  | [], out, _, h => by
    simp only [spliceList, Except.ok.injEq] at h
    subst h; simp
  | c :: rest, out, hok, h => by
    simp only [BOkL] at hok
    obtain ⟨hc, hrest⟩ := hok
    simp only [spliceList] at h
    split at h
    · rename_i ct m hk
      rw [hk] at hc
      simp only at hc
      split at h
      · cases h
      · rename_i ns hns
        split at h
        · cases h
        · rename_i rest' hr
          cases h
          intro n hn
          rcases List.mem_append.mp hn with hn | hn
          · exact hi ct m ns hc hns n hn
          · exact spliceList_everyKR hb hi rest rest' hrest hr n hn
    · rename_i hne
      have hc' : Pb c.kind c.range ∧ BOk Pb Pi c := by
        revert hc
        split
        · rename_i e1
          exact absurd e1 (hne _ _)
        · exact id
      split at h
      · cases h
      · rename_i c' hcs
        split at h
        · cases h
        · rename_i rest' hr
          cases h
          intro n hn
          rcases List.mem_cons.mp hn with rfl | hn
          · exact spliceNode_everyKR hb hi c _ (hb _ _ hc'.1) hc'.2 hcs
          · exact spliceList_everyKR hb hi rest rest' hrest hr n hn
end

/-! ## F: from the claims to the Boolean checks of `final_stage` -/

mutual
theorem allN_of_every {P : Node → Prop} {p : Node → Bool} (hp : ∀ n, P n → p n = true) :
    ∀ t : Node, Every P t → allN p t = true
  | ⟨k, r, a, cs⟩, he => by
    simp only [allN, Bool.and_eq_true]
    exact ⟨hp _ he.here, allNList_of_every hp cs he.child⟩
theorem allNList_of_every {P : Node → Prop} {p : Node → Bool} (hp : ∀ n, P n → p n = true) :
    ∀ cs : List Node, (∀ c ∈ cs, Every P c) → allNList p cs = true
  | [], _ => rfl
  | c :: r, he => by
    simp only [allNList, Bool.and_eq_true]
    exact ⟨allN_of_every hp c (he c (by simp)), allNList_of_every hp r (fun y hy => he y (List.mem_cons_of_mem _ hy))⟩
end

theorem Every.and {P R : Node → Prop} : ∀ {t : Node}, Every P t → Every R t → Every (fun n => P n ∧ R n) t := by
  intro t h1
  induction h1 with
  | mk n hp _ ih =>
    intro h2
    exact .mk n ⟨hp, h2.here⟩ (fun c hc => ih c hc (h2.child c hc))

theorem charAt_of_split : ∀ (u : List Char) (ch : Char) (w : List Char),
    SourceMap.charAt (u ++ ch :: w) (SourceMap.byteLen u) = some ch
  | [], ch, w => by simp [SourceMap.charAt, SourceMap.byteLen]
  | x :: u, ch, w => by
    have hp := Char.utf8Size_pos x
    simp only [List.cons_append, SourceMap.charAt, SourceMap.byteLen]
    rw [if_neg (by omega), if_neg (by omega)]
    have : x.utf8Size + SourceMap.byteLen u - x.utf8Size = SourceMap.byteLen u := by omega
    rw [this]
    exact charAt_of_split u ch w

theorem ops_sm_len (l : List Char) : byteLen l = SourceMap.byteLen l := by
  rw [← C05I.linesLen_eq, lines_sm_len]

theorem onByteLf_facts {src : List Char} {a : Nat} (h : OnByteLf src a) :
    C10SP.NotLf src a ∧ a < SourceMap.byteLen src := by
  obtain ⟨u, ch, w, rfl, hu, hch⟩ := h
  rw [ops_sm_len] at hu
  subst hu
  refine ⟨?_, ?_⟩
  · unfold C10SP.NotLf
    rw [charAt_of_split]
    intro e; cases e; exact hch rfl
  · have hp := Char.utf8Size_pos ch
    have : SourceMap.byteLen (u ++ ch :: w) = SourceMap.byteLen u + (ch.utf8Size + SourceMap.byteLen w) := by
      rw [SourceMap.byteLen_append]; rfl
    omega

/-- the range starts at a byte that is not a line feed and does not end before it starts -/
def anchLeB (src : List Char) (r : Nat × Nat) : Bool := decide (C10SP.NotLf src r.1 ∧ r.1 ≤ r.2)

theorem posAttr_crlf_le (src : List Char) (hcr : '\r' ∉ src) (r : Nat × Nat) (h : anchLeB src r = true) :
    posAttr (Lines.lfToCrlf src) (shiftOf src r.1, shiftOf src r.2) = posAttr src r := by
  have ha : C10SP.NotLf src r.1 ∧ r.1 ≤ r.2 := by simpa [anchLeB] using h
  by_cases hb : 0 < r.2
  · exact posAttr_crlf src hcr r (by simp [anchoredB, C10SP.Anchored, ha.1, hb])
  · have h2 : r.2 = 0 := by omega
    have h1 : r.1 = 0 := by omega
    have hs := C10SP.getPosition_crlf_start src hcr 0 (h1 ▸ ha.1)
    rw [C10SP.getPosition_run, C10SP.getPosition_run] at hs
    simp only [Except.ok.injEq, C10SP.lfBelow_zero, Nat.add_zero] at hs
    simp only [posAttr, shiftOf, h1, h2, C10SP.lfBelow_zero, Nat.add_zero, C10SP.endOff, Nat.lt_irrefl,
      if_false, hs]

/-- the two checks, from the anchoring claim and C05 -/
theorem checks_of_every {src : List Char} {t : Node}
    (h1 : Every (fun n => AnchK src n.kind n.range) t) (h2 : Every (NodeOk src) t) :
    allN (rendered (insideB src)) t = true ∧ allN (rendered (anchLeB src)) t = true := by
  have h := Every.and h1 h2
  constructor
  · refine allN_of_every ?_ t h
    intro n ⟨ha, a, b, hr, hab, hb, _⟩
    unfold rendered
    cases hk : n.kind.rendersAttrs with
    | false => rfl
    | true =>
      obtain ⟨_, hlt⟩ := onByteLf_facts (ha hk a b hr)
      rw [lines_sm_len] at hb
      simp [hr, insideB, C10SP.Inside, hlt, hb]
  · refine allN_of_every ?_ t h
    intro n ⟨ha, a, b, hr, hab, hb, _⟩
    unfold rendered
    cases hk : n.kind.rendersAttrs with
    | false => rfl
    | true =>
      obtain ⟨hn, _⟩ := onByteLf_facts (ha hk a b hr)
      simp [hr, anchLeB, hn, hab]

end MdIt.Pipeline
