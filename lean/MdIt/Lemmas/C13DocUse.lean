/-
  C13 at document level, USE side, part 2: `parse_link` on a reference use `[T]`, `[T][]`, `[T][L]`
  (`parseLink_use`): the label walk(s), the inline form declines, the reference tail looks the selected
  label up.
-/
import MdIt.Lemmas.C13DocInline
import MdIt.Props.C13
set_option linter.unusedSimpArgs false
set_option linter.unusedVariables false

namespace MdIt.C13D
open MdIt.Inline
open MdIt.InlineOps (Srcmap getSourcePosFor getMap byteLen slice)
open MdIt.C05 (byteLen_append slice_ok_iff)
open MdIt.C11S (PlainTxt)

/-! ## 1. the shapes of a use -/

/-- the second bracket pair: none (shortcut `[T]`), `[]` (collapsed), `[L]` (full) -/
def tailOf : Option (List Char) → List Char
  | none => []
  | some l => '[' :: (l ++ [']'])

/-- the text of a reference use -/
def useOf (T : List Char) (e : Option (List Char)) : List Char := '[' :: (T ++ ']' :: tailOf e)

/-- code points -/
def cps (s : List Char) : List Nat := s.map Char.toNat

/-- the label the use is looked up under (`Refs.selectLabel`) -/
def labelOf (T : List Char) (e : Option (List Char)) : List Nat := Refs.selectLabel (cps T) (e.map cps)

/-- what the reference tail of `parse_link` finds for a label -/
def look (cfg : Cfg) (label : List Nat) : Option Refs.Entry :=
  match cfg.refs with
  | none => none
  | some m => Refs.lookup cfg.normRef m label

theorem sz_open : '['.utf8Size = 1 := by decide
theorem sz_close : ']'.utf8Size = 1 := by decide
theorem byteLen_nil : byteLen [] = 0 := rfl
theorem bl_open : byteLen ['['] = 1 := rfl
theorem bl_close : byteLen [']'] = 1 := rfl

theorem byteLen_cons (ch : Char) (r : List Char) : byteLen (ch :: r) = ch.utf8Size + byteLen r := rfl

theorem byteLen_tailOf (e : Option (List Char)) :
    byteLen (tailOf e) = match e with | none => 0 | some l => byteLen l + 2 := by
  cases e with
  | none => rfl
  | some l =>
    simp only [tailOf, byteLen_cons, byteLen_append, sz_open, sz_close, byteLen_nil]; omega

theorem byteLen_useOf (T : List Char) (e : Option (List Char)) :
    byteLen (useOf T e) = byteLen T + 2 + byteLen (tailOf e) := by
  simp only [useOf, byteLen_cons, byteLen_append, sz_open, sz_close]; omega

/-- the two memo entries the look-ahead over a use at `a` can make -/
def Entries (a : Nat) (T : List Char) (e : Option (List Char)) : List (Nat × Nat) :=
  [(a + 1, a + 1 + byteLen T), (a + byteLen T + 3, a + byteLen T + 3 + byteLen (e.getD []))]

/-- every memo entry is one of `S` -/
def CacheIn (S : List (Nat × Nat)) (cache : List (Nat × Nat)) : Prop :=
  ∀ k v, cache.lookup k = some v → (k, v) ∈ S

theorem CacheIn.step {S : List (Nat × Nat)} {old new : List (Nat × Nat)} {k v : Nat} (h : CacheIn S old)
    (hs : CacheStep old new k v) (hkv : (k, v) ∈ S) : CacheIn S new := by
  rcases hs with rfl | rfl
  · exact h
  · intro k' v' hl
    simp only [List.lookup] at hl
    split at hl
    · rename_i heq
      have : k' = k := by simpa using heq
      cases hl; subst this; exact hkv
    · exact h k' v' hl

theorem cacheIn_nil (S : List (Nat × Nat)) : CacheIn S [] := by intro k v h; simp at h

/-! ## 2. the inline form declines -/

theorem parseInlineTail_none (dec : List Char → List Char) (src : List Char) (pos max : Nat)
    (w : List Char) (hs : slice src pos max = .ok w) (hw : ∀ r, w ≠ '(' :: r) :
    Link.parseInlineTail dec src pos max = .ok none := by
  unfold Link.parseInlineTail
  rw [(linkSlice_eq _ _ _ _).mpr hs]
  cases w with
  | nil => rfl
  | cons d r =>
    by_cases hd : d = '('
    · subst hd; exact absurd rfl (hw r)
    · show (match (d :: r) with
        | '(' :: rest => _
        | _ => Except.ok none) = Except.ok none
      split
      · rename_i heq; simp only [List.cons.injEq] at heq; exact absurd heq.1 hd
      · rfl

/-! ## 3. `parse_link` on a use -/

/-- the result record of a resolved use at byte `a` -/
def resOf (a : Nat) (T : List Char) (e : Option (List Char)) (r : Refs.Entry) : LinkRes :=
  { labelStart := a + 1, labelEnd := a + 1 + byteLen T, href := some r.dest,
    title := r.title.map (fun t => t.map Char.ofNat), endPos := a + byteLen (useOf T e) }

set_option maxHeartbeats 400000 in
/-- **`parse_link` on a reference use** at byte `|a|` of a text that ends with the use: the label walk
    finds the `]` behind the plain text, the inline form declines, the second bracket pair (if any) is
    walked, and the outcome is the lookup of the selected label — the state comes back with at most
    the two memo entries of the two plain stretches added. -/
theorem parseLink_use {cfg : Cfg} (h : ChainOK cfg) (f fuel : Nat) (en : Bool) {st : IState}
    {c : List Char} {x : Nat} (hfr : Fr st c x) (a T : List Char) (e : Option (List Char))
    (hc : c = a ++ useOf T e) (hm : st.posMax = byteLen c) (hT : PlainTxt T) (he : PlainTxt (e.getD []))
    (hl : st.level < cfg.maxNesting) (S : List (Nat × Nat)) (hcache : CacheIn S st.cache)
    (hsub : ∀ p ∈ Entries (byteLen a) T e, p ∈ S)
    (hf1 : ∀ v, (byteLen a + 1, v) ∈ S → v = byteLen a + 1 + byteLen T)
    (hf2 : ∀ v, (byteLen a + byteLen T + 3, v) ∈ S → v = byteLen a + byteLen T + 3 + byteLen (e.getD [])) :
    ∃ cache', parseLink cfg (fun s => skipToken cfg (f + 1) s) (fuel + 2) st (byteLen a) en =
        .ok ((look cfg (labelOf T e)).map (resOf (byteLen a) T e), { st with cache := cache' }) ∧
      CacheIn S cache' := by
  have hk1 : (byteLen a + 1, byteLen a + 1 + byteLen T) ∈ S := hsub _ (by simp [Entries])
  have hk2 : (byteLen a + byteLen T + 3, byteLen a + byteLen T + 3 + byteLen (e.getD [])) ∈ S :=
    hsub _ (by simp [Entries])
  have hkey : ∀ {cache : List (Nat × Nat)}, CacheIn S cache →
      (∀ v, cache.lookup (byteLen a + 1) = some v → v = byteLen a + 1 + byteLen T) ∧
      (∀ v, cache.lookup (byteLen a + byteLen T + 3) = some v →
        v = byteLen a + byteLen T + 3 + byteLen (e.getD [])) :=
    fun hci => ⟨fun v hv => hf1 v (hci _ _ hv), fun v hv => hf2 v (hci _ _ hv)⟩
  -- first label walk
  obtain ⟨cache1, hpl1, hcs1⟩ := parseLinkLabel_plain h f fuel en hfr a T (tailOf e)
    (by rw [hc]; rfl) hm hT hl (hkey hcache).1
  have hci1 : CacheIn S cache1 := hcache.step hcs1 hk1
  have hfr1 : Fr ({ st with cache := cache1 } : IState) c x := ⟨hfr.src, hfr.map⟩
  -- the text behind the first pair
  have hctail : c = (a ++ '[' :: (T ++ [']'])) ++ tailOf e ++ [] := by rw [hc]; simp [useOf]
  have hlen1 : byteLen (a ++ '[' :: (T ++ [']'])) = byteLen a + 1 + byteLen T + 1 := by
    simp only [byteLen_append, byteLen_cons, sz_open, sz_close, byteLen_nil]; omega
  have hclen : byteLen c = byteLen a + 1 + byteLen T + 1 + byteLen (tailOf e) := by
    rw [hc, byteLen_append, byteLen_useOf]; omega
  have hstail : slice st.src (byteLen a + 1 + byteLen T + 1) st.posMax = .ok (tailOf e) := by
    have := hfr.slice _ (tailOf e) [] hctail
    rw [hlen1] at this
    rw [hm, hclen]; exact this
  have hsT : slice st.src (byteLen a + 1) (byteLen a + 1 + byteLen T) = .ok T := by
    have := hfr.slice (a ++ ['[']) T (']' :: tailOf e) (by rw [hc]; simp [useOf])
    simpa [byteLen_append, bl_open] using this
  have hnoparen : ∀ r, tailOf e ≠ '(' :: r := by
    intro r; cases e <;> simp [tailOf]
  unfold parseLink
  simp only [hpl1]
  rw [parseInlineTail_none _ _ _ _ (tailOf e) hstail hnoparen]
  simp only
  unfold parseLinkRef
  simp only [hstail, liftOps, liftR]
  cases e with
  | none =>
    refine ⟨cache1, ?_, hci1⟩
    simp only [tailOf, look, labelOf, Refs.selectLabel, Option.map_none]
    cases hrefs : cfg.refs with
    | none => rfl
    | some R =>
      simp only [hsT, liftOps, liftR, cps]
      cases hlk : Refs.lookup cfg.normRef R (List.map Char.toNat T) with
      | none => rfl
      | some r =>
        simp only [Option.map_some, resOf, byteLen_useOf, tailOf, byteLen]
        congr 3
        simp only [LinkRes.mk.injEq, true_and]
        omega
  | some L2 =>
    -- second label walk
    have hl1 : ({ st with cache := cache1 } : IState).level < cfg.maxNesting := hl
    have hc2 : c = (a ++ '[' :: (T ++ [']'])) ++ '[' :: (L2 ++ ']' :: []) := by rw [hc]; simp [useOf, tailOf]
    obtain ⟨cache2, hpl2, hcs2⟩ := parseLinkLabel_plain h f fuel false hfr1 (a ++ '[' :: (T ++ [']'])) L2 []
      hc2 hm he hl1 (by
        rw [hlen1]
        have := (hkey hci1).2
        simp only [Option.getD_some] at this
        intro v hv
        have := this v (by rw [show byteLen a + byteLen T + 3 = byteLen a + 1 + byteLen T + 1 + 1 by omega]; exact hv)
        omega)
    rw [hlen1] at hpl2 hcs2
    have hci2 : CacheIn S cache2 := by
      refine hci1.step hcs2 ?_
      have := hk2
      simp only [Option.getD_some] at this
      rw [show byteLen a + 1 + byteLen T + 1 + 1 = byteLen a + byteLen T + 3 by omega]
      exact this
    refine ⟨cache2, ?_, hci2⟩
    have hsL2 : slice st.src (byteLen a + 1 + byteLen T + 1 + 1) (byteLen a + 1 + byteLen T + 1 + 1 + byteLen L2) = .ok L2 := by
      have := hfr.slice (a ++ '[' :: (T ++ [']']) ++ ['[']) L2 [']'] (by rw [hc]; simp [useOf, tailOf])
      rw [byteLen_append, hlen1, bl_open] at this
      exact this
    simp only [tailOf, hpl2, hsL2, liftOps, liftR, look]
    cases hrefs : cfg.refs with
    | none => rfl
    | some R =>
      simp only
      cases L2 with
      | nil =>
        simp only [hsT, liftOps, liftR, labelOf, Refs.selectLabel, cps, Option.map_some, List.map_nil]
        cases hlk : Refs.lookup cfg.normRef R (List.map Char.toNat T) with
        | none => rfl
        | some r =>
          simp only [Option.map_some, resOf, byteLen_useOf, tailOf, byteLen, List.nil_append]
          congr 3
          simp only [LinkRes.mk.injEq, true_and]
          have : ']'.utf8Size = 1 := by decide
          have : '['.utf8Size = 1 := by decide
          omega
      | cons l0 L2' =>
        simp only [labelOf, Refs.selectLabel, cps, Option.map_some, List.map_cons]
        cases hlk : Refs.lookup cfg.normRef R (l0.toNat :: List.map Char.toNat L2') with
        | none => rfl
        | some r =>
          simp only [Option.map_some, resOf, byteLen_useOf, tailOf, byteLen_cons, byteLen_append, sz_open,
            sz_close, byteLen_nil]
          congr 3
          simp only [LinkRes.mk.injEq, true_and]
          omega

end MdIt.C13D
