/-
  C05, inline half, item (1): the strengthened geometric invariant of the block tokenizer.

  `Block.Geo` (Props/C05Doc.lean) is too weak for the claim about `InlineRoot` placeholders the inline
  range theorems need (`Lemmas/C05InlineTables.lean`, FINDING).  `Geo2 src0 s` adds
    * `s.src = src0`            (so a claim about a placeholder may mention the document: "tab-free");
    * `SortedS s.offs`          lines STRICTLY separated (`lineEnd < next lineStart`);
    * `kept`                    of every line still to come (`line ≤ k < line_max`) `get_lines(.., blk_indent, ..)`
                                keeps blanks only (`C05I.KeptBlank`): the columns beyond `blk_indent`
                                of the stretch `line_start .. first_nonspace` never reach back into a
                                container marker.
  The induction over the tokenizer of Props/C05Doc.lean is redone for `Geo2` (`tokenize_geo2`,
  `parseBlocks_geo2`); the leaf rules are reused, the two containers re-establish `Geo2` for the
  nested run (`bqScan_kept`, `itemRewrite_kept`, `KeptBlank.mono` for the following lines of a list
  item whose `blk_indent` grew).
-/
import MdIt.Lemmas.C05InlineLower

namespace MdIt.Block
open MdIt.Lines (LineOffset)
open MdIt.C05I (KeptBlank OrderD)

/-! ## the invariant -/

/-- the lines of the table are strictly separated -/
def SortedS (offs : List LineOffset) : Prop :=
  ∀ (i j : Nat) (o o' : LineOffset), i < j → offs[i]? = some o → offs[j]? = some o' →
    o.lineEnd < o'.lineStart

theorem Refines.sortedS {offs offs' : List LineOffset} (h : Refines offs offs') (hs : SortedS offs) :
    SortedS offs' := by
  intro i j o o' hij hi hj
  obtain ⟨a, ha⟩ := h.get' hi
  obtain ⟨b, hb⟩ := h.get' hj
  have e1 := h.entry i a o ha hi
  have e2 := h.entry j b o' hb hj
  have := hs i j a b hij ha hb
  omega

theorem SortedS.orderD {offs : List LineOffset} (h : SortedS offs) : OrderD 0 offs := by
  intro i j o o' hij hi hj
  have := h i j o o' hij hi hj
  omega

structure Geo2 (src0 : List Char) (s : BState) : Prop where
  geo : Geo s
  srcEq : s.src = src0
  strict : SortedS s.offs
  kept : ∀ (k : Nat) (o : LineOffset), s.line ≤ k → k < s.lineMax → s.offs[k]? = some o →
    KeptBlank s.src s.blkIndent o

theorem Geo2.of_eq {src0 : List Char} {s s' : BState} (h : Geo2 src0 s) (h1 : s'.src = s.src)
    (h2 : s'.offs = s.offs) (h3 : s'.blkIndent = s.blkIndent) (h4 : s'.lineMax ≤ s.lineMax)
    (h5 : s.line ≤ s'.line) : Geo2 src0 s' :=
  ⟨h.geo.of_eq h1 h2, h1.trans h.srcEq, by rw [h2]; exact h.strict,
    fun k o hk hm ho => by rw [h1, h3]; exact h.kept k o (by omega) (by omega) (by rw [← h2]; exact ho)⟩

theorem Geo2.of_frame {src0 : List Char} {s s' : BState} (h : Geo2 src0 s) (hf : Frame s s')
    (hl : s.line ≤ s'.line) : Geo2 src0 s' :=
  h.of_eq hf.src hf.offs hf.blkIndent (Nat.le_of_eq hf.lineMax) hl

theorem c05i_usizeAsI32_zero : Lines.usizeAsI32 0 = 0 := by decide

theorem geo2_fresh (src : List Char) (hsmall : 4 * Lines.byteLen src + 8 < 2147483648) (k : Kind)
    (refs : Refs.RefMap) : Geo2 src (BState.fresh src k refs) := by
  refine ⟨geo_fresh src hsmall k refs, rfl, ?_, ?_⟩
  · intro i j o o' hij hi hj
    exact Lines.offsets_increasing (Lines.split_offsets_valid src) i j o o' hij hi hj
  · intro i o _ _ ho
    simp only [BState.fresh] at ho ⊢
    obtain ⟨A, lt, B, _, _, rfl, hsrc, _, _⟩ := Lines.split_entry ho
    intro ws hws
    have hl := Lines.lead_append_rest lt.1
    -- the slice is the run of leading blanks
    have hws' : Lines.slice src (Lines.mkOff (Lines.byteLen (Lines.flat A)) lt).lineStart
        (Lines.mkOff (Lines.byteLen (Lines.flat A)) lt).firstNonspace = .ok (Lines.lead lt.1) := by
      refine Lines.slice_eq_ok_iff.mpr ⟨Lines.flat A, lt.1.dropWhile Lines.isBlank ++ (lt.2 ++ Lines.flat B), ?_, ?_, ?_⟩
      · conv => lhs; rw [hsrc, ← hl]
        simp [List.append_assoc]
      · simp [Lines.mkOff]
      · simp [Lines.mkOff, Lines.byteLen_lead]
    rw [hws'] at hws
    cases hws
    exact C05I.AllBlank.suffix (Lines.lead_allBlank _) (Lines.dropB_suffix _ _)

/-! ## the two container rewritings keep blanks only -/

/-- `rewrite_ws` of Props/C05Doc.lean, also saying that the run is a run of blanks -/
theorem rewrite_ws2 {src : List Char} {o : LineOffset} (hl : LineOk src o) {ltxt : List Char}
    (hlt : Lines.slice src o.lineStart o.lineEnd = .ok ltxt) {rel ind fn : Nat}
    (hf : Lines.findIndentOf ltxt rel = .ok (ind, fn)) :
    ∃ p run, Lines.slice src o.lineStart (fn + o.lineStart) = .ok (p ++ run) ∧ Lines.AllBlank run ∧
      ind = Lines.indentWidth (p ++ run) - Lines.indentWidth p ∧
      Lines.indentWidth p ≤ Lines.indentWidth (p ++ run) := by
  obtain ⟨P, a, b, q, hsrc, hp, hfn, hle, ha, hb⟩ := hl
  have hab : Lines.slice src o.lineStart o.lineEnd = .ok (a ++ b) := by
    refine Lines.slice_eq_ok_iff.mpr ⟨P, q, by rw [hsrc]; simp, hp, ?_⟩
    simp; omega
  rw [hab] at hlt
  cases hlt
  have hbd := (Lines.find_indent_total (a ++ b) rel).mp ⟨_, hf⟩
  obtain ⟨p, t, hpt, hrel⟩ := Lines.onBoundary_iff.mp hbd
  obtain ⟨run, rest, rfl, hrun, hrest⟩ := Lines.blank_run_split t
  rw [hpt, ← List.append_assoc, ← hrel, Lines.find_indent_spec p run rest hrun hrest] at hf
  simp only [Except.ok.injEq, Prod.mk.injEq] at hf
  obtain ⟨rfl, rfl⟩ := hf
  refine ⟨p, run, ?_, hrun, rfl, ?_⟩
  · refine Lines.slice_eq_ok_iff.mpr ⟨P, rest ++ q, ?_, hp, ?_⟩
    · rw [hsrc, List.append_assoc P a b, hpt]; simp
    · simp [hrun.byteLen]; omega
  · rw [Lines.indentWidth_append]; exact Lines.widthFrom_ge _ _

theorem rewrite_kept {src : List Char} {o : LineOffset} (hl : LineOk src o) {ltxt : List Char}
    (hlt : Lines.slice src o.lineStart o.lineEnd = .ok ltxt) {rel ind fn : Nat}
    (hf : Lines.findIndentOf ltxt rel = .ok (ind, fn)) (x : Int) (hx : x ≤ (ind : Int)) :
    ∀ ws, Lines.slice src o.lineStart (fn + o.lineStart) = .ok ws →
      Lines.AllBlank (Lines.dropB ws (Lines.calcRightWs ws x).2) := by
  obtain ⟨p, run, hs, hrun, hind, hle⟩ := rewrite_ws2 hl hlt hf
  intro ws hws
  rw [hs] at hws
  cases hws
  exact C05I.AllBlank.suffix hrun (C05I.kept_of_run p run x (by omega))

theorem bqRewrite_kept {src : List Char} {o o' : LineOffset} {rest : List Char} {le : Bool}
    (h : bqRewrite src o rest = .ok (o', le)) (hl : LineOk src o) : KeptBlank src 0 o' := by
  unfold bqRewrite at h
  crack h
  subst_vars
  have hlt := liftL_ok5 ‹liftL (Lines.slice _ _ _) = _›
  have hf := liftL_ok5 ‹liftL (Lines.findIndentOf _ _) = _›
  have hopt := ‹bqOptSpace _ _ = _›
  intro ws hws
  simp only at hws ⊢
  have hx : ((‹Nat› : Nat) : Int) - Lines.usizeAsI32 0 ≤ ((‹Nat × Nat›).1 : Int) := by
    rw [c05i_usizeAsI32_zero]
    unfold bqOptSpace at hopt
    crack hopt
    all_goals (try (obtain ⟨_, rfl⟩ := psub_ok ‹psub _ 1 = _›))
    all_goals (try subst_vars)
    all_goals omega
  exact rewrite_kept hl hlt hf _ hx ws hws

/-- the content indent of a list item is behind the marker's indent, and small -/
theorem itemRewrite_indent {src : List Char} {o o' : LineOffset} {pos indent : Nat} {re : Bool}
    (h : itemRewrite src o pos = .ok (o', indent, re)) (hl : LineOk src o) (hi : IndOk o)
    (hsmall : 4 * Lines.byteLen src + 8 < 2147483648) :
    0 ≤ o.indentNonspace ∧ o.indentNonspace.toNat ≤ indent ∧ indent + 4 < 2147483648 := by
  unfold itemRewrite at h
  crack h
  subst_vars
  obtain ⟨hle, rfl⟩ := psub_ok ‹psub (pos + o.firstNonspace) _ = _›
  obtain ⟨_, rfl⟩ := psub_ok ‹psub o.lineEnd o.lineStart = _›
  have hlt := liftL_ok5 ‹liftL (Lines.slice _ _ _) = _›
  have hf := liftL_ok5 ‹liftL (Lines.findIndentOf _ _) = _›
  have hlen := lineOk_slice_len hl hlt
  have hb := hl.bounds
  unfold IndOk at hi
  rcases hfi : ‹Nat × Nat› with ⟨f1, f2⟩
  simp only [hfi] at hf ⊢
  have hfb := Lines.find_indent_bounds _ _ _ _ hf
  have hind4 : (if f2 == o.lineEnd - o.lineStart then 1 else if f1 > 4 then 1 else f1) ≤ 4 := by
    split
    · omega
    · split <;> omega
  generalize (if f2 == o.lineEnd - o.lineStart then 1 else if f1 > 4 then 1 else f1) = ia at *
  refine ⟨by omega, by omega, by omega⟩

theorem itemRewrite_kept {src : List Char} {o o' : LineOffset} {pos indent : Nat} {re : Bool}
    (h : itemRewrite src o pos = .ok (o', indent, re)) (hl : LineOk src o) (hi : IndOk o)
    (hsmall : 4 * Lines.byteLen src + 8 < 2147483648) : KeptBlank src indent o' := by
  have hsm := (itemRewrite_indent h hl hi hsmall).2.2
  unfold itemRewrite at h
  crack h
  subst_vars
  have hlt := liftL_ok5 ‹liftL (Lines.slice _ _ _) = _›
  have hf := liftL_ok5 ‹liftL (Lines.findIndentOf _ _) = _›
  intro ws hws
  simp only at hws ⊢ hsm
  rcases hfi : ‹Nat × Nat› with ⟨f1, f2⟩
  simp only [hfi] at hf hws ⊢ hsm
  generalize (if f2 == _ then 1 else if f1 > 4 then 1 else f1) = ia at *
  rw [usizeAsI32_small (by omega)]
  exact rewrite_kept hl hlt hf _ (by omega) ws hws

theorem keptBlank_neg {src : List Char} {o : LineOffset} :
    KeptBlank src 0 { o with indentNonspace := -1 } :=
  C05I.keptBlank_of_le (by rw [c05i_usizeAsI32_zero]; simp)

/-- the lines the block-quote scan went over keep blanks only (at `blk_indent = 0`) -/
theorem bqScan_kept {test : Test} (ht : TestPure test) (m0 : Nat) :
    ∀ (fuel : Nat) (S : BState) (m : Nat) (old : List LineOffset) (le : Bool)
      (n : Nat) (old' : List LineOffset) (S' : BState),
      bqScan test fuel S m old le = .ok (n, old', S') → TableOk S →
      (∀ k o, m0 ≤ k → k < m → S.offs[k]? = some o → KeptBlank S.src 0 o) →
      ∀ k o, m0 ≤ k → k < n → S'.offs[k]? = some o → KeptBlank S'.src 0 o := by
  intro fuel
  induction fuel with
  | zero => intro S m old le n old' S' h; simp [bqScan] at h
  | succ f ih =>
    intro S m old le n old' S' h hT hprev
    simp only [bqScan] at h
    crack h
    all_goals (try subst_vars)
    · exact hprev
    · exact hprev
    · have hset := ‹BState.setOff _ _ _ = _›
      have hoff := off_ok ‹BState.off _ _ = _›
      have hrw := ‹bqRewrite _ _ _ = _›
      have hT1 := hT.setOff hset ((bqRewrite_spec hrw).1 (hT _ _ hoff))
      obtain ⟨hm, rfl⟩ := setOff_ok hset
      refine ih _ _ _ _ _ _ _ h hT1 ?_
      intro k o hk hkm ho
      simp only [List.getElem?_set] at ho
      split at ho
      · simp [hm] at ho; subst ho
        exact bqRewrite_kept hrw (hT _ _ hoff)
      · exact hprev k o hk (by omega) ho
    · exact hprev
    · have e := ht _ _ ‹test _ = _›
      simp only [e] at *
      have hset := ‹BState.setOff _ _ _ = _›
      obtain ⟨hm, rfl⟩ := setOff_ok hset
      intro k o hk hkm ho
      simp only [List.getElem?_set] at ho
      split at ho
      · omega
      · exact hprev k o hk hkm ho
    · have e := ht _ _ ‹test _ = _›
      rw [e]
      exact hprev
    · have e := ht _ _ ‹test _ = _›
      simp only [e] at *
      have hset := ‹BState.setOff _ _ _ = _›
      have hoff := off_ok ‹BState.off _ _ = _›
      have hlo := hT _ _ hoff
      have hT1 : TableOk _ := hT.setOff (s := { S with line := m }) hset (by
        obtain ⟨p, a, b, q, h1, h2, h3, h4, h5, h6⟩ := hlo
        exact ⟨p, a, b, q, h1, h2, h3, h4, h5, h6⟩)
      obtain ⟨hm, rfl⟩ := setOff_ok hset
      refine ih _ _ _ _ _ _ _ h hT1 ?_
      intro k o hk hkm ho
      simp only [List.getElem?_set] at ho
      split at ho
      · simp [hm] at ho; subst ho
        exact keptBlank_neg
      · exact hprev k o hk (by omega) ho

/-! ## the rules -/

/-- what the rules that make placeholders must establish, from the strengthened invariant -/
structure InlSpec2 (src0 : List Char) (P : InlP) : Prop where
  /-- paragraph, setext heading: `get_lines(b, e, blk_indent, false)` -/
  lines : ∀ (s : BState) (b e : Nat) (c : List Char) (m : List (Nat × Nat)) (ob oe : LineOffset),
    Geo2 src0 s → s.getLines b e s.blkIndent false = .ok (c, m) → b < e →
    s.offs[b]? = some ob → s.offs[e - 1]? = some oe → KeptBlank s.src s.blkIndent ob →
    P c m ob.firstNonspace oe.lineEnd
  /-- ATX heading: a slice of the line -/
  heading : ∀ (s : BState) (o : LineOffset) (line content : List Char) (textPos textMax : Nat),
    Geo2 src0 s → s.offs[s.line]? = some o → s.getLine s.line = .ok line →
    liftL (Lines.slice line textPos textMax) = .ok content →
    P content [(0, o.firstNonspace + textPos)] o.firstNonspace o.lineEnd

def KeepsGeo2 (src0 : List Char) (P : InlP) (s s' : BState) : Prop :=
  ∀ lo, Geo2 src0 s → StartsGe s lo → KidsOk P s lo → KidsOk P s' lo

theorem KeepsGeo.to2 {src0 : List Char} {P : InlP} {s s' : BState} (h : KeepsGeo P s s') :
    KeepsGeo2 src0 P s s' := fun lo hg => h lo hg.geo

theorem KeepsGeo2.refl (src0 : List Char) (P : InlP) (s : BState) : KeepsGeo2 src0 P s s :=
  fun _ _ _ h => h

def TokGeo2 (src0 : List Char) (P : InlP) (tok : Tok) : Prop :=
  ∀ s s', tok s = .ok s' → KeepsGeo2 src0 P s s'

theorem heading_geo2 {src0 : List Char} {P : InlP} (hP : InlSpec2 src0 P) {s s' : BState} {b : Bool}
    (h : headingRule s false = .ok (b, s')) : KeepsGeo2 src0 P s s' := by
  unfold headingRule at h
  crack h
  all_goals (try subst_vars)
  all_goals (first | exact KeepsGeo2.refl _ _ _ | skip)
  intro lo hg2 hs hk
  have hg := hg2.geo
  obtain ⟨_, oa, ob, ha, hb, rfl⟩ := getMap_ok5 ‹BState.getMap _ _ _ = _›
  rw [ha] at hb; cases hb
  have ho := off_ok ‹BState.off _ _ = _›
  rw [ha] at ho; cases ho
  obtain ⟨g1, g2, g3, g4⟩ := hg.map_ok (Nat.le_refl _) ha ha
  have hp := hP.heading s _ _ _ _ _ hg2 ha ‹BState.getLine _ _ = _› ‹liftL (Lines.slice _ _ _) = _›
  exact hk.push hg ha ha (Nat.le_refl _) spanB_range
    (rangedB_text _ g2 g3 g4 hp (Nat.le_refl _) g2 (Nat.le_refl _)) (hs _ _ (Nat.le_refl _) ha).1
    g1 g2 (Nat.le_refl _) rfl rfl rfl (by simp [BState.push])

theorem paragraph_geo2 {src0 : List Char} {P : InlP} (hP : InlSpec2 src0 P) {test : Test} (ht : TestPure test)
    {fuel : Nat} {s s' : BState} {b : Bool} (h : paragraphRule test fuel s false = .ok (b, s'))
    (hl : s.line < s.lineMax) : KeepsGeo2 src0 P s s' := by
  unfold paragraphRule at h
  crack h
  have hscan := ‹lazyScan _ _ _ _ _ = _›
  have hgl := ‹BState.getLines _ _ _ _ _ = _›
  have he := ‹psub _ _ = _›
  have hr := ‹BState.getMap _ _ _ = _›
  obtain ⟨h1, h2, _, _⟩ := lazyScan_spec ht false _ _ _ _ hscan
  subst_vars
  intro lo hg2 hs hk
  have hg := hg2.geo
  obtain ⟨hab, oa, ob, ha, hb, rfl⟩ := getMap_ok5 hr
  obtain ⟨hle, rfl⟩ := psub_ok he
  obtain ⟨g1, g2, g3, g4⟩ := hg.map_ok hab ha hb
  have hp := hP.lines _ _ _ _ _ oa ob hg2 hgl h2 ha hb (hg2.kept _ _ (Nat.le_refl _) hl ha)
  exact hk.push hg ha hb hab spanB_range
    (rangedB_text _ g2 g3 g4 hp (Nat.le_refl _) g2 (Nat.le_refl _)) (hs _ _ (Nat.le_refl _) ha).1
    g1 g2 (Nat.le_refl _) rfl rfl rfl (by simp [BState.push]; omega)

theorem lheading_geo2 {src0 : List Char} {P : InlP} (hP : InlSpec2 src0 P) {test : Test} (ht : TestPure test)
    {fuel : Nat} {s s' : BState} {b : Bool} (h : lheadingRule test fuel s false = .ok (b, s'))
    (hl : s.line < s.lineMax) : KeepsGeo2 src0 P s s' := by
  unfold lheadingRule at h
  crack h
  · subst_vars; exact KeepsGeo2.refl _ _ _
  · have h1 := (lazyScan_spec ht true _ _ _ _ ‹lazyScan _ _ _ _ _ = _›).1
    subst_vars; exact KeepsGeo2.refl _ _ _
  · have hscan := ‹lazyScan _ _ _ _ _ = _›
    have hgl := ‹BState.getLines _ _ _ _ _ = _›
    have he := ‹psub _ _ = _›
    have hr := ‹BState.getMap _ _ _ = _›
    obtain ⟨h1, h2, _, _⟩ := lazyScan_spec ht true _ _ _ _ hscan
    subst_vars
    intro lo hg2 hs hk
    have hg := hg2.geo
    obtain ⟨hab, oa, ob, ha, hb, rfl⟩ := getMap_ok5 hr
    obtain ⟨hle, rfl⟩ := psub_ok he
    simp only [Nat.add_sub_cancel] at ha hb hab
    obtain ⟨g1, g2, g3, g4⟩ := hg.map_ok hab ha hb
    have hlen := (List.getElem?_eq_some_iff.mp hb).1
    obtain ⟨oe, hpe⟩ : ∃ oe, _ = some oe := ⟨_, List.getElem?_eq_getElem (Nat.lt_of_le_of_lt (Nat.sub_le _ 1) hlen)⟩
    have hp := hP.lines _ _ _ _ _ oa _ hg2 hgl h2 ha hpe (hg2.kept _ _ (Nat.le_refl _) hl ha)
    have hm := hg.end_mono (Nat.sub_le _ 1) hpe hb
    have hm2 := hg.map_ok (b := _ - 1) (by omega) ha hpe
    exact hk.push hg ha hb hab spanB_range
      (rangedB_text _ g2 g3 g4 hp (Nat.le_refl _) hm2.2.1 hm) (hs _ _ (Nat.le_refl _) ha).1
      g1 g2 (Nat.le_refl _) rfl rfl rfl (by simp [BState.push])

/-! ## block quote -/

theorem nested_run2 {src0 : List Char} {P : InlP} {tok : Tok} (hsh : TokGeo2 src0 P tok) {SN s2 : BState}
    (htok : tok SN = .ok s2) (hg : Geo2 src0 SN) {m : Nat} {x : LineOffset} {lo : Nat} (hline : SN.line = m)
    (hx : SN.offs[m]? = some x) (h1 : lo ≤ x.firstNonspace) (h2 : CutGe SN.src SN.blkIndent x lo)
    (hc : SN.children = []) : KidsOk P s2 lo :=
  hsh _ _ htok lo hg (startsGe_nested hg.geo hline hx h1 h2) (kidsOk_nil hc lo)

theorem blockquote_geo2 {src0 : List Char} {P : InlP} {tok : Tok} {test : Test} (hk : TokSpec tok)
    (hsh : TokGeo2 src0 P tok) (ht : TestPure test) {fuel : Nat} {s s' : BState} {b : Bool}
    (h : blockquoteRule tok test fuel s false = .ok (b, s')) (hl : s.line < s.lineMax)
    (hi : IndentOk s) : KeepsGeo2 src0 P s s' := by
  obtain ⟨i, hi, hi0⟩ := hi
  unfold blockquoteRule at h
  replace h := bind_ok.mp h
  obtain ⟨ind, hind, h⟩ := h
  dsimp only at h
  by_cases hge : ind ≥ 4
  · rw [if_pos hge] at h; crack h; subst_vars; exact KeepsGeo2.refl _ _ _
  rw [if_neg hge] at h
  replace h := bind_ok.mp h
  obtain ⟨line, hline, h⟩ := h
  by_cases hhead : line.head? ≠ some '>'
  · rw [if_pos hhead] at h; crack h; subst_vars; exact KeepsGeo2.refl _ _ _
  rw [if_neg hhead] at h
  have hhead := Classical.not_not.mp hhead
  simp only [Bool.false_eq_true, if_false] at h
  replace h := bind_ok.mp h
  obtain ⟨⟨n, old', S'⟩, hscan, h⟩ := h
  simp only at h
  replace h := bind_ok.mp h
  obtain ⟨s2, htok, h⟩ := h
  replace h := bind_ok.mp h
  obtain ⟨lvl, hlvl, h⟩ := h
  replace h := bind_ok.mp h
  obtain ⟨offs, hoffs, h⟩ := h
  replace h := bind_ok.mp h
  obtain ⟨e, he, h⟩ := h
  replace h := bind_ok.mp h
  obtain ⟨r, hr, h⟩ := h
  simp only [pure_ok, Prod.mk.injEq] at h
  obtain ⟨_, hs'⟩ := h
  obtain ⟨hsb, hmn, hup, _, hT, add, hadd, hrest⟩ := bqScan_spec ht _ _ _ _ _ _ _ _ hscan
  have href := bqScan_refines ht _ _ _ _ _ _ _ _ hscan
  obtain ⟨o0, o0', rest, le', ho0, hrw, ho0'⟩ := bqScan_first_entry ht hscan hl hi hi0 hline hhead
  have hfr := hk.frame _ _ htok
  have hmono := hk.mono _ _ htok
  simp only at hmono
  obtain ⟨_, rfl⟩ := psub_ok hlvl
  simp only [List.nil_append] at hadd
  subst hadd
  rw [hfr.offs] at hoffs
  simp only at hoffs
  rw [hrest] at hoffs
  cases hoffs
  obtain ⟨hle, rfl⟩ := psub_ok he
  subst hs'
  intro lo hg2 hs hkids
  have hg := hg2.geo
  obtain ⟨hab, oa, ob, ha, hb, rfl⟩ := getMap_ok5 hr
  simp only at ha hb hab hle
  rw [ho0] at ha; cases ha
  obtain ⟨g1, g2, g3, g4⟩ := hg.map_ok hab ho0 hb
  -- the nested state
  have hgS : Geo S' := ⟨hT hg.table, href.sorted hg.sorted, bqScan_ind ht _ _ _ _ _ _ _ _ hscan hg.ind,
    by rw [hsb.src]; exact hg.small⟩
  have hgeo := bqRewrite_geo hrw
  have hcut := bqRewrite_cut hrw (hg.table _ _ ho0)
  have hkept := bqScan_kept ht s.line _ _ _ _ _ _ _ _ hscan hg.table
    (fun k o h1 h2 => absurd h2 (by omega))
  have hnest := nested_run2 hsh htok (lo := o0.firstNonspace)
    ⟨hgS.of_eq rfl rfl, hsb.src.trans hg2.srcEq, href.sortedS hg2.strict,
      fun k o h1 h2 h3 => hkept k o h1 h2 h3⟩ rfl ho0' (by omega)
    (by simp only [hsb.src]; exact hcut) rfl
  have hend : ∀ e o, e < s2.line → s2.offs[e]? = some o → o.lineEnd ≤ ob.lineEnd := by
    intro e o he ho
    rw [hfr.offs] at ho
    simp only at ho
    obtain ⟨o1, ho1⟩ := href.get' ho
    have := href.entry e o1 o ho1 ho
    have := hg.end_mono (j := _ - 1) (by omega) ho1 hb
    omega
  refine hkids.push hg ho0 hb hab spanB_range
    (rangedB_container hnest (by rw [hfr.src]; exact hsb.src) g2 g3 g4 hend s2.nodeKind)
    (hs _ _ (Nat.le_refl _) ho0).1 g1 g2 (Nat.le_refl _) ?_ rfl ?_ ?_
  · simp [hfr.src, hsb.src]
  · simp [hsb.children]
  · simp; omega

/-! ## list -/

theorem listItemBody_geo2 {src0 : List Char} {P : InlP} {tok : Tok} (hsh : TokGeo2 src0 P tok) {S2 S3 : BState}
    {m : Nat} {re : Bool} (h : listItemBody tok S2 m re = .ok S3) (hg : Geo2 src0 S2) (hline : S2.line = m)
    (hc : S2.children = []) {x : LineOffset} {lo : Nat} (hx : S2.offs[m]? = some x)
    (h1 : lo ≤ x.firstNonspace) (h2 : CutGe S2.src S2.blkIndent x lo) : KidsOk P S3 lo := by
  unfold listItemBody at h
  crack h
  · subst_vars; exact kidsOk_nil (by exact hc) lo
  · have htok := ‹tok _ = _›
    subst_vars
    have := nested_run2 hsh htok (hg.of_eq rfl rfl rfl (Nat.le_refl _) (Nat.le_refl _)) (lo := lo) rfl hx h1 h2 hc
    exact ⟨this.ord, this.deep⟩

theorem listItem_geo2 {src0 : List Char} {P : InlP} {tok : Tok} (hk : TokSpec tok) (hsh : TokGeo2 src0 P tok)
    {S S' : BState} {m pos : Nat} {pee tight pee' tight' : Bool}
    (h : listItem tok S m pos pee tight = .ok (S', tight', pee'))
    (hline : S.line = m) (hlt : m < S.lineMax) (hio : IndentOk S) :
    ∀ lo, Geo2 src0 S → FnGe S lo → KidsOk P S lo → KidsOk P S' lo := by
  have hspec := listItem_spec hk h hline hlt
  unfold listItem at h
  replace h := bind_ok.mp h
  obtain ⟨o, ho, h⟩ := h
  replace h := bind_ok.mp h
  obtain ⟨⟨o', indent, re⟩, hrw, h⟩ := h
  simp only at h
  replace h := bind_ok.mp h
  obtain ⟨S2, hS2, h⟩ := h
  replace h := bind_ok.mp h
  obtain ⟨S3, hbody, h⟩ := h
  replace h := bind_ok.mp h
  obtain ⟨pe, hpe, h⟩ := h
  split at h
  · cases h
  rename_i li hli
  replace h := bind_ok.mp h
  obtain ⟨S5, hS5, h⟩ := h
  replace h := bind_ok.mp h
  obtain ⟨e, he, h⟩ := h
  replace h := bind_ok.mp h
  obtain ⟨r, hr, h⟩ := h
  simp only [pure_ok, Prod.mk.injEq] at h
  obtain ⟨hS', _, _⟩ := h
  subst hS'
  obtain ⟨hm, hS2eq⟩ := setOff_ok hS2
  obtain ⟨hm5, rfl⟩ := setOff_ok hS5
  have ho' := off_ok ho
  obtain ⟨hok, hc⟩ := itemRewrite_spec hrw
  have hgeo := itemRewrite_geo hrw
  simp only at hS2 hS2eq hbody hr he
  intro lo hgg hs hkids
  have hg := hgg.geo
  have hcond : S2.isEmpty m = true ∨ IndentOk { S2 with line := m } := by
    refine item_cond (x := o') (by rw [hS2eq]; simp [hm]) ?_
    rw [hS2eq]
    exact hc
  obtain ⟨hfr, hlt', hle'⟩ := listItemBody_spec hk hbody (by rw [hS2eq]; exact hline)
    (by rw [hS2eq]; exact hlt) hcond
  have href : Refines S.offs S2.offs := by
    rw [hS2eq]; exact Refines.set ho' hgeo.1 hgeo.2.1 hgeo.2.2
  have hT2 : TableOk S2 :=
    TableOk.setOff (s := { S with nodeKind := .listItem, children := [], listIndent := some S.blkIndent, blkIndent := indent, tight := true })
      (fun k o ho => hg.table k o ho) hS2 (hok (hg.table _ _ ho'))
  have hg2 : Geo S2 := ⟨hT2, href.sorted hg.sorted,
    by rw [hS2eq]; exact hg.ind.set m (itemRewrite_ind hrw (hg.ind _ _ ho') (hg.table _ _ ho').bounds.1),
    by rw [hS2eq]; exact hg.small⟩
  -- the strengthened part
  obtain ⟨hi0, hi1, hi2⟩ := itemRewrite_indent hrw (hg.table _ _ ho') (hg.ind _ _ ho') hg.small
  obtain ⟨iv, hiv, hiv0⟩ := hio
  rw [hline, lineIndent_of_off ho'] at hiv
  simp only [Except.ok.injEq] at hiv
  have hblk : Lines.usizeAsI32 S.blkIndent ≤ Lines.usizeAsI32 indent := by
    rw [usizeAsI32_small (by omega), usizeAsI32_small (by omega)]
    omega
  have hkeptm := itemRewrite_kept hrw (hg.table _ _ ho') (hg.ind _ _ ho') hg.small
  have hg22 : Geo2 src0 S2 := by
    refine ⟨hg2, by rw [hS2eq]; exact hgg.srcEq, href.sortedS hgg.strict, ?_⟩
    rw [hS2eq]
    intro k x hk1 hk2 hx
    simp only [List.getElem?_set] at hx
    split at hx
    · simp at hx
      obtain ⟨_, rfl⟩ := hx
      exact hkeptm
    · exact (hgg.kept k x (by simpa [hline] using hk1) hk2 hx).mono hblk
  have hx2 : S2.offs[m]? = some o' := by rw [hS2eq]; simp [hm]
  have hcut := itemRewrite_cut hrw (hg.table _ _ ho') (hg.ind _ _ ho') hg.small
  have hnest : KidsOk P S3 o.firstNonspace :=
    listItemBody_geo2 hsh hbody hg22 (by rw [hS2eq]; exact hline) (by rw [hS2eq]) hx2 hgeo.2.2
      (by rw [hS2eq]; exact hcut)
  obtain ⟨hle, rfl⟩ := psub_ok he
  obtain ⟨hab, oa, ob, ha, hb, rfl⟩ := getMap_ok5 hr
  have hrestore : (S3.offs.set m o) = S.offs := by
    rw [hfr.offs, hS2eq]
    simp only [List.set_set]
    rw [← (List.getElem?_eq_some_iff.mp ho').2]
    exact List.set_getElem_self _
  simp only [hrestore] at ha hb hab hle
  rw [ho'] at ha; cases ha
  obtain ⟨g1, g2, g3, g4⟩ := hg.map_ok hab ho' hb
  have hend : ∀ e x, e < S3.line → S3.offs[e]? = some x → x.lineEnd ≤ ob.lineEnd := by
    intro e x he hx
    rw [hfr.offs] at hx
    obtain ⟨x1, hx1⟩ := href.get' hx
    have := href.entry e x1 x hx1 hx
    have := hg.end_mono (j := S3.line - 1) (by omega) hx1 hb
    omega
  have hsrc3 : S3.src = S.src := by rw [hfr.src, hS2eq]
  subst hline
  refine hkids.push hg ho' hb hab spanB_range
    (rangedB_container hnest hsrc3 g2 g3 g4 hend S3.nodeKind)
    (hs _ _ (Nat.le_refl _) ho') g1 g2 (Nat.le_refl _) ?_ ?_ ?_ ?_
  · simp [hsrc3]
  · simp [hrestore]
  · simp
  · simp; omega

theorem listContinue_ind {test : Test} (ht : TestPure test) {ordered : Bool} {mc : Char}
    {S S' : BState} {n p : Nat} (h : listContinue test ordered mc S n = .ok (some p, S')) :
    ∃ i, S.lineIndent n = .ok i ∧ 0 ≤ i := by
  unfold listContinue at h
  crack h
  all_goals (try subst_vars)
  all_goals (first | (exact ⟨_, ‹BState.lineIndent _ _ = _›, by omega⟩) | simp_all)

theorem listLoop_geo2 {src0 : List Char} {P : InlP} {tok : Tok} {test : Test} (hk : TokSpec tok)
    (hsh : TokGeo2 src0 P tok) (ht : TestPure test) {ordered : Bool} {mc : Char} :
    ∀ (fuel : Nat) (S : BState) (m pos : Nat) (pee tight : Bool) (n : Nat) (tight' : Bool) (S' : BState),
      listLoop tok test ordered mc fuel S m pos pee tight = .ok (n, tight', S') →
      S.line = m → m < S.lineMax → IndentOk S →
      ∀ lo, Geo2 src0 S → FnGe S lo → KidsOk P S lo → KidsOk P S' lo := by
  intro fuel
  induction fuel with
  | zero => intro S m pos pee tight n tight' S' h; simp [listLoop] at h
  | succ f ih =>
    intro S m pos pee tight n tight' S' h hline hlt hio
    simp only [listLoop] at h
    crack h
    all_goals (try subst_vars)
    · rename_i wi wc hc _ hnone _ hitem
      obtain ⟨S1, t1, p1⟩ := wi
      obtain ⟨c, S2⟩ := wc
      obtain ⟨rfl, _⟩ := listContinue_spec ht hc
      exact listItem_geo2 hk hsh hitem rfl hlt hio
    · rename_i wi wc hc _ p hsome _ hitem
      obtain ⟨S1, t1, p1⟩ := wi
      obtain ⟨c, S2⟩ := wc
      obtain ⟨hfr, h1, h2⟩ := listItem_spec hk hitem rfl hlt
      obtain ⟨rfl, hc2⟩ := listContinue_spec ht hc
      simp only at hsome h hc2
      have hlt2 := hc2 (by rw [hsome]; simp)
      have hio2 : IndentOk S2 := by
        simp only at hc
        rw [hsome] at hc
        exact listContinue_ind ht hc
      intro lo hg hs hkids
      exact ih _ _ _ _ _ _ _ _ h rfl hlt2 hio2 lo (hg.of_frame hfr (Nat.le_of_lt h1))
        (fun k o hk ho => hs k o (by omega) (by rw [← hfr.offs]; exact ho))
        (listItem_geo2 hk hsh hitem rfl hlt hio lo hg hs hkids)

theorem list_rule_geo2 {src0 : List Char} {P : InlP} {tok : Tok} {test : Test} (hk : TokSpec tok)
    (hsh : TokGeo2 src0 P tok) (ht : TestPure test) {fuel : Nat} {s s' : BState} {b : Bool}
    (h : listRule tok test fuel s false = .ok (b, s')) (hl : s.line < s.lineMax) (hi : IndentOk s) :
    KeepsGeo2 src0 P s s' := by
  unfold listRule at h
  crack h
  all_goals (try subst_vars)
  all_goals (try (exact KeepsGeo2.refl _ _ _))
  all_goals (
    have hloop := ‹listLoop _ _ _ _ _ _ _ _ _ _ = _›
    have htight := ‹(if _ then tightenItems _ else _) = Except.ok _›
    have he := ‹psub _ 1 = Except.ok (_ : Nat)›
    have hr := ‹BState.getMap _ _ _ = _›
    rename_i wl _ cs _ _ _ _ _ _ _
    obtain ⟨n, t, S'⟩ := wl
    obtain ⟨hfr, hline', hmn, _⟩ := listLoop_spec hk ht _ _ _ _ _ _ _ _ _ hloop rfl hl
    intro lo hg2 hs hkids
    have hg := hg2.geo
    obtain ⟨hab, oa, ob, ha, hb, rfl⟩ := getMap_ok5 hr
    simp only at ha hb hab hfr hline' hmn htight
    have hoffs : S'.offs = s.offs := hfr.offs
    have hsrc : S'.src = s.src := hfr.src
    rw [hoffs] at ha hb
    obtain ⟨g1, g2, g3, g4⟩ := hg.map_ok hab ha hb
    have hinner := listLoop_geo2 hk hsh ht _ _ _ _ _ _ _ _ _ hloop rfl hl hi oa.firstNonspace
      (hg2.of_eq rfl rfl rfl (Nat.le_refl _) (Nat.le_refl _)) (fun k o hk ho => by
        have hk' : s.line ≤ k := hk
        have ho' : s.offs[k]? = some o := ho
        rcases Nat.lt_or_ge s.line k with hlt | hge
        · have h1 := hg.sorted s.line k oa o hlt ha ho'
          have h2 := (hg.table _ _ ha).bounds
          have h3 := (hg.table _ _ ho').bounds
          omega
        · have : k = s.line := by omega
          subst this
          rw [ha] at ho'; cases ho'
          exact Nat.le_refl _) (kidsOk_nil rfl _)
    obtain ⟨⟨hi', hord, hbd⟩, hdeep⟩ := hinner
    rw [hsrc] at hdeep
    obtain ⟨hle, rfl⟩ := psub_ok he
    have hord2 : OrderedB P oa.firstNonspace ob.lineEnd S'.children := by
      refine hord.widen (Nat.le_refl _) ?_
      rcases hbd with hbd | ⟨e, o, he, hoe, hle⟩
      · omega
      · rw [hoffs] at hoe
        have := hg.end_mono (j := n - 1) (by omega) hoe hb
        omega
    have hcs : OrderedB P oa.firstNonspace ob.lineEnd cs ∧ ∀ c ∈ cs, RangedB P s.src c := by
      split at htight
      · exact tightenItems_geo _ _ _ _ htight hord2 hdeep
      · simp [pure, Except.pure] at htight; subst htight; exact ⟨hord2, hdeep⟩
    have hnode : RangedB P s.src ⟨S'.nodeKind, some (oa.firstNonspace, ob.lineEnd), cs⟩ := by
      refine .mk _ (fun x y h => ?_) (fun h => by cases h) hcs.2
      cases h
      exact ⟨g2, g3, g4, hcs.1⟩
    refine hkids.push hg ha hb hab spanB_range hnode (hs _ _ (Nat.le_refl _) ha).1 g1 g2 (Nat.le_refl _)
      ?_ ?_ rfl ?_
    · simp [hsrc]
    · simp [hoffs]
    · simp [hline']; omega)

/-! ## the chain and the tokenizer -/

theorem runRule_geo2 {src0 : List Char} {P : InlP} (hP : InlSpec2 src0 P) {cfg : Cfg} {tok : Tok} {test : Test}
    (hk : TokSpec tok) (hsh : TokGeo2 src0 P tok) (ht : TestPure test) (fuel : Nat) (r : RuleId)
    {s s' : BState} {b : Bool} (h : runRule cfg tok test fuel r s false = .ok (b, s'))
    (hl : s.line < s.lineMax) (hi : IndentOk s) : KeepsGeo2 src0 P s s' := by
  cases r <;> simp only [runRule] at h
  · exact (code_geo h).to2
  · exact (fence_geo h).to2
  · exact blockquote_geo2 hk hsh ht h hl hi
  · exact (hr_geo h).to2
  · exact list_rule_geo2 hk hsh ht h hl hi
  · exact (reference_geo ht h).to2
  · exact heading_geo2 hP h
  · exact lheading_geo2 hP ht h hl
  · exact paragraph_geo2 hP ht h hl

theorem runChain_geo2 {src0 : List Char} {P : InlP} {run : RuleId → BState → Bool → Res} (hr : RunSpec run)
    (hsh : ∀ r s b s', run r s false = .ok (b, s') → s.line < s.lineMax → IndentOk s → KeepsGeo2 src0 P s s') :
    ∀ (chain : List RuleId) (s : BState) (b : Bool) (s' : BState),
      runChain run chain s false = .ok (b, s') → s.line < s.lineMax → IndentOk s → KeepsGeo2 src0 P s s' := by
  intro chain
  induction chain with
  | nil => intro s b s' h _ _; simp [runChain] at h; rw [← h.2]; exact KeepsGeo2.refl _ _ _
  | cons r rs ih =>
    intro s b s' h hl hi
    simp only [runChain] at h
    split at h
    · cases h
    · rename_i s1 h1
      cases h
      exact hsh _ _ _ _ h1 hl hi
    · rename_i s1 h1
      have := hr.false_same _ _ _ h1
      subst this
      exact ih _ _ _ h hl hi

/-- with the paragraph rule in the chain the fallback is dead code -/
theorem afterChain_geo2 {src0 : List Char} {P : InlP} {s s' : BState} {prev : Nat}
    (h : afterChain true s prev = .ok s') : KeepsGeo2 src0 P s s' := by
  unfold afterChain at h
  crack h
  exact KeepsGeo2.refl _ _ _

theorem tokLoop_geo2 {src0 : List Char} {P : InlP} {cfg : Cfg}
    {run : RuleId → BState → Bool → Res} (hr : RunSpec run)
    (hsh : ∀ r s b s', run r s false = .ok (b, s') → s.line < s.lineMax → IndentOk s → KeepsGeo2 src0 P s s')
    (hpara : ∀ s b s', runChain run cfg.chain s false = .ok (b, s') → b = true) :
    ∀ (fuel : Nat) (he : Bool) (s s' : BState), tokLoop cfg run fuel he s = .ok s' → KeepsGeo2 src0 P s s' := by
  intro fuel
  induction fuel with
  | zero => intro he s s' h; simp [tokLoop] at h
  | succ f ih =>
    intro he s s' h
    simp only [tokLoop] at h
    obtain ⟨hs1, hs2, hs3, hs4⟩ := skipEmpty_spec s.offs s.lineMax s.line
    generalize Lines.skipEmptyLines s.offs s.lineMax s.line = l' at h hs1 hs2 hs3 hs4
    crack h
    all_goals (try subst_vars)
    · exact KeepsGeo2.refl _ _ _
    · exact fun lo hg hs hk => hk.of_eq rfl rfl rfl hs1
    · exact fun lo hg hs hk => hk.of_eq rfl rfl rfl hs1
    · exact fun lo hg hs hk => hk.of_eq rfl rfl rfl (by simp; omega)
    all_goals (
      have hchain := ‹runChain _ _ _ _ = _›
      have hafter := ‹afterChain _ _ _ = _›
      have hind := ‹BState.lineIndent _ _ = _›
      have hlt : l' < s.lineMax := by omega
      have hio : IndentOk ({ s with line := l' } : BState) := ⟨_, hind, by omega⟩
      obtain ⟨h13, hlt3, _⟩ := tok_iter hr (s1 := { s with line := l' }) rfl hlt hio hchain hafter
      have hfr2 := runChain_frame hr hchain hlt hio
      have hb := hpara _ _ _ hchain
      intro lo hg hs hk
      have hg1 : Geo2 src0 ({ s with line := l' } : BState) := hg.of_eq rfl rfl rfl (Nat.le_refl _) hs1
      have hst1 : StartsGe ({ s with line := l' } : BState) lo := hs.of_eq rfl rfl rfl hs1
      have hk1 : KidsOk P ({ s with line := l' } : BState) lo := hk.of_eq rfl rfl rfl hs1
      have hk2 := runChain_geo2 hr hsh _ _ _ _ hchain hlt hio lo hg1 hst1 hk1
      have hk3 := afterChain_geo2 (src0 := src0) (P := P) (by rw [← hb]; exact hafter) lo
        (hg1.of_frame hfr2.1 hfr2.2) (hst1.of_frame hfr2.1 hfr2.2) hk2
      refine ih _ _ _ h lo ((hg1.of_frame h13 (Nat.le_of_lt hlt3)).of_eq rfl rfl rfl (Nat.le_refl _) ?_)
        ((hst1.of_frame h13 (Nat.le_of_lt hlt3)).of_eq rfl rfl rfl ?_)
        (hk3.of_eq rfl rfl rfl ?_)
      all_goals (simp))

/-- the tokenizer keeps the strengthened invariant (paragraph rule in the chain) -/
theorem tokenize_geo2 {src0 : List Char} {P : InlP} (cfg : Cfg) (hpara : Cfg.hasPara cfg = true)
    (hP : InlSpec2 src0 P) : ∀ fuel : Nat, TokGeo2 src0 P (tokenize cfg fuel) := by
  intro fuel
  induction fuel with
  | zero => intro s s' h; simp [tokenize, engine] at h
  | succ f ih =>
    intro s s' h
    simp only [tokenize, engine] at h
    have hk := tokenize_tokSpec cfg f
    have ht := testRules_pure cfg f
    refine tokLoop_geo2 (runRule_spec hk ht _)
      (fun r s b s' h hl hi => runRule_geo2 hP hk ih ht _ r h hl hi) ?_ _ _ _ _ h
    intro s b s' hc
    exact runChain_para _ _ _ _ (by simpa [Cfg.hasPara] using hpara) hc

/-- **the block tree, with the strengthened claim about placeholders** -/
theorem parseBlocks_geo2 {P : InlP} {cfg : Cfg} {src : List Char} (hpara : Cfg.hasPara cfg = true)
    (hP : InlSpec2 src P) {root : BNode} {refs : Refs.RefMap}
    (hsmall : 4 * Lines.byteLen src + 8 < 2147483648)
    (h : parseBlocks cfg src = .ok (root, refs)) :
    root.range = some (0, Lines.byteLen src) ∧ RangedB P src root := by
  unfold parseBlocks at h
  split at h
  · cases h
  · rename_i s hs
    simp only [Except.ok.injEq, Prod.mk.injEq] at h
    obtain ⟨rfl, _⟩ := h
    refine ⟨rfl, ?_⟩
    have hfr := (tokenize_spec cfg _ _ _ hs).frame
    have hg2 := geo2_fresh src hsmall .root []
    have hg := hg2.geo
    have hk := tokenize_geo2 cfg hpara hP _ _ _ hs 0 hg2
      (fun k o _ _ => ⟨Nat.zero_le _, fun _ _ => Nat.zero_le _⟩) (kidsOk_nil rfl 0)
    obtain ⟨⟨hi, hord, hbd⟩, hdeep⟩ := hk
    have hsrc : s.src = src := hfr.src
    rw [hsrc] at hdeep
    refine .mk _ (fun a b h => ?_) (fun h => by cases h) hdeep
    simp only [Option.some.injEq, Prod.mk.injEq] at h
    obtain ⟨rfl, rfl⟩ := h
    refine ⟨Nat.zero_le _, ⟨[], src, rfl, rfl⟩, ⟨src, [], by simp, rfl⟩, hord.widen (Nat.le_refl _) ?_⟩
    rcases hbd with hbd | ⟨e, o, he, hoe, hle⟩
    · omega
    · rw [hfr.offs] at hoe
      have := (hg.table _ _ hoe).bounds
      simp only [BState.fresh] at this
      omega

/-! ## the full claim about a placeholder -/

open MdIt.C05I (KeysLFV UpTo NoVirt) in
/-- **`PMap`**: the table is well formed and monotone up to virtual-space entries, its keys sit
    behind line feeds (or virtual spaces), it is `Inline.MapOK` when no tab was split — and no tab
    is split in a tab-free document —, and everything between the two cursors `trim_src` sets is
    translated into the stretch `[a, b]` (upper bound: outside virtual spaces) -/
def PMapF (src0 : List Char) : InlP := fun c m a b =>
  C05.WFMap m ∧ C05.MonoMapV m ∧ KeysLFV c m ∧ UpTo c m b ∧ (NoVirt m → Inline.MapOK c m) ∧
    ('\t' ∉ src0 → NoVirt m) ∧
    ((Inline.trimSrc c).1 < (Inline.trimSrc c).2 → ∀ pos x, (Inline.trimSrc c).1 ≤ pos →
      InlineOps.getSourcePosFor m pos = .ok x → a ≤ x)

theorem inlSpec2_pmapF (src0 : List Char) : InlSpec2 src0 (PMapF src0) := by
  refine ⟨?_, ?_⟩
  · intro s b e c m ob oe hg hgl hbe hob hoe hkept
    have hgl' := C05I.getLines_lift hgl
    obtain ⟨h1, h2, h3, h4, h5, h6⟩ := C05I.getLines_table hg.geo.table hg.strict.orderD hbe hgl' hoe
    refine ⟨h1, h2, h3, h4, h5, ?_, ?_⟩
    · rw [← hg.srcEq]; exact h6
    · intro hlt
      exact C05I.getLines_lower hg.geo.table hg.strict.orderD hbe hgl' hob hkept hlt
  · intro s o line content textPos textMax hg ho hline hcontent
    obtain ⟨hw, hv, hk, hn, hm⟩ := C05I.single_table content (o.firstNonspace + textPos)
    refine ⟨hw, hv, hk, ?_, fun _ => hm, fun _ => hn, ?_⟩
    · exact (C05I.inlSpec_pmapW.heading s o line content textPos textMax hg.geo ho hline hcontent).2.2
    · intro _ pos x _ hx
      rw [C05I.single_translate] at hx
      simp only [Except.ok.injEq] at hx
      omega

end MdIt.Block
