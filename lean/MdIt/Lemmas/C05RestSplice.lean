/-
  C05, the remaining clauses (character boundaries, text faithfulness): transport through the three
  passes behind the block pass, on the full `Pipeline.Node` tree (the companion of
  Lemmas/C05InlineSplice.lean, which transports the geometry `NodeOrd`).

    * `sp_ofInline_every` / `sp_ofInlineList_glued`   `FthN` / `Adjd` on the inline parser's nodes
                                 become `Every (PreOk src)` / `Glued src` on the document's nodes
    * `sp_spliceNode_pre` / `sp_spliceList_pre`   the splice walk: every node of the walked tree is
                                 `PreOk`; the seam between the outputs of two placeholders of one
                                 sibling list is `Glue`d by the line break that ends the first stretch
    * `sp_merged_sel`            the text clause of the hull of two `Glue`d texts
      `sp_mergeLoop_pre` / `sp_fragmentsJoin_pre`   `fragments_join` keeps `Every (PreOk src)` on the
                                 members it retains
      `sp_joinNode_every`        the join pass turns `Every PreOk` into `Every PostOk`
    * `sp_sourceposNode_every`   the sourcepos pass keeps `Every PostOk` (attributes only)
    * `afterBlocks_postOk`       the composition (the deliverable)
-/
import MdIt.Lemmas.C05RestDefs

namespace MdIt.Pipeline
open MdIt.C05R
open MdIt.InlineOps (byteLen)

/-! ## generalities -/

theorem sp_every_and {P Q : Node → Prop} : ∀ {n : Node}, Every P n → Every Q n →
    Every (fun n => P n ∧ Q n) n := by
  intro n hp
  induction hp with
  | mk n h1 _ ih =>
    intro hq
    exact .mk n ⟨h1, hq.here⟩ (fun c hc => ih c hc (hq.child c hc))

/-- `Glue` reads the text value and the range of its two arguments only -/
theorem sp_glue_congr {src : List Char} {x y x' y' : Node} (hx : textOfK x'.kind = textOfK x.kind)
    (hxr : x'.range = x.range) (hy : textOfK y'.kind = textOfK y.kind) (hyr : y'.range = y.range)
    (h : Glue src x y) : Glue src x' y' := by
  intro tx ty h1 h2
  rw [hx] at h1; rw [hy] at h2
  obtain ⟨a1, b1, a2, b2, r1, r2, h3⟩ := h tx ty h1 h2
  exact ⟨a1, b1, a2, b2, by rw [hxr]; exact r1, by rw [hyr]; exact r2, h3⟩

theorem sp_glued_tail {src : List Char} {x : Node} {l : List Node} (h : Glued src (x :: l)) :
    Glued src l := by
  cases l with
  | nil => trivial
  | cons y r => exact h.2

theorem sp_glued_cons {src : List Char} {x : Node} {l : List Node}
    (h : ∀ y r, l = y :: r → Glue src x y) (hl : Glued src l) : Glued src (x :: l) := by
  cases l with
  | nil => trivial
  | cons y r => exact ⟨h y r rfl, hl⟩

theorem sp_glued_map {src : List Char} {f : Node → Node}
    (hk : ∀ n, textOfK (f n).kind = textOfK n.kind) (hr : ∀ n, (f n).range = n.range) :
    ∀ {l : List Node}, Glued src l → Glued src (l.map f)
  | [], _ => trivial
  | [_], _ => trivial
  | x :: y :: r, h => by
    have ih := sp_glued_map hk hr (l := y :: r) h.2
    simp only [List.map_cons] at ih ⊢
    exact ⟨sp_glue_congr (hk x) (hr x) (hk y) (hr y) h.1, ih⟩

/-- two glued lists whose seam is glued -/
theorem sp_glued_append {src : List Char} : ∀ {l1 l2 : List Node}, Glued src l1 → Glued src l2 →
    (∀ x ∈ l1, ∀ y r, l2 = y :: r → Glue src x y) → Glued src (l1 ++ l2)
  | [], _, _, h2, _ => h2
  | [x], _, _, h2, h => sp_glued_cons (fun y r e => h x (by simp) y r e) h2
  | x :: y :: r, l2, h1, h2, h => by
    have ih := sp_glued_append (l1 := y :: r) (l2 := l2) h1.2 h2
      (fun x' hx' => h x' (List.mem_cons_of_mem _ hx'))
    exact ⟨h1.1, ih⟩

/-! ## step 1: `ofInline` -/

theorem sp_textOfK_ofInline (n : Inline.Node) : textOfK (ofInline n).kind = textOf n.val := by
  cases n; simp [ofInline, textOfK]

theorem sp_adj_glue {src : List Char} {x y : Inline.Node} (h : Adj x y) :
    Glue src (ofInline x) (ofInline y) := by
  intro tx ty h1 h2
  rw [sp_textOfK_ofInline] at h1 h2
  obtain ⟨a1, b1, b2, r1, r2⟩ := h (by simp [TextLike, h1]) (by simp [TextLike, h2])
  exact ⟨a1, b1, b1, b2, by rw [c05s_ofInline_range]; exact r1, by rw [c05s_ofInline_range]; exact r2,
    .inl rfl⟩

/-- adjacent mergeable neighbours are glued (first disjunct of `Glue`) -/
theorem sp_ofInlineList_glued {src : List Char} : ∀ {ns : List Inline.Node}, Adjd ns →
    Glued src (ofInlineList ns)
  | [], _ => by simp only [ofInlineList]; trivial
  | [_], _ => by simp only [ofInlineList]; trivial
  | x :: y :: r, h => by
    have ih := sp_ofInlineList_glued (src := src) (ns := y :: r) h.2
    simp only [ofInlineList] at ih ⊢
    exact ⟨sp_adj_glue h.1, ih⟩

mutual
/-- a faithful inline node is `PreOk` at every node of its image in the document -/
theorem sp_ofInline_every {src : List Char} (n : Inline.Node) (h : FthN src n) :
    Every (PreOk src) (ofInline n) := by
  match n with
  | ⟨v, r, cs⟩ =>
    rw [FthN_eq] at h
    obtain ⟨⟨a, b, hr, ha, hb, ht, hs, hm, hadj⟩, hcs⟩ := h
    simp only at hr ht hs hm hadj hcs
    unfold ofInline
    refine .mk _ ⟨a, b, hr, ha, hb, ?_, ?_, sp_ofInlineList_glued hadj⟩ (sp_ofInlineList_every cs hcs)
    · intro t ht'
      change textOf v = some t at ht'
      cases v with
      | text c =>
        simp only [textOf, Option.some.injEq] at ht'; subst ht'; exact ht _ rfl
      | emphMarker mk l rem o c =>
        simp only [textOf, Option.some.injEq] at ht'; subst ht'
        exact Sel.of_cut (hm mk l rem o c rfl).1
      | _ => simp [textOf] at ht'
    · intro ct mu info hk
      simp only [Kind.inl.injEq] at hk
      exact hs ct mu info hk
theorem sp_ofInlineList_every {src : List Char} (ns : List Inline.Node) (h : FthL src ns) :
    ∀ c ∈ ofInlineList ns, Every (PreOk src) c := by
  match ns with
  | [] => simp [ofInlineList]
  | n :: r =>
    simp only [FthL] at h
    intro x hx
    simp only [ofInlineList, List.mem_cons] at hx
    rcases hx with rfl | hx
    · exact sp_ofInline_every n h.1
    · exact sp_ofInlineList_every r h.2 x hx
end

/-! ## step 4: the sourcepos pass -/

mutual
theorem sp_sourceposNode_every {src0 src : List Char} {marks : List SourceMap.Mark} (t t' : Node)
    (he : Every (PostOk src0) t) (h : sourceposNode src marks t = .ok t') : Every (PostOk src0) t' := by
  match t with
  | ⟨k, r, at_, cs⟩ =>
    simp only [sourceposNode] at h
    split at h
    · cases h
    · split at h
      · cases h
      · rename_i cs' hcs
        cases h
        exact .mk _ he.here (sp_sourceposList_every cs cs' he.child hcs)
theorem sp_sourceposList_every {src0 src : List Char} {marks : List SourceMap.Mark}
    (cs cs' : List Node) (he : ∀ c ∈ cs, Every (PostOk src0) c)
    (h : sourceposList src marks cs = .ok cs') : ∀ c ∈ cs', Every (PostOk src0) c := by
  match cs with
  | [] => simp [sourceposList] at h; subst h; simp
  | c :: r =>
    simp only [sourceposList] at h
    split at h
    · cases h
    · rename_i c' hc
      split at h
      · cases h
      · rename_i r' hr
        cases h
        intro x hx
        rcases List.mem_cons.mp hx with rfl | hx
        · exact sp_sourceposNode_every c _ (he c (by simp)) hc
        · exact sp_sourceposList_every r r' (fun y hy => he y (List.mem_cons_of_mem _ hy)) hr x hx
end

/-! ## step 3: the join pass -/

/-- **the hull of two glued texts**: if `(a1, b1)` selects `c1`, `(a2, b2)` selects `c2`, the two
    ranges follow each other and are either adjacent or separated by a line break that the hull
    contains, the hull `(a1, b2)` selects `c1 ++ c2` -/
theorem sp_merged_sel {src : List Char} {a1 b1 a2 b2 : Nat} {c1 c2 : List Char}
    (h1 : Sel src a1 b1 c1) (h2 : Sel src a2 b2 c2) (hb1 : Bdy src b1)
    (o1 : a1 ≤ b1) (o2 : b1 ≤ a2) (o3 : a2 ≤ b2)
    (hg : b1 = a2 ∨ ∃ g, b1 ≤ g ∧ g < b2 ∧ BrkAt src g) : Sel src a1 b2 (c1 ++ c2) := by
  intro w hw hn
  rcases hg with rfl | ⟨g, g1, g2, g3⟩
  · obtain ⟨w1, w2, rfl, k1, k2⟩ := hw.split hb1 o1 o3
    have n1 : NoBrk w1 :=
      ⟨fun h => hn.1 (List.mem_append_left _ h), fun h => hn.2 (List.mem_append_left _ h)⟩
    have n2 : NoBrk w2 :=
      ⟨fun h => hn.1 (List.mem_append_right _ h), fun h => hn.2 (List.mem_append_right _ h)⟩
    rw [h1 w1 k1 n1, h2 w2 k2 n2]
  · exact absurd hn (g3.mem_cut hw (by omega) g2)

theorem sp_isText_kind {n : Node} (h : n.isText = true) : n.kind = .inl (.text n.content) := by
  unfold Node.isText at h
  unfold Node.content
  split at h
  · next c hc => simp [hc]
  · cases h

theorem sp_isText_textOfK {n : Node} (h : n.isText = true) : textOfK n.kind = some n.content := by
  rw [sp_isText_kind h]; rfl

theorem sp_markerToText_textOfK (n : Node) : textOfK (markerToText n).kind = textOfK n.kind := by
  unfold markerToText
  split
  · next m l rem o c hk => rw [hk]; rfl
  · rfl

theorem sp_markerToText_preOk {src : List Char} {n : Node} (h : PreOk src n) :
    PreOk src (markerToText n) := by
  obtain ⟨a, b, hr, ha, hb, ht, hs, hg⟩ := h
  refine ⟨a, b, by rw [c05s_markerToText_range]; exact hr, ha, hb, ?_, ?_,
    by rw [c05s_markerToText_children]; exact hg⟩
  · intro t h1
    rw [sp_markerToText_textOfK] at h1
    exact ht t h1
  · intro ct mu info hk
    unfold markerToText at hk
    split at hk
    · cases hk
    · exact hs ct mu info hk

theorem sp_markerToText_every {src : List Char} {n : Node} (h : Every (PreOk src) n) :
    Every (PreOk src) (markerToText n) :=
  .mk _ (sp_markerToText_preOk h.here) (by rw [c05s_markerToText_children]; exact h.child)

/-- the merged text is `PreOk` -/
theorem sp_merged_preOk {src : List Char} {cur nxt : Node} {a b c d : Nat}
    (q1 : cur.range = some (a, b)) (r1 : nxt.range = some (c, d)) (o1 : a ≤ b) (o2 : b ≤ c) (o3 : c ≤ d)
    (ht1 : cur.isText = true) (ht2 : nxt.isText = true) (hc : PreOk src cur) (hx : PreOk src nxt)
    (hg : Glue src cur nxt) : PreOk src (merged cur nxt) := by
  obtain ⟨a', b', q1', ha, hb, hsel1, _, hgl⟩ := hc
  rw [q1] at q1'; cases q1'
  obtain ⟨c', d', r1', _, hd, hsel2, _, _⟩ := hx
  rw [r1] at r1'; cases r1'
  obtain ⟨a1, b1, a2, b2, e1, e2, hdis⟩ := hg _ _ (sp_isText_textOfK ht1) (sp_isText_textOfK ht2)
  rw [q1] at e1; cases e1
  rw [r1] at e2; cases e2
  have hm : (merged cur nxt).range = some (a, d) := by simp [merged, q1, r1]
  refine ⟨a, d, hm, ha, hd, ?_, ?_, hgl⟩
  · intro t ht
    have : t = cur.content ++ nxt.content := by
      simp only [merged, textOfK, textOf, Option.some.injEq] at ht
      exact ht.symm
    subst this
    exact sp_merged_sel (hsel1 _ (sp_isText_textOfK ht1)) (hsel2 _ (sp_isText_textOfK ht2)) hb o1 o2 o3 hdis
  · intro ct mu info hk
    simp [merged] at hk

/-- the merged text ends where the second one ended: it is glued to what follows -/
theorem sp_merged_glued {src : List Char} {cur nxt : Node} {a b c d : Nat} {rest : List Node}
    (q1 : cur.range = some (a, b)) (r1 : nxt.range = some (c, d)) (ht2 : nxt.isText = true)
    (h : Glued src (nxt :: rest)) : Glued src (merged cur nxt :: rest) := by
  have hm : (merged cur nxt).range = some (a, d) := by simp [merged, q1, r1]
  cases rest with
  | nil => trivial
  | cons z r =>
    refine ⟨?_, h.2⟩
    intro tx ty h1 h2
    obtain ⟨a1, b1, a2, b2, e1, e2, hdis⟩ := h.1 _ ty (sp_isText_textOfK ht2) h2
    rw [r1] at e1; cases e1
    exact ⟨a, d, a2, b2, hm, e2, hdis⟩

/-- pass 2 + `retain`: every retained member is `PreOk` at every node -/
theorem sp_mergeLoop_pre {src : List Char} (hi : Nat) (rest : List Node) : ∀ (cur : Node) (lo : Nat),
    OrderedD lo hi (cur :: rest) → Glued src (cur :: rest) →
    (∀ x ∈ cur :: rest, Every (PreOk src) x) →
    ∀ x ∈ mergeLoop cur rest, keep x = true → Every (PreOk src) x := by
  induction rest with
  | nil =>
    intro cur lo _ _ he x hx _
    simp only [mergeLoop, List.mem_singleton] at hx
    subst hx
    exact he _ (by simp)
  | cons nxt rest ih =>
    intro cur lo ho hgl he x hx hk
    obtain ⟨a, b, q1, q2, q3, c, d, r1, r2, r3, r4⟩ := ho
    simp only [mergeLoop] at hx
    split at hx
    · rename_i hboth
      simp only [Bool.and_eq_true] at hboth
      obtain ⟨ht1, ht2⟩ := hboth
      rcases List.mem_cons.mp hx with rfl | hx
      · rw [c05s_keep_emptied] at hk; cases hk
      · have hcur := he cur (by simp)
        have hnxt := he nxt (by simp)
        have hm : (merged cur nxt).range = some (a, d) := by simp [merged, q1, r1]
        have hpm : PreOk src (merged cur nxt) :=
          sp_merged_preOk q1 r1 q3 r2 r3 ht1 ht2 hcur.here hnxt.here hgl.1
        refine ih (merged cur nxt) lo ⟨a, d, hm, q2, by omega, r4⟩
          (sp_merged_glued q1 r1 ht2 hgl.2) ?_ x hx hk
        intro y hy
        rcases List.mem_cons.mp hy with rfl | hy
        · exact .mk _ hpm hcur.child
        · exact he y (by simp [hy])
    · rcases List.mem_cons.mp hx with rfl | hx
      · exact he _ (by simp)
      · exact ih nxt b ⟨c, d, r1, r2, r3, r4⟩ (sp_glued_tail hgl)
          (fun y hy => he y (List.mem_cons_of_mem _ hy)) x hx hk

/-- **`fragments_join` keeps `PreOk`** on the members it retains (a merged text selects the
    concatenation in the hull of the two ranges, or the hull holds a line break) -/
theorem sp_fragmentsJoin_pre {src : List Char} {lo hi : Nat} {cs : List Node} (ho : OrderedD lo hi cs)
    (hgl : Glued src cs) (he : ∀ x ∈ cs, Every (PreOk src) x) :
    ∀ x ∈ fragmentsJoin cs, Every (PreOk src) x := by
  have ho1 : OrderedD lo hi (pass1 cs) := (c05s_ordered_map c05s_markerToText_range).mpr ho
  have hg1 : Glued src (pass1 cs) := sp_glued_map sp_markerToText_textOfK c05s_markerToText_range hgl
  have he1 : ∀ x ∈ pass1 cs, Every (PreOk src) x := by
    intro x hx
    obtain ⟨c, hc, rfl⟩ := List.mem_map.mp hx
    exact sp_markerToText_every (he c hc)
  unfold fragmentsJoin
  cases hp : pass1 cs with
  | nil => simp [mergeAll]
  | cons c r =>
    rw [hp] at ho1 hg1 he1
    intro x hx
    obtain ⟨hx1, hx2⟩ := List.mem_filter.mp hx
    exact sp_mergeLoop_pre hi r c lo ho1 hg1 he1 x hx1 hx2

theorem sp_preOk_postOk {src : List Char} {n : Node} (h : PreOk src n) : PostOk src n := by
  obtain ⟨a, b, hr, ha, hb, ht, hs, _⟩ := h
  exact ⟨a, b, hr, ha, hb, fun t hk => ht t (by rw [hk]; rfl), hs⟩

theorem sp_joinNode_every_aux {B : Nat} {src : List Char} (k : Nat) : ∀ n : Node, nsize n ≤ k →
    Every (NodeOrdB B) n → Every (PreOk src) n → Every (PostOk src) (joinNode n) := by
  induction k with
  | zero => intro n hn; rw [nsize_eq] at hn; omega
  | succ k ih =>
    intro n hn he hp
    obtain ⟨a, b, h1, h2, h3, h4⟩ := he.here
    obtain ⟨_, j2⟩ := c05s_fragmentsJoin_ord h4 he.child
    obtain ⟨a', b', g1, g2, g3, g4, g5, g6⟩ := hp.here
    have j3 := sp_fragmentsJoin_pre h4 g6 hp.child
    rw [joinNode_eq, joinList_eq_map]
    refine .mk _ ⟨a', b', g1, g2, g3, fun t hk => g4 t (by rw [show n.kind = _ from hk]; rfl), g5⟩ ?_
    intro y hy
    simp only at hy
    obtain ⟨x, hx, rfl⟩ := List.mem_map.mp hy
    apply ih x ?_ (j2 x hx) (j3 x hx)
    have s1 := nsize_le_of_mem hx
    have s2 := nsizeList_fragmentsJoin_le n.children
    rw [nsize_eq] at hn
    omega

/-- **the join pass turns `PreOk` into `PostOk`**, at every node of the document -/
theorem sp_joinNode_every {B : Nat} {src : List Char} {n : Node} (he : Every (NodeOrdB B) n)
    (hp : Every (PreOk src) n) : Every (PostOk src) (joinNode n) :=
  sp_joinNode_every_aux _ n (Nat.le_refl _) he hp

/-! ## step 2: the splice walk -/

/-- a text-like head of `out` has a non-empty range that begins at or behind `g` -/
def sp_HeadSep (g : Nat) : List Node → Prop
  | [] => True
  | y :: _ => ∀ ty, textOfK y.kind = some ty → ∃ a b, y.range = some (a, b) ∧ g ≤ a ∧ a < b

theorem sp_headSep_mono {g g' : Nat} {l : List Node} (h : sp_HeadSep g l) (hg : g' ≤ g) :
    sp_HeadSep g' l := by
  cases l with
  | nil => trivial
  | cons y r =>
    intro ty hty
    obtain ⟨a, b, h1, h2, h3⟩ := h ty hty
    exact ⟨a, b, h1, by omega, h3⟩

mutual
/-- a walked block is not text-like; below it everything is `PreOk` -/
theorem sp_spliceNode_pre {icfg : Inline.Cfg} {src : List Char} (b : Block.BNode) (t : Node)
    (hg : Block.RangedB (PInlF icfg src) src b) (hn : InlNoRange b) (a z : Nat) (hr : b.range = some (a, z))
    (h : spliceNode icfg b = .ok t) : textOfK t.kind = none ∧ Every (PreOk src) t := by
  match b with
  | ⟨k, r, cs⟩ =>
    simp only [spliceNode] at h
    split at h
    · cases h
    · rename_i cs' hcs
      cases h
      obtain ⟨_, h2, h3, h4⟩ := hg.at a z hr
      obtain ⟨l1, l2, _⟩ := sp_spliceList_pre cs cs' a z h4 hg.child hn.child hcs
      refine ⟨rfl, .mk _ ⟨a, z, hr, (bdy_iff_bd _ _).mpr h2, (bdy_iff_bd _ _).mpr h3, ?_, ?_, l2⟩ l1⟩
      · intro t ht
        simp [textOfK] at ht
      · intro ct mu info hk
        cases hk
/-- the children: every member of the output is `PreOk` at every node, the output is `Glued` (the
    seam behind a placeholder's last node by the line break at the end of its stretch), and a
    text-like head begins behind `lo` with a non-empty range -/
theorem sp_spliceList_pre {icfg : Inline.Cfg} {src : List Char} (cs : List Block.BNode) (out : List Node)
    (lo hi : Nat) (ho : Block.OrderedB (PInlF icfg src) lo hi cs)
    (hg : ∀ c ∈ cs, Block.RangedB (PInlF icfg src) src c) (hn : ∀ c ∈ cs, InlNoRange c)
    (h : spliceList icfg cs = .ok out) :
    (∀ x ∈ out, Every (PreOk src) x) ∧ Glued src out ∧ sp_HeadSep lo out := by
  match cs with
  | [] => simp [spliceList] at h; subst h; exact ⟨by simp, trivial, trivial⟩
  | c :: rest =>
    obtain ⟨a, b, hsp, h1, h2, h3⟩ := ho
    have hgr : ∀ x ∈ rest, Block.RangedB (PInlF icfg src) src x :=
      fun x hx => hg x (List.mem_cons_of_mem _ hx)
    have hnr : ∀ x ∈ rest, InlNoRange x := fun x hx => hn x (List.mem_cons_of_mem _ hx)
    simp only [spliceList] at h
    split at h
    · -- a placeholder
      rename_i content mapping hk
      split at h
      · cases h
      · rename_i ns hns
        split at h
        · cases h
        · rename_i rest' hrest
          cases h
          obtain ⟨i1, i2, i3⟩ := sp_spliceList_pre rest rest' b hi h3 hgr hnr hrest
          have hnone : c.range = none := (hn c (by simp)).at content mapping hk
          unfold Block.SpanB at hsp
          rw [hnone] at hsp
          obtain ⟨c', m', hk', _, hend, hp⟩ := hsp
          rw [hk] at hk'
          cases hk'
          obtain ⟨p1, _, p3, p4, p5⟩ := hp ns hns
          have hord : OrderedD a b (ofInlineList ns) := c05s_ofInlineList_ordered p1
          have hev : ∀ x ∈ ofInlineList ns, Every (PreOk src) x := sp_ofInlineList_every ns p3
          refine ⟨?_, ?_, ?_⟩
          · intro x hx
            rcases List.mem_append.mp hx with hx | hx
            · exact hev x hx
            · exact i1 x hx
          · -- the seam: the line break at `b`
            apply sp_glued_append (sp_ofInlineList_glued p4) i2
            intro x hxm y r hy tx ty _ hy'
            subst hy
            obtain ⟨a1, b1, rx, _, _, hb1⟩ := hord.mem x hxm
            obtain ⟨a2, b2, ry, ha2, hlt⟩ := i3 ty hy'
            obtain ⟨a2', b2', ry', _, hbd, _⟩ := (i1 y (by simp)).here
            rw [ry] at ry'; cases ry'
            have hle := hbd.le
            have hbrk : BrkAt src b := by
              rcases hend with e | e
              · omega
              · exact e
            exact ⟨a1, b1, a2, b2, rx, ry, .inr ⟨b, hb1, by omega, hbrk⟩⟩
          · cases ns with
            | nil => simp only [ofInlineList, List.nil_append]; exact sp_headSep_mono i3 (by omega)
            | cons n r =>
              simp only [ofInlineList, List.cons_append]
              intro ty hty
              rw [sp_textOfK_ofInline] at hty
              obtain ⟨a', b', rn, hlt⟩ := p5 n (by simp) (by simp [TextLike, hty])
              obtain ⟨a'', b'', rn', hle, _⟩ := p1
              rw [rn] at rn'; cases rn'
              exact ⟨a', b', by rw [c05s_ofInline_range]; exact rn, by omega, hlt⟩
    · -- any other child: walked; a block node is not text-like
      rename_i hk
      split at h
      · cases h
      · rename_i c' hc'
        split at h
        · cases h
        · rename_i rest' hrest
          cases h
          obtain ⟨i1, i2, _⟩ := sp_spliceList_pre rest rest' b hi h3 hgr hnr hrest
          have hrange := Block.spanB_kind hsp (fun c' m hc => hk c' m hc)
          obtain ⟨j1, j2⟩ := sp_spliceNode_pre c c' (hg c (by simp)) (hn c (by simp)) a b hrange hc'
          refine ⟨?_, ?_, ?_⟩
          · intro x hx
            rcases List.mem_cons.mp hx with rfl | hx
            · exact j2
            · exact i1 x hx
          · refine sp_glued_cons (fun y r _ tx ty hx _ => ?_) i2
            rw [j1] at hx; cases hx
          · intro ty hty
            rw [j1] at hty; cases hty
end

/-! ## step 5: the composition -/

theorem sp_pinlF_pinl {icfg : Inline.Cfg} {src : List Char} {root : Block.BNode}
    (hg : Block.RangedB (PInlF icfg src) src root) : Block.RangedB (PInl icfg) src root :=
  hg.imp (fun _ _ _ _ _ h ns hns => ⟨(h.2 ns hns).1, (h.2 ns hns).2.1⟩)

/-- the boundary / text half of the deliverable -/
theorem sp_afterBlocks_post {cfg : DocCfg} {src : List Char} {root : Block.BNode} {refs : Refs.RefMap}
    {t : Node} {a z : Nat} (hroot : root.range = some (a, z))
    (hg : Block.RangedB (PInlF (cfg.inlineCfg refs) src) src root) (hn : InlNoRange root)
    (h : afterBlocks cfg src root refs = .ok t) : Every (PostOk src) t := by
  unfold afterBlocks at h
  split at h
  · cases h
  · rename_i t0 hs
    obtain ⟨_, e0⟩ := c05s_spliceNode_ord root t0 (sp_pinlF_pinl hg) hn a z hroot hs
    obtain ⟨_, f0⟩ := sp_spliceNode_pre root t0 hg hn a z hroot hs
    have h1 : Every (PostOk src) (if cfg.hasJoin = true then joinNode t0 else t0) := by
      split
      · exact sp_joinNode_every e0 f0
      · exact f0.imp (fun _ => sp_preOk_postOk)
    simp only at h
    split at h
    · exact sp_sourceposNode_every _ _ h1 h
    · cases h; exact h1

/-- **`afterBlocks_postOk`.**  If the tree of the block pass is `RangedB` for the claim `PInlF` (every
    placeholder's stretch ends at a line end; its inline run yields well-ranged, faithful nodes in
    order inside the stretch, adjacent where mergeable), then in the tree the core chain returns
    EVERY node has a range `(a, b)`, `a ≤ b ≤ |src|`, on character boundaries, its children's
    ranges lie inside in source order, a `Text` selects its content and a `TextSpecial` its markup
    (unless the range holds a line break); the root keeps its range. -/
theorem afterBlocks_postOk {cfg : DocCfg} {src : List Char} {root : Block.BNode} {refs : Refs.RefMap}
    {t : Node} {a z : Nat} (hroot : root.range = some (a, z))
    (hg : Block.RangedB (C05R.PInlF (cfg.inlineCfg refs) src) src root) (hn : InlNoRange root)
    (h : afterBlocks cfg src root refs = .ok t) :
    t.range = some (a, z) ∧ Every (fun n => NodeOrd src n ∧ C05R.PostOk src n) t := by
  obtain ⟨r0, e0⟩ := afterBlocks_nodeOrd hroot (sp_pinlF_pinl hg) hn h
  exact ⟨r0, sp_every_and e0 (sp_afterBlocks_post hroot hg hn h)⟩

/-! ## non-vacuity: the hypotheses of `afterBlocks_postOk` are satisfiable -/

/-- does the string hold a line break character -/
def sp_brkb (w : List Char) : Bool := w.contains '\n' || w.contains '\r'

/-- the clauses of `FthN` about one value at the range `(a, b)`, as a test -/
def sp_valb (src : List Char) (a b : Nat) (v : Inline.Val) : Bool :=
  match InlineOps.slice src a b with
  | .error _ => false
  | .ok w =>
    match v with
    | .text t => w == t || sp_brkb w
    | .special _ mu _ => w == mu || sp_brkb w
    | .emphMarker mk _ rem _ _ => w == List.replicate rem mk && mk.utf8Size == 1
    | _ => true

/-- `TextLike`, as a test -/
def sp_tlb (n : Inline.Node) : Bool := (textOf n.val).isSome

/-- `Adjd`, as a test -/
def sp_adjb : List Inline.Node → Bool
  | [] => true
  | [_] => true
  | x :: y :: r =>
    (!(sp_tlb x && sp_tlb y) ||
      (match x.range, y.range with
       | some (_, b1), some (a2, _) => b1 == a2
       | _, _ => false)) && sp_adjb (y :: r)

/-- `StrictTop`, as a test -/
def sp_strictb (l : List Inline.Node) : Bool :=
  l.all (fun n => !sp_tlb n || (match n.range with
    | some (a, b) => decide (a < b)
    | none => false))

mutual
/-- `FthN`, as a test -/
def sp_fthb (src : List Char) : Inline.Node → Bool
  | ⟨v, r, cs⟩ =>
    (match r with
     | some (a, b) => sp_valb src a b v
     | none => false) && sp_adjb cs && sp_fthbList src cs
def sp_fthbList (src : List Char) : List Inline.Node → Bool
  | [] => true
  | c :: cs => sp_fthb src c && sp_fthbList src cs
end

theorem sp_brkb_sound {w : List Char} (h : sp_brkb w = true) : ¬ NoBrk w := by
  intro ⟨n1, n2⟩
  simp only [sp_brkb, Bool.or_eq_true, List.contains_iff_mem] at h
  rcases h with h | h
  · exact n1 h
  · exact n2 h

theorem sp_sel_of_check {src : List Char} {a b : Nat} {w t : List Char} (hw : Cut src a b w)
    (h : (w == t || sp_brkb w) = true) : Sel src a b t := by
  intro w' hw' hn
  have := hw'.unique hw
  subst this
  simp only [Bool.or_eq_true, beq_iff_eq] at h
  rcases h with h | h
  · exact h
  · exact absurd hn (sp_brkb_sound h)

theorem sp_valb_sound {src : List Char} {a b : Nat} {v : Inline.Val} (h : sp_valb src a b v = true) :
    Bdy src a ∧ Bdy src b ∧ (∀ t, v = .text t → Sel src a b t) ∧
      (∀ ct mu info, v = .special ct mu info → Sel src a b mu) ∧
      (∀ mk l rem o c, v = .emphMarker mk l rem o c →
        Cut src a b (List.replicate rem mk) ∧ mk.utf8Size = 1) := by
  unfold sp_valb at h
  split at h
  · cases h
  · rename_i w hw
    have hc : Cut src a b w := (cut_iff_ops src a b w).mp hw
    refine ⟨hc.bdy_left, hc.bdy_right, ?_, ?_, ?_⟩
    · rintro t rfl
      exact sp_sel_of_check hc h
    · rintro ct mu info rfl
      exact sp_sel_of_check hc h
    · rintro mk l rem o c rfl
      simp only [Bool.and_eq_true, beq_iff_eq] at h
      rw [← h.1]
      exact ⟨hc, h.2⟩

theorem sp_adjb_sound : ∀ (l : List Inline.Node), sp_adjb l = true → Adjd l
  | [], _ => trivial
  | [_], _ => trivial
  | x :: y :: r, h => by
    simp only [sp_adjb, Bool.and_eq_true] at h
    refine ⟨?_, sp_adjb_sound (y :: r) h.2⟩
    intro tx ty
    have tx' : sp_tlb x = true := tx
    have ty' : sp_tlb y = true := ty
    have h1 := h.1
    rw [tx', ty'] at h1
    simp only [Bool.and_self, Bool.not_true, Bool.false_or] at h1
    split at h1
    · next a1 b1 a2 b2 hx hy =>
      simp only [beq_iff_eq] at h1
      subst h1
      exact ⟨a1, b1, b2, hx, hy⟩
    · cases h1

theorem sp_strictb_sound {l : List Inline.Node} (h : sp_strictb l = true) : StrictTop l := by
  intro n hn tn
  have tn' : sp_tlb n = true := tn
  simp only [sp_strictb, List.all_eq_true] at h
  have h1 := h n hn
  rw [tn'] at h1
  simp only [Bool.not_true, Bool.false_or] at h1
  split at h1
  · next a b hr => exact ⟨a, b, hr, by simpa using h1⟩
  · cases h1

mutual
theorem sp_fthb_sound {src : List Char} (n : Inline.Node) (h : sp_fthb src n = true) : FthN src n := by
  match n with
  | ⟨v, r, cs⟩ =>
    simp only [sp_fthb, Bool.and_eq_true] at h
    obtain ⟨⟨h1, h2⟩, h3⟩ := h
    simp only [FthN]
    refine ⟨?_, sp_fthbList_sound cs h3⟩
    split at h1
    · rename_i a b
      obtain ⟨v1, v2, v3, v4, v5⟩ := sp_valb_sound h1
      exact ⟨a, b, rfl, v1, v2, v3, v4, v5, sp_adjb_sound cs h2⟩
    · cases h1
theorem sp_fthbList_sound {src : List Char} (l : List Inline.Node) (h : sp_fthbList src l = true) :
    FthL src l := by
  match l with
  | [] => trivial
  | c :: cs =>
    simp only [sp_fthbList, Bool.and_eq_true] at h
    exact ⟨sp_fthb_sound c h.1, sp_fthbList_sound cs h.2⟩
end

/-- the second component of `PInlF` for one placeholder, by evaluation -/
theorem sp_pinlF2_of_check {icfg : Inline.Cfg} {src c : List Char} {m : List (Nat × Nat)} {a b : Nat}
    (h : (match Inline.parseInline icfg c m with
          | .ok ns => c05s_ordNb b a ns && c05s_wrbList ns && sp_fthbList src ns && sp_adjb ns &&
              sp_strictb ns
          | .error _ => true) = true) :
    ∀ ns, Inline.parseInline icfg c m = .ok ns →
      Inline.OrderedN a b ns ∧ Inline.WellRangedList ns ∧ FthL src ns ∧ Adjd ns ∧ StrictTop ns := by
  intro ns hns
  rw [hns] at h
  simp only [Bool.and_eq_true] at h
  obtain ⟨⟨⟨⟨h1, h2⟩, h3⟩, h4⟩, h5⟩ := h
  exact ⟨c05s_ordNb_sound ns a h1, c05s_wrbList_sound ns h2, sp_fthbList_sound ns h3,
    sp_adjb_sound ns h4, sp_strictb_sound h5⟩

/-- `PInlF` for one placeholder, by evaluation -/
theorem sp_pinlF_of_check {icfg : Inline.Cfg} {src c : List Char} {m : List (Nat × Nat)} {a b : Nat}
    (hend : b = byteLen src ∨ BrkAt src b)
    (h : (match Inline.parseInline icfg c m with
          | .ok ns => c05s_ordNb b a ns && c05s_wrbList ns && sp_fthbList src ns && sp_adjb ns &&
              sp_strictb ns
          | .error _ => true) = true) : PInlF icfg src c m a b :=
  ⟨hend, sp_pinlF2_of_check h⟩

/-- `PostOk` needs a readable form of a tree: (depth, start, end, text of a `Text`) in pre-order -/
def sp_txt : Kind → List Char
  | .inl (.text t) => t
  | _ => []

mutual
def sp_flat (d : Nat) : Node → List (Nat × Nat × Nat × List Char)
  | ⟨k, r, _, cs⟩ => (d, (r.getD (0, 0)).1, (r.getD (0, 0)).2, sp_txt k) :: sp_flatList (d + 1) cs
def sp_flatList (d : Nat) : List Node → List (Nat × Nat × Nat × List Char)
  | [] => []
  | k :: ks => sp_flat d k ++ sp_flatList d ks
end

/-! ### example 1: `"a *b* c*d"` — the join pass merges `Text " c"` `(5, 7)`, the left-over delimiter
    `EmphMarker` `(7, 8)` and `Text "d"` `(8, 9)` (adjacent: first disjunct of `Glue`) -/

theorem sp_exRoot_ranged :
    Block.RangedB (PInlF ((exCfg false 100).inlineCfg []) c05s_exSrc) c05s_exSrc c05s_exRoot := by
  have hp : PInlF ((exCfg false 100).inlineCfg []) c05s_exSrc c05s_exSrc [(0, 0)] 0 9 :=
    sp_pinlF_of_check (.inl (by decide)) (by decide +kernel)
  have h9 : Block.Bd c05s_exSrc 9 := c05s_bd_len c05s_exSrc
  have hpar := Block.rangedB_text (P := PInlF ((exCfg false 100).inlineCfg []) c05s_exSrc)
    (src := c05s_exSrc) .paragraph (a := 0) (b := 9) (by omega) (c05s_bd_zero _) h9 hp (Nat.le_refl _)
    (by omega) (Nat.le_refl _)
  refine .mk _ (fun a b h => ?_) (fun h => by cases h) ?_
  · cases h
    exact ⟨by omega, c05s_bd_zero _, h9, 0, 9, rfl, Nat.le_refl _, by omega, Nat.le_refl 9⟩
  · intro c hc
    simp only [c05s_exRoot, List.mem_singleton] at hc
    subst hc
    exact hpar

/-- all hypotheses of `afterBlocks_postOk` hold of the block tree of `"a *b* c*d"` -/
example : ∃ t, afterBlocks (exCfg false 100) c05s_exSrc c05s_exRoot [] = .ok t ∧
    t.range = some (0, 9) ∧ Every (fun n => NodeOrd c05s_exSrc n ∧ PostOk c05s_exSrc n) t := by
  have h : (afterBlocks (exCfg false 100) c05s_exSrc c05s_exRoot []).toOption.isSome = true := by
    decide +kernel
  cases hp : afterBlocks (exCfg false 100) c05s_exSrc c05s_exRoot [] with
  | error e => rw [hp] at h; cases h
  | ok t => exact ⟨t, rfl, afterBlocks_postOk rfl sp_exRoot_ranged c05s_exRoot_noRange hp⟩

/-- … and the tree is: root, paragraph, `Text "a "`, `Em`, `Text "b"`, ONE `Text " c*d"` at `(5, 9)` -/
example : (afterBlocks (exCfg false 100) c05s_exSrc c05s_exRoot []).toOption.map (sp_flat 0) =
    some [(0, 0, 9, []), (1, 0, 9, []), (2, 0, 2, "a ".toList), (2, 2, 5, []), (3, 3, 4, "b".toList),
      (2, 5, 9, " c*d".toList)] := by decide +kernel

/-! ### example 2: the seam — two placeholders in a row under one block node (a hand-made tree: the
    block parser never puts two placeholders side by side, but `RangedB` allows it and the splice
    walk handles it).  Source `"a\nb"`; the stretches are `[0, 1]` (ends in front of the line feed)
    and `[2, 3]`.  The walk yields `Text "a"` `(0, 1)`, `Text "b"` `(2, 3)` — NOT adjacent, `Glue`d by the
    line break at `1` (second disjunct) — and the join pass merges them into `Text "ab"` `(0, 3)`,
    whose range holds the line break: `Sel` holds (vacuously), `PostOk` is kept. -/

def sp_seamSrc : List Char := ['a', '\n', 'b']
def sp_seamRoot : Block.BNode :=
  ⟨.root, some (0, 3), [⟨.inlineRoot ['a'] [(0, 0)], none, []⟩, ⟨.inlineRoot ['b'] [(0, 2)], none, []⟩]⟩

theorem sp_seamRoot_ranged :
    Block.RangedB (PInlF ((exCfg false 100).inlineCfg []) sp_seamSrc) sp_seamSrc sp_seamRoot := by
  have hp1 : PInlF ((exCfg false 100).inlineCfg []) sp_seamSrc ['a'] [(0, 0)] 0 1 :=
    sp_pinlF_of_check (.inr ⟨['a'], '\n', ['b'], rfl, rfl, .inl rfl⟩) (by decide +kernel)
  have hp2 : PInlF ((exCfg false 100).inlineCfg []) sp_seamSrc ['b'] [(0, 2)] 2 3 :=
    sp_pinlF_of_check (.inl (by decide)) (by decide +kernel)
  refine .mk _ (fun a b h => ?_) (fun h => by cases h) ?_
  · cases h
    exact ⟨by omega, c05s_bd_zero _, c05s_bd_len sp_seamSrc, 0, 1, ⟨_, _, rfl, rfl, hp1⟩, Nat.le_refl _,
      by omega, 2, 3, ⟨_, _, rfl, rfl, hp2⟩, by omega, by omega, Nat.le_refl 3⟩
  · intro c hc
    simp only [sp_seamRoot, List.mem_cons, List.not_mem_nil, or_false] at hc
    rcases hc with rfl | rfl
    · exact Block.rangedB_inl _ _
    · exact Block.rangedB_inl _ _

theorem sp_seamRoot_noRange : InlNoRange sp_seamRoot := by
  refine .mk _ (fun c m h => by cases h) ?_
  intro c hc
  simp only [sp_seamRoot, List.mem_cons, List.not_mem_nil, or_false] at hc
  rcases hc with rfl | rfl
  · exact .mk _ (fun _ _ _ => rfl) (by simp)
  · exact .mk _ (fun _ _ _ => rfl) (by simp)

example : ∃ t, afterBlocks (exCfg false 100) sp_seamSrc sp_seamRoot [] = .ok t ∧
    t.range = some (0, 3) ∧ Every (fun n => NodeOrd sp_seamSrc n ∧ PostOk sp_seamSrc n) t := by
  have h : (afterBlocks (exCfg false 100) sp_seamSrc sp_seamRoot []).toOption.isSome = true := by
    decide +kernel
  cases hp : afterBlocks (exCfg false 100) sp_seamSrc sp_seamRoot [] with
  | error e => rw [hp] at h; cases h
  | ok t => exact ⟨t, rfl, afterBlocks_postOk rfl sp_seamRoot_ranged sp_seamRoot_noRange hp⟩

/-- the splice walk's output and the joined tree of example 2 -/
example : (spliceNode ((exCfg false 100).inlineCfg []) sp_seamRoot).toOption.map (sp_flat 0) =
    some [(0, 0, 3, []), (1, 0, 1, ['a']), (1, 2, 3, ['b'])] := by decide +kernel

example : (afterBlocks (exCfg false 100) sp_seamSrc sp_seamRoot []).toOption.map (sp_flat 0) =
    some [(0, 0, 3, []), (1, 0, 3, ['a', 'b'])] := by decide +kernel

/-- **the first component of `PInlF` is needed**: over the source `"a b"` the first stretch `[0, 1]`
    does not end at a line end; the second component of `PInlF` holds of both placeholders all the
    same, but the merged `Text "ab"` at `(0, 3)` does NOT select its content: `src[0..3] = "a b"`, no
    line break -/
def sp_badSrc : List Char := ['a', ' ', 'b']

example : (∀ ns, Inline.parseInline ((exCfg false 100).inlineCfg []) ['a'] [(0, 0)] = .ok ns →
      Inline.OrderedN 0 1 ns ∧ Inline.WellRangedList ns ∧ FthL sp_badSrc ns ∧ Adjd ns ∧ StrictTop ns) ∧
    (∀ ns, Inline.parseInline ((exCfg false 100).inlineCfg []) ['b'] [(0, 2)] = .ok ns →
      Inline.OrderedN 2 3 ns ∧ Inline.WellRangedList ns ∧ FthL sp_badSrc ns ∧ Adjd ns ∧ StrictTop ns) ∧
    ¬ (1 = byteLen sp_badSrc ∨ BrkAt sp_badSrc 1) := by
  refine ⟨sp_pinlF2_of_check (by decide +kernel), sp_pinlF2_of_check (by decide +kernel), ?_⟩
  rintro (h | h)
  · exact absurd h (by decide)
  · have hc : Cut sp_badSrc 0 3 sp_badSrc := ⟨[], [], rfl, rfl, by decide⟩
    exact h.mem_cut hc (by omega) (by omega) ⟨by decide, by decide⟩

example : (afterBlocks (exCfg false 100) sp_badSrc sp_seamRoot []).toOption.map (sp_flat 0) =
    some [(0, 0, 3, []), (1, 0, 3, ['a', 'b'])] ∧
    InlineOps.slice sp_badSrc 0 3 = .ok ['a', ' ', 'b'] := by decide +kernel

end MdIt.Pipeline
