/-
  C11, code SPANS in the general form (`Lemmas/C11SpanMultiInline.lean`), DOCUMENT level: the inline nodes of
  `C11M.parseInline_raw` as nodes of the document, through the join pass, `SyntaxPosRule` and the renderer — the
  analogue of sections 1–3 of `Lemmas/C11SpanDoc.lean` for nodes with ANY ranges (`tr` of the inline offsets) and
  the content `spanContent R`; the serializer part of that file (`spanEvents`, `blocky_spanForest` …) is already
  general and is reused.  And the translation of the table of a top-level `n`-line paragraph
  (`Block.idTable 0 Ls`): the identity (`idTable_translate`).
-/
import MdIt.Lemmas.C11SpanDoc
import MdIt.Lemmas.C11SpanMultiInline
import MdIt.Lemmas.C11SpanMultiDefs
set_option linter.unusedSimpArgs false
set_option linter.unusedVariables false

namespace MdIt.C11M
open MdIt.Block MdIt.Block.Li MdIt.Pipeline MdIt.C11N
open MdIt.Lines (NoTerm lead)
open MdIt.Render (Event piece piecesFrom flatten solAfter attrsStr escapeHtml)
open MdIt.NodeRender (aSourcepos tP tCode tBlockquote tUl tOl tLi olAttrs)
open MdIt.C11S (PlainTxt)

/-! ## 1. the table of a top-level paragraph translates every offset to itself -/

/-- a table all of whose entries are `(k, k)` (first key 0, keys increasing) translates every offset to itself -/
theorem diag_translate (m : InlineOps.Srcmap) (hm : C05.WFMap m) (hd : ∀ kv ∈ m, kv.2 = kv.1) (pos : Nat) :
    InlineOps.getSourcePosFor m pos = .ok pos := by
  obtain ⟨i, k, v, hl, hi, hk, hn⟩ := C05.lineOf_spec m hm pos
  have hv : v = k := hd (k, v) (List.mem_of_getElem? hi)
  subst hv
  have := C05.getSourcePosFor_of_line m pos i v v hl hi hk (by
    intro k' v' h'
    have h1 : v' = k' := hd (k', v') (List.mem_of_getElem? h')
    have := hn (i + 1) k' v' (by omega) h'
    omega)
  rw [this]
  congr 1
  omega

theorem idTable_mem : ∀ (Ls : List (List Char)) (p : Nat), ∀ kv ∈ idTable p Ls, p ≤ kv.1 ∧ kv.2 = kv.1
  | [], _, kv, h => by simp [idTable] at h
  | l :: ls, p, kv, h => by
    simp only [idTable, List.mem_cons] at h
    rcases h with rfl | h
    · exact ⟨Nat.le_refl _, rfl⟩
    · have := idTable_mem ls _ kv h
      exact ⟨by omega, this.2⟩

theorem idTable_sorted : ∀ (Ls : List (List Char)) (p : Nat), ((idTable p Ls).map Prod.fst).Pairwise (· < ·)
  | [], _ => by simp [idTable]
  | l :: ls, p => by
    simp only [idTable, List.map_cons, List.pairwise_cons]
    refine ⟨?_, idTable_sorted ls _⟩
    intro k hk
    obtain ⟨kv, hkv, rfl⟩ := List.mem_map.mp hk
    have := (idTable_mem ls _ kv hkv).1
    omega

/-- **the table of a top-level paragraph is the identity**: every inline offset is its own source offset -/
theorem idTable_translate (l : List Char) (Ls : List (List Char)) (pos : Nat) :
    InlineOps.getSourcePosFor (idTable 0 (l :: Ls)) pos = .ok pos :=
  diag_translate (idTable 0 (l :: Ls)) ⟨⟨0, idTable (0 + Lines.byteLen l + 1) Ls, rfl⟩, idTable_sorted (l :: Ls) 0⟩
    (fun kv h => (idTable_mem (l :: Ls) 0 kv h).2) pos

theorem map_add_zero (m : List (Nat × Nat)) : (m.map fun kv => (kv.1, kv.2 + 0)) = m := by
  induction m with
  | nil => rfl
  | cons a r ih => simp

/-! ## 2. the inline nodes, as nodes of the document -/

/-- the `Text` node of a stretch `s` over the source range `r`, attributes `att r` — none for an empty stretch -/
def txtR (att : Nat × Nat → List (List Char × List Char)) (r : Nat × Nat) (s : List Char) : List Node :=
  if s = [] then [] else [⟨.inl (.text s), some r, att r, []⟩]

/-- the `CodeInline` node (marker `` ` ``, length `k + 1`) over the source range `r`; its ONE child is the text
    `C` over `ri` -/
def codeR (att : Nat × Nat → List (List Char × List Char)) (k : Nat) (r ri : Nat × Nat) (C : List Char) : Node :=
  ⟨.inl (.codeInline '`' (k + 1)), some r, att r, [⟨.inl (.text C), some ri, att ri, []⟩]⟩

/-- the source range of the whole span `` `ᵏ⁺¹ R `ᵏ⁺¹ `` behind `pre` -/
def spanRange (tr : Nat → Nat) (k : Nat) (pre R : List Char) : Nat × Nat :=
  (tr (Lines.byteLen pre), tr (Lines.byteLen pre + (2 * (k + 1) + Lines.byteLen R)))

/-- the source range of the text child: the inside of the span, without the padding bytes when they are stripped -/
def innerRange (tr : Nat → Nat) (k : Nat) (pre R : List Char) : Nat × Nat :=
  (tr (Lines.byteLen pre + (k + 1) + padW R), tr (Lines.byteLen pre + (k + 1) + Lines.byteLen R - padW R))

/-- the children of the paragraph: text of `pre` (if any), the code span, text of `post` (if any) -/
def rawNodes (att : Nat × Nat → List (List Char × List Char)) (tr : Nat → Nat) (k : Nat) (pre R post : List Char) :
    List Node :=
  txtR att (tr 0, tr (Lines.byteLen pre)) pre ++
    [codeR att k (spanRange tr k pre R) (innerRange tr k pre R) (spanContent R)] ++
    txtR att (tr (Lines.byteLen pre + (2 * (k + 1) + Lines.byteLen R)),
      tr (Lines.byteLen pre + (2 * (k + 1) + Lines.byteLen R) + Lines.byteLen post)) post

theorem ofInlineList_textNodesT (tr : Nat → Nat) (p : Nat) (s : List Char) :
    ofInlineList (textNodesT tr p s) = txtR (fun _ => []) (tr p, tr (p + Lines.byteLen s)) s := by
  unfold textNodesT txtR
  split
  · rfl
  · simp [ofInlineList, ofInline, Inline.Node.newText, C05I.linesLen_eq]

theorem ofInlineList_raw (tr : Nat → Nat) (k : Nat) (pre R post : List Char) :
    ofInlineList (textNodesT tr 0 pre ++ [codeNodeR tr (InlineOps.byteLen pre) k R] ++
      textNodesT tr (InlineOps.byteLen pre + (2 * (k + 1) + InlineOps.byteLen R)) post) =
      rawNodes (fun _ => []) tr k pre R post := by
  rw [ofInlineList_append, ofInlineList_append, ofInlineList_textNodesT, ofInlineList_textNodesT]
  simp [ofInlineList, ofInline, codeNodeR, codeR, rawNodes, spanRange, innerRange, Inline.Node.newText,
    C05I.linesLen_eq]

/-- the content of the code node is never empty -/
theorem spanContent_ne_nil {R : List Char} (h : R ≠ []) : spanContent R ≠ [] := by
  unfold spanContent CodePair.unpad
  split
  · rename_i hp
    obtain ⟨mid, hmid, hne⟩ := CodePair.padded_split hp
    rw [hmid]
    simpa using hne
  · exact CodePair.normalise_ne_nil h

/-! ### `FragmentsJoin` -/

theorem joinNode_codeR (att : Nat × Nat → List (List Char × List Char)) (k : Nat) (r ri : Nat × Nat) (C : List Char)
    (hC : C ≠ []) : joinNode (codeR att k r ri C) = codeR att k r ri C := by
  unfold codeR
  refine joinNode_of_fix _ _ _ _ ⟨?_, by simp [joinList_eq_map, joinNode_text]⟩
  simp [fragmentsJoin, pass1, mergeAll, mergeLoop, markerToText, keep, Node.isText, Node.content, hC]

theorem joinList_txtR (att : Nat × Nat → List (List Char × List Char)) (r : Nat × Nat) (s : List Char) :
    joinList (txtR att r s) = txtR att r s := by
  unfold txtR
  split
  · simp [joinList_eq_map]
  · simp [joinList_eq_map, joinNode_text]

theorem joinFix_rawNodes (att : Nat × Nat → List (List Char × List Char)) (tr : Nat → Nat) (k : Nat)
    (pre R post : List Char) (hR : R ≠ []) : JoinFix (rawNodes att tr k pre R post) := by
  have hC := spanContent_ne_nil hR
  refine ⟨?_, ?_⟩
  · by_cases h1 : pre = [] <;> by_cases h2 : post = [] <;>
      simp [rawNodes, txtR, codeR, h1, h2, fragmentsJoin, pass1, mergeAll, mergeLoop, markerToText, keep, Node.isText,
        Node.content]
  · have hl : ∀ a b : List Node, joinList (a ++ b) = joinList a ++ joinList b := by
      intro a b; simp [joinList_eq_map]
    simp only [rawNodes, hl, joinList_txtR]
    simp [joinList_eq_map, joinNode_codeR att k _ _ _ hC]

/-! ### `SyntaxPosRule` -/

theorem sourcepos_txtR (src : List Char) (r : Nat × Nat) (s : List Char) :
    sourceposList src (SourceMap.mkMarks src) (txtR (fun _ => []) r s) = .ok (txtR (spOn src) r s) := by
  unfold txtR
  split
  · rfl
  · simp [sourceposList, sourceposNode, sourceposAttrs_eq, spOn]

theorem sourcepos_codeR (src : List Char) (k : Nat) (r ri : Nat × Nat) (C : List Char) :
    sourceposNode src (SourceMap.mkMarks src) (codeR (fun _ => []) k r ri C) = .ok (codeR (spOn src) k r ri C) := by
  simp [codeR, sourceposList, sourceposNode, sourceposAttrs_eq, spOn]

theorem sourcepos_rawNodes (src : List Char) (tr : Nat → Nat) (k : Nat) (pre R post : List Char) :
    sourceposList src (SourceMap.mkMarks src) (rawNodes (fun _ => []) tr k pre R post) =
      .ok (rawNodes (spOn src) tr k pre R post) := by
  unfold rawNodes
  refine sourceposList_append _ _ _ _ _ _ (sourceposList_append _ _ _ _ _ _ (sourcepos_txtR _ _ _) ?_)
    (sourcepos_txtR _ _ _)
  simp [sourceposList, sourcepos_codeR]

/-! ### the renderer -/

theorem renderList_txtR (lookup : List Char → Option (List Char)) (lp : List Char)
    (att : Nat × Nat → List (List Char × List Char)) (r : Nat × Nat) (s : List Char) :
    NodeRender.renderList lookup (toRenderList lp (txtR att r s)) = .ok (txtE s) := by
  unfold txtR txtE
  split
  · rfl
  · simp [toRenderList, toRender, Kind.toRender, NodeRender.renderList, NodeRender.render]

theorem renderList_rawNodes (lookup : List Char → Option (List Char)) (lp : List Char)
    (att : Nat × Nat → List (List Char × List Char)) (tr : Nat → Nat) (k : Nat) (pre R post : List Char) :
    NodeRender.renderList lookup (toRenderList lp (rawNodes att tr k pre R post)) =
      .ok (spanEvents (att (spanRange tr k pre R)) pre (spanContent R) post) := by
  unfold rawNodes spanEvents
  rw [toRenderList_append, toRenderList_append]
  refine renderList_append _ _ _ _ _ (renderList_append _ _ _ _ _ (renderList_txtR _ _ _ _ _) ?_)
    (renderList_txtR _ _ _ _ _)
  simp [codeR, toRenderList, toRender, Kind.toRender, NodeRender.renderList, NodeRender.render, NodeRender.wrap]

end MdIt.C11M
