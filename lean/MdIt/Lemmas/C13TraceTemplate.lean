/-
  C13 tied to SOURCE LINES, the template (namespace `MdIt.Block.Tr`): the symbolic first iteration of
  the block pass on a document that begins with two adjacent definition lines

        D₁ ⏎ D₂ ⏎ ⏎ R…          (`D₁`, `D₂` begin with `[`; `R` = any further lines)

    `leading_definition_stored`   the reference rule fires on line 0: it reads the lines 0‥1 (the scan
                                  runs through `D₂`, which no rule terminates, up to the blank line),
                                  stores what `refParse` makes of `D₁ ⏎ D₂`; since a present key keeps
                                  its entry (`Extends.get_stable`), the FINAL map has that entry
                                  whatever `D₂` and `R` are.
-/
import MdIt.Lemmas.C13TraceInv
import MdIt.Lemmas.C12CtxBlockDef

namespace MdIt.Block.Tr
open MdIt.Lines (LineOffset NoTerm lead)
open MdIt.Block
open MdIt.Block.C12 (runChain_first)
open MdIt.Block.C12D (skipEmpty_stay lead_bracket)

/-! ## a line that begins with `[` -/

/-- every rule declines in SILENT mode on a line `[…` of indent 0 (no pending list indent) -/
theorem runRule_bracket_silent (cfg : Cfg) (tok : Tok) (test : Test) (fuel : Nat) (s : BState)
    (rest : List Char) (hind : s.lineIndent s.line = .ok 0) (hline : s.getLine s.line = .ok ('[' :: rest))
    (hli : s.listIndent = none) (r : RuleId) :
    runRule cfg tok test fuel r s true = .ok (false, s) := by
  cases r with
  | code => rfl
  | fence => simp [runRule, fenceRule, hind, hline, pure, Except.pure]
  | blockquote => simp [runRule, blockquoteRule, hind, hline, pure, Except.pure]
  | hr => simp [runRule, hrRule, hind, hline, pure, Except.pure]
  | list =>
    have hsb : skipBullet ('[' :: rest) = none := by simp [skipBullet]
    have hso : skipOrdered ('[' :: rest) = none := by
      have : isDigit '[' = false := by decide
      simp [skipOrdered, this]
    by_cases hk : isListKind s.nodeKind = true <;>
      simp [runRule, listRule, hk, hind, listSpecial, hli, hline, detectMarker, hso, hsb, pure, Except.pure]
  | reference => rfl
  | heading => simp [runRule, headingRule, hind, hline, pure, Except.pure]
  | lheading => rfl
  | paragraph => rfl

theorem runChain_silent_false (run : RuleId → BState → Bool → Res) (s : BState) :
    ∀ chain : List RuleId, (∀ r ∈ chain, run r s true = .ok (false, s)) →
      runChain run chain s true = .ok (false, s)
  | [], _ => rfl
  | r :: rs, h => by
    simp only [runChain, h r (by simp)]
    exact runChain_silent_false run s rs (fun r' hr' => h r' (List.mem_cons_of_mem _ hr'))

/-- the six rules that look at the first line only decline on `[…` in REAL mode -/
theorem runRule_bracket_real (cfg : Cfg) (tok : Tok) (test : Test) (fuel : Nat) (s : BState)
    (rest : List Char) (hind : s.lineIndent s.line = .ok 0) (hline : s.getLine s.line = .ok ('[' :: rest))
    (hli : s.listIndent = none) (r : RuleId) (hr : r ≠ .paragraph) (hr' : r ≠ .reference)
    (hr'' : r ≠ .lheading) : runRule cfg tok test fuel r s false = .ok (false, s) := by
  cases r with
  | paragraph => exact absurd rfl hr
  | reference => exact absurd rfl hr'
  | lheading => exact absurd rfl hr''
  | code => simp [runRule, codeRule, hind, pure, Except.pure]
  | fence => simp [runRule, fenceRule, hind, hline, pure, Except.pure]
  | blockquote => simp [runRule, blockquoteRule, hind, hline, pure, Except.pure]
  | hr => simp [runRule, hrRule, hind, hline, pure, Except.pure]
  | list =>
    have hsb : skipBullet ('[' :: rest) = none := by simp [skipBullet]
    have hso : skipOrdered ('[' :: rest) = none := by
      have : isDigit '[' = false := by decide
      simp [skipOrdered, this]
    simp [runRule, listRule, hind, listSpecial, hli, hline, detectMarker, hso, hsb, pure, Except.pure]
  | heading => simp [runRule, headingRule, hind, hline, pure, Except.pure]

/-! ## a state at line 0 of  D₁ ⏎ D₂ ⏎ ⏎ R… -/

theorem dropWhile_bracket (rest : List Char) : ('[' :: rest).dropWhile Lines.isBlank = '[' :: rest := by
  simp [Lines.isBlank]

theorem indentWidth_nil : (Lines.indentWidth [] : Int) = 0 := rfl
theorem indentWidth_nil' : Lines.indentWidth [] = 0 := rfl

/-- the facts about the first three lines the rules read -/
structure TwoDefs (s : BState) (rest₁ rest₂ : List Char) : Prop where
  line : s.line = 0
  max : 3 < s.lineMax
  li : s.listIndent = none
  ind0 : s.lineIndent 0 = .ok 0
  ind1 : s.lineIndent 1 = .ok 0
  get0 : s.getLine 0 = .ok ('[' :: rest₁)
  get1 : s.getLine 1 = .ok ('[' :: rest₂)
  emp0 : s.isEmpty 0 = false
  emp1 : s.isEmpty 1 = false
  emp2 : s.isEmpty 2 = true
  off1 : ∃ o, s.off 1 = .ok o ∧ o.indentNonspace = 0
  lines : ∃ m, s.getLines 0 2 s.blkIndent false = .ok ('[' :: (rest₁ ++ '\n' :: '[' :: rest₂), m)

theorem twoDefs_of_onDoc {s : BState} {rest₁ rest₂ : List Char} {R : List (List Char)}
    (hs : OnDoc (('[' :: rest₁) :: ('[' :: rest₂) :: [] :: R) s) (hl : s.line = 0)
    (hmax : s.lineMax = (('[' :: rest₁) :: ('[' :: rest₂) :: [] :: R).length) (hR : R ≠ [])
    (hli : s.listIndent = none) : TwoDefs s rest₁ rest₂ := by
  have hlen : 3 < (('[' :: rest₁) :: ('[' :: rest₂) :: [] :: R).length := by
    cases R with
    | nil => exact absurd rfl hR
    | cons a r => simp
  have h0 : 0 < (('[' :: rest₁) :: ('[' :: rest₂) :: [] :: R).length := by omega
  have h1 : 1 < (('[' :: rest₁) :: ('[' :: rest₂) :: [] :: R).length := by omega
  have h2 : 2 < (('[' :: rest₁) :: ('[' :: rest₂) :: [] :: R).length := by omega
  refine ⟨hl, by omega, hli, ?_, ?_, ?_, ?_, ?_, ?_, ?_, ?_, ?_⟩
  · have := hs.lineIndent h0
    simpa [lead_bracket, indentWidth_nil'] using this
  · have := hs.lineIndent h1
    simpa [lead_bracket, indentWidth_nil'] using this
  · have := hs.getLine h0
    simpa [dropWhile_bracket] using this
  · have := hs.getLine h1
    simpa [dropWhile_bracket] using this
  · have := hs.isEmpty h0
    simpa [dropWhile_bracket] using this
  · have := hs.isEmpty h1
    simpa [dropWhile_bracket] using this
  · have := hs.isEmpty h2
    simpa using this
  · obtain ⟨o, ho, _, _, hi⟩ := hs.entry h1
    refine ⟨o, by simp [BState.off, ho], ?_⟩
    simp only [List.getElem_cons_succ, List.getElem_cons_zero, lead_bracket] at hi
    rw [hi]; rfl
  · obtain ⟨m, hm⟩ := hs.getLines 0 2 0 false (by omega) (by omega)
    refine ⟨m, ?_⟩
    rw [hs.blk, hm]
    simp [Lines.joinLines, viewPiece_zero]

/-- the paragraph-continuation scan from line 0: `D₂` terminates nothing, line 2 is blank -/
theorem lazyScan_twoDefs {test : Test} {s : BState} {rest₁ rest₂ : List Char} (h : TwoDefs s rest₁ rest₂)
    (htest : test { s with line := 1 } = .ok (false, { s with line := 1 })) (k : Nat) :
    lazyScan test false (k + 2) s 0 = .ok (2, 0, s) := by
  obtain ⟨o, ho, hoi⟩ := h.off1
  have hm1 : ¬ (1 ≥ s.lineMax) := by have := h.max; omega
  have hback : ({ ({ s with line := 1 } : BState) with line := s.line } : BState) = s := set_line_back s 1
  simp [lazyScan, hm1, h.emp1, h.emp2, h.ind1, setextCheck, ho, hoi, htest, hback, pure, Except.pure,
    bind, Except.bind]

/-- the reference rule at line 0 -/
theorem reference_twoDefs {cfg : Cfg} {tok : Tok} {test : Test} {s : BState} {rest₁ rest₂ : List Char}
    (h : TwoDefs s rest₁ rest₂)
    (htest : test { s with line := 1 } = .ok (false, { s with line := 1 })) (k : Nat)
    (hq : refQuick false rest₁ = true) (raw href : List Nat) (title : Option (List Nat))
    (hparse : refParse cfg (trimStr ('[' :: (rest₁ ++ '\n' :: '[' :: rest₂))) =
      .ok (some (raw, href, title, 0)))
    (hlab : (Refs.normalize cfg.L cfg.U raw).isEmpty = false) :
    runRule cfg tok test (k + 2) .reference s false =
      .ok (true, { s with
        refs := Refs.insertFirst s.refs (Refs.normalize cfg.L cfg.U (Refs.normalize cfg.L cfg.U raw))
                  ⟨href, title⟩,
        line := 1 }) := by
  obtain ⟨m, hm⟩ := h.lines
  have hscan := lazyScan_twoDefs h htest k
  have hlab' : Refs.normalize cfg.L cfg.U raw ≠ [] := by simpa using hlab
  simp [runRule, referenceRule, h.line, h.ind0, h.get0, hq, hscan, hm, hparse, hlab', pure, Except.pure,
    bind, Except.bind]

/-! ## the first iteration of the tokenizer loop -/

theorem set_line_self (s : BState) : ({ s with line := s.line } : BState) = s := by cases s; rfl

/-- an iteration on a non-blank line of non-negative indent on which the chain answers `(true, s1)`:
    the final map extends the map of `s1` -/
theorem tokLoop_first_refs {cfg : Cfg} {run : RuleId → BState → Bool → Res}
    (hsh : ∀ r s b s', run r s false = .ok (b, s') → KeepsRefs cfg s s')
    (k : Nat) (he : Bool) (s s1 s' : BState) (i : Int) (hlt : s.line < s.lineMax)
    (hne : s.isEmpty s.line = false) (hind : s.lineIndent s.line = .ok i) (hi : ¬ i < 0)
    (hlvl : s.level < cfg.maxNesting) (hchain : runChain run cfg.chain s false = .ok (true, s1))
    (h : tokLoop cfg run (k + 1) he s = .ok s') : Extends cfg s1.refs s'.refs := by
  have hskip := skipEmpty_stay s.offs s.lineMax s.line hne
  have hind' : liftL (Lines.lineIndent s.offs s.blkIndent s.line) = .ok i := hind
  obtain ⟨src, offs, blk, line, lineMax, tight, li, level, nk, ch, refs⟩ := s
  simp only at hlt hne hind' hlvl hchain hskip
  simp only [tokLoop, hskip, BState.lineIndent, hind'] at h
  have hchain' := hchain.symm
  clear hchain
  crack h
  all_goals (try omega)
  all_goals (
    have hw := ‹runChain _ _ _ _ = _›
    rw [← hchain'] at hw
    cases hw
    have hafter := ‹afterChain _ _ _ = _›
    have h2 := afterChain_refs hafter
    have h3 := tokLoop_refs hsh _ _ _ _ h
    unfold KeepsRefs at h3
    simp only at h3 h2
    rw [h2] at h3
    exact h3)

/-- **the leading definition is stored, and stays.**  `parseBlocks` on  D₁ ⏎ D₂ ⏎ ⏎ R…  (`D₁`, `D₂`
    begin with `[`, `R ≠ []` any lines, the last one not empty), the reference rule in the chain
    behind rules that look at the first line only: the final map has, under the key of `D₁`'s label,
    the entry `refParse` makes of the text `D₁ ⏎ D₂` — whatever `D₂` and `R` define. -/
theorem leading_definition_stored (cfg : Cfg) (pre post : List RuleId)
    (hchain : cfg.chain = pre ++ RuleId.reference :: post)
    (hpre : RuleId.paragraph ∉ pre) (hpre' : RuleId.reference ∉ pre) (hpre'' : RuleId.lheading ∉ pre)
    (hmax : 0 < cfg.maxNesting)
    (rest₁ rest₂ : List Char) (R : List (List Char)) (hR : R ≠ [])
    (hnt : ∀ l ∈ ('[' :: rest₁) :: ('[' :: rest₂) :: [] :: R, NoTerm l)
    (hlast : (('[' :: rest₁) :: ('[' :: rest₂) :: [] :: R).getLast? ≠ some [])
    (hq : refQuick false rest₁ = true) (raw href : List Nat) (title : Option (List Nat))
    (hparse : refParse cfg (trimStr ('[' :: (rest₁ ++ '\n' :: '[' :: rest₂))) =
      .ok (some (raw, href, title, 0)))
    (hlab : (Refs.normalize cfg.L cfg.U raw).isEmpty = false)
    (root : BNode) (refs : Refs.RefMap)
    (h : parseBlocks cfg (docOf (('[' :: rest₁) :: ('[' :: rest₂) :: [] :: R)) = .ok (root, refs)) :
    refs.get (cfg.N (cfg.N raw)) = some ⟨href, title⟩ := by
  obtain ⟨f, hf⟩ : ∃ f, fuelFor cfg (docOf (('[' :: rest₁) :: ('[' :: rest₂) :: [] :: R)) = f + 3 :=
    ⟨(Lines.splitLines (docOf (('[' :: rest₁) :: ('[' :: rest₂) :: [] :: R))).length +
      min cfg.maxNesting (Lines.byteLen (docOf (('[' :: rest₁) :: ('[' :: rest₂) :: [] :: R))) + 5,
      by unfold fuelFor; omega⟩
  unfold parseBlocks at h
  split at h
  · cases h
  · rename_i s' hs'
    simp only [Except.ok.injEq, Prod.mk.injEq] at h
    obtain ⟨_, rfl⟩ := h
    rw [hf] at hs'
    have hon := OnDoc.fresh (Ls := ('[' :: rest₁) :: ('[' :: rest₂) :: [] :: R) (by simp) hnt hlast .root []
    have hlen := hon.length
    have h2 := twoDefs_of_onDoc hon rfl (by simp only [BState.fresh]; exact hlen) hR rfl
    have hrefs0 : (BState.fresh (docOf (('[' :: rest₁) :: ('[' :: rest₂) :: [] :: R)) .root []).refs = [] := rfl
    have hlevel0 : (BState.fresh (docOf (('[' :: rest₁) :: ('[' :: rest₂) :: [] :: R)) .root []).level = 0 := rfl
    generalize BState.fresh (docOf (('[' :: rest₁) :: ('[' :: rest₂) :: [] :: R)) .root [] = s0
      at hs' h2 hon hrefs0 hlevel0
    -- the silent chain at line 1
    have htest : (engine cfg (f + 2)).2 { s0 with line := 1 } = .ok (false, { s0 with line := 1 }) := by
      show runChain (runRule cfg (engine cfg (f + 1)).1 (engine cfg (f + 1)).2 (f + 2)) cfg.chain
        { s0 with line := 1 } true = _
      exact runChain_silent_false _ _ _ (fun r _ =>
        runRule_bracket_silent cfg _ _ _ { s0 with line := 1 } rest₂ h2.ind1 h2.get1 h2.li r)
    -- the chain at line 0
    have hfire := reference_twoDefs (tok := (engine cfg (f + 2)).1) h2 htest (f + 1) hq raw href title
      hparse hlab
    have hdecl : ∀ r ∈ pre, runRule cfg (engine cfg (f + 2)).1 (engine cfg (f + 2)).2 (f + 3) r s0 false =
        .ok (false, s0) := fun r hr =>
      runRule_bracket_real cfg _ _ _ s0 rest₁ (by rw [h2.line]; exact h2.ind0)
        (by rw [h2.line]; exact h2.get0) h2.li r (fun e => hpre (e ▸ hr)) (fun e => hpre' (e ▸ hr))
        (fun e => hpre'' (e ▸ hr))
    have hc := runChain_first _ pre post s0 _ .reference hfire hdecl
    rw [← hchain] at hc
    have hext := tokLoop_first_refs
      (fun r s b s' h => runRule_refs (tokenize_refs cfg (f + 2)) (testRules_pure cfg (f + 2)) _ r h)
      (f + 2) false s0 _ s' 0 (by rw [h2.line]; have := h2.max; omega)
      (by rw [h2.line]; exact h2.emp0) (by rw [h2.line]; exact h2.ind0) (by omega) ?_ hc hs'
    · refine hext.get_stable ?_
      show (Refs.insertFirst s0.refs _ _).get _ = _
      rw [hrefs0]
      simp [Refs.insertFirst, Refs.RefMap.get, List.lookup, Cfg.N]
    · rw [hlevel0]; exact hmax

end MdIt.Block.Tr
