/-
  Helper development for `Props/C16Doc.lean`, part 3b: THE TOP FRAME — the real step at a memo HIT of the
  top frame against the witness of the entry.  The copy of the rule / chain comparison of
  `Lemmas/MemoSafeLamESNest.lean` for a real state of the TOP frame: witness and real state have the same
  `pos_max` (the window cut is trivial, `WinHyp` with `M' = pos_max`), the frame invariant `ES.NF` is replaced
  by the invariant of the top frame (`ES.TopInv`, `Good`, `MemoB`) plus `IFP` of the real state, and
  `parse_link` is compared by `parseLinkL2_top`.

    * `TPair`, `TCallees`       — the fixed data of one real step of the top frame;
    * `t_rule_flat/back/emph`, `t_linkRule`, `t_rule_link/image`, `t_rule_L2`, `t_chain_L2`;
    * `top_agree`               — **at a memo hit `k ↦ v`, `v < pos_max`, of the top frame the real step ends at
      `v` or is the emphasis rule at a run of its marker (then `v = k + 1`)**; the memo is left alone and
      `IFP` holds at the new state.
-/
import MdIt.Lemmas.C16DocTopLink

namespace MdIt.Inline.ES.C16Doc
open MdIt.Inline
open MdIt.Inline.CS (Interior MK InsideSub MK.of_sub InsideSub.refl InsideSub.trans AgreeHyp
  insideSub_ruleBackticks not_interior_after_bracket not_interior_after_run)
open MdIt.InlineOps (Srcmap getSourcePosFor getMap byteLen slice)
open MdIt.C05 (WFMap MonoMap byteLen_append slice_ok_iff)

/-- a witness state `w` (look-ahead) and a real state `x` of the TOP frame at the same position `k`,
    under the same `pos_max` -/
structure TPair (cfg : Cfg) (B : List Char → CodePair.Cache → Prop) (src : List Char) (Mtop : Nat)
    (m : List (Nat × Nat)) (k : Nat) (ch : Char) (w x : IState) : Prop where
  wi : LInv w
  wsrc : w.src = src
  wmax : w.posMax = Mtop
  wpos : w.pos = k
  wB : ch = '`' → B w.src w.backticks
  wifp : ch = '`' → RuleId.backticks ∈ cfg.chain → IFP cfg w
  top : TopInv cfg B src Mtop x
  good : ∃ lo, Good lo x
  memo : MemoB x
  xpos : x.pos = k
  xcache : x.cache = m
  xifp : RuleId.backticks ∈ cfg.chain → IFP cfg x
  xep : EPc cfg src k

/-- the callees of one real step of the top frame -/
structure TCallees (cfg : Cfg) (B : List Char → CodePair.Cache → Prop) (src : List Char) (Mtop : Nat)
    (f : Nat) (skipG tokG : IState → Except Panic IState) : Prop where
  calm : CalmFn skipG
  skT : SkipHypT skipG
  tokT : TokHypT tokG
  rng : RangesFn tokG
  hits : f = 0 ∨ FollowsHits skipG
  entry : EntryP cfg B src Mtop skipG (NF cfg B src Mtop)
  tokNF : ∀ s, NF cfg B src Mtop s → ∀ s', tokG s = .ok s' → s'.cache = s.cache ∧ s'.src = s.src ∧
    InsideSub s.backticks s'.backticks ∧ B s'.src s'.backticks

section
variable {cfg : Cfg} {B : List Char → CodePair.Cache → Prop} {src : List Char} {Mtop : Nat}
  {f : Nat} {skipG tokG : IState → Except Panic IState}
  {skip0 tok0 : IState → Except Panic IState} {f0 : Nat}
  {m : List (Nat × Nat)} {k v : Nat} {ch : Char} {rest : List Char} {w x : IState}

theorem TPair.xlt (S : StepCtx src Mtop m k Mtop v ch rest) (P : TPair cfg B src Mtop m k ch w x) :
    x.pos < x.posMax := by rw [P.xpos, P.top.hmax]; exact S.klt

theorem TPair.wlt (S : StepCtx src Mtop m k Mtop v ch rest) (P : TPair cfg B src Mtop m k ch w x) :
    w.pos < w.posMax := by rw [P.wpos, P.wmax]; exact S.klt

theorem TPair.winHyp (S : StepCtx src Mtop m k Mtop v ch rest) (P : TPair cfg B src Mtop m k ch w x) :
    WinHyp w Mtop :=
  ⟨P.wi.bpos, P.wi.bmax, by rw [P.wpos]; exact S.klt, by rw [P.wmax]; exact Nat.le_refl _,
    .inl P.wmax.symm⟩

theorem TPair.windows (S : StepCtx src Mtop m k Mtop v ch rest) (P : TPair cfg B src Mtop m k ch w x) :
    x.window = .ok (ch :: rest) ∧ w.window = .ok (ch :: rest) := by
  constructor
  · unfold IState.window; rw [P.top.hsrc, P.xpos, P.top.hmax, S.sl]; rfl
  · unfold IState.window; rw [P.wsrc, P.wpos, P.wmax, S.sl]; rfl

theorem TPair.wnocut (P : TPair cfg B src Mtop m k ch w x) : CodePair.NoCut '`' w.src w.posMax := by
  rw [P.wsrc, P.wmax]; exact P.top.nocut

theorem t_good_after_none (H : NestHyps cfg B src Mtop) (C : TCallees cfg B src Mtop f skipG tokG)
    {id : RuleId} (hid : id ∈ cfg.chain) {x x' : IState} (hg : ∃ lo, Good lo x) (hm : MemoB x)
    (hlt : x.pos < x.posMax)
    (h : runRule cfg skipG tokG f id x false = .ok (none, x')) : ∃ lo, Good lo x' := by
  obtain ⟨lo, hg⟩ := hg
  have hT := runRule_real_T (coherent_hsz H.coh) C.calm C.skT C.tokT C.rng f hid x hg hm hlt
  have s1 := hT.ok _ _ h
  exact ⟨lo, Good.of_add_zero (by simpa using s1.good)⟩

/-- the flat rules without cache -/
theorem t_rule_flat (H : NestHyps cfg B src Mtop) (C : TCallees cfg B src Mtop f skipG tokG)
    (S : StepCtx src Mtop m k Mtop v ch rest) (P : TPair cfg B src Mtop m k ch w x)
    {id : RuleId} (hid : id ∈ cfg.chain)
    (hfl : id = .text ∨ id = .newline ∨ id = .escape ∨ id = .autolink ∨ id = .entity ∨ id = .linkEnd)
    {o1 : Option Nat} {w1 : IState}
    (hwit : silentBumped (runRule cfg skip0 tok0 f0 id) w = .ok (o1, w1))
    (hsome : ∀ n, o1 = some n → v = k + n) :
    ∀ o x', runRule cfg skipG tokG f id x false = .ok (o, x') →
      RulePost cfg B src ch v k Mtop o1 x o x' := by
  intro o x' hreal
  obtain ⟨wb, hwb, _⟩ := silentBumped_ok hwit
  have hflat : id.isFlat = true := by rcases hfl with rfl | rfl | rfl | rfl | rfl | rfl <;> rfl
  have hnb : id ≠ .backticks := by rcases hfl with rfl | rfl | rfl | rfl | rfl | rfl <;> simp
  obtain ⟨l1, l2⟩ := H.flat skip0 tok0 skipG tokG f0 f id hfl { w with level := w.level + 1 } x
    (by rw [P.top.hmax]; exact (P.winHyp S).bump) P.wi.stop (P.top.hsrc.trans P.wsrc.symm)
    (P.xpos.trans P.wpos.symm) o1 wb o x' hwb hreal
  obtain ⟨kp, kc, ks, km, _, kb⟩ := H.keep skipG tokG f id hflat x o x' hreal
  have hBx' : B x'.src x'.backticks := by rw [ks, kb hnb]; exact P.top.back
  have hsub : InsideSub x.backticks x'.backticks := by rw [kb hnb]; exact InsideSub.refl _
  refine ⟨kc, ks, km, hBx', hsub, ?_⟩
  cases o1 with
  | none =>
    have := l1 rfl; subst this
    exact .inl ⟨rfl, rfl, kp, t_good_after_none H C hid P.good P.memo (P.xlt S) hreal⟩
  | some n =>
    have hv := hsome n rfl
    have := l2 n rfl (by
      show w.pos + n ≤ x.posMax
      rw [P.wpos, P.top.hmax]; have := S.vle; omega)
    subst this
    exact .inr (.inl ⟨n, rfl, ⟨n, rfl⟩, by rw [kp, P.xpos]; omega⟩)

/-- the code-span rule -/
theorem t_rule_back (H : NestHyps cfg B src Mtop) (C : TCallees cfg B src Mtop f skipG tokG)
    (S : StepCtx src Mtop m k Mtop v ch rest) (P : TPair cfg B src Mtop m k ch w x)
    (hid : RuleId.backticks ∈ cfg.chain) {o1 : Option Nat} {w1 : IState}
    (hwit : silentBumped (runRule cfg skip0 tok0 f0 .backticks) w = .ok (o1, w1))
    (hsome : ∀ n, o1 = some n → v = k + n) :
    ∀ o x', runRule cfg skipG tokG f .backticks x false = .ok (o, x') →
      RulePost cfg B src ch v k Mtop o1 x o x' := by
  intro o x' hreal
  obtain ⟨wb, hwb, _⟩ := silentBumped_ok hwit
  obtain ⟨hwx, hww⟩ := P.windows S
  by_cases hch : ch = '`'
  · have hagree : w.backticks.insideFailed.contains w.pos = x.backticks.insideFailed.contains x.pos := by
      by_cases hint : Interior src k
      · by_cases hE : RuleId.escape ∈ cfg.chain ∧ esc src (k - 1) = true
        · rw [P.wpos, P.xpos,
            H.land w.backticks k (by rw [← P.wsrc]; exact P.wB hch) hE.1 hE.2,
            H.land x.backticks k (by rw [← P.top.hsrc]; exact P.top.back) hE.1 hE.2]
        · have hne : RuleId.escape ∈ cfg.chain → esc src (k - 1) = false := by
            intro he
            cases h : esc src (k - 1) with
            | false => rfl
            | true => exact absurd ⟨he, h⟩ hE
          rw [P.wifp hch hid (by rw [P.wsrc, P.wpos]; exact hint) (by rw [P.wsrc, P.wpos]; exact hne),
            P.xifp hid (by rw [P.top.hsrc, P.xpos]; exact hint)
              (by rw [P.top.hsrc, P.xpos]; exact hne)]
      · rw [P.wpos, P.xpos]
        exact H.agree _ _ k (by rw [← P.wsrc]; exact P.wB hch) (by rw [← P.top.hsrc]; exact P.top.back)
          hint
    obtain ⟨l1, l2⟩ := H.back hid skip0 tok0 skipG tokG f0 f { w with level := w.level + 1 } x
      (by rw [P.top.hmax]; exact (P.winHyp S).bump) P.wsrc P.wmax (P.top.hsrc.trans P.wsrc.symm)
      (P.xpos.trans P.wpos.symm) (P.wB hch) P.top.back hagree o1 wb o x' hwb hreal
    obtain ⟨kp, kc, ks, km, _, _⟩ := H.keep skipG tokG f .backticks rfl x o x' hreal
    have hreal' : liftR (ruleBackticks x false) = .ok (o, x') := hreal
    have hBx' : B x'.src x'.backticks :=
      H.hB x false o x' (liftR_ok.mp hreal') P.top.nocut_st
        (by rw [P.top.hsrc, P.xpos]; exact P.xep) P.top.back
    have hsub : InsideSub x.backticks x'.backticks := insideSub_ruleBackticks (liftR_ok.mp hreal')
    refine ⟨kc, ks, km, hBx', hsub, ?_⟩
    cases o1 with
    | none =>
      have := l1 rfl; subst this
      exact .inl ⟨rfl, rfl, kp, t_good_after_none H C hid P.good P.memo (P.xlt S) hreal⟩
    | some n =>
      have hv := hsome n rfl
      have := l2 n rfl (by
        show w.pos + n ≤ x.posMax
        rw [P.wpos, P.top.hmax]; have := S.vle; omega)
      subst this
      exact .inr (.inl ⟨n, rfl, ⟨n, rfl⟩, by rw [kp, P.xpos]; omega⟩)
  · rw [backticks_other hwx hch false] at hreal
    simp only [Except.ok.injEq, Prod.mk.injEq] at hreal
    obtain ⟨rfl, rfl⟩ := hreal
    have hwB : ({ w with level := w.level + 1 } : IState).window = .ok (ch :: rest) := hww
    rw [backticks_other hwB hch true] at hwb
    simp only [Except.ok.injEq, Prod.mk.injEq] at hwb
    exact ⟨rfl, rfl, rfl, P.top.back, InsideSub.refl _, .inl ⟨rfl, hwb.1.symm, rfl, P.good⟩⟩

/-- the emphasis rules -/
theorem t_rule_emph (H : NestHyps cfg B src Mtop) (_C : TCallees cfg B src Mtop f skipG tokG)
    (S : StepCtx src Mtop m k Mtop v ch rest) (P : TPair cfg B src Mtop m k ch w x)
    {mk : Char} {csw : Bool} (hid : RuleId.emph mk csw ∈ cfg.chain) {o1 : Option Nat} {w1 : IState}
    (hwit : silentBumped (runRule cfg skip0 tok0 f0 (.emph mk csw)) w = .ok (o1, w1)) :
    ∀ o x', runRule cfg skipG tokG f (.emph mk csw) x false = .ok (o, x') →
      RulePost cfg B src ch v k Mtop o1 x o x' := by
  intro o x' hreal
  obtain ⟨wb, hwb, _⟩ := silentBumped_ok hwit
  obtain ⟨hwx, hww⟩ := P.windows S
  have ho1 : o1 = none := by
    have h'' : liftR (ruleEmph cfg mk csw { w with level := w.level + 1 } true) = .ok (o1, wb) := hwb
    have h' := liftR_ok.mp h''
    rw [ruleEmph_silent] at h'
    simp only [Except.ok.injEq, Prod.mk.injEq] at h'
    exact h'.1.symm
  have hsz := coherent_hsz H.coh mk csw hid
  have hreal' : liftR (ruleEmph cfg mk csw x false) = .ok (o, x') := hreal
  obtain ⟨e1, e2⟩ := H.emph mk csw hsz x o x' (liftR_ok.mp hreal')
  by_cases hc : ch = mk
  · subst hc
    obtain ⟨n, hn, h1, h2, h3⟩ := e2 rest hwx
    obtain ⟨kp, kc, ks, km, _, kb⟩ := H.keep skipG tokG f (.emph ch csw) rfl x o x' hreal
    have hBx' : B x'.src x'.backticks := by rw [ks, kb (by simp)]; exact P.top.back
    have hsub : InsideSub x.backticks x'.backticks := by rw [kb (by simp)]; exact InsideSub.refl _
    refine ⟨kc, ks, km, hBx', hsub, .inr (.inr ⟨n, hn, kp, ⟨csw, hid⟩, h1, ?_, ?_⟩)⟩
    · rw [P.xpos, P.top.hmax] at h2; exact h2
    · intro i hi
      have := h3 i hi
      rw [P.top.hsrc, P.xpos, P.top.hmax] at this
      exact this
  · obtain ⟨rfl, rfl⟩ := e1 ch rest hwx hc
    exact ⟨rfl, rfl, rfl, P.top.back, InsideSub.refl _, .inl ⟨rfl, ho1, rfl, P.good⟩⟩

/-- **the link rule body in the top frame**: `parseLinkL2_top` for `parse_link`; the label run is a
    nested frame (`EntryP`), which leaves the memo alone -/
theorem t_linkRule (C : TCallees cfg B src Mtop f skipG tokG)
    (_S : StepCtx src Mtop m k Mtop v ch rest) (P : TPair cfg B src Mtop m k ch w x)
    (mk mk' : List Nat → Option (List Char) → Val) (en : Bool) (offset : Nat)
    (hch : ∃ r, slice src (k + offset) Mtop = .ok ('[' :: r))
    (hq0 : CalmFn skip0) (hs0 : SkipHypT skip0) (hg0 : SkipGrowHyp skip0)
    (hbx : Boundary x.src (x.pos + offset + 1)) (hlex : x.pos + offset + 1 ≤ x.posMax)
    {o1 : Option Nat} {wb : IState}
    (hwit : linkRule cfg skip0 tok0 f0 mk' en offset { w with level := w.level + 1 } true
      = .ok (o1, wb))
    (hmono : LookupMono wb.cache m)
    (hsome : ∀ n, o1 = some n → v = k + n) :
    ∀ o x', linkRule cfg skipG tokG f mk en offset x false = .ok (o, x') →
      RulePost cfg B src ch v k Mtop o1 x o x' := by
  obtain ⟨r0, hpl0, hr0n, hr0s⟩ := linkRule_silent_inv hwit
  have hiB := P.wi.bump
  have hwbpos : wb.pos = w.pos := parseLink_pos (st := { w with level := w.level + 1 }) hpl0
  have hR := parseLinkL2_top (cfg := cfg) offset en skip0 f0 { w with level := w.level + 1 } wb r0 x
    hq0 hs0 hg0 hiB (P.wsrc.trans P.top.hsrc.symm) (P.wmax.trans P.top.hmax.symm)
    (P.wpos.trans P.xpos.symm) hpl0 (by rw [P.xcache]; exact hmono)
    (fun a b h => (P.memo a b h).1) hbx hlex f
  have hRG : ∃ R : Except Panic (Option LinkRes),
      parseLink cfg skipG f x (x.pos + offset) en =
        (match R with
          | .ok r => .ok (r, x)
          | .error e => .error e) ∧ (∀ r, R = .ok r → r = r0) := by
    rcases C.hits with h0 | hG
    · subst h0
      exact ⟨.error .fuel, parseLink_fuel0, by intro r h; cases h⟩
    · obtain ⟨R, h1, h2⟩ := hR
      exact ⟨R, h1 _ hG, h2⟩
  obtain ⟨R, hG, hRr⟩ := hRG
  intro o x' h
  unfold linkRule at h
  simp only at h
  rw [hG] at h
  cases R with
  | error e => simp at h
  | ok r =>
    have hrr := hRr r rfl
    subst hrr
    cases r with
    | none =>
      simp only [Except.ok.injEq, Prod.mk.injEq] at h
      obtain ⟨rfl, rfl⟩ := h
      exact ⟨rfl, rfl, rfl, P.top.back, InsideSub.refl _, .inl ⟨rfl, hr0n rfl, rfl, P.good⟩⟩
    | some res =>
      simp only [Bool.false_eq_true, if_false] at h
      obtain ⟨hpe, ho1⟩ := hr0s res rfl
      have hv : res.endPos = v := by
        have := hsome _ ho1
        have h1 := hwbpos; have h2 := P.wpos
        omega
      obtain ⟨lo, hg⟩ := P.good
      have hpG : parseLink cfg skipG f x (x.pos + offset) en = .ok (some res, x) := hG
      have hnf : NF cfg B src Mtop (IState.mk x.src x.srcmap res.labelStart res.labelEnd
          (x.level + 1) (x.linkLevel + 1) x.cache x.backticks [] []) :=
        C.entry lo x offset en f res x hg P.memo P.top hbx hlex
          (by rw [P.top.hsrc, P.xpos, P.top.hmax]; exact hch) hpG P.top
      cases hGt : tokG (IState.mk x.src x.srcmap res.labelStart res.labelEnd
          (x.level + 1) (x.linkLevel + 1) x.cache x.backticks [] []) with
      | error e => rw [hGt] at h; simp at h
      | ok st3 =>
        rw [hGt] at h
        simp only at h
        obtain ⟨hc3, hs3, hsub3, hb3⟩ := C.tokNF _ hnf st3 hGt
        split at h
        · simp at h
        · split at h
          · simp at h
          · split at h
            · simp at h
            · next hnu =>
              simp only [Except.ok.injEq, Prod.mk.injEq] at h
              obtain ⟨rfl, rfl⟩ := h
              refine ⟨hc3, hs3, rfl, hb3, hsub3, .inr (.inl ⟨_, rfl, ⟨_, ho1⟩, ?_⟩)⟩
              simp only at hnu ⊢
              omega

/-- the link rule -/
theorem t_rule_link (C : TCallees cfg B src Mtop f skipG tokG)
    (S : StepCtx src Mtop m k Mtop v ch rest) (P : TPair cfg B src Mtop m k ch w x)
    (hq0 : CalmFn skip0) (hs0 : SkipHypT skip0) (hg0 : SkipGrowHyp skip0)
    {o1 : Option Nat} {w1 : IState}
    (hwit : silentBumped (runRule cfg skip0 tok0 f0 .link) w = .ok (o1, w1))
    (hmono : LookupMono w1.cache m) (hsome : ∀ n, o1 = some n → v = k + n) :
    ∀ o x', runRule cfg skipG tokG f .link x false = .ok (o, x') →
      RulePost cfg B src ch v k Mtop o1 x o x' := by
  obtain ⟨wb, hwb, rfl⟩ := silentBumped_ok hwit
  obtain ⟨hwx, hww⟩ := P.windows S
  have hwB : ({ w with level := w.level + 1 } : IState).window = .ok (ch :: rest) := hww
  by_cases hc : ch = '['
  · subst hc
    have hX : ∀ skip tok, runRule cfg skip tok f .link x false =
        linkRule cfg skip tok f Val.link false 0 x false := by
      intro skip tok
      unfold runRule
      simp only
      unfold ruleLink
      rw [hwx]
      simp only [liftR]
      rw [if_neg (by simp)]
    have hWr : runRule cfg skip0 tok0 f0 .link { w with level := w.level + 1 } true =
        linkRule cfg skip0 tok0 f0 Val.link false 0 { w with level := w.level + 1 } true := by
      unfold runRule
      simp only
      unfold ruleLink
      rw [hwB]
      simp only [liftR]
      rw [if_neg (by simp)]
    rw [hX]
    rw [hWr] at hwb
    obtain ⟨hbx, hlex⟩ := after_first (st := x) (by decide) (window_eq hwx)
    exact t_linkRule C S P Val.link Val.link false 0 ⟨rest, S.sl⟩ hq0 hs0 hg0 hbx hlex hwb hmono hsome
  · rw [link_other hwx hc false]
    rw [link_other hwB hc true] at hwb
    simp only [Except.ok.injEq, Prod.mk.injEq] at hwb
    intro o x' h
    simp only [Except.ok.injEq, Prod.mk.injEq] at h
    obtain ⟨rfl, rfl⟩ := h
    exact ⟨rfl, rfl, rfl, P.top.back, InsideSub.refl _, .inl ⟨rfl, hwb.1.symm, rfl, P.good⟩⟩

/-- the image rule -/
theorem t_rule_image (C : TCallees cfg B src Mtop f skipG tokG)
    (S : StepCtx src Mtop m k Mtop v ch rest) (P : TPair cfg B src Mtop m k ch w x)
    (hq0 : CalmFn skip0) (hs0 : SkipHypT skip0) (hg0 : SkipGrowHyp skip0)
    {o1 : Option Nat} {w1 : IState}
    (hwit : silentBumped (runRule cfg skip0 tok0 f0 .image) w = .ok (o1, w1))
    (hmono : LookupMono w1.cache m) (hsome : ∀ n, o1 = some n → v = k + n) :
    ∀ o x', runRule cfg skipG tokG f .image x false = .ok (o, x') →
      RulePost cfg B src ch v k Mtop o1 x o x' := by
  obtain ⟨wb, hwb, rfl⟩ := silentBumped_ok hwit
  obtain ⟨hwx, hww⟩ := P.windows S
  by_cases hc : ch = '!' ∧ ∃ t, rest = '[' :: t
  · obtain ⟨rfl, t, rfl⟩ := hc
    have hwB : ({ w with level := w.level + 1 } : IState).window = .ok ('!' :: '[' :: t) := hww
    have hX : ∀ skip tok, runRule cfg skip tok f .image x false =
        linkRule cfg skip tok f Val.image true 1 x false := by
      intro skip tok
      unfold runRule
      simp only
      unfold ruleImage
      rw [hwx]
      simp only [liftR]
    have hWr : runRule cfg skip0 tok0 f0 .image { w with level := w.level + 1 } true =
        linkRule cfg skip0 tok0 f0 Val.image true 1 { w with level := w.level + 1 } true := by
      unfold runRule
      simp only
      unfold ruleImage
      rw [hwB]
      simp only [liftR]
    rw [hX]
    rw [hWr] at hwb
    obtain ⟨hbx, hlex⟩ := after_second (st := x) (by decide) (by decide) (window_eq hwx)
    exact t_linkRule C S P Val.image Val.image true 1
      ⟨t, Inline.slice_tail_of_cons (by decide) S.sl⟩ hq0 hs0 hg0 hbx hlex hwb hmono hsome
  · have hnx : ∀ t, ch :: rest ≠ '!' :: '[' :: t := by
      intro t e
      simp only [List.cons.injEq] at e
      exact hc ⟨e.1, t, e.2⟩
    have hwB : ({ w with level := w.level + 1 } : IState).window = .ok (ch :: rest) := hww
    rw [image_other hwx hnx false]
    rw [image_other hwB hnx true] at hwb
    simp only [Except.ok.injEq, Prod.mk.injEq] at hwb
    intro o x' h
    simp only [Except.ok.injEq, Prod.mk.injEq] at h
    obtain ⟨rfl, rfl⟩ := h
    exact ⟨rfl, rfl, rfl, P.top.back, InsideSub.refl _, .inl ⟨rfl, hwb.1.symm, rfl, P.good⟩⟩

/-- **one rule of the chain**, top frame -/
theorem t_rule_L2 (H : NestHyps cfg B src Mtop) (C : TCallees cfg B src Mtop f skipG tokG)
    (S : StepCtx src Mtop m k Mtop v ch rest) (P : TPair cfg B src Mtop m k ch w x)
    (hq0 : CalmFn skip0) (hs0 : SkipHypT skip0) (hg0 : SkipGrowHyp skip0)
    {id : RuleId} (hid : id ∈ cfg.chain) {o1 : Option Nat} {w1 : IState}
    (hwit : silentBumped (runRule cfg skip0 tok0 f0 id) w = .ok (o1, w1))
    (hmono : LookupMono w1.cache m)
    (hsome : ∀ n, o1 = some n → v = k + n) :
    ∀ o x', runRule cfg skipG tokG f id x false = .ok (o, x') →
      RulePost cfg B src ch v k Mtop o1 x o x' := by
  cases id with
  | text => exact t_rule_flat H C S P hid (by simp) hwit hsome
  | newline => exact t_rule_flat H C S P hid (by simp) hwit hsome
  | escape => exact t_rule_flat H C S P hid (by simp) hwit hsome
  | backticks => exact t_rule_back H C S P hid hwit hsome
  | emph mk csw => exact t_rule_emph H C S P hid hwit
  | link => exact t_rule_link C S P hq0 hs0 hg0 hwit hmono hsome
  | image => exact t_rule_image C S P hq0 hs0 hg0 hwit hmono hsome
  | linkEnd => exact t_rule_flat H C S P hid (by simp) hwit hsome
  | autolink => exact t_rule_flat H C S P hid (by simp) hwit hsome
  | entity => exact t_rule_flat H C S P hid (by simp) hwit hsome

/-- **the chain comparison in the top frame** -/
theorem t_chain_L2 (H : NestHyps cfg B src Mtop) (C : TCallees cfg B src Mtop f skipG tokG)
    (S : StepCtx src Mtop m k Mtop v ch rest)
    (hq0 : CalmFn skip0) (hs0 : SkipHypT skip0) (hg0 : SkipGrowHyp skip0) :
    ∀ (rules : List RuleId), (∀ id ∈ rules, id ∈ cfg.chain) →
      ∀ (w x : IState), TPair cfg B src Mtop m k ch w x →
      ∀ o0 w', firstRule (fun id s => silentBumped (runRule cfg skip0 tok0 f0 id) s) rules w
          = .ok (o0, w') →
        LookupMono w'.cache m → (∀ n, o0 = some n → v = k + n) →
        ∀ o x', firstRule (fun id s => runRule cfg skipG tokG f id s false) rules x = .ok (o, x') →
          RulePost cfg B src ch v k Mtop o0 x o x' := by
  intro rules
  induction rules with
  | nil =>
    intro _ w x P o0 w' hwit _ _ o x' h
    simp only [firstRule, Except.ok.injEq, Prod.mk.injEq] at hwit
    unfold firstRule at h
    simp only [Except.ok.injEq, Prod.mk.injEq] at h
    obtain ⟨rfl, rfl⟩ := h
    exact ⟨rfl, rfl, rfl, P.top.back, InsideSub.refl _, .inl ⟨rfl, hwit.1.symm, rfl, P.good⟩⟩
  | cons id rs ih =>
    intro hall w x P o0 w' hwit hmono hsome0 o x' h
    have hid : id ∈ cfg.chain := hall id (by simp)
    have hwlt := P.wlt S
    have hepw : EPc cfg w.src w.pos := by rw [P.wsrc, P.wpos]; exact P.xep
    obtain ⟨hwx, hww⟩ := P.windows S
    unfold firstRule at hwit
    cases hr1 : silentBumped (runRule cfg skip0 tok0 f0 id) w with
    | error e => rw [hr1] at hwit; simp at hwit
    | ok p1 =>
      obtain ⟨o1, w1⟩ := p1
      rw [hr1] at hwit
      obtain ⟨hi1, hs1, hm1, hp1⟩ := wit_step hq0 hs0 f0 id P.wi hwlt hr1
      have hmono1 : LookupMono w1.cache m := by
        cases o1 with
        | some n =>
          simp only [Except.ok.injEq, Prod.mk.injEq] at hwit
          rw [hwit.2]; exact hmono
        | none =>
          simp only at hwit
          exact (wit_chain_grow hq0 hs0 hg0 f0 rs hi1 (by rw [hp1, hm1]; exact hwlt) hwit).mono.trans
            hmono
      have hsome1 : ∀ n, o1 = some n → v = k + n := by
        intro n ho1
        subst ho1
        simp only [Except.ok.injEq, Prod.mk.injEq] at hwit
        exact hsome0 n hwit.1.symm
      have post1 := t_rule_L2 H C S P hq0 hs0 hg0 hid hr1 hmono1 hsome1
      unfold firstRule at h
      cases hG : runRule cfg skipG tokG f id x false with
      | error e => rw [hG] at h; simp at h
      | ok p =>
        obtain ⟨oa, x1⟩ := p
        rw [hG] at h
        have hp1' := post1 oa x1 hG
        cases oa with
        | some n =>
          simp only [Except.ok.injEq, Prod.mk.injEq] at h
          obtain ⟨rfl, rfl⟩ := h
          obtain ⟨a, b, c, d, d', e⟩ := hp1'
          refine ⟨a, b, c, d, d', ?_⟩
          rcases e with ⟨e1, _⟩ | ⟨len, e1, ⟨n', e2⟩, e3⟩ | e
          · simp at e1
          · subst e2
            simp only [Except.ok.injEq, Prod.mk.injEq] at hwit
            exact .inr (.inl ⟨len, e1, ⟨n', hwit.1.symm⟩, e3⟩)
          · exact .inr (.inr e)
        | none =>
          simp only at h
          obtain ⟨a, b, c, d, d', e⟩ := hp1'
          rcases e with ⟨_, e2, e3, e4⟩ | ⟨len, e1, _⟩ | ⟨n, e1, _⟩
          · subst e2
            simp only at hwit
            have P1 : TPair cfg B src Mtop m k ch w1 x1 :=
              ⟨hi1, hs1.trans P.wsrc, hm1.trans P.wmax, hp1.trans P.wpos,
                fun hc => by subst hc; exact (wit_back H.hB P.wnocut hepw hww (P.wB rfl) hr1).1,
                fun hc hbt hi hne => by
                  subst hc
                  rw [hs1, hp1] at hi hne
                  rw [hp1]
                  exact (wit_back H.hB P.wnocut hepw hww (P.wB rfl) hr1).2 _ (P.wifp rfl hbt hi hne),
                P.top.transfer b c a d' d, e4,
                fun a' b' hab => by rw [b]; exact P.memo a' b' (by rw [← a]; exact hab),
                e3.trans P.xpos, a.trans P.xcache,
                fun hbt hi hne => by
                  rw [b, e3] at hi hne
                  rw [e3]; exact d' _ (P.xifp hbt hi hne),
                P.xep⟩
            exact (ih (fun id hid => hall id (List.mem_cons_of_mem _ hid)) w1 x1 P1 o0 w' hwit hmono
              hsome0 o x' h).of_same a b c e3 d'
          · simp at e1
          · simp at e1

end

/-! ## one real step of the top frame at a memo hit -/

/-- how one real step of the TOP frame from position `k` relates to a memo entry `k ↦ v`: it ends at `v`,
    or it is the emphasis rule of the chain taking a run of `n` of its marker `ch` (and then `v = k + 1`:
    the look-ahead token at a marker is the single character) -/
def AgreesTop (cfg : Cfg) (src : List Char) (k Mtop v : Nat) (p' : Nat) : Prop :=
  p' = v ∨ ∃ (ch : Char) (n : Nat), MarkerRun cfg src ch k Mtop n ∧ p' = k + n ∧ v = k + 1

section
variable {cfg : Cfg} {B : List Char → CodePair.Cache → Prop} {src : List Char} {Mtop : Nat}
  {f : Nat} {skipG tokG : IState → Except Panic IState}

/-- **one real step at a memo hit of the top frame** -/
theorem top_agree (H : NestHyps cfg B src Mtop) (C : TCallees cfg B src Mtop f skipG tokG)
    {s : IState} (htop : TopInv cfg B src Mtop s) (hgood : ∃ lo, Good lo s) (hmemo : MemoB s)
    (hl : s.level < cfg.maxNesting) (hlt : s.pos < s.posMax)
    (hifp : RuleId.backticks ∈ cfg.chain → IFP cfg s) {v : Nat}
    (hlk : s.cache.lookup s.pos = some v) (hv : v < Mtop)
    (hnext : ∀ s', tokStep cfg skipG tokG f s = .ok s' → TopInv cfg B src Mtop s') :
    ∀ s', tokStep cfg skipG tokG f s = .ok s' →
      AgreesTop cfg src s.pos Mtop v s'.pos ∧ s'.cache = s.cache ∧
        (RuleId.backticks ∈ cfg.chain → IFP cfg s') := by
  obtain ⟨lo, hg⟩ := hgood
  have hi := hg.linv hmemo
  obtain ⟨wd, hw, hsl, hlen⟩ := hi.window
  rw [htop.hsrc, htop.hmax] at hsl
  cases wd with
  | nil => simp only [byteLen] at hlen; omega
  | cons ch rest =>
  rcases htop.just _ _ (lookup_mem hlk) with hvM | hJ
  · omega
  have S : StepCtx src Mtop s.cache s.pos Mtop v ch rest :=
    ⟨hsl, hlk, by omega, by rw [← htop.hmax]; exact hlt⟩
  obtain ⟨skip0, tok0, f0, st0, o0, w', hq0, hs0, hg0, hi0, hsrc0, hmax0, hpos0, hB0, hifp0, hfr, hmono,
    hn0, hs0'⟩ := just_chain hJ hsl
  have P : TPair cfg B src Mtop s.cache s.pos ch st0 s :=
    ⟨hi0, hsrc0, hmax0, hpos0, fun _ => hB0, fun _ => hifp0, htop, ⟨lo, hg⟩, hmemo, rfl, rfl, hifp,
      hJ.ep⟩
  have post1 := t_chain_L2 H C S hq0 hs0 hg0 cfg.chain (fun _ h => h) st0 s P o0 w' hfr hmono hs0'
  intro s' h
  have hT' := hnext s' h
  have key : s'.cache = s.cache ∧ AgreesTop cfg src s.pos Mtop v s'.pos ∧
      (s'.pos = v ∨ (RuleId.backticks ∈ cfg.chain → ¬ Interior src s'.pos)) := by
    unfold tokStep at h
    simp only [if_pos hl] at h
    cases hG : firstRule (fun id s => runRule cfg skipG tokG f id s false) cfg.chain s with
    | error e => rw [hG] at h; simp at h
    | ok p =>
      obtain ⟨o, x'⟩ := p
      rw [hG] at h
      obtain ⟨a, b, c, d, d', e⟩ := post1 o x' hG
      rcases e with ⟨e1, e2, e3, _⟩ | ⟨len, e1, _, e3⟩ | ⟨n, e1, e2, e3⟩
      · subst e1
        simp only at h
        obtain ⟨c', hfc, hp', hc', hb', hs', _, _⟩ := fallback_keeps h
        obtain ⟨hwx, _⟩ := P.windows S
        have hwx' : x'.window = .ok (ch :: rest) := by
          rw [← hwx]; exact window_congr b e3 c
        unfold firstChar at hfc
        rw [hwx'] at hfc
        simp only [liftR, Except.ok.injEq] at hfc
        subst hfc
        have hv' : v = s.pos + ch.utf8Size := hn0 e2
        have hpv : s'.pos = v := by rw [hp', e3, ← hv']
        exact ⟨hc'.trans a, .inl hpv, .inl hpv⟩
      · subst e1
        simp only [Except.ok.injEq] at h
        subst h
        exact ⟨a, .inl e3, .inl e3⟩
      · subst e1
        simp only [Except.ok.injEq] at h
        subst h
        have hunit : v = s.pos + 1 := by
          obtain ⟨⟨csw, hcsw⟩, _⟩ := e3
          obtain ⟨sk, tk, fk, stk, stk', q1, q2, _, q4, q5, q6, q7, _, _, _, q11, q12, _⟩ := hJ
          have hwk : stk.window = .ok (ch :: rest) := by
            unfold IState.window
            rw [q5, q7, q6, hsl]
            rfl
          have := (skipStep_unit_at_marker H.coh q1 q2 fk stk q4 hcsw hwk stk' q11).1
          omega
        refine ⟨a, .inr ⟨ch, n, e3, ?_, hunit⟩, .inr ?_⟩
        · show x'.pos + n = s.pos + n
          rw [e2]
        · intro hbt
          show ¬ Interior src (x'.pos + n)
          rw [e2]
          exact not_interior_after_run H.coh hbt e3
  obtain ⟨k1, k2, k3⟩ := key
  refine ⟨k2, k1, ?_⟩
  intro hbt
  rcases k3 with hpv | hno
  · exact ifp_of_entry H.hend hT' hbt (by rw [k1, hpv]; exact lookup_mem hlk)
  · intro hint _
    rw [hT'.hsrc] at hint
    exact absurd hint (hno hbt)

end

end MdIt.Inline.ES.C16Doc
