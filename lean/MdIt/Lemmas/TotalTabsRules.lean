/-
  Helper development for `Props/TotalTabs.lean` (C01 for ALL sources, split tabs included): the flat
  rules do not panic from a `GoodT` state (per-line table only `C05T.MapT`).

  Copies of `trailingTextPop_tail_total`, `inline_rule_progress_newline` (Lemmas/InlineRules.lean),
  `Good.trailOK`, `flat_rule_step`, `FlatStep.good` (Lemmas/InlineNoPanic.lean) and `ruleEmph_total`
  (Lemmas/InlineEmphTotal.lean); the two places where `MapOK` was used (`tailSpaces ≤ map_end` for the
  newline rule, `rx + run ≤ ry` for the emphasis-marker rule) use the SHIFT argument of
  Lemmas/C05TabsRanges2.lean (`tv_newline_core`, `tv_ruleEmph`) instead.
-/
import MdIt.Lemmas.TotalTabsDef

namespace MdIt.Inline.TT
open MdIt.Inline
open MdIt.InlineOps (Srcmap getSourcePosFor getMap byteLen slice)
open MdIt.C05T (MapT RIv tv_RInv tv_NlAct tv_StepRI tv_StepOK tv_RangesFn SolidMarkers)
open MdIt.C05R (Cut)
open MdIt.C05 (WFMap byteLen_append slice_ok_iff)

/-! ## the newline rule -/

/-- `trailing_text_pop(tail)` does not panic when the blanks cut off a LONGER trailing text lie
    before its source end (`trailingTextPop_tail_total` with the weaker premise) -/
theorem trailingTextPop_tail_total_w (cs : List Node)
    (h : ∀ init last, cs = init ++ [last] → last.isText = true →
      ∀ a b, last.range = some (a, b) → tailSpaces last.content < byteLen last.content →
        tailSpaces last.content ≤ b) :
    ∃ out, trailingTextPop cs (tailSpaces (trailingTextGet cs)) = .ok out := by
  unfold trailingTextPop trailingTextGet
  rcases popLast_spec cs with ⟨hp, _⟩ | ⟨init, last, hp, hcs⟩
  · rw [hp]; simp [tailSpaces]
  · rw [hp]
    simp only
    by_cases ht : last.isText = true
    · simp only [ht, if_true, Bool.not_true, Bool.false_eq_true, if_false]
      split
      · exact ⟨_, rfl⟩
      · obtain ⟨pre, hpre⟩ := tailSpaces_split last.content
        have hbl : byteLen last.content = byteLen pre + tailSpaces last.content := by
          conv => lhs; rw [hpre]
          rw [byteLen_append, byteLen_replicate_space]
        split
        · exact ⟨_, rfl⟩
        · next hne =>
          rw [if_neg (by omega)]
          have htr : liftOps (InlineOps.truncate last.content (byteLen last.content - tailSpaces last.content))
              = .ok pre := by
            have : byteLen last.content - tailSpaces last.content = byteLen pre := by omega
            rw [this]
            unfold InlineOps.truncate
            conv => lhs; rw [hpre]
            rw [C05.splitAtByte_append]; rfl
          rw [htr]
          simp only
          split
          · exact ⟨_, rfl⟩
          · next a b hr =>
            have := h init last hcs ht a b hr (by omega)
            rw [if_neg (by omega)]; exact ⟨_, rfl⟩
    · simp only [ht, Bool.false_eq_true, if_false]
      simp [tailSpaces]

/-- the newline rule does not panic (`inline_rule_progress_newline` under `TrailOKw`) -/
theorem newline_total_w {st : IState} (hi : InlineInv st) (silent : Bool)
    (ht : silent = false → TrailOKw st) :
    ∃ o st', ruleNewline st silent = .ok (o, st') ∧ Advances st o := by
  obtain ⟨pre, w, post, hsrc, hpre, hlen, hw, hne⟩ := window_ok hi
  cases w with
  | nil => exact absurd rfl hne
  | cons c rest =>
    have hsl := window_eq hw
    -- the extent, when the window starts with a line feed
    have hext : c = '\n' → st.pos + newlineLen rest ≤ st.posMax ∧ Boundary st.src (st.pos + newlineLen rest) := by
      intro hc
      subst hc
      have hsplit : '\n' :: rest = ('\n' :: rest.takeWhile isSpTab) ++ rest.dropWhile isSpTab := by
        simp [List.takeWhile_append_dropWhile]
      have hbl : byteLen ('\n' :: rest.takeWhile isSpTab) = newlineLen rest := by
        simp only [byteLen, byteLen_takeWhile_spTab, newlineLen]
        have : ('\n' : Char).utf8Size = 1 := by decide
        omega
      constructor
      · rw [← hlen, hsplit, byteLen_append, hbl]; omega
      · rw [← hbl]; exact boundary_in_slice (by rw [← hsplit]; exact hsl)
    have hadv : ∀ (o : Option Nat), (o = if c ≠ '\n' then none else some (newlineLen rest)) → Advances st o := by
      intro o ho len hl
      subst ho
      split at hl
      · simp at hl
      · next hc =>
        simp only [Option.some.injEq] at hl; subst hl
        have := hext (by simpa using hc)
        exact ⟨by unfold newlineLen; omega, this.1, this.2⟩
    have hex : ∃ o st', ruleNewline st silent = .ok (o, st') := by
      unfold ruleNewline
      rw [hw]
      simp only
      split
      · exact ⟨_, _, rfl⟩
      · split
        · exact ⟨_, _, rfl⟩
        · next hs =>
          have hto := ht (by simpa using hs)
          obtain ⟨out, hout⟩ := trailingTextPop_tail_total_w st.children
            (fun init last h1 h2 a b hr hlt => (hto init last h1 h2).2 a b hr hlt)
          rw [hout]
          simp only
          have hle : tailSpaces (trailingTextGet st.children) ≤ st.pos := by
            unfold trailingTextGet
            rcases popLast_spec st.children with ⟨hp, _⟩ | ⟨init, last, hp, hcs⟩
            · rw [hp]; simp [tailSpaces]
            · rw [hp]; simp only
              by_cases htx : last.isText = true
              · simp only [htx, if_true]; exact (hto init last hcs htx).1
              · simp [htx, tailSpaces]
          rw [if_neg (by omega)]
          obtain ⟨x, y, hm, _, _⟩ := getMap_ok (st := st) hi.wf
            (a := st.pos - tailSpaces (trailingTextGet st.children))
            (b := st.pos + 1 + (List.takeWhile isSpTab rest).length) (by omega)
          rw [hm]
          exact ⟨_, _, rfl⟩
    obtain ⟨o, st', h⟩ := hex
    exact ⟨o, st', h, hadv o (ruleNewline_verdict hw h)⟩

/-- in a frame where the newline rule is active, the trailing blanks of a trailing text stand behind a
    solid character of the same line: the translation is a shift there (`MapT.shift`), so the source
    end of the text lies at least `tailSpaces` behind the source offset of that character -/
theorem trailOKw_of {A : Prop} {lo : Nat} {st : IState} (hmap : MapT st.src st.srcmap)
    (hri : tv_RInv A lo st) (hA : A) : TrailOKw st := by
  have h : (MapT st.src st.srcmap ∧ tv_RInv A lo st) := ⟨hmap, hri⟩
  intro init last hcs hlt
  obtain ⟨_, start, xs, xe, hsl, _, hxe, hrange⟩ := h.2.ri.trail init last hcs hlt
  obtain ⟨_, _, hse⟩ := slice_boundaries hsl
  have h1 := tailSpaces_le last.content
  refine ⟨by omega, ?_⟩
  intro a b hr hlt2
  rw [hrange] at hr; simp only [Option.some.injEq, Prod.mk.injEq] at hr
  obtain ⟨_, rfl⟩ := hr
  obtain ⟨pre, hpre⟩ := tailSpaces_split last.content
  have hbl : byteLen last.content = byteLen pre + tailSpaces last.content := by
    conv => lhs; rw [hpre]
    rw [byteLen_append, byteLen_replicate_space]
  have hpne : pre ≠ [] := by
    intro hp; subst hp; simp only [byteLen, Nat.zero_add] at hbl; omega
  obtain ⟨pre0, ch0, hpre0⟩ : ∃ pre0 ch0, pre = pre0 ++ [ch0] := by
    rcases List.eq_nil_or_concat pre with h' | ⟨a, b, h'⟩
    · exact absurd h' hpne
    · exact ⟨a, b, by rw [h', List.concat_eq_append]⟩
  have hcont : last.content
      = pre0 ++ [ch0] ++ List.replicate (tailSpaces last.content) ' ' := by
    rw [← hpre0]; exact hpre
  have hnsp : ch0 ≠ ' ' := C05T.tv_tailSpaces_max hcont rfl
  have hnlf : ch0 ≠ '\n' := by
    intro hc
    apply h.2.nolf hA init last hcs hlt
    rw [hcont, hc]; simp
  have hbp : byteLen pre = byteLen pre0 + ch0.utf8Size := by
    rw [hpre0, byteLen_append]; simp [byteLen]
  obtain ⟨p, q, e, l1, l2⟩ := (slice_ok_iff _ _ _ _).mp hsl
  have hcut : Cut st.src (st.pos - tailSpaces last.content - ch0.utf8Size) st.pos
      (ch0 :: List.replicate (tailSpaces last.content) ' ') := by
    refine ⟨p ++ pre0, q, ?_, ?_, ?_⟩
    · rw [e]; conv => lhs; rw [hcont]
      simp
    · rw [byteLen_append]; omega
    · simp only [byteLen]; rw [byteLen_replicate_space]; omega
  obtain ⟨x0, hx0⟩ := C05.translate_total st.srcmap h.1.wf (st.pos - tailSpaces last.content)
  have := h.1.shift _ _ ch0 _ (st.pos - tailSpaces last.content) st.pos x0 xe hcut hnsp hnlf
    (space_not_lf _) (by omega) (by omega) (Nat.le_refl _) hx0 hxe
  omega

theorem GoodT.trailOKw {cfg : Cfg} {lo : Nat} {st : IState} (h : GoodT cfg lo st)
    (hA : C05T.tv_NlAct cfg st.level) : TrailOKw st := trailOKw_of h.map h.ri hA

end MdIt.Inline.TT
