/-
  C10 with the sourcepos plugin, block simulation part 3b: the block quote in lock step on `LX`-related
  states — a copy of `MdIt/Lemmas/C10DocQuote.lean` for an offset relation that is only closed under shifts
  inside a line (`MdIt/Lemmas/C10SourceposSimCore.lean`); the proofs are unchanged except that
  `get_map` / `get_lines` no longer take a `Shift ρ`.
-/
import MdIt.Lemmas.C10SourceposSimCore

namespace MdIt.Block.LX
open MdIt.Block.LE
open MdIt.Lines (LineOffset)
variable {ρ : Nat → Nat → Prop} {G : Geo}

/-! (the small helpers of the `LE` file are reused from there) -/

/-! ## `bqRewrite` -/

theorem bqRewrite_sim {o₁ o₂ : LineOffset} (he : ERel ρ G.src₁ G.src₂ o₁ o₂) (rest : List Char) :
    FRel (fun r₁ r₂ => ERel ρ G.src₁ G.src₂ r₁.1 r₂.1 ∧ r₁.2 = r₂.2 ∧ geom r₁.1 = geom o₁ ∧ geom r₂.1 = geom o₂)
      (bqRewrite G.src₁ o₁ rest) (bqRewrite G.src₂ o₂ rest) := by
  obtain ⟨L, hL1, hL2, hl1, hl2⟩ := he.line
  have hn := he.nums
  unfold bqRewrite
  rw [hL1, hL2]
  simp only [liftL, ok_bind]
  rw [bq_psub_eq (by omega : o₁.lineStart ≤ o₁.firstNonspace + 1),
    bq_psub_eq (by omega : o₂.lineStart ≤ o₂.firstNonspace + 1)]
  simp only [ok_bind]
  rw [show o₂.firstNonspace + 1 - o₂.lineStart = o₁.firstNonspace + 1 - o₁.lineStart by omega]
  refine frel_bind_same _ ?_
  intro p hp
  obtain ⟨indAfter, fn⟩ := p
  have hb := (Lines.find_indent_bounds _ _ _ _ (bq_liftL_ok hp)).2.2.1
  simp only
  rw [bq_psub_eq (by omega : o₁.lineStart ≤ o₁.lineEnd), bq_psub_eq (by omega : o₂.lineStart ≤ o₂.lineEnd)]
  simp only [ok_bind]
  rw [show o₂.lineEnd - o₂.lineStart = o₁.lineEnd - o₁.lineStart by omega]
  refine frel_bind_same _ ?_
  intro ia _
  exact frel_pure ⟨he.rewrite hL1 hb _, rfl, rfl, rfl⟩

/-! ## the saved entries -/

/-- the geometry of a table entry is the one recorded in `G` -/
theorem SRel.geoAt₁ {s₁ s₂ : BState} (S : SRel ρ G s₁ s₂) {n : Nat} {o : LineOffset}
    (h : s₁.offs[n]? = some o) : G.T₁[n]? = some (geom o) := by
  rw [← S.geo₁, List.getElem?_map, h]; rfl

theorem SRel.geoAt₂ {s₁ s₂ : BState} (S : SRel ρ G s₁ s₂) {n : Nat} {o : LineOffset}
    (h : s₂.offs[n]? = some o) : G.T₂[n]? = some (geom o) := by
  rw [← S.geo₂, List.getElem?_map, h]; rfl

/-- the entries the block-quote scan saved (`old_line_offsets`), from table index `i` on: pairwise
    related, and each has the geometry of the table index it will be written back to -/
def OldRel (ρ : Nat → Nat → Prop) (G : Geo) : Nat → List LineOffset → List LineOffset → Prop
  | _, [], [] => True
  | i, a :: r₁, b :: r₂ =>
    ERel ρ G.src₁ G.src₂ a b ∧ G.T₁[i]? = some (geom a) ∧ G.T₂[i]? = some (geom b) ∧ OldRel ρ G (i + 1) r₁ r₂
  | _, [], _ :: _ => False
  | _, _ :: _, [] => False

theorem OldRel.nil (i : Nat) : OldRel ρ G i [] [] := by simp only [OldRel]

theorem OldRel.length : ∀ {i : Nat} {old₁ old₂ : List LineOffset}, OldRel ρ G i old₁ old₂ → old₂.length = old₁.length
  | _, [], [], _ => rfl
  | _, [], _ :: _, h => by simp only [OldRel] at h
  | _, _ :: _, [], h => by simp only [OldRel] at h
  | _, _ :: _, _ :: _, h => by
    simp only [OldRel] at h
    simp [OldRel.length h.2.2.2]

theorem OldRel.push : ∀ {i : Nat} {old₁ old₂ : List LineOffset} {a b : LineOffset}, OldRel ρ G i old₁ old₂ →
    ERel ρ G.src₁ G.src₂ a b → G.T₁[i + old₁.length]? = some (geom a) → G.T₂[i + old₁.length]? = some (geom b) →
    OldRel ρ G i (old₁ ++ [a]) (old₂ ++ [b])
  | _, [], [], _, _, _, he, h1, h2 => by
    simp only [List.nil_append, OldRel]
    exact ⟨he, by simpa using h1, by simpa using h2, trivial⟩
  | _, [], _ :: _, _, _, h, _, _, _ => by simp only [OldRel] at h
  | _, _ :: _, [], _, _, h, _, _, _ => by simp only [OldRel] at h
  | i, x :: r₁, y :: r₂, _, _, h, he, h1, h2 => by
    simp only [OldRel] at h
    simp only [List.cons_append, OldRel]
    refine ⟨h.1, h.2.1, h.2.2.1, OldRel.push h.2.2.2 he ?_ ?_⟩
    · rw [← h1]; congr 1; simp; omega
    · rw [← h2]; congr 1; simp; omega

/-! ## `restoreOffs` -/

/-- writing the saved entries back keeps the table relation -/
theorem restoreOffs_sim : ∀ (old₁ old₂ : List LineOffset) (i : Nat) (s₁ s₂ : BState), SRel ρ G s₁ s₂ →
    OldRel ρ G i old₁ old₂ →
    FRel (fun a b => SRel ρ G { s₁ with offs := a } { s₂ with offs := b })
      (restoreOffs s₁.offs i old₁) (restoreOffs s₂.offs i old₂)
  | [], [], _, _, _, S, _ => by
    simp only [restoreOffs]
    exact frel_ok S
  | [], _ :: _, _, _, _, _, h => by simp only [OldRel] at h
  | _ :: _, [], _, _, _, _, h => by simp only [OldRel] at h
  | a :: r₁, b :: r₂, i, s₁, s₂, S, h => by
    simp only [OldRel] at h
    obtain ⟨he, hg1, hg2, hr⟩ := h
    simp only [restoreOffs]
    have hs := S.setOff i he
      (fun o ho => by have := S.geoAt₁ ho; rw [hg1] at this; exact Option.some.inj this)
      (fun o ho => by have := S.geoAt₂ ho; rw [hg2] at this; exact Option.some.inj this)
    unfold BState.setOff at hs
    by_cases hi : i < s₁.offs.length
    · have hi2 : i < s₂.offs.length := by rw [S.len]; exact hi
      rw [if_pos hi, if_pos hi2] at hs ⊢
      obtain ⟨t, ht, S'⟩ := frel_ok_left hs
      cases ht
      exact restoreOffs_sim r₁ r₂ (i + 1) _ _ S' hr
    · have hi2 : ¬ i < s₂.offs.length := by rw [S.len]; exact hi
      rw [if_neg hi, if_neg hi2]
      exact frel_err _

/-! ## `bqScan` -/

theorem bqScan_sim {test₁ test₂ : Test} (TS : TestSim ρ G test₁ test₂) (start : Nat) :
    ∀ (f₁ f₂ : Nat), f₁ ≤ f₂ → ∀ (s₁ s₂ : BState) (nextLine : Nat) (old₁ old₂ : List LineOffset) (lastEmpty : Bool),
      SRel ρ G s₁ s₂ → OldRel ρ G start old₁ old₂ → nextLine = start + old₁.length →
      FRel (fun r₁ r₂ => r₁.1 = r₂.1 ∧ OldRel ρ G start r₁.2.1 r₂.2.1 ∧ SRel ρ G r₁.2.2 r₂.2.2)
        (bqScan test₁ f₁ s₁ nextLine old₁ lastEmpty) (bqScan test₂ f₂ s₂ nextLine old₂ lastEmpty) := by
  intro f₁
  induction f₁ with
  | zero => intro f₂ _ s₁ s₂ nextLine old₁ old₂ lastEmpty _ _ _; exact frel_fuel _
  | succ f₁ ih =>
    intro f₂ hf s₁ s₂ nextLine old₁ old₂ lastEmpty S O hnl
    obtain ⟨f₂, rfl⟩ : ∃ k, f₂ = k + 1 := ⟨f₂ - 1, by omega⟩
    simp only [bqScan]
    rw [S.lineMax, S.lineIndent, S.getLine]
    split
    · exact frel_ok ⟨rfl, O, S⟩
    refine frel_bind_same _ ?_
    intro ind _
    refine frel_bind_same _ ?_
    intro line _
    cases line with
    | nil => exact frel_ok ⟨rfl, O, S⟩
    | cons c rest =>
      simp only
      split
      · -- a `>` line
        refine frel_bind_eq (S.off nextLine) ?_
        intro o₁ o₂ ho1 ho2 he
        have hT1 := S.geoAt₁ (off_ok ho1)
        have hT2 := S.geoAt₂ (off_ok ho2)
        rw [S.src₁, S.src₂]
        refine frel_bind (bqRewrite_sim he rest) ?_
        rintro ⟨o₁', le₁⟩ ⟨o₂', le₂⟩ ⟨hE, hle, hg1, hg2⟩
        simp only at hE hle hg1 hg2 ⊢
        subst hle
        refine frel_bind (S.setOff nextLine hE ?_ ?_) ?_
        · intro o ho; rw [off_ok ho1] at ho; cases ho; exact hg1
        · intro o ho; rw [off_ok ho2] at ho; cases ho; exact hg2
        intro t₁ t₂ S'
        refine ih f₂ (by omega) t₁ t₂ (nextLine + 1) _ _ le₁ S' (O.push he ?_ ?_) (by simp; omega)
        · rw [← hnl]; exact hT1
        · rw [← hnl]; exact hT2
      · split
        · exact frel_ok ⟨rfl, O, S⟩
        refine frel_bind (TS _ _ (by srelx_fields S; exact S.children)) ?_
        rintro ⟨b₁, t₁⟩ ⟨b₂, t₂⟩ ⟨hb, S'⟩
        simp only at hb S' ⊢
        subst hb
        rw [S'.blkIndent]
        split
        · split
          · refine frel_bind_eq (S'.off nextLine) ?_
            intro o₁ o₂ ho1 ho2 he
            have hT1 := S'.geoAt₁ (off_ok ho1)
            have hT2 := S'.geoAt₂ (off_ok ho2)
            rw [he.indent]
            refine frel_bind (S'.setOff nextLine (he.setIndent _) ?_ ?_) ?_
            · intro o ho; rw [off_ok ho1] at ho; cases ho; rfl
            · intro o ho; rw [off_ok ho2] at ho; cases ho; rfl
            intro u₁ u₂ S''
            refine frel_ok ⟨rfl, O.push he ?_ ?_, S''⟩
            · rw [← hnl]; exact hT1
            · rw [← hnl]; exact hT2
          · exact frel_ok ⟨rfl, O, S'⟩
        · refine frel_bind_eq (S'.off nextLine) ?_
          intro o₁ o₂ ho1 ho2 he
          have hT1 := S'.geoAt₁ (off_ok ho1)
          have hT2 := S'.geoAt₂ (off_ok ho2)
          refine frel_bind (S'.setOff nextLine (he.setIndent _) ?_ ?_) ?_
          · intro o ho; rw [off_ok ho1] at ho; cases ho; rfl
          · intro o ho; rw [off_ok ho2] at ho; cases ho; rfl
          intro u₁ u₂ S''
          refine ih f₂ (by omega) u₁ u₂ (nextLine + 1) _ _ lastEmpty S'' (O.push he ?_ ?_) (by simp; omega)
          · rw [← hnl]; exact hT1
          · rw [← hnl]; exact hT2

/-! ## the rule -/

theorem blockquote_sim (_C : Ctx ρ G) {tok₁ tok₂ : Tok} (TK : TokSim ρ G tok₁ tok₂) {test₁ test₂ : Test}
    (TS : TestSim ρ G test₁ test₂) {f₁ f₂ : Nat} (hf : f₁ ≤ f₂) {s₁ s₂ : BState} (S : SRel ρ G s₁ s₂) (silent : Bool) :
    FRel (ResRel ρ G) (blockquoteRule tok₁ test₁ f₁ s₁ silent) (blockquoteRule tok₂ test₂ f₂ s₂ silent) := by
  unfold blockquoteRule
  rw [S.line, S.lineIndent, S.getLine]
  refine frel_bind_same _ ?_
  intro ind _
  split
  · exact frel_pure ⟨rfl, S⟩
  refine frel_bind_same _ ?_
  intro line _
  split
  · exact frel_pure ⟨rfl, S⟩
  split
  · exact frel_pure ⟨rfl, S⟩
  refine frel_bind (bqScan_sim TS s₁.line f₁ f₂ hf s₁ s₂ s₁.line [] [] false S (OldRel.nil _) (by simp)) ?_
  rintro ⟨nl₁, old₁, t₁⟩ ⟨nl₂, old₂, t₂⟩ ⟨hnl, O, S'⟩
  simp only at hnl O S' ⊢
  subst hnl
  refine frel_bind (TK _ _ ?_) ?_
  · srelx_fields S'
    exact NRelL.nil
  intro u₁ u₂ S''
  rw [S''.level, S''.line]
  refine frel_bind_same _ ?_
  intro lvl _
  have W : SRel ρ G { u₁ with level := lvl, lineMax := t₁.lineMax, blkIndent := t₁.blkIndent }
      { u₂ with level := lvl, lineMax := t₂.lineMax, blkIndent := t₂.blkIndent, line := u₁.line } := by
    srelx_fields S''
    · exact S'.blkIndent
    · exact S'.lineMax
    · exact S''.children
  have R := restoreOffs_sim old₁ old₂ s₁.line _ _ W O
  refine frel_bind R ?_
  intro a b X
  dsimp only at X
  refine frel_bind_same _ ?_
  intro e _
  refine frel_bind (X.getMap _ _) ?_
  intro r₁ r₂ hr
  refine frel_pure ⟨rfl, ?_⟩
  have hk : KRel ρ u₁.nodeKind u₂.nodeKind := by rw [S''.nodeKind]; exact KRel.refl _
  exact SRel.upd X ⟨rfl, rfl⟩ ⟨rfl, rfl⟩ S'.blkIndent rfl S'.lineMax S''.tight S''.listIndent rfl S'.nodeKind S''.refs
    (S'.children.push (NRel.mk hk hr S''.children))

end MdIt.Block.LX
