/-
  Helper development for `Props/MemoSafe.lean`, fourth part: the whole document, for every coherent chain,
  on documents without backslash-backtick-backtick (multi-backtick code spans allowed).
-/
import MdIt.Lemmas.MemoSafeLamDoc
import MdIt.Lemmas.MemoSafeLamCSFinal

namespace MdIt.Pipeline
open MdIt

/-- the content of a placeholder is a faithful excerpt of the document: a backslash-backtick-backtick of
    the content is one of the source -/
theorem noEscTickTick_of_pfth {src c : List Char} {m : InlineOps.Srcmap} (hf : C05R.PFth src c m)
    (hw : C05.WFMap m) (hne : Inline.CS.NoEscTickTick src) : Inline.CS.NoEscTickTick c := by
  rintro ⟨s, t, e⟩
  obtain ⟨a, ha⟩ := C05.translate_total m hw (InlineOps.byteLen s)
  obtain ⟨b, hb⟩ := C05.translate_total m hw (InlineOps.byteLen s + InlineOps.byteLen ['\\', '`', '`'])
  have hcut : C05R.Cut c (InlineOps.byteLen s)
      (InlineOps.byteLen s + InlineOps.byteLen ['\\', '`', '`']) ['\\', '`', '`'] :=
    ⟨s, t, e.symm, rfl, rfl⟩
  obtain ⟨p, q, hsrc, _, _⟩ := hf.copy _ _ _ a b hcut (by decide) ha hb
  exact hne ⟨p, q, hsrc.symm⟩

/-- no placeholder content of the document has a backslash-backtick-backtick -/
def DocNoEscTickTick (cfg : DocCfg) (src : List Char) : Prop :=
  ∀ root refs, Block.parseBlocks cfg.blockCfg src = .ok (root, refs) →
    Block.AllInl (fun c _ => Inline.CS.NoEscTickTick c) root

theorem docNoEscTickTick_of_src (cfg : DocCfg) (src : List Char)
    (hsmall : 4 * Lines.byteLen src + 8 < 2147483648) (hpara : cfg.hasPara = true)
    (hnv : NoSplitTab cfg src) (hne : Inline.CS.NoEscTickTick src) : DocNoEscTickTick cfg src := by
  intro root refs hb
  obtain ⟨hr, hg⟩ := Block.parseBlocks_geo3 (cfg := cfg.blockCfg) hpara (Block.inlSpec3_pfullV src) hsmall hb
  have hall : Block.AllInl (fun c m => ∃ a b, Block.PFullV src c m a b) root :=
    hg.allInl (fun c m a b h => ⟨a, b, h⟩) (by
      intro c m _ hnone
      rw [hr] at hnone
      cases hnone)
  exact allInl_and (fun c m ⟨_, _, h⟩ hv => noEscTickTick_of_pfth (h.2.1 hv) h.1.1 hne) hall
    (hnv root refs hb)

/-- **C01, whole pipeline, EVERY coherent chain**, for documents whose paragraphs have no
    backslash-backtick-backtick: `md.parse` returns a tree and both renderers return a string (no split
    tab, `i32` size bound, paragraph rule). -/
theorem doc_total_noesctick (cfg : DocCfg) (src : List Char)
    (hc : Inline.ChainCoherent (cfg.inlineCfg []) = true)
    (hone : cfg.inlineChain.count .link ≤ 1 ∧ cfg.inlineChain.count .image ≤ 1)
    (hsmall : 4 * Lines.byteLen src + 8 < 2147483648) (hpara : cfg.hasPara = true)
    (hnv : NoSplitTab cfg src) (hne : DocNoEscTickTick cfg src) :
    (∃ t, parseDoc cfg src = .ok t) ∧ ∀ x, ∃ html, renderDoc x cfg src = .ok html := by
  apply doc_total_of_inline
  intro root refs hb
  have hmap := doc_tables_mapOK cfg src hsmall hpara hnv hb
  have hall : Block.AllInl (fun c m => ∃ cs, Inline.parseInline (cfg.inlineCfg refs) c m = .ok cs) root :=
    allInl_and (fun c m hm hd => Inline.CS.parseInline_total_noesc (cfg.inlineCfg refs) hc hone hm hd)
      hmap (hne root refs hb)
  exact (placeholders_of_allInl _ (sizeOf root)).1 root (Nat.le_refl _) hall
    (Block.parseBlocks_inlNoRange hb)

/-- … with hypotheses on the SOURCE only: no tab, no backslash-backtick-backtick, the size bound -/
theorem doc_total_src_noesc (cfg : DocCfg) (src : List Char)
    (hc : Inline.ChainCoherent (cfg.inlineCfg []) = true)
    (hone : cfg.inlineChain.count .link ≤ 1 ∧ cfg.inlineChain.count .image ≤ 1)
    (hsmall : 4 * Lines.byteLen src + 8 < 2147483648) (hpara : cfg.hasPara = true)
    (htab : '\t' ∉ src) (hne : Inline.CS.NoEscTickTick src) :
    (∃ t, parseDoc cfg src = .ok t) ∧ ∀ x, ∃ html, renderDoc x cfg src = .ok html :=
  doc_total_noesctick cfg src hc hone hsmall hpara (noSplitTab_of_tabFree cfg src hsmall hpara htab)
    (docNoEscTickTick_of_src cfg src hsmall hpara (noSplitTab_of_tabFree cfg src hsmall hpara htab) hne)

end MdIt.Pipeline
