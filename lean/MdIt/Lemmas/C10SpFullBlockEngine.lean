/-
  Block ranges start at a byte of their own, part 4: the chain, the tokenizer loop and the fuel
  induction in lock step on `LX.Y`-related states (copy of `MdIt/Lemmas/C10SourceposSimEngine.lean`).
  New: the rule runner is only asked to simulate real-mode calls on a `Live` state (`RunSim`); the
  chain keeps the state while the rules answer `false` (`RunSpec.false_same`), and `tokLoop` calls the
  chain behind `skip_empty_lines` on a line below `line_max` (`skipEmpty_live`).
-/
import MdIt.Lemmas.C10SpFullBlockPara
import MdIt.Lemmas.C10SpFullBlockQuote
import MdIt.Lemmas.C10SpFullBlockList

namespace MdIt.Block.LX.Y
open MdIt.Block.LE
open MdIt.Lines (LineOffset)
variable {τ : Nat × Nat → Nat × Nat → Prop} {ρ : Nat → Nat → Prop} {G : Geo}


theorem runRule_sim (cfg : Cfg) (C : Ctx τ ρ G) {tok₁ tok₂ : Tok} (TK : TokSim τ ρ G tok₁ tok₂) (hk : TokSpec tok₁)
    {test₁ test₂ : Test} (TS : TestSim τ ρ G test₁ test₂) (hp : TestPure test₁) {f₁ f₂ : Nat} (hf : f₁ ≤ f₂)
    (r : RuleId) {s₁ s₂ : BState} (S : SRel τ ρ G s₁ s₂) (silent : Bool) (hne : silent = false → Live s₁) :
    FRel (ResRel τ ρ G) (runRule cfg tok₁ test₁ f₁ r s₁ silent) (runRule cfg tok₂ test₂ f₂ r s₂ silent) := by
  cases r <;> simp only [runRule]
  · exact code_sim C S silent hne
  · exact fence_sim C S silent hne
  · exact blockquote_sim C TK hk TS hp hf S silent hne
  · exact hr_sim C S silent hne
  · exact list_sim C TK hk TS hp hf S silent hne
  · exact reference_sim cfg C TS hf S silent
  · exact heading_sim C S silent hne
  · exact lheading_sim C TS hp hf S silent hne
  · exact paragraph_sim C TS hp hf S silent hne

/-- what `runChain_sim` needs of the two rule runners -/
def RunSim (τ : Nat × Nat → Nat × Nat → Prop) (ρ : Nat → Nat → Prop) (G : Geo) (run₁ run₂ : RuleId → BState → Bool → Res) : Prop :=
  ∀ r s₁ s₂ b, SRel τ ρ G s₁ s₂ → (b = false → Live s₁) → FRel (ResRel τ ρ G) (run₁ r s₁ b) (run₂ r s₂ b)

theorem runChain_sim {run₁ run₂ : RuleId → BState → Bool → Res} (R : RunSim τ ρ G run₁ run₂) (hr : RunSpec run₁) :
    ∀ (chain : List RuleId) (s₁ s₂ : BState) (b : Bool), SRel τ ρ G s₁ s₂ → (b = false → Live s₁) →
      FRel (ResRel τ ρ G) (runChain run₁ chain s₁ b) (runChain run₂ chain s₂ b) := by
  intro chain
  induction chain with
  | nil => intro s₁ s₂ b S _; exact frel_ok ⟨rfl, S⟩
  | cons r rs ih =>
    intro s₁ s₂ b S hne
    simp only [runChain]
    rcases R r s₁ s₂ b S hne with h | ⟨x, y, h1, h2, hv, hs⟩ | ⟨e, h1, h2⟩
    · rw [h]; exact frel_fuel _
    · rw [h1, h2]
      obtain ⟨v₁, t₁⟩ := x
      obtain ⟨v₂, t₂⟩ := y
      simp only at hv hs
      subst hv
      cases v₁ with
      | true => exact frel_ok ⟨rfl, hs⟩
      | false =>
        refine ih t₁ t₂ b hs ?_
        intro hb
        subst hb
        rw [hr.false_same _ _ _ h1]
        exact hne rfl
    · rw [h1, h2]; exact frel_err _

theorem afterChain_sim (_C : Ctx τ ρ G) {s₁ s₂ : BState} (S : SRel τ ρ G s₁ s₂) (ok : Bool) (prev : Nat) :
    FRel (SRel τ ρ G) (afterChain ok s₁ prev) (afterChain ok s₂ prev) := by
  unfold afterChain
  rw [S.line, S.getLine]
  split
  · split
    · exact frel_pure S
    · exact frel_err _
  · refine frel_bind_same _ ?_
    intro l _
    refine frel_bind (S.off _) ?_
    intro o₁ o₂ he
    refine frel_pure ?_
    srely_fields S
    exact S.children.push (nrel_inline (MRel.single he.first))

/-- side 2 is side 1 with another source, table and children -/
theorem SRel.shape {s₁ s₂ : BState} (S : SRel τ ρ G s₁ s₂) :
    ∃ a b c, s₂ = { s₁ with src := a, offs := b, children := c } := by
  refine ⟨s₂.src, s₂.offs, s₂.children, ?_⟩
  cases s₂
  have h1 := S.blkIndent; have h2 := S.line; have h3 := S.lineMax; have h4 := S.tight
  have h5 := S.listIndent; have h6 := S.level; have h7 := S.nodeKind; have h8 := S.refs
  simp only at h1 h2 h3 h4 h5 h6 h7 h8
  simp only [h1, h2, h3, h4, h5, h6, h7, h8]

/-- behind `skip_empty_lines`, below `line_max`: a line that is not empty -/
theorem skipEmpty_live (offs : List LineOffset) (lm line : Nat) :
    Lines.skipEmptyLines offs lm line ≠ lm → Lines.isEmpty offs (Lines.skipEmptyLines offs lm line) = false := by
  fun_induction Lines.skipEmptyLines offs lm line with
  | case1 line h ih => exact ih
  | case2 line h =>
    intro hne
    cases he : Lines.isEmpty offs line with
    | false => rfl
    | true => exact absurd ⟨hne, he⟩ h

theorem tokLoop_sim (cfg : Cfg) (C : Ctx τ ρ G) {run₁ run₂ : RuleId → BState → Bool → Res} (R : RunSim τ ρ G run₁ run₂)
    (hr : RunSpec run₁) :
    ∀ (f₁ f₂ : Nat) (he : Bool) (s₁ s₂ : BState), f₁ ≤ f₂ → SRel τ ρ G s₁ s₂ →
      FRel (SRel τ ρ G) (tokLoop cfg run₁ f₁ he s₁) (tokLoop cfg run₂ f₂ he s₂) := by
  intro f₁
  induction f₁ with
  | zero => intro f₂ he s₁ s₂ _ _; exact frel_fuel _
  | succ f ih =>
    intro f₂ he s₁ s₂ hf S
    obtain ⟨g, rfl⟩ : ∃ g, f₂ = g + 1 := ⟨f₂ - 1, by omega⟩
    have hskip := S.skipEmpty s₁.lineMax s₁.line
    obtain ⟨src₂, offs₂, ch₂, rfl⟩ := S.shape
    simp only at hskip
    simp only [tokLoop]
    rw [hskip]
    split
    · exact frel_ok S
    have S1 : SRel τ ρ G { s₁ with line := Lines.skipEmptyLines s₁.offs s₁.lineMax s₁.line }
        { s₁ with src := src₂, offs := offs₂, children := ch₂,
                  line := Lines.skipEmptyLines s₁.offs s₁.lineMax s₁.line } := S.withLine _
    split
    · exact frel_ok S1
    rw [S1.lineIndent]
    refine frel_bind_same _ ?_
    intro ind _
    split
    · exact frel_ok S1
    split
    · exact frel_ok (S.withLine _)
    have hlive : Live { s₁ with line := Lines.skipEmptyLines s₁.offs s₁.lineMax s₁.line } :=
      ⟨by dsimp only; omega, skipEmpty_live s₁.offs s₁.lineMax s₁.line (by omega)⟩
    refine frel_bind (runChain_sim R hr cfg.chain _ _ false S1 (fun _ => hlive)) ?_
    intro p₁ p₂ hp
    obtain ⟨ok₁, t₁⟩ := p₁
    obtain ⟨ok₂, t₂⟩ := p₂
    obtain ⟨hok, St⟩ := hp
    simp only at hok St ⊢
    subst hok
    refine frel_bind (afterChain_sim C St ok₁ _) ?_
    intro u₁ u₂ Su
    obtain ⟨a, b, c, rfl⟩ := Su.shape
    simp only
    refine frel_bind_same _ ?_
    intro l1 _
    have Sv : SRel τ ρ G { u₁ with tight := !he } { u₁ with src := a, offs := b, children := c, tight := !he } := by
      srely_fields Su
      exact Su.children
    rw [Sv.isEmpty, Sv.isEmpty]
    split
    · exact ih g true _ _ (by omega) (Sv.withLine _)
    · exact ih g _ _ _ (by omega) Sv

theorem engine_sim (cfg : Cfg) (C : Ctx τ ρ G) : ∀ (f₁ f₂ : Nat), f₁ ≤ f₂ →
    TokSim τ ρ G (tokenize cfg f₁) (tokenize cfg f₂) ∧ TestSim τ ρ G (testRules cfg f₁) (testRules cfg f₂) := by
  intro f₁
  induction f₁ with
  | zero =>
    intro f₂ _
    exact ⟨fun s₁ s₂ _ => frel_fuel _, fun s₁ s₂ _ => frel_fuel _⟩
  | succ f ih =>
    intro f₂ hf
    obtain ⟨g, rfl⟩ : ∃ g, f₂ = g + 1 := ⟨f₂ - 1, by omega⟩
    obtain ⟨TK, TS⟩ := ih g (by omega)
    have hk := tokenize_tokSpec cfg f
    have hp := testRules_pure cfg f
    have hr : RunSpec (runRule cfg (tokenize cfg f) (testRules cfg f) (f + 1)) := runRule_spec hk hp _
    have R : RunSim τ ρ G (runRule cfg (tokenize cfg f) (testRules cfg f) (f + 1))
        (runRule cfg (tokenize cfg g) (testRules cfg g) (g + 1)) :=
      fun r s₁ s₂ b S hne => runRule_sim cfg C TK hk TS hp (by omega) r S b hne
    constructor
    · intro s₁ s₂ S
      simp only [tokenize, engine]
      exact tokLoop_sim cfg C R hr _ _ _ _ _ (by omega) S
    · intro s₁ s₂ S
      simp only [testRules, engine]
      exact runChain_sim R hr _ _ _ _ S (fun h => by cases h)

/-- **the block tokenizer on related states, side 2 with at least as much fuel** -/
theorem tokenize_sim (cfg : Cfg) (C : Ctx τ ρ G) {f₁ f₂ : Nat} (hf : f₁ ≤ f₂) {s₁ s₂ : BState}
    (S : SRel τ ρ G s₁ s₂) : FRel (SRel τ ρ G) (tokenize cfg f₁ s₁) (tokenize cfg f₂ s₂) :=
  (engine_sim cfg C f₁ f₂ hf).1 s₁ s₂ S

end MdIt.Block.LX.Y
