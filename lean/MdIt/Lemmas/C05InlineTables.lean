/-
  C05, inline half, item (1): the `mapping` tables the block rules attach to their `InlineRoot`
  placeholders (`get_lines(b, e, blk_indent, false)` for paragraphs / setext headings, the one-entry
  table of an ATX heading).

  `getLines_table`   for any line table whose entries cut lines out of the source (`LineOk`) in source
                     order: the table `get_lines` returns is `C05.WFMap`, its keys other than 0 sit
                     directly behind a line feed of the content or behind the virtual spaces of a
                     split tab (`KeysLFV`), and every position of the content outside virtual spaces is
                     translated to at most the end of the last line copied (`UpTo`).  When the lines
                     are STRICTLY separated (`lineEnd < next lineStart`: true of every real table, a
                     terminator lies between two lines) the table is `C05.MonoMapV`; and when no tab
                     was split (`NoVirt`: no two consecutive entries with the same source offset) it
                     is `Inline.MapOK` (`mapOK_of_noVirt`).
  `getLines_noVirt`  a tab-free source has no virtual-space entry.
  `getLines_lower`   positions at or behind `trim_src`'s start are translated to at least
                     `first_nonspace` of the first line, PROVIDED the blanks `get_lines` keeps of that
                     line beyond `blk_indent` are blanks (`KeptBlank`).
  `inlSpec_pmapW`    `Block.InlSpec true PMapW`: what follows from `Block.Geo` alone.

  FINDING (about the interface `Block.InlSpec` of Props/C05Doc.lean, not about the crate): `Geo` is
  too weak for the full claim.  (a) `Geo.sorted` is `lineEnd ≤ next lineStart`; `MonoMap(V)` needs
  `<` (witness `exWeak` below: lines `(0,1)`, `(1,2)` of `"ab"`).  (b) nothing in `Geo` says that the
  columns of the leading "blanks" beyond `blk_indent` ARE blanks (after a container rewrote the entry
  the slice `line_start .. first_nonspace` contains the markers): witness `exLead` — `"ab c"` with
  `first_nonspace = 3`, `indent_nonspace = 3`, `blk_indent = 0` is `Geo`, and `get_lines` maps the
  trimmed start to 0 `< first_nonspace`.  Both are true of every state the parser reaches; they need
  the strengthened invariant of `Lemmas/C05InlineGeo.lean`.
-/
import MdIt.Props.C05Doc

namespace MdIt.C05I
open MdIt.Lines
open MdIt.InlineOps (getSourcePosFor Srcmap)

theorem linesLen_eq (l : List Char) : Lines.byteLen l = InlineOps.byteLen l := by
  induction l with
  | nil => rfl
  | cons c t ih => simp [Lines.byteLen, InlineOps.byteLen, ih]

/-! ## adjacent entries of a table -/

/-- `R x next` at every entry `x` of the list, `next` the entry behind it -/
def SegAll (R : Nat × Nat → Option (Nat × Nat) → Prop) : Srcmap → Prop
  | [] => True
  | x :: r => R x r.head? ∧ SegAll R r

theorem segAll_get {R : Nat × Nat → Option (Nat × Nat) → Prop} :
    ∀ {l : Srcmap} {i : Nat} {x : Nat × Nat}, SegAll R l → l[i]? = some x → R x l[i + 1]?
  | [], i, x, _, h => by simp at h
  | y :: r, 0, x, hs, h => by
    simp only [List.getElem?_cons_zero, Option.some.injEq] at h
    subst h
    have : (y :: r)[0 + 1]? = r.head? := by simp [List.head?_eq_getElem?]
    rw [this]
    exact hs.1
  | y :: r, i + 1, x, hs, h => by
    simp only [List.getElem?_cons_succ] at h ⊢
    exact segAll_get hs.2 h

theorem segAll_append_nil {R : Nat × Nat → Option (Nat × Nat) → Prop} (l : Srcmap) :
    SegAll R (l ++ []) ↔ SegAll R l := by simp

/-- keys increase along adjacent entries ⇒ the key list is strictly sorted -/
theorem pairwise_of_segAll {R : Nat × Nat → Option (Nat × Nat) → Prop}
    (hR : ∀ x y, R x (some y) → x.1 < y.1) :
    ∀ (l : Srcmap), SegAll R l → (l.map Prod.fst).Pairwise (· < ·)
  | [], _ => by simp
  | [x], _ => by simp
  | x :: y :: r, hs => by
    have ih := pairwise_of_segAll hR (y :: r) hs.2
    have hxy : x.1 < y.1 := hR x y (by simpa using hs.1)
    simp only [List.map_cons, List.pairwise_cons] at ih ⊢
    refine ⟨?_, ih⟩
    intro a ha
    simp only [List.mem_cons] at ha
    rcases ha with rfl | ha
    · exact hxy
    · have := ih.1 a ha
      omega

/-! ## what `get_lines` guarantees of one entry and the next -/

/-- `k` is directly behind a line feed of `c` -/
def AfterLF (c : List Char) (k : Nat) : Prop :=
  ∃ pre post, c = pre ++ '\n' :: post ∧ byteLen pre + 1 = k

/-- entry `x`, followed by `y` (or last).  `d` is the slack of the line order (`0`: lines strictly
    separated, `1`: only `lineEnd ≤ next lineStart` known); `hi` bounds the ends of all lines; `V`
    holds if some line has a split tab. -/
def Seg (V : Prop) (c : List Char) (d hi : Nat) (x : Nat × Nat) : Option (Nat × Nat) → Prop
  | some y => x.1 < y.1 ∧ x.2 ≤ hi ∧
      ((V ∧ y.2 = x.2) ∨ (x.2 + (y.1 - x.1) ≤ y.2 + d ∧ x.2 + (y.1 - 1 - x.1) ≤ hi ∧ AfterLF c y.1))
  | none => x.1 ≤ byteLen c ∧ x.2 + (byteLen c - x.1) ≤ hi

/-- consecutive lines: `lineEnd + 1 ≤ next lineStart + d` -/
def ChainD (d : Nat) : List LineOffset → Prop
  | [] => True
  | [_] => True
  | a :: b :: r => a.lineEnd + 1 ≤ b.lineStart + d ∧ ChainD d (b :: r)

theorem mapOf_head (indent p : Nat) (o : LineOffset) (v : List Char × List Char × Int)
    (r : List (LineOffset × (List Char × List Char × Int))) :
    (mapOf indent p ((o, v) :: r)).head?
      = some (p, o.lineStart + (calcRightWs v.1 (v.2.2 - usizeAsI32 indent)).2) := by
  simp [mapOf]

/-- the source bytes a line contributes end at `line_end` -/
theorem piece_end {src : List Char} {o : LineOffset} {v : List Char × List Char × Int}
    (hs : Shows src o v) (k : Int) :
    o.lineStart + (calcRightWs v.1 k).2 + byteLen (dropB v.1 (calcRightWs v.1 k).2 ++ v.2.1) = o.lineEnd := by
  have := slice_from_view hs.1 hs.2.1 k
  obtain ⟨p, q, _, hp, hq⟩ := slice_eq_ok_iff.mp this
  omega

theorem mapOf_seg (V : Prop) (src : List Char) (indent d hi : Nat) :
    ∀ (ovs : List (LineOffset × (List Char × List Char × Int))) (pre : List Char),
      (∀ ov ∈ ovs, Shows src ov.1 ov.2 ∧ ov.1.lineEnd ≤ hi ∧
        ((calcRightWs ov.2.1 (ov.2.2.2 - usizeAsI32 indent)).1 > 0 → V)) → ChainD d (ovs.map (·.1)) →
      SegAll (Seg V (pre ++ joinLines false (ovs.map fun ov => viewPiece indent ov.2)) d hi)
        (mapOf indent (byteLen pre) ovs) := by
  intro ovs
  induction ovs with
  | nil => intro pre _ _; simp [mapOf, SegAll]
  | cons ov rest ih =>
    intro pre hs hc
    obtain ⟨o, v⟩ := ov
    obtain ⟨hsh, hhi, hV⟩ := hs (o, v) (by simp)
    have hend := piece_end hsh (v.2.2 - usizeAsI32 indent)
    have hbl := byteLen_viewPiece indent v
    simp only at hend hhi hV
    cases rest with
    | nil =>
      simp only [mapOf, List.append_nil, List.map_cons, List.map_nil, joinLines, Bool.false_eq_true,
        if_false]
      generalize hcc : calcRightWs v.1 (v.2.2 - usizeAsI32 indent) = cc at *
      generalize ht : dropB v.1 cc.2 ++ v.2.1 = t at *
      by_cases hn : cc.1 > 0
      · simp only [hn, if_true, SegAll, List.head?_cons, List.head?_nil, Seg, byteLen_append, and_true]
        refine ⟨⟨by omega, by omega, .inl (hV hn)⟩, by omega, by omega⟩
      · simp only [hn, if_false, SegAll, List.head?_nil, Seg, byteLen_append, and_true]
        exact ⟨by omega, by omega⟩
    | cons ov2 rest' =>
      obtain ⟨o2, v2⟩ := ov2
      have hc1 : o.lineEnd + 1 ≤ o2.lineStart + d := hc.1
      have hc2 : ChainD d (((o2, v2) :: rest').map (·.1)) := hc.2
      have ih' := ih (pre ++ viewPiece indent v ++ ['\n'])
        (fun ov h => hs ov (List.mem_cons_of_mem _ h)) hc2
      have hcontent : pre ++ joinLines false (((o, v) :: (o2, v2) :: rest').map fun ov => viewPiece indent ov.2)
          = (pre ++ viewPiece indent v ++ ['\n']) ++
            joinLines false (((o2, v2) :: rest').map fun ov => viewPiece indent ov.2) := by
        simp [joinLines, List.append_assoc]
      have hpos : byteLen (pre ++ viewPiece indent v ++ ['\n'])
          = byteLen pre + byteLen (viewPiece indent v) + 1 := by
        simp [show '\n'.utf8Size = 1 by decide]; omega
      rw [hcontent]
      rw [hpos] at ih'
      generalize hC : (pre ++ viewPiece indent v ++ ['\n']) ++
            joinLines false (((o2, v2) :: rest').map fun ov => viewPiece indent ov.2) = C at *
      have hlf : AfterLF C (byteLen pre + byteLen (viewPiece indent v) + 1) :=
        ⟨pre ++ viewPiece indent v, joinLines false (((o2, v2) :: rest').map fun ov => viewPiece indent ov.2),
          by rw [← hC]; simp [List.append_assoc], by simp⟩
      have hhead := mapOf_head indent (byteLen pre + byteLen (viewPiece indent v) + 1) o2 v2 rest'
      rw [show mapOf indent (byteLen pre) ((o, v) :: (o2, v2) :: rest')
          = ((byteLen pre, o.lineStart + (calcRightWs v.1 (v.2.2 - usizeAsI32 indent)).2) ::
              (if (calcRightWs v.1 (v.2.2 - usizeAsI32 indent)).1 > 0 then
                [(byteLen pre + (calcRightWs v.1 (v.2.2 - usizeAsI32 indent)).1,
                  o.lineStart + (calcRightWs v.1 (v.2.2 - usizeAsI32 indent)).2)] else []))
            ++ mapOf indent (byteLen pre + byteLen (viewPiece indent v) + 1) ((o2, v2) :: rest') from rfl]
      generalize hM : mapOf indent (byteLen pre + byteLen (viewPiece indent v) + 1) ((o2, v2) :: rest') = M at *
      generalize hcc : calcRightWs v.1 (v.2.2 - usizeAsI32 indent) = cc at *
      generalize hcc2 : calcRightWs v2.1 (v2.2.2 - usizeAsI32 indent) = cc2 at *
      generalize ht : dropB v.1 cc.2 ++ v.2.1 = t at *
      by_cases hn : cc.1 > 0
      · simp only [hn, if_true, List.cons_append, List.nil_append, SegAll, List.head?_cons, hhead, Seg]
        refine ⟨⟨by omega, by omega, .inl ⟨hV hn, trivial⟩⟩, ⟨by omega, by omega, .inr ⟨by omega, by omega, hlf⟩⟩, ih'⟩
      · simp only [hn, if_false, List.cons_append, List.nil_append, SegAll, hhead, Seg]
        refine ⟨⟨by omega, by omega, .inr ⟨by omega, by omega, hlf⟩⟩, ih'⟩

/-! ## consequences for the table -/

/-- keys other than the first: directly behind a line feed of the content, or behind the virtual
    spaces of a split tab (the entry before has the same source offset) -/
def KeysLFV (c : List Char) (m : Srcmap) : Prop :=
  ∀ i k v, m[i + 1]? = some (k, v) → AfterLF c k ∨ ∃ k0, m[i]? = some (k0, v)

/-- no virtual-space entry: no two consecutive entries with the same source offset -/
def NoVirt (m : Srcmap) : Prop :=
  ∀ i k1 v1 k2 v2, m[i]? = some (k1, v1) → m[i + 1]? = some (k2, v2) → v1 ≠ v2

/-- positions of the content that are not strictly inside virtual spaces are translated to `≤ hi` -/
def UpTo (c : List Char) (m : Srcmap) (hi : Nat) : Prop :=
  ∀ pos x, pos ≤ byteLen c → C05.NotInsideVirtual m pos → getSourcePosFor m pos = .ok x → x ≤ hi

theorem seg_wf {V : Prop} {c : List Char} {d hi : Nat} {m : Srcmap} (hs : SegAll (Seg V c d hi) m)
    (h0 : ∃ v rest, m = (0, v) :: rest) : C05.WFMap m :=
  ⟨h0, pairwise_of_segAll (fun _ _ h => h.1) m hs⟩

theorem seg_monoV {V : Prop} {c : List Char} {hi : Nat} {m : Srcmap} (hs : SegAll (Seg V c 0 hi) m) :
    C05.MonoMapV m := by
  intro i k1 v1 k2 v2 h1 h2
  have := segAll_get hs h1
  rw [h2] at this
  obtain ⟨_, _, ⟨_, h⟩ | ⟨h, _, _⟩⟩ := this
  · exact .inr h.symm
  · exact .inl (by simpa using h)

theorem seg_keys {V : Prop} {c : List Char} {d hi : Nat} {m : Srcmap} (hs : SegAll (Seg V c d hi) m) :
    KeysLFV c m := by
  intro i k v h2
  obtain ⟨⟨k0, v0⟩, h1⟩ := C05.getElem?_some_of_lt m i (i + 1) _ h2 (by omega)
  have := segAll_get hs h1
  rw [h2] at this
  obtain ⟨_, _, ⟨_, h⟩ | ⟨_, _, h⟩⟩ := this
  · simp only at h; subst h; exact .inr ⟨k0, h1⟩
  · exact .inl h

theorem seg_upTo {V : Prop} {c : List Char} {d hi : Nat} {m : Srcmap} (hs : SegAll (Seg V c d hi) m)
    (hw : C05.WFMap m) : UpTo c m hi := by
  intro pos x hpos hreal hx
  obtain ⟨i, k, v, h1, h2, h3, h4⟩ := C05.lineOf_spec m hw pos
  rw [C05.getSourcePosFor_of_line_clamp m pos i k v h1 h2 h3] at hx
  simp only [Except.ok.injEq] at hx
  subst hx
  suffices v + (pos - k) ≤ hi by
    have := C05.clampNext_le m i (v + (pos - k)); omega
  have hseg := segAll_get hs h2
  cases hn : m[i + 1]? with
  | none =>
    rw [hn] at hseg
    obtain ⟨_, h⟩ := hseg
    simp only at h
    omega
  | some y =>
    obtain ⟨k', v'⟩ := y
    rw [hn] at hseg
    obtain ⟨hk, hv, ⟨_, h⟩ | ⟨_, h, _⟩⟩ := hseg
    · simp only at h hk hv
      subst h
      rcases hreal i k v' k' v' h2 hn h3 (h4 _ _ _ (by omega) hn) with h | h
      · omega
      · subst h; omega
    · have := h4 _ _ _ (Nat.lt_succ_self i) hn
      simp only at h
      omega

/-- with the clamp of `get_source_pos_for` (`fix:` "positions inside the virtual spaces of a split
    tab") the restriction of `UpTo` to positions outside virtual segments is no longer needed: EVERY
    position of the content is translated to `≤ hi` (inside a virtual segment: to the source offset
    the segment sits on) -/
def UpToAll (c : List Char) (m : Srcmap) (hi : Nat) : Prop :=
  ∀ pos x, pos ≤ byteLen c → getSourcePosFor m pos = .ok x → x ≤ hi

theorem seg_upToAll {V : Prop} {c : List Char} {d hi : Nat} {m : Srcmap} (hs : SegAll (Seg V c d hi) m)
    (hw : C05.WFMap m) : UpToAll c m hi := by
  intro pos x hpos hx
  obtain ⟨i, k, v, h1, h2, h3, h4⟩ := C05.lineOf_spec m hw pos
  rw [C05.getSourcePosFor_of_line_clamp m pos i k v h1 h2 h3] at hx
  simp only [Except.ok.injEq] at hx
  subst hx
  have hseg := segAll_get hs h2
  cases hn : m[i + 1]? with
  | none =>
    rw [hn] at hseg
    obtain ⟨_, h⟩ := hseg
    simp only at h
    have := C05.clampNext_le m i (v + (pos - k)); omega
  | some y =>
    obtain ⟨k', v'⟩ := y
    rw [hn] at hseg
    obtain ⟨hk, hv, ⟨_, h⟩ | ⟨_, h, _⟩⟩ := hseg
    · simp only at h hk hv
      have := C05.clampNext_le_next m i (v + (pos - k)) k' v' hn
      omega
    · have := h4 _ _ _ (Nat.lt_succ_self i) hn
      simp only at h
      have := C05.clampNext_le m i (v + (pos - k)); omega

theorem UpToAll.upTo {c : List Char} {m : Srcmap} {hi : Nat} (h : UpToAll c m hi) : UpTo c m hi :=
  fun pos x hp _ hx => h pos x hp hx

/-- a table without virtual-space entries is what the inline range theorems ask for -/
theorem mapOK_of_noVirt {c : List Char} {m : Srcmap} (hw : C05.WFMap m) (hv : C05.MonoMapV m)
    (hk : KeysLFV c m) (hn : NoVirt m) : Inline.MapOK c m := by
  refine ⟨hw, ?_, ?_⟩
  · intro i k1 v1 k2 v2 h1 h2
    rcases hv i k1 v1 k2 v2 h1 h2 with h | h
    · exact h
    · exact absurd h (hn i k1 v1 k2 v2 h1 h2)
  · intro i k v hi hpos
    cases i with
    | zero =>
      obtain ⟨v0, rest, hm⟩ := hw.first
      rw [hm] at hi
      simp at hi
      omega
    | succ j =>
      rcases hk j k v hi with ⟨pre, post, h1, h2⟩ | ⟨k0, h0⟩
      · exact ⟨pre, post, h1, by rw [← h2, linesLen_eq]⟩
      · exact absurd rfl (hn j k0 v k v h0 hi)

/-- no line with a split tab: no virtual-space entry -/
theorem seg_noVirt {c : List Char} {hi : Nat} {m : Srcmap} (hs : SegAll (Seg False c 0 hi) m) :
    NoVirt m := by
  intro i k1 v1 k2 v2 h1 h2
  have := segAll_get hs h1
  rw [h2] at this
  obtain ⟨hk, _, ⟨h, _⟩ | ⟨h, _, _⟩⟩ := this
  · exact h.elim
  · simp only at h hk; omega

/-! ## from the line table to the views -/

theorem ovs_of_tableOk {src : List Char} {offs : List LineOffset}
    (hT : ∀ (k : Nat) (o : LineOffset), offs[k]? = some o → Block.LineOk src o) :
    ∀ (n b : Nat), b + n ≤ offs.length →
      ∃ ovs : List (LineOffset × (List Char × List Char × Int)), ovs.length = n ∧
        ∀ j (h : j < ovs.length), offs[b + j]? = some ovs[j].1 ∧ Shows src ovs[j].1 ovs[j].2 := by
  intro n
  induction n with
  | zero => intro b _; exact ⟨[], rfl, fun j h => by simp at h⟩
  | succ n ih =>
    intro b hb
    have hk : b < offs.length := by omega
    obtain ⟨v, hv, _, _⟩ := Block.shows_of_lineOk (hT b offs[b] (List.getElem?_eq_getElem hk))
    obtain ⟨ovs, hvl, hvs⟩ := ih (b + 1) (by omega)
    refine ⟨(offs[b], v) :: ovs, by simp [hvl], ?_⟩
    intro j hj
    cases j with
    | zero => exact ⟨by simp, hv⟩
    | succ j =>
      obtain ⟨ho, hs⟩ := hvs j (by simp at hj; omega)
      exact ⟨by rw [show b + (j + 1) = b + 1 + j by omega, ho]; simp, by simpa using hs⟩

theorem chainD_of {d : Nat} : ∀ (l : List LineOffset),
    (∀ j a a', l[j]? = some a → l[j + 1]? = some a' → a.lineEnd + 1 ≤ a'.lineStart + d) → ChainD d l
  | [], _ => trivial
  | [_], _ => trivial
  | a :: a' :: r, h =>
    ⟨h 0 a a' rfl rfl, chainD_of (a' :: r) (fun j x y hx hy => h (j + 1) x y (by simpa using hx) (by simpa using hy))⟩

theorem calcGo_fst_zero (k : Int) (start : Nat) (l : List Char) (h : '\t' ∉ l) : (calcGo k start l).1 = 0 := by
  induction l generalizing k start with
  | nil => simp only [calcGo]; split <;> rfl
  | cons c r ih =>
    simp only [List.mem_cons, not_or] at h
    simp only [calcGo]
    split
    · rw [if_neg (fun e => h.1 e.symm)]
      exact ih _ _ h.2
    · rfl

theorem calcRightWs_fst_zero (ws : List Char) (k : Int) (h : '\t' ∉ ws) : (calcRightWs ws k).1 = 0 :=
  calcGo_fst_zero _ _ _ (by simpa using h)

/-- the order of the lines of a table, with slack `d` -/
def OrderD (d : Nat) (offs : List LineOffset) : Prop :=
  ∀ (i j : Nat) (o o' : LineOffset), i < j → offs[i]? = some o → offs[j]? = some o' →
    o.lineEnd + 1 ≤ o'.lineStart + d

/-- **the table of `get_lines`**, entry by entry (`Seg`).  `V` may be any proposition that holds
    whenever some line's leading blanks contain a tab. -/
theorem getLines_seg {V : Prop} {src : List Char} {offs : List LineOffset}
    (hT : ∀ (k : Nat) (o : LineOffset), offs[k]? = some o → Block.LineOk src o)
    {d : Nat} (hd : d ≤ 1) (hord : OrderD d offs) (hV : '\t' ∈ src → V)
    {b e indent : Nat} {c : List Char} {m : Srcmap} (hbe : b < e)
    (h : getLines src offs b e indent false = .ok (c, m)) {oe : LineOffset} (hoe : offs[e - 1]? = some oe) :
    SegAll (Seg V c d oe.lineEnd) m ∧ ∃ v rest, m = (0, v) :: rest := by
  have hlen : e ≤ offs.length := by
    unfold getLines at h
    rw [if_neg (by omega)] at h
    exact getLinesGo_ok_len h hbe
  obtain ⟨ovs, hvl, hvs⟩ := ovs_of_tableOk hT (e - b) b (by omega)
  obtain ⟨content, hget, hcontent, _⟩ := get_lines_faithful src offs b indent false ovs hvs
  rw [hvl, show b + (e - b) = e by omega, h] at hget
  simp only [Except.ok.injEq, Prod.mk.injEq] at hget
  obtain ⟨rfl, rfl⟩ := hget
  have hmem : ∀ ov ∈ ovs, ∃ j, j < e - b ∧ offs[b + j]? = some ov.1 ∧ Shows src ov.1 ov.2 := by
    intro ov hov
    obtain ⟨j, hj, rfl⟩ := List.getElem_of_mem hov
    exact ⟨j, by omega, hvs j hj⟩
  have hseg := mapOf_seg V src indent d oe.lineEnd ovs [] (by
    intro ov hov
    obtain ⟨j, hj, ho, hs⟩ := hmem ov hov
    refine ⟨hs, ?_, ?_⟩
    · rcases Nat.lt_or_ge (b + j) (e - 1) with hlt | hge
      · have := hord _ _ _ _ hlt ho hoe
        have := (hT _ _ hoe).bounds
        omega
      · have : b + j = e - 1 := by omega
        rw [this, hoe] at ho
        cases ho
        exact Nat.le_refl _
    · intro hpos
      apply hV
      by_cases ht : '\t' ∈ ov.2.1
      · obtain ⟨p, q, hsrc, _, _⟩ := slice_eq_ok_iff.mp hs.1
        rw [hsrc]; simp [ht]
      · rw [calcRightWs_fst_zero _ _ ht] at hpos; omega) (by
    apply chainD_of
    intro j a a' ha ha'
    simp only [List.getElem?_map, Option.map_eq_some_iff] at ha ha'
    obtain ⟨x, hx, rfl⟩ := ha
    obtain ⟨y, hy, rfl⟩ := ha'
    obtain ⟨hj, rfl⟩ := List.getElem?_eq_some_iff.mp hx
    obtain ⟨hj', rfl⟩ := List.getElem?_eq_some_iff.mp hy
    exact hord (b + j) (b + (j + 1)) _ _ (by omega) (hvs j hj).1 (hvs (j + 1) hj').1)
  simp only [List.nil_append, byteLen_nil] at hseg
  rw [← hcontent] at hseg
  refine ⟨hseg, ?_⟩
  cases ovs with
  | nil => simp at hvl; omega
  | cons ov r => exact ⟨_, _, rfl⟩

theorem SegAll.imp {R R' : Nat × Nat → Option (Nat × Nat) → Prop} (h : ∀ x n, R x n → R' x n) :
    ∀ {l : Srcmap}, SegAll R l → SegAll R' l
  | [], _ => trivial
  | _ :: _, hs => ⟨h _ _ hs.1, SegAll.imp h hs.2⟩

theorem Seg.noV {V : Prop} (hV : ¬ V) {c : List Char} {d hi : Nat} (x : Nat × Nat) (n : Option (Nat × Nat))
    (h : Seg V c d hi x n) : Seg False c d hi x n := by
  cases n with
  | none => exact h
  | some y =>
    obtain ⟨h1, h2, ⟨h, _⟩ | h3⟩ := h
    · exact absurd h hV
    · exact ⟨h1, h2, .inr h3⟩

/-- **The `mapping` of `get_lines(b, e, indent, false)`** on a table whose entries cut lines out of
    the source, the lines strictly separated (`OrderD 0`): well formed, monotone up to virtual-space
    entries, keys behind line feeds (or virtual spaces), nothing translated beyond the end of the
    last line; `MapOK` when there is no virtual-space entry; and there is none in a tab-free source. -/
theorem getLines_table {src : List Char} {offs : List LineOffset}
    (hT : ∀ (k : Nat) (o : LineOffset), offs[k]? = some o → Block.LineOk src o)
    (hord : OrderD 0 offs) {b e indent : Nat} {c : List Char} {m : Srcmap} (hbe : b < e)
    (h : getLines src offs b e indent false = .ok (c, m)) {oe : LineOffset} (hoe : offs[e - 1]? = some oe) :
    C05.WFMap m ∧ C05.MonoMapV m ∧ KeysLFV c m ∧ UpTo c m oe.lineEnd ∧
      (NoVirt m → Inline.MapOK c m) ∧ ('\t' ∉ src → NoVirt m) := by
  obtain ⟨hs, h0⟩ := getLines_seg (V := '\t' ∈ src) hT (Nat.zero_le _) hord id hbe h hoe
  have hw := seg_wf hs h0
  refine ⟨hw, seg_monoV hs, seg_keys hs, seg_upTo hs hw, mapOK_of_noVirt hw (seg_monoV hs) (seg_keys hs), ?_⟩
  intro hno
  exact seg_noVirt (SegAll.imp (Seg.noV hno) hs)

/-- `getLines_table`, the bound for ALL positions (tabs split or not) -/
theorem getLines_upToAll {src : List Char} {offs : List LineOffset}
    (hT : ∀ (k : Nat) (o : LineOffset), offs[k]? = some o → Block.LineOk src o)
    (hord : OrderD 1 offs) {b e indent : Nat} {c : List Char} {m : Srcmap} (hbe : b < e)
    (h : getLines src offs b e indent false = .ok (c, m)) {oe : LineOffset} (hoe : offs[e - 1]? = some oe) :
    UpToAll c m oe.lineEnd := by
  obtain ⟨hs, h0⟩ := getLines_seg (V := True) hT (Nat.le_refl _) hord (fun _ => trivial) hbe h hoe
  exact seg_upToAll hs (seg_wf hs h0)

/-- the same from the weak order `lineEnd ≤ next lineStart` (all `Block.Geo` knows): no `MonoMapV` -/
theorem getLines_table_weak {src : List Char} {offs : List LineOffset}
    (hT : ∀ (k : Nat) (o : LineOffset), offs[k]? = some o → Block.LineOk src o)
    (hord : OrderD 1 offs) {b e indent : Nat} {c : List Char} {m : Srcmap} (hbe : b < e)
    (h : getLines src offs b e indent false = .ok (c, m)) {oe : LineOffset} (hoe : offs[e - 1]? = some oe) :
    C05.WFMap m ∧ KeysLFV c m ∧ UpTo c m oe.lineEnd := by
  obtain ⟨hs, h0⟩ := getLines_seg (V := True) hT (Nat.le_refl _) hord (fun _ => trivial) hbe h hoe
  have hw := seg_wf hs h0
  exact ⟨hw, seg_keys hs, seg_upTo hs hw⟩

/-- a one-entry table (ATX heading, no-paragraph fallback) -/
theorem single_table (c : List Char) (x : Nat) :
    C05.WFMap [(0, x)] ∧ C05.MonoMapV [(0, x)] ∧ KeysLFV c [(0, x)] ∧ NoVirt [(0, x)] ∧
      Inline.MapOK c [(0, x)] := by
  have hw : C05.WFMap [(0, x)] := ⟨⟨x, [], rfl⟩, by simp⟩
  have hv : C05.MonoMapV [(0, x)] := by intro i k1 v1 k2 v2 _ h2; simp at h2
  have hk : KeysLFV c [(0, x)] := by intro i k v h; simp at h
  have hn : NoVirt [(0, x)] := by intro i k1 v1 k2 v2 _ h2; simp at h2
  exact ⟨hw, hv, hk, hn, mapOK_of_noVirt hw hv hk hn⟩

theorem single_translate (x pos : Nat) : getSourcePosFor [(0, x)] pos = .ok (x + pos) := by
  have hw : C05.WFMap [(0, x)] := ⟨⟨x, [], rfl⟩, by simp⟩
  have := C05.translate_segment_free [(0, x)] hw pos 0 0 x rfl (Nat.zero_le _) (by intro k' v' h; simp at h)
    (by intro k' v' h; simp at h)
  simpa using this

/-! ## `Block.InlSpec`: what `Block.Geo` alone provides -/

/-- the claim about a placeholder that follows from `Block.Geo`: a well-formed table, keys behind
    line feeds or virtual spaces, nothing translated beyond the end `b` of the block -/
def PMapW : Block.InlP := fun c m _ b => C05.WFMap m ∧ KeysLFV c m ∧ UpTo c m b

theorem orderD_of_sorted {offs : List LineOffset} (h : Block.Sorted offs) : OrderD 1 offs := by
  intro i j o o' hij hi hj
  have := h i j o o' hij hi hj
  omega

theorem getLines_lift {s : Block.BState} {b e indent : Nat} {keep : Bool} {r : List Char × List (Nat × Nat)}
    (h : s.getLines b e indent keep = .ok r) : getLines s.src s.offs b e indent keep = .ok r :=
  Block.liftL_ok5 h

theorem inlSpec_pmapW : Block.InlSpec true PMapW := by
  refine ⟨?_, ?_, fun h => by cases h⟩
  · intro s b e c m ob oe hg hgl hbe _ hoe
    exact getLines_table_weak hg.table (orderD_of_sorted hg.sorted) hbe (getLines_lift hgl) hoe
  · intro s o line content textPos textMax hg ho hline hcontent
    obtain ⟨hw, _, hk, _, _⟩ := single_table content (o.firstNonspace + textPos)
    refine ⟨hw, hk, ?_⟩
    intro pos x hpos _ hx
    rw [single_translate] at hx
    simp only [Except.ok.injEq] at hx
    subst hx
    have h1 : Lines.getLine s.src s.offs s.line = .ok line := Block.liftL_ok5 hline
    unfold Lines.getLine at h1
    rw [ho] at h1
    simp only at h1
    obtain ⟨_, _, _, _, h2⟩ := slice_eq_ok_iff.mp h1
    obtain ⟨p, q, h3, h4, h5⟩ := slice_eq_ok_iff.mp (Block.liftL_ok5 hcontent)
    have := congrArg byteLen h3
    simp at this
    omega

/-! ## witnesses: `Block.Geo` is too weak for the full claim -/

/-- `exWeak`: two "lines" `(0,1)`, `(1,2)` of `"ab"` that touch (`lineEnd = next lineStart`: allowed
    by `Block.Sorted`, every entry `LineOk`): the table of `get_lines` is `[(0,0),(2,1)]` — the second
    line starts, in the source, BEFORE the end of the inline text of the first (`0 + 2 > 1`):
    neither `MonoMapV` nor `MonoMap`.  Real tables have a terminator between two lines (`OrderD 0`). -/
example : getLines ['a', 'b'] [⟨0, 1, 0, 0⟩, ⟨1, 2, 1, 0⟩] 0 2 0 false
      = .ok (['a', '\n', 'b'], [(0, 0), (2, 1)]) ∧ ¬ (0 + (2 - 0) ≤ 1 ∨ 0 = 1) := by decide +kernel

/-- `exLead`: `"ab c"` as ONE line with `first_nonspace = 3`, `indent_nonspace = 3` (a `Block.Geo`
    entry: `indent ≤ 4 · 3`), `blk_indent = 0`: `get_lines` walks back three columns over `"ab "`,
    the content is `"ab c"` mapped at 0, `trim_src` starts at 0, and `tr 0 = 0 < 3 = first_nonspace`.
    In a real state the columns beyond `blk_indent` are blanks (`C05I.KeptBlank`). -/
example : getLines ['a', 'b', ' ', 'c'] [⟨0, 4, 3, 3⟩] 0 1 0 false = .ok (['a', 'b', ' ', 'c'], [(0, 0)]) ∧
    Inline.trimSrc ['a', 'b', ' ', 'c'] = (0, 4) ∧ getSourcePosFor [(0, 0)] 0 = .ok 0 := by decide +kernel

/-- non-vacuity of `getLines_table`: the table of `"- a\n\n \tb"`, line 2 at indent 2 (split tab) -/
example : C05.WFMap (mapOf 2 0 [(⟨5, 8, 7, 4⟩, ([' ', '\t'], ['b'], 4))]) ∧
    ¬ NoVirt (mapOf 2 0 [(⟨5, 8, 7, 4⟩, ([' ', '\t'], ['b'], 4))]) := by
  refine ⟨⟨⟨7, [(2, 7)], by decide⟩, by decide⟩, ?_⟩
  intro h
  exact h 0 0 7 2 7 (by decide) (by decide) rfl

end MdIt.C05I
