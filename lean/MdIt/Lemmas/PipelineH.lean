/-
  Lemmas for `MdIt/Props/PipelineH.lean`: two invariants of the html-free development lifted to the
  parsers with the raw-HTML rules.

  1. `BlockH.parseBlocksH_wf` — the well-formedness of the block tree (`Block.WFB`, `Props/Pipeline.lean`
     part A) for the ten-rule engine.  Lifted as the other loop lemmas of `Lemmas/BlockH.lean`: the nine
     rules' lemma `runRule_wf` applies verbatim (stated for arbitrary call-backs), the html rule pushes a
     childless leaf (`good_leafB`), the loop lemma `tokLoop_wf` through `tokLoopG_eq` (the whole chain as
     ONE rule of a one-element chain).
  2. `InlineH.parseInlineH_vals` — the value invariant of the inline parser (`Inline.vals_induction`,
     `Lemmas/InlineVals2.lean`): every value of the returned nodes satisfies any `P` that holds of the
     values the configured rules create (`GoodP`); the html rule creates a `special`.  The per-rule lemma
     `runRule_vals` applies verbatim; the chain layer (`firstRuleG` / `tokStepG` / `skipStepG`) and the
     fuel induction are re-proved over the extended chain (the texts of `firstRule_vals` … `vals_induction`).
-/
import MdIt.Props.BlockH
import MdIt.Props.InlineH
import MdIt.Props.Pipeline

/-! ## 1. the block tree is well formed -/

namespace MdIt.BlockH
open MdIt.Block

theorem htmlNode_goodB (para : Bool) (n : Html.BlockNode) : GoodB para (htmlNode n) :=
  good_leafB _ _ (.inr (.inr ⟨_, _, _, _, rfl⟩))

theorem htmlRule_wf {para : Bool} {s s' : BState} {b : Bool} (h : htmlRule s false = .ok (b, s')) :
    KeepsGoodB para s s' := by
  cases b with
  | false => rw [htmlRule_false_same h]; exact fun hg => hg
  | true =>
    obtain ⟨n, l, _, rfl, _, _⟩ := htmlRule_true h
    exact fun hg => hg.push (htmlNode_goodB para n)

theorem runRuleH_wf {para : Bool} {cfg : Cfg} {tok : Tok} {test : Test} (hk : TokSpec tok)
    (hsh : TokWF para tok) (ht : TestPure test) (fuel : Nat) (r : RuleIdH) {s s' : BState} {b : Bool}
    (h : runRuleH cfg tok test fuel r s false = .ok (b, s')) (hl : s.line < s.lineMax) :
    KeepsGoodB para s s' := by
  cases r with
  | base r => exact runRule_wf hk hsh ht fuel r h hl
  | html => exact htmlRule_wf h

theorem chain_wf {para : Bool} {ι : Type} {run : ι → BState → Bool → Res} (hr : RunSpecG run)
    (hsh : ∀ r s b s', run r s false = .ok (b, s') → s.line < s.lineMax → KeepsGoodB para s s') :
    ∀ (chain : List ι) (s : BState) (b : Bool) (s' : BState),
      runChainG run chain s false = .ok (b, s') → s.line < s.lineMax → KeepsGoodB para s s' := by
  intro chain
  induction chain with
  | nil => intro s b s' h _; simp [runChainG] at h; rw [← h.2]; exact fun hg => hg
  | cons r rs ih =>
    intro s b s' h hl
    simp only [runChainG] at h
    split at h
    · cases h
    · rename_i s1 h1
      cases h
      exact hsh _ _ _ _ h1 hl
    · rename_i s1 h1
      have := hr.false_same _ _ _ h1
      subst this
      exact ih _ _ _ h hl

/-- with the paragraph rule in the ten-rule chain the chain always claims the line -/
theorem runChainG_para {cfg : Cfg} {tok : Tok} {test : Test} {fuel : Nat} :
    ∀ (chain : List RuleIdH) (s : BState) (b : Bool) (s' : BState), RuleIdH.base .paragraph ∈ chain →
      runChainG (runRuleH cfg tok test fuel) chain s false = .ok (b, s') → b = true := by
  intro chain
  induction chain with
  | nil => intro s b s' hm; simp at hm
  | cons r rs ih =>
    intro s b s' hm h
    simp only [runChainG] at h
    split at h
    · cases h
    · cases h; rfl
    · rename_i s1 h1
      have hr : r ≠ .base .paragraph := by
        intro e
        subst e
        simp only [runRuleH, runRule] at h1
        exact absurd (real_true_paragraph h1) (by simp)
      have hm' : RuleIdH.base .paragraph ∈ rs := by
        rcases List.mem_cons.mp hm with e | e
        · exact absurd e.symm hr
        · exact e
      exact ih _ _ _ hm' h

/-- is the default block rule in the ten-rule chain -/
def hasParaH (chain : List RuleIdH) : Bool := chain.contains (.base .paragraph)

/-- the tokenizer with the html rule pushes only well-formed nodes that may sit under `Root` /
    `Blockquote` -/
theorem tokenizeH_wf (cfg : Cfg) (chain : List RuleIdH) :
    ∀ fuel : Nat, TokWF (hasParaH chain) (tokenizeH cfg chain fuel) := by
  intro fuel
  induction fuel with
  | zero => intro s s' h; simp [tokenizeH, engineH] at h
  | succ f ih =>
    intro s s' h
    simp only [tokenizeH, engineH] at h
    rw [tokLoopG_eq] at h
    have hk := tokenizeH_tokSpec cfg chain f
    have ht := testRulesH_pure cfg chain f
    have hspec := runRuleH_spec (cfg := cfg) hk ht (f + 1)
    refine tokLoop_wf (cfg := oneCfg cfg) (chain_runSpec hspec chain)
      (fun _ s b s' h hl => chain_wf hspec (fun r s b s' h hl => runRuleH_wf hk ih ht _ r h hl) chain s b s' h hl)
      ?_ _ _ _ _ h
    intro hp s b s' hc
    simp only [oneCfg, runChain_one] at hc
    exact runChainG_para _ _ _ _ (by simpa [hasParaH] using hp) hc

/-- **`parseBlocksH_wf`**: every tree the ten-rule block parser returns is well formed (`Block.WFB` at
    every node; an html block is a childless leaf): the top is `Root`, ATX levels in `1..6`, setext
    levels in `1..2`, a paragraph / heading has exactly one `InlineRoot` child, … (`Block.parseBlocks_wf`) -/
theorem parseBlocksH_wf {cfg : CfgH} {src : List Char} {root : BNode} {refs : Refs.RefMap}
    (h : parseBlocksH cfg src = .ok (root, refs)) : root.kind = .root ∧ WFB (hasParaH cfg.chain) root := by
  unfold parseBlocksH at h
  split at h
  · cases h
  · rename_i s hs
    simp only [Except.ok.injEq, Prod.mk.injEq] at h
    obtain ⟨rfl, _⟩ := h
    have hfr := (tokenizeH_spec cfg.base cfg.chain _ _ _ hs).frame
    have hg := tokenizeH_wf cfg.base cfg.chain _ _ _ hs AllGoodB.nil
    have hk : s.nodeKind = .root := hfr.nodeKind
    refine ⟨hk, ?_⟩
    rw [hk]
    exact wfb_container (.inl rfl) hg

end MdIt.BlockH

/-! ## 2. the value invariant of the inline parser -/

namespace MdIt.InlineH
open MdIt.Inline
open MdIt.InlineOps (Srcmap)

theorem htmlRule_vals {P : Val → Prop} (hsp : ∀ c m i, P (.special c m i)) {st st' : IState} {silent : Bool}
    {o : Option Nat} (h : htmlRule st silent = .ok (o, st')) (hc : ValsOK P st) :
    ValsOK P st' ∧ (silent = true → Quiet st st') := by
  rcases htmlRule_cases h with ⟨_, rfl⟩ | ⟨n, _, _, rfl⟩ | ⟨n, ll, nd, _, hs, _, rfl⟩
  · exact ⟨hc, fun _ => Quiet.refl _⟩
  · exact ⟨hc, fun _ => Quiet.refl _⟩
  · refine ⟨?_, fun ht => by rw [hs] at ht; cases ht⟩
    unfold ValsOK
    exact AllValsList.append hc (AllValsList.single (leaf_vals (hsp _ _ _) _))

theorem runRuleH_vals {cfg : Cfg} {P : Val → Prop} (g : GoodP cfg P)
    {skip tok : IState → Except Panic IState} (hq : QuietFn skip) (ht : ValsFn P tok) {fuel : Nat}
    {id : RuleIdH} (hid : ∀ r, id = .base r → r ∈ cfg.chain) {st : IState} {silent : Bool} {o : Option Nat}
    {st' : IState} (h : runRuleH cfg skip tok fuel id st silent = .ok (o, st')) (hc : ValsOK P st) :
    ValsOK P st' ∧ (silent = true → Quiet st st') := by
  cases id with
  | base r => exact runRule_vals g hq ht (hid r rfl) h hc
  | html => exact htmlRule_vals g.special h hc

theorem firstRuleG_vals {ι : Type} {P : Val → Prop} {run : ι → IState → RuleRes} {silent : Bool}
    (rules : List ι)
    (hrun : ∀ id ∈ rules, ∀ s o s', run id s = .ok (o, s') → ValsOK P s →
      ValsOK P s' ∧ (silent = true → Quiet s s')) :
    ∀ (st : IState) (o : Option Nat) (st' : IState), firstRuleG run rules st = .ok (o, st') →
      ValsOK P st → ValsOK P st' ∧ (silent = true → Quiet st st') := by
  induction rules with
  | nil =>
    intro st o st' h hc
    simp only [firstRuleG, Except.ok.injEq, Prod.mk.injEq] at h; rw [← h.2]
    exact ⟨hc, fun _ => Quiet.refl _⟩
  | cons r rs ih =>
    intro st o st' h hc
    unfold firstRuleG at h
    split at h
    · simp at h
    · next n st1 hr =>
      simp only [Except.ok.injEq, Prod.mk.injEq] at h; rw [← h.2]
      exact hrun r (by simp) _ _ _ hr hc
    · next st1 hr =>
      obtain ⟨c1, q1⟩ := hrun r (by simp) _ _ _ hr hc
      obtain ⟨c2, q2⟩ := ih (fun id hid => hrun id (List.mem_cons_of_mem _ hid)) _ _ _ h c1
      exact ⟨c2, fun hs => (q1 hs).trans (q2 hs)⟩

/-- the members of the extended chain that are old rules are members of `cfg.chain` -/
def ChainIn (cfg : Cfg) (chain : List RuleIdH) : Prop := ∀ r, RuleIdH.base r ∈ chain → r ∈ cfg.chain

theorem tokStepG_vals {cfg : Cfg} {chain : List RuleIdH} (hch : ChainIn cfg chain) {P : Val → Prop} (g : GoodP cfg P)
    {skip tok : IState → Except Panic IState} (hq : QuietFn skip) (ht : ValsFn P tok) {fuel : Nat}
    {st st' : IState} (h : tokStepG cfg.maxNesting chain (runRuleH cfg skip tok fuel) st = .ok st')
    (hc : ValsOK P st) : ValsOK P st' := by
  unfold tokStepG at h
  simp only at h
  have hfr : ∀ o st1, firstRuleG (fun id s => runRuleH cfg skip tok fuel id s false) chain st = .ok (o, st1) →
      ValsOK P st1 := fun o st1 hok =>
    (firstRuleG_vals (silent := false) chain
      (fun id hid s o s' hr hcs => runRuleH_vals g hq ht (fun r e => hch r (e ▸ hid)) hr hcs) _ _ _ hok hc).1
  split at h
  · simp at h
  · next len st1 hok =>
    simp only [Except.ok.injEq] at h; rw [← h]
    have : ValsOK P st1 := by
      split at hok
      · exact hfr _ _ hok
      · simp only [Except.ok.injEq, Prod.mk.injEq] at hok; rw [← hok.2]; exact hc
    exact this
  · next st1 hok =>
    have hc1 : ValsOK P st1 := by
      split at hok
      · exact hfr _ _ hok
      · simp only [Except.ok.injEq, Prod.mk.injEq] at hok; rw [← hok.2]; exact hc
    split at h
    · simp at h
    · split at h
      · simp at h
      · next st2 hp =>
        simp only [Except.ok.injEq] at h; rw [← h]
        exact (pushText_vals g.text (liftR_ok.mp hp) hc1 : ValsOK P st2)

theorem skipStepG_quiet {cfg : Cfg} {chain : List RuleIdH} (hch : ChainIn cfg chain)
    {skip tok : IState → Except Panic IState} (hq : QuietFn skip)
    {fuel : Nat} {st st' : IState} (h : skipStepG chain (runRuleH cfg skip tok fuel) st = .ok st') :
    Quiet st st' := by
  have g : GoodP cfg (fun _ => True) :=
    ⟨fun _ => trivial, fun _ _ _ => trivial, trivial, trivial, fun _ _ => trivial,
     fun _ _ _ _ => trivial, fun _ _ _ => trivial, fun _ _ _ => trivial, fun _ _ _ _ _ _ _ => trivial,
     fun _ _ _ _ => trivial, fun _ _ _ _ _ _ _ => trivial⟩
  have hall : ∀ s : IState, ValsOK (fun _ => True) s := by
    intro s; unfold ValsOK; rw [allValsList_iff]; intro n _; exact allVals_true n
  have ht : ValsFn (fun _ => True) tok := fun s s' _ _ => hall s'
  unfold skipStepG at h
  simp only at h
  have hfr : ∀ o st1, firstRuleG (fun id s => silentBumped (runRuleH cfg skip tok fuel id) s) chain st
      = .ok (o, st1) → Quiet st st1 := by
    intro o st1 hok
    exact (firstRuleG_vals (P := fun _ => True) (silent := true) chain
      (fun id hid s o s' hr hcs => silentBumped_vals
        (fun s2 o2 s2' hr2 hc2 => runRuleH_vals g hq ht (fun r e => hch r (e ▸ hid)) hr2 hc2) hr hcs)
      _ _ _ hok (hall st)).2 rfl
  split at h
  · simp at h
  · next len st1 hok =>
    simp only [Except.ok.injEq] at h; rw [← h]
    have q := hfr _ _ hok
    exact ⟨q.children, q.bottoms⟩
  · next st1 hok =>
    have q := hfr _ _ hok
    split at h
    · simp at h
    · simp only [Except.ok.injEq] at h; rw [← h]
      exact ⟨q.children, q.bottoms⟩

/-- **the value invariant through the tokenizer with the html rule** (any fuel) -/
theorem vals_inductionH (cfg : Cfg) (chain : List RuleIdH) (hch : ChainIn cfg chain) {P : Val → Prop}
    (g : GoodP cfg P) : ∀ fuel : Nat,
    QuietFn (fun s => skipTokenH cfg chain fuel s) ∧
    (∀ (e : Nat) (st st' : IState), tokLoopH cfg chain fuel e st = .ok st' → ValsOK P st → ValsOK P st') := by
  intro fuel
  induction fuel with
  | zero =>
    constructor
    · intro s s' h; simp [skipTokenH] at h
    · intro e st st' h hc
      unfold tokLoopH at h
      split at h
      · simp at h
      · simp only [Except.ok.injEq] at h; rw [← h]; exact hc
  | succ f ih =>
    obtain ⟨ihS, ihT⟩ := ih
    have ht : ValsFn P (fun s => tokLoopH cfg chain f s.posMax s) := fun s s' h hc => ihT _ _ _ h hc
    constructor
    · intro s s' h
      simp only at h
      unfold skipTokenH at h
      split at h
      · simp only [Except.ok.injEq] at h; rw [← h]; exact ⟨rfl, rfl⟩
      · split at h
        · exact skipStepG_quiet hch ihS h
        · simp only [Except.ok.injEq] at h; rw [← h]; exact ⟨rfl, rfl⟩
    · intro e st st' h hc
      unfold tokLoopH at h
      split at h
      · simp only at h
        split at h
        · simp at h
        · next st1 hstep =>
          exact ihT _ _ _ h (tokStepG_vals hch g ihS ht hstep hc)
      · simp only [Except.ok.injEq] at h; rw [← h]; exact hc

theorem chainIn_base (cfg : CfgH) : ChainIn cfg.base cfg.chain := fun _ h => base_mem h

/-- **`parseInlineH_vals`**: every value in the trees `parseInlineH` returns satisfies `P`, for every
    `P` that holds of the values the configured rules create (the html rule creates a `special`) -/
theorem parseInlineH_vals (cfg : CfgH) {P : Val → Prop} (g : GoodP cfg.base P) {content : List Char}
    {mapping : Srcmap} {cs : List Node} (h : parseInlineH cfg content mapping = .ok cs) :
    AllValsList P cs := by
  unfold parseInlineH tokenizeH at h
  split at h
  · cases h
  · rename_i st hst
    cases h
    exact (vals_inductionH cfg.base cfg.chain (chainIn_base cfg) g _).2 _ _ _ hst
      (by unfold ValsOK IState.init; exact trivial)

end MdIt.InlineH
