/-
  The lock-step simulation of `MdIt.Block.LE` (`Lemmas/C10Doc*.lean`: two runs of the block parser on
  two sources whose line tables are entrywise related) extended to the ten-rule engine of
  `Model/BlockH.lean`.

  Reused verbatim: the nine rule simulations (`runRule_sim`, stated for arbitrary `TokSim` / `TestSim`
  call-backs) and `tokLoop_sim` (through `tokLoopG_eq`: the ten-rule chain is ONE rule of a `Block`
  chain).  New: `html_sim` — the html rule reads the state through `line_indent` / `get_line` /
  `line_max` only (`Html.blockScan_congr`), and builds its node with `get_lines` / `get_map`.
-/
import MdIt.Lemmas.BlockH
import MdIt.Lemmas.C10DocEngine

namespace MdIt.BlockH
open MdIt.Block MdIt.Block.LE
open MdIt.Lines (LineOffset)
variable {ρ : Nat → Nat → Prop} {G : Geo}

/-- `htmlRule` written as a `do` block (the form the lock-step toolkit works on) -/
def htmlRuleDo (s : BState) (silent : Bool) : Res := do
  let ind ← s.lineIndent s.line
  if ind ≥ 4 then pure (false, s) else do
  let lt ← s.getLine s.line
  if lt.head? ≠ some '<' then pure (false, s) else
  match Html.openSeq lt with
  | none => pure (false, s)
  | some i =>
    if silent then pure (Html.canTerminate i, s) else do
    let nextLine ← (if Html.closeMatch i lt then (.ok (s.line + 1) : Except Panic Nat) else Html.blockScan s i (s.line + 1))
    let q ← ({ s with line := nextLine } : BState).getLines s.line nextLine s.blkIndent true
    let e1 ← psub nextLine 1
    let r ← ({ s with line := nextLine } : BState).getMap s.line e1
    pure (true, ({ s with line := nextLine } : BState).push (htmlNode ⟨q.1, r⟩))

theorem htmlRule_eq_do (s : BState) (silent : Bool) : htmlRule s silent = htmlRuleDo s silent := by
  unfold htmlRule Html.htmlBlockRule htmlRuleDo
  cases h1 : s.lineIndent s.line with
  | error e => rfl
  | ok ind =>
    simp only [bind, Except.bind, pure, Except.pure]
    by_cases h4 : ind ≥ 4
    · simp only [if_pos h4]
    · simp only [if_neg h4]
      cases h2 : s.getLine s.line with
      | error e => rfl
      | ok lt =>
        simp only
        by_cases hh : lt.head? ≠ some '<'
        · simp only [if_pos hh]
        · simp only [if_neg hh]
          cases h3 : Html.openSeq lt with
          | none => rfl
          | some i =>
            simp only
            by_cases hs : silent = true
            · simp only [if_pos hs]
            · simp only [if_neg hs]
              cases h5 : (if Html.closeMatch i lt = true then (Except.ok (s.line + 1) : Except Panic Nat)
                  else Html.blockScan s i (s.line + 1)) with
              | error e => rfl
              | ok nl =>
                simp only
                cases h6 : ({ s with line := nl } : BState).getLines s.line nl s.blkIndent true with
                | error e => rfl
                | ok q =>
                  obtain ⟨content, mp⟩ := q
                  simp only
                  cases h7 : psub nl 1 with
                  | error e => rfl
                  | ok e1 =>
                    simp only
                    cases h8 : ({ s with line := nl } : BState).getMap s.line e1 with
                    | error e => rfl
                    | ok r => rfl

theorem blockScan_sim {s₁ s₂ : BState} (S : SRel ρ G s₁ s₂) (i n : Nat) :
    Html.blockScan s₂ i n = Html.blockScan s₁ i n :=
  Html.blockScan_congr S.lineMax (fun n => S.lineIndent n) (fun n => S.getLine n) i _ n (Nat.le_refl _)

/-- the html rule in lock step: same verdict, same `line`, nodes with EQUAL content and `ρ`-related range -/
theorem html_sim (C : Ctx ρ G) {s₁ s₂ : BState} (S : SRel ρ G s₁ s₂) (silent : Bool) :
    FRel (ResRel ρ G) (htmlRule s₁ silent) (htmlRule s₂ silent) := by
  rw [htmlRule_eq_do, htmlRule_eq_do]
  unfold htmlRuleDo
  rw [S.line, S.lineIndent, S.getLine]
  refine frel_bind_same _ ?_
  intro ind _
  split
  · exact frel_pure ⟨rfl, S⟩
  refine frel_bind_same _ ?_
  intro lt _
  split
  · exact frel_pure ⟨rfl, S⟩
  split
  · exact frel_pure ⟨rfl, S⟩
  split
  · exact frel_pure ⟨rfl, S⟩
  rw [blockScan_sim S, S.blkIndent]
  refine frel_bind_same _ ?_
  intro nl _
  refine frel_bind ((S.withLine nl).getLines C.shift _ _ _ _) ?_
  intro q₁ q₂ hq
  obtain ⟨c₁, m₁⟩ := q₁
  obtain ⟨c₂, m₂⟩ := q₂
  obtain ⟨hc, _⟩ := hq
  simp only at hc ⊢
  subst hc
  refine frel_bind_same _ ?_
  intro e1 _
  refine frel_bind ((S.withLine nl).getMap C.shift _ _) ?_
  intro r₁ r₂ hr
  refine frel_pure ⟨rfl, ?_⟩
  srel_fields S
  exact S.children.push (NRel.mk (KRel.refl _) hr NRelL.nil)

theorem runRuleH_sim (cfg : Cfg) (C : Ctx ρ G) {tok₁ tok₂ : Tok} (TK : TokSim ρ G tok₁ tok₂) {test₁ test₂ : Test}
    (TS : TestSim ρ G test₁ test₂) {f₁ f₂ : Nat} (hf : f₁ ≤ f₂) (r : RuleIdH) {s₁ s₂ : BState}
    (S : SRel ρ G s₁ s₂) (silent : Bool) :
    FRel (ResRel ρ G) (runRuleH cfg tok₁ test₁ f₁ r s₁ silent) (runRuleH cfg tok₂ test₂ f₂ r s₂ silent) := by
  cases r with
  | base r => exact runRule_sim cfg C TK TS hf r S silent
  | html => exact html_sim C S silent

theorem runChainG_sim {ι : Type} {run₁ run₂ : ι → BState → Bool → Res}
    (R : ∀ r s₁ s₂ b, SRel ρ G s₁ s₂ → FRel (ResRel ρ G) (run₁ r s₁ b) (run₂ r s₂ b)) :
    ∀ (chain : List ι) (s₁ s₂ : BState) (b : Bool), SRel ρ G s₁ s₂ →
      FRel (ResRel ρ G) (runChainG run₁ chain s₁ b) (runChainG run₂ chain s₂ b) := by
  intro chain
  induction chain with
  | nil => intro s₁ s₂ b S; exact frel_ok ⟨rfl, S⟩
  | cons r rs ih =>
    intro s₁ s₂ b S
    simp only [runChainG]
    rcases R r s₁ s₂ b S with h | ⟨x, y, h1, h2, hv, hs⟩ | ⟨e, h1, h2⟩
    · rw [h]; exact frel_fuel _
    · rw [h1, h2]
      obtain ⟨v₁, t₁⟩ := x
      obtain ⟨v₂, t₂⟩ := y
      simp only at hv hs
      subst hv
      cases v₁ with
      | true => exact frel_ok ⟨rfl, hs⟩
      | false => exact ih t₁ t₂ b hs
    · rw [h1, h2]; exact frel_err _

theorem engineH_sim (cfg : Cfg) (chain : List RuleIdH) (C : Ctx ρ G) : ∀ (f₁ f₂ : Nat), f₁ ≤ f₂ →
    TokSim ρ G (tokenizeH cfg chain f₁) (tokenizeH cfg chain f₂) ∧
    TestSim ρ G (testRulesH cfg chain f₁) (testRulesH cfg chain f₂) := by
  intro f₁
  induction f₁ with
  | zero =>
    intro f₂ _
    exact ⟨fun s₁ s₂ _ => frel_fuel _, fun s₁ s₂ _ => frel_fuel _⟩
  | succ f ih =>
    intro f₂ hf
    obtain ⟨g, rfl⟩ : ∃ g, f₂ = g + 1 := ⟨f₂ - 1, by omega⟩
    obtain ⟨TK, TS⟩ := ih g (by omega)
    have R := runChainG_sim (ρ := ρ) (G := G)
      (run₁ := runRuleH cfg (tokenizeH cfg chain f) (testRulesH cfg chain f) (f + 1))
      (run₂ := runRuleH cfg (tokenizeH cfg chain g) (testRulesH cfg chain g) (g + 1))
      (fun r s₁ s₂ b S => runRuleH_sim cfg C TK TS (by omega) r S b) chain
    constructor
    · intro s₁ s₂ S
      simp only [tokenizeH, engineH]
      rw [tokLoopG_eq, tokLoopG_eq]
      exact tokLoop_sim (oneCfg cfg) C (fun _ s₁ s₂ b S => R s₁ s₂ b S) _ _ _ _ _ (by omega) S
    · intro s₁ s₂ S
      simp only [testRulesH, engineH]
      exact R _ _ _ S

/-- **the ten-rule tokenizer on related states, side 2 with at least as much fuel** -/
theorem tokenizeH_sim (cfg : Cfg) (chain : List RuleIdH) (C : Ctx ρ G) {f₁ f₂ : Nat} (hf : f₁ ≤ f₂)
    {s₁ s₂ : BState} (S : SRel ρ G s₁ s₂) :
    FRel (SRel ρ G) (tokenizeH cfg chain f₁ s₁) (tokenizeH cfg chain f₂ s₂) :=
  (engineH_sim cfg chain C f₁ f₂ hf).1 s₁ s₂ S

end MdIt.BlockH
