/-
  Helper development for `Props/Inline.lean`: source ranges, part 2 — the frame invariant `RI` and
  the rules without look-ahead recursion other than emphasis (text, newline, escape, entity,
  backticks, autolink): each pushes a node whose range is the translated `(pos, pos + len)`, behind
  everything pushed before.
-/
import MdIt.Lemmas.InlineRanges

namespace MdIt.Inline
open MdIt.InlineOps (Srcmap getSourcePosFor getMap byteLen slice)
open MdIt.C05 (WFMap MonoMap byteLen_append slice_ok_iff)

/-- what the range theorems assume about the per-line table of a state -/
structure MapOK (src : List Char) (m : Srcmap) : Prop where
  wf : WFMap m
  mono : MonoMap m
  lf : KeysAfterLF src m

/-- every `EmphMarker` of a sibling list is childless, has delimiters left, and its range has room
    for them -/
def MarkersOK (l : List Node) : Prop :=
  ∀ n ∈ l, ∀ mk, n.asMarker = some mk →
    n.children = [] ∧ 0 < mk.remaining ∧ ∃ s e, n.range = some (s, e) ∧ s + mk.remaining ≤ e

/-- **The frame invariant** of one `tokenize` run that started at source offset `lo`, on the
    components `(src, srcmap, pos, children)` of the state:
    * the children have ordered, non-overlapping ranges inside `[lo, tr pos]`;
    * every child is well ranged (its descendants lie inside it, ordered, recursively);
    * an `EmphMarker` child is childless and its range has room for its `remaining` delimiters;
    * a trailing `Text` is childless, its content is `src[start..pos]` and its range the
      translated `(start, pos)`. -/
structure RI (src : List Char) (m : Srcmap) (lo pos : Nat) (cs : List Node) : Prop where
  ord : ∃ hi, getSourcePosFor m pos = .ok hi ∧ OrderedN lo hi cs
  deep : WellRangedList cs
  markers : MarkersOK cs
  trail : ∀ init last, cs = init ++ [last] → last.isText = true →
    last.children = [] ∧ ∃ start xs xe, slice src start pos = .ok last.content ∧
      getSourcePosFor m start = .ok xs ∧ getSourcePosFor m pos = .ok xe ∧ last.range = some (xs, xe)

/-- the invariant of a state -/
def RInv (lo : Nat) (st : IState) : Prop := RI st.src st.srcmap lo st.pos st.children

theorem getMap_eq {st : IState} {a b x y : Nat} (h : st.getMap a b = .ok (x, y)) :
    getSourcePosFor st.srcmap a = .ok x ∧ getSourcePosFor st.srcmap b = .ok y ∧ a ≤ b := by
  unfold IState.getMap InlineOps.getMap at h
  split at h
  · simp [liftOps] at h
  · next hab =>
    split at h
    · simp [liftOps] at h
    · next xa ha =>
      split at h
      · simp [liftOps] at h
      · next xb hb =>
        simp only [liftOps, Except.ok.injEq, Prod.mk.injEq] at h
        obtain ⟨rfl, rfl⟩ := h
        exact ⟨ha, hb, by omega⟩

theorem getMapRaw_eq {m : Srcmap} {a b x y : Nat} (h : liftOps (getMap m a b) = .ok (x, y)) :
    getSourcePosFor m a = .ok x ∧ getSourcePosFor m b = .ok y ∧ a ≤ b := by
  unfold InlineOps.getMap at h
  split at h
  · simp [liftOps] at h
  · next hab =>
    split at h
    · simp [liftOps] at h
    · next xa ha =>
      split at h
      · simp [liftOps] at h
      · next xb hb =>
        simp only [liftOps, Except.ok.injEq, Prod.mk.injEq] at h
        obtain ⟨rfl, rfl⟩ := h
        exact ⟨ha, hb, by omega⟩

theorem snoc_inj {α : Type} {a b : List α} {x y : α} (h : a ++ [x] = b ++ [y]) : a = b ∧ x = y := by
  have := List.append_inj' h rfl
  exact ⟨this.1, by simpa using this.2⟩

/-- pushing a non-text, non-marker node whose range lies between the translated `pos` and `p'` -/
theorem RI.push {src : List Char} {m : Srcmap} {lo pos : Nat} {cs : List Node}
    (h : RI src m lo pos cs) {n : Node} {p' x y a b : Nat}
    (hx : getSourcePosFor m pos = .ok x) (hy : getSourcePosFor m p' = .ok y)
    (hr : n.range = some (a, b)) (h1 : x ≤ a) (h2 : a ≤ b) (h3 : b ≤ y)
    (hw : WellRanged n) (ht : n.isText = false)
    (hmk : n.asMarker = none) : RI src m lo p' (cs ++ [n]) := by
  obtain ⟨hi, hhi, hord⟩ := h.ord
  rw [hx] at hhi
  simp only [Except.ok.injEq] at hhi; subst hhi
  refine ⟨⟨y, hy, hord.snoc hr h1 h2 h3⟩,
    h.deep.append (WellRangedList.single hw), ?_, ?_⟩
  · intro n' hn' mk hmk'
    rcases List.mem_append.mp hn' with h' | h'
    · exact h.markers n' h' mk hmk'
    · simp only [List.mem_singleton] at h'; subst h'; rw [hmk] at hmk'; cases hmk'
  · intro init last hcs hlt
    obtain ⟨_, rfl⟩ := snoc_inj hcs
    rw [ht] at hlt; cases hlt

/-- a rule that changes neither `pos` nor the children keeps the invariant -/
theorem RI.same {src : List Char} {m : Srcmap} {lo pos : Nat} {cs : List Node}
    (h : RI src m lo pos cs) : RI src m lo pos cs := h

/-! ## `trailing_text_push(pos, pos + len)`, then `pos += len` -/

theorem newText_isText (c : List Char) (r : Option (Nat × Nat)) : (Node.newText c r).isText = true := rfl

theorem isText_asMarker {n : Node} (h : n.isText = true) : n.asMarker = none := by
  unfold Node.isText at h
  unfold Node.asMarker
  split at h
  · next c hv => rw [hv]
  · cases h

theorem text_content {n : Node} {c : List Char} (h : n.val = .text c) : n.content = c := by
  unfold Node.content; rw [h]

theorem RI.pushText {src : List Char} {m : Srcmap} {lo pos : Nat} {cs out : List Node}
    (h : RI src m lo pos cs) (hm : MapOK src m) {stop : Nat} (hle : pos ≤ stop)
    (hp : trailingTextPush src m cs pos stop = .ok out) : RI src m lo stop out := by
  obtain ⟨hi, hhi, hord⟩ := h.ord
  obtain ⟨y, hy⟩ := C05.translate_total m hm.wf stop
  have hxy := C05.translate_mono m hm.wf hm.mono pos stop hle hi y hhi hy
  -- the fresh node
  have hfresh : ∀ out, (match liftOps (slice src pos stop) with
      | .error e => (.error e : Except RPanic (List Node))
      | .ok piece =>
        match liftOps (getMap m pos stop) with
        | .error e => .error e
        | .ok r => .ok (cs ++ [Node.newText piece (some r)])) = .ok out →
      (∀ y0, cs.getLast? = some y0 → y0.isText = false) → RI src m lo stop out := by
    intro out ho hnt
    split at ho
    · simp at ho
    · next piece hpiece =>
      split at ho
      · simp at ho
      · next r hr =>
        simp only [Except.ok.injEq] at ho; subst ho
        obtain ⟨rx, ry⟩ := r
        obtain ⟨e1, e2, _⟩ := getMapRaw_eq hr
        rw [hhi] at e1; simp only [Except.ok.injEq] at e1; subst e1
        rw [hy] at e2; simp only [Except.ok.injEq] at e2; subst e2
        refine ⟨⟨_, hy, hord.snoc (n := Node.newText piece (some (hi, y))) rfl (Nat.le_refl _) hxy
          (Nat.le_refl _)⟩, h.deep.append (WellRangedList.single (wellRanged_leaf hxy)), ?_, ?_⟩
        · intro n' hn' mk hmk'
          rcases List.mem_append.mp hn' with h' | h'
          · exact h.markers n' h' mk hmk'
          · simp only [List.mem_singleton] at h'; subst h'; simp [Node.newText, Node.asMarker] at hmk'
        · intro init last hcs _
          obtain ⟨_, rfl⟩ := snoc_inj hcs
          exact ⟨rfl, pos, hi, y, liftOps_ok.mp hpiece, hhi, hy, rfl⟩
  unfold trailingTextPush at hp
  simp only at hp
  rcases popLast_spec cs with ⟨hpop, hnil⟩ | ⟨init, last, hpop, hcs⟩
  · rw [hpop] at hp
    exact hfresh out hp (by intro y0 hy0; rw [hnil] at hy0; simp at hy0)
  · rw [hpop] at hp
    simp only at hp
    split at hp
    · next hlt =>
      -- the trailing text grows
      obtain ⟨hch, start, xs, xe, hsl, hxs, hxe, hrange⟩ := h.trail init last hcs hlt
      rw [hhi] at hxe; simp only [Except.ok.injEq] at hxe; subst hxe
      split at hp
      · simp at hp
      · next piece hpiece =>
        rw [hrange] at hp
        simp only at hp
        rw [hy] at hp
        simp only [liftOps, Except.ok.injEq] at hp; subst hp
        have hsl2 := C05.slice_append src start pos stop _ _ hsl (liftOps_ok.mp hpiece)
        obtain ⟨_, _, hse⟩ := slice_boundaries hsl
        have hstart : start ≤ pos := by omega
        have hxsy := C05.translate_mono m hm.wf hm.mono start stop (by omega) xs y hxs hy
        subst hcs
        obtain ⟨a, b, hab, hinit, _, _⟩ := hord.last
        rw [hrange] at hab; simp only [Option.some.injEq, Prod.mk.injEq] at hab
        obtain ⟨rfl, rfl⟩ := hab
        refine ⟨⟨y, hy, hinit.snoc (n := Node.mk (.text (last.content ++ piece)) (some (xs, y)) last.children)
            rfl (Nat.le_refl _) hxsy (Nat.le_refl _)⟩,
          h.deep.left.append (WellRangedList.single (wellRanged_childless hch hxsy)), ?_, ?_⟩
        · intro n' hn' mk hmk'
          rcases List.mem_append.mp hn' with h' | h'
          · exact h.markers n' (List.mem_append_left _ h') mk hmk'
          · simp only [List.mem_singleton] at h'; subst h'; simp [Node.asMarker] at hmk'
        · intro init' last' hcs' _
          obtain ⟨_, rfl⟩ := snoc_inj hcs'
          exact ⟨hch, start, xs, y, by simpa [Node.content] using hsl2, hxs, hy, rfl⟩
    · next hlt =>
      apply hfresh out hp
      intro y0 hy0
      rw [hcs] at hy0; simp at hy0; subst hy0
      simpa using hlt

/-! ## the code-span node -/

theorem mkNode_shape {src : List Char} {sp p ms me n : Nat} {nd : CodePair.Node}
    (h : CodePair.mkNode src sp p ms me n = .ok nd) :
    nd.rangeStart = sp ∧ nd.rangeEnd = me ∧ p ≤ nd.innerStart ∧ nd.innerStart ≤ nd.innerEnd ∧
      nd.innerEnd ≤ ms ∧ sp ≤ me := by
  have hf : ∀ a b c d e (ct : List Char), CodePair.finishNode a b c d e ct = .ok nd →
      nd.rangeStart = a ∧ nd.rangeEnd = b ∧ nd.innerStart = d ∧ nd.innerEnd = e ∧ d ≤ e ∧ a ≤ b := by
    intro a b c d e ct hf
    unfold CodePair.finishNode at hf
    split at hf
    · split at hf
      · simp only [Except.ok.injEq] at hf; subst hf
        exact ⟨rfl, rfl, rfl, rfl, by assumption, by assumption⟩
      · simp at hf
    · simp at hf
  unfold CodePair.mkNode at h
  split at h
  · simp at h
  · simp only at h
    split at h
    · split at h
      · simp at h
      · split at h
        · simp at h
        · obtain ⟨a, b, c, d, e, f⟩ := hf _ _ _ _ _ _ h
          exact ⟨a, b, by omega, by omega, by omega, f⟩
    · obtain ⟨a, b, c, d, e, f⟩ := hf _ _ _ _ _ _ h
      exact ⟨a, b, by omega, by omega, by omega, f⟩

theorem scan_node_shape (v : CodePair.Variant) (m : Char) (src : List Char)
    (pos posMax n p : Nat) (silent : Bool) (matchEnd : Nat) (c : CodePair.Cache) (o : CodePair.Outcome)
    (c' : CodePair.Cache) (nd : CodePair.Node)
    (h : CodePair.scan v m src pos posMax n p silent matchEnd c = .ok (some o, c'))
    (hn : o.node = some nd) :
    nd.rangeStart = pos ∧ nd.rangeEnd = pos + o.len ∧ p ≤ nd.innerStart ∧
      nd.innerStart ≤ nd.innerEnd ∧ nd.innerEnd ≤ nd.rangeEnd := by
  fun_induction CodePair.scan v m src pos posMax n p silent matchEnd c <;> simp_all
  case case5 => obtain ⟨rfl, _⟩ := h; simp at hn
  case case7 =>
    obtain ⟨rfl, _⟩ := h
    simp only [Option.some.injEq] at hn; subst hn
    rename_i hge hsil hmk hcc
    obtain ⟨a, b, c1, d, e, f⟩ := mkNode_shape hmk
    have hl : ∀ (x : Nat) (y : Option CodePair.Node), (CodePair.Outcome.mk x y).len = x := fun _ _ => rfl
    refine ⟨a, ?_, c1, d, ?_⟩
    · rw [b, hl]; omega
    · rw [b]; omega
  case case9 => omega

theorem run_node_shape (v : CodePair.Variant) (m : Char) (src : List Char) (pos posMax : Nat)
    (prev silent : Bool) (c : CodePair.Cache) (o : CodePair.Outcome) (c' : CodePair.Cache)
    (nd : CodePair.Node)
    (h : CodePair.run v m src pos posMax prev silent c = .ok (some o, c')) (hn : o.node = some nd) :
    nd.rangeStart = pos ∧ nd.rangeEnd = pos + o.len ∧ pos ≤ nd.innerStart ∧
      nd.innerStart ≤ nd.innerEnd ∧ nd.innerEnd ≤ nd.rangeEnd := by
  have hw : ∀ p, pos ≤ p →
      (nd.rangeStart = pos ∧ nd.rangeEnd = pos + o.len ∧ p ≤ nd.innerStart ∧
        nd.innerStart ≤ nd.innerEnd ∧ nd.innerEnd ≤ nd.rangeEnd) →
      (nd.rangeStart = pos ∧ nd.rangeEnd = pos + o.len ∧ pos ≤ nd.innerStart ∧
        nd.innerStart ≤ nd.innerEnd ∧ nd.innerEnd ≤ nd.rangeEnd) :=
    fun p hp t => ⟨t.1, t.2.1, Nat.le_trans hp t.2.2.1, t.2.2.2.1, t.2.2.2.2⟩
  unfold CodePair.run at h
  repeat' split at h
  all_goals first
    | exact hw _ (by omega) (scan_node_shape _ _ _ _ _ _ _ _ _ _ _ _ _ h hn)
    | simp at h

end MdIt.Inline
