/-
  Helper development for `Props/Inline.lean`: the post pass on the rich node type is the post pass
  of `MdIt.Join` seen through the projection `erase`.
-/
import MdIt.Model.Inline
import MdIt.Props.C14

namespace MdIt.Inline
open MdIt.InlineOps (INode)

theorem erase_eq (n : Node) :
    erase n =
      match n.val with
      | .text c => { kind := .text, content := c, range := n.range, children := eraseList n.children, remaining := 0 }
      | .emphMarker m _ rem _ _ =>
        { kind := .marker m, content := [], range := n.range, children := eraseList n.children, remaining := rem }
      | v => { kind := .other v.code, content := [], range := n.range, children := eraseList n.children, remaining := 0 } := by
  obtain ⟨v, r, cs⟩ := n
  cases v <;> simp [erase]

theorem erase_isText (n : Node) : (erase n).isText = n.isText := by
  rw [erase_eq]; unfold Node.isText INode.isText; cases n.val <;> rfl

theorem erase_content (n : Node) : (erase n).content = n.content := by
  rw [erase_eq]; unfold Node.content; cases n.val <;> rfl

theorem erase_range (n : Node) : (erase n).range = n.range := by
  rw [erase_eq]; cases n.val <;> rfl

theorem erase_children (n : Node) : (erase n).children = eraseList n.children := by
  rw [erase_eq]; cases n.val <;> rfl

theorem eraseList_eq_map (l : List Node) : eraseList l = l.map erase := by
  induction l with
  | nil => rfl
  | cons c cs ih => simp [eraseList, ih]

theorem erase_isMarker (n : Node) :
    C14.isMarker (erase n) = (match n.val with | .emphMarker _ _ _ _ _ => true | _ => false) := by
  rw [erase_eq]; unfold C14.isMarker; cases n.val <;> rfl

/-! ## the head view: kind, content, range — all `NormalForm` looks at -/

/-- forget children and the `remaining` field (junk on a text node made from a marker) -/
def hd (n : INode) : INode := { n with children := [], remaining := 0 }

theorem hd_isText (n : INode) : (hd n).isText = n.isText := rfl
theorem hd_content (n : INode) : (hd n).content = n.content := rfl
theorem hd_isMarker (n : INode) : C14.isMarker (hd n) = C14.isMarker n := rfl

theorem noAdj_map_hd (l : List INode) : C14.NoAdjText (l.map hd) ↔ C14.NoAdjText l := by
  induction l with
  | nil => simp [C14.NoAdjText]
  | cons x r ih =>
    simp only [List.map_cons, C14.NoAdjText, ih]
    cases r with
    | nil => simp
    | cons y r' => simp [hd_isText]

theorem normalForm_map_hd (l : List INode) : C14.NormalForm (l.map hd) ↔ C14.NormalForm l := by
  constructor
  · intro h
    refine ⟨?_, ?_, (noAdj_map_hd l).mp h.noAdj⟩
    · intro n hn; have := h.noMarker (hd n) (List.mem_map_of_mem hn); rwa [hd_isMarker] at this
    · intro n hn ht
      have := h.noEmpty (hd n) (List.mem_map_of_mem hn) (by rw [hd_isText]; exact ht)
      rwa [hd_content] at this
  · intro h
    refine ⟨?_, ?_, (noAdj_map_hd l).mpr h.noAdj⟩
    · intro n hn
      obtain ⟨a, ha, rfl⟩ := List.mem_map.mp hn
      rw [hd_isMarker]; exact h.noMarker a ha
    · intro n hn ht
      obtain ⟨a, ha, rfl⟩ := List.mem_map.mp hn
      rw [hd_content]; exact h.noEmpty a ha (by rwa [hd_isText] at ht)

theorem normalForm_congr {l l' : List INode} (h : l.map hd = l'.map hd) :
    C14.NormalForm l ↔ C14.NormalForm l' := by
  rw [← normalForm_map_hd l, ← normalForm_map_hd l', h]

/-! ## `fragments_join` through the projection, up to the head view -/

theorem hd_erase_markerToText (n : Node) :
    hd (erase (markerToText n)) = hd (Join.markerToText (erase n)) := by
  obtain ⟨v, r, cs⟩ := n
  cases v <;> simp [markerToText, Join.markerToText, erase, hd]

theorem hd_eraseList_pass1 (cs : List Node) :
    (eraseList (pass1 cs)).map hd = (Join.pass1 (eraseList cs)).map hd := by
  simp [eraseList_eq_map, pass1, Join.pass1, hd_erase_markerToText]

theorem erase_emptied (n : Node) (h : n.isText = true) : erase (emptied n) = Join.emptied (erase n) := by
  obtain ⟨v, r, cs⟩ := n
  cases v <;> simp_all [emptied, Join.emptied, erase, Node.isText]

theorem erase_merged (t1 t2 : Node) (h1 : t1.isText = true) :
    erase (merged t1 t2) = Join.merged (erase t1) (erase t2) := by
  have hr2 := erase_range t2
  have hc2 := erase_content t2
  obtain ⟨v, r, cs⟩ := t1
  cases v <;> simp_all [merged, Join.merged, erase, Node.isText, Node.content]
  rcases r with _ | ⟨a, b⟩ <;> rcases t2.range with _ | ⟨c, d⟩ <;> rfl

theorem eraseList_mergeLoop (cur : Node) (rest : List Node) :
    eraseList (mergeLoop cur rest) = Join.mergeLoop (erase cur) (eraseList rest) := by
  induction rest generalizing cur with
  | nil => simp [mergeLoop, Join.mergeLoop, eraseList]
  | cons nxt rest ih =>
    simp only [mergeLoop, eraseList, Join.mergeLoop, erase_isText]
    split
    · next h =>
      simp only [Bool.and_eq_true] at h
      simp only [eraseList, ih, erase_emptied nxt h.2, erase_merged cur nxt h.1]
    · simp only [eraseList, ih]

theorem eraseList_mergeAll (l : List Node) : eraseList (mergeAll l) = Join.mergeAll (eraseList l) := by
  cases l with
  | nil => rfl
  | cons c r => simp [mergeAll, Join.mergeAll, eraseList, eraseList_mergeLoop]

theorem erase_keep (n : Node) : Join.keep (erase n) = keep n := by
  simp [Join.keep, keep, erase_isText, erase_content]

theorem eraseList_filter_keep (l : List Node) :
    eraseList (l.filter keep) = (eraseList l).filter Join.keep := by
  induction l with
  | nil => rfl
  | cons c cs ih =>
    simp only [List.filter_cons, eraseList, erase_keep]
    split <;> simp [eraseList, ih]

/-- pass 2 of `MdIt.Join` reads kinds and contents only: it commutes with the head view -/
theorem hd_mergeLoop (x : INode) (ys : List INode) :
    (Join.mergeLoop x ys).map hd = Join.mergeLoop (hd x) (ys.map hd) := by
  induction ys generalizing x with
  | nil => simp [Join.mergeLoop]
  | cons y ys ih =>
    have e1 : hd (Join.emptied y) = Join.emptied (hd y) := rfl
    have e2 : hd (Join.merged x y) = Join.merged (hd x) (hd y) := rfl
    by_cases h : (x.isText && y.isText) = true
    · simp only [Join.mergeLoop, List.map_cons, hd_isText, h, if_true, ih, e1, e2]
    · simp only [Join.mergeLoop, List.map_cons, hd_isText, h]
      simp [ih]

theorem hd_mergeAll (l : List INode) : (Join.mergeAll l).map hd = Join.mergeAll (l.map hd) := by
  cases l with
  | nil => rfl
  | cons c r => simp [Join.mergeAll, hd_mergeLoop]

theorem hd_filter_keep (l : List INode) :
    (l.filter Join.keep).map hd = (l.map hd).filter Join.keep := by
  induction l with
  | nil => rfl
  | cons c cs ih =>
    have hk : Join.keep (hd c) = Join.keep c := rfl
    simp only [List.filter_cons, List.map_cons, hk]
    split <;> simp [ih]

/-- `fragments_join` of this model and of `MdIt.Join` agree on everything but the junk field -/
theorem hd_eraseList_fragmentsJoinN (cs : List Node) :
    (eraseList (fragmentsJoinN cs)).map hd = (Join.fragmentsJoin (eraseList cs)).map hd := by
  rw [Join.fragmentsJoin_eq]
  unfold fragmentsJoinN Join.fragmentsJoinL
  rw [eraseList_filter_keep, eraseList_mergeAll, hd_filter_keep, hd_mergeAll, hd_eraseList_pass1,
    ← hd_mergeAll, ← hd_filter_keep]

/-- **the text normal form after `fragments_join`** (from `C14.join_normal_form`) -/
theorem normalForm_fragmentsJoinN (cs : List Node) :
    C14.NormalForm (eraseList (fragmentsJoinN cs)) :=
  (normalForm_congr (hd_eraseList_fragmentsJoinN cs)).mpr (C14.join_normal_form _)

/-! ## `FragmentsJoin::run` -/

theorem joinNodeN_eq (n : Node) :
    joinNodeN n = { n with children := joinListN (fragmentsJoinN n.children) } := by
  rw [joinNodeN]

theorem joinListN_cons (c : Node) (cs : List Node) :
    joinListN (c :: cs) = joinNodeN c :: joinListN cs := by
  rw [joinListN]

theorem joinListN_nil : joinListN [] = [] := by rw [joinListN]

theorem joinListN_eq_map (l : List Node) : joinListN l = l.map joinNodeN := by
  induction l with
  | nil => rw [joinListN_nil]; rfl
  | cons c cs ih => rw [joinListN_cons, ih]; rfl

theorem joinNodeN_val (n : Node) : (joinNodeN n).val = n.val := by rw [joinNodeN_eq]
theorem joinNodeN_children (n : Node) :
    (joinNodeN n).children = joinListN (fragmentsJoinN n.children) := by rw [joinNodeN_eq]

theorem hd_erase_joinNodeN (n : Node) : hd (erase (joinNodeN n)) = hd (erase n) := by
  rw [joinNodeN_eq]
  obtain ⟨v, r, cs⟩ := n
  cases v <;> simp [erase, hd]

theorem allNF_join_aux (k : Nat) :
    (∀ n, nsize n ≤ k → C14.AllNF (erase (joinNodeN n))) ∧
    (∀ l, nsizeList l ≤ k → C14.AllNFList (eraseList (joinListN l))) := by
  induction k with
  | zero =>
    constructor
    · intro n hn; rw [nsize_eq] at hn; omega
    · intro l hl
      cases l with
      | nil => rw [joinListN_nil]; simp [eraseList, C14.AllNFList]
      | cons c cs => simp only [nsizeList] at hl; have := nsize_eq c; omega
  | succ k ih =>
    have hnode : ∀ n, nsize n ≤ k + 1 → C14.AllNF (erase (joinNodeN n)) := by
      intro n hn
      rw [C14.AllNF_eq, erase_children, joinNodeN_children]
      constructor
      · -- the walk below changes no kind and no content of these siblings
        have : (eraseList (joinListN (fragmentsJoinN n.children))).map hd
            = (eraseList (fragmentsJoinN n.children)).map hd := by
          rw [joinListN_eq_map, eraseList_eq_map, eraseList_eq_map]
          simp [hd_erase_joinNodeN]
        exact (normalForm_congr this).mpr (normalForm_fragmentsJoinN _)
      · apply ih.2
        have := nsizeList_fragmentsJoinN_le n.children
        rw [nsize_eq] at hn; omega
    refine ⟨hnode, ?_⟩
    intro l hl
    induction l with
    | nil => rw [joinListN_nil]; simp [eraseList, C14.AllNFList]
    | cons c cs ihl =>
      rw [joinListN_cons]
      simp only [nsizeList] at hl
      have := nsize_eq c
      simp only [eraseList, C14.AllNFList]
      exact ⟨hnode c (by omega), ihl (by omega)⟩

/-- **After `FragmentsJoin::run` every node of the tree has its children in normal form** (no
    marker, no empty text, no two adjacent texts), at every depth — `C14.AllNF` of the projection. -/
theorem allNF_joinAllN (root : Node) : C14.AllNF (erase (joinAllN root)) :=
  (allNF_join_aux (nsize root)).1 root (Nat.le_refl _)

end MdIt.Inline
