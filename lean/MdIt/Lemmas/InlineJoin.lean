/-
  Helper development for `Props/Inline.lean`: the post pass on the rich node type is the post pass
  of `MdIt.Join` seen through the projection `erase`.
-/
import MdIt.Model.Inline
import MdIt.Props.C14

namespace MdIt.Inline
open MdIt.InlineOps (INode)

theorem erase_eq (n : Node) :
    erase n =
      match n.val with
      | .text c => { kind := .text, content := c, range := n.range, children := eraseList n.children, remaining := 0 }
      | .emphMarker m _ rem _ _ =>
        { kind := .marker m, content := [], range := n.range, children := eraseList n.children, remaining := rem }
      | v => { kind := .other v.code, content := [], range := n.range, children := eraseList n.children, remaining := 0 } := by
  obtain ⟨v, r, cs⟩ := n
  cases v <;> simp [erase]

theorem erase_isText (n : Node) : (erase n).isText = n.isText := by
  rw [erase_eq]; unfold Node.isText INode.isText; cases n.val <;> rfl

theorem erase_content (n : Node) : (erase n).content = n.content := by
  rw [erase_eq]; unfold Node.content; cases n.val <;> rfl

theorem erase_range (n : Node) : (erase n).range = n.range := by
  rw [erase_eq]; cases n.val <;> rfl

theorem erase_children (n : Node) : (erase n).children = eraseList n.children := by
  rw [erase_eq]; cases n.val <;> rfl

theorem eraseList_eq_map (l : List Node) : eraseList l = l.map erase := by
  induction l with
  | nil => rfl
  | cons c cs ih => simp [eraseList, ih]

theorem erase_isMarker (n : Node) :
    C14.isMarker (erase n) = (match n.val with | .emphMarker _ _ _ _ _ => true | _ => false) := by
  rw [erase_eq]; unfold C14.isMarker; cases n.val <;> rfl

theorem erase_markerToText (n : Node) : erase (markerToText n) = Join.markerToText (erase n) := by
  obtain ⟨v, r, cs⟩ := n
  cases v <;> simp [markerToText, Join.markerToText, erase]

theorem eraseList_pass1 (cs : List Node) : eraseList (pass1 cs) = Join.pass1 (eraseList cs) := by
  simp [eraseList_eq_map, pass1, Join.pass1, erase_markerToText]

theorem erase_emptied (n : Node) (h : n.isText = true) : erase (emptied n) = Join.emptied (erase n) := by
  obtain ⟨v, r, cs⟩ := n
  cases v <;> simp_all [emptied, Join.emptied, erase, Node.isText]

theorem erase_merged (t1 t2 : Node) (h1 : t1.isText = true) :
    erase (merged t1 t2) = Join.merged (erase t1) (erase t2) := by
  have hr2 := erase_range t2
  have hc2 := erase_content t2
  obtain ⟨v, r, cs⟩ := t1
  cases v <;> simp_all [merged, Join.merged, erase, Node.isText, Node.content]

theorem eraseList_mergeLoop (cur : Node) (rest : List Node) :
    eraseList (mergeLoop cur rest) = Join.mergeLoop (erase cur) (eraseList rest) := by
  induction rest generalizing cur with
  | nil => simp [mergeLoop, Join.mergeLoop, eraseList]
  | cons nxt rest ih =>
    simp only [mergeLoop, eraseList, Join.mergeLoop, erase_isText]
    split
    · next h =>
      simp only [Bool.and_eq_true] at h
      simp only [eraseList, ih, erase_emptied nxt h.2, erase_merged cur nxt h.1]
    · simp only [eraseList, ih]

theorem eraseList_mergeAll (l : List Node) : eraseList (mergeAll l) = Join.mergeAll (eraseList l) := by
  cases l with
  | nil => rfl
  | cons c r => simp [mergeAll, Join.mergeAll, eraseList, eraseList_mergeLoop]

theorem erase_keep (n : Node) : Join.keep (erase n) = keep n := by
  simp [Join.keep, keep, erase_isText, erase_content]

theorem eraseList_filter_keep (l : List Node) :
    eraseList (l.filter keep) = (eraseList l).filter Join.keep := by
  induction l with
  | nil => rfl
  | cons c cs ih =>
    simp only [List.filter_cons, eraseList, erase_keep]
    split <;> simp [eraseList, ih]

/-- `fragments_join` commutes with the projection -/
theorem eraseList_fragmentsJoinN (cs : List Node) :
    eraseList (fragmentsJoinN cs) = Join.fragmentsJoin (eraseList cs) := by
  rw [Join.fragmentsJoin_eq]
  unfold fragmentsJoinN Join.fragmentsJoinL
  rw [eraseList_filter_keep, eraseList_mergeAll, eraseList_pass1]

theorem joinNodeN_eq (n : Node) :
    joinNodeN n = { n with children := joinListN (fragmentsJoinN n.children) } := by
  rw [joinNodeN]

theorem joinListN_cons (c : Node) (cs : List Node) :
    joinListN (c :: cs) = joinNodeN c :: joinListN cs := by
  rw [joinListN]

theorem joinListN_nil : joinListN [] = [] := by rw [joinListN]

theorem erase_with_children (n : Node) (cs : List Node) :
    erase { n with children := cs } = { erase n with children := eraseList cs } := by
  obtain ⟨v, r, cs0⟩ := n
  cases v <;> simp [erase]

theorem erase_join_aux (k : Nat) :
    (∀ n, nsize n ≤ k → erase (joinNodeN n) = Join.joinNode (erase n)) ∧
    (∀ l, nsizeList l ≤ k → eraseList (joinListN l) = Join.joinList (eraseList l)) := by
  induction k with
  | zero =>
    constructor
    · intro n hn; rw [nsize_eq] at hn; omega
    · intro l hl
      cases l with
      | nil => rw [joinListN_nil]; simp [eraseList, Join.joinList]
      | cons c cs => simp only [nsizeList] at hl; have := nsize_eq c; omega
  | succ k ih =>
    have hnode : ∀ n, nsize n ≤ k + 1 → erase (joinNodeN n) = Join.joinNode (erase n) := by
      intro n hn
      rw [joinNodeN_eq, erase_with_children, Join.joinNode, erase_children]
      have hle := nsizeList_fragmentsJoinN_le n.children
      rw [nsize_eq] at hn
      rw [ih.2 _ (by omega), eraseList_fragmentsJoinN]
    refine ⟨hnode, ?_⟩
    intro l hl
    induction l with
    | nil => rw [joinListN_nil]; simp [eraseList, Join.joinList]
    | cons c cs ihl =>
      rw [joinListN_cons]
      simp only [nsizeList] at hl
      have := nsize_eq c
      simp only [eraseList]
      rw [Join.joinList, hnode c (by omega), ihl (by omega)]

/-- **`FragmentsJoin::run` commutes with the projection**: the post pass of this model IS
    `Join.joinAll` on what `MdIt.Join` can see of the tree -/
theorem erase_joinAllN (root : Node) : erase (joinAllN root) = Join.joinAll (erase root) :=
  (erase_join_aux (nsize root)).1 root (Nat.le_refl _)

end MdIt.Inline
