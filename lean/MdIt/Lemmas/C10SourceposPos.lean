/-
  C10 with the sourcepos plugin, part 1: line:column positions under the three rewritings.

  `get_position(o)` of a text is the state of the fold `runSt 1 0 src (o + 1)` (Props/C15.lean +
  Lemmas/SourceMap.lean: `getPosition_spec`, `spec_is_fold`) — line and column after the characters
  that start at a byte offset `≤ o`.  About that fold:

    runSt_lfToCr      '\r' ∉ src →  runSt l c (lfToCr src) n = runSt l c src n                (ALL n)
    runSt_append_left n ≤ |a|, no CR LF across the seam →  runSt l c (a ++ b) n = runSt l c a n
    runSt_lfToCrlf    '\r' ∉ src →  runSt l c (lfToCrlf src) (n + lfBelow src n) = runSt l c src n   (ALL n)

  and the consequences for `get_position` / `get_positions`.
-/
import MdIt.Props.C15
import MdIt.Model.Lines
import MdIt.Lemmas.C10SourceposDefs

namespace MdIt.C10SP
open MdIt.SourceMap
open MdIt.Lines (lfToCr lfToCrlf)

/-- `get_position` is the fold -/
theorem getPosition_run (src : List Char) (o : Nat) :
    getPosition src (mkMarks src) o = .ok (runSt 1 0 src (o + 1)) := by
  rw [getPosition_spec, spec_is_fold]

/-- the offset `get_positions` reads the end position at -/
def endOff (b : Nat) : Nat := if b > 0 then b - 1 else b

theorem getPositions_run (src : List Char) (r : Nat × Nat) :
    getPositions src (mkMarks src) r =
      .ok (runSt 1 0 src (r.1 + 1), runSt 1 0 src (endOff r.2 + 1)) := by
  unfold getPositions
  simp only [getPosition_run, endOff]

/-! ## LF ↦ CR -/

theorem lfToCr_head_ne (r : List Char) : (lfToCr r).head? ≠ some '\n' := by
  cases r with
  | nil => simp [lfToCr]
  | cons c r =>
    simp only [lfToCr]
    split
    · simp
    · rename_i h; simpa using h

theorem runSt_lfToCr (src : List Char) (h : '\r' ∉ src) (l c n : Nat) :
    runSt l c (lfToCr src) n = runSt l c src n := by
  induction src generalizing l c n with
  | nil => simp [lfToCr]
  | cons ch r ih =>
    have hr : '\r' ∉ r := fun hm => h (List.mem_cons_of_mem _ hm)
    have hch : ch ≠ '\r' := fun e => h (by simp [e])
    by_cases hn : n = 0
    · subst hn; simp
    · by_cases hc : ch = '\n'
      · subst hc
        have e1 : isEnd '\r' (lfToCr r).head? := .inr ⟨rfl, lfToCr_head_ne r⟩
        have e2 : isEnd '\n' r.head? := .inl rfl
        simp only [lfToCr, if_true, runSt, hn, if_false, e1, e2, utf8Size_cr, utf8Size_lf]
        exact ih hr _ _ _
      · have e1 : ¬ isEnd ch (lfToCr r).head? := by
          intro hh; rcases hh with hh | ⟨hh, _⟩
          · exact hc hh
          · exact hch hh
        have e2 : ¬ isEnd ch r.head? := by
          intro hh; rcases hh with hh | ⟨hh, _⟩
          · exact hc hh
          · exact hch hh
        simp only [lfToCr, if_neg hc, runSt, hn, if_false, e1, e2]
        exact ih hr _ _ _

/-- **LF ↦ CR: every offset has the same position.** -/
theorem getPositions_lfToCr (src : List Char) (h : '\r' ∉ src) (r : Nat × Nat) :
    getPositions (lfToCr src) (mkMarks (lfToCr src)) r = getPositions src (mkMarks src) r := by
  rw [getPositions_run, getPositions_run, runSt_lfToCr src h, runSt_lfToCr src h]

/-! ## text appended behind the offsets -/

theorem runSt_append_left (a b : List Char) (l c n : Nat) (hn : n ≤ byteLen a)
    (hseam : a.getLast? ≠ some '\r' ∨ b.head? ≠ some '\n') :
    runSt l c (a ++ b) n = runSt l c a n := by
  induction a generalizing l c n with
  | nil =>
    have : n = 0 := by simpa [byteLen] using hn
    subst this; simp
  | cons ch r ih =>
    by_cases hn0 : n = 0
    · subst hn0; simp
    · have hp := Char.utf8Size_pos ch
      simp only [byteLen] at hn
      by_cases hr : r = []
      · subst hr
        -- `ch` is the last character of `a`: everything behind it is beyond `n`
        have hle : n - ch.utf8Size = 0 := by simp only [byteLen] at hn; omega
        simp only [List.nil_append, List.cons_append, runSt, hn0, if_false, hle, runSt_zero]
        have : (isEnd ch b.head?) ↔ (isEnd ch ([] : List Char).head?) := by
          unfold isEnd
          constructor
          · rintro (h | ⟨h1, _⟩)
            · exact .inl h
            · exact .inr ⟨h1, by simp⟩
          · rintro (h | ⟨h1, _⟩)
            · exact .inl h
            · subst h1
              rcases hseam with hs | hs
              · simp at hs
              · exact .inr ⟨rfl, hs⟩
        by_cases he : isEnd ch b.head?
        · rw [if_pos he, if_pos (this.mp he)]
        · rw [if_neg he, if_neg (fun h => he (this.mpr h))]
      · have hhead : (r ++ b).head? = r.head? := by
          cases r with
          | nil => exact absurd rfl hr
          | cons x y => rfl
        have hlast : r.getLast? ≠ some '\r' ∨ b.head? ≠ some '\n' := by
          rcases hseam with hs | hs
          · left; rwa [List.getLast?_cons_of_ne_nil hr] at hs
          · exact .inr hs
        simp only [List.cons_append, runSt, hn0, if_false, hhead]
        split
        · exact ih _ _ _ (by omega) hlast
        · exact ih _ _ _ (by omega) hlast

/-- **a final newline: offsets inside the old text keep their position** -/
theorem getPosition_final_newline (src : List Char) (hlast : src.getLast? ≠ some '\r') (o : Nat)
    (ho : o < byteLen src) :
    getPosition (src ++ ['\n']) (mkMarks (src ++ ['\n'])) o = getPosition src (mkMarks src) o := by
  rw [getPosition_run, getPosition_run, runSt_append_left src ['\n'] 1 0 (o + 1) (by omega) (.inl hlast)]

/-- a range inside the old text: it starts at one of the old bytes and ends at or before the old end -/
def Inside (src : List Char) (r : Nat × Nat) : Prop := r.1 < byteLen src ∧ r.2 ≤ byteLen src

instance (src : List Char) (r : Nat × Nat) : Decidable (Inside src r) := by unfold Inside; infer_instance

theorem getPositions_final_newline (src : List Char) (hlast : src.getLast? ≠ some '\r') (r : Nat × Nat)
    (hin : Inside src r) :
    getPositions (src ++ ['\n']) (mkMarks (src ++ ['\n'])) r = getPositions src (mkMarks src) r := by
  obtain ⟨h1, h2⟩ := hin
  have h3 : endOff r.2 + 1 ≤ byteLen src := by unfold endOff; split <;> omega
  rw [getPositions_run, getPositions_run, runSt_append_left src ['\n'] 1 0 _ (by omega) (.inl hlast),
    runSt_append_left src ['\n'] 1 0 _ h3 (.inl hlast)]

/-! ## LF ↦ CR LF -/

theorem runSt_lfToCrlf (src : List Char) (h : '\r' ∉ src) (l c n : Nat) :
    runSt l c (lfToCrlf src) (n + lfBelow src n) = runSt l c src n := by
  induction src generalizing l c n with
  | nil => simp [lfToCrlf, runSt]
  | cons ch r ih =>
    have hr : '\r' ∉ r := fun hm => h (List.mem_cons_of_mem _ hm)
    have hch : ch ≠ '\r' := fun e => h (by simp [e])
    by_cases hn : n = 0
    · subst hn; simp
    · by_cases hc : ch = '\n'
      · subst hc
        have e0 : ¬ isEnd '\r' (('\n' :: lfToCrlf r).head?) := by
          intro hh; rcases hh with hh | ⟨_, hh⟩
          · exact absurd hh (by decide)
          · simp at hh
        have e1 : isEnd '\n' (lfToCrlf r).head? := .inl rfl
        have e2 : isEnd '\n' r.head? := .inl rfl
        have k1 : n + (1 + lfBelow r (n - 1)) ≠ 0 := by omega
        have k2 : n + (1 + lfBelow r (n - 1)) - 1 ≠ 0 := by omega
        have k3 : n + (1 + lfBelow r (n - 1)) - 1 - 1 = (n - 1) + lfBelow r (n - 1) := by omega
        simp only [lfToCrlf, if_true, lfBelow, hn, if_false, utf8Size_lf]
        rw [runSt, if_neg k1, if_neg e0, utf8Size_cr, runSt, if_neg k2, if_pos e1, utf8Size_lf, k3,
          runSt, if_neg hn, if_pos e2, utf8Size_lf]
        exact ih hr _ _ _
      · have e1 : ¬ isEnd ch (lfToCrlf r).head? := by
          intro hh; rcases hh with hh | ⟨hh, _⟩
          · exact hc hh
          · exact hch hh
        have e2 : ¬ isEnd ch r.head? := by
          intro hh; rcases hh with hh | ⟨hh, _⟩
          · exact hc hh
          · exact hch hh
        have hp := Char.utf8Size_pos ch
        have k1 : n + (0 + lfBelow r (n - ch.utf8Size)) ≠ 0 := by omega
        simp only [lfToCrlf, if_neg hc, lfBelow, hn, if_false]
        rw [runSt, if_neg k1, if_neg e1, runSt, if_neg hn, if_neg e2]
        by_cases hle : ch.utf8Size ≤ n
        · have k3 : n + (0 + lfBelow r (n - ch.utf8Size)) - ch.utf8Size
              = (n - ch.utf8Size) + lfBelow r (n - ch.utf8Size) := by omega
          rw [k3]
          exact ih hr _ _ _
        · -- the offset lies inside the (multi-byte) character: nothing behind it is counted
          have k4 : n - ch.utf8Size = 0 := by omega
          have k5 : n + (0 + lfBelow r (n - ch.utf8Size)) - ch.utf8Size = 0 := by rw [k4]; simp; omega
          rw [k5, k4]
          simp

/-- the byte at offset `a` is not a line feed (past the end included) -/
def NotLf (src : List Char) (a : Nat) : Prop := charAt src a ≠ some '\n'

instance (src : List Char) (a : Nat) : Decidable (NotLf src a) := by unfold NotLf; infer_instance

/-- an offset that does not point at a line feed: the line feeds below `a + 1` are those below `a` -/
theorem lfBelow_succ (src : List Char) (a : Nat) (h : NotLf src a) :
    lfBelow src (a + 1) = lfBelow src a := by
  unfold NotLf at h
  induction src generalizing a with
  | nil => simp
  | cons ch r ih =>
    have hp := Char.utf8Size_pos ch
    by_cases ha : a = 0
    · subst ha
      have hc : ch ≠ '\n' := by simpa [charAt] using h
      simp only [lfBelow, if_neg hc]
      simp
      by_cases h1 : 1 - ch.utf8Size = 0
      · rw [h1]; simp
      · omega
    · simp only [lfBelow, ha, if_false, show a + 1 ≠ 0 by omega]
      by_cases hlt : a < ch.utf8Size
      · have k1 : a + 1 - ch.utf8Size = 0 := by omega
        have k2 : a - ch.utf8Size = 0 := by omega
        rw [k1, k2]
      · have k1 : a + 1 - ch.utf8Size = (a - ch.utf8Size) + 1 := by omega
        rw [k1, ih]
        simpa [charAt, ha, hlt] using h

/-- **LF ↦ CR LF, start of a range**: an offset that does not point at a line feed and its image
    have the same position -/
theorem getPosition_crlf_start (src : List Char) (h : '\r' ∉ src) (a : Nat) (ha : NotLf src a) :
    getPosition (lfToCrlf src) (mkMarks (lfToCrlf src)) (a + lfBelow src a) =
      getPosition src (mkMarks src) a := by
  rw [getPosition_run, getPosition_run, ← runSt_lfToCrlf src h 1 0 (a + 1), lfBelow_succ src a ha]
  congr 2; omega

/-- **LF ↦ CR LF, end of a range**: `end - 1` and `end' - 1` have the same position for EVERY
    `end > 0` — also when `end - 1` is a line feed (then `end' - 1` is the LF of the CR LF pair) -/
theorem getPosition_crlf_end (src : List Char) (h : '\r' ∉ src) (b : Nat) (hb : 0 < b) :
    getPosition (lfToCrlf src) (mkMarks (lfToCrlf src)) (endOff (b + lfBelow src b)) =
      getPosition src (mkMarks src) (endOff b) := by
  have e1 : endOff (b + lfBelow src b) + 1 = b + lfBelow src b := by unfold endOff; split <;> omega
  have e2 : endOff b + 1 = b := by unfold endOff; split <;> omega
  rw [getPosition_run, getPosition_run, e1, e2, runSt_lfToCrlf src h]

/-- a range whose start does not point at a line feed and whose end is not 0 -/
def Anchored (src : List Char) (r : Nat × Nat) : Prop := NotLf src r.1 ∧ 0 < r.2

instance (src : List Char) (r : Nat × Nat) : Decidable (Anchored src r) := by unfold Anchored; infer_instance

theorem getPositions_crlf (src : List Char) (h : '\r' ∉ src) (r : Nat × Nat) (hr : Anchored src r) :
    getPositions (lfToCrlf src) (mkMarks (lfToCrlf src)) (r.1 + lfBelow src r.1, r.2 + lfBelow src r.2) =
      getPositions src (mkMarks src) r := by
  have h1 := getPosition_crlf_start src h r.1 hr.1
  have h2 := getPosition_crlf_end src h r.2 hr.2
  rw [getPosition_run, getPosition_run] at h1 h2
  rw [getPositions_run, getPositions_run]
  simp only [Except.ok.injEq] at h1 h2
  rw [h1, h2]

/-- the start hypothesis is needed: in `"a\nb"` the offset 1 is the line feed, position `2:0`; its
    image in `"a\r\nb"` is the CR, position `1:2` -/
example : posIs (getPosition "a\nb".toList (mkMarks "a\nb".toList) 1) (2, 0) = true ∧
    posIs (getPosition "a\r\nb".toList (mkMarks "a\r\nb".toList) 1) (1, 2) = true := by decide +kernel

/-- `Inside` is needed: the end of `"a"` is clamped to `1:1`, in `"a\n"` it is the line feed, `2:0` -/
example : posIs (getPosition "a".toList (mkMarks "a".toList) 1) (1, 1) = true ∧
    posIs (getPosition "a\n".toList (mkMarks "a\n".toList) 1) (2, 0) = true := by decide +kernel

end MdIt.C10SP
